package main

// confine: run a whole case file with ONLY the built-in functions (plus the
// in-memory trace functions of the harness), between two marker system
// calls, so that an strace log can be checked for file / network / process
// access made while scripts run.  Script output goes to the real stdout.

import (
	"bufio"
	"fmt"
	"os"
	"strings"
)

func confineRun(path string) {
	fh, err := os.Open(path)
	if err != nil {
		fmt.Fprintln(os.Stderr, err)
		os.Exit(2)
	}
	var cases []kv
	sc := bufio.NewScanner(fh)
	sc.Buffer(make([]byte, 1<<20), 1<<28)
	for sc.Scan() {
		line := sc.Text()
		if line == "" || line[0] == '#' {
			continue
		}
		cases = append(cases, parseLine(line))
	}
	fh.Close()
	// warm up what the Go runtime / time package loads lazily on first use
	os.Stat("/VERIF-MARKER-START")
	var results []string
	for _, c := range cases {
		c["noora"] = "1"
		results = append(results, "id="+c["id"]+"\t"+runHistory(c))
	}
	os.Stat("/VERIF-MARKER-END")
	fmt.Fprintln(os.Stderr, strings.Join(results, "\n"))
}

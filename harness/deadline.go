package main

// deadline: wall-clock deadlines and cancellation against the real evaluator.

import (
	"context"
	"encoding/json"
	"fmt"
	"os"
	"time"

	evalfilter "github.com/skx/evalfilter/v2"
	"github.com/skx/evalfilter/v2/object"
)

type deadlineSpec struct {
	Name       string `json:"name"`
	Script     string `json:"script"`
	DeadlineMs int    `json:"deadline_ms"`
	CancelMs   int    `json:"cancel_ms"`
}

func deadlineRuns(path string) {
	data, err := os.ReadFile(path)
	if err != nil {
		fmt.Fprintln(os.Stderr, err)
		os.Exit(2)
	}
	var specs []deadlineSpec
	if err := json.Unmarshal(data, &specs); err != nil {
		fmt.Fprintln(os.Stderr, err)
		os.Exit(2)
	}
	for i, s := range specs {
		hostcalls := 0
		e := evalfilter.New(s.Script)
		e.AddFunction("t", func(args []object.Object) object.Object { hostcalls++; return &object.Void{} })
		var ctx context.Context
		var cancel context.CancelFunc
		if s.DeadlineMs >= 0 {
			ctx, cancel = context.WithTimeout(context.Background(), time.Duration(s.DeadlineMs)*time.Millisecond)
		} else {
			ctx, cancel = context.WithCancel(context.Background())
		}
		if s.DeadlineMs == 0 {
			time.Sleep(2 * time.Millisecond) // make sure it has expired
		}
		e.SetContext(ctx)
		if err := e.Prepare(); err != nil {
			fmt.Fprintf(realStdout, "{\"i\":%d,\"returned\":true,\"err\":true,\"errtext\":\"prepare\",\"elapsed_ms\":0}\n", i)
			cancel()
			continue
		}
		type res struct {
			err error
			d   time.Duration
		}
		done := make(chan res, 1)
		start := time.Now()
		if s.CancelMs >= 0 {
			go func() {
				time.Sleep(time.Duration(s.CancelMs) * time.Millisecond)
				cancel()
			}()
		}
		go func() {
			_, err := e.Run(nil)
			done <- res{err, time.Since(start)}
		}()
		select {
		case r := <-done:
			et := ""
			if r.err != nil {
				et = r.err.Error()
			}
			b, _ := json.Marshal(map[string]interface{}{"i": i, "returned": true, "err": r.err != nil, "errtext": et,
				"elapsed_ms": float64(r.d.Microseconds()) / 1000.0, "hostcalls": hostcalls})
			fmt.Fprintln(realStdout, string(b))
		case <-time.After(3 * time.Second):
			fmt.Fprintf(realStdout, "{\"i\":%d,\"returned\":false,\"err\":false,\"elapsed_ms\":3000}\n", i)
		}
		cancel()
	}
}

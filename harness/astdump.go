package main

import (
	"fmt"
	"math"
	"reflect"
	"sort"
	"strings"

	"github.com/skx/evalfilter/v2/ast"
)

// dumpNode prints the tree in the canonical S-expression form shared with
// the model driver.
func dumpNode(n ast.Node, b *strings.Builder) {
	if n == nil || (reflect.ValueOf(n).Kind() == reflect.Ptr && reflect.ValueOf(n).IsNil()) {
		b.WriteString("(nil)")
		return
	}
	switch v := n.(type) {
	case *ast.Program:
		b.WriteString("(prog")
		for _, s := range v.Statements {
			b.WriteString(" ")
			dumpNode(s, b)
		}
		b.WriteString(")")
	case *ast.ReturnStatement:
		b.WriteString("(ret ")
		dumpNode(v.ReturnValue, b)
		b.WriteString(")")
	case *ast.ExpressionStatement:
		b.WriteString("(es ")
		dumpNode(v.Expression, b)
		b.WriteString(")")
	case *ast.BlockStatement:
		b.WriteString("(block")
		for _, s := range v.Statements {
			b.WriteString(" ")
			dumpNode(s, b)
		}
		b.WriteString(")")
	case *ast.IntegerLiteral:
		fmt.Fprintf(b, "(int %s %d)", hx(v.Token.Literal), v.Value)
	case *ast.FloatLiteral:
		fmt.Fprintf(b, "(float %s %016x)", hx(v.Token.Literal), math.Float64bits(v.Value))
	case *ast.StringLiteral:
		fmt.Fprintf(b, "(str %s)", hx(v.Value))
	case *ast.BooleanLiteral:
		if v.Value {
			b.WriteString("(bool 1)")
		} else {
			b.WriteString("(bool 0)")
		}
	case *ast.RegexpLiteral:
		fmt.Fprintf(b, "(re %s %s)", hx(v.Value), hx(v.Flags))
	case *ast.Identifier:
		fmt.Fprintf(b, "(id %s)", hx(v.Value))
	case *ast.PrefixExpression:
		fmt.Fprintf(b, "(pre %s ", hx(v.Operator))
		dumpNode(v.Right, b)
		b.WriteString(")")
	case *ast.InfixExpression:
		fmt.Fprintf(b, "(in %s ", hx(v.Operator))
		dumpNode(v.Left, b)
		b.WriteString(" ")
		dumpNode(v.Right, b)
		b.WriteString(")")
	case *ast.PostfixExpression:
		fmt.Fprintf(b, "(post %s %s)", hx(v.Token.Literal), hx(v.Operator))
	case *ast.TernaryExpression:
		b.WriteString("(tern ")
		dumpNode(v.Condition, b)
		b.WriteString(" ")
		dumpNode(v.IfTrue, b)
		b.WriteString(" ")
		dumpNode(v.IfFalse, b)
		b.WriteString(")")
	case *ast.ArrayLiteral:
		b.WriteString("(arr")
		for _, e := range v.Elements {
			b.WriteString(" ")
			dumpNode(e, b)
		}
		b.WriteString(")")
	case *ast.HashLiteral:
		b.WriteString("(hash")
		var keys []ast.Expression
		kf := reflect.ValueOf(v).Elem().FieldByName("Keys")
		if kf.IsValid() && kf.Len() == len(v.Pairs) {
			for i := 0; i < kf.Len(); i++ {
				keys = append(keys, kf.Index(i).Interface().(ast.Expression))
			}
		} else {
			// no recorded order: canonicalise by printed form
			for k := range v.Pairs {
				keys = append(keys, k)
			}
			sort.SliceStable(keys, func(i, j int) bool {
				var x, y strings.Builder
				dumpNode(keys[i], &x)
				dumpNode(v.Pairs[keys[i]], &x)
				dumpNode(keys[j], &y)
				dumpNode(v.Pairs[keys[j]], &y)
				return x.String() < y.String()
			})
			if len(keys) > 1 {
				b.WriteString("-unordered")
			}
		}
		for _, k := range keys {
			b.WriteString(" (")
			dumpNode(k, b)
			b.WriteString(" ")
			dumpNode(v.Pairs[k], b)
			b.WriteString(")")
		}
		b.WriteString(")")
	case *ast.IndexExpression:
		b.WriteString("(idx ")
		dumpNode(v.Left, b)
		b.WriteString(" ")
		dumpNode(v.Index, b)
		b.WriteString(")")
	case *ast.CallExpression:
		b.WriteString("(call ")
		dumpNode(v.Function, b)
		for _, e := range v.Arguments {
			b.WriteString(" ")
			dumpNode(e, b)
		}
		b.WriteString(")")
	case *ast.AssignStatement:
		name := ""
		if v.Name != nil {
			name = v.Name.Value
		}
		fmt.Fprintf(b, "(assign %s ", hx(name))
		dumpNode(v.Value, b)
		b.WriteString(")")
	case *ast.LocalVariable:
		fmt.Fprintf(b, "(local %s)", hx(v.Token.Literal))
	case *ast.IfExpression:
		b.WriteString("(if ")
		dumpNode(v.Condition, b)
		b.WriteString(" ")
		dumpNode(v.Consequence, b)
		if v.Alternative != nil {
			b.WriteString(" ")
			dumpNode(v.Alternative, b)
		} else {
			b.WriteString(" noelse")
		}
		b.WriteString(")")
	case *ast.WhileStatement:
		b.WriteString("(while ")
		dumpNode(v.Condition, b)
		b.WriteString(" ")
		dumpNode(v.Body, b)
		b.WriteString(")")
	case *ast.ForeachStatement:
		fmt.Fprintf(b, "(foreach %s %s ", hx(v.Index), hx(v.Ident))
		dumpNode(v.Value, b)
		b.WriteString(" ")
		dumpNode(v.Body, b)
		b.WriteString(")")
	case *ast.FunctionDefinition:
		fmt.Fprintf(b, "(fn %s (", hx(v.Token.Literal))
		for i, p := range v.Parameters {
			if i > 0 {
				b.WriteString(" ")
			}
			b.WriteString(hx(p.Value))
		}
		b.WriteString(") ")
		dumpNode(v.Body, b)
		b.WriteString(")")
	case *ast.SwitchExpression:
		b.WriteString("(switch ")
		dumpNode(v.Value, b)
		for _, c := range v.Choices {
			b.WriteString(" ")
			dumpNode(c, b)
		}
		b.WriteString(")")
	case *ast.CaseExpression:
		b.WriteString("(case")
		if v.Default {
			b.WriteString(" default")
		} else {
			for _, e := range v.Expr {
				b.WriteString(" ")
				dumpNode(e, b)
			}
		}
		b.WriteString(" ")
		dumpNode(v.Block, b)
		b.WriteString(")")
	default:
		fmt.Fprintf(b, "(unknown %T)", n)
	}
}

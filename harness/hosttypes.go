package main

// Host struct types that reflect.StructOf cannot build: unexported fields, embedded structs.
// K<k>(<hex name>,<count>) in a case file builds one of them (run.go: buildHost).

import (
	"os"
	"path/filepath"
	"strconv"
	"strings"
	"time"
)

type privInner struct{ X int }

// PubInner is embedded by value in hK5.
type PubInner struct {
	ID int
	Y  int
}

type hK1 struct { // unexported fields of kinds the engine can read
	Name   string
	Count  int
	priv   int
	secret string
	ratio  float64
	flag   bool
}
type hK2 struct { // unexported fields of kinds it cannot represent
	Name  string
	Count int
	p     *int
	when  time.Time
	inn   PubInner
	i     interface{}
}
type hK3 struct { // unexported containers
	Name  string
	l     []int
	m     map[string]interface{}
	s     []interface{}
	Count int
}
type hK4 struct { // an unexported embedded struct
	privInner
	Name  string
	Count int
}
type hK5 struct { // an exported embedded struct, declared after a field of the same name
	ID int
	PubInner
	Name string
}

type hK6 struct { // two fields holding the SAME map, and two maps that were never made
	Name     string
	Billing  map[string]interface{}
	Shipping map[string]interface{}
	NilA     map[string]interface{}
	NilB     map[string]string
	Count    int
}

type hK8 struct { // a record with METHODS: nothing a script writes may call them
	Name  string
	Count int
}

func (h hK8) sideEffect(what string) {
	methodCalls++
	_ = os.WriteFile(filepath.Join(os.TempDir(), "evalfilter-verif-method-"+what), []byte(h.Name), 0o600)
}

// Discard, Touch, Secret and Size are exported, take no arguments and return one value.
func (h hK8) Discard() bool  { h.sideEffect("discard"); return true }
func (h hK8) Touch() string  { h.sideEffect("touch"); return "touched" }
func (h hK8) Secret() string { h.sideEffect("secret"); return "s3cr3t" }
func (h *hK8) Size() int     { h.sideEffect("size"); return 42 }

var methodCalls int

func buildStatic(s string) interface{} {
	body := s[3 : len(s)-1]
	parts := strings.SplitN(body, ",", 2)
	name := unhex(parts[0])
	n, _ := strconv.Atoi(parts[1])
	three := 3
	switch s[1] {
	case '1':
		return hK1{name, n, 3, "s3cr3t", 2.5, true}
	case '2':
		return hK2{name, n, &three, time.Unix(5, 0), PubInner{1, 2}, 3}
	case '3':
		return hK3{name, []int{1, 2}, map[string]interface{}{"a": 1, "b": []int{1}, "c": PubInner{1, 2}, "d": "x"}, []interface{}{1, "x"}, n}
	case '4':
		return hK4{privInner{9}, name, n}
	case '5':
		return &hK5{n, PubInner{99, 2}, name}
	case '6':
		shared := map[string]interface{}{"city": name, "zip": n}
		return hK6{name, shared, shared, nil, nil, n}
	case '8':
		return hK8{name, n}
	case '9':
		return &hK8{name, n}
	case '7': // a document that uses one sub-map under two keys, and once more one level down
		shared := map[string]interface{}{"city": name, "zip": n}
		return map[string]interface{}{"Name": name, "Count": n, "x": shared, "y": shared, "z": map[string]interface{}{"inner": shared}}
	}
	panic("bad static host type " + s)
}

package main

// conc: concurrent use of evaluators (built with -race by the C11 check).

import (
	"encoding/json"
	"fmt"
	"os"
	"sort"
	"strings"
	"sync"
	"time"

	evalfilter "github.com/skx/evalfilter/v2"
	"github.com/skx/evalfilter/v2/object"
)

type concSpec struct {
	Kind       string   `json:"kind"` // shared | counter | separate
	Script     string   `json:"script"`
	Scripts    []string `json:"scripts"`
	Objs       []string `json:"objs"` // host value encodings
	Goroutines int      `json:"goroutines"`
	Rounds     int      `json:"rounds"`
	SharedVar  bool     `json:"sharedvar"` // separate: every evaluator is given the SAME array and hash objects as variables
}

func concRuns(path string) {
	data, err := os.ReadFile(path)
	if err != nil {
		fmt.Fprintln(os.Stderr, err)
		os.Exit(2)
	}
	var specs []concSpec
	if err := json.Unmarshal(data, &specs); err != nil {
		fmt.Fprintln(os.Stderr, err)
		os.Exit(2)
	}
	for i, s := range specs {
		out := map[string]interface{}{"i": i, "kind": s.Kind}
		switch s.Kind {
		case "shared", "counter", "shared-host":
			// sequential reference on a fresh evaluator
			ref := evalfilter.New(s.Script)
			pause := func(args []object.Object) object.Object {
				// a host function during which other goroutines get to call Run on the same evaluator
				time.Sleep(200 * time.Microsecond)
				if len(args) > 0 {
					return args[0]
				}
				return &object.Null{}
			}
			if s.Kind == "shared-host" {
				ref.AddFunction("pause", pause)
			}
			if err := ref.Prepare(); err != nil {
				out["error"] = "prepare: " + err.Error()
				break
			}
			var want []string
			for r := 0; r < s.Rounds; r++ {
				for g := 0; g < s.Goroutines; g++ {
					obj := buildHost(s.Objs[(g+r)%len(s.Objs)])
					b, err := ref.Run(obj)
					want = append(want, fmt.Sprintf("%d:%v:%v", (g+r)%len(s.Objs), b, err != nil))
				}
			}
			e := evalfilter.New(s.Script)
			if s.Kind == "shared-host" {
				e.AddFunction("pause", pause)
			}
			if err := e.Prepare(); err != nil {
				out["error"] = "prepare: " + err.Error()
				break
			}
			var mu sync.Mutex
			var got []string
			var wg sync.WaitGroup
			for g := 0; g < s.Goroutines; g++ {
				wg.Add(1)
				go func(g int) {
					defer wg.Done()
					for r := 0; r < s.Rounds; r++ {
						obj := buildHost(s.Objs[(g+r)%len(s.Objs)])
						b, err := e.Run(obj)
						mu.Lock()
						got = append(got, fmt.Sprintf("%d:%v:%v", (g+r)%len(s.Objs), b, err != nil))
						mu.Unlock()
					}
				}(g)
			}
			wg.Wait()
			if s.Kind == "counter" {
				n := e.GetVariable("n")
				out["counter"] = n.Inspect()
				out["expected"] = fmt.Sprint(s.Goroutines * s.Rounds)
				out["ok"] = n.Inspect() == fmt.Sprint(s.Goroutines*s.Rounds)
			} else {
				sort.Strings(want)
				sort.Strings(got)
				same := len(want) == len(got)
				for k := 0; same && k < len(want); k++ {
					same = want[k] == got[k]
				}
				out["ok"] = same
				out["runs"] = len(got)
			}
		case "separate":
			var wg sync.WaitGroup
			results := make([]string, s.Goroutines)
			// values no script modifies, handed to all the evaluators (an allow-list the host builds once)
			sharedArr := &object.Array{Elements: []object.Object{&object.String{Value: "bob"}, &object.String{Value: "alice"}, &object.Integer{Value: 7},
				&object.String{Value: "a"}, &object.String{Value: "b"}, &object.String{Value: "c"}, &object.Float{Value: 2.5}}}
			sharedStr := &object.String{Value: "héllo wörld"}
			for g := 0; g < s.Goroutines; g++ {
				wg.Add(1)
				go func(g int) {
					defer wg.Done()
					tmpl := s.Scripts[g%len(s.Scripts)]
					acc := ""
					for r := 0; r < s.Rounds; r++ {
						// @U@ becomes text no other evaluator of this process has used: a pattern
						// containing it has never been compiled before (no warm caches)
						src := strings.ReplaceAll(tmpl, "@U@", fmt.Sprintf("q%dx%dx%d", i, g, r))
						e := evalfilter.New(src)
						e.AddFunction("t", func(args []object.Object) object.Object { return &object.Void{} })
						if s.SharedVar {
							e.SetVariable("allow", sharedArr)
							e.SetVariable("greeting", sharedStr)
						}
						if err := e.Prepare(); err != nil {
							acc += "P"
							continue
						}
						for _, o := range s.Objs {
							v, err := e.Execute(buildHost(o))
							if err != nil {
								acc += "E"
							} else {
								acc += v.Inspect() + ";"
							}
						}
					}
					results[g] = acc
				}(g)
			}
			wg.Wait()
			// every goroutine running the same script must have seen the same results
			ok := true
			first := map[int]string{}
			for g, r := range results {
				k := g % len(s.Scripts)
				if f, seen := first[k]; seen {
					if f != r {
						ok = false
					}
				} else {
					first[k] = r
				}
			}
			out["ok"] = ok
		}
		b, _ := json.Marshal(out)
		fmt.Fprintln(realStdout, string(b))
	}
}

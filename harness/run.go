package main

// run cases: drive the real evaluator through a history of API operations
// and print every projected observable in canonical form.

import (
	"runtime/debug"
	"bufio"
	"context"
	"fmt"
	"math"
	"os"
	"reflect"
	"regexp"
	"sort"
	"strconv"
	"strings"
	"sync"
	"time"

	evalfilter "github.com/skx/evalfilter/v2"
	"github.com/skx/evalfilter/v2/environment"
	"github.com/skx/evalfilter/v2/object"
)

// ---------------------------------------------------------------- values

func encValue(o object.Object) string {
	if o == nil || (reflect.ValueOf(o).Kind() == reflect.Ptr && reflect.ValueOf(o).IsNil()) {
		return "NIL"
	}
	switch v := o.(type) {
	case *object.Integer:
		return "i" + strconv.FormatInt(v.Value, 10)
	case *object.Float:
		if math.IsNaN(v.Value) {
			return "fNaN" // NaN payloads are not compared
		}
		return fmt.Sprintf("f%016x", math.Float64bits(v.Value))
	case *object.String:
		return "s" + hx(v.Value)
	case *object.Boolean:
		if v.Value {
			return "b1"
		}
		return "b0"
	case *object.Null:
		return "n"
	case *object.Void:
		return "v"
	case *object.Regexp:
		return "r" + hx(v.Value)
	case *object.Array:
		parts := make([]string, len(v.Elements))
		for i, e := range v.Elements {
			parts[i] = encValue(e)
		}
		return "a(" + strings.Join(parts, ",") + ")"
	case *object.Hash:
		var parts []string
		for _, p := range v.Pairs {
			parts = append(parts, encValue(p.Key)+"="+encValue(p.Value))
		}
		sort.Strings(parts)
		return "h(" + strings.Join(parts, ",") + ")"
	}
	return "UNKNOWN:" + string(o.Type())
}

// splitTop splits s at the separator, ignoring separators inside parentheses.
func splitTop(s string, sep byte) []string {
	if s == "" {
		return nil
	}
	var out []string
	depth := 0
	start := 0
	for i := 0; i < len(s); i++ {
		switch s[i] {
		case '(':
			depth++
		case ')':
			depth--
		default:
			if s[i] == sep && depth == 0 {
				out = append(out, s[start:i])
				start = i + 1
			}
		}
	}
	return append(out, s[start:])
}

func decValue(s string) object.Object {
	switch s[0] {
	case 'i':
		n, _ := strconv.ParseInt(s[1:], 10, 64)
		return &object.Integer{Value: n}
	case 'f':
		if s == "fNaN" {
			return &object.Float{Value: math.NaN()}
		}
		b, _ := strconv.ParseUint(s[1:], 16, 64)
		return &object.Float{Value: math.Float64frombits(b)}
	case 's':
		return &object.String{Value: unhex(s[1:])}
	case 'b':
		return &object.Boolean{Value: s[1] == '1'}
	case 'n':
		return &object.Null{}
	case 'v':
		return &object.Void{}
	case 'r':
		return &object.Regexp{Value: unhex(s[1:])}
	case 'a':
		arr := &object.Array{}
		for _, p := range splitTop(s[2:len(s)-1], ',') {
			arr.Elements = append(arr.Elements, decValue(p))
		}
		return arr
	case 'h':
		h := &object.Hash{Pairs: map[object.HashKey]object.HashPair{}}
		for _, p := range splitTop(s[2:len(s)-1], ',') {
			kv := splitTop(p, '=')
			k := decValue(kv[0])
			h.Pairs[k.(object.Hashable).HashKey()] = object.HashPair{Key: k, Value: decValue(kv[1])}
		}
		return h
	}
	panic("bad value " + s)
}

// ---------------------------------------------------------------- host objects

func hostType(s string) reflect.Type {
	v := buildHost(s)
	if v == nil {
		return reflect.TypeOf((*interface{})(nil)).Elem()
	}
	return reflect.TypeOf(v)
}

// buildHost materialises a host value description as a Go value.
func buildHost(s string) interface{} {
	switch s[0] {
	case 'N':
		return nil
	case 'I':
		p := strings.SplitN(s[1:], ".", 2)
		n, _ := strconv.ParseInt(p[1], 10, 64)
		switch p[0] {
		case "0":
			return int(n)
		case "8":
			return int8(n)
		case "16":
			return int16(n)
		case "32":
			return int32(n)
		default:
			return int64(n)
		}
	case 'U':
		p := strings.SplitN(s[1:], ".", 2)
		n, _ := strconv.ParseUint(p[1], 10, 64)
		switch p[0] {
		case "0":
			return uint(n)
		case "8":
			return uint8(n)
		case "16":
			return uint16(n)
		case "32":
			return uint32(n)
		default:
			return uint64(n)
		}
	case 'F':
		p := strings.SplitN(s[1:], ".", 2)
		b, _ := strconv.ParseUint(p[1], 16, 64)
		f := math.Float64frombits(b)
		if p[0] == "32" {
			return float32(f)
		}
		return f
	case 'S':
		return unhex(s[1:])
	case 'B':
		return s[1] == '1'
	case 'T':
		n, _ := strconv.ParseInt(s[1:], 10, 64)
		return time.Unix(n, 0)
	case 'L': // L<i|t>(...)
		parts := splitTop(s[3:len(s)-1], ',')
		if s[1] == 't' && len(parts) > 0 {
			et := hostType(parts[0])
			sl := reflect.MakeSlice(reflect.SliceOf(et), 0, len(parts))
			for _, p := range parts {
				v := buildHost(p)
				if v == nil || reflect.TypeOf(v) != et {
					continue
				}
				sl = reflect.Append(sl, reflect.ValueOf(v))
			}
			return sl.Interface()
		}
		out := make([]interface{}, 0, len(parts))
		for _, p := range parts {
			out = append(out, buildHost(p))
		}
		return out
	case 'M':
		m := map[string]interface{}{}
		for _, p := range splitTop(s[2:len(s)-1], ',') {
			kv := splitTop(p, '=')
			m[unhex(kv[0])] = buildHost(kv[1])
		}
		return m
	case 'J': // J(k=v,...): a map[interface{}]interface{} holding the given string keys AND keys that are not strings
		m := map[interface{}]interface{}{}
		for _, p := range splitTop(s[2:len(s)-1], ',') {
			kv := splitTop(p, '=')
			m[unhex(kv[0])] = buildHost(kv[1])
		}
		m[1] = "one"
		m[int64(7)] = "seven"
		m[2.5] = 2
		m[true] = false
		m[[2]int{1, 2}] = "pair"
		m[struct{ A int }{3}] = "struct"
		return m
	case 'O': // O<0|1>(k=v,...): maps that are not map[string]interface{}
		parts := splitTop(s[3:len(s)-1], ',')
		if s[1] == '0' {
			m := map[string]string{}
			for _, p := range parts {
				kv := splitTop(p, '=')
				m[fmt.Sprint(buildHost(kv[0]))] = fmt.Sprint(buildHost(kv[1]))
			}
			return m
		}
		m := map[int]interface{}{}
		for i, p := range parts {
			kv := splitTop(p, '=')
			m[i] = buildHost(kv[1])
		}
		return m
	case 'R':
		parts := splitTop(s[2:len(s)-1], ',')
		var fields []reflect.StructField
		var vals []interface{}
		var iface []bool
		for _, p := range parts {
			kv := splitTop(p, '=')
			name := unhex(kv[0])
			isIface := kv[1][0] == 'X'
			desc := kv[1]
			if isIface {
				desc = desc[2 : len(desc)-1]
			}
			v := buildHost(desc)
			t := reflect.TypeOf(v)
			if isIface || v == nil {
				t = reflect.TypeOf((*interface{})(nil)).Elem()
			}
			fields = append(fields, reflect.StructField{Name: name, Type: t})
			vals = append(vals, v)
			iface = append(iface, isIface)
		}
		st := reflect.New(reflect.StructOf(fields)).Elem()
		for i, v := range vals {
			if v != nil {
				st.Field(i).Set(reflect.ValueOf(v))
			}
		}
		return st.Interface()
	case 'P':
		v := buildHost(s[2 : len(s)-1])
		p := reflect.New(reflect.TypeOf(v))
		p.Elem().Set(reflect.ValueOf(v))
		return p.Interface()
	case 'Q':
		var p *struct{ A int }
		return p
	case 'K':
		return buildStatic(s)
	case 'c': // a map which contains itself
		m := map[string]interface{}{"a": 1}
		m["self"] = m
		return m
	case 'n': // n<k>: maps nested k deep under the key "self", with a leaf at the bottom
		k, _ := strconv.Atoi(s[1:])
		var cur interface{} = map[string]interface{}{"a": 1, "leaf": 7}
		for i := 0; i < k; i++ {
			cur = map[string]interface{}{"a": 1, "self": cur}
		}
		return cur
	case 'm': // maps and slices that were never made
		var m map[string]interface{}
		return m
	case 'o':
		var m map[string]string
		return m
	case 'l':
		var l []interface{}
		return l
	case 'y':
		var l []string
		return l
	case 'Z':
		return make(chan int)
	}
	panic("bad host value " + s)
}

// ---------------------------------------------------------------- contexts

var closedCh = func() chan struct{} { c := make(chan struct{}); close(c); return c }()

// pollCtx is done from poll number `left` on (a logical deadline), and in
// any case after a real-time backstop.
type pollCtx struct {
	context.Context
	mu   sync.Mutex
	left int64
	open chan struct{}
}

func newPollCtx(left int64, backstop context.Context) *pollCtx {
	return &pollCtx{Context: backstop, left: left, open: make(chan struct{})}
}

func (c *pollCtx) Done() <-chan struct{} {
	select {
	case <-c.Context.Done():
		return closedCh
	default:
	}
	c.mu.Lock()
	defer c.mu.Unlock()
	if c.left < 0 { // no logical deadline
		return c.open
	}
	if c.left == 0 {
		return closedCh
	}
	c.left--
	return c.open
}

// ---------------------------------------------------------------- classification

func classify(err error) string {
	if err == nil {
		return "ok"
	}
	m := err.Error()
	switch {
	case strings.Contains(m, "timeout during execution"):
		return "timeout"
	case strings.HasPrefix(m, "error during Run"):
		return "panic-recovered"
	case strings.Contains(m, "Pop from an empty stack"), strings.Contains(m, "access to constant which doesn't exist"),
		strings.Contains(m, "instruction pointer is out of bounds"), strings.Contains(m, "unhandled opcode"):
		return "internal-error"
	}
	return "script-error"
}

// ---------------------------------------------------------------- program dump

func encProgram(consts []object.Object, main []byte, funcs map[string]environment.UserFunction) string {
	cs := make([]string, len(consts))
	for i, c := range consts {
		cs[i] = encValue(c)
	}
	var names []string
	for n := range funcs {
		names = append(names, n)
	}
	sort.Strings(names)
	var fs []string
	for _, n := range names {
		f := funcs[n]
		args := make([]string, len(f.Arguments))
		for i, a := range f.Arguments {
			args[i] = hx(a)
		}
		fs = append(fs, hx(n)+"."+strings.Join(args, "_")+"."+fmt.Sprintf("%x", []byte(f.Bytecode)))
	}
	return "C" + strings.Join(cs, ",") + "~M" + fmt.Sprintf("%x", main) + "~F" + strings.Join(fs, "+")
}

// ---------------------------------------------------------------- the run case

type traceLog struct {
	calls []string
	names []string
	kept  [][]object.Object // the argument slices themselves, looked at again when the run is over
}

// final is the trace as seen after the run: a host function may keep the slice of arguments it
// was given, and must still find the script's arguments there later.
func (t *traceLog) final() string {
	out := make([]string, len(t.calls))
	for k, c := range t.calls {
		out[k] = c
		if k < len(t.kept) {
			parts := make([]string, len(t.kept[k]))
			for i, a := range t.kept[k] {
				if a == nil {
					parts[i] = "NIL"
				} else {
					parts[i] = encValue(a)
				}
			}
			again := hx(t.names[k]) + "(" + strings.Join(parts, ",") + ")"
			if again != c {
				out[k] = c + "!kept-arguments-changed-to:" + again
			}
		}
	}
	return strings.Join(out, "+")
}

func (t *traceLog) hostFn(name, kind string) func(args []object.Object) object.Object {
	return func(args []object.Object) object.Object {
		parts := make([]string, len(args))
		for i, a := range args {
			parts[i] = encValue(a)
		}
		t.calls = append(t.calls, hx(name)+"("+strings.Join(parts, ",")+")")
		t.names = append(t.names, name)
		t.kept = append(t.kept, args)
		switch {
		case kind == "arg0":
			if len(args) > 0 {
				return args[0]
			}
			return &object.Null{}
		case kind == "void":
			return &object.Void{}
		case kind == "panic":
			panic("host function panics")
		case kind[0] == 'c':
			return decValue(kind[1:])
		}
		return &object.Null{}
	}
}

// oracle facts: standard-library answers observed while the case ran, handed
// to the model (which does not implement regexp / Unicode case mapping / Sprintf)
type oracleLog struct {
	facts map[string]bool
}

func (o *oracleLog) add(f string) {
	if len(o.facts) < 4000 {
		o.facts[f] = true
	}
}

func (o *oracleLog) wrap(e *evalfilter.Eval) {
	env := e.VerifEnvironment()
	wrap := func(name string, pre func(args []object.Object)) {
		orig, ok := env.GetFunction(name)
		if !ok {
			return
		}
		f := orig.(func(args []object.Object) object.Object)
		e.AddFunction(name, func(args []object.Object) object.Object {
			func() {
				defer func() { recover() }()
				pre(args)
			}()
			return f(args)
		})
	}
	wrap("match", func(args []object.Object) {
		if len(args) != 2 {
			return
		}
		re := args[1].Inspect()
		r, err := regexp.Compile(re)
		for _, s := range strings.Split(args[0].Inspect(), "\n") {
			s = strings.TrimSpace(s)
			if err != nil {
				o.add("m:" + hx(re) + ":" + hx(s) + ":e")
			} else if r.MatchString(s) {
				o.add("m:" + hx(re) + ":" + hx(s) + ":1")
			} else {
				o.add("m:" + hx(re) + ":" + hx(s) + ":0")
			}
		}
	})
	wrap("replace", func(args []object.Object) {
		if len(args) != 3 {
			return
		}
		s, re, rp := args[0].Inspect(), args[1].Inspect(), args[2].Inspect()
		r, err := regexp.Compile(re)
		if err != nil {
			o.add("x:" + hx(s) + ":" + hx(re) + ":" + hx(rp) + ":e")
		} else {
			o.add("x:" + hx(s) + ":" + hx(re) + ":" + hx(rp) + ":" + hx(string(r.ReplaceAll([]byte(s), []byte(rp)))))
		}
	})
	caseMap := func(tag string, fn func(string) string) func(args []object.Object) {
		return func(args []object.Object) {
			if len(args) != 1 {
				return
			}
			s := args[0].Inspect()
			o.add(tag + ":" + hx(s) + ":" + hx(fn(s)))
		}
	}
	wrap("lower", caseMap("l", strings.ToLower))
	wrap("upper", caseMap("u", strings.ToUpper))
	wrap("sort", func(args []object.Object) {
		if len(args) == 2 {
			if a, ok := args[0].(*object.Array); ok {
				for _, el := range a.Elements {
					s := el.Inspect()
					o.add("l:" + hx(s) + ":" + hx(strings.ToLower(s)))
				}
			}
		}
	})
	wrap("reverse", func(args []object.Object) {
		if len(args) == 2 {
			if a, ok := args[0].(*object.Array); ok {
				for _, el := range a.Elements {
					s := el.Inspect()
					o.add("l:" + hx(s) + ":" + hx(strings.ToLower(s)))
				}
			}
		}
	})
}

func encVars(e *evalfilter.Eval) string {
	g := e.VerifEnvironment().VerifGlobals()
	var parts []string
	for k, v := range g {
		parts = append(parts, hx(k)+"="+encValue(v))
	}
	sort.Strings(parts)
	return strings.Join(parts, "&")
}

func runHistory(c kv) string {
	src := unhex(c["script"])
	if c["maxstack"] != "" {
		// a scaled-down stack limit (the default is 1 GB), so that unbounded recursion shows with little memory
		if n, err := strconv.Atoi(c["maxstack"]); err == nil {
			debug.SetMaxStack(n)
		}
	}
	if c["tz"] != "" {
		os.Setenv("TZ", c["tz"])
	} else {
		os.Unsetenv("TZ")
	}
	e := evalfilter.New(src)
	tl := &traceLog{}
	var persist *hK5 // the one record of `pexec` steps
	ol := &oracleLog{facts: map[string]bool{}}
	useOracle := c["noora"] == ""
	if useOracle {
		ol.wrap(e)
	}
	backstop, cancel := context.WithTimeout(context.Background(), 4*time.Second)
	defer cancel()
	e.SetContext(newPollCtx(-1, backstop))

	var objs []string
	if c["objs"] != "" {
		objs = splitTop(c["objs"], ';')
	}
	ops := []string{"prepare:opt", "exec:0"}
	if c["ops"] != "" {
		ops = strings.Split(c["ops"], ";")
	}
	var out []string
	emit := func(s string) { out = append(out, fmt.Sprintf("o%d=%s", len(out), s)) }

	for _, opstr := range ops {
		p := strings.Split(opstr, ":")
		switch p[0] {
		case "setvar":
			e.SetVariable(unhex(p[1]), decValue(p[2]))
			emit("U")
		case "addfn":
			name := unhex(p[1])
			e.AddFunction(name, tl.hostFn(name, p[2]))
			emit("U")
		case "ctx":
			if p[1] == "none" {
				e.SetContext(newPollCtx(-1, backstop))
			} else {
				n, _ := strconv.ParseInt(p[1], 10, 64)
				e.SetContext(newPollCtx(n, backstop))
			}
			emit("U")
		case "prepare":
			var err error
			crashed := false
			func() {
				defer func() {
					if r := recover(); r != nil {
						crashed = true
					}
				}()
				if p[1] == "noopt" {
					err = e.Prepare([]byte{evalfilter.NoOptimize})
				} else {
					err = e.Prepare()
				}
			}()
			switch {
			case crashed:
				emit("X")
			case err != nil:
				emit("P|error")
			default:
				m := e.VerifMachine()
				// the optimizer patches the compiler's buffer in place, so the
				// compiler's own output is taken from a second, unoptimized preparation
				u := evalfilter.New(e.Script) // (the script the evaluator holds now: the host may have assigned another)
				uerr := u.Prepare([]byte{evalfilter.NoOptimize})
				if uerr != nil {
					emit("P|ok|UNOPT-REJECTED|" + encProgram(m.VerifConstants(), m.VerifBytecode(), m.VerifFunctions()))
					break
				}
				emit("P|ok|" + encProgram(u.VerifConstants(), u.VerifUnoptimized(), u.VerifCompiledFunctions()) +
					"|" + encProgram(m.VerifConstants(), m.VerifBytecode(), m.VerifFunctions()))
			}
		case "run", "exec", "pexec":
			idx := 0
			if len(p) > 1 {
				idx, _ = strconv.Atoi(p[1])
			}
			var obj interface{}
			if p[0] == "pexec" {
				// pexec:<hex name>,<n>: the host keeps ONE record, changes it in place and passes the same pointer again
				kv := strings.SplitN(p[1], ",", 2)
				if persist == nil {
					persist = &hK5{}
				}
				n, _ := strconv.Atoi(kv[1])
				persist.ID, persist.PubInner, persist.Name = n, PubInner{99, 2}, unhex(kv[0])
				obj = persist
			} else if idx < len(objs) {
				obj = buildHost(objs[idx])
			}
			tl.calls, tl.names, tl.kept = nil, nil, nil
			crashed := false
			printed := ""
			var res string
			func() {
				defer func() {
					if r := recover(); r != nil {
						crashed = true
					}
				}()
				if p[0] == "run" {
					b, err := e.Run(obj)
					res = "R|" + classify(err) + "|"
					if b {
						res += "b1"
					} else {
						res += "b0"
					}
				} else {
					v, err := e.Execute(obj)
					res = "E|" + classify(err) + "|" + encValue(v)
					if v != nil && err == nil {
						printed = hx(string(v.Type()) + ":" + v.Inspect() + ":" + fmt.Sprint(v.True()))
					}
				}
			}()
			if crashed {
				emit("X")
				break
			}
			scopes, residue := -1, -1
			if m := e.VerifMachine(); m != nil {
				residue = m.VerifStackDepth()
			} else {
				residue = 0
			}
			scopes = e.VerifEnvironment().VerifScopeDepth()
			emit(fmt.Sprintf("%s|%s|%s|%d|%d|%s", res, tl.final(), encVars(e), scopes, residue, printed))
		case "getvar":
			emit("G|" + encValue(e.GetVariable(unhex(p[1]))))
		case "rescript":
			// the host assigns the public Script field; the next Prepare compiles the new text
			e.Script = unhex(p[1])
			emit("U")
		case "badprepare":
			// the host replaces the script by one that does not parse, prepares (which must fail, not panic),
			// and puts the script back: a Prepare that fails must leave the evaluator as it was
			crashed, failed := false, false
			func() {
				defer func() {
					if r := recover(); r != nil {
						crashed = true
					}
				}()
				old := e.Script
				e.Script = "x = [1, 2; return ((;"
				failed = e.Prepare() != nil
				e.Script = old
			}()
			switch {
			case crashed:
				emit("X")
			case !failed:
				emit("ACCEPTED")
			default:
				emit("U")
			}
		case "dump":
			crashed := false
			func() {
				defer func() {
					if r := recover(); r != nil {
						crashed = true
					}
				}()
				e.Dump()
			}()
			if crashed {
				emit("X")
			} else {
				emit("U")
			}
		default:
			emit("BADOP")
		}
	}
	line := fmt.Sprintf("n=%d\t%s", len(out), strings.Join(out, "\t"))
	if useOracle && len(ol.facts) > 0 {
		var fs []string
		for f := range ol.facts {
			fs = append(fs, f)
		}
		sort.Strings(fs)
		line += "\tora=" + strings.Join(fs, ";")
	}
	return line
}

func runHistoryCase(c kv, w *bufio.Writer) {
	var line string
	fin, pan := withTimeout(20*time.Second, func() { line = runHistory(c) })
	if !fin {
		line = "n=0\thang=1"
	} else if pan != nil {
		line = fmt.Sprintf("n=0\tharness_panic=%s", hx(fmt.Sprint(pan)))
	}
	fmt.Fprintf(w, "id=%s\t%s\n", c["id"], line)
}

var _ = os.Stdout

package main

import (
	"bufio"
	"fmt"
	"strings"
	"time"

	"github.com/skx/evalfilter/v2/lexer"
	"github.com/skx/evalfilter/v2/parser"
	"github.com/skx/evalfilter/v2/token"
)

// runCase dispatches on the case kind.
func runCase(c kv, w *bufio.Writer) {
	switch c["kind"] {
	case "lex":
		lexCase(c, w)
	case "parse":
		parseCase(c, w)
	case "run":
		runHistoryCase(c, w)
	default:
		fmt.Fprintf(w, "id=%s\tunsupported=%s\n", c["id"], c["kind"])
	}
}

// lexCase prints the token stream (type and literal; the literal of an
// ILLEGAL token is an error text and is not compared).
func lexCase(c kv, w *bufio.Writer) {
	src := unhex(c["script"])
	done := make(chan []string, 1)
	go func() {
		l := lexer.New(src)
		var toks []string
		for {
			t := l.NextToken()
			lit := t.Literal
			if t.Type == token.ILLEGAL {
				lit = ""
			}
			toks = append(toks, hx(string(t.Type))+":"+hx(lit))
			if t.Type == token.EOF {
				break
			}
		}
		done <- toks
	}()
	select {
	case toks := <-done:
		fmt.Fprintf(w, "id=%s\ttokens=%s\n", c["id"], strings.Join(toks, ","))
	case <-time.After(10 * time.Second):
		fmt.Fprintf(w, "id=%s\ttokens=TIMEOUT\n", c["id"])
	}
}

// withTimeout runs f in a goroutine; reports false if it did not finish.
func withTimeout(d time.Duration, f func()) (finished bool, panicked interface{}) {
	done := make(chan interface{}, 1)
	go func() {
		defer func() { done <- recover() }()
		f()
	}()
	select {
	case p := <-done:
		return true, p
	case <-time.After(d):
		return false, nil
	}
}

// parseCase: accept/reject of the parser alone, the tree in canonical
// form and the parser's own String() rendering.
func parseCase(c kv, w *bufio.Writer) {
	src := unhex(c["script"])
	var line string
	fin, pan := withTimeout(10*time.Second, func() {
		p := parser.New(lexer.New(src))
		prog, err := p.Parse()
		if err != nil {
			line = "parse=reject"
			return
		}
		var b strings.Builder
		dumpNode(prog, &b)
		line = "parse=ok\tast=" + b.String() + "\tpstr=" + hx(prog.String())
	})
	if !fin {
		line = "parse=TIMEOUT"
	} else if pan != nil {
		line = "parse=PANIC"
	}
	fmt.Fprintf(w, "id=%s\t%s\n", c["id"], line)
}

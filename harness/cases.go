package main

import (
	"bufio"
	"fmt"
	"strings"
	"time"

	"github.com/skx/evalfilter/v2/lexer"
	"github.com/skx/evalfilter/v2/token"
)

// runCase dispatches on the case kind.
func runCase(c kv, w *bufio.Writer) {
	switch c["kind"] {
	case "lex":
		lexCase(c, w)
	default:
		fmt.Fprintf(w, "id=%s\tunsupported=%s\n", c["id"], c["kind"])
	}
}

// lexCase prints the token stream (type and literal; the literal of an
// ILLEGAL token is an error text and is not compared).
func lexCase(c kv, w *bufio.Writer) {
	src := unhex(c["script"])
	done := make(chan []string, 1)
	go func() {
		l := lexer.New(src)
		var toks []string
		for {
			t := l.NextToken()
			lit := t.Literal
			if t.Type == token.ILLEGAL {
				lit = ""
			}
			toks = append(toks, hx(string(t.Type))+":"+hx(lit))
			if t.Type == token.EOF {
				break
			}
		}
		done <- toks
	}()
	select {
	case toks := <-done:
		fmt.Fprintf(w, "id=%s\ttokens=%s\n", c["id"], strings.Join(toks, ","))
	case <-time.After(10 * time.Second):
		fmt.Fprintf(w, "id=%s\ttokens=TIMEOUT\n", c["id"])
	}
}

package main

// dump-tables: every table-like piece of the implementation, read from the
// code as built from /repo's current tree (with -tags verif), as JSON.

import (
	"encoding/json"
	"fmt"
	"os"
	"sort"
	"strings"
	"unicode"

	evalfilter "github.com/skx/evalfilter/v2"
	"github.com/skx/evalfilter/v2/code"
	"github.com/skx/evalfilter/v2/environment"
	"github.com/skx/evalfilter/v2/lexer"
	"github.com/skx/evalfilter/v2/parser"
	"github.com/skx/evalfilter/v2/token"
)

type opEntry struct {
	Byte   int    `json:"byte"`
	Name   string `json:"name"`
	Length int    `json:"length"`
}

type rangeEntry struct {
	Lo, Hi, Stride uint32
}

func ranges(t *unicode.RangeTable) []rangeEntry {
	var out []rangeEntry
	for _, r := range t.R16 {
		out = append(out, rangeEntry{uint32(r.Lo), uint32(r.Hi), uint32(r.Stride)})
	}
	for _, r := range t.R32 {
		out = append(out, rangeEntry{r.Lo, r.Hi, r.Stride})
	}
	return out
}

// opcodeAfterOperands compiles `a <op> b;` unoptimized and returns the name
// of the first instruction after the two lookups (or "" if rejected).
func opcodeAfterOperands(op string) string {
	e := evalfilter.New("a " + op + " b;")
	if err := e.Prepare([]byte{evalfilter.NoOptimize}); err != nil {
		return ""
	}
	bc := e.VerifUnoptimized()
	ip := 0
	n := 0
	for ip < len(bc) {
		o := code.Opcode(bc[ip])
		if o != code.OpLookup && o != code.OpConstant {
			return code.String(o)
		}
		n++
		ip += code.Length(o)
	}
	return ""
}

func prefixOpcode(op string) string {
	e := evalfilter.New(op + " a;")
	if err := e.Prepare([]byte{evalfilter.NoOptimize}); err != nil {
		return ""
	}
	bc := e.VerifUnoptimized()
	ip := 0
	for ip < len(bc) {
		o := code.Opcode(bc[ip])
		if o != code.OpLookup {
			return code.String(o)
		}
		ip += code.Length(o)
	}
	return ""
}

// slashAfter reports how a `/` directly after the given source fragment is
// lexed: "div", "regexp" or "other".
func slashAfter(src string) string {
	l := lexer.New(src + " / 2 /")
	// skip the tokens of src
	n := 0
	{
		l2 := lexer.New(src)
		for {
			t := l2.NextToken()
			if t.Type == token.EOF {
				break
			}
			n++
			if n > 20 {
				break
			}
		}
	}
	var t token.Token
	for i := 0; i <= n; i++ {
		t = l.NextToken()
	}
	switch t.Type {
	case token.SLASH:
		return "div"
	case token.REGEXP:
		return "regexp"
	}
	return "other:" + string(t.Type)
}

func inlineLimit() int {
	// the largest literal compiled to an OpPush
	best := -1
	for _, v := range []int{0, 1, 255, 256, 65533, 65534, 65535, 65536, 70000} {
		e := evalfilter.New(fmt.Sprintf("return %d;", v))
		if err := e.Prepare([]byte{evalfilter.NoOptimize}); err != nil {
			continue
		}
		bc := e.VerifUnoptimized()
		if len(bc) > 0 && code.Opcode(bc[0]) == code.OpPush && v > best {
			best = v
		}
	}
	return best
}

// maxParenDepth: the deepest nesting of parentheses around a literal that
// the parser accepts, searched up to 20000 (0 = no limit found below that).
func maxParenDepth() int {
	ok := func(d int) bool {
		src := strings.Repeat("(", d) + "1" + strings.Repeat(")", d) + ";"
		p := parser.New(lexer.New(src))
		_, err := p.Parse()
		return err == nil
	}
	if ok(20000) {
		return 0
	}
	lo, hi := 1, 20000 // ok(lo), !ok(hi)
	if !ok(lo) {
		return -1
	}
	for hi-lo > 1 {
		mid := (lo + hi) / 2
		if ok(mid) {
			lo = mid
		} else {
			hi = mid
		}
	}
	return lo
}

// maxCallDepth: the deepest recursion f(K) the machine accepts, searched up
// to 20000 (0 = no limit found below that).
func maxCallDepth() int {
	ok := func(k int) bool {
		e := evalfilter.New(fmt.Sprintf("function f(n) { if (n == 0) { return 0; } return f(n - 1); } return f(%d);", k))
		if err := e.Prepare(); err != nil {
			return false
		}
		_, err := e.Execute(nil)
		return err == nil
	}
	if ok(20000) {
		return 0
	}
	lo, hi := 1, 20000
	if !ok(lo) {
		return -1
	}
	for hi-lo > 1 {
		mid := (lo + hi) / 2
		if ok(mid) {
			lo = mid
		} else {
			hi = mid
		}
	}
	return lo
}

func dumpTables() {
	out := map[string]interface{}{}

	// silence code.String's warning for unknown bytes
	stdout := os.Stdout
	devnull, _ := os.Open(os.DevNull)
	os.Stdout, _ = os.OpenFile(os.DevNull, os.O_WRONLY, 0)
	var ops []opEntry
	for b := 0; b < 256; b++ {
		ops = append(ops, opEntry{b, code.String(code.Opcode(b)), code.Length(code.Opcode(b))})
	}
	os.Stdout = stdout
	devnull.Close()
	out["op_table"] = ops

	out["prec_levels"] = parser.VerifLevels()
	out["prec_table"] = parser.VerifPrecedences()
	pre, in, post := parser.VerifRegistrations()
	out["prefix_tokens"] = pre
	out["infix_tokens"] = in
	out["postfix_tokens"] = post
	out["keywords"] = token.VerifKeywords()
	out["builtin_names"] = environment.New().VerifFunctionNames()

	binops := []string{"+", "-", "*", "/", "%", "**", "<", "<=", ">", ">=", "==", "!=", "~=", "!~", "in", ".", "..", "&&", "||", "+=", "-=", "*=", "/="}
	optok := map[string]string{}
	for _, o := range binops {
		optok[o] = opcodeAfterOperands(o)
	}
	out["optoken_table"] = optok
	preops := map[string]string{}
	for _, o := range []string{"!", "-", "√"} {
		preops[o] = prefixOpcode(o)
	}
	out["prefixop_table"] = preops

	samples := map[string]string{
		"RPAREN": "(a)", "IDENT": "a", "RSQUARE": "a[1]", "FLOAT": "1.5", "INT": "1",
		"STRING": "\"s\"", "TRUE": "true", "FALSE": "false", "RBRACE": "{}", "LPAREN": "(",
		"COMMA": ",", "ASSIGN": "=", "PLUS": "+", "RETURN": "return", "SEMICOLON": ";",
		"LBRACE": "{", "LSQUARE": "[", "EQ": "==", "CONTAINS": "~=", "MISSING": "!~",
		"IN": "in", "COLON": ":", "QUESTION": "?", "BANG": "!", "AND": "&&", "OR": "||",
		"IF": "if", "CASE": "case", "PLUSPLUS": "a++", "MINUSMINUS": "a--",
	}
	sc := map[string]string{}
	keys := []string{}
	for k := range samples {
		keys = append(keys, k)
	}
	sort.Strings(keys)
	for _, k := range keys {
		// key: the Type of the last token of the sample
		l2 := lexer.New(samples[k])
		last := ""
		for {
			t := l2.NextToken()
			if t.Type == token.EOF {
				break
			}
			last = string(t.Type)
		}
		sc[last] = slashAfter(samples[k])
	}
	out["slash_context"] = sc
	out["inline_limit"] = inlineLimit()
	out["max_paren_depth"] = maxParenDepth()
	out["max_call_depth"] = maxCallDepth()
	out["unicode_letter"] = ranges(unicode.Letter)
	out["unicode_digit"] = ranges(unicode.Digit)

	enc := json.NewEncoder(os.Stdout)
	enc.SetIndent("", " ")
	enc.Encode(out)
}

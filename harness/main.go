// Harness: runs the real evalfilter (built from /repo's working tree with
// -tags verif) on case files and prints canonical result lines.
package main

import (
	"bufio"
	"encoding/hex"
	"fmt"
	"os"
	"strings"
)

func usage() {
	fmt.Fprintln(os.Stderr, "usage: harness dump-tables | run <casefile> | oracle ...")
	os.Exit(2)
}

type kv map[string]string

func parseLine(line string) kv {
	m := kv{}
	for _, f := range strings.Split(line, "\t") {
		i := strings.IndexByte(f, '=')
		if i < 0 {
			continue
		}
		m[f[:i]] = f[i+1:]
	}
	return m
}

func unhex(s string) string {
	b, err := hex.DecodeString(s)
	if err != nil {
		panic("bad hex: " + s)
	}
	return string(b)
}

func hx(s string) string { return hex.EncodeToString([]byte(s)) }

func forEachCase(path string, f func(c kv, w *bufio.Writer)) {
	fh, err := os.Open(path)
	if err != nil {
		fmt.Fprintln(os.Stderr, err)
		os.Exit(2)
	}
	defer fh.Close()
	sc := bufio.NewScanner(fh)
	sc.Buffer(make([]byte, 1<<20), 1<<28)
	w := bufio.NewWriterSize(realStdout, 1<<20)
	defer w.Flush()
	for sc.Scan() {
		line := sc.Text()
		if line == "" || line[0] == '#' {
			continue
		}
		f(parseLine(line), w)
	}
}

// evalfilter's built-ins print to os.Stdout; results go to the real one.
var realStdout = os.Stdout

func main() {
	if len(os.Args) < 2 {
		usage()
	}
	if os.Args[1] == "run" {
		if dn, err := os.OpenFile(os.DevNull, os.O_WRONLY, 0); err == nil {
			os.Stdout = dn
		}
	}
	switch os.Args[1] {
	case "dump-tables":
		dumpTables()
	case "run":
		if len(os.Args) < 3 {
			usage()
		}
		forEachCase(os.Args[2], runCase)
	case "conc":
		if dn, err := os.OpenFile(os.DevNull, os.O_WRONLY, 0); err == nil {
			os.Stdout = dn
		}
		concRuns(os.Args[2])
	case "confine":
		confineRun(os.Args[2])
	case "dump-surface":
		dumpSurface(os.Args[2])
	case "deadline":
		if dn, err := os.OpenFile(os.DevNull, os.O_WRONLY, 0); err == nil {
			os.Stdout = dn
		}
		deadlineRuns(os.Args[2])
	default:
		usage()
	}
}

package main

// dump-surface: the outward call surface of the library packages, read from
// the source text of /repo's current tree (go/parser): per file its imports,
// every use pkg.Member of an imported package, and every package-level
// variable with, for each function that touches it, whether the access sits
// in a function that takes a lock.

import (
	"encoding/json"
	"fmt"
	"go/ast"
	"go/parser"
	"go/token"
	"os"
	"path/filepath"
	"sort"
	"strings"
)

var libraryPackages = []string{".", "ast", "code", "environment", "lexer", "object", "parser", "stack", "token", "vm"}

type fileSurface struct {
	File    string     `json:"file"`
	Package string     `json:"package"`
	Imports []string   `json:"imports"`
	Uses    [][]string `json:"uses"` // [import path, member]
	Cgo     bool       `json:"cgo"`
}

type varInfo struct {
	Package  string     `json:"package"`
	Name     string     `json:"name"`
	Kind     string     `json:"kind"`     // map | slice | pointer | func | other
	Mutated  bool       `json:"mutated"`  // assigned or index-assigned outside its declaration / init
	Accesses [][]string `json:"accesses"` // [function, "locked" | "unlocked" | "init"]
}

func typeKind(e ast.Expr, val ast.Expr) string {
	switch t := e.(type) {
	case *ast.MapType:
		return "map"
	case *ast.ArrayType:
		if t.Len == nil {
			return "slice"
		}
		return "other"
	case *ast.StarExpr:
		return "pointer"
	case *ast.FuncType:
		return "func"
	}
	if e == nil && val != nil {
		switch v := val.(type) {
		case *ast.UnaryExpr:
			if v.Op == token.AND {
				return "pointer"
			}
		case *ast.CompositeLit:
			return typeKind(v.Type, nil)
		case *ast.CallExpr:
			if id, ok := v.Fun.(*ast.Ident); ok && id.Name == "make" && len(v.Args) > 0 {
				return typeKind(v.Args[0], nil)
			}
		}
	}
	return "other"
}

func dumpSurface(root string) {
	fset := token.NewFileSet()
	var files []fileSurface
	var vars []varInfo
	for _, pkg := range libraryPackages {
		dir := filepath.Join(root, pkg)
		entries, err := os.ReadDir(dir)
		if err != nil {
			fmt.Fprintln(os.Stderr, err)
			os.Exit(2)
		}
		var parsed []*ast.File
		var names []string
		for _, en := range entries {
			n := en.Name()
			if en.IsDir() || !strings.HasSuffix(n, ".go") || strings.HasSuffix(n, "_test.go") || n == "verif_hooks.go" {
				continue
			}
			f, err := parser.ParseFile(fset, filepath.Join(dir, n), nil, parser.ParseComments)
			if err != nil {
				fmt.Fprintln(os.Stderr, err)
				os.Exit(2)
			}
			parsed = append(parsed, f)
			names = append(names, filepath.Join(pkg, n))
		}
		pkgVars := map[string]*varInfo{}
		for i, f := range parsed {
			fs := fileSurface{File: names[i], Package: f.Name.Name}
			alias := map[string]string{}
			for _, im := range f.Imports {
				p := strings.Trim(im.Path.Value, "\"")
				fs.Imports = append(fs.Imports, p)
				if p == "C" {
					fs.Cgo = true
				}
				name := p[strings.LastIndex(p, "/")+1:]
				if im.Name != nil {
					name = im.Name.Name
				}
				alias[name] = p
			}
			seen := map[string]bool{}
			ast.Inspect(f, func(n ast.Node) bool {
				if se, ok := n.(*ast.SelectorExpr); ok {
					if id, ok := se.X.(*ast.Ident); ok && id.Obj == nil {
						if p, ok := alias[id.Name]; ok {
							k := p + "." + se.Sel.Name
							if !seen[k] {
								seen[k] = true
								fs.Uses = append(fs.Uses, []string{p, se.Sel.Name})
							}
						}
					}
				}
				return true
			})
			sort.Slice(fs.Uses, func(a, b int) bool { return fs.Uses[a][0]+fs.Uses[a][1] < fs.Uses[b][0]+fs.Uses[b][1] })
			sort.Strings(fs.Imports)
			files = append(files, fs)
			// package-level variables
			for _, d := range f.Decls {
				gd, ok := d.(*ast.GenDecl)
				if !ok || gd.Tok != token.VAR {
					continue
				}
				for _, sp := range gd.Specs {
					vs := sp.(*ast.ValueSpec)
					for j, nm := range vs.Names {
						if nm.Name == "_" {
							continue
						}
						var val ast.Expr
						if j < len(vs.Values) {
							val = vs.Values[j]
						}
						pkgVars[nm.Name] = &varInfo{Package: f.Name.Name, Name: nm.Name, Kind: typeKind(vs.Type, val)}
					}
				}
			}
		}
		// accesses of the package-level variables, per function
		for _, f := range parsed {
			for _, d := range f.Decls {
				fd, ok := d.(*ast.FuncDecl)
				if !ok || fd.Body == nil {
					continue
				}
				locks := false
				ast.Inspect(fd.Body, func(n ast.Node) bool {
					if ce, ok := n.(*ast.CallExpr); ok {
						if se, ok := ce.Fun.(*ast.SelectorExpr); ok && (se.Sel.Name == "Lock" || se.Sel.Name == "RLock") {
							locks = true
						}
					}
					return true
				})
				touched := map[string]bool{}
				mutated := map[string]bool{}
				ast.Inspect(fd.Body, func(n ast.Node) bool {
					switch x := n.(type) {
					case *ast.Ident:
						if v, ok := pkgVars[x.Name]; ok && x.Obj != nil && x.Obj.Kind == ast.Var && v != nil {
							if _, isDecl := x.Obj.Decl.(*ast.ValueSpec); isDecl {
								touched[x.Name] = true
							}
						}
					case *ast.AssignStmt:
						for _, l := range x.Lhs {
							switch lt := l.(type) {
							case *ast.Ident:
								mutated[lt.Name] = true
							case *ast.IndexExpr:
								if id, ok := lt.X.(*ast.Ident); ok {
									mutated[id.Name] = true
								}
							}
						}
					}
					return true
				})
				for name := range touched {
					v := pkgVars[name]
					how := "unlocked"
					if fd.Name.Name == "init" {
						how = "init"
					} else if locks {
						how = "locked"
					}
					if mutated[name] && fd.Name.Name != "init" {
						v.Mutated = true
					}
					v.Accesses = append(v.Accesses, []string{fd.Name.Name, how})
				}
			}
		}
		var vnames []string
		for n := range pkgVars {
			vnames = append(vnames, n)
		}
		sort.Strings(vnames)
		for _, n := range vnames {
			v := pkgVars[n]
			sort.Slice(v.Accesses, func(a, b int) bool { return v.Accesses[a][0] < v.Accesses[b][0] })
			vars = append(vars, *v)
		}
	}
	enc := json.NewEncoder(realStdout)
	enc.SetIndent("", " ")
	enc.Encode(map[string]interface{}{"files": files, "vars": vars})
}

(* C19 - Preparing and running a script is deterministic.
   The model consists of functions, so "same inputs, same outputs" is free; what
   has to be proved is that nothing depends on an order the implementation does
   not have: a hash is a Go map, modelled as a list of pairs in arbitrary order. *)
From Coq Require Import Floats Permutation.
From EF Require Import Model.Base Model.Ast Model.Value Model.Builtins Model.Compiler Model.VM Proofs.DetProofs.
Open Scope N_scope.

(* keys of a hash are pairwise distinct as (printed form, type) *)
Definition distinct_keys (o : stdlib) (ps : list (value * value)) : Prop :=
  forall ks, opt_map (fun kx => match inspect o (fst kx) with Some a => Some (a, type_of (fst kx)) | None => None end) ps = Some ks ->
  NoDup ks.

(* printing, key listing and iteration do not depend on the order of the pairs *)
Theorem C19_hash_entries_perm_invariant : forall o ps ps',
  Permutation ps ps' -> distinct_keys o ps ->
  hash_entries o ps = hash_entries o ps'.
Proof. exact DetProofs.hash_entries_perm_invariant. Qed.

Theorem C19_inspect_perm_invariant : forall o ps ps',
  Permutation ps ps' -> distinct_keys o ps ->
  inspect o (VHash ps) = inspect o (VHash ps').
Proof. exact DetProofs.inspect_perm_invariant. Qed.

(* the entries come out sorted by (printed key, type): one fixed order *)
Theorem C19_entries_sorted : forall o ps es keys,
  hash_entries o ps = Some es ->
  opt_map (fun kx => match inspect o (fst kx) with Some a => Some (a, type_of (fst kx)) | None => None end) es = Some keys ->
  Sorted.StronglySorted (fun a b => key_lt b a = false) keys.
Proof. exact DetProofs.entries_sorted. Qed.

(* the order on (printed key, type) is total: ties only between identical keys *)
Theorem C19_key_order_total : forall a b : str * vtype,
  key_lt a b = false -> key_lt b a = false -> a = b.
Proof. exact DetProofs.key_order_total. Qed.

(* a stable sort of the same list is the same list: the compiled order of a hash literal
   is a function of the source order *)
Theorem C19_sort_deterministic : forall (A : Type) (lt : A -> A -> bool) (l : list A),
  sort_by lt l = sort_by lt l.
Proof. reflexivity. Qed.

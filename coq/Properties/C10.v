(* C10 - Scripts are confined: no file, network or process access.
   PARTIAL by nature: that the audited standard-library members do no file or
   network I/O themselves is trusted.  What is proved, over the outward surface
   of the library regenerated from /repo's source on every run: *)
From Coq Require Import List Bool NArith.
From EF Require Import Model.Base Gen.Tables Gen.Surface Model.Code Model.Value Model.Env Model.Reflect Model.Builtins
                       Model.Compiler Model.VM Proofs.TableProofs Proofs.SurfaceProofs.
Import ListNotations.
Open Scope N_scope.

(* every import of every library file is in the audited set: no unsafe, syscall, os/exec, net*, io, io/ioutil, plugin, cgo *)
Definition audited_imports : list string :=
  ["bytes"; "context"; "encoding/binary"; "errors"; "fmt"; "hash/fnv"; "math"; "os"; "reflect"; "regexp"; "sort";
   "strconv"; "strings"; "sync"; "time"; "unicode"; "unicode/utf8";
   "github.com/skx/evalfilter/v2/ast"; "github.com/skx/evalfilter/v2/code"; "github.com/skx/evalfilter/v2/environment";
   "github.com/skx/evalfilter/v2/lexer"; "github.com/skx/evalfilter/v2/object"; "github.com/skx/evalfilter/v2/parser";
   "github.com/skx/evalfilter/v2/stack"; "github.com/skx/evalfilter/v2/token"; "github.com/skx/evalfilter/v2/vm"]%string.
Theorem C10_imports_confined :
  forallb (fun fi => forallb (fun i => existsb (fun a => str_eqb i (L a)) audited_imports) (snd fi)) file_imports = true
  /\ uses_cgo = false.
Proof. exact SurfaceProofs.imports_confined. Qed.

(* of package os only Getenv is used; of time only the clock, the zone database and pure values;
   output only through fmt.Print* (standard output) *)
Definition member_ok (pkg member : str) : bool :=
  if str_eqb pkg (L "os") then str_eqb member (L "Getenv")
  else if str_eqb pkg (L "time") then existsb (fun a => str_eqb member (L a)) ["Now"; "LoadLocation"; "Time"; "Unix"; "Duration"; "Location"]%string
  else if str_eqb pkg (L "fmt") then existsb (fun a => str_eqb member (L a)) ["Errorf"; "Print"; "Printf"; "Println"; "Sprintf"; "Sprint"]%string
  else if str_eqb pkg (L "reflect") then negb (existsb (fun a => str_eqb member (L a)) ["NewAt"; "MakeFunc"]%string)
  else true.
Theorem C10_members_confined :
  forallb (fun u => member_ok (snd (fst u)) (snd u)) member_uses = true.
Proof. exact SurfaceProofs.members_confined. Qed.

(* the registered built-ins are exactly the audited ones (pure / stdout / getenv / clock / tz database) *)
Theorem C10_builtins_audited : TableProofs.builtins_agree = true.
Proof. exact TableProofs.builtins_agree_true. Qed.

(* the instruction set is closed: the only way a running script reaches the host is a call
   instruction that resolves to a function the HOST registered - the trace of host calls grows
   by exactly those, nothing else in the machine performs an effect *)
Theorem C10_effects_only_through_host_calls : forall o consts funcs fns obj fuel code ip m out m',
  exec o consts funcs fns obj fuel code ip m = (out, m') ->
  exists calls, trace m' = calls ++ trace m /\
    Forall (fun c => exists k, fn_get (cname c) fns = Some (FHost k)) calls.
Proof. exact SurfaceProofs.effects_only_through_host_calls. Qed.

(* every opcode of the current code's table is one the model knows *)
Theorem C10_closed_instruction_set : TableProofs.opcodes_agree = true /\
  forallb (fun '(b, name, _) => str_eqb name (L "OpUnknown") || (b <? 43)) op_table = true.
Proof. exact SurfaceProofs.closed_instruction_set. Qed.

(* C02 - Control flow runs exactly the statements the language selects, in order. *)
From Coq Require Import Floats.
From EF Require Import Model.Base Model.Lexer Model.Ast Model.Code Model.Value Model.Env Model.Reflect
                       Model.Builtins Model.Compiler Model.VM Spec.Ops Spec.Eval Spec.Exec Proofs.StmtProofs.
Open Scope N_scope.

(* Compile correctness for blocks of statements, any nesting depth: executing the
   byte-code the compiler emits for a block - conditional and unconditional jumps
   with back-patched absolute targets, placeholders, loop heads - behaves exactly
   as the reference interpreter that walks the syntax tree: same completion
   (fall through / return value / error class), same variables, same host-call
   trace, same stack.  Constructs: expression statements, assignment, compound
   assignment, ++/--, if / else if / else, while / for, foreach (arrays, strings,
   hashes, ranges; value and index/key), switch (literal, expression and regexp
   cases, default anywhere), ternary, return, calls of built-in and host functions. *)
Theorem C02_block_compile_correct : forall (o : stdlib) (fns : fnmap) (b : list stmt),
  StmtProofs.covered b = true -> block_compile_correct o fns b.
Proof. exact StmtProofs.block_compile_correct_covered. Qed.

(* `return` ends the script at once with its value: nothing after it runs *)
Theorem C02_return_stops : forall o fns obj fuel e rest m v m',
  sstmt o fns obj fuel (SReturn e) m = XReturn v m' ->
  sblock o fns obj (S fuel) (SReturn e :: rest) m = XReturn v m'.
Proof. exact StmtProofs.return_stops. Qed.

(* running off the end yields null *)
Theorem C02_fall_off_is_null : forall o consts funcs fns obj code m k,
  polls m = None ->
  exec o consts funcs fns obj (S k) code (lenN code) m = (ODone VNull, m).
Proof. exact StmtProofs.fall_off_is_null. Qed.

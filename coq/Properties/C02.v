(* C02 - Control flow runs exactly the statements the language selects, in order. *)
From Coq Require Import Floats.
From EF Require Import Model.Base Model.Lexer Model.Ast Model.Code Model.Value Model.Env Model.Reflect
                       Model.Builtins Model.Compiler Model.VM Spec.Ops Spec.Eval Spec.Exec Proofs.StmtProofs.
From EF Require Import Spec.Moded.
From EF Require Spec.ExecFun Proofs.SpecProofs Proofs.SameValueProofs.
Import SpecProofs.
Open Scope N_scope.

(* Compile correctness for blocks of statements, any nesting depth: executing the
   byte-code the compiler emits for a block - conditional and unconditional jumps
   with back-patched absolute targets, placeholders, loop heads - behaves exactly
   as the reference interpreter that walks the syntax tree: same completion
   (fall through / return value / error class), same variables, same host-call
   trace, same stack.  Constructs: expression statements, assignment, compound
   assignment, ++/--, if / else if / else, while / for, foreach (arrays, strings,
   hashes, ranges; value and index/key), switch (literal, expression and regexp
   cases, default anywhere), ternary, return, calls of built-in and host functions. *)
Theorem C02_block_compile_correct : forall (o : stdlib) (fns : fnmap) (b : list stmt),
  StmtProofs.covered b = true -> block_compile_correct o fns b.
Proof. exact StmtProofs.block_compile_correct_covered. Qed.

(* `return` ends the script at once with its value: nothing after it runs *)
Theorem C02_return_stops : forall o fns obj fuel e rest m v m',
  sstmt o fns obj fuel (SReturn e) m = XReturn v m' ->
  sblock o fns obj (S fuel) (SReturn e :: rest) m = XReturn v m'.
Proof. exact StmtProofs.return_stops. Qed.

(* running off the end yields null *)
Theorem C02_fall_off_is_null : forall o consts funcs fns obj code m k,
  polls m = None ->
  exec o consts funcs fns obj (S k) code (lenN code) m = (ODone VNull, m).
Proof. exact StmtProofs.fall_off_is_null. Qed.

(* ------------------------------------------------------------------ *)
(* THE REFERENCE INTERPRETER MEANS WHAT THE PROPERTY SAYS.  The compile-correctness theorems relate the
   byte-code to the reference interpreter (Spec/ExecFun.v); these theorems characterise that interpreter
   in the property's own words, for all programs, containers, states and sufficient fuel
   (`is_fuel r = false`: the run did not end by exhausting its fuel). *)

(* foreach visits every element of an array, string, hash or range exactly once, in order, binding value
   and optional index or key: the loop IS the body run once per entry of `entries` (array elements with
   indexes 0,1,2.., characters of a string, the pairs of a hash in sorted key order - `entries_hash`,
   `entries_range` in Proofs/SpecProofs.v), stopping at the first return or error, whatever the body
   leaves on the stack.  Side condition on the body: value-less constructs only in statement position and
   calls used only as whole statements (a call that returns nothing in operand position can eat the
   loop's iterator; SpecProofs gives the general statement with the semantic condition `bodies_safe`). *)
Theorem C02_foreach_visits_each_once : forall (o : stdlib) (fns : fnmap) (obj : hostval) (afs : ExecFun.aftable) (g h : nat) (idx ident : str)
    (v : expr) (body : list stmt) (F : nat) (m m1 : mstate) (c : value) (s : list value) (es : list (value * value)) (r : ExecFun.sres),
  moded_block g body = true -> nocall_block h body = true ->
  ExecFun.sx o fns obj afs F v m = ExecFun.XNormal m1 -> stk m1 = c :: s -> entries o c = Some es ->
  run_body_over o fns obj afs F idx ident body c 0 es (loop_state m1 s) = r -> is_fuel r = false ->
  forall fuel : nat, (F + List.length es + 2 <= fuel)%nat -> ExecFun.sx o fns obj afs fuel (EForeach idx ident v body) m = r.
Proof. exact SpecProofs.foreach_visits_each_once_tidy. Qed.

(* ... and when the loop completes normally the body was entered for exactly the entries, each once, in order *)
Theorem C02_normal_loop_visits_all : forall (o : stdlib) (fns : fnmap) (obj : hostval) (afs : ExecFun.aftable) (F : nat) (idx ident : str)
    (body : list stmt) (c : value) (es : list (value * value)) (off : N) (m m' : mstate),
  run_body_over o fns obj afs F idx ident body c off es m = ExecFun.XNormal m' ->
  visited o fns obj afs F idx ident body c off es m = es.
Proof. exact SpecProofs.normal_loop_visits_all. Qed.

(* a while body runs once per iteration while its condition is truthy: k rounds of (condition truthy, body
   normal), then the condition falsy *)
Theorem C02_while_runs_k_times : forall (o : stdlib) (fns : fnmap) (obj : hostval) (afs : ExecFun.aftable) (c : expr) (body : list stmt)
    (F k : nat) (m mk : mstate) (v : value) (mend : mstate),
  iterate_while o fns obj afs F c body k m = Some mk ->
  cond_val o fns obj afs F c mk = Some (v, mend) -> truthy v = false ->
  forall fuel : nat, (F + k + 1 <= fuel)%nat ->
  ExecFun.swhile o fns obj afs fuel c body m = ExecFun.XNormal mend /\ ExecFun.sx o fns obj afs (S fuel) (EWhile c body) m = ExecFun.XNormal mend.
Proof. exact SpecProofs.while_runs_k_times. Qed.

(* exactly one switch arm runs: the first one of whose case expressions matches (tests before it fail, arms and
   expressions after it are not evaluated at all - `es2` and `post` are unconstrained) ... *)
Theorem C02_switch_first_match : forall (o : stdlib) (fns : fnmap) (obj : hostval) (afs : ExecFun.aftable) (v : expr) (pre : list choice)
    (es1 : list expr) (e : expr) (es2 : list expr) (blk : list stmt) (post : list (bool * list expr * list stmt)) (F : nat)
    (m m' m'' : mstate) (r : ExecFun.sres),
  tests_fail o fns obj afs F v (case_exprs_of pre ++ es1) m = Some m' ->
  case_test o fns obj afs F v e m' = Some (true, m'') ->
  ExecFun.sblock o fns obj afs F blk m'' = r -> is_fuel r = false ->
  let cs := pre ++ (false, es1 ++ e :: es2, blk) :: post in
  forall fuel : nat, (F + switch_cost cs cs + 1 <= fuel)%nat -> ExecFun.sx o fns obj afs fuel (ESwitch v cs) m = r.
Proof. exact SpecProofs.switch_first_match. Qed.

(* ... where "matches by literal or expression" is: the case label IS the switch value - for values built from
   integers, strings, booleans, null and arrays of these, plain equality (repair of D40: `switch ([1, 2])` no
   longer runs `case ["1, 2"]`); a regexp label matches by the match built-in *)
Theorem C02_case_plain_exact : forall o v c, SameValueProofs.plain v = true -> SameValueProofs.no_iter c = true ->
  (forall s, c <> VRegexp s) -> (vm_case o v c = Ok (VBool true) <-> v = c).
Proof. exact SameValueProofs.case_plain_exact. Qed.

(* ... otherwise the default arm, wherever it is written; otherwise none *)
Theorem C02_switch_no_match : forall (o : stdlib) (fns : fnmap) (obj : hostval) (afs : ExecFun.aftable) (v : expr) (cs : list choice) (F : nat)
    (m m' : mstate) (r : ExecFun.sres),
  tests_fail o fns obj afs F v (case_exprs_of cs) m = Some m' ->
  run_blocks o fns obj afs F (default_blocks cs) m' = r -> is_fuel r = false ->
  forall fuel : nat, (F + switch_cost cs cs + 1 <= fuel)%nat -> ExecFun.sx o fns obj afs fuel (ESwitch v cs) m = r.
Proof. exact SpecProofs.switch_no_match. Qed.

(* if / else if / else: the block of the first truthy condition runs, later conditions are not evaluated ... *)
Theorem C02_if_first_truthy : forall (o : stdlib) (fns : fnmap) (obj : hostval) (afs : ExecFun.aftable) (pre : list (expr * list stmt)) (c0 : expr)
    (b0 : list stmt) (more : list (expr * list stmt)) (els : option (list stmt)) (cj : expr) (bj : list stmt)
    (post : list (expr * list stmt)) (F : nat) (m m' : mstate) (v : value) (m2 : mstate) (r : ExecFun.sres),
  (c0, b0) :: more = pre ++ (cj, bj) :: post ->
  all_falsy o fns obj afs F (map fst pre) m = Some m' ->
  cond_val o fns obj afs F cj m' = Some (v, m2) -> truthy v = true ->
  ExecFun.sblock o fns obj afs F bj m2 = r -> is_fuel r = false ->
  forall fuel : nat, (F + 3 * List.length pre + 1 <= fuel)%nat -> ExecFun.sx o fns obj afs fuel (if_chain c0 b0 more els) m = r.
Proof. exact SpecProofs.if_first_truthy. Qed.

(* ... otherwise the else block, otherwise nothing *)
Theorem C02_if_none_truthy : forall (o : stdlib) (fns : fnmap) (obj : hostval) (afs : ExecFun.aftable) (more : list (expr * list stmt)) (c0 : expr)
    (b0 : list stmt) (els : option (list stmt)) (F : nat) (m m' : mstate) (r : ExecFun.sres),
  all_falsy o fns obj afs F (map fst ((c0, b0) :: more)) m = Some m' ->
  match els with Some a => ExecFun.sblock o fns obj afs F a m' | None => ExecFun.XNormal m' end = r -> is_fuel r = false ->
  forall fuel : nat, (F + 3 * List.length more + 1 <= fuel)%nat -> ExecFun.sx o fns obj afs fuel (if_chain c0 b0 more els) m = r.
Proof. exact SpecProofs.if_none_truthy. Qed.

(* the conditional expression evaluates exactly one arm *)
Theorem C02_ternary_selects : forall (o : stdlib) (fns : fnmap) (obj : hostval) (afs : ExecFun.aftable) (F : nat) (c t e : expr) (m : mstate)
    (v : value) (m2 : mstate) (f : nat),
  cond_val o fns obj afs F c m = Some (v, m2) -> (F <= f)%nat ->
  ExecFun.sx o fns obj afs (S f) (ETernary c t e) m = ExecFun.sx o fns obj afs f (if truthy v then t else e) m2.
Proof. exact SpecProofs.ternary_selects. Qed.

(* a statement that does not complete normally (return, error) ends the block at once: nothing after it runs *)
Theorem C02_block_stops_at : forall (o : stdlib) (fns : fnmap) (obj : hostval) (afs : ExecFun.aftable) (pre : list stmt) (s : stmt) (rest : list stmt)
    (Fp Fs : nat) (m m1 : mstate) (r : ExecFun.sres),
  ExecFun.sblock o fns obj afs Fp pre m = ExecFun.XNormal m1 -> ExecFun.sstmt o fns obj afs Fs s m1 = r ->
  is_normal r = false -> is_fuel r = false ->
  forall fuel : nat, (Fp <= fuel)%nat -> (Fs < fuel)%nat ->
  ExecFun.sblock o fns obj afs (fuel + List.length pre) (pre ++ s :: rest) m = r.
Proof. exact SpecProofs.block_stops_at. Qed.

(* C09 - A deadline or cancellation stops any script promptly.
   Time is logical: the context is "done from poll number d on"; the machine
   polls it before every instruction, at every call depth. *)
From Coq Require Import Floats.
From EF Require Import Model.Base Model.Code Model.Value Model.Env Model.Reflect Model.Compiler Model.VM Model.Api
                       Proofs.PollProofs.
Open Scope N_scope.

(* an already-expired context prevents execution altogether: no instruction runs,
   no host call is made, no variable changes *)
Theorem C09_expired_prevents : forall o consts funcs fns obj code ip m k,
  polls m = Some 0 -> ip < lenN code ->
  exec o consts funcs fns obj (S k) code ip m = (OErr ETimeout, m).
Proof. exact PollProofs.expired_prevents. Qed.

Theorem C09_expired_run : forall o fuel e obj mc,
  emachine e = Some mc -> mctx mc = Some 0 -> pmain (mprog mc) <> [] ->
  exists e', execute o (S fuel) e obj = (RExec RTimeout VNull [] (globals (eenv e)) 0 0, e').
Proof. exact PollProofs.expired_run. Qed.

(* the budget only ever goes down, by exactly one per instruction executed: a
   run given d polls executes at most d instructions (counted across all call
   depths) - it cannot spin anywhere without being stopped *)
Theorem C09_budget_decreases : forall o consts funcs fns obj fuel code ip m out m' d,
  polls m = Some d -> exec o consts funcs fns obj fuel code ip m = (out, m') ->
  exists d', polls m' = Some d' /\ d' <= d.
Proof. exact PollProofs.budget_decreases. Qed.

Theorem C09_no_budget_no_progress : forall o consts funcs fns obj fuel code ip m out m',
  polls m = Some 0 -> exec o consts funcs fns obj fuel code ip m = (out, m') ->
  out = OErr ETimeout \/ out = OErr EFuel \/ (out = ODone VNull /\ lenN code <= ip).
Proof. exact PollProofs.no_budget_no_progress. Qed.

(* a script that finishes within the budget is unaffected by the deadline *)
Theorem C09_unaffected : forall o consts funcs fns obj fuel code ip m out m',
  polls m = None ->
  exec o consts funcs fns obj fuel code ip m = (out, m') -> out <> OErr EFuel ->
  exists n : N, forall d, n <= d ->
    exec o consts funcs fns obj fuel code ip (mkM (stk m) (menv m) (trace m) (Some d)) =
    (out, mkM (stk m') (menv m') (trace m') (Some (d - n))).
Proof. exact PollProofs.unaffected. Qed.

(* the context handed to SetContext before Prepare is the one the machine polls *)
Theorem C09_context_travels : forall o e optimize u p e',
  prepare o e optimize = (PrepOk u p, e') ->
  emachine e' = Some (mkMachine p (ectx e)).
Proof. exact PollProofs.context_travels. Qed.

(* C12 - Expressions parse with the documented precedence and grouping. *)
From Coq Require Import Floats.
From EF Require Import Model.Base Gen.Tables Model.Lexer Model.Ast Model.Parser Spec.Grammar Spec.Printer
                       Proofs.TableProofs Proofs.ParserProofs Proofs.PrinterProofs.
Open Scope N_scope.

(* the binding order the parser of the CURRENT code uses is the documented one
   (table regenerated from the code on every run) *)
Theorem C12_levels_documented :
  TableProofs.prec_agrees = true /\ TableProofs.levels_agree = true /\ TableProofs.registrations_agree = true.
Proof. exact (conj TableProofs.prec_agrees_true (conj TableProofs.levels_agree_true TableProofs.registrations_agree_true)). Qed.

(* index/call > prefix > % > ** > * / > + - > comparisons > == != > && || > = .. > ? *)
Theorem C12_documented_order :
  (P_INDEX >? P_CALL) && (P_CALL >? PREFIX) && (PREFIX >? P_MOD) && (P_MOD >? P_POWER) && (P_POWER >? P_PRODUCT) &&
  (P_PRODUCT >? P_SUM) && (P_SUM >? P_LESSGREATER) && (P_LESSGREATER >? P_EQUALS) && (P_EQUALS >? P_COND) &&
  (P_COND >? P_ASSIGN) && (P_ASSIGN >? P_TERNARY) && (P_TERNARY >? LOWEST) = true /\
  forallb (fun t => match doc_prec t with Some p => prec_of t =? p | None => true end) all_tokty = true.
Proof. exact ParserProofs.documented_order. Qed.

(* Parse o print = identity, for operator trees of ANY depth: a tree printed
   with exactly the parentheses the documented order requires parses back to
   itself; so does the fully parenthesised spelling - hence redundant
   parentheses never change the meaning, and the minimal spelling needs no more. *)
Theorem C12_parse_print_min : forall (pf : str -> option (option float)) (t : otree),
  well_formed t = true ->
  parse_tokens pf 0 (show_min t ++ [semi; eof]) = ParseOk [SExpr (to_expr t)].
Proof. exact ParserProofs.parse_print_min. Qed.

Theorem C12_parse_print_full : forall (pf : str -> option (option float)) (t : otree),
  well_formed t = true ->
  parse_tokens pf 0 (show_full t ++ [semi; eof]) = ParseOk [SExpr (to_expr t)].
Proof. exact ParserProofs.parse_print_full. Qed.

(* equal levels group left to right; a stronger operator on the right grabs the operand *)
Theorem C12_adjacent_pairs :
  forallb (fun o1 => forallb (fun o2 =>
    let a := OAtomId [97] in let b := OAtomId [98] in let c := OAtomId [99] in
    let p1 := match doc_prec o1 with Some p => p | None => 0 end in
    let p2 := match doc_prec o2 with Some p => p | None => 0 end in
    let toks := [mkTok TIdent [97]; op_token o1; mkTok TIdent [98]; op_token o2; mkTok TIdent [99]; semi; eof] in
    let want := if p1 <? p2 then OBin o1 a (OBin o2 b c) else OBin o2 (OBin o1 a b) c in
    match parse_tokens (fun _ => None) 0 toks with
    | ParseOk [SExpr e] => ParserProofs.expr_eqb e (to_expr want)
    | _ => false
    end) binops) binops = true.
Proof. exact ParserProofs.adjacent_pairs. Qed.

(* nested ternaries are rejected: while the arms of a ternary are being parsed, a `?` is an error *)
Theorem C12_nested_ternary_rejected : forall pf md fuel lhs s,
  tern s = true -> tty (curT s) = TQuestion ->
  parse_infix pf md (S fuel) lhs s = PErr.
Proof. exact ParserProofs.nested_ternary_rejected. Qed.

Theorem C12_ternary_arms_flagged : forall pf md fuel lhs s r,
  tern s = false -> tty (curT s) = TQuestion ->
  parse_infix pf md (S fuel) lhs s = r ->
  match r with POk _ s' => tern s' = false | _ => True end.
Proof. exact ParserProofs.ternary_arms_flagged. Qed.

(* ------------------------------------------------------------------ *)
(* The whole expression language, minimal parentheses: trees over identifiers and integers with the
   documented binary operators, prefix ! - sqrt, index a[i], member a.b and calls f(x, ...), printed
   with exactly the parentheses the documented order (index/member > call > prefix > % > ** > * / >
   + - > comparisons > == != > && || > ..) requires, parse back to themselves - so `-a[0]` is
   -(a[0]), `!f(a) && b` is (!(f(a))) && b, `-(a+b)*c` needs its parentheses, at any depth. *)
Theorem C12_parse_print_min_ext : forall (pf : str -> option (option float)) (t : xtree),
  xwf t = true ->
  parse_tokens pf 0 (show_x t ++ [semi; eof]) = ParseOk [SExpr (x_expr t)].
Proof. exact PrinterProofs.parse_show_min_ext. Qed.

(* A postfix operator applies to the variable written before it, however that variable is
   parenthesised: `x++`, `(x)++` and `((x))++` are the same program (the operator reaches the parser
   as a statement of its own and used to name the token before it - `)` in `(x)++`). *)
Theorem C12_postfix_parens :
  let run := parse_script (fun _ => None) max_depth in
  let want := ParseOk [SExpr (EAssign (L "x") (EInt (L "1") 1)); SExpr (EIdent (L "x"));
                       SExpr (EPostfix (L "x") TPlusPlus)] in
  run (L "x = 1; x++;") = want /\
  run (L "x = 1; (x)++;") = want /\
  run (L "x = 1; ((x))++;") = want.
Proof. exact ParserProofs.postfix_parens. Qed.

(* C01 - Expressions evaluate to the value the language defines, or to an error.
   Statements only; proofs in Proofs/OpsProofs.v and Proofs/ExprProofs.v. *)
From Coq Require Import Floats.
From EF Require Import Model.Base Gen.Tables Model.Lexer Model.Ast Model.Code Model.Value Model.Env
                       Model.Reflect Model.Builtins Model.Compiler Model.VM Spec.Ops Spec.Eval
                       Proofs.OpsProofs Proofs.TableProofs Proofs.ExprProofs.
Open Scope N_scope.

(* the machine's binary operation is the language's operator table: every
   operator, every pair of operand types, every operand value *)
Theorem C01_binop_table : forall (o : stdlib) (op : binop) (l r : value),
  vm_binop o op l r = spec_binop o op l r.
Proof. exact OpsProofs.binop_table. Qed.

(* integer arithmetic stays integer *)
Theorem C01_int_stays_int : forall o op x y v,
  is_arith op = true -> vm_binop o op (VInt x) (VInt y) = Ok v -> exists z, v = VInt z.
Proof. exact OpsProofs.int_stays_int. Qed.

(* int mixed with float is computed in float *)
Theorem C01_mixed_is_float : forall o op x y v,
  is_arith op = true ->
  (vm_binop o op (VInt x) (VFloat y) = Ok v \/ vm_binop o op (VFloat y) (VInt x) = Ok v) ->
  exists f, v = VFloat f.
Proof. exact OpsProofs.mixed_is_float. Qed.

(* division and modulo by zero never produce a value *)
Theorem C01_div_mod_zero : forall o l r,
  (r = VInt 0 \/ r = VFloat 0%float) -> (exists z, l = VInt z) \/ (exists f, l = VFloat f) ->
  (forall v, vm_binop o BDiv l r <> Ok v) /\
  (forall v, vm_binop o BMod l r <> Ok v).
Proof. exact OpsProofs.div_mod_zero. Qed.

(* operand types an operator does not accept end in an error, never a value:
   outside && and ||, both operands must be numbers, or both strings, or both
   booleans, or a string with a regexp, or anything `in` an array *)
Theorem C01_type_errors : forall o op l r v,
  op <> BAnd -> op <> BOr -> vm_binop o op l r = Ok v ->
  (is_number l = true /\ is_number r = true) \/
  (type_of l = TyStr /\ type_of r = TyStr) \/
  (type_of l = TyBool /\ type_of r = TyBool) \/
  (type_of l = TyStr /\ type_of r = TyRegexp /\ (op = BMatch \/ op = BNotMatch)) \/
  (op = BIn /\ type_of r = TyArray).
Proof. exact OpsProofs.type_errors. Qed.

(* strings concatenate and order lexically *)
Theorem C01_string_ops : forall o a b,
  vm_binop o BAdd (VStr a) (VStr b) = Ok (VStr (a ++ b)) /\
  vm_binop o BLt (VStr a) (VStr b) = Ok (VBool (str_ltb a b)) /\
  vm_binop o BEq (VStr a) (VStr b) = Ok (VBool (str_eqb a b)) /\
  vm_binop o BIn (VStr a) (VStr b) = Ok (VBool (contains b a)).
Proof. exact OpsProofs.string_ops. Qed.

(* == and != compare int and float numerically *)
Theorem C01_numeric_equality : forall o x f,
  vm_binop o BEq (VInt x) (VFloat f) = Ok (VBool (PrimFloat.eqb (float_of_Z x) f)) /\
  vm_binop o BNe (VInt x) (VFloat f) = Ok (VBool (negb (PrimFloat.eqb (float_of_Z x) f))).
Proof. exact OpsProofs.numeric_equality. Qed.

(* unary operators *)
Theorem C01_unops : forall v,
  (forall z, v = VInt z -> vm_minus v = Ok (VInt (wrap64 (- z)))) /\
  (type_of v <> TyInt -> type_of v <> TyFloat -> vm_minus v = Err EScript /\ vm_sqrt v = Err EScript).
Proof. exact OpsProofs.unops. Qed.

(* indexing: the element, null outside the range, for every integer index *)
Theorem C01_index_table : forall o l i, vm_index o l i = spec_index o l i.
Proof. exact OpsProofs.index_table. Qed.

(* the compiler emits, for every operator token, the instruction the language
   assigns to it - checked against the table observed on the current code *)
Theorem C01_operator_table_agrees : TableProofs.optoken_agrees = true.
Proof. exact TableProofs.optoken_agrees_true. Qed.

(* integer literals: small ones inline, all others through the pool; both denote the literal *)
Theorem C01_int_literal : forall (o : stdlib) consts funcs fns obj text (z : Z) c c' fuel,
  in_int64 z = true ->
  compile_expr fuel (EInt text z) c = COk tt c' ->
  Spec.Eval.literal_pushes o consts funcs fns obj c c' (VInt z).
Proof. exact ExprProofs.int_literal. Qed.

(* Compile correctness for jump-free expressions of ANY depth: running the
   code the compiler emits for e leaves exactly the value the reference
   semantics gives e on the stack, and if the reference semantics says
   "error" the run ends in that error - never in a value. *)
Theorem C01_expr_compile_correct : forall (o : stdlib) e,
  Spec.Eval.pure_expr e = true -> Spec.Eval.compile_correct o e.
Proof. exact ExprProofs.expr_compile_correct. Qed.

(* C14 - Literals mean what they spell; layout and comments mean nothing.
   Only statements here; proofs are in Proofs/LexerProofs.v. *)
From EF Require Import Model.Base Gen.Tables Model.Lexer Spec.LexSpec Spec.Unlex Proofs.LexerProofs Proofs.UnlexProofs.
Open Scope N_scope.

Definition EOFtok := mkTok TEOF [].

(* tokenisation terminates for every input (fuel |input|+2 always suffices) *)
Theorem C14_lexer_terminates : forall s : str, lex s <> None.
Proof. exact LexerProofs.lexer_terminates. Qed.

(* a string literal denotes exactly the characters written between its
   quotes, in either quote style, for any Unicode text (the character U+0000
   included: it is an ordinary character inside a literal) *)
Theorem C14_string_roundtrip : forall (q : N) (s : str),
  is_quote q = true ->
  lex (quote q s) = Some [mkTok TString s; EOFtok].
Proof. exact LexerProofs.string_roundtrip. Qed.

(* the same with \n \r \t written as escapes *)
Theorem C14_string_escapes : forall (q : N) (s : str),
  is_quote q = true ->
  lex (quote_esc q s) = Some [mkTok TString s; EOFtok].
Proof. exact LexerProofs.string_escapes. Qed.

(* integer and decimal literals are spelled by their digits *)
Theorem C14_int_literal : forall ds : str,
  ds <> [] -> all_digits ds = true -> lex ds = Some [mkTok TInt ds; EOFtok].
Proof. exact LexerProofs.int_literal. Qed.

Theorem C14_float_literal : forall a b : str,
  a <> [] -> b <> [] -> all_digits a = true -> all_digits b = true ->
  lex (a ++ [46] ++ b) = Some [mkTok TFloat (a ++ [46] ++ b); EOFtok].
Proof. exact LexerProofs.float_literal. Qed.

(* `a..b` is INT DOTDOT INT, never a float *)
Theorem C14_range_literal : forall a b : str,
  a <> [] -> b <> [] -> all_digits a = true -> all_digits b = true ->
  lex (a ++ [46; 46] ++ b) = Some [mkTok TInt a; mkTok TDotDot [46; 46]; mkTok TInt b; EOFtok].
Proof. exact LexerProofs.range_literal. Qed.

(* a regexp literal denotes its pattern, backslash taking the next character literally *)
Theorem C14_regexp_literal : forall s : str,
  s <> [] ->
  lex (re_lit s) = Some [mkTok TRegexp s; EOFtok].
Proof. exact LexerProofs.regexp_literal. Qed.

(* ... plus its i / m flags *)
Theorem C14_regexp_flag_i : forall s : str,
  s <> [] ->
  lex (re_lit s ++ [105]) = Some [mkTok TRegexp (L "(?i)" ++ s); EOFtok].
Proof. exact LexerProofs.regexp_flag_i. Qed.

(* any other flag letter is rejected *)
Theorem C14_regexp_bad_flag : forall (s : str) (f : N),
  s <> [] -> is_letter f = true -> f <> 105 -> f <> 109 ->
  lex (re_lit s ++ [f]) = Some [mkTok TIllegal []; EOFtok].
Proof. exact LexerProofs.regexp_bad_flag. Qed.

(* `/` is division exactly after ) identifier ] float int *)
Theorem C14_slash_division : forall (prev : tokty) (rest : str),
  slash_is_division prev = true -> cur rest <> 61 -> cur rest <> 47 ->
  next_token (47 :: rest) prev = (mkTok TSlash [47], rest, TSlash).
Proof. exact LexerProofs.slash_division. Qed.

Theorem C14_slash_regexp : forall (prev : tokty) (rest : str),
  slash_is_division prev = false -> cur rest <> 47 ->
  let '(t, _, _) := next_token (47 :: rest) prev in tty t = TRegexp \/ tty t = TIllegal.
Proof. exact LexerProofs.slash_regexp. Qed.

(* the division contexts are the ones observed on the code (regenerated table) *)
Theorem C14_slash_context_table :
  forallb (fun '(name, verdict) =>
     match tokty_of_name name with
     | Some t => Bool.eqb (slash_is_division t) (str_eqb verdict (L "div"))
     | None => false
     end) slash_context = true.
Proof. exact LexerProofs.slash_context_table. Qed.

(* inserting white space or a // comment before a token changes nothing; a comment
   runs to the next newline whatever it contains (U+0000 included) *)
Theorem C14_leading_layout : forall (ws l : str) (prev : tokty),
  forallb is_whitespace ws = true ->
  next_token (ws ++ l) prev = next_token l prev.
Proof. exact LexerProofs.leading_layout. Qed.

Theorem C14_leading_comment : forall (body l : str) (prev : tokty),
  forallb (fun c => negb (c =? 10)) body = true ->
  next_token (47 :: 47 :: body ++ 10 :: l) prev = next_token l prev.
Proof. exact LexerProofs.leading_comment. Qed.

(* non-vacuity *)
Example C14_example_string :
  lex (quote 34 (L "a\b""c")) = Some [mkTok TString (L "a\b""c"); EOFtok].
Proof. vm_compute. reflexivity. Qed.

(* U+0000 inside a string literal, a regexp literal or a comment is an ordinary character:
   "a<NUL>b"  is one STRING token,  // c <NUL> d<newline>1  is the INT token 1,
   /a<NUL>b/  is one REGEXP token; where a token starts U+0000 is still ILLEGAL *)
Theorem C14_string_with_nul :
  lex [34; 97; 0; 98; 34] = Some [mkTok TString [97; 0; 98]; EOFtok].
Proof. exact LexerProofs.string_with_nul. Qed.

Theorem C14_comment_with_nul :
  lex [47; 47; 32; 99; 32; 0; 32; 100; 10; 49] = Some [mkTok TInt [49]; EOFtok].
Proof. exact LexerProofs.comment_with_nul. Qed.

Theorem C14_regexp_with_nul :
  lex [47; 97; 0; 98; 47] = Some [mkTok TRegexp [97; 0; 98]; EOFtok].
Proof. exact LexerProofs.regexp_with_nul. Qed.

Theorem C14_nul_at_token_start :
  lex [49; 32; 0; 50] = Some [mkTok TInt [49]; mkTok TIllegal []; mkTok TInt [50]; EOFtok].
Proof. exact LexerProofs.nul_at_token_start. Qed.

(* ------------------------------------------------------------------ *)
(* WHOLE TOKEN STREAMS.  Every sequence of tokens the lexer can produce (identifiers, keywords, all
   operators, integer / float / string / regexp literals, with `/` in a context where it means what the
   token says) has a spelling - canonical spellings separated by one space - that the lexer maps back
   to exactly that sequence; and replacing the separators by ANY blocks of white space and // comments
   (each starting with a white-space character), with any layout in front, gives the same tokens. *)
Theorem C14_lex_unlex : forall ts, lexable ts = true -> lex (unlex ts) = Some (ts ++ [mkTok TEOF []]).
Proof. exact UnlexProofs.lex_unlex. Qed.

Theorem C14_layout_irrelevant : forall pre tl,
  layout_ok pre = true -> seps_ok tl = true -> lexable (map fst tl) = true ->
  lex (render pre ++ unlex_layout tl) = lex (unlex (map fst tl)).
Proof. exact UnlexProofs.lex_layout_irrelevant. Qed.

(* non-vacuity: a sequence of 90 tokens covering every token type is lexable and round-trips *)
Theorem C14_lex_unlex_example : lexable UnlexProofs.ex_all = true /\ lex (unlex UnlexProofs.ex_all) = Some (UnlexProofs.ex_all ++ [mkTok TEOF []]).
Proof. exact (conj UnlexProofs.ex_all_lexable UnlexProofs.ex_all_roundtrip). Qed.

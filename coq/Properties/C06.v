(* C06 - Functions and scopes: locals stay local, everything else is global. *)
From Coq Require Import Floats.
From EF Require Import Model.Base Gen.Tables Model.Code Model.Value Model.Env Model.Reflect Model.Builtins Model.Compiler
                       Model.VM Model.Api Model.Ast Spec.ExecFun Proofs.EnvProofs Proofs.CallProofs Proofs.ProgProofs.
From EF Require Import Model.Lexer Spec.Moded.
From EF Require Proofs.SpecProofs Proofs.SpecCallProofs.
Import SpecCallProofs.
Open Scope N_scope.

(* a declaration in a fresh scope shadows, and closing the scope restores exactly what was there *)
Theorem C06_declare_shadows : forall e k n v,
  env_get (env_declare (env_push e k) n v) n = Some v /\
  env_truncate (env_declare (env_push e k) n v) (env_depth e) = e.
Proof. exact EnvProofs.declare_shadows. Qed.

(* declaring never touches another name, nor the globals *)
Theorem C06_declare_other : forall e n v m,
  str_eqb n m = false -> env_get (env_declare e n v) m = env_get e m.
Proof. exact EnvProofs.declare_other. Qed.
Theorem C06_declare_globals : forall e n v, globals (env_declare e n v) = globals e.
Proof. exact EnvProofs.declare_globals. Qed.

(* an assignment to a name that is local nowhere is global *)
Theorem C06_set_global : forall e n v,
  local_get n (scopes e) = None ->
  env_set e n v = mkEnv (assoc_set n v (globals e)) (scopes e).
Proof. exact EnvProofs.set_global. Qed.

(* closing scopes: whatever the callee opened is gone, the caller's scopes are the ones that remain *)
Theorem C06_truncate_depth : forall e d,
  (d <= env_depth e)%nat -> env_depth (env_truncate e d) = d.
Proof. exact EnvProofs.truncate_depth. Qed.

(* every run starts and ends with no open scope, however it ends *)
Theorem C06_run_scope_balance : forall o consts funcs fns obj fuel main m out m',
  run_main o consts funcs fns obj fuel main m = (out, m') -> scopes (menv m') = [].
Proof. exact EnvProofs.run_scope_balance. Qed.

(* the call instruction: unknown function and wrong argument count are run-time errors *)
Theorem C06_unknown_function_is_error :
  forall o consts funcs fns obj code ip m name n args s k,
  byte_at code ip = Some OpCall -> operand_at code ip = Some n -> ip < lenN code -> polls m = None ->
  stk m = VStr name :: rev args ++ s -> lenN args = n ->
  fn_get name fns = None -> ufunc_get name funcs = None ->
  exists m', exec o consts funcs fns obj (S k) code ip m = (OErr EScript, m').
Proof. exact CallProofs.unknown_function_is_error. Qed.

Theorem C06_wrong_arity_is_error :
  forall o consts funcs fns obj code ip m name n args s k uf,
  byte_at code ip = Some OpCall -> operand_at code ip = Some n -> ip < lenN code -> polls m = None ->
  stk m = VStr name :: rev args ++ s -> lenN args = n ->
  fn_get name fns = None -> ufunc_get name funcs = Some uf ->
  List.length (fparams uf) <> List.length args ->
  exists m', exec o consts funcs fns obj (S k) code ip m = (OErr EScript, m').
Proof. exact CallProofs.wrong_arity_is_error. Qed.

(* a built-in wins over a user-defined function of the same name: the call
   instruction runs the built-in whatever the user-function table contains *)
Theorem C06_builtin_wins :
  forall o consts funcs fns obj code ip m name n args s k bn v,
  byte_at code ip = Some OpCall -> operand_at code ip = Some n -> ip < lenN code -> polls m = None ->
  stk m = VStr name :: rev args ++ s -> lenN args = n ->
  fn_get name fns = Some (FBuiltin bn) -> call_builtin o bn args = Some (BVal v) ->
  exec o consts funcs fns obj (S k) code ip m =
  exec o consts funcs fns obj k code (ip + 3) (set_stk m (match v with VVoid => s | _ => v :: s end)).
Proof. exact CallProofs.builtin_wins. Qed.

(* the call frame: a user function runs on a fresh stack in a fresh scope holding its
   parameters; when it returns the caller's stack is back (plus the result) and
   the scope depth is what it was - whether it ends by return or by error *)
Theorem C06_call_frame :
  forall o consts funcs fns obj code ip m name n args s k uf,
  byte_at code ip = Some OpCall -> operand_at code ip = Some n -> ip < lenN code -> polls m = None ->
  stk m = VStr name :: rev args ++ s -> lenN args = n ->
  fn_get name fns = None -> ufunc_get name funcs = Some uf ->
  List.length (fparams uf) = List.length args ->
  (Gen.Tables.max_call_depth = 0 \/ N.of_nat (env_depth (menv m)) < Gen.Tables.max_call_depth) ->
  let callee := exec o consts funcs fns obj k (fcode uf) 0
                  (mkM [] (declare_all (env_push_frame (menv m)) (fparams uf) args) (trace m) (polls m)) in
  match callee with
  | (ODone out, m2) =>
      exec o consts funcs fns obj (S k) code ip m =
      exec o consts funcs fns obj k code (ip + 3)
        (mkM (match out with VVoid => s | _ => out :: s end)
             (env_truncate (menv m2) (env_depth (menv m))) (trace m2) (polls m2))
  | (OErr x, m2) =>
      exec o consts funcs fns obj (S k) code ip m =
      (OErr x, mkM s (env_truncate (menv m2) (env_depth (menv m))) (trace m2) (polls m2))
  end.
Proof. exact CallProofs.call_frame. Qed.

(* the scope of a call hides the callers' locals: a name read in a fresh call frame comes from the globals *)
Theorem C06_frame_hides_callers : forall e n,
  env_get (env_push_frame e) n = assoc_get n (globals e).
Proof. exact EnvProofs.frame_hides_callers. Qed.

(* an assignment in a fresh call frame binds a global and leaves every scope as it was *)
Theorem C06_assignment_in_callee_is_global : forall e n v,
  env_set (env_push_frame e) n v =
  mkEnv (assoc_set n v (globals e)) (scopes (env_push_frame e)).
Proof. exact EnvProofs.assignment_in_callee_is_global. Qed.

(* calls nested too deeply are a run-time error *)
Theorem C06_too_deep_is_error :
  forall o consts funcs fns obj code ip m name n args s k uf,
  byte_at code ip = Some OpCall -> operand_at code ip = Some n -> ip < lenN code -> polls m = None ->
  stk m = VStr name :: rev args ++ s -> lenN args = n ->
  fn_get name fns = None -> ufunc_get name funcs = Some uf ->
  List.length (fparams uf) = List.length args ->
  Gen.Tables.max_call_depth <> 0 -> Gen.Tables.max_call_depth <= N.of_nat (env_depth (menv m)) ->
  exists m', exec o consts funcs fns obj (S k) code ip m = (OErr EScript, m').
Proof. exact CallProofs.too_deep_is_error. Qed.

(* Whole scripts with user-defined functions: running the compiled program - main body, function
   table, calls (recursive ones too), parameters, `local`, returns from inside loops - behaves exactly
   as the reference interpreter of Spec/ExecFun.v, which runs a call in a fresh frame that hides the
   caller's locals, binds the parameters there, and discards the frame when the call ends.
   Side condition: array literals and argument lists have fewer than 65536 entries (longer ones exist
   only with value-less entries; see the refutation below and known finding D19). *)
Theorem C06_program_compile_correct : forall (o : stdlib) (fns : fnmap) (p : program),
  ProgProofs.plain_program p = true -> program_compile_correct o fns p.
Proof. exact ProgProofs.program_compile_correct_partial. Qed.

(* the side condition cannot be dropped *)
Theorem C06_program_compile_correct_needs_short_lists :
  ~ (forall (o : stdlib) (fns : fnmap) (p : program), program_compile_correct o fns p).
Proof. exact ProgProofs.program_compile_correct_all_false. Qed.

(* ------------------------------------------------------------------ *)
(* THE REFERENCE INTERPRETER'S CALLS MEAN WHAT THE PROPERTY SAYS (Proofs/SpecCallProofs.v): for all programs,
   states and fuel. *)

(* after a call of a user-defined function returns - by `return` from anywhere, also from inside nested loops,
   or by falling off the end - the caller's open scopes are EXACTLY what they were once the arguments had been
   evaluated (same bindings, same values: the callee could neither read nor change them, and its own parameters,
   locals and loop variables are gone); the stack is the caller's plus the returned value (nothing for a
   value-less return); what may have changed besides are the globals, and the trace has only grown *)
Theorem C06_call_restores_callers_locals : forall (o : stdlib) (fns : fnmap) (obj : hostval) (afs : aftable) (f : nat) (fn : expr)
    (name : str) (args : list expr) (m m' : mstate) (af : afunc),
  estr 64 fn = Some name -> fn_get name fns = None -> af_get name afs = Some af ->
  sx o fns obj afs (S f) (ECall fn args) m = XNormal m' ->
  exists (m1 : mstate) (vals s : list value) (v : value) (m2 : mstate),
    user_call_completes o fns obj afs f af args m m1 vals s v m2 m' /\
    scopes (menv m') = scopes (menv m1) /\
    stk m' = ret_stack v s /\
    globals (menv m') = globals (menv m2) /\
    polls m' = polls m /\
    (exists t : list call, trace m' = t ++ trace m) /\
    (forall n : str, local_get n (scopes (menv m')) = local_get n (scopes (menv m1))).
Proof. exact SpecCallProofs.call_restores_callers_locals. Qed.

(* non-interference: the body of a callee behaves identically whatever the callers' locals hold *)
Theorem C06_callee_cannot_observe_callers_locals : forall (o : stdlib) (fns : fnmap) (obj : hostval) (afs : aftable) (f : nat)
    (af : afunc) (vals : list value) (m1 m1' : mstate),
  trace m1 = trace m1' -> polls m1 = polls m1' -> globals (menv m1) = globals (menv m1') ->
  List.length (scopes (menv m1)) = List.length (scopes (menv m1')) ->
  same_outcome (sblock o fns obj afs f (abody af) (callee_entry m1 af vals))
               (sblock o fns obj afs f (abody af) (callee_entry m1' af vals)).
Proof. exact SpecCallProofs.callee_cannot_observe_callers_locals. Qed.

(* assignments to other names are global and visible afterwards (unless the caller has a local of that name,
   which then still shadows it) *)
Theorem C06_assignment_to_other_names_is_global : forall (o : stdlib) (fns : fnmap) (obj : hostval) (afs : aftable) (f : nat)
    (af : afunc) (args : list expr) (m m1 : mstate) (vals s : list value) (v : value) (m2 m' : mstate),
  user_call_completes o fns obj afs f af args m m1 vals s v m2 m' ->
  forall n : str,
  env_get (menv m') n = match local_get n (scopes (menv m1)) with
                        | Some x => Some x
                        | None => assoc_get n (globals (menv m2))
                        end /\
  (forall x : value, local_get n (scopes (menv m1)) = Some x -> env_get (menv m') n = Some x /\ env_get (menv m1) n = Some x) /\
  (local_get n (scopes (menv m1)) = None -> local_get n (scopes (menv m2)) = None -> env_get (menv m') n = env_get (menv m2) n).
Proof. exact SpecCallProofs.assignment_to_other_names_is_global. Qed.

(* after a foreach loop the loop variables are gone and every enclosing local of the same name has its old value
   (a GLOBAL of that name may have been assigned by a function called from the body: SpecCallProofs has the
   counterexample) *)
Theorem C06_foreach_variables_scoped : forall (o : stdlib) (fns : fnmap) (obj : hostval) (afs : aftable) (f : nat) (idx ident : str)
    (v : expr) (body : list stmt) (m m' : mstate) (x : str),
  x = trim_dollar ident \/ idx <> [] /\ x = trim_dollar idx ->
  sx o fns obj afs (S f) (EForeach idx ident v body) m = XNormal m' ->
  exists (m1 : mstate) (c : value) (s : list value),
    sx o fns obj afs f v m = XNormal m1 /\ stk m1 = c :: s /\
    map fst (scopes (menv m')) = map fst (scopes (menv m1)) /\
    xview x (scopes (menv m')) = xview x (scopes (menv m1)) /\
    local_get x (scopes (menv m')) = local_get x (scopes (menv m1)) /\
    (forall v0 : value, local_get x (scopes (menv m1)) = Some v0 -> env_get (menv m') x = Some v0 /\ env_get (menv m1) x = Some v0).
Proof. exact SpecCallProofs.foreach_variables_scoped. Qed.

(* functions may be called before their definition: the table is collected from the whole script, and a
   definition is found wherever it is written (the last one of a name wins) *)
Theorem C06_definition_found_wherever_written : forall (fuel : nat) (pre : list stmt) (name : str) (ps : list str) (b post : list stmt)
    (t : aftable),
  nodef_block (S (S fuel)) name post = true ->
  af_get name (collect_block (S (S fuel)) (pre ++ SExpr (EFunction name ps b) :: post) t) = Some (mkAfunc ps b).
Proof. exact SpecCallProofs.definition_found_wherever_written. Qed.

(* C06 - Functions and scopes: locals stay local, everything else is global. *)
From Coq Require Import Floats.
From EF Require Import Model.Base Gen.Tables Model.Code Model.Value Model.Env Model.Reflect Model.Builtins Model.Compiler
                       Model.VM Model.Api Model.Ast Spec.ExecFun Proofs.EnvProofs Proofs.CallProofs Proofs.ProgProofs.
Open Scope N_scope.

(* a declaration in a fresh scope shadows, and closing the scope restores exactly what was there *)
Theorem C06_declare_shadows : forall e k n v,
  env_get (env_declare (env_push e k) n v) n = Some v /\
  env_truncate (env_declare (env_push e k) n v) (env_depth e) = e.
Proof. exact EnvProofs.declare_shadows. Qed.

(* declaring never touches another name, nor the globals *)
Theorem C06_declare_other : forall e n v m,
  str_eqb n m = false -> env_get (env_declare e n v) m = env_get e m.
Proof. exact EnvProofs.declare_other. Qed.
Theorem C06_declare_globals : forall e n v, globals (env_declare e n v) = globals e.
Proof. exact EnvProofs.declare_globals. Qed.

(* an assignment to a name that is local nowhere is global *)
Theorem C06_set_global : forall e n v,
  local_get n (scopes e) = None ->
  env_set e n v = mkEnv (assoc_set n v (globals e)) (scopes e).
Proof. exact EnvProofs.set_global. Qed.

(* closing scopes: whatever the callee opened is gone, the caller's scopes are the ones that remain *)
Theorem C06_truncate_depth : forall e d,
  (d <= env_depth e)%nat -> env_depth (env_truncate e d) = d.
Proof. exact EnvProofs.truncate_depth. Qed.

(* every run starts and ends with no open scope, however it ends *)
Theorem C06_run_scope_balance : forall o consts funcs fns obj fuel main m out m',
  run_main o consts funcs fns obj fuel main m = (out, m') -> scopes (menv m') = [].
Proof. exact EnvProofs.run_scope_balance. Qed.

(* the call instruction: unknown function and wrong argument count are run-time errors *)
Theorem C06_unknown_function_is_error :
  forall o consts funcs fns obj code ip m name n args s k,
  byte_at code ip = Some OpCall -> operand_at code ip = Some n -> ip < lenN code -> polls m = None ->
  stk m = VStr name :: rev args ++ s -> lenN args = n ->
  fn_get name fns = None -> ufunc_get name funcs = None ->
  exists m', exec o consts funcs fns obj (S k) code ip m = (OErr EScript, m').
Proof. exact CallProofs.unknown_function_is_error. Qed.

Theorem C06_wrong_arity_is_error :
  forall o consts funcs fns obj code ip m name n args s k uf,
  byte_at code ip = Some OpCall -> operand_at code ip = Some n -> ip < lenN code -> polls m = None ->
  stk m = VStr name :: rev args ++ s -> lenN args = n ->
  fn_get name fns = None -> ufunc_get name funcs = Some uf ->
  List.length (fparams uf) <> List.length args ->
  exists m', exec o consts funcs fns obj (S k) code ip m = (OErr EScript, m').
Proof. exact CallProofs.wrong_arity_is_error. Qed.

(* a built-in wins over a user-defined function of the same name: the call
   instruction runs the built-in whatever the user-function table contains *)
Theorem C06_builtin_wins :
  forall o consts funcs fns obj code ip m name n args s k bn v,
  byte_at code ip = Some OpCall -> operand_at code ip = Some n -> ip < lenN code -> polls m = None ->
  stk m = VStr name :: rev args ++ s -> lenN args = n ->
  fn_get name fns = Some (FBuiltin bn) -> call_builtin o bn args = Some (BVal v) ->
  exec o consts funcs fns obj (S k) code ip m =
  exec o consts funcs fns obj k code (ip + 3) (set_stk m (match v with VVoid => s | _ => v :: s end)).
Proof. exact CallProofs.builtin_wins. Qed.

(* the call frame: a user function runs on a fresh stack in a fresh scope holding its
   parameters; when it returns the caller's stack is back (plus the result) and
   the scope depth is what it was - whether it ends by return or by error *)
Theorem C06_call_frame :
  forall o consts funcs fns obj code ip m name n args s k uf,
  byte_at code ip = Some OpCall -> operand_at code ip = Some n -> ip < lenN code -> polls m = None ->
  stk m = VStr name :: rev args ++ s -> lenN args = n ->
  fn_get name fns = None -> ufunc_get name funcs = Some uf ->
  List.length (fparams uf) = List.length args ->
  (Gen.Tables.max_call_depth = 0 \/ N.of_nat (env_depth (menv m)) < Gen.Tables.max_call_depth) ->
  let callee := exec o consts funcs fns obj k (fcode uf) 0
                  (mkM [] (declare_all (env_push_frame (menv m)) (fparams uf) args) (trace m) (polls m)) in
  match callee with
  | (ODone out, m2) =>
      exec o consts funcs fns obj (S k) code ip m =
      exec o consts funcs fns obj k code (ip + 3)
        (mkM (match out with VVoid => s | _ => out :: s end)
             (env_truncate (menv m2) (env_depth (menv m))) (trace m2) (polls m2))
  | (OErr x, m2) =>
      exec o consts funcs fns obj (S k) code ip m =
      (OErr x, mkM s (env_truncate (menv m2) (env_depth (menv m))) (trace m2) (polls m2))
  end.
Proof. exact CallProofs.call_frame. Qed.

(* the scope of a call hides the callers' locals: a name read in a fresh call frame comes from the globals *)
Theorem C06_frame_hides_callers : forall e n,
  env_get (env_push_frame e) n = assoc_get n (globals e).
Proof. exact EnvProofs.frame_hides_callers. Qed.

(* an assignment in a fresh call frame binds a global and leaves every scope as it was *)
Theorem C06_assignment_in_callee_is_global : forall e n v,
  env_set (env_push_frame e) n v =
  mkEnv (assoc_set n v (globals e)) (scopes (env_push_frame e)).
Proof. exact EnvProofs.assignment_in_callee_is_global. Qed.

(* calls nested too deeply are a run-time error *)
Theorem C06_too_deep_is_error :
  forall o consts funcs fns obj code ip m name n args s k uf,
  byte_at code ip = Some OpCall -> operand_at code ip = Some n -> ip < lenN code -> polls m = None ->
  stk m = VStr name :: rev args ++ s -> lenN args = n ->
  fn_get name fns = None -> ufunc_get name funcs = Some uf ->
  List.length (fparams uf) = List.length args ->
  Gen.Tables.max_call_depth <> 0 -> Gen.Tables.max_call_depth <= N.of_nat (env_depth (menv m)) ->
  exists m', exec o consts funcs fns obj (S k) code ip m = (OErr EScript, m').
Proof. exact CallProofs.too_deep_is_error. Qed.

(* Whole scripts with user-defined functions: running the compiled program - main body, function
   table, calls (recursive ones too), parameters, `local`, returns from inside loops - behaves exactly
   as the reference interpreter of Spec/ExecFun.v, which runs a call in a fresh frame that hides the
   caller's locals, binds the parameters there, and discards the frame when the call ends.
   Side condition: array literals and argument lists have fewer than 65536 entries (longer ones exist
   only with value-less entries; see the refutation below and known finding D19). *)
Theorem C06_program_compile_correct : forall (o : stdlib) (fns : fnmap) (p : program),
  ProgProofs.plain_program p = true -> program_compile_correct o fns p.
Proof. exact ProgProofs.program_compile_correct_partial. Qed.

(* the side condition cannot be dropped *)
Theorem C06_program_compile_correct_needs_short_lists :
  ~ (forall (o : stdlib) (fns : fnmap) (p : program), program_compile_correct o fns p).
Proof. exact ProgProofs.program_compile_correct_all_false. Qed.

(* C17 - Built-in functions keep their documented contracts. *)
From Coq Require Import Floats Permutation Sorted.
From EF Require Import Model.Base Gen.Tables Model.Code Model.Value Model.Builtins Model.VM Spec.Ops
                       Spec.TimeSpec Proofs.TableProofs Proofs.BuiltinProofs.
Open Scope N_scope.

(* min / max return the numerically smaller / larger argument, in agreement
   with the language's own < operator, for all int/float mixes *)
Theorem C17_min_max_numeric : forall o a b,
  is_number a = true -> is_number b = true ->
  call_builtin o (L "min") [a; b] = Some (BVal (if numeric_less b a then b else a)) /\
  call_builtin o (L "max") [a; b] = Some (BVal (if numeric_less a b then b else a)) /\
  vm_binop o BLt a b = Ok (VBool (numeric_less a b)).
Proof. exact BuiltinProofs.min_max_numeric. Qed.

(* between(v, lo, hi) is true exactly when lo <= v <= hi by the language's own <=,
   for all numbers, NaN included ... *)
Theorem C17_between_iff : forall o v lo hi b1 b2,
  is_number v = true -> is_number lo = true -> is_number hi = true ->
  vm_binop o BLe lo v = Ok (VBool b1) -> vm_binop o BLe v hi = Ok (VBool b2) ->
  call_builtin o (L "between") [v; lo; hi] = Some (BVal (VBool (b1 && b2))).
Proof. exact BuiltinProofs.between_iff. Qed.

(* ... so a NaN lies in no interval, and nothing lies in an interval with a NaN bound *)
Theorem C17_between_nan : forall o v lo hi x,
  is_number v = true -> is_number lo = true -> is_number hi = true ->
  In (VFloat x) [v; lo; hi] -> PrimFloat.eqb x x = false ->
  call_builtin o (L "between") [v; lo; hi] = Some (BVal (VBool false)).
Proof. exact BuiltinProofs.between_nan. Qed.

Theorem C17_between_ints : forall o v lo hi,
  call_builtin o (L "between") [VInt v; VInt lo; VInt hi] = Some (BVal (VBool ((lo <=? v)%Z && (v <=? hi)%Z))).
Proof. exact BuiltinProofs.between_ints. Qed.

(* sort and reverse return an ordered permutation of their input *)
Theorem C17_sort_perm : forall o l lower rv l',
  sort_m o l lower rv = BVal (VArray l') -> Permutation l l'.
Proof. exact BuiltinProofs.sort_perm. Qed.

Theorem C17_sort_sorted : forall o l l' keys,
  sort_m o l false false = BVal (VArray l') ->
  opt_map (inspect o) l' = Some keys ->
  StronglySorted (fun a b => str_ltb b a = false) keys.
Proof. exact BuiltinProofs.sort_sorted. Qed.

(* join(split(s, d), d) is s *)
Theorem C17_join_split : forall (s d : str), d <> [] -> join d (split_m s d) = s.
Proof. exact BuiltinProofs.join_split. Qed.

(* no built-in other than panic() ever panics, whatever the arguments *)
Theorem C17_never_panics : forall o name args,
  str_eqb name (L "panic") = false -> call_builtin o name args <> Some BPanic.
Proof. exact BuiltinProofs.never_panics. Qed.

(* every registered built-in has a model *)
Theorem C17_all_builtins_modelled : forall o,
  forallb (fun n => match call_builtin o n [] with Some _ => true | None => false end) builtin_names = true.
Proof. exact BuiltinProofs.all_builtins_modelled. Qed.

(* wrong argument counts yield null (false for match) *)
Theorem C17_wrong_arity : forall o args,
  (List.length args <> 1%nat ->
     call_builtin o (L "len") args = Some (BVal VNull) /\ call_builtin o (L "int") args = Some (BVal VNull) /\
     call_builtin o (L "float") args = Some (BVal VNull) /\ call_builtin o (L "string") args = Some (BVal VNull) /\
     call_builtin o (L "lower") args = Some (BVal VNull) /\ call_builtin o (L "upper") args = Some (BVal VNull) /\
     call_builtin o (L "trim") args = Some (BVal VNull) /\ call_builtin o (L "type") args = Some (BVal VNull) /\
     call_builtin o (L "keys") args = Some (BVal VNull) /\ call_builtin o (L "hour") args = Some (BVal VNull) /\
     call_builtin o (L "weekday") args = Some (BVal VNull)) /\
  (List.length args <> 2%nat ->
     call_builtin o (L "min") args = Some (BVal VNull) /\ call_builtin o (L "max") args = Some (BVal VNull) /\
     call_builtin o (L "join") args = Some (BVal VNull) /\ call_builtin o (L "split") args = Some (BVal VNull) /\
     call_builtin o (L "match") args = Some (BVal (VBool false))) /\
  (List.length args <> 3%nat ->
     call_builtin o (L "between") args = Some (BVal VNull) /\ call_builtin o (L "replace") args = Some (BVal VNull)).
Proof. exact BuiltinProofs.wrong_arity. Qed.

(* civil time in UTC: the decomposition inverts the proleptic Gregorian day count *)
Theorem C17_civil_roundtrip : forall y m d,
  (-1000000 <= y <= 1000000)%Z -> valid_date y m d = true ->
  civil_from_days (days_from_civil y m d) = (y, m, d).
Proof. exact BuiltinProofs.civil_roundtrip. Qed.

Theorem C17_time_of_day : forall t : Z,
  let '(fs, _) := utc_fields t in
  match fs with
  | [h; mi; s; _; _; _] => (0 <= h < 24 /\ 0 <= mi < 60 /\ 0 <= s < 60 /\ (t mod 86400 = h * 3600 + mi * 60 + s))%Z
  | _ => False
  end.
Proof. exact BuiltinProofs.time_of_day. Qed.

(* C08 - Bad scripts and odd objects produce errors, never a crash of the host.
   PARTIAL by nature: Go run-time fatal errors that are not panics (stack or
   memory exhaustion) cannot be exhibited by a model of total functions; the
   bounds that prevent them (parser depth, call depth) are proved, the rest is
   covered by the process-level tie. *)
From Coq Require Import Floats.
From EF Require Import Model.Base Gen.Tables Model.Lexer Model.Ast Model.Parser Model.Code Model.Value Model.Env
                       Model.Reflect Model.Compiler Model.VM Model.Api
                       Proofs.LexerProofs Proofs.ApiProofs Proofs.CallProofs Proofs.ReflectProofs Proofs.CrashProofs.
Open Scope N_scope.

(* no operation of the API ever panics into the caller, whatever the script text,
   the object and the history *)
Theorem C08_no_crash : forall o fuel e x, fst (step o fuel e x) <> RCrashed.
Proof. exact CrashProofs.no_crash. Qed.

(* the machine never produces the "crash" class: every fault inside a run is an error value *)
Theorem C08_faults_are_errors : forall o consts funcs fns obj fuel code ip m out m',
  exec o consts funcs fns obj fuel code ip m = (out, m') -> out <> OErr ECrash.
Proof. exact CrashProofs.faults_are_errors. Qed.

(* ... and the evaluator remains usable afterwards: clean state, same program *)
Theorem C08_usable_after : forall o fuel e x r e',
  scopes (eenv e) = [] -> step o fuel e x = (r, e') ->
  scopes (eenv e') = [] /\
  (forall mc, emachine e = Some mc -> match x with OPrepare _ => True | _ => exists mc', emachine e' = Some mc' /\ mprog mc' = mprog mc end).
Proof. exact CrashProofs.usable_after. Qed.

(* converting a host object never panics (see C04) *)
Theorem C08_conversion_never_panics : forall o fuel depth h, to_object o fuel depth h <> Some CPanic.
Proof. exact ReflectProofs.conversion_never_panics. Qed.

(* ... and it is bounded: a map nested deeper than the machine's nesting limit is not followed, it reads
   as null (a Go map can contain itself) *)
Theorem C08_map_nesting_bounded : forall o fuel depth l kk l',
  max_call_depth <= depth ->
  to_object o (S fuel) depth (HMapIface l) = Some (CVal VNull) /\
  to_object o (S fuel) depth (HMapOther kk l') = Some (CVal VNull).
Proof. exact ReflectProofs.too_deep_is_null. Qed.

(* tokenisation terminates for every input *)
Theorem C08_lexer_terminates : forall s : str, lex s <> None.
Proof. exact LexerProofs.lexer_terminates. Qed.

(* the parser refuses to recurse deeper than its limit: the recursion of the parser - and of everything
   that later walks the tree it built - is bounded by a constant *)
Theorem C08_parser_depth_bounded : forall pf md fuel prec s,
  md <> 0 -> md < depth s + 1 -> parse_expression pf md (S fuel) prec s = PErr.
Proof. exact CrashProofs.parser_depth_bounded. Qed.

Theorem C08_parser_limit_in_force : max_depth <> 0 /\ max_call_depth <> 0.
Proof. exact CrashProofs.limits_in_force. Qed.

(* calls cannot be nested without limit either (see C06_too_deep_is_error) *)
Theorem C08_call_depth_bounded :
  forall o consts funcs fns obj code ip m name n args s k uf,
  byte_at code ip = Some OpCall -> operand_at code ip = Some n -> ip < lenN code -> polls m = None ->
  stk m = VStr name :: rev args ++ s -> lenN args = n ->
  fn_get name fns = None -> ufunc_get name funcs = Some uf ->
  List.length (fparams uf) = List.length args ->
  max_call_depth <> 0 -> max_call_depth <= N.of_nat (env_depth (menv m)) ->
  exists m', exec o consts funcs fns obj (S k) code ip m = (OErr EScript, m').
Proof. exact CallProofs.too_deep_is_error. Qed.

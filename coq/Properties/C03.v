(* C03 - The optimizer never changes what a script does.
   PARTIAL: the window lemmas (every rewrite the optimizer performs is locally
   sound, for all stacks, environments and operands) are proved; their
   composition over a whole program, the NOP-removal simulation and dead-code
   removal are covered by the tie (Go optimized vs Go unoptimized on every
   case, and Go's optimized byte-code against the model optimizer, byte for
   byte).  The one rewrite that is NOT sound is exhibited as a theorem. *)
From Coq Require Import Floats.
From EF Require Import Model.Base Gen.Tables Model.Code Model.Value Model.Env Model.Reflect Model.Compiler
                       Model.Optimizer Model.VM Model.Api Spec.Eval Proofs.OptProofs.
Open Scope N_scope.

Section Windows.
Variable o : stdlib.
Variable consts : list value.
Variable funcs : list (str * ufunc).
Variable fns : fnmap.
Variable obj : hostval.
Notation runs := (runs_to o consts funcs fns obj).

(* constant arithmetic: [Push a; Push b; op] and its folded form [Nop Nop Nop; Push r; Nop] are
   interchangeable in any context, from any state *)
Theorem C03_fold_arith : forall (op : N) (a b r : N) pre post m,
  polls m = None -> a <= 65535 -> b <= 65535 -> r <= 65534 ->
  (op = OpAdd /\ r = a + b \/ op = OpMul /\ r = a * b \/ op = OpSub /\ b <= a /\ r = a - b \/
   op = OpDiv /\ b <> 0 /\ r = a / b) ->
  let w1 := [OpPush; hi_byte a; lo_byte a; OpPush; hi_byte b; lo_byte b; op] in
  let w2 := [OpNop; OpNop; OpNop; OpPush; hi_byte r; lo_byte r; OpNop] in
  runs (pre ++ w1 ++ post) (lenN pre) (lenN pre + 7) m (push m (VInt (Z.of_N r))) /\
  runs (pre ++ w2 ++ post) (lenN pre) (lenN pre + 7) m (push m (VInt (Z.of_N r))).
Proof. exact (OptProofs.fold_arith o consts funcs fns obj). Qed.

(* constant comparison: [Push a; Push b; ==/!=] and [Nop x6; True/False] *)
Theorem C03_fold_cmp : forall (op : N) (a b : N) pre post m,
  polls m = None -> a <= 65535 -> b <= 65535 -> (op = OpEqual \/ op = OpNotEqual) ->
  let res := if op =? OpEqual then a =? b else negb (a =? b) in
  let w1 := [OpPush; hi_byte a; lo_byte a; OpPush; hi_byte b; lo_byte b; op] in
  let w2 := [OpNop; OpNop; OpNop; OpNop; OpNop; OpNop; if res then OpTrue else OpFalse] in
  runs (pre ++ w1 ++ post) (lenN pre) (lenN pre + 7) m (push m (VBool res)) /\
  runs (pre ++ w2 ++ post) (lenN pre) (lenN pre + 7) m (push m (VBool res)).
Proof. exact (OptProofs.fold_cmp o consts funcs fns obj). Qed.

(* a jump that is never taken: [True; JumpIfFalse L] and four no-ops *)
Theorem C03_jump_never_taken : forall (target : N) pre post m,
  polls m = None -> lenN (pre ++ [OpTrue; OpJumpIfFalse; hi_byte target; lo_byte target] ++ post) <= 65535 ->
  let w1 := [OpTrue; OpJumpIfFalse; hi_byte target; lo_byte target] in
  let w2 := [OpNop; OpNop; OpNop; OpNop] in
  runs (pre ++ w1 ++ post) (lenN pre) (lenN pre + 4) m m /\
  runs (pre ++ w2 ++ post) (lenN pre) (lenN pre + 4) m m.
Proof. exact (OptProofs.jump_never_taken o consts funcs fns obj). Qed.

(* a jump that is always taken: [False; JumpIfFalse L; body] and no-ops all the way to L *)
Theorem C03_jump_always_taken : forall (body : list N) pre post m,
  polls m = None ->
  let target := lenN pre + 4 + lenN body in
  target <= 65535 -> post <> [] ->
  let w1 := [OpFalse; OpJumpIfFalse; hi_byte target; lo_byte target] ++ body in
  let w2 := repeat OpNop (4 + List.length body) in
  runs (pre ++ w1 ++ post) (lenN pre) target m m /\
  runs (pre ++ w2 ++ post) (lenN pre) target m m.
Proof. exact (OptProofs.jump_always_taken o consts funcs fns obj). Qed.
End Windows.

(* the optimizer's passes reach their fixed points: optimize_body is total on every body (no fuel exhaustion) *)
Theorem C03_maths_pass_shrinks_work : forall code c', maths_pass code = Changed c' -> List.length c' = List.length code.
Proof. exact OptProofs.maths_pass_length. Qed.

(* KNOWN FINDING D5, as a theorem: the square-root fold is NOT sound - the same program returns a
   FLOAT unoptimized and an INTEGER optimized *)
Theorem C03_sqrt_fold_refuted :
  exists (code : list N) (o : stdlib) (v1 v2 : value) m1 m2,
    optimize_body code <> Some code /\
    exec o [] [] [] HNil 10 code 0 (mkM [] (mkEnv [] []) [] None) = (ODone v1, m1) /\
    (forall c', optimize_body code = Some c' -> exec o [] [] [] HNil 10 c' 0 (mkM [] (mkEnv [] []) [] None) = (ODone v2, m2)) /\
    type_of v1 = TyFloat /\ type_of v2 = TyInt.
Proof. exact OptProofs.sqrt_fold_refuted. Qed.

(* KNOWN FINDING D23, as a theorem: the OPTIMIZE switch is a script-visible variable *)
Theorem C03_optimize_flag_visible : forall o e u p e',
  prepare o e true = (PrepOk u p, e') -> env_get (eenv e') optimize_var = Some (VBool true).
Proof. exact OptProofs.optimize_flag_visible. Qed.

(* C03 - The optimizer never changes what a script does.
   The optimizer rewrites raw bytes and never checks that no jump lands inside
   a window it rewrites, so it is correct only on code where that does not
   happen.  Model/OptSafe.v is the SAME optimizer with a validator run after
   every single rewrite step (constant fold, constant jump, NOP removal with
   re-targeting, dead-code removal); it returns exactly what the unchecked
   optimizer returns, or nothing.  The theorems below show that whenever the
   validated optimizer answers, the optimized program - main body and every
   function body, calls between them included - behaves exactly like the
   unoptimized one from every machine state, for every object, in both
   directions: same value or error, same variables, same host-call trace, same
   stack.  The check runs the extracted validated optimizer on the real
   unoptimized program of every script it generates and demands an answer
   equal, byte for byte, to the program Go's optimizer produced.  The one
   rewrite that is NOT sound (the square-root fold) is refused by the validator
   and exhibited as a theorem. *)
From Coq Require Import Floats.
From EF Require Import Model.Base Gen.Tables Model.Code Model.Value Model.Env Model.Reflect Model.Compiler
                       Model.Optimizer Model.OptSafe Model.VM Model.Api Spec.Eval Proofs.OptProofs Proofs.OptSafeProofs.
Open Scope N_scope.

Section Windows.
Variable o : stdlib.
Variable consts : list value.
Variable funcs : list (str * ufunc).
Variable fns : fnmap.
Variable obj : hostval.
Notation runs := (runs_to o consts funcs fns obj).

(* constant arithmetic: [Push a; Push b; op] and its folded form [Nop Nop Nop; Push r; Nop] are
   interchangeable in any context, from any state *)
Theorem C03_fold_arith : forall (op : N) (a b r : N) pre post m,
  polls m = None -> a <= 65535 -> b <= 65535 -> r <= 65534 ->
  (op = OpAdd /\ r = a + b \/ op = OpMul /\ r = a * b \/ op = OpSub /\ b <= a /\ r = a - b \/
   op = OpDiv /\ b <> 0 /\ r = a / b) ->
  let w1 := [OpPush; hi_byte a; lo_byte a; OpPush; hi_byte b; lo_byte b; op] in
  let w2 := [OpNop; OpNop; OpNop; OpPush; hi_byte r; lo_byte r; OpNop] in
  runs (pre ++ w1 ++ post) (lenN pre) (lenN pre + 7) m (push m (VInt (Z.of_N r))) /\
  runs (pre ++ w2 ++ post) (lenN pre) (lenN pre + 7) m (push m (VInt (Z.of_N r))).
Proof. exact (OptProofs.fold_arith o consts funcs fns obj). Qed.

(* constant comparison: [Push a; Push b; ==/!=] and [Nop x6; True/False] *)
Theorem C03_fold_cmp : forall (op : N) (a b : N) pre post m,
  polls m = None -> a <= 65535 -> b <= 65535 -> (op = OpEqual \/ op = OpNotEqual) ->
  let res := if op =? OpEqual then a =? b else negb (a =? b) in
  let w1 := [OpPush; hi_byte a; lo_byte a; OpPush; hi_byte b; lo_byte b; op] in
  let w2 := [OpNop; OpNop; OpNop; OpNop; OpNop; OpNop; if res then OpTrue else OpFalse] in
  runs (pre ++ w1 ++ post) (lenN pre) (lenN pre + 7) m (push m (VBool res)) /\
  runs (pre ++ w2 ++ post) (lenN pre) (lenN pre + 7) m (push m (VBool res)).
Proof. exact (OptProofs.fold_cmp o consts funcs fns obj). Qed.

(* a jump that is never taken: [True; JumpIfFalse L] and four no-ops *)
Theorem C03_jump_never_taken : forall (target : N) pre post m,
  polls m = None -> lenN (pre ++ [OpTrue; OpJumpIfFalse; hi_byte target; lo_byte target] ++ post) <= 65535 ->
  let w1 := [OpTrue; OpJumpIfFalse; hi_byte target; lo_byte target] in
  let w2 := [OpNop; OpNop; OpNop; OpNop] in
  runs (pre ++ w1 ++ post) (lenN pre) (lenN pre + 4) m m /\
  runs (pre ++ w2 ++ post) (lenN pre) (lenN pre + 4) m m.
Proof. exact (OptProofs.jump_never_taken o consts funcs fns obj). Qed.

(* a jump that is always taken: [False; JumpIfFalse L; body] and no-ops all the way to L *)
Theorem C03_jump_always_taken : forall (body : list N) pre post m,
  polls m = None ->
  let target := lenN pre + 4 + lenN body in
  target <= 65535 -> post <> [] ->
  let w1 := [OpFalse; OpJumpIfFalse; hi_byte target; lo_byte target] ++ body in
  let w2 := repeat OpNop (4 + List.length body) in
  runs (pre ++ w1 ++ post) (lenN pre) target m m /\
  runs (pre ++ w2 ++ post) (lenN pre) target m m.
Proof. exact (OptProofs.jump_always_taken o consts funcs fns obj). Qed.
End Windows.

(* the optimizer's passes reach their fixed points: optimize_body is total on every body (no fuel exhaustion) *)
Theorem C03_maths_pass_shrinks_work : forall code c', maths_pass code = Changed c' -> List.length c' = List.length code.
Proof. exact OptProofs.maths_pass_length. Qed.

(* KNOWN FINDING D5, as a theorem: the square-root fold is NOT sound - the same program returns a
   FLOAT unoptimized and an INTEGER optimized *)
Theorem C03_sqrt_fold_refuted :
  exists (code : list N) (o : stdlib) (v1 v2 : value) m1 m2,
    optimize_body code <> Some code /\
    exec o [] [] [] HNil 10 code 0 (mkM [] (mkEnv [] []) [] None) = (ODone v1, m1) /\
    (forall c', optimize_body code = Some c' -> exec o [] [] [] HNil 10 c' 0 (mkM [] (mkEnv [] []) [] None) = (ODone v2, m2)) /\
    type_of v1 = TyFloat /\ type_of v2 = TyInt.
Proof. exact OptProofs.sqrt_fold_refuted. Qed.

(* KNOWN FINDING D23, as a theorem: the OPTIMIZE switch is a script-visible variable *)
Theorem C03_optimize_flag_visible : forall o e u p e',
  prepare o e true = (PrepOk u p, e') -> env_get (eenv e') optimize_var = Some (VBool true).
Proof. exact OptProofs.optimize_flag_visible. Qed.

(* ------------------------------------------------------------------ *)
(* whole programs *)

(* the validated optimizer computes what the optimizer computes *)
Theorem C03_validated_is_the_optimizer : forall p p',
  optimize_program_safe p = Some p' -> optimize_program p = Some p'.
Proof. exact OptSafeProofs.safe_agrees_program. Qed.

(* every behaviour of the unoptimized program is a behaviour of the optimized one ... *)
Theorem C03_optimized_simulates : forall o fns obj p p',
  optimize_program_safe p = Some p' ->
  forall m, polls m = None ->
  forall fuel out m',
    run_main o (pconsts p) (pfuncs p) fns obj fuel (pmain p) m = (out, m') ->
    out <> OErr EFuel ->
    exists fuel', run_main o (pconsts p') (pfuncs p') fns obj fuel' (pmain p') m = (out, m').
Proof. exact OptSafeProofs.optimize_program_safe_correct. Qed.

(* ... and conversely *)
Theorem C03_unoptimized_simulates : forall o fns obj p p',
  optimize_program_safe p = Some p' ->
  forall m, polls m = None ->
  forall fuel out m',
    run_main o (pconsts p') (pfuncs p') fns obj fuel (pmain p') m = (out, m') ->
    out <> OErr EFuel ->
    exists fuel', run_main o (pconsts p) (pfuncs p) fns obj fuel' (pmain p) m = (out, m').
Proof. exact OptSafeProofs.optimize_program_safe_complete. Qed.

(* non-vacuity: the validator accepts the compiler's output for programs with if/else, while, foreach,
   switch, conditional expressions inside arithmetic, constant conditions, residues and functions, and
   the optimizer did rewrite them *)
Theorem C03_validator_accepts_compiled : forallb OptSafeProofs.CompiledExamples.accepted OptSafeProofs.CompiledExamples.progs = true.
Proof. exact OptSafeProofs.CompiledExamples.compiled_accepted. Qed.

(* the validator is needed: on code with a jump into a constant window the unchecked optimizer is wrong *)
Theorem C03_unchecked_optimizer_needs_guarded_joins :
  optimize_body_safe [OpLookup; 0; 0; OpJumpIfFalse; 0; 12; OpPush; 0; 2; OpJump; 0; 15;
                      OpPush; 0; 3; OpPush; 0; 1; OpAdd; OpReturn] = None /\
  optimize_body [OpLookup; 0; 0; OpJumpIfFalse; 0; 12; OpPush; 0; 2; OpJump; 0; 15;
                 OpPush; 0; 3; OpPush; 0; 1; OpAdd; OpReturn]
  = Some [OpLookup; 0; 0; OpJumpIfFalse; 0; 12; OpPush; 0; 2; OpJump; 0; 12; OpPush; 0; 4; OpReturn].
Proof. exact (conj OptSafeProofs.safe_join_refused OptSafeProofs.unsafe_join_folded). Qed.

(* the square-root fold is refused *)
Theorem C03_sqrt_fold_refused : optimize_body_safe [OpPush; 0; 9; OpSquareRoot; OpReturn] = None.
Proof. exact OptSafeProofs.safe_sqrt_refused. Qed.

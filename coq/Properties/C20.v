(* C20 - The embedding API and the command-line driver are faithful front ends. *)
From Coq Require Import Floats.
From EF Require Import Model.Base Model.Code Model.Value Model.Env Model.Reflect Model.Builtins Model.Compiler
                       Model.Optimizer Model.VM Model.Api Proofs.TruthProofs Proofs.ApiProofs Proofs.CallProofs.
From EF Require Import Gen.Tables Model.Ast Model.Parser Model.OptSafe Spec.ExecFun.
From EF Require Proofs.ProgProofs Proofs.EndToEndProofs.
Open Scope N_scope.

(* Run = truth value of Execute, fails exactly when it does, leaves the same state *)
Theorem C20_run_is_truth_of_execute : forall o fuel e obj,
  match step o fuel e (OExec obj), step o fuel e (ORun obj) with
  | (RExec c v tr vars ns rs, e1), (RRun c' b tr' vars' ns' rs', e2) =>
      c = c' /\ b = (match c with ROk => truthy v | _ => false end) /\
      tr = tr' /\ vars = vars' /\ ns = ns' /\ rs = rs' /\ e1 = e2
  | (RNeed, e1), (RNeed, e2) => e1 = e2
  | (RFuel, e1), (RFuel, e2) => e1 = e2
  | _, _ => False
  end.
Proof. exact TruthProofs.run_verdict. Qed.

(* SetVariable / GetVariable *)
Theorem C20_set_then_get : forall o fuel e name v e1,
  scopes (eenv e) = [] ->
  step o fuel e (OSetVar name v) = (RUnit, e1) ->
  fst (step o fuel e1 (OGetVar name)) = RGet v.
Proof. exact ApiProofs.set_then_get. Qed.

Theorem C20_get_unset_is_null : forall o fuel script name,
  fst (step o fuel (new_eval script) (OGetVar name)) = RGet VNull.
Proof. exact ApiProofs.get_unset_is_null. Qed.

(* a variable given with SetVariable is what the script reads *)
Theorem C20_script_reads_variable : forall o obj e name v,
  scopes e = [] ->
  lookup o obj (env_set e (trim_dollar name) v) name = Ok v.
Proof. exact ApiProofs.script_reads_variable. Qed.

Theorem C20_script_reads_set_variable : forall o fuel obj e name v e1,
  step o fuel e (OSetVar name v) = (RUnit, e1) ->
  lookup o obj (eenv e1) name = Ok v.
Proof. exact ApiProofs.script_reads_set_variable. Qed.

(* a host function is called exactly once per call instruction, with the script's
   arguments in order; its result - or nothing, for void - is the call's value *)
Theorem C20_host_call_protocol :
  forall o consts funcs fns obj code ip m name n args s k hk v,
  byte_at code ip = Some OpCall -> operand_at code ip = Some n -> ip < lenN code -> polls m = None ->
  stk m = VStr name :: rev args ++ s -> lenN args = n ->
  fn_get name fns = Some (FHost hk) -> host_call hk args = Ok v ->
  exec o consts funcs fns obj (S k) code ip m =
  exec o consts funcs fns obj k code (ip + 3)
       (mkM (match v with VVoid => s | _ => v :: s end) (menv m) (mkCall name args :: trace m) (polls m)).
Proof. exact CallProofs.host_call_protocol. Qed.

(* NoOptimize disables optimisation: whatever the variables hold (an OPTIMIZE switch
   left by an earlier Prepare included), the machine runs exactly what the compiler
   produced.  No scope is open between operations (C07_clean_after_any_history). *)
Theorem C20_nooptimize_only : forall o e u p e',
  prepare o e false = (PrepOk u p, e') -> scopes (eenv e) = [] -> p = u.
Proof. exact ApiProofs.nooptimize_only. Qed.

(* ... in particular after an optimizing Prepare *)
Theorem C20_nooptimize_after_optimize : forall o e u1 p1 e1 u2 p2 e2,
  scopes (eenv e) = [] ->
  prepare o e true = (PrepOk u1 p1, e1) -> prepare o e1 false = (PrepOk u2 p2, e2) ->
  p2 = u2.
Proof. exact ApiProofs.nooptimize_after_optimize. Qed.

(* ... and nothing else: the only variable it touches is the OPTIMIZE switch, which it removes *)
Theorem C20_nooptimize_variables : forall o e u p e',
  prepare o e false = (PrepOk u p, e') -> eenv e' = env_unset (eenv e) optimize_var.
Proof. exact ApiProofs.nooptimize_variables. Qed.

Theorem C20_nooptimize_keeps_variables : forall o e u p e',
  env_get (eenv e) optimize_var = None ->
  prepare o e false = (PrepOk u p, e') -> p = u /\ eenv e' = eenv e.
Proof. exact ApiProofs.nooptimize_keeps_variables. Qed.

(* ... and with optimisation the machine runs the optimizer's output on the same compiled program *)
Theorem C20_optimize_only : forall o e u p e',
  prepare o e true = (PrepOk u p, e') -> optimize_program u = Some p.
Proof. exact ApiProofs.optimize_only. Qed.

(* Prepare is repeatable: preparing again yields the same program *)
Theorem C20_prepare_idempotent : forall o e flag u p e1 u' p' e2,
  prepare o e flag = (PrepOk u p, e1) -> prepare o e1 flag = (PrepOk u' p', e2) ->
  u' = u /\ p' = p.
Proof. exact ApiProofs.prepare_idempotent. Qed.

(* ------------------------------------------------------------------ *)
(* END TO END.  What Execute returns after Prepare is what the reference interpreter of Spec/ExecFun.v
   computes on the parsed script: lexer, parser, compiler, (validated) optimizer and virtual machine
   composed.  For every script text, every host object, every set of host functions and variables:
   the value (or the error class), the host-call trace and the variables left behind agree, no scope
   stays open, and the evaluator that later operations see holds exactly those variables - so the
   statement composes over histories of runs.  Hypotheses: no deadline is set; array literals and
   argument lists are shorter than 65536; the program is not optimized, or the validated optimizer
   answered (the check runs it on every program). *)
Theorem C20_end_to_end : forall (o : stdlib) e optimize u p e1 ast,
  ectx e = None ->
  prepare o e optimize = (PrepOk u p, e1) ->
  parse_script (parse_float o) max_depth (escript e) = ParseOk ast ->
  ProgProofs.plain_program ast = true ->
  (p = u \/ optimize_program_safe u = Some p) ->
  forall obj sfuel,
    let fuelc := (4 * List.length (escript e) + 40)%nat in
    let m0 := mkM [] (env_truncate (eenv e1) 0) [] None in
    match sblock o (efns e1) obj (collect_block fuelc ast []) sfuel ast m0 with
    | XNormal m' => exists n, forall k,
        execute o (n + k) e1 obj =
          (RExec (EndToEndProofs.fall_class u) VNull (rev (trace m')) (globals (menv m')) 0 (List.length (stk m')),
           EndToEndProofs.with_vars e1 (globals (menv m')))
    | XReturn v m' => exists n, forall k,
        execute o (n + k) e1 obj =
          (RExec ROk v (rev (trace m')) (globals (menv m')) 0 (List.length (stk m')),
           EndToEndProofs.with_vars e1 (globals (menv m')))
    | XErr ENeedOracle _ | XErr EFuel _ => True
    | XErr x _ => exists c, class_of x = Some c /\
        exists tr vars rs n, forall k,
          execute o (n + k) e1 obj = (RExec c VNull tr vars 0 rs, EndToEndProofs.with_vars e1 vars)
    end.
Proof. exact EndToEndProofs.end_to_end. Qed.

(* a script that only defines functions compiles to an empty main: Execute reports the script error *)
Theorem C20_empty_main : forall (o : stdlib) e optimize u p e1,
  prepare o e optimize = (PrepOk u p, e1) ->
  (p = u \/ optimize_program_safe u = Some p) -> pmain u = [] ->
  forall fuel obj, execute o fuel e1 obj =
    (RExec RScriptError VNull [] (globals (eenv e1)) 0 0, EndToEndProofs.with_vars e1 (globals (eenv e1))).
Proof. exact EndToEndProofs.end_to_end_empty_main. Qed.

(* non-vacuity: `function f(a) { return a + 2 * 5; } x = f(1 + 1); return x;` prepared with the optimizer
   (which rewrites both bodies, validated) returns 12 - obtained from the theorem, not by running byte-code *)
Theorem C20_end_to_end_example : exists n, forall k,
  execute EndToEndProofs.Demo.o (n + k) EndToEndProofs.Demo.e1 HNil =
    (RExec ROk (VInt 12) [] EndToEndProofs.Demo.vars 0 0, EndToEndProofs.with_vars EndToEndProofs.Demo.e1 EndToEndProofs.Demo.vars).
Proof. exact EndToEndProofs.Demo.execute_result. Qed.

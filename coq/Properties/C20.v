(* C20 - The embedding API and the command-line driver are faithful front ends. *)
From Coq Require Import Floats.
From EF Require Import Model.Base Model.Code Model.Value Model.Env Model.Reflect Model.Builtins Model.Compiler
                       Model.Optimizer Model.VM Model.Api Proofs.TruthProofs Proofs.ApiProofs Proofs.CallProofs.
Open Scope N_scope.

(* Run = truth value of Execute, fails exactly when it does, leaves the same state *)
Theorem C20_run_is_truth_of_execute : forall o fuel e obj,
  match step o fuel e (OExec obj), step o fuel e (ORun obj) with
  | (RExec c v tr vars ns rs, e1), (RRun c' b tr' vars' ns' rs', e2) =>
      c = c' /\ b = (match c with ROk => truthy v | _ => false end) /\
      tr = tr' /\ vars = vars' /\ ns = ns' /\ rs = rs' /\ e1 = e2
  | (RNeed, e1), (RNeed, e2) => e1 = e2
  | (RFuel, e1), (RFuel, e2) => e1 = e2
  | _, _ => False
  end.
Proof. exact TruthProofs.run_verdict. Qed.

(* SetVariable / GetVariable *)
Theorem C20_set_then_get : forall o fuel e name v e1,
  scopes (eenv e) = [] ->
  step o fuel e (OSetVar name v) = (RUnit, e1) ->
  fst (step o fuel e1 (OGetVar name)) = RGet v.
Proof. exact ApiProofs.set_then_get. Qed.

Theorem C20_get_unset_is_null : forall o fuel script name,
  fst (step o fuel (new_eval script) (OGetVar name)) = RGet VNull.
Proof. exact ApiProofs.get_unset_is_null. Qed.

(* a variable given with SetVariable is what the script reads *)
Theorem C20_script_reads_variable : forall o obj e name v,
  scopes e = [] -> str_eqb name (trim_dollar name) = true ->
  lookup o obj (env_set e name v) name = Ok v.
Proof. exact ApiProofs.script_reads_variable. Qed.

(* a host function is called exactly once per call instruction, with the script's
   arguments in order; its result - or nothing, for void - is the call's value *)
Theorem C20_host_call_protocol :
  forall o consts funcs fns obj code ip m name n args s k hk v,
  byte_at code ip = Some OpCall -> operand_at code ip = Some n -> ip < lenN code -> polls m = None ->
  stk m = VStr name :: rev args ++ s -> lenN args = n ->
  fn_get name fns = Some (FHost hk) -> host_call hk args = Ok v ->
  exec o consts funcs fns obj (S k) code ip m =
  exec o consts funcs fns obj k code (ip + 3)
       (mkM (match v with VVoid => s | _ => v :: s end) (menv m) (mkCall name args :: trace m) (polls m)).
Proof. exact CallProofs.host_call_protocol. Qed.

(* NoOptimize disables optimisation and nothing else: without the OPTIMIZE
   variable the machine runs exactly what the compiler produced *)
Theorem C20_nooptimize_only : forall o e u p e',
  env_get (eenv e) optimize_var = None ->
  prepare o e false = (PrepOk u p, e') -> p = u /\ eenv e' = eenv e.
Proof. exact ApiProofs.nooptimize_only. Qed.

(* ... and with optimisation the machine runs the optimizer's output on the same compiled program *)
Theorem C20_optimize_only : forall o e u p e',
  prepare o e true = (PrepOk u p, e') -> optimize_program u = Some p.
Proof. exact ApiProofs.optimize_only. Qed.

(* Prepare is repeatable: preparing again yields the same program *)
Theorem C20_prepare_idempotent : forall o e flag u p e1 u' p' e2,
  prepare o e flag = (PrepOk u p, e1) -> prepare o e1 flag = (PrepOk u' p', e2) ->
  u' = u /\ p' = p.
Proof. exact ApiProofs.prepare_idempotent. Qed.

(* C18 - Every accepted script compiles to well-formed machine code.
   The verifier below is extracted and run on the REAL program of every accepted
   script (main body and every function body, before and after optimisation). *)
From Coq Require Import Floats.
From EF Require Import Model.Base Gen.Tables Model.Lexer Model.Ast Model.Parser Model.Code Model.Value Model.Env
                       Model.Reflect Model.Compiler Model.Optimizer Model.VM Model.Verifier Spec.Moded Proofs.VerifierProofs Proofs.StructProofs Proofs.ModedProofs Proofs.OptModedProofs.
From EF Require Import Model.OptSafe Model.Api.
From EF Require Proofs.PreparedProofs.
Open Scope N_scope.

(* what acceptance by the verifier means, instruction by instruction *)
Theorem C18_verified_structure : forall consts isf code is,
  verify_body consts isf code = VOk -> decode (S (List.length code)) code 0 [] = (VOk, is) ->
  Forall (fun i =>
     memN (iop i) known_ops = true /\
     ((iop i = OpJump \/ iop i = OpJumpIfFalse) -> is_start is (iarg i) = true /\ iarg i < lenN code) /\
     (iop i = OpConstant -> iarg i < lenN consts) /\
     ((iop i = OpLookup \/ iop i = OpInc \/ iop i = OpDec) -> exists s, nthN consts (iarg i) = Some (VStr s))) is.
Proof. exact VerifierProofs.verified_structure. Qed.

(* an accepted body decodes completely: known opcodes with complete operands *)
Theorem C18_verified_decodes : forall consts isf code,
  verify_body consts isf code = VOk -> exists is, decode (S (List.length code)) code 0 [] = (VOk, is).
Proof. exact VerifierProofs.verified_decodes. Qed.

(* a function body cannot fall off its end *)
Theorem C18_function_bodies_end : forall consts code is,
  verify_body consts true code = VOk -> decode (S (List.length code)) code 0 [] = (VOk, is) ->
  exists i, last_instr is = Some i /\ (iop i = OpReturn \/ iop i = OpJump).
Proof. exact VerifierProofs.function_bodies_end. Qed.

(* Soundness: a verified body without call instructions never ends in one of the machine's internal
   errors (stack underflow, bad constant, instruction pointer out of bounds, unknown opcode) - on ANY
   path, for ANY object, variables and fuel. *)
Definition call_free (code : list N) : Prop :=
  forall is, decode (S (List.length code)) code 0 [] = (VOk, is) -> Forall (fun i => iop i <> OpCall) is.
Theorem C18_verifier_sound_callfree : forall o consts funcs fns obj isf code,
  verify_body consts isf code = VOk -> call_free code ->
  forall fuel m out m', stk m = [] ->
  exec o consts funcs fns obj fuel code 0 m = (out, m') -> out <> OErr EInternal.
Proof. exact VerifierProofs.verifier_sound_callfree. Qed.

(* known finding D19, as a theorem: there IS an accepted script whose code the verifier rejects *)
Theorem C18_valueless_refuted :
  exists (ts : list token) (p : program_code),
    parse_tokens (fun _ => None) 0 ts = ParseOk (VerifierProofs.valueless_ast) /\
    well_moded VerifierProofs.valueless_ast = false /\
    compile_program 100 VerifierProofs.valueless_ast = CompOk p /\
    verify_program p <> VOk.
Proof. exact VerifierProofs.valueless_refuted. Qed.

(* the verifier accepts the code of a representative well-moded program, compiled and optimised (non-vacuity) *)
Theorem C18_example_accepts : VerifierProofs.example_verifies = true.
Proof. exact VerifierProofs.example_verifies_true. Qed.

(* Every program the compiler accepts - ANY script, any nesting - is structurally sound, main body and
   every function body: it decodes completely into known instructions with complete operands, every
   jump lands on the start of an instruction strictly inside the same body, every constant reference
   names an existing constant, every name operand is a string constant, and every function body's
   last instruction is a return.  (No execution involved; the stack discipline is the verifier's part.) *)
Theorem C18_compile_structure : forall fuel (ast : program) p,
  compile_program fuel ast = CompOk p ->
  StructProofs.body_ok (pconsts p) (pmain p) /\
  Forall (fun nf => StructProofs.body_ok (pconsts p) (fcode (snd nf)) /\ StructProofs.ends_in_return (fcode (snd nf))) (pfuncs p).
Proof. exact StructProofs.compile_structure. Qed.

(* THE STACK DISCIPLINE, FOR ALL SCRIPTS.  Every well-moded script (value-less constructs only in statement
   position - the class outside of which Prepare is known to accept underflowing code, finding D19) that the
   compiler accepts has, for its main body and every function body, an annotation that the verifier's check
   accepts (`has_ann`: at every instruction a lower bound on the stack depth and, for every foreach loop open
   there, on the stack height the loop remembered - the height the stack is cut back to before each
   iteration; (0, []) at the entry): on every control-flow path no instruction consumes more operands than
   were produced, given that calls return a value. *)
Theorem C18_compiled_has_annotation : forall fuel (ast : program) p,
  well_moded ast = true -> compile_program fuel ast = CompOk p ->
  ModedProofs.has_ann (pconsts p) (pmain p) /\
  Forall (fun nf => ModedProofs.has_ann (pconsts p) (fcode (snd nf))) (pfuncs p).
Proof. exact ModedProofs.compiled_has_annotation. Qed.

(* ... hence a run of ANY body of such a program, calls into other bodies included, never ends in one of the
   machine's internal errors - unless a call returned no value (`calls_push`: every call executed in the run,
   transitively, pushed a value): "for reasons other than the script's own use of value-less calls". *)
Theorem C18_compiled_never_underflows : forall fuelc (ast : program) p,
  well_moded ast = true -> compile_program fuelc ast = CompOk p ->
  forall code, ModedProofs.body_of p code ->
  forall o fns obj fuel m out m', stk m = [] ->
  exec o (pconsts p) (pfuncs p) fns obj fuel code 0 m = (out, m') ->
  ModedProofs.calls_push o (pconsts p) (pfuncs p) fns obj fuel code 0 m -> out <> OErr EInternal.
Proof. exact ModedProofs.compiled_never_underflows. Qed.

(* the same for ANY program the verifier accepts (the check runs it on the implementation's programs, before and
   after optimisation) *)
Theorem C18_verifier_sound_calls : forall p, verify_program p = VOk ->
  forall code, ModedProofs.body_of p code ->
  forall o fns obj fuel m out m', stk m = [] ->
  exec o (pconsts p) (pfuncs p) fns obj fuel code 0 m = (out, m') ->
  ModedProofs.calls_push o (pconsts p) (pfuncs p) fns obj fuel code 0 m -> out <> OErr EInternal.
Proof. exact ModedProofs.verifier_sound_calls_program. Qed.

(* the side condition is necessary and not vacuous: `x = f();` is well-moded, compiles and verifies; with a host
   function that returns nothing the run underflows (and calls_push is false), with one that returns 1 it holds *)
Theorem C18_void_call_underflows :
  exists p, well_moded ModedProofs.void_call_ast = true /\ compile_program 20 ModedProofs.void_call_ast = CompOk p /\
    verify_program p = VOk /\
    let m0 := mkM [] (mkEnv [] []) [] None in
    (exists m', exec ModedProofs.quiet_stdlib (pconsts p) (pfuncs p) [(L "f", FHost HKVoid)] HNil 20 (pmain p) 0 m0
                = (OErr EInternal, m')) /\
    ~ ModedProofs.calls_push ModedProofs.quiet_stdlib (pconsts p) (pfuncs p) [(L "f", FHost HKVoid)] HNil 20 (pmain p) 0 m0 /\
    ModedProofs.calls_push ModedProofs.quiet_stdlib (pconsts p) (pfuncs p) [(L "f", FHost (HKConst (VInt 1)))] HNil 20 (pmain p) 0 m0.
Proof. exact ModedProofs.void_call_underflows. Qed.

(* AFTER OPTIMISATION.  Composing the stack discipline of compiled code with the validated optimizer's
   simulation (C03): the optimized program of a well-moded script never ends in a machine-internal error
   either, as long as the calls of the (unoptimized) script return values. *)
Theorem C18_optimized_never_underflows : forall fuelc (ast : program) p p',
  well_moded ast = true -> compile_program fuelc ast = CompOk p ->
  optimize_program_safe p = Some p' ->
  forall o fns obj m, polls m = None ->
  (forall fuel', ModedProofs.calls_push o (pconsts p) (pfuncs p) fns obj fuel' (pmain p) 0
                            (mkM [] (env_truncate (menv m) 0) (trace m) (polls m))) ->
  forall fuel out m',
  run_main o (pconsts p') (pfuncs p') fns obj fuel (pmain p') m = (out, m') ->
  out <> OErr EInternal.
Proof. exact OptModedProofs.optimized_run_never_underflows. Qed.

(* SINCE THE REPAIR OF D19 Prepare itself refuses scripts that are not well-moded, so the class is no longer
   a hypothesis: WHENEVER PREPARE ACCEPTS A SCRIPT - any evaluator, any flag - the compiled program is well
   formed: main body and every function body structurally sound, functions end in a return, and every body
   has a stack-depth annotation that the verifier's check accepts. *)
Theorem C18_prepared_is_well_formed : forall o e flag u p e',
  prepare o e flag = (PrepOk u p, e') ->
  (StructProofs.body_ok (pconsts u) (pmain u) /\
   Forall (fun nf => StructProofs.body_ok (pconsts u) (fcode (snd nf)) /\
                     StructProofs.ends_in_return (fcode (snd nf))) (pfuncs u)) /\
  (ModedProofs.has_ann (pconsts u) (pmain u) /\
   Forall (fun nf => ModedProofs.has_ann (pconsts u) (fcode (snd nf))) (pfuncs u)).
Proof. exact PreparedProofs.prepared_is_well_formed. Qed.

(* ... hence no run of ANY body of a prepared program, calls into other bodies included, ends in one of the
   machine's internal errors - unless a call returned no value *)
Theorem C18_prepared_never_underflows : forall o e flag u p e',
  prepare o e flag = (PrepOk u p, e') ->
  forall code, ModedProofs.body_of u code ->
  forall fns obj fuel m out m', stk m = [] ->
  exec o (pconsts u) (pfuncs u) fns obj fuel code 0 m = (out, m') ->
  ModedProofs.calls_push o (pconsts u) (pfuncs u) fns obj fuel code 0 m -> out <> OErr EInternal.
Proof. exact PreparedProofs.prepared_never_underflows. Qed.

(* ... and neither does the OPTIMIZED program, whenever the validated optimizer answers (the check compares
   its answer with the implementation's optimized program on every case) *)
Theorem C18_prepared_optimized_never_underflows : forall o e flag u p e' p',
  prepare o e flag = (PrepOk u p, e') ->
  optimize_program_safe u = Some p' ->
  forall fns obj m, polls m = None ->
  (forall fuel', ModedProofs.calls_push o (pconsts u) (pfuncs u) fns obj fuel' (pmain u) 0
                            (mkM [] (env_truncate (menv m) 0) (trace m) (polls m))) ->
  forall fuel out m',
  run_main o (pconsts p') (pfuncs p') fns obj fuel (pmain p') m = (out, m') ->
  out <> OErr EInternal.
Proof. exact PreparedProofs.prepared_optimized_never_underflows. Qed.

(* the script TEXT of finding D19, `a = b = 3;`: it parses (to the tree of C18_valueless_refuted) and the
   compiler accepts it, but the assignment `b = 3` stands where a value is needed - Prepare rejects it, with
   or without optimisation, and leaves the evaluator as it was *)
Theorem C18_valueless_rejected_by_prepare :
  let o := VerifierProofs.stub_stdlib in
  let text := L "a = b = 3;" in
  exists pc,
    parse_script (parse_float o) max_depth text = ParseOk VerifierProofs.valueless_ast /\
    compile_program (4 * List.length text + 40) VerifierProofs.valueless_ast = CompOk pc /\
    well_moded VerifierProofs.valueless_ast = false /\
    forall flag, prepare o (new_eval text) flag = (PrepReject, new_eval text).
Proof. exact VerifierProofs.valueless_rejected_by_prepare. Qed.

(* C13 - A script that cannot be fully translated is rejected by Prepare. *)
From Coq Require Import Floats.
From EF Require Import Model.Base Gen.Tables Model.Lexer Model.Ast Model.Parser Model.Code Model.Value
                       Model.Compiler Model.Api Proofs.ParserProofs.
From EF Require Import Gen.Tables Spec.Grammar Spec.Printer Spec.Unlex Proofs.PrinterProofs Proofs.TextProofs.
Open Scope N_scope.

(* Prepare succeeds only if the parser AND the compiler succeed: any recorded error rejects *)
Theorem C13_prepare_needs_parse : forall o e flag u p e',
  prepare o e flag = (PrepOk u p, e') ->
  exists ast, parse_script (parse_float o) max_depth (escript e) = ParseOk ast /\
              exists fuel, compile_program fuel ast = CompOk u.
Proof. exact ParserProofs.prepare_needs_parse. Qed.

(* an illegal token (unterminated string or regexp, stray character, NUL ...) where a
   statement or an operand is expected is an error *)
Theorem C13_illegal_operand : forall pf md fuel prec s,
  tty (curT s) = TIllegal -> (md = 0 \/ depth s + 1 <= md) ->
  parse_expression pf md (S (S fuel)) prec s = PErr.
Proof. exact ParserProofs.illegal_operand. Qed.

Theorem C13_illegal_statement_start : forall pf md fuel acc s,
  tty (curT s) = TIllegal -> parse_program_loop pf md (S fuel) acc s = PErr.
Proof. exact ParserProofs.illegal_statement_start. Qed.

(* end of input where an operand is expected *)
Theorem C13_eof_operand : forall pf md fuel prec s,
  tty (curT s) = TEOF -> (md = 0 \/ depth s + 1 <= md) ->
  parse_expression pf md (S (S fuel)) prec s = PErr.
Proof. exact ParserProofs.eof_operand. Qed.

(* an unterminated block: reaching the end of input (or an illegal token) inside { } is an error *)
Theorem C13_unterminated_block : forall pf md fuel acc s st s1,
  cur_is s TRBrace = false ->
  parse_statement pf md fuel s = POk st s1 ->
  (cur_is (next s1) TEOF || cur_is (next s1) TIllegal) = true ->
  parse_block_loop pf md (S fuel) acc s = PErr.
Proof. exact ParserProofs.unterminated_block. Qed.

(* assignment to something that is not a variable *)
Theorem C13_assign_non_ident : forall pf md fuel lhs s,
  tty (curT s) = TAssign -> (forall n, lhs <> EIdent n) ->
  parse_infix pf md (S fuel) lhs s = PErr.
Proof. exact ParserProofs.assign_non_ident. Qed.

(* compound assignment to something that is not a variable: rejected by the compiler *)
Theorem C13_compound_assign_non_ident : forall fuel op l r c,
  is_mutator op = true -> (forall n, l <> EIdent n) ->
  forall x c', compile_expr fuel (EInfix op l r) c <> COk x c'.
Proof. exact ParserProofs.compound_assign_non_ident. Qed.

(* `local` outside a function *)
Theorem C13_local_outside_function : forall pf md fuel s,
  tty (curT s) = TLocal -> infn s = false -> parse_prefix pf md (S fuel) s = PErr.
Proof. exact ParserProofs.local_outside_function. Qed.

(* a missing operand: a token that cannot start an expression *)
Theorem C13_missing_operand : forall pf md fuel prec s,
  has_postfix (tty (curT s)) = false -> has_prefix (tty (curT s)) = false ->
  (md = 0 \/ depth s + 1 <= md) ->
  parse_expression pf md (S fuel) prec s = PErr.
Proof. exact ParserProofs.missing_operand. Qed.

(* the loop variable, the function name and the parameters must be identifiers *)
Theorem C13_foreach_needs_ident : forall pf md fuel s,
  tty (curT s) = TForeach -> tty (peekT s) <> TIdent -> parse_prefix pf md (S fuel) s = PErr.
Proof. exact ParserProofs.foreach_needs_ident. Qed.
Theorem C13_function_needs_name : forall pf md fuel s,
  tty (curT s) = TFunction -> tty (peekT s) <> TIdent -> parse_prefix pf md (S fuel) s = PErr.
Proof. exact ParserProofs.function_needs_name. Qed.

(* a compile error anywhere inside a block - however deeply nested - makes the whole block fail *)
Theorem C13_block_error_propagates : forall fuel s rest c,
  compile_stmt fuel s c = CErr -> compile_block (S fuel) (s :: rest) c = CErr.
Proof. exact ParserProofs.block_error_propagates. Qed.
Theorem C13_foreach_body_error_propagates : forall fuel idx ident v body c c1,
  compile_expr fuel v c = COk tt c1 ->
  (forall c2, compile_block fuel body c2 = CErr) ->
  compile_expr (S fuel) (EForeach idx ident v body) c = CErr.
Proof. exact ParserProofs.foreach_body_error_propagates. Qed.

(* ------------------------------------------------------------------ *)
(* NOTHING IS DROPPED OR MERGED: parse o print = identity on the WHOLE language.  Every program the
   parser can produce (`printable`: literals agree with their values, names are identifiers and not
   keywords, no conditional expression inside the arm of another, `local` only inside functions, ++/--
   paired with their name, at most one default per switch) - every construct: function definitions,
   local, assignment, compound assignment, ++ --, if / else if / else, while, both foreach forms, switch
   with cases and default, return, calls, index, member, array and hash literals, conditional
   expressions, strings, regexps with flags, floats - at any nesting up to the parser's limit, has a
   spelling that the parser maps back to EXACTLY that tree: no construct, however deeply nested, is
   lost, reordered or merged with its neighbour. *)
Theorem C13_parse_show_program : forall (pf : str -> option (option float)) (p : program),
  printable p = true -> floats_known pf p -> (prog_depth p <=? max_depth) = true ->
  parse_tokens pf max_depth (show_program p ++ [eof]) = ParseOk p.
Proof. exact PrinterProofs.parse_show_program_max. Qed.

(* non-vacuity: an 18-statement program using every construct is printable and round-trips; its nesting
   depth is 10, and a limit of 9 rejects it *)
Theorem C13_parse_show_example :
  printable PrinterProofs.Demo.demo = true /\
  parse_tokens PrinterProofs.Demo.pf0 max_depth (show_program PrinterProofs.Demo.demo ++ [eof]) = ParseOk PrinterProofs.Demo.demo /\
  parse_tokens PrinterProofs.Demo.pf0 9 (show_program PrinterProofs.Demo.demo ++ [eof]) = ParseReject.
Proof. exact (conj PrinterProofs.Demo.demo_printable (conj PrinterProofs.Demo.demo_roundtrip PrinterProofs.Demo.demo_depth_tight)). Qed.

(* ... and from source TEXT: the tokens of the printed program, spelled and separated by single spaces
   (or by any white space and comments), lex and parse back to exactly the program - the lexer's and the
   parser's round trips composed.  `lexable` asks that the printed token list is one the lexer can
   produce (it fails only for `/` directly after a string literal or the like, where the lexer reads a
   regular expression). *)
Theorem C13_parse_source : forall (pf : str -> option (option float)) (p : program),
  printable p = true -> floats_known pf p -> (prog_depth p <=? max_depth) = true ->
  lexable (show_program p) = true ->
  parse_script pf max_depth (TextProofs.source p) = ParseOk p.
Proof. exact TextProofs.parse_source. Qed.

Theorem C13_parse_source_example :
  parse_script PrinterProofs.Demo.pf0 max_depth (TextProofs.source PrinterProofs.Demo.demo) = ParseOk PrinterProofs.Demo.demo.
Proof. exact TextProofs.demo_parse_source. Qed.

(* the parser keeps whatever is written after a `.` (it used to replace it by a string literal holding its
   printed form, so a valueless construct written there vanished from the tree - D39): the compound
   assignment is still in the tree, the tree is not well-moded, and Prepare refuses scripts that are not
   well-moded (Model/Api.v `prepare`) *)
Theorem C13_dot_operand_kept :
  let tree := [SExpr (EAssign (L "x")
                 (EInfix TPeriod (EIdent (L "a"))
                    (EInfix TPlusEq (EInt (L "1") 1) (EInt (L "2") 2))))] in
  parse_script (fun _ => None) max_depth (L "x = a.(1 += 2);") = ParseOk tree /\
  Spec.Moded.well_moded tree = false.
Proof. exact ParserProofs.dot_operand_kept. Qed.

(* C15 - Numbers, strings and booleans are values, not shared cells. *)
From Coq Require Import Floats.
From EF Require Import Model.Base Model.Code Model.Value Model.Env Model.Reflect Model.Compiler Model.VM Model.Api
                       Proofs.EnvProofs.
Open Scope N_scope.

(* assignment changes the binding of that one name and no other *)
Theorem C15_set_get_same : forall e n v, env_get (env_set e n v) n = Some v.
Proof. exact EnvProofs.set_get_same. Qed.

Theorem C15_set_get_other : forall e n v m,
  str_eqb n m = false -> env_get (env_set e n v) m = env_get e m.
Proof. exact EnvProofs.set_get_other. Qed.

(* x++ / x-- : the variable x is rebound to a NEW number; the stack loses one
   value; nothing else in the machine state changes (no other variable, not
   the constant pool - it is not even part of the state - not the trace) *)
Theorem C15_inc_dec_local :
  forall o consts funcs fns obj code ip m idx name z top s k (is_inc : bool),
  byte_at code ip = Some (if is_inc then OpInc else OpDec) -> operand_at code ip = Some idx ->
  ip < lenN code -> polls m = None ->
  nthN consts idx = Some (VStr name) ->
  lookup o obj (menv m) name = Ok (VInt z) -> stk m = top :: s ->
  exec o consts funcs fns obj (S k) code ip m =
  exec o consts funcs fns obj k code (ip + 3)
       (mkM s (env_set (menv m) (trim_dollar name) (VInt (wrap64 (z + (if is_inc then 1 else -1))))) (trace m) (polls m)).
Proof. exact EnvProofs.inc_dec_local. Qed.

(* an assignment instruction: the popped value is bound to the popped name, nothing else changes *)
Theorem C15_set_local :
  forall o consts funcs fns obj code ip m name v s k,
  byte_at code ip = Some OpSet -> ip < lenN code -> polls m = None ->
  stk m = VStr name :: v :: s -> (forall x off, v <> VIter x off) ->
  exec o consts funcs fns obj (S k) code ip m =
  exec o consts funcs fns obj k code (ip + 1) (mkM s (env_set (menv m) (trim_dollar name) v) (trace m) (polls m)).
Proof. exact EnvProofs.set_local. Qed.

(* a literal denotes the same value every time: running never changes the program or its constant pool *)
Theorem C15_program_immutable : forall o fuel e obj r e',
  execute o fuel e obj = (r, e') ->
  match emachine e, emachine e' with
  | Some mc, Some mc' => mprog mc' = mprog mc
  | None, None => True
  | _, _ => False
  end.
Proof. exact EnvProofs.program_immutable. Qed.

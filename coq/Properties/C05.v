(* C05 - One notion of truth decides conditions, logic operators and the filter verdict. *)
From Coq Require Import Floats.
From EF Require Import Model.Base Model.Code Model.Value Model.Env Model.Reflect Model.Compiler Model.VM Model.Api
                       Spec.Ops Proofs.TruthProofs.
Open Scope N_scope.

(* the truth value of every value is the documented one *)
Theorem C05_truth_table : forall v, truthy v = spec_truth v.
Proof. exact TruthProofs.truth_table. Qed.

Theorem C05_truth_cases :
  (forall b, truthy (VBool b) = b) /\ truthy VNull = false /\ truthy VVoid = false /\
  (forall z, truthy (VInt z) = (0 <? z)%Z) /\ (forall f, truthy (VFloat f) = PrimFloat.ltb 0%float f) /\
  truthy (VStr []) = false /\ (forall c s, truthy (VStr (c :: s)) = true) /\
  truthy (VArray []) = false /\ (forall x l, truthy (VArray (x :: l)) = true) /\
  truthy (VHash []) = false /\ (forall x l, truthy (VHash (x :: l)) = true) /\
  truthy (VRegexp []) = false /\ (forall c s, truthy (VRegexp (c :: s)) = true).
Proof. exact TruthProofs.truth_cases. Qed.

(* the conditional jump - the only instruction `if`, `while`, `for`, the ternary,
   foreach and switch branch with - decides by that truth value, for every value *)
Theorem C05_jump_decides_by_truth :
  forall o consts funcs fns obj code ip m v s target k,
  byte_at code ip = Some OpJumpIfFalse -> operand_at code ip = Some target ->
  polls m = None -> stk m = v :: s -> ip < lenN code -> target < lenN code ->
  exec o consts funcs fns obj (S k) code ip m =
  exec o consts funcs fns obj k code (if truthy v then ip + 3 else target) (set_stk m s).
Proof. exact TruthProofs.jump_decides_by_truth. Qed.

(* && and || accept operands of any types and decide by the same truth value *)
Theorem C05_and_or : forall o l r,
  vm_binop o BAnd l r = Ok (VBool (truthy l && truthy r)) /\
  vm_binop o BOr l r = Ok (VBool (truthy l || truthy r)).
Proof. exact TruthProofs.and_or. Qed.

(* ! negates a boolean however produced, is true for null, false for anything else *)
Theorem C05_bang : forall v,
  vm_bang v = VBool (match v with VBool b => negb b | VNull => true | _ => false end).
Proof. exact TruthProofs.bang. Qed.

(* Run returns exactly the truth value of what Execute returns for the same
   state and object, fails exactly when it does, and leaves the same state *)
Theorem C05_run_verdict : forall o fuel e obj,
  match step o fuel e (OExec obj), step o fuel e (ORun obj) with
  | (RExec c v tr vars ns rs, e1), (RRun c' b tr' vars' ns' rs', e2) =>
      c = c' /\ b = (match c with ROk => truthy v | _ => false end) /\
      tr = tr' /\ vars = vars' /\ ns = ns' /\ rs = rs' /\ e1 = e2
  | (RNeed, e1), (RNeed, e2) => e1 = e2
  | (RFuel, e1), (RFuel, e2) => e1 = e2
  | _, _ => False
  end.
Proof. exact TruthProofs.run_verdict. Qed.

Example C05_example : vm_binop (mkStdlib (fun _ => None) (fun _ => None) (fun _ _ => None) (fun _ _ => None)
    (fun _ _ _ => None) (fun _ => None) (fun _ => None) (fun _ => None) (fun _ _ => None) (fun _ => None) (fun _ => None))
    BAnd (VInt 1) (VStr [97]) = Ok (VBool true).
Proof. reflexivity. Qed.

(* C11 - Evaluators can be used from many goroutines.
   PARTIAL by nature: the Go memory model and scheduler are not modelled.  What
   is proved: (1) the locking protocol of Eval.Run makes every schedule
   equivalent to the sequential history in lock-acquisition order, for ANY
   number of goroutines and ANY run function; (2) over the facts regenerated
   from the source on every run, every package-level variable that is ever
   mutated is only touched by functions that take a lock. *)
From Coq Require Import List Arith Bool Permutation NArith.
From EF Require Import Model.Base Gen.Surface Model.Sched Model.Value Model.Reflect Model.Api Proofs.SchedProofs.
Import ListNotations.

(* every complete schedule of N concurrent Run calls on one evaluator yields, for
   each call, the outcome of the sequential history in lock-acquisition order,
   and leaves the evaluator in that history's final state *)
Theorem C11_serializable : forall (S O R : Type) (run : S -> O -> S * R) (s : S) (objs : list O) (sch : list nat) (w : world S O R),
  exec_schedule S O R run (init_world S O R s objs) sch = Some w -> all_done S O R w = true ->
  Permutation (order S O R w) (seq 0 (List.length objs)) /\
  shared S O R w = fst (sequential S O R run s objs (order S O R w)) /\
  forall i r, In (i, r) (snd (sequential S O R run s objs (order S O R w))) ->
              nth_error (results S O R w) i = Some (Some r).
Proof. exact SchedProofs.serializable. Qed.

(* at every moment at most one goroutine is inside the critical section *)
Theorem C11_mutual_exclusion : forall (S O R : Type) (run : S -> O -> S * R) (s : S) (objs : list O) (sch : list nat) (w : world S O R),
  exec_schedule S O R run (init_world S O R s objs) sch = Some w ->
  (List.length (filter (fun t => match tpc O R t with PLocked => true | _ => false end) (threads S O R w)) <= 1)%nat.
Proof. exact SchedProofs.mutual_exclusion. Qed.

(* a script that updates a persistent variable on each run never loses an update *)
Theorem C11_no_lost_update : forall (objs : list unit) (sch : list nat) (w : world nat unit nat) (n0 : nat),
  exec_schedule nat unit nat (fun n _ => (Datatypes.S n, n)) (init_world nat unit nat n0 objs) sch = Some w ->
  all_done nat unit nat w = true ->
  shared nat unit nat w = (n0 + List.length objs)%nat.
Proof. exact SchedProofs.no_lost_update. Qed.

(* the theorem applies to the evaluator model: Run is one such atomic run function *)
Theorem C11_applies_to_run : forall o fuel (e : eval) (objs : list hostval) sch w,
  let run := fun (e : eval) (obj : hostval) => let '(r, e') := step o fuel e (ORun obj) in (e', r) in
  exec_schedule eval hostval opres run (init_world eval hostval opres e objs) sch = Some w ->
  all_done eval hostval opres w = true ->
  shared eval hostval opres w = fst (sequential eval hostval opres run e objs (order eval hostval opres w)).
Proof. exact SchedProofs.applies_to_run. Qed.

(* data-race freedom of the package-level state, over the facts read from the source of the current tree:
   a variable that is ever written outside init() is only touched by functions that take a lock *)
Definition guarded (how : list N) : bool := str_eqb how (L "locked") || str_eqb how (L "init").
Theorem C11_shared_state_guarded :
  forallb (fun '(_, _, _, mutated, accesses) => negb mutated || forallb (fun a => guarded (snd a)) accesses) package_vars = true.
Proof. exact SchedProofs.shared_state_guarded. Qed.

(* two evaluators share nothing else: the only mutable package-level variable is the regexp cache *)
Theorem C11_evaluators_disjoint :
  forallb (fun '(_, name, _, mutated, _) => negb mutated || str_eqb name (L "regCache")) package_vars = true.
Proof. exact SchedProofs.evaluators_disjoint. Qed.

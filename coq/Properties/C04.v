(* C04 - Scripts see the host object's fields faithfully. *)
From Coq Require Import Floats.
From EF Require Import Model.Base Gen.Tables Model.Value Model.Env Model.Reflect Model.VM Model.Api Proofs.ReflectProofs.
Open Scope N_scope.

(* the supported kinds convert without loss *)
Theorem C04_scalars_lossless : forall o fuel depth z f s b u bits,
  to_object o (S fuel) depth (HInt 0 z) = Some (CVal (VInt z)) /\
  to_object o (S fuel) depth (HInt 64 z) = Some (CVal (VInt z)) /\
  to_object o (S fuel) depth (HFloat bits f) = Some (CVal (VFloat f)) /\
  to_object o (S fuel) depth (HString s) = Some (CVal (VStr s)) /\
  to_object o (S fuel) depth (HBool b) = Some (CVal (VBool b)) /\
  to_object o (S fuel) depth (HTime u) = Some (CVal (VInt u)) /\
  to_object o (S fuel) depth HNil = Some (CVal VNull).
Proof. exact ReflectProofs.scalars_lossless. Qed.

(* slices of supported elements become arrays of the same length, in the same order *)
Theorem C04_slices_lossless : forall o fuel depth (l : list hostval) (vs : list value),
  Forall2 (fun h v => slice_elem h = Some v) l vs ->
  to_object o (S fuel) depth (HSlice l) = Some (CVal (VArray vs)).
Proof. exact ReflectProofs.slices_lossless. Qed.

(* a kind the engine cannot represent yields null - and converting NEVER panics *)
Theorem C04_unsupported_is_null : forall o fuel depth bits z h,
  to_object o (S fuel) depth (HUint bits z) = Some (CVal VNull) /\
  to_object o (S fuel) depth (HInt 8 z) = Some (CVal VNull) /\
  to_object o (S fuel) depth (HPtr h) = Some (CVal VNull) /\
  to_object o (S fuel) depth HNilPtr = Some (CVal VNull) /\
  to_object o (S fuel) depth HOther = Some (CVal VNull) /\
  to_object o (S fuel) depth (HIface h) = Some (CVal VNull).
Proof. exact ReflectProofs.unsupported_is_null. Qed.

Theorem C04_conversion_never_panics : forall o fuel depth h, to_object o fuel depth h <> Some CPanic.
Proof. exact ReflectProofs.conversion_never_panics. Qed.

(* a struct (by value or by pointer) and a string-keyed map expose exactly their fields, each converted *)
Theorem C04_struct_fields : forall o (fs : list (str * hostval)) (vs : list (str * value)),
  Forall2 (fun f v => fst f = fst v /\ to_object o (N.to_nat max_call_depth + 8) 0 (snd f) = Some (CVal (snd v))) fs vs ->
  host_fields o (HStruct fs) = Some (Some vs) /\ host_fields o (HPtr (HStruct fs)) = Some (Some vs) /\
  host_fields o (HMapIface fs) = Some (Some vs).
Proof. exact ReflectProofs.struct_fields. Qed.

(* lookup order: a script variable first, else the field of THIS run's object, else null; a leading `$` is ignored *)
Theorem C04_lookup_variable_first : forall o obj e name v,
  env_get e (trim_dollar name) = Some v -> lookup o obj e name = Ok v.
Proof. exact ReflectProofs.lookup_variable_first. Qed.

Theorem C04_lookup_field : forall o obj e name fs,
  env_get e (trim_dollar name) = None -> host_fields o obj = Some (Some fs) ->
  lookup o obj e name = Ok (match field_get (trim_dollar name) fs with Some v => v | None => VNull end).
Proof. exact ReflectProofs.lookup_field. Qed.

(* each run sees the object passed to THAT run: the outcome of Execute is a function of the
   evaluator state and this object only - no field of an earlier object is kept anywhere *)
Theorem C04_this_run : forall o fuel e obj r e',
  execute o fuel e obj = (r, e') ->
  forall obj2, fst (execute o fuel e' obj2) = fst (execute o fuel (mkEval (escript e') (efns e') (eenv e') (ectx e') (emachine e')) obj2).
Proof. exact ReflectProofs.this_run. Qed.

(* nil and non-struct top-level objects: an error (a recovered panic) or no fields - never a crash *)
Theorem C04_odd_objects : forall o h,
  host_fields o HNil = Some (Some []) /\
  (match h with HStruct _ | HMapIface _ | HMapOther _ _ | HPtr _ | HNil => True | _ => host_fields o h = Some None end).
Proof. exact ReflectProofs.odd_objects. Qed.

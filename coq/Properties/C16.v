(* C16 - Arrays, hashes, strings and ranges behave as ordered, total containers. *)
From Coq Require Import Floats Permutation Sorted.
From EF Require Import Model.Base Model.Code Model.Value Model.Env Model.Reflect Model.Builtins Model.Compiler Model.VM
                       Spec.Ops Proofs.OpsProofs Proofs.ContainerProofs.
From EF Require Proofs.SameValueProofs.
Open Scope N_scope.

(* indexing an array: the element if 0 <= i < len, null for EVERY other integer *)
Theorem C16_array_index_total : forall o (a : list value) (z : Z),
  vm_index o (VArray a) (VInt z) =
  Ok (if ((0 <=? z)%Z && (z <? Z.of_nat (List.length a))%Z)
      then match nth_opt a (Z.to_nat z) with Some v => v | None => VNull end else VNull).
Proof. exact ContainerProofs.array_index_total. Qed.

(* strings are indexed by character *)
Theorem C16_string_index_total : forall o (s : str) (z : Z),
  vm_index o (VStr s) (VInt z) =
  Ok (if ((0 <=? z)%Z && (z <? Z.of_nat (List.length s))%Z)
      then match nth_opt s (Z.to_nat z) with Some c => VStr [c] | None => VNull end else VNull).
Proof. exact ContainerProofs.string_index_total. Qed.

Theorem C16_index_in_range_is_element : forall o (a : list value) (n : nat) v,
  nth_opt a n = Some v -> vm_index o (VArray a) (VInt (Z.of_nat n)) = Ok v.
Proof. exact ContainerProofs.index_in_range_is_element. Qed.

(* a..b is the inclusive range of integers *)
Theorem C16_range_spec : forall (a b : Z) l,
  vm_range (VInt a) (VInt b) = Ok (VArray l) ->
  (a <= b)%Z /\ List.length l = Z.to_nat (b - a + 1) /\
  forall i : nat, (i < List.length l)%nat -> nth_opt l i = Some (VInt (a + Z.of_nat i)).
Proof. exact ContainerProofs.range_spec. Qed.

Theorem C16_range_errors : forall a b,
  (forall x y, a = VInt x -> b = VInt y -> (y < x)%Z) -> forall v, vm_range a b <> Ok v.
Proof. exact ContainerProofs.range_errors. Qed.

(* an array literal holds its elements in written order: OpArray n pops the n
   values pushed by the element code, first-pushed first *)
Theorem C16_array_literal_order : forall (l s : list value),
  pop_n (List.length l) (rev l ++ s) [] = Some (l, s).
Proof. exact ContainerProofs.array_literal_order. Qed.

(* a hash returns for each key the value stored under it ... *)
Theorem C16_hash_get_put_same : forall o ps hk k v ps',
  hash_put o ps hk k v = Some ps' -> hash_key o k = Some (Some hk) ->
  hash_get o ps' hk = Some (Some v).
Proof. exact ContainerProofs.hash_get_put_same. Qed.

(* ... and a put leaves every other key alone *)
Theorem C16_hash_get_put_other : forall o ps hk k v ps' hk',
  hash_key o k = Some (Some hk) -> hash_put o ps hk k v = Some ps' -> hk_eqb hk' hk = false ->
  hash_get o ps' hk' = hash_get o ps hk'.
Proof. exact ContainerProofs.hash_get_put_other_weaker. Qed.

(* integer, float and string keys are distinct even when they print alike *)
Theorem C16_key_types_distinct : forall o z f s hi hf hs,
  hash_key o (VInt z) = Some (Some hi) -> hash_key o (VFloat f) = Some (Some hf) ->
  hash_key o (VStr s) = Some (Some hs) ->
  hk_eqb hi hf = false /\ hk_eqb hi hs = false /\ hk_eqb hf hs = false.
Proof. exact ContainerProofs.key_types_distinct. Qed.

(* `in` finds exactly the elements present: the first element that is THE SAME VALUE - arrays and hashes
   compared member by member, simple values by type and printed form (repair of D40) *)
Theorem C16_in_exact : forall o x l b,
  array_mem o x l = Some b ->
  (b = true <-> exists y, In y l /\ same_value o x y = Some true).
Proof. exact ContainerProofs.in_exact. Qed.

(* what "the same value" means: member by member for arrays ... *)
Theorem C16_same_value_array : forall o l l',
  same_value o (VArray l) (VArray l') = Some true <-> Forall2 (fun x y => same_value o x y = Some true) l l'.
Proof. exact SameValueProofs.same_value_array. Qed.

(* ... key by key for hashes *)
Theorem C16_same_value_hash : forall o ps ps',
  same_value o (VHash ps) (VHash ps') = Some true <->
  lenN ps = lenN ps' /\
  Forall (fun kx => exists hk y, hash_key o (fst kx) = Some (Some hk) /\ hash_get o ps' hk = Some (Some y) /\
                                 same_value o (snd kx) y = Some true) ps.
Proof. exact SameValueProofs.same_value_hash. Qed.

(* ... and for values built from integers, strings, booleans, null and arrays of these it is EQUALITY, decided
   without any oracle: `x in l` is true exactly when x is an element of l (the elements being values of a
   script: no machine-internal iterator among them) *)
Theorem C16_in_plain_exact : forall o x l b, SameValueProofs.plain x = true -> forallb SameValueProofs.no_iter l = true ->
  array_mem o x l = Some b -> (b = true <-> In x l).
Proof. exact SameValueProofs.in_plain_exact. Qed.

Theorem C16_same_value_plain_total : forall o a b, SameValueProofs.plain a = true -> SameValueProofs.plain b = true ->
  exists r, same_value o a b = Some r.
Proof. exact SameValueProofs.same_value_plain_total. Qed.

(* D40, as it was: printed forms conflate a string with the value it spells (`[1, 2] in [["1, 2"]]` was true);
   the structural comparison does not *)
Theorem C16_d40_witness : forall o,
  same_printed o (VArray [VInt 1; VInt 2]) (VArray [VStr (L "1, 2")]) = Some true /\
  same_value o (VArray [VInt 1; VInt 2]) (VArray [VStr (L "1, 2")]) = Some false /\
  array_mem o (VArray [VInt 1; VInt 2]) [VArray [VStr (L "1, 2")]] = Some false /\
  array_mem o (VArray [VInt 1; VInt 2]) [VArray [VStr (L "1, 2")]; VArray [VInt 1; VInt 2]] = Some true.
Proof. exact SameValueProofs.d40_witness. Qed.

(* iteration visits position 0, 1, 2 ... each exactly once and then stops *)
Theorem C16_iter_array : forall o (l : list value) (off : N),
  iter_next o (VArray l) off =
  Ok (match nthN l off with Some x => Some (x, VInt (Z.of_N off)) | None => None end) /\
  (nthN l off = None <-> lenN l <= off).
Proof. exact ContainerProofs.iter_array. Qed.

Theorem C16_iter_string : forall o (s : str) (off : N),
  iter_next o (VStr s) off =
  Ok (match nthN s off with Some c => Some (VStr [c], VInt (Z.of_N off)) | None => None end).
Proof. exact ContainerProofs.iter_string. Qed.

(* a hash iterates over a permutation of its pairs - each entry exactly once *)
Theorem C16_hash_entries_perm : forall o ps es,
  hash_entries o ps = Some es -> Permutation ps es.
Proof. exact ContainerProofs.hash_entries_perm. Qed.

(* len counts elements / characters *)
Theorem C16_len : forall o (l : list value) (ps : list (value * value)) (s : str),
  call_builtin o (L "len") [VArray l] = Some (BVal (VInt (Z.of_nat (List.length l)))) /\
  call_builtin o (L "len") [VHash ps] = Some (BVal (VInt (Z.of_nat (List.length ps)))) /\
  call_builtin o (L "len") [VStr s] = Some (BVal (VInt (Z.of_nat (List.length s)))).
Proof. exact ContainerProofs.len_spec. Qed.

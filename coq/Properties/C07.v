(* C07 - A prepared script carries no hidden state from one run to the next. *)
From Coq Require Import Floats.
From EF Require Import Model.Base Model.Code Model.Value Model.Env Model.Reflect Model.Compiler Model.VM Model.Api
                       Proofs.ApiProofs.
Open Scope N_scope.

(* what an evaluator keeps between operations: nothing but the variables, the
   registered functions, the context and the prepared program *)
Definition clean (e : eval) : Prop := scopes (eenv e) = [].

(* a new evaluator is clean, and EVERY operation - whatever its outcome: value,
   script error, recovered panic, argument mismatch, time-out - leaves it clean *)
Theorem C07_clean_initially : forall script, clean (new_eval script).
Proof. exact ApiProofs.clean_initially. Qed.

Theorem C07_clean_preserved : forall o fuel e x r e',
  clean e -> step o fuel e x = (r, e') -> clean e'.
Proof. exact ApiProofs.clean_preserved. Qed.

(* the state after a whole history *)
Fixpoint after (o : stdlib) (fuel : nat) (e : eval) (ops : list op) : eval :=
  match ops with
  | [] => e
  | x :: ops' => after o fuel (snd (step o fuel e x)) ops'
  end.

Theorem C07_clean_after_any_history : forall o fuel script ops,
  clean (after o fuel (new_eval script) ops).
Proof. exact ApiProofs.clean_after_any_history. Qed.

(* runs never change the prepared program, the functions or the context setting *)
Theorem C07_run_keeps_program : forall o fuel e obj r e',
  execute o fuel e obj = (r, e') ->
  escript e' = escript e /\ efns e' = efns e /\ ectx e' = ectx e /\
  match emachine e, emachine e' with
  | Some mc, Some mc' => mprog mc' = mprog mc
  | None, None => True
  | _, _ => False
  end.
Proof. exact ApiProofs.run_keeps_program. Qed.

(* History independence: the outcome of a run depends only on the prepared
   program, the object, the registered functions, the remaining context budget
   and the variables currently stored.  Two evaluators that agree on those -
   e.g. a much-used one and a freshly prepared one given the same variables -
   produce the same result, the same host calls and the same variables. *)
Theorem C07_history_independent : forall o fuel e1 e2 obj,
  clean e1 -> clean e2 ->
  globals (eenv e1) = globals (eenv e2) -> efns e1 = efns e2 -> emachine e1 = emachine e2 ->
  fst (execute o fuel e1 obj) = fst (execute o fuel e2 obj) /\
  globals (eenv (snd (execute o fuel e1 obj))) = globals (eenv (snd (execute o fuel e2 obj))).
Proof. exact ApiProofs.history_independent. Qed.

(* the cost of a variable lookup does not grow with the number of earlier runs:
   there is never an open scope to search when a run starts *)
Theorem C07_no_scope_growth : forall o fuel script ops,
  env_depth (eenv (after o fuel (new_eval script) ops)) = 0%nat.
Proof. exact ApiProofs.no_scope_growth. Qed.

(* LexSpec.v - the part of the language definition that C14 talks about:
   how literals are spelled.  Definitions only; independent of Model/Lexer.v
   (shares only Base). *)
From EF Require Import Model.Base.
Open Scope N_scope.

(* Spelling of a string literal with delimiter q (34 = double, 39 = single quote):
   backslash and the delimiter are escaped, everything else is written as is. *)
Fixpoint quote_body (q : N) (s : str) : str :=
  match s with
  | [] => []
  | c :: s' =>
      (if (c =? 92) || (c =? q) then [92; c] else [c]) ++ quote_body q s'
  end.
Definition quote (q : N) (s : str) : str := q :: quote_body q s ++ [q].

(* The same with the mnemonic escapes for newline, carriage return and tab. *)
Fixpoint quote_body_esc (q : N) (s : str) : str :=
  match s with
  | [] => []
  | c :: s' =>
      (if (c =? 92) || (c =? q) then [92; c]
       else if c =? 10 then [92; 110]
       else if c =? 13 then [92; 114]
       else if c =? 9 then [92; 116]
       else [c]) ++ quote_body_esc q s'
  end.
Definition quote_esc (q : N) (s : str) : str := q :: quote_body_esc q s ++ [q].

(* texts without the character U+0000.  No statement needs this any more: inside string literals,
   regexp literals and comments U+0000 is an ordinary character (kept for reference only). *)
Definition nul_free (s : str) : bool := forallb (fun c => negb (c =? 0)) s.
Definition is_quote (q : N) : bool := (q =? 34) || (q =? 39).

(* Spelling of a regexp literal: '/' and backslash are escaped. *)
Fixpoint re_body (s : str) : str :=
  match s with
  | [] => []
  | c :: s' => (if (c =? 92) || (c =? 47) then [92; c] else [c]) ++ re_body s'
  end.
Definition re_lit (s : str) : str := 47 :: re_body s ++ [47].

Definition all_digits (s : str) : bool := forallb is_digit s.

(* Ops.v - the language definition of the operators (what C01, C05 and C16
   talk about), written operator by operator as the documentation states
   it.  It shares no code with Model/VM.v's dispatch.  Definitions only. *)
From Coq Require Import Floats.
From EF Require Import Model.Base Model.Value Model.Builtins Model.VM.
Open Scope N_scope.

Section WithStdlib.
Variable o : stdlib.

Inductive num := NI (z : Z) | NF (f : float).
Definition as_num (v : value) : option num :=
  match v with VInt z => Some (NI z) | VFloat f => Some (NF f) | _ => None end.
Definition to_f (n : num) : float := match n with NI z => float_of_Z z | NF f => f end.

(* the truth value of a value (C05) *)
Definition spec_truth (v : value) : bool :=
  match v with
  | VBool b => b
  | VInt z => (0 <? z)%Z
  | VFloat f => PrimFloat.ltb 0%float f
  | VStr s => negb (match s with [] => true | _ => false end)
  | VRegexp s => negb (match s with [] => true | _ => false end)
  | VArray l => negb (match l with [] => true | _ => false end)
  | VHash l => negb (match l with [] => true | _ => false end)
  | VNull => false
  | VVoid => false
  | VIter v _ => truthy v
  end.

(* arithmetic: two integers stay integer (64-bit wrap-around); if either
   operand is a float the operation is done in floats *)
Definition spec_arith (op : binop) (a b : num) : res value :=
  match a, b with
  | NI x, NI y =>
      match op with
      | BAdd => Ok (VInt (wrap64 (x + y)))
      | BSub => Ok (VInt (wrap64 (x - y)))
      | BMul => Ok (VInt (wrap64 (x * y)))
      | BDiv => if (y =? 0)%Z then Err EScript else Ok (VInt (wrap64 (Z.quot x y)))
      | BMod => if (y =? 0)%Z then Err EPanic else Ok (VInt (Z.rem x y))
      | BPow => int_pow x y
      | _ => Err EScript
      end
  | _, _ =>
      let x := to_f a in let y := to_f b in
      match op with
      | BAdd => Ok (VFloat (x + y)%float)
      | BSub => Ok (VFloat (x - y)%float)
      | BMul => Ok (VFloat (x * y)%float)
      | BDiv => if PrimFloat.eqb y 0%float then Err EScript else Ok (VFloat (x / y)%float)
      | BMod => match Z_of_float x, Z_of_float y with
                | Some p, Some q => if (q =? 0)%Z then Err EPanic else Ok (VFloat (float_of_Z (Z.rem p q)))
                | _, _ => Err ENeedOracle
                end
      | BPow => match pow_float o x y with Some r => Ok (VFloat r) | None => Err ENeedOracle end
      | _ => Err EScript
      end
  end.

(* numeric comparison: integers as integers, otherwise as floats *)
Definition num_cmp (op : binop) (a b : num) : bool :=
  match a, b with
  | NI x, NI y =>
      match op with
      | BLt => (x <? y)%Z | BLe => (x <=? y)%Z | BGt => (y <? x)%Z | BGe => (y <=? x)%Z
      | BEq => (x =? y)%Z | _ => negb (x =? y)%Z
      end
  | _, _ =>
      let x := to_f a in let y := to_f b in
      match op with
      | BLt => PrimFloat.ltb x y | BLe => PrimFloat.leb x y
      | BGt => PrimFloat.ltb y x | BGe => PrimFloat.leb y x
      | BEq => PrimFloat.eqb x y | _ => negb (PrimFloat.eqb x y)
      end
  end.

Definition str_cmp (op : binop) (a b : str) : bool :=
  match op with
  | BLt => str_ltb a b | BLe => negb (str_ltb b a)
  | BGt => str_ltb b a | BGe => negb (str_ltb a b)
  | BEq => str_eqb a b | _ => negb (str_eqb a b)
  end.

Definition is_arith (op : binop) : bool :=
  match op with BAdd | BSub | BMul | BDiv | BMod | BPow => true | _ => false end.
Definition is_cmp (op : binop) : bool :=
  match op with BLt | BLe | BGt | BGe | BEq | BNe => true | _ => false end.

Definition bool_str (b : bool) : str := if b then L "true" else L "false".

(* The operator table of the language. *)
Definition spec_binop (op : binop) (l r : value) : res value :=
  match op with
  | BAnd => Ok (VBool (spec_truth l && spec_truth r))
  | BOr => Ok (VBool (spec_truth l || spec_truth r))
  | BMatch | BNotMatch =>
      match l, r with
      | VStr _, VRegexp _ =>
          do v <- of_bres (match_m o [l; r]);
          Ok (VBool (if match op with BMatch => true | _ => false end then truthy v else negb (truthy v)))
      | _, _ => Err EScript
      end
  | BIn =>
      match l, r with
      | VStr a, VStr b => Ok (VBool (contains b a))            (* substring *)
      | VInt _, VInt _ | VFloat _, VFloat _ | VInt _, VFloat _ | VFloat _, VInt _ => Err EScript
      | VStr _, VRegexp _ => Err EScript
      | _, VArray elems =>
          match array_mem o l elems with Some b => Ok (VBool b) | None => Err ENeedOracle end
      | _, _ => Err EScript
      end
  | _ =>
      match as_num l, as_num r with
      | Some a, Some b =>
          if is_arith op then spec_arith op a b else Ok (VBool (num_cmp op a b))
      | _, _ =>
          match l, r with
          | VStr a, VStr b =>
              if is_cmp op then Ok (VBool (str_cmp op a b))
              else match op with BAdd => Ok (VStr (a ++ b)) | _ => Err EScript end
          | VBool a, VBool b =>
              (* booleans compare (and concatenate) as their printed forms *)
              if is_cmp op then Ok (VBool (str_cmp op (bool_str a) (bool_str b)))
              else match op with BAdd => Ok (VStr (bool_str a ++ bool_str b)) | _ => Err EScript end
          | _, _ => Err EScript
          end
      end
  end.

(* index: arrays and strings by position (null outside), hashes by key *)
Definition spec_index (l i : value) : res value :=
  match l, i with
  | VArray a, VInt z =>
      Ok (if ((0 <=? z)%Z && (z <? Z.of_nat (List.length a))%Z)
          then match nth_opt a (Z.to_nat z) with Some v => v | None => VNull end else VNull)
  | VStr s, VInt z =>
      Ok (if ((0 <=? z)%Z && (z <? Z.of_nat (List.length s))%Z)
          then match nth_opt s (Z.to_nat z) with Some c => VStr [c] | None => VNull end else VNull)
  | VArray _, _ | VStr _, _ => Err EScript
  | VHash ps, _ =>
      match hash_key o i with
      | None => Err ENeedOracle
      | Some None => Err EScript
      | Some (Some hk) => match hash_get o ps hk with
                          | None => Err ENeedOracle
                          | Some None => Ok VNull
                          | Some (Some v) => Ok v
                          end
      end
  | _, _ => Err EScript
  end.

End WithStdlib.

(* Eval.v - reference semantics of jump-free expressions, directly over the
   syntax tree, and the statement of compile correctness (C01).
   Shares no code with the compiler or the machine's dispatch loop.
   Definitions only. *)
From Coq Require Import Floats.
From EF Require Import Model.Base Model.Lexer Model.Ast Model.Code Model.Value Model.Env Model.Reflect
                       Model.Builtins Model.Compiler Model.VM Spec.Ops.
Open Scope N_scope.

Section WithStdlib.
Variable o : stdlib.

Definition binop_of_tok (t : tokty) : option binop :=
  match t with
  | TPlus => Some BAdd | TMinus => Some BSub | TAsterisk => Some BMul | TSlash => Some BDiv
  | TMod => Some BMod | TPow => Some BPow | TLt => Some BLt | TLtEq => Some BLe | TGt => Some BGt
  | TGtEq => Some BGe | TEq => Some BEq | TNotEq => Some BNe | TContains => Some BMatch
  | TMissing => Some BNotMatch | TAnd => Some BAnd | TOr => Some BOr | TIn => Some BIn
  | _ => None
  end.

(* the fragment: literals, names, prefix and infix operators, `.`/index, ranges, array literals *)
Fixpoint pure_expr (e : expr) : bool :=
  match e with
  | EInt _ z => in_int64 z
  | EFloat _ _ | EStr _ | EBool _ | ERegexp _ _ | EIdent _ => true
  | EPrefix op r => (match op with TBang | TMinus | TSqrt => true | _ => false end) && pure_expr r
  | EInfix op l r =>
      (match binop_of_tok op with Some _ => true | None => match op with TPeriod | TDotDot => true | _ => false end end)
      && pure_expr l && pure_expr r
  | EIndex l i => pure_expr l && pure_expr i
  | EArray l => (lenN l <? 65536) && forallb pure_expr l
  | _ => false
  end.

(* the value of an expression against the variables and the object of this run;
   operands are evaluated left to right, the first error ends the evaluation *)
Fixpoint seval (e : expr) (en : env) (obj : hostval) : res value :=
  match e with
  | EInt _ z => Ok (VInt z)
  | EFloat _ f => Ok (VFloat f)
  | EStr s => Ok (VStr s)
  | EBool b => Ok (VBool b)
  | ERegexp v fl => Ok (VRegexp (match fl with [] => v | _ => L "(?" ++ fl ++ L ")" ++ v end))
  | EIdent n => lookup o obj en n
  | EPrefix op r =>
      do v <- seval r en obj;
      match op with
      | TBang => Ok (vm_bang v) | TMinus => vm_minus v | TSqrt => vm_sqrt v | _ => Err EInternal
      end
  | EInfix op l r =>
      do a <- seval l en obj;
      match op with
      | TPeriod =>
          (* `a.b` is `a["b"]`: what follows the dot names the member, it is not evaluated *)
          match estr 64 r with Some name => spec_index o a (VStr name) | None => Err ENeedOracle end
      | _ =>
      do b <- seval r en obj;
      match binop_of_tok op with
      | Some bop => spec_binop o bop a b
      | None => match op with
                | TDotDot => vm_range a b
                | _ => Err EInternal
                end
      end
      end
  | EIndex l i =>
      do a <- seval l en obj;
      do b <- seval i en obj;
      spec_index o a b
  | EArray l =>
      match (fix go (l : list expr) : res (list value) :=
               match l with
               | [] => Ok []
               | x :: l' => do v <- seval x en obj; do vs <- go l'; Ok (v :: vs)
               end) l with
      | Ok vs => Ok (VArray vs)
      | Err x => Err x
      end
  | _ => Err EInternal
  end.

Variable consts : list value.
Variable funcs : list (str * ufunc).
Variable fns : fnmap.
Variable obj : hostval.

Definition xexec := exec o consts funcs fns obj.

(* executing from ip in state m is the same as continuing from ip' in m', a fixed number of steps later *)
Definition runs_to (main : list N) (ip ip' : N) (m m' : mstate) : Prop :=
  exists n : nat, forall k : nat, xexec (n + k) main ip m = xexec k main ip' m'.
(* the run ends in the error x *)
Definition fails_with (main : list N) (ip : N) (m : mstate) (x : errclass) : Prop :=
  exists n : nat, forall k : nat, exists m', xexec (n + k) main ip m = (OErr x, m').

Fixpoint list_prefix {A} (eqb : A -> A -> bool) (p l : list A) : bool :=
  match p, l with
  | [], _ => true
  | x :: p', y :: l' => eqb x y && list_prefix eqb p' l'
  | _ :: _, [] => false
  end.

End WithStdlib.

(* well-formed compiler state: the recorded length is the length *)
Definition cstate_ok (c : cstate) : Prop := clen c = lenN (crev c).

(* the code the compiler appended between two states *)
Definition emitted (c c' : cstate) (code : list N) : Prop := rev (crev c') = rev (crev c) ++ code.

(* the machine's pool starts with the compiler's pool *)
Definition pool_extends (cs : list value) (pool : list value) : Prop := exists rest, pool = cs ++ rest.

Definition compile_correct (o : stdlib) (e : expr) : Prop :=
  forall fuelc c c', cstate_ok c -> compile_expr fuelc e c = COk tt c' ->
  cstate_ok c' /\ pool_extends (Compiler.consts c) (Compiler.consts c') /\
  exists code, emitted c c' code /\
  forall pool funcs fns obj pre post m,
    lenN (Compiler.consts c') <= 65536 ->      (* constant indexes fit the 16-bit operand (Prepare checks this) *)
    pool_extends (Compiler.consts c') pool -> lenN pre = clen c -> polls m = None ->
    let main := pre ++ code ++ post in
    match seval o e (menv m) obj with
    | Ok v => runs_to o pool funcs fns obj main (lenN pre) (lenN pre + lenN code) m (push m v)
    | Err x => fails_with o pool funcs fns obj main (lenN pre) m x
    end.

(* a literal: the emitted code pushes exactly that value *)
Definition literal_pushes (o : stdlib) (pool : list value) (funcs : list (str * ufunc)) (fns : fnmap) (obj : hostval)
  (c c' : cstate) (v : value) : Prop :=
  cstate_ok c -> pool_extends (Compiler.consts c') pool -> lenN (Compiler.consts c') <= 65536 ->
  exists code, emitted c c' code /\
  forall pre post m, lenN pre = clen c -> polls m = None ->
    runs_to o pool funcs fns obj (pre ++ code ++ post) (lenN pre) (lenN pre + lenN code) m (push m v).

(* Unlex.v - spelling a token list back into source text.  Definitions only.

   spell t      the canonical spelling of one token
   unlex ts     the spellings separated by one space
   lexable ts   decidable well-formedness: ts is a token list that the lexer
                produces from unlex ts (Proofs/UnlexProofs.v: lex_unlex)

   The layout variant (unlex_layout) puts an arbitrary block of white space
   and // comments after every token. *)
From EF Require Import Model.Base Gen.Tables Model.Lexer Spec.LexSpec.
Open Scope N_scope.

(* ------------------------------------------------------------------ *)
(* Classes of token types.                                             *)

Inductive tclass :=
| CWord     (* identifiers and keywords: the text is the word itself *)
| COp       (* operators and punctuation: fixed text *)
| CInt | CFloat | CString | CRegexp
| CZero     (* the zero Token{} that a lone '&', '|' or '~' yields *)
| CNone.    (* TEOF, TIllegal: never inside a lexable list *)

Definition tclass_of (t : tokty) : tclass :=
  match t with
  | TIdent | TCase | TDefault | TElse | TFalse | TFor | TForeach | TFunction
  | TIf | TIn | TLocal | TReturn | TSwitch | TTrue | TWhile => CWord
  | TInt => CInt
  | TFloat => CFloat
  | TString => CString
  | TRegexp => CRegexp
  | TEmpty => CZero
  | TEOF | TIllegal => CNone
  | TAnd | TAssign | TAsterisk | TAsteriskEq | TBang | TColon | TComma
  | TContains | TDotDot | TEq | TGt | TGtEq | TLBrace | TLParen | TLSquare
  | TLt | TLtEq | TMinus | TMinusEq | TMinusMinus | TMissing | TMod | TNotEq
  | TOr | TPeriod | TPlus | TPlusPlus | TPlusEq | TPow | TQuestion | TRBrace
  | TRParen | TRSquare | TSemicolon | TSlash | TSlashEq | TSqrt => COp
  end.

(* The source text of a keyword type (None: TIdent and every non-word type). *)
Definition keyword_text (t : tokty) : option str :=
  match t with
  | TCase => Some (L "case") | TDefault => Some (L "default")
  | TElse => Some (L "else") | TFalse => Some (L "false")
  | TFor => Some (L "for") | TForeach => Some (L "foreach")
  | TFunction => Some (L "function") | TIf => Some (L "if")
  | TIn => Some (L "in") | TLocal => Some (L "local")
  | TReturn => Some (L "return") | TSwitch => Some (L "switch")
  | TTrue => Some (L "true") | TWhile => Some (L "while")
  | _ => None
  end.

Definition keywords : list str :=
  [L "case"; L "default"; L "else"; L "false"; L "for"; L "foreach";
   L "function"; L "if"; L "in"; L "local"; L "return"; L "switch";
   L "true"; L "while"].

(* The fixed text of an operator type is its token.Type string. *)
Definition op_text (t : tokty) : str := tokty_name t.

(* ------------------------------------------------------------------ *)
(* Spelling.                                                           *)

(* A regexp token is spelled without flags: the lexer encodes the flags i, m
   of /body/im as the prefix "(?im)" of the token text, and /(?im)body/
   yields the very same token, so re_lit of the whole text is a spelling of
   every regexp token with a non-empty text. *)
Definition spell (t : token) : str :=
  match tclass_of (tty t) with
  | CWord | COp | CInt | CFloat => tlit t
  | CString => quote 34 (tlit t)
  | CRegexp => re_lit (tlit t)
  | CZero => [38]          (* '&'; '|' and '~' give the same token *)
  | CNone => []
  end.

Definition unlex (ts : list token) : str := join [32] (map spell ts).
Definition unlex_nl (ts : list token) : str := join [10] (map spell ts).

(* ------------------------------------------------------------------ *)
(* Well-formed tokens.                                                 *)

Definition is_nil {A} (l : list A) : bool := match l with [] => true | _ => false end.

(* identifier-shaped: non-empty, identifier characters only, not starting
   with an ASCII digit (a leading non-ASCII Unicode digit is accepted by the
   lexer, which tests '0'..'9' only before reading an identifier) *)
Definition ident_shaped (s : str) : bool :=
  match s with
  | [] => false
  | c :: _ => negb (is_digit c) && forallb is_identifier s
  end.

(* digits '.' digits, both parts non-empty *)
Definition float_shaped (s : str) : bool :=
  let '(a, r) := take_while is_digit s in
  match r with
  | c :: b => (c =? 46) && negb (is_nil a) && negb (is_nil b) && all_digits b
  | [] => false
  end.

Definition lit_ok (t : token) : bool :=
  match tclass_of (tty t) with
  | CWord =>
      match keyword_text (tty t) with
      | Some k => str_eqb (tlit t) k
      | None => ident_shaped (tlit t) && negb (mem_str (tlit t) keywords)
      end
  | COp => str_eqb (tlit t) (op_text (tty t))
  | CInt => negb (is_nil (tlit t)) && all_digits (tlit t)
  | CFloat => float_shaped (tlit t)
  | CString => true       (* any text, the character 0 included *)
  | CRegexp =>
      (* an empty regexp would be spelled "//", which is a comment; any other
         text is fine (the character 0 is an ordinary character inside a
         regexp literal) *)
      negb (is_nil (tlit t))
  | CZero => is_nil (tlit t)
  | CNone => false
  end.

(* The context condition: '/' is the division operator (or starts "/=")
   exactly when the lexer's prevToken is ) identifier ] float int, and starts
   a regexp literal otherwise. *)
Definition ctx_ok (prev : tokty) (t : tokty) : bool :=
  match t with
  | TSlash | TSlashEq => slash_is_division prev
  | TRegexp => negb (slash_is_division prev)
  | _ => true
  end.

(* The lexer's prevToken after token type t.  A regexp token does NOT update
   it, so in  ( /a/ /b/  both slashes start a regexp and in  ( /a/ / 2  the
   third slash starts a regexp, too. *)
Definition next_prev (prev : tokty) (t : tokty) : tokty :=
  match t with TRegexp => prev | _ => t end.

Definition tok_ok (prev : tokty) (t : token) : bool :=
  lit_ok t && ctx_ok prev (tty t).

Fixpoint lexable_from (prev : tokty) (ts : list token) : bool :=
  match ts with
  | [] => true
  | t :: r => tok_ok prev t && lexable_from (next_prev prev (tty t)) r
  end.

(* lex starts with prevToken = the zero token *)
Definition lexable (ts : list token) : bool := lexable_from TEmpty ts.

(* ------------------------------------------------------------------ *)
(* Layout.                                                             *)

Inductive piece :=
| Ws (c : N)          (* one white-space character *)
| Cm (body : str).    (* a comment: // body newline *)

Definition piece_ok (p : piece) : bool :=
  match p with
  | Ws c => is_whitespace c
  | Cm b => forallb (fun c => negb (c =? 10)) b
  end.

Definition render_piece (p : piece) : str :=
  match p with
  | Ws c => [c]
  | Cm b => 47 :: 47 :: b ++ [10]
  end.

Definition render (ps : list piece) : str := flat_map render_piece ps.

Definition layout_ok (ps : list piece) : bool := forallb piece_ok ps.

(* A separator between two tokens: a non-empty layout block that starts with
   a white-space character.  (A block starting with a comment directly after
   a '/' token would turn "/" "//c" into "///c", i.e. one comment.) *)
Definition sep_ok (ps : list piece) : bool :=
  match ps with
  | Ws _ :: _ => layout_ok ps
  | _ => false
  end.

(* every token followed by its own layout block *)
Fixpoint unlex_layout (tl : list (token * list piece)) : str :=
  match tl with
  | [] => []
  | (t, s) :: r => spell t ++ render s ++ unlex_layout r
  end.

(* the block after the last token may be empty *)
Fixpoint seps_ok (tl : list (token * list piece)) : bool :=
  match tl with
  | [] => true
  | (_, s) :: r =>
      match r with
      | [] => is_nil s || sep_ok s
      | _ => sep_ok s && seps_ok r
      end
  end.

(* the same separator between any two tokens *)
Definition unlex_sep (sep : list piece) (ts : list token) : str :=
  join (render sep) (map spell ts).

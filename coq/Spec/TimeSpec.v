(* TimeSpec.v - the proleptic Gregorian calendar, as the specification of
   the UTC time built-ins.  Definitions only. *)
From Coq Require Import ZArith List Bool.
Import ListNotations.
Open Scope Z_scope.

Definition is_leap (y : Z) : bool :=
  ((y mod 4 =? 0) && negb (y mod 100 =? 0)) || (y mod 400 =? 0).
Definition days_in_month (y m : Z) : Z :=
  if m =? 2 then (if is_leap y then 29 else 28)
  else if (m =? 4) || (m =? 6) || (m =? 9) || (m =? 11) then 30 else 31.
Definition valid_date (y m d : Z) : bool :=
  (1 <=? m) && (m <=? 12) && (1 <=? d) && (d <=? days_in_month y m).

(* days since 1970-01-01 of a civil date *)
Definition days_from_civil (y0 m d : Z) : Z :=
  let y := if m <=? 2 then y0 - 1 else y0 in
  let era := y / 400 in            (* Z.div floors *)
  let yoe := y - era * 400 in
  let mp := if 2 <? m then m - 3 else m + 9 in
  let doy := (153 * mp + 2) / 5 + d - 1 in
  let doe := yoe * 365 + yoe / 4 - yoe / 100 + doy in
  era * 146097 + doe - 719468.

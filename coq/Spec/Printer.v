(* Printer.v - a token-level pretty printer for the WHOLE language and the
   decidable class `printable` of syntax trees it is meant for (C12/C13).
   Independent of Model/Parser.v.  Definitions only.

   Spelling conventions
   - an expression in OPERAND position (operand of a prefix / binary operator,
     the indexed or called expression, the condition of a ternary) is written
     `show_expr`: literals, names, array and hash literals as they are, every
     other expression inside parentheses;
   - an expression in a DELIMITED position (statement, parenthesis, index,
     argument, array / hash element, arm of a ternary, right side of `=`,
     condition of if / while / switch, foreach range, case value) is written
     `show_inner`, without the outer parentheses;
   - `else` followed by a lone `if` statement is written `else if ...`;
   - every statement ends in `;` (also after `}`), except the bare name in the
     pair `x ++ ;` / `x -- ;`, which the parser represents as the TWO
     statements `x` and `++` (the second one remembers the text of the token
     before it). *)
From Coq Require Import Floats.
From EF Require Import Model.Base Model.Lexer Model.Ast Spec.LexSpec Spec.Grammar.
Open Scope N_scope.

(* ------------------------------------------------------------------ *)
(* tokens                                                              *)
(* ------------------------------------------------------------------ *)

(* source spelling of the tokens with a fixed spelling *)
Definition spell (t : tokty) : str :=
  match t with
  | TIf => L "if" | TElse => L "else" | TWhile => L "while" | TFor => L "for"
  | TForeach => L "foreach" | TFunction => L "function" | TLocal => L "local"
  | TReturn => L "return" | TSwitch => L "switch" | TCase => L "case" | TDefault => L "default"
  | TTrue => L "true" | TFalse => L "false" | TIn => L "in" | TEOF => []
  | _ => tokty_name t
  end.
Definition tk (t : tokty) : token := mkTok t (spell t).

(* the literal of a regexp token: the lexer moves the flags to the front *)
Definition regexp_lit (v fl : str) : str :=
  match fl with [] => v | _ => 40 :: 63 :: fl ++ 41 :: v end.

(* a, b, c *)
Fixpoint sep_tail (l : list (list token)) : list token :=
  match l with [] => [] | x :: l' => tk TComma :: x ++ sep_tail l' end.
Definition commas (l : list (list token)) : list token :=
  match l with [] => [] | x :: l' => x ++ sep_tail l' end.

(* statements one after the other; the `;` of a bare name is dropped when a
   ++ / -- statement follows *)
Definition glue (sh : stmt -> list token) : list stmt -> list token :=
  fix go (l : list stmt) : list token :=
  match l with
  | [] => []
  | s :: l' =>
      (match s, l' with
       | SExpr (EIdent n), SExpr (EPostfix _ _) :: _ => [mkTok TIdent n]
       | _, _ => sh s
       end) ++ go l'
  end.

(* ------------------------------------------------------------------ *)
(* the printer                                                         *)
(* ------------------------------------------------------------------ *)

Definition simple (e : expr) : bool :=
  match e with
  | EInt _ _ | EFloat _ _ | EStr _ | EBool _ | ERegexp _ _ | EIdent _ | EArray _ | EHash _ => true
  | _ => false
  end.
Definition wrap (e : expr) (toks : list token) : list token :=
  if simple e then toks else tk TLParen :: toks ++ [tk TRParen].
Definition braces (toks : list token) : list token := tk TLBrace :: toks ++ [tk TRBrace].

Fixpoint show_inner (e : expr) : list token :=
  match e with
  | EInt t _ => [mkTok TInt t]
  | EFloat t _ => [mkTok TFloat t]
  | EStr s => [mkTok TString s]
  | EBool b => [tk (if b then TTrue else TFalse)]
  | ERegexp v fl => [mkTok TRegexp (regexp_lit v fl)]
  | EIdent n => [mkTok TIdent n]
  | EPrefix op r => tk op :: wrap r (show_inner r)
  | EInfix op l r =>
      match op, r with
      | TPeriod, EIdent name => wrap l (show_inner l) ++ [tk TPeriod; mkTok TIdent name]
      | _, _ => wrap l (show_inner l) ++ tk op :: wrap r (show_inner r)
      end
  | EPostfix _ op => [tk op]
  | ETernary c t f =>
      wrap c (show_inner c) ++ tk TQuestion :: show_inner t ++ tk TColon :: show_inner f
  | EArray l => tk TLSquare :: commas (map show_inner l) ++ [tk TRSquare]
  | EHash l =>
      braces (commas (map (fun kv => show_inner (fst kv) ++ tk TColon :: show_inner (snd kv)) l))
  | EIndex l i => wrap l (show_inner l) ++ tk TLSquare :: show_inner i ++ [tk TRSquare]
  | ECall f args => wrap f (show_inner f) ++ tk TLParen :: commas (map show_inner args) ++ [tk TRParen]
  | EAssign n v => mkTok TIdent n :: tk TAssign :: show_inner v
  | ELocal n => [tk TLocal; mkTok TIdent n]
  | EIf c cns alt =>
      tk TIf :: tk TLParen :: show_inner c ++ tk TRParen :: braces (glue show_stmt cns) ++
      match alt with
      | None => []
      | Some a =>
          tk TElse ::
          match a with
          | [SExpr (EIf _ _ _ as e2)] => show_inner e2          (* else if ... *)
          | _ => braces (glue show_stmt a)
          end
      end
  | EWhile c b =>
      tk TWhile :: tk TLParen :: show_inner c ++ tk TRParen :: braces (glue show_stmt b)
  | EForeach idx id v b =>
      tk TForeach ::
      (match idx with [] => [] | _ :: _ => [mkTok TIdent idx; tk TComma] end) ++
      mkTok TIdent id :: tk TIn :: show_inner v ++ braces (glue show_stmt b)
  | EFunction name ps b =>
      tk TFunction :: mkTok TIdent name :: tk TLParen ::
      commas (map (fun p => [mkTok TIdent p]) ps) ++ tk TRParen :: braces (glue show_stmt b)
  | ESwitch v cs =>
      tk TSwitch :: tk TLParen :: show_inner v ++ tk TRParen ::
      braces (List.concat (map (fun c : bool * list expr * list stmt =>
        let '(d, es, b) := c in
        (if d : bool then [tk TDefault] else tk TCase :: commas (map show_inner es)) ++
        braces (glue show_stmt b)) cs))
  end
with show_stmt (s : stmt) : list token :=
  match s with
  | SReturn e => tk TReturn :: show_inner e ++ [tk TSemicolon]
  | SExpr e => show_inner e ++ [tk TSemicolon]
  end.

Definition show_expr (e : expr) : list token := wrap e (show_inner e).
Definition show_stmts (l : list stmt) : list token := glue show_stmt l.
Definition show_block (l : list stmt) : list token := braces (show_stmts l).
Definition show_program (p : program) : list token := show_stmts p.

(* ------------------------------------------------------------------ *)
(* does the expression contain a function definition?  (the parser's   *)
(* in-function flag is cleared at the END of every definition)         *)
(* ------------------------------------------------------------------ *)

Fixpoint hasfn (e : expr) : bool :=
  match e with
  | EPrefix _ r => hasfn r
  | EInfix _ l r => hasfn l || hasfn r
  | ETernary c t f => hasfn c || hasfn t || hasfn f
  | EArray l => existsb hasfn l
  | EHash l => existsb (fun kv => hasfn (fst kv) || hasfn (snd kv)) l
  | EIndex l i => hasfn l || hasfn i
  | ECall f args => hasfn f || existsb hasfn args
  | EAssign _ v => hasfn v
  | EIf c cns alt =>
      hasfn c || existsb hasfn_s cns ||
      match alt with None => false | Some a => existsb hasfn_s a end
  | EWhile c b => hasfn c || existsb hasfn_s b
  | EForeach _ _ v b => hasfn v || existsb hasfn_s b
  | EFunction _ _ _ => true
  | ESwitch v cs =>
      hasfn v || existsb (fun c : bool * list expr * list stmt => existsb hasfn (snd (fst c)) || existsb hasfn_s (snd c)) cs
  | _ => false
  end
with hasfn_s (s : stmt) : bool :=
  match s with SReturn e => hasfn e | SExpr e => hasfn e end.

(* check the elements of a list in order; fn is the in-function flag before
   the first element, h tells whether an element clears it *)
Definition thread {A} (chk : bool -> A -> bool) (h : A -> bool) : bool -> list A -> bool :=
  fix go (fn : bool) (l : list A) : bool :=
  match l with
  | [] => true
  | x :: l' => chk fn x && go (fn && negb (h x)) l'
  end.

(* ------------------------------------------------------------------ *)
(* literals and names as the lexer produces them                       *)
(* ------------------------------------------------------------------ *)

Definition nonempty (s : str) : bool := match s with [] => false | _ => true end.
Definition ident_ok (n : str) : bool :=
  match n with [] => false | c :: _ => negb (is_digit c) end &&
  forallb is_identifier n && tokty_beq (lookup_ident n) TIdent.
Definition int_ok (t : str) (v : Z) : bool :=
  nonempty t && all_digits t &&
  match parse_int t with Some z => (z =? v)%Z | None => false end.
Fixpoint split_dot (s : str) : str * str :=
  match s with
  | [] => ([], [])
  | c :: s' => if c =? 46 then ([], s') else let '(a, b) := split_dot s' in (c :: a, b)
  end.
Definition float_shaped (t : str) : bool :=
  memN 46 t && let '(a, b) := split_dot t in nonempty a && all_digits a && nonempty b && all_digits b.
Definition regexp_ok (v fl : str) : bool :=
  match fl with
  | [] => negb (is_prefix [40; 63] v)
  | _ => negb (memN 41 fl) && flags_ok fl
  end.
Definition prefix_op (t : tokty) : bool :=
  match t with TBang | TMinus | TSqrt => true | _ => false end.
(* binary operators and compound assignments (everything the parser treats as a
   plain infix operator, except `.`) *)
Definition binop (t : tokty) : bool :=
  match t with
  | TAnd | TAsterisk | TAsteriskEq | TContains | TDotDot | TEq | TGt | TGtEq | TIn
  | TLt | TLtEq | TMinus | TMinusEq | TMissing | TMod | TNotEq | TOr
  | TPlus | TPlusEq | TPow | TSlash | TSlashEq => true
  | _ => false
  end.
Definition postfix_op (t : tokty) : bool :=
  match t with TPlusPlus | TMinusMinus => true | _ => false end.

(* a ++ / -- statement directly follows the bare name it applies to *)
Fixpoint paired (prev : option str) (l : list stmt) : bool :=
  match l with
  | [] => true
  | s :: l' =>
      (match s with
       | SExpr (EPostfix m _) => match prev with Some n => str_eqb n m | None => false end
       | _ => true
       end) &&
      paired (match s with SExpr (EIdent n) => Some n | _ => None end) l'
  end.

Fixpoint count_def (l : list (bool * list expr * list stmt)) : nat :=
  match l with
  | [] => 0
  | c :: l' => (if fst (fst c) then 1 else 0) + count_def l'
  end.

(* ------------------------------------------------------------------ *)
(* printable: the canonical trees                                      *)
(*   tn : inside an arm of a ternary                                    *)
(*   fn : the parser's in-function flag at this point                  *)
(*                                                                     *)
(* A program is printable when                                         *)
(*  - integer literals are non-empty digit strings whose value is the  *)
(*    recorded one (and fits int64); float literals are digits '.'     *)
(*    digits (their value comes from the oracle: `floats_known`);      *)
(*    strings and regexp bodies are any text (U+0000 included: it is   *)
(*    an ordinary character inside a literal); a regexp without flags  *)
(*    does not begin with "(?", flags are drawn from i, m;             *)
(*  - names (variables, assignment targets, function names, parameters,*)
(*    foreach variables, `local` names, the name after `.`) are        *)
(*    identifier-shaped and not keywords;                              *)
(*  - prefix operators are ! - sqrt; infix operators are the binary    *)
(*    operators and the compound assignments; `l . r` has r = EStr of a*)
(*    name (the only shape the parser produces for `.`);               *)
(*  - no ternary occurs anywhere inside an arm of a ternary (also not  *)
(*    inside parentheses or blocks there);                             *)
(*  - `local` occurs only where the in-function flag is set: inside a  *)
(*    function body and BEFORE the end of any nested definition (the   *)
(*    parser clears the flag at the end of every definition);          *)
(*  - EPostfix occurs only as a statement, directly after the          *)
(*    statement that is the bare name it repeats, with ++ or --;       *)
(*  - a switch has at most one default; a default has no values, a     *)
(*    case has at least one.                                           *)
(* Nesting depth is a separate, numeric condition (prog_depth below).  *)
(*                                                                     *)
(* Trees the parser CAN produce from other token lists and that are    *)
(* deliberately left out: EPostfix after anything but its bare name    *)
(* (`( ++ )` gives EPostfix "(" ++); `a.1`, `a."b"` (EStr "1", EStr    *)
(* "\"b\""); a regexp written with an empty flag group `(?)`; literals *)
(* the lexer cannot produce (signed integers, empty names).            *)
(* Trees the parser can NOT produce at all: EInfix `.` with a right    *)
(* operand that is not a string; a ternary with a ternary in an arm;   *)
(* `local` where the in-function flag is clear; EAssign and friends    *)
(* are fine in any position (`1 + (x = 2)` parses).                    *)
(* ------------------------------------------------------------------ *)

Definition nonempty_l (l : list expr) : bool := match l with [] => false | _ => true end.

Fixpoint pe (tn fn : bool) (e : expr) {struct e} : bool :=
  match e with
  | EInt t v => int_ok t v
  | EFloat t _ => float_shaped t
  | EStr s => true
  | EBool _ => true
  | ERegexp v fl => regexp_ok v fl
  | EIdent n => ident_ok n
  | EPrefix op r => prefix_op op && pe tn fn r
  | EInfix op l r =>
      pe tn fn l &&
      (if tokty_beq op TPeriod
       then match r with EIdent name => ident_ok name | _ => false end
            (* `a.b` is the only spelling in the printable class: the parser keeps whatever
               follows the dot as parsed (for `a.b` the identifier b); the class is restricted
               to an identifier operand, which is what show_inner prints after the dot *)
       else binop op && pe tn (fn && negb (hasfn l)) r)
  | EPostfix _ _ => false          (* only as a statement: see ps *)
  | ETernary c t f =>
      negb tn &&                    (* nested ternaries are rejected *)
      pe tn fn c &&
      pe true (fn && negb (hasfn c)) t &&
      pe true (fn && negb (hasfn c) && negb (hasfn t)) f
  | EArray l => thread (pe tn) hasfn fn l
  | EHash l =>
      thread (fun fn kv => pe tn fn (fst kv) && pe tn (fn && negb (hasfn (fst kv))) (snd kv))
             (fun kv => hasfn (fst kv) || hasfn (snd kv)) fn l
  | EIndex l i => pe tn fn l && pe tn (fn && negb (hasfn l)) i
  | ECall f args => pe tn fn f && thread (pe tn) hasfn (fn && negb (hasfn f)) args
  | EAssign n v => ident_ok n && pe tn fn v
  | ELocal n => fn && ident_ok n   (* `local` only while the in-function flag is set *)
  | EIf c cns alt =>
      pe tn fn c &&
      thread (ps tn) hasfn_s (fn && negb (hasfn c)) cns && paired None cns &&
      match alt with
      | None => true
      | Some a =>
          thread (ps tn) hasfn_s (fn && negb (hasfn c) && negb (existsb hasfn_s cns)) a &&
          paired None a
      end
  | EWhile c b =>
      pe tn fn c && thread (ps tn) hasfn_s (fn && negb (hasfn c)) b && paired None b
  | EForeach idx id v b =>
      (match idx with [] => true | _ => ident_ok idx end) && ident_ok id &&
      pe tn fn v && thread (ps tn) hasfn_s (fn && negb (hasfn v)) b && paired None b
  | EFunction name ps_ b =>
      ident_ok name && forallb ident_ok ps_ &&
      thread (ps tn) hasfn_s true b && paired None b
  | ESwitch v cs =>
      pe tn fn v &&
      thread (fun fn (c : bool * list expr * list stmt) =>
                (if fst (fst c) then match snd (fst c) with [] => true | _ => false end
                 else nonempty_l (snd (fst c))) &&
                thread (pe tn) hasfn fn (snd (fst c)) &&
                thread (ps tn) hasfn_s (fn && negb (existsb hasfn (snd (fst c)))) (snd c) &&
                paired None (snd c))
             (fun c : bool * list expr * list stmt => existsb hasfn (snd (fst c)) || existsb hasfn_s (snd c))
             (fn && negb (hasfn v)) cs &&
      Nat.leb (count_def cs) 1
  end
with ps (tn fn : bool) (s : stmt) {struct s} : bool :=
  match s with
  | SReturn e => pe tn fn e
  | SExpr e =>
      match e with
      | EPostfix _ op => postfix_op op     (* its place in the list is checked by `paired` *)
      | _ => pe tn fn e
      end
  end.

Definition printable (p : program) : bool :=
  thread (ps false) hasfn_s false p && paired None p.

(* ------------------------------------------------------------------ *)
(* nesting depth, as the parser counts it (parser.MaxDepth)            *)
(* ------------------------------------------------------------------ *)

Definition maxl (l : list N) : N := fold_right N.max 0 l.

Fixpoint din (e : expr) : N :=
  let dop (x : expr) := if simple x then din x - 1 else din x in
  match e with
  | EPrefix _ r => 2 + dop r
  | EInfix op l r =>
      match op, r with
      | TPeriod, EIdent _ => N.max (1 + dop l) 3
      | _, _ => N.max (1 + dop l) (3 + dop r)
      end
  | ETernary c t f => N.max (1 + dop c) (2 + N.max (din t) (din f))
  | EArray l => 1 + maxl (map din l)
  | EHash l => 1 + maxl (map (fun kv => N.max (din (fst kv)) (din (snd kv))) l)
  | EIndex l i => N.max (1 + dop l) (2 + din i)
  | ECall f args => N.max (1 + dop f) (2 + maxl (map din args))
  | EAssign _ v => 2 + din v
  | EIf c cns alt =>
      2 + N.max (din c) (N.max (maxl (map din_s cns))
                               (match alt with
                                | None => 0
                                | Some a =>
                                    match a with
                                    | [SExpr (EIf _ _ _ as e2)] => din e2 - 1   (* else if: no block level *)
                                    | _ => maxl (map din_s a)
                                    end
                                end))
  | EWhile c b => 1 + N.max (din c) (maxl (map din_s b))
  | EForeach _ _ v b => 1 + N.max (din v) (maxl (map din_s b))
  | EFunction _ _ b => 1 + maxl (map din_s b)
  | ESwitch v cs =>
      1 + N.max (din v)
            (maxl (map (fun c : bool * list expr * list stmt => N.max (maxl (map din (snd (fst c)))) (maxl (map din_s (snd c)))) cs))
  | _ => 1
  end
with din_s (s : stmt) : N :=
  match s with SReturn e => din e | SExpr e => din e end.

Definition dop (x : expr) : N := if simple x then din x - 1 else din x.
Definition prog_depth (p : program) : N := maxl (map din_s p).

(* the float literals of a tree are the ones the oracle maps to their values *)
Section Floats.
Variable pf : str -> option (option float).
Definition all_p {A} (P : A -> Prop) : list A -> Prop :=
  fix go (l : list A) : Prop :=
  match l with [] => True | x :: l' => P x /\ go l' end.
Fixpoint flk (e : expr) : Prop :=
  match e with
  | EFloat t v => pf t = Some (Some v)
  | EPrefix _ r => flk r
  | EInfix _ l r => flk l /\ flk r
  | ETernary c t f => flk c /\ flk t /\ flk f
  | EArray l => all_p flk l
  | EHash l => all_p (fun kv => flk (fst kv) /\ flk (snd kv)) l
  | EIndex l i => flk l /\ flk i
  | ECall f args => flk f /\ all_p flk args
  | EAssign _ v => flk v
  | EIf c cns alt =>
      flk c /\ all_p flk_s cns /\ match alt with None => True | Some a => all_p flk_s a end
  | EWhile c b => flk c /\ all_p flk_s b
  | EForeach _ _ v b => flk v /\ all_p flk_s b
  | EFunction _ _ b => all_p flk_s b
  | ESwitch v cs => flk v /\ all_p (fun c : bool * list expr * list stmt => all_p flk (snd (fst c)) /\ all_p flk_s (snd c)) cs
  | _ => True
  end
with flk_s (s : stmt) : Prop :=
  match s with SReturn e => flk e | SExpr e => flk e end.
Definition floats_known (p : program) : Prop := all_p flk_s p.
End Floats.

(* ------------------------------------------------------------------ *)
(* Stage 3: minimal parentheses for index / call / `.` / prefix        *)
(* operators against the binary operators.  Documented binding order:  *)
(*   index, `.` (14) > call (13) > prefix (12) > % (11) > ** (10) > ...  *)
(* ------------------------------------------------------------------ *)

Inductive xtree :=
| XId (n : str)
| XInt (t : str) (v : Z)
| XBin (op : tokty) (l r : xtree)
| XPre (op : tokty) (r : xtree)
| XIdx (l i : xtree)
| XDot (l : xtree) (name : str)
| XCall (f : xtree) (args : list xtree).

Fixpoint x_expr (t : xtree) : expr :=
  match t with
  | XId n => EIdent n
  | XInt s v => EInt s v
  | XBin op l r => EInfix op (x_expr l) (x_expr r)
  | XPre op r => EPrefix op (x_expr r)
  | XIdx l i => EIndex (x_expr l) (x_expr i)
  | XDot l n => EInfix TPeriod (x_expr l) (EIdent n)
  | XCall f args => ECall (x_expr f) (map x_expr args)
  end.

(* what may FOLLOW the tree without capturing part of it: an operator of
   strength <= xhi (a prefix expression is followed by nothing stronger than 12:
   in `-a[0]` the index belongs to `a`) *)
Definition xhi (t : xtree) : N :=
  match t with
  | XBin op _ _ => match doc_prec op with Some p => p | None => 0 end
  | XPre _ _ => 12
  | _ => 100
  end.
(* where the tree may STAND: as the operand of an operator of strength < xlo *)
Definition xlo (t : xtree) : N :=
  match t with
  | XBin op _ _ => match doc_prec op with Some p => p | None => 0 end
  | XPre _ _ | XIdx _ _ | XDot _ _ | XCall _ _ => 13
  | _ => 100
  end.

Definition par (b : bool) (toks : list token) : list token :=
  if b then tk TLParen :: toks ++ [tk TRParen] else toks.

Fixpoint show_x (t : xtree) : list token :=
  match t with
  | XId n => [mkTok TIdent n]
  | XInt s _ => [mkTok TInt s]
  | XBin op l r =>
      let q := xhi t in
      par (xhi l <? q) (show_x l) ++ tk op :: par (xlo r <=? q) (show_x r)
  | XPre op r => tk op :: par (xlo r <=? 12) (show_x r)
  | XIdx l i => par (xhi l <? 14) (show_x l) ++ tk TLSquare :: show_x i ++ [tk TRSquare]
  | XDot l n => par (xhi l <? 14) (show_x l) ++ [tk TPeriod; mkTok TIdent n]
  | XCall f args => par (xhi f <? 13) (show_x f) ++ tk TLParen :: commas (map show_x args) ++ [tk TRParen]
  end.

Fixpoint xwf (t : xtree) : bool :=
  match t with
  | XId n => ident_ok n
  | XInt s v => int_ok s v
  | XBin op l r => (match doc_prec op with Some _ => true | None => false end) && xwf l && xwf r
  | XPre op r => prefix_op op && xwf r
  | XIdx l i => xwf l && xwf i
  | XDot l n => xwf l && ident_ok n
  | XCall f args => xwf f && forallb xwf args
  end.

(* Grammar.v - the documented operator grammar as a printer: an expression
   tree over binary operators is written with exactly the parentheses the
   documented binding order requires (C12).  Token-level, independent of the
   parser.  Definitions only. *)
From EF Require Import Model.Base Model.Lexer Model.Ast.
Open Scope N_scope.

(* documented binding strength of the binary operators, higher binds tighter *)
Definition doc_prec (t : tokty) : option N :=
  match t with
  | TMod => Some 11
  | TPow => Some 10
  | TAsterisk | TSlash => Some 9
  | TPlus | TMinus => Some 8
  | TLt | TLtEq | TGt | TGtEq | TContains | TMissing | TIn => Some 7
  | TEq | TNotEq => Some 5
  | TAnd | TOr => Some 4
  | TDotDot => Some 3
  | _ => None
  end.
Definition binops : list tokty :=
  [TMod; TPow; TAsterisk; TSlash; TPlus; TMinus; TLt; TLtEq; TGt; TGtEq; TContains; TMissing; TIn;
   TEq; TNotEq; TAnd; TOr; TDotDot].

Definition op_token (t : tokty) : token :=
  mkTok t (match t with TIn => L "in" | _ => tokty_name t end).
Definition lparen := mkTok TLParen [40].
Definition rparen := mkTok TRParen [41].
Definition semi := mkTok TSemicolon [59].
Definition eof := mkTok TEOF [].

(* operator trees over identifier and integer atoms *)
Inductive otree :=
| OAtomId (name : str)
| OAtomInt (text : str) (v : Z)
| OBin (op : tokty) (l r : otree).

Fixpoint to_expr (t : otree) : expr :=
  match t with
  | OAtomId n => EIdent n
  | OAtomInt s v => EInt s v
  | OBin op l r => EInfix op (to_expr l) (to_expr r)
  end.

Definition oprec (t : otree) : N :=
  match t with
  | OBin op _ _ => match doc_prec op with Some p => p | None => 0 end
  | _ => 100
  end.

(* minimal parentheses: a child is parenthesised when it binds less tightly than
   its parent, or equally tightly and it is the RIGHT operand (left-to-right grouping) *)
Fixpoint show_min (t : otree) : list token :=
  match t with
  | OAtomId n => [mkTok TIdent n]
  | OAtomInt s _ => [mkTok TInt s]
  | OBin op l r =>
      let p := oprec t in
      let ls := show_min l in
      let rs := show_min r in
      (if oprec l <? p then lparen :: ls ++ [rparen] else ls) ++ [op_token op] ++
      (if oprec r <=? p then lparen :: rs ++ [rparen] else rs)
  end.

(* full parentheses around every operator node *)
Fixpoint show_full (t : otree) : list token :=
  match t with
  | OAtomId n => [mkTok TIdent n]
  | OAtomInt s _ => [mkTok TInt s]
  | OBin op l r => lparen :: show_full l ++ [op_token op] ++ show_full r ++ [rparen]
  end.

Fixpoint well_formed (t : otree) : bool :=
  match t with
  | OAtomId _ => true
  | OAtomInt s v => match parse_int s with Some z => (z =? v)%Z | None => false end
  | OBin op l r => (match doc_prec op with Some _ => true | None => false end) && well_formed l && well_formed r
  end.

Fixpoint osize (t : otree) : nat :=
  match t with OBin _ l r => S (osize l + osize r) | _ => 1%nat end.

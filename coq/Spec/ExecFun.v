(* ExecFun.v - the reference semantics of WHOLE programs: the big-step
   interpreter of Spec/Exec.v extended with user-defined functions
   (definitions anywhere in the script, calls before the definition,
   recursion, parameters and `local` variables in a fresh call frame,
   arity and nesting-limit errors).  It walks the syntax tree only.
   Definitions only. *)
From Coq Require Import Floats.
From EF Require Import Model.Base Gen.Tables Model.Lexer Model.Ast Model.Code Model.Value Model.Env Model.Reflect
                       Model.Builtins Model.Compiler Model.VM Spec.Ops Spec.Eval.
Open Scope N_scope.

(* a user-defined function at the level of the syntax tree *)
Record afunc := mkAfunc { aparams : list str; abody : list stmt }.
Definition aftable := list (str * afunc).

Fixpoint af_set (name : str) (f : afunc) (l : aftable) : aftable :=
  match l with
  | [] => [(name, f)]
  | (n, g) :: l' => if str_eqb n name then (n, f) :: l' else (n, g) :: af_set name f l'
  end.
Fixpoint af_get (name : str) (l : aftable) : option afunc :=
  match l with
  | [] => None
  | (n, f) :: l' => if str_eqb n name then Some f else af_get name l'
  end.

(* every function definition of a script, wherever it is written (also inside blocks and inside other
   functions), in the order the compiler meets them; a later definition of a name replaces an earlier one *)
Fixpoint collect_expr (fuel : nat) (e : expr) (t : aftable) {struct fuel} : aftable :=
  match fuel with
  | O => t
  | S f =>
      match e with
      | EPrefix _ r => collect_expr f r t
      | EInfix _ l r => collect_expr f r (collect_expr f l t)
      | ETernary c a b => collect_expr f b (collect_expr f a (collect_expr f c t))
      | EArray l => fold_left (fun acc x => collect_expr f x acc) l t
      | EHash l =>
          (* as the compiler: the pairs sorted (stably) by the printed key, key then value;
             a key without a printed form makes the compiler answer "not modelled" *)
          match opt_map (fun kv : expr * expr =>
                           match estr 64 (fst kv) with Some s => Some (s, kv) | None => None end) l with
          | None => t
          | Some ks =>
              fold_left (fun acc (kv : expr * expr) => collect_expr f (snd kv) (collect_expr f (fst kv) acc))
                        (map snd (sort_by (fun a b => str_ltb (fst a) (fst b)) ks)) t
          end
      | EIndex l i => collect_expr f i (collect_expr f l t)
      | ECall _ args => fold_left (fun acc x => collect_expr f x acc) args t
      | EAssign _ v => collect_expr f v t
      | EIf c cns alt =>
          let t1 := collect_block f cns (collect_expr f c t) in
          match alt with Some a => collect_block f a t1 | None => t1 end
      | EWhile c b => collect_block f b (collect_expr f c t)
      | EForeach _ _ v b => collect_block f b (collect_expr f v t)
      | EFunction name ps b => af_set name (mkAfunc ps b) (collect_block f b t)
      | ESwitch v cs =>
          (* as the compiler: the subject once per case expression, then the arm's block; defaults last *)
          let t1 := fold_left (fun acc (c : bool * list expr * list stmt) =>
                      if fst (fst c) then acc
                      else fold_left (fun acc2 x => collect_block f (snd c) (collect_expr f x (collect_expr f v acc2)))
                                     (snd (fst c)) acc) cs t in
          fold_left (fun acc (c : bool * list expr * list stmt) => if fst (fst c) then collect_block f (snd c) acc else acc) cs t1
      | _ => t
      end
  end
with collect_block (fuel : nat) (l : list stmt) (t : aftable) {struct fuel} : aftable :=
  match fuel with
  | O => t
  | S f => fold_left (fun acc s => match s with SReturn e => collect_expr f e acc | SExpr e => collect_expr f e acc end) l t
  end.

Inductive sres :=
| XNormal (m : mstate)                 (* fell through *)
| XReturn (v : value) (m : mstate)     (* a `return` ended the script *)
| XErr (x : errclass) (m : mstate).

Section WithStdlib.
Variable o : stdlib.
Variable fns : fnmap.
Variable obj : hostval.
Variable afs : aftable.        (* the script's functions *)

Definition pop1s (m : mstate) (k : value -> mstate -> sres) : sres :=
  match stk m with v :: s => k v (set_stk m s) | [] => XErr EInternal m end.
Definition pop2s (m : mstate) (k : value -> value -> mstate -> sres) : sres :=
  match stk m with v1 :: v2 :: s => k v1 v2 (set_stk m s) | _ => XErr EInternal (set_stk m []) end.
Definition pushr (m : mstate) (r : res value) : sres :=
  match r with Ok v => XNormal (push m v) | Err x => XErr x m end.
Definition then_ (r : sres) (k : mstate -> sres) : sres :=
  match r with XNormal m => k m | other => other end.

Definition mutator_op (t : tokty) : option binop :=
  match t with
  | TPlusEq => Some BAdd | TMinusEq => Some BSub | TAsteriskEq => Some BMul | TSlashEq => Some BDiv
  | _ => None
  end.

Definition set_menv (m : mstate) (e : env) : mstate := mkM (stk m) e (trace m) (polls m).

(* the iteration of a foreach over a private copy: element number `off` *)
Definition foreach_next (v : value) (off : N) : res (option (value * value)) := iter_next o v off.

(* expression / statement evaluation onto the stack *)
Fixpoint sx (fuel : nat) (e : expr) (m : mstate) {struct fuel} : sres :=
  match fuel with
  | O => XErr EFuel m
  | S f =>
  match e with
  | EInt _ z => XNormal (push m (VInt z))
  | EFloat _ x => XNormal (push m (VFloat x))
  | EStr s => XNormal (push m (VStr s))
  | EBool b => XNormal (push m (VBool b))
  | ERegexp v fl => XNormal (push m (VRegexp (match fl with [] => v | _ => L "(?" ++ fl ++ L ")" ++ v end)))
  | EIdent n => pushr m (lookup o obj (menv m) n)
  | EPrefix op r =>
      then_ (sx f r m) (fun m1 => pop1s m1 (fun v m2 =>
        pushr m2 (match op with
                  | TBang => Ok (vm_bang v) | TMinus => vm_minus v | TSqrt => vm_sqrt v | _ => Err EInternal
                  end)))
  | EInfix TPeriod l r =>
      (* `a.b` is `a["b"]`: what follows the dot names the member, it is not evaluated *)
      then_ (sx f l m) (fun m1 => pop1s m1 (fun a m2 =>
        pushr m2 (match estr 64 r with Some name => spec_index o a (VStr name) | None => Err ENeedOracle end)))
  | EInfix op l r =>
      then_ (sx f l m) (fun m1 => then_ (sx f r m1) (fun m2 =>
        match mutator_op op with
        | Some bop =>
            (* x op= e : compute, then assign to x *)
            match l with
            | EIdent name =>
                pop2s m2 (fun b a m3 =>
                  match spec_binop o bop a b with
                  | Ok v => XNormal (set_menv m3 (env_set (menv m3) (trim_dollar name) v))
                  | Err x => XErr x m3
                  end)
            | _ => XErr ENeedOracle m2      (* rejected by the compiler *)
            end
        | None =>
            pop2s m2 (fun b a m3 =>
              pushr m3 (match binop_of_tok op with
                        | Some bop => spec_binop o bop a b
                        | None => match op with
                                  | TDotDot => vm_range a b
                                  | _ => Err EInternal
                                  end
                        end))
        end))
  | EIndex l i =>
      then_ (sx f l m) (fun m1 => then_ (sx f i m1) (fun m2 =>
        pop2s m2 (fun b a m3 => pushr m3 (spec_index o a b))))
  | EArray l =>
      then_ (sxs f l m) (fun m1 =>
        match pop_n (List.length l) (stk m1) [] with
        | Some (elems, s) => XNormal (set_stk m1 (VArray elems :: s))
        | None => XErr EInternal m1
        end)
  | ETernary c t e' =>
      then_ (sx f c m) (fun m1 => pop1s m1 (fun v m2 =>
        if truthy v then sx f t m2 else sx f e' m2))
  | EAssign name v =>
      then_ (sx f v m) (fun m1 => pop1s m1 (fun x m2 =>
        XNormal (set_menv m2 (env_set (menv m2) (trim_dollar name) (match x with VIter y _ => y | _ => x end)))))
  | EPostfix name op =>
      (* x++ / x-- : update the variable, then drop one value from the stack *)
      match lookup o obj (menv m) name with
      | Err x => XErr x m
      | Ok v =>
          let delta := match op with TPlusPlus => 1%Z | _ => (-1)%Z end in
          match (match v with
                 | VInt z => Some (VInt (wrap64 (z + delta)))
                 | VFloat x => Some (VFloat (x + float_of_Z delta)%float)
                 | _ => None
                 end) with
          | None => XErr EScript m
          | Some v' =>
              let m1 := set_menv m (env_set (menv m) (trim_dollar name) v') in
              match stk m1 with
              | _ :: s => XNormal (set_stk m1 s)
              | [] => XErr EInternal m1
              end
          end
      end
  | EIf c cns alt =>
      then_ (sx f c m) (fun m1 => pop1s m1 (fun v m2 =>
        if truthy v then sblock f cns m2
        else match alt with Some a => sblock f a m2 | None => XNormal m2 end))
  | EWhile c body => swhile f c body m
  | ECall fn args =>
      match estr 64 fn with
      | None => XErr ENeedOracle m
      | Some name =>
          then_ (sxs f args m) (fun m1 =>
            match pop_n (List.length args) (stk m1) [] with
            | None => XErr EInternal m1
            | Some (vals, s) =>
                match fn_get name fns with
                | Some (FBuiltin bn) =>
                    match call_builtin o bn vals with
                    | None => XErr ENeedOracle m1
                    | Some r => match of_bres r with
                                | Ok v => XNormal (set_stk m1 (match v with VVoid => s | _ => v :: s end))
                                | Err x => XErr x (set_stk m1 s)
                                end
                    end
                | Some (FHost k) =>
                    let m2 := mkM s (menv m1) (mkCall name vals :: trace m1) (polls m1) in
                    match host_call k vals with
                    | Ok v => XNormal (set_stk m2 (match v with VVoid => s | _ => v :: s end))
                    | Err x => XErr x m2
                    end
                | None =>
                    (* a user-defined function: fresh stack, fresh call frame holding the parameters *)
                    match af_get name afs with
                    | None => XErr EScript (set_stk m1 s)
                    | Some af =>
                        if negb (Nat.eqb (List.length (aparams af)) (List.length vals)) then XErr EScript (set_stk m1 s)
                        else if negb (max_call_depth =? 0) && (max_call_depth <=? N.of_nat (env_depth (menv m1)))
                        then XErr EScript (set_stk m1 s)
                        else
                          let depth := env_depth (menv m1) in
                          let e1 := declare_all (env_push_frame (menv m1)) (aparams af) vals in
                          let back (m2 : mstate) (st : list value) :=
                            mkM st (env_truncate (menv m2) depth) (trace m2) (polls m2) in
                          match sblock f (abody af) (mkM [] e1 (trace m1) (polls m1)) with
                          | XReturn out m2 => XNormal (back m2 (match out with VVoid => s | _ => out :: s end))
                          | XNormal m2 => XNormal (back m2 s)          (* no return: the call has no value *)
                          | XErr x m2 => XErr x (back m2 s)
                          end
                    end
                end
            end)
      end
  | EForeach idx ident v body =>
      then_ (sx f v m) (fun m1 =>
        let e1 := env_push (menv m1) (lenN (stk m1)) in
        match stk m1 with
        | [] => XErr EInternal (set_menv m1 e1)
        | it :: s =>
            if iterable it then sforeach f idx ident it 0 body (mkM s e1 (trace m1) (polls m1))
            else XErr EScript (mkM s e1 (trace m1) (polls m1))
        end)
  | ESwitch v choices => sswitch f v choices choices m
  | ELocal name => XNormal (set_menv m (env_declare (menv m) (trim_dollar name) VNull))
  | EFunction _ _ _ => XNormal m      (* a definition does nothing when control passes it *)
  | EHash _ => XErr ENeedOracle m     (* outside this semantics *)
  end
  end

with sxs (fuel : nat) (l : list expr) (m : mstate) {struct fuel} : sres :=
  match fuel with
  | O => XErr EFuel m
  | S f => match l with
           | [] => XNormal m
           | e :: l' => then_ (sx f e m) (fun m1 => sxs f l' m1)
           end
  end

with sstmt (fuel : nat) (s : stmt) (m : mstate) {struct fuel} : sres :=
  match fuel with
  | O => XErr EFuel m
  | S f => match s with
           | SExpr e => sx f e m
           | SReturn e => then_ (sx f e m) (fun m1 => pop1s m1 (fun v m2 => XReturn v m2))
           end
  end

with sblock (fuel : nat) (l : list stmt) (m : mstate) {struct fuel} : sres :=
  match fuel with
  | O => XErr EFuel m
  | S f => match l with
           | [] => XNormal m
           | s :: l' => then_ (sstmt f s m) (fun m1 => sblock f l' m1)
           end
  end

with swhile (fuel : nat) (c : expr) (body : list stmt) (m : mstate) {struct fuel} : sres :=
  match fuel with
  | O => XErr EFuel m
  | S f =>
      then_ (sx f c m) (fun m1 => pop1s m1 (fun v m2 =>
        if truthy v then then_ (sblock f body m2) (fun m3 => swhile f c body m3)
        else XNormal m2))
  end

(* the loop of a foreach: the iterated copy stays on the stack under the body's residue *)
with sforeach (fuel : nat) (idx ident : str) (it : value) (off : N) (body : list stmt) (m : mstate) {struct fuel} : sres :=
  match fuel with
  | O => XErr EFuel m
  | S f =>
      match foreach_next it off with
      | Err x => XErr x m
      | Ok (Some (x, k)) =>
          let e1 := env_declare (menv m) (trim_dollar ident) x in
          let e2 := match idx with [] => e1 | _ => env_declare e1 (trim_dollar idx) k end in
          then_ (sblock f body (mkM (VIter it (off + 1) :: stk m) e2 (trace m) (polls m))) (fun m1 =>
            (* back at the head: the iterator must be on top again *)
            match drop_residue (menv m1) (stk m1) with
            | VIter it' off' :: s' => sforeach f idx ident it' off' body (set_stk m1 s')
            | other :: s' => if iterable other then XErr ENeedOracle (set_stk m1 s') else XErr EScript (set_stk m1 s')
            | [] => XErr EInternal m1
            end)
      | Ok None =>
          match env_pop (menv m) with
          | Some e1 => XNormal (set_menv m e1)
          | None => XErr EScript m
          end
      end
  end

(* switch: the subject is evaluated again for every case expression; the first
   matching arm runs; otherwise the default(s), wherever written *)
with sswitch (fuel : nat) (v : expr) (rest all : list (bool * list expr * list stmt)) (m : mstate) {struct fuel} : sres :=
  match fuel with
  | O => XErr EFuel m
  | S f =>
      match rest with
      | [] => sdefaults f all m
      | (true, _, _) :: rest' => sswitch f v rest' all m
      | (false, es, blk) :: rest' => scase f v es blk rest' all m
      end
  end

with scase (fuel : nat) (v : expr) (es : list expr) (blk : list stmt)
           (rest all : list (bool * list expr * list stmt)) (m : mstate) {struct fuel} : sres :=
  match fuel with
  | O => XErr EFuel m
  | S f =>
      match es with
      | [] => sswitch f v rest all m
      | e :: es' =>
          then_ (sx f v m) (fun m1 => then_ (sx f e m1) (fun m2 =>
            pop2s m2 (fun c subj m3 =>
              match vm_case o subj c with
              | Err x => XErr x m3
              | Ok r => if truthy r then sblock f blk m3 else scase f v es' blk rest all m3
              end)))
      end
  end

with sdefaults (fuel : nat) (all : list (bool * list expr * list stmt)) (m : mstate) {struct fuel} : sres :=
  match fuel with
  | O => XErr EFuel m
  | S f =>
      match all with
      | [] => XNormal m
      | (true, _, blk) :: rest => then_ (sblock f blk m) (fun m1 => sdefaults f rest m1)
      | (false, _, _) :: rest => sdefaults f rest m
      end
  end.

End WithStdlib.


(* ---- the statement of compile correctness for whole programs ---- *)
Definition fuel_of (p : program) : nat := (2000 + 4 * List.length p)%nat.

(* the functions the compiler registered are the compiled bodies of the script's functions *)
Definition program_compile_correct (o : stdlib) (fns : fnmap) (p : program) : Prop :=
  forall fuelc pc, compile_program fuelc p = CompOk pc ->
  forall obj m fuel,
    polls m = None ->
    let afs := collect_block fuelc p [] in
    match sblock o fns obj afs fuel p m with
    | XNormal m' =>
        exists n : nat, forall k : nat,
          exec o (pconsts pc) (pfuncs pc) fns obj (n + k) (pmain pc) 0 m = (ODone VNull, m')
    | XReturn v m' =>
        exists n : nat, forall k : nat,
          exec o (pconsts pc) (pfuncs pc) fns obj (n + k) (pmain pc) 0 m = (ODone v, m')
    | XErr ENeedOracle _ => True
    | XErr EFuel _ => True
    | XErr x _ => fails_with o (pconsts pc) (pfuncs pc) fns obj (pmain pc) 0 m x
    end.

(* Moded.v - "well-moded" programs: constructs that produce no value
   (assignment, compound assignment, ++/--, if, while, foreach, switch,
   function definitions, local) occur only in statement position.
   Programs outside this decidable class are accepted by Prepare although
   their code pops values that were never pushed (known finding D19).
   Definitions only. *)
From EF Require Import Model.Base Model.Lexer Model.Ast Model.Compiler.
Open Scope N_scope.

Definition valueless (e : expr) : bool :=
  match e with
  | EAssign _ _ | EPostfix _ _ | EIf _ _ _ | EWhile _ _ | EForeach _ _ _ _ | ESwitch _ _
  | EFunction _ _ _ | ELocal _ => true
  | EInfix op _ _ => is_mutator op
  | _ => false
  end.

(* operand position: must produce a value, and so must its own operands *)
Fixpoint moded_operand (fuel : nat) (e : expr) : bool :=
  match fuel with
  | O => false
  | S f =>
      negb (valueless e) &&
      match e with
      | EPrefix _ r => moded_operand f r
      | EInfix _ l r => moded_operand f l && moded_operand f r
      | ETernary c t x => moded_operand f c && moded_operand f t && moded_operand f x
      | EArray l => forallb (moded_operand f) l
      | EHash l => forallb (fun kv => moded_operand f (fst kv) && moded_operand f (snd kv)) l
      | EIndex l i => moded_operand f l && moded_operand f i
      | ECall fn args => moded_operand f fn && forallb (moded_operand f) args
      | _ => true
      end
  end.

(* `x++` reaches the compiler as two statements, `x` and `++`: the second pops what the
   first pushed, so a ++/-- must directly follow the bare name it applies to *)
Fixpoint postfix_paired (l : list stmt) : bool :=
  match l with
  | [] => true
  | SExpr (EPostfix _ _) :: _ => false
  | SExpr (EIdent _) :: SExpr (EPostfix _ _) :: rest => postfix_paired rest
  | _ :: rest => postfix_paired rest
  end.

(* statement position *)
Fixpoint moded_stmt_expr (fuel : nat) (e : expr) : bool :=
  match fuel with
  | O => false
  | S f =>
      match e with
      | EAssign _ v => moded_operand f v
      | EInfix op l r => if is_mutator op then moded_operand f l && moded_operand f r else moded_operand f e
      | EIf c cns alt => moded_operand f c && moded_block f cns &&
                         match alt with Some a => moded_block f a | None => true end
      | EWhile c b => moded_operand f c && moded_block f b
      | EForeach _ _ v b => moded_operand f v && moded_block f b
      | ESwitch v cs => moded_operand f v &&
                        forallb (fun c => forallb (moded_operand f) (snd (fst c)) && moded_block f (snd c)) cs
      | EFunction _ _ b => moded_block f b
      | EPostfix _ _ | ELocal _ => true
      | _ => moded_operand f e
      end
  end
with moded_block (fuel : nat) (l : list stmt) : bool :=
  match fuel with
  | O => false
  | S f => forallb (fun s => match s with
                             | SReturn e => moded_operand f e
                             | SExpr e => moded_stmt_expr f e
                             end) l
           && postfix_paired l
  end.

(* (fuel: a program that passes the compiler's 16-bit size check has fewer than 65536 nodes, so its nesting
   is far below this) *)
Definition well_moded (p : program) : bool := moded_block (N.to_nat 70000) p.

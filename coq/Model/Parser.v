(* Parser.v - executable model of parser/parser.go (Pratt parser).
   The token stream is lexed up front (the lexer does not depend on the
   parser).  A parselet either succeeds with a tree and a new state, or
   fails: PErr means "an error was appended to the parser's error list"
   (Prepare will reject), PNeed an input outside what the model covers,
   PFuel that the model's fuel ran out.  Definitions only. *)
From Coq Require Import Floats.
From EF Require Import Model.Base Gen.Tables Model.Lexer Model.Ast.
Open Scope N_scope.

Section WithOracle.
(* strconv.ParseFloat on a literal: None = not known to the oracle,
   Some None = syntax error, Some (Some f) = value *)
Variable parse_float : str -> option (option float).

Record pst := mkPst {
  prevT : token; curT : token; peekT : token; restT : list token;
  tern : bool; infn : bool; depth : N }.

Inductive pr (A : Type) :=
| POk (a : A) (s : pst) | PErr | PNeed | PFuel.
Arguments POk {A} a s.
Arguments PErr {A}.
Arguments PNeed {A}.
Arguments PFuel {A}.

Definition pbind {A B} (r : pr A) (f : A -> pst -> pr B) : pr B :=
  match r with POk a s => f a s | PErr => PErr | PNeed => PNeed | PFuel => PFuel end.
Notation "'pdo' ( x , s ) <- r ; k" := (pbind r (fun x s => k))
  (at level 200, x pattern, s pattern, r at level 100, k at level 200).

Definition eof_tok := mkTok TEOF [].

Definition next (s : pst) : pst :=
  mkPst (curT s) (peekT s)
        (match restT s with [] => eof_tok | t :: _ => t end)
        (match restT s with [] => [] | _ :: r => r end)
        (tern s) (infn s) (depth s).

Definition cur_is (s : pst) (t : tokty) : bool := tokty_beq (tty (curT s)) t.
Definition peek_is (s : pst) (t : tokty) : bool := tokty_beq (tty (peekT s)) t.

(* expectPeek: advance if the next token has the given type, else record an error *)
Definition expect_peek (s : pst) (t : tokty) : pr unit :=
  if peek_is s t then POk tt (next s) else PErr.

(* The precedence levels of the language (lowest to highest), as documented.
   Proofs/TableProofs.v proves that they coincide with the table read from
   the code (Gen.Tables.prec_table / prec_levels). *)
Definition LOWEST : N := 1.
Definition P_TERNARY : N := 2.
Definition P_ASSIGN : N := 3.
Definition P_COND : N := 4.
Definition P_EQUALS : N := 5.
Definition P_LESSGREATER : N := 7.
Definition P_SUM : N := 8.
Definition P_PRODUCT : N := 9.
Definition P_POWER : N := 10.
Definition P_MOD : N := 11.
Definition PREFIX : N := 12.
Definition P_CALL : N := 13.
Definition P_INDEX : N := 14.
Definition prec_of (t : tokty) : N :=
  match t with
  | TQuestion => P_TERNARY
  | TAssign | TDotDot => P_ASSIGN
  | TAnd | TOr => P_COND
  | TEq | TNotEq => P_EQUALS
  | TLt | TLtEq | TGt | TGtEq | TContains | TMissing | TIn => P_LESSGREATER
  | TPlus | TMinus | TPlusEq | TMinusEq => P_SUM
  | TSlash | TSlashEq | TAsterisk | TAsteriskEq => P_PRODUCT
  | TPow => P_POWER
  | TMod => P_MOD
  | TLParen => P_CALL
  | TLSquare | TPeriod => P_INDEX
  | _ => LOWEST
  end.
(* what the code's own table says *)
Definition table_prec (t : tokty) : N :=
  match assoc_str (tokty_name t) prec_table with
  | Some n => n
  | None => match assoc_str (L "LOWEST") prec_levels with Some n => n | None => 0 end
  end.
(* which tokens start / continue / end an expression, as documented; proved
   equal to the code's registration maps in Proofs/TableProofs.v *)
Definition has_prefix (t : tokty) : bool :=
  match t with
  | TBang | TEOF | TFalse | TFloat | TFor | TForeach | TFunction | TIdent | TIf | TIllegal
  | TInt | TLocal | TLBrace | TLParen | TLSquare | TMinus | TRegexp | TSqrt | TString
  | TTrue | TSwitch | TWhile => true
  | _ => false
  end.
Definition has_infix (t : tokty) : bool :=
  match t with
  | TAnd | TAssign | TAsterisk | TAsteriskEq | TContains | TDotDot | TEq | TGt | TGtEq | TIn
  | TLParen | TLSquare | TPeriod | TLt | TLtEq | TMinus | TMinusEq | TMissing | TMod | TNotEq
  | TOr | TPlus | TPlusEq | TPow | TQuestion | TSlash | TSlashEq => true
  | _ => false
  end.
Definition has_postfix (t : tokty) : bool :=
  match t with TMinusMinus | TPlusPlus => true | _ => false end.

Definition set_tern (s : pst) (b : bool) : pst :=
  mkPst (prevT s) (curT s) (peekT s) (restT s) b (infn s) (depth s).
Definition set_infn (s : pst) (b : bool) : pst :=
  mkPst (prevT s) (curT s) (peekT s) (restT s) (tern s) b (depth s).
Definition set_depth (s : pst) (d : N) : pst :=
  mkPst (prevT s) (curT s) (peekT s) (restT s) (tern s) (infn s) d.

(* parser.MaxDepth; 0 = the parser has no limit *)
Variable max_depth : N.
Definition deeper (s : pst) : pr unit :=
  let d := depth s + 1 in
  if (negb (max_depth =? 0)) && (max_depth <? d) then PErr else POk tt (set_depth s d).

(* parseRegexpLiteral: split "(?flags)body" *)
Fixpoint split_flags (v : str) (flags : str) : str * str :=
  match v with
  | [] => (rev flags, [])      (* placeholder, fixed below *)
  | c :: v' => if c =? 41 then (rev flags, v') else split_flags v' (c :: flags)
  end.
Definition regexp_parts (lit : str) : str * str :=
  match lit with
  | 40 :: 63 :: v =>
      if memN 41 v then let '(fl, body) := split_flags v [] in (body, fl)
      else (v, v)              (* no ')': the Go loop leaves val as it is and copies it all into flags *)
  | _ => (lit, [])
  end.

Definition infix_plain (t : tokty) : bool :=
  match t with
  | TAnd | TAsterisk | TAsteriskEq | TContains | TDotDot | TEq | TGt | TGtEq | TIn
  | TPeriod | TLt | TLtEq | TMinus | TMinusEq | TMissing | TMod | TNotEq | TOr
  | TPlus | TPlusEq | TPow | TSlash | TSlashEq => true
  | _ => false
  end.

Fixpoint count_defaults (l : list (bool * list expr * list stmt)) : nat :=
  match l with
  | [] => 0
  | (d, _, _) :: l' => (if d : bool then 1 else 0) + count_defaults l'
  end.

(* parseFunctionParameters: on entry cur = "(" *)
Fixpoint parse_params_loop (fuel : nat) (acc : list str) (s : pst) : pr (list str) :=
  match fuel with
  | O => PFuel
  | S f =>
      if cur_is s TRParen then POk (rev acc) s
      else if cur_is s TEOF then PErr
      else if negb (cur_is s TIdent) then PErr
      else
        let s1 := next s in
        let s2 := if cur_is s1 TComma then next s1 else s1 in
        parse_params_loop f (tlit (curT s) :: acc) s2
  end.
Definition parse_params (fuel : nat) (s : pst) : pr (list str) :=
  if peek_is s TRParen then POk [] (next s)
  else parse_params_loop fuel [] (next s).

(* bindPostfix: `x++` reaches the parser as two statements, `x` and `++`; the operator names its variable by the
   token before it, which is `)` in `(x)++` - when the statement before the operator is the name of a variable,
   that name is used (repair of D43).  `acc` holds the statements parsed so far, latest first. *)
Definition bind_postfix (acc : list stmt) (st : stmt) : stmt :=
  match st, acc with
  | SExpr (EPostfix _ op), SExpr (EIdent n) :: _ => SExpr (EPostfix n op)
  | _, _ => st
  end.

Fixpoint parse_expression (fuel : nat) (prec : N) (s0 : pst) {struct fuel} : pr expr :=
  match fuel with
  | O => PFuel
  | S f =>
    let saved := depth s0 in
    let restore (r : pr expr) : pr expr :=
      match r with POk e s => POk e (set_depth s saved) | x => x end in
    restore (
    pdo (_, s) <- deeper s0;
    if has_postfix (tty (curT s)) then
      POk (EPostfix (tlit (prevT s)) (tty (curT s))) s
    else if negb (has_prefix (tty (curT s))) then PErr
    else
      pdo (lhs, s1) <- parse_prefix f s;
      infix_loop f prec lhs s1)
  end

with infix_loop (fuel : nat) (prec : N) (lhs : expr) (s : pst) {struct fuel} : pr expr :=
  match fuel with
  | O => PFuel
  | S f =>
      if negb (peek_is s TSemicolon) && (prec <? prec_of (tty (peekT s))) then
        if negb (has_infix (tty (peekT s))) then PErr
        else
          let s1 := next s in
          pdo (_, s2) <- deeper s1;
          pdo (lhs2, s3) <- parse_infix f lhs s2;
          infix_loop f prec lhs2 s3
      else POk lhs s
  end

with parse_prefix (fuel : nat) (s : pst) {struct fuel} : pr expr :=
  match fuel with
  | O => PFuel
  | S f =>
  let lit := tlit (curT s) in
  match tty (curT s) with
  | TIdent => POk (EIdent lit) s
  | TInt => match parse_int lit with Some v => POk (EInt lit v) s | None => PErr end
  | TFloat => match parse_float lit with
              | None => PNeed
              | Some None => PErr
              | Some (Some v) => POk (EFloat lit v) s
              end
  | TString => POk (EStr lit) s
  | TTrue => POk (EBool true) s
  | TFalse => POk (EBool false) s
  | TRegexp => let '(v, fl) := regexp_parts lit in POk (ERegexp v fl) s
  | TBang | TMinus | TSqrt =>
      pdo (r, s1) <- parse_expression f PREFIX (next s);
      POk (EPrefix (tty (curT s)) r) s1
  | TLParen =>
      pdo (e, s1) <- parse_expression f LOWEST (next s);
      pdo (_, s2) <- expect_peek s1 TRParen;
      POk e s2
  | TLSquare =>
      pdo (l, s1) <- parse_expr_list f TRSquare s;
      POk (EArray l) s1
  | TLBrace =>
      pdo (l, s1) <- parse_hash_loop f [] s;
      POk (EHash l) s1
  | TIf => parse_if f s
  | TWhile | TFor =>
      pdo (_, s1) <- expect_peek s TLParen;
      pdo (c, s2) <- parse_expression f LOWEST (next s1);
      pdo (_, s3) <- expect_peek s2 TRParen;
      pdo (_, s4) <- expect_peek s3 TLBrace;
      pdo (b, s5) <- parse_block f s4;
      POk (EWhile c b) s5
  | TForeach =>
      let s1 := next s in
      if negb (cur_is s1 TIdent) then PErr else
      let id1 := tlit (curT s1) in
      pdo (names, s2) <-
        (if peek_is s1 TComma then
           let s1' := next s1 in
           if negb (peek_is s1' TIdent) then PErr
           else let s1'' := next s1' in POk (id1, tlit (curT s1'')) s1''
         else POk ([], id1) s1);
      pdo (_, s3) <- expect_peek s2 TIn;
      pdo (v, s4) <- parse_expression f LOWEST (next s3);
      pdo (_, s5) <- expect_peek s4 TLBrace;
      pdo (b, s6) <- parse_block f s5;
      POk (EForeach (fst names) (snd names) v b) s6
  | TFunction =>
      let s1 := next (set_infn s true) in
      if negb (cur_is s1 TIdent) then PErr else
      let name := tlit (curT s1) in
      pdo (_, s2) <- expect_peek s1 TLParen;
      pdo (ps, s3) <- parse_params fuel s2;
      pdo (_, s4) <- expect_peek s3 TLBrace;
      pdo (b, s5) <- parse_block f s4;
      POk (EFunction name ps b) (set_infn s5 false)
  | TLocal =>
      if negb (infn s) then PErr else
      let s1 := next s in
      if negb (cur_is s1 TIdent) then PErr else POk (ELocal (tlit (curT s1))) s1
  | TSwitch =>
      pdo (_, s1) <- expect_peek s TLParen;
      pdo (v, s2) <- parse_expression f LOWEST (next s1);
      pdo (_, s3) <- expect_peek s2 TRParen;
      pdo (_, s4) <- expect_peek s3 TLBrace;
      pdo (cs, s5) <- parse_switch_loop f [] (next s4);
      if Nat.ltb 1 (count_defaults cs) then PErr else POk (ESwitch v cs) s5
  | TEOF => PErr
  | TIllegal => PErr
  | _ => PNeed      (* registered in the code's table but unknown to the model *)
  end
  end

with parse_infix (fuel : nat) (lhs : expr) (s : pst) {struct fuel} : pr expr :=
  match fuel with
  | O => PFuel
  | S f =>
  let op := tty (curT s) in
  if infix_plain op then
    let p := prec_of op in
    pdo (r, s1) <- parse_expression f p (next s);
    POk (EInfix op lhs r) s1
  else match op with
  | TAssign =>
      match lhs with
      | EIdent name =>
          pdo (v, s1) <- parse_expression f LOWEST (next s);
          POk (EAssign name v) s1
      | _ => PErr
      end
  | TLParen =>
      pdo (args, s1) <- parse_expr_list f TRParen s;
      POk (ECall lhs args) s1
  | TLSquare =>
      pdo (i, s1) <- parse_expression f LOWEST (next s);
      pdo (_, s2) <- expect_peek s1 TRSquare;
      POk (EIndex lhs i) s2
  | TQuestion =>
      if tern s then PErr else
      let unset (r : pr expr) : pr expr :=
        match r with POk e s' => POk e (set_tern s' false) | x => x end in
      unset (
        pdo (t, s1) <- parse_expression f LOWEST (next (set_tern s true));
        pdo (_, s2) <- expect_peek s1 TColon;
        pdo (e, s3) <- parse_expression f LOWEST (next s2);
        POk (ETernary lhs t e) s3)
  | _ => PNeed
  end
  end

(* parseExpressionList: on entry cur is the opening bracket *)
with parse_expr_list (fuel : nat) (close : tokty) (s : pst) {struct fuel} : pr (list expr) :=
  match fuel with
  | O => PFuel
  | S f =>
      if peek_is s close then POk [] (next s)
      else
        pdo (e, s1) <- parse_expression f LOWEST (next s);
        parse_list_tail f close [e] s1
  end

with parse_list_tail (fuel : nat) (close : tokty) (acc : list expr) (s : pst) {struct fuel} : pr (list expr) :=
  match fuel with
  | O => PFuel
  | S f =>
      if peek_is s TComma then
        pdo (e, s1) <- parse_expression f LOWEST (next (next s));
        parse_list_tail f close (e :: acc) s1
      else
        pdo (_, s1) <- expect_peek s close;
        POk (rev acc) s1
  end

(* parseHashLiteral: on entry cur = "{" (or the last token of a value) *)
with parse_hash_loop (fuel : nat) (acc : list (expr * expr)) (s : pst) {struct fuel} : pr (list (expr * expr)) :=
  match fuel with
  | O => PFuel
  | S f =>
      if peek_is s TRBrace then POk (rev acc) (next s)
      else
        pdo (k, s1) <- parse_expression f LOWEST (next s);
        pdo (_, s2) <- expect_peek s1 TColon;
        pdo (v, s3) <- parse_expression f LOWEST (next s2);
        if peek_is s3 TRBrace then parse_hash_loop f ((k, v) :: acc) s3
        else
          pdo (_, s4) <- expect_peek s3 TComma;
          parse_hash_loop f ((k, v) :: acc) s4
  end

(* parseIfExpression: on entry cur = "if" *)
with parse_if (fuel : nat) (s0 : pst) {struct fuel} : pr expr :=
  match fuel with
  | O => PFuel
  | S f =>
    let saved := depth s0 in
    let restore (r : pr expr) : pr expr :=
      match r with POk e s => POk e (set_depth s saved) | x => x end in
    restore (
    pdo (_, s) <- deeper s0;
    pdo (_, s1) <- expect_peek s TLParen;
    pdo (c, s2) <- parse_expression f LOWEST (next s1);
    pdo (_, s3) <- expect_peek s2 TRParen;
    pdo (_, s4) <- expect_peek s3 TLBrace;
    pdo (cns, s5) <- parse_block f s4;
    if peek_is s5 TElse then
      let s6 := next s5 in
      if peek_is s6 TIf then
        pdo (e, s7) <- parse_if f (next s6);
        POk (EIf c cns (Some [SExpr e])) s7
      else
        pdo (_, s7) <- expect_peek s6 TLBrace;
        pdo (alt, s8) <- parse_block f s7;
        POk (EIf c cns (Some alt)) s8
    else POk (EIf c cns None) s5)
  end

(* parseBlockStatement: on entry cur = "{"; on exit cur = "}" *)
with parse_block (fuel : nat) (s : pst) {struct fuel} : pr (list stmt) :=
  match fuel with
  | O => PFuel
  | S f => parse_block_loop f [] (next s)
  end

with parse_block_loop (fuel : nat) (acc : list stmt) (s : pst) {struct fuel} : pr (list stmt) :=
  match fuel with
  | O => PFuel
  | S f =>
      if cur_is s TRBrace then POk (rev acc) s
      else
        pdo (st, s1) <- parse_statement f s;
        let s2 := next s1 in
        if cur_is s2 TEOF || cur_is s2 TIllegal then PErr
        else parse_block_loop f (bind_postfix acc st :: acc) s2
  end

with parse_statement (fuel : nat) (s : pst) {struct fuel} : pr stmt :=
  match fuel with
  | O => PFuel
  | S f =>
      if cur_is s TReturn then
        pdo (e, s1) <- parse_expression f LOWEST (next s);
        let s2 := next s1 in
        if cur_is s2 TSemicolon then POk (SReturn e) s2 else PErr
      else
        pdo (e, s1) <- parse_expression f LOWEST s;
        skip_semis f (SExpr e) s1
  end

with skip_semis (fuel : nat) (st : stmt) (s : pst) {struct fuel} : pr stmt :=
  match fuel with
  | O => PFuel
  | S f => if peek_is s TSemicolon then skip_semis f st (next s) else POk st s
  end

(* the body of a switch: on entry cur is the first token after "{" *)
with parse_switch_loop (fuel : nat) (acc : list (bool * list expr * list stmt)) (s : pst) {struct fuel}
  : pr (list (bool * list expr * list stmt)) :=
  match fuel with
  | O => PFuel
  | S f =>
      if cur_is s TRBrace then POk (rev acc) s
      else if cur_is s TEOF then PErr
      else
        pdo (hd, s1) <-
          (if cur_is s TDefault then POk (true, []) s
           else if cur_is s TCase then
             let s' := next s in
             if cur_is s' TDefault then POk (true, []) s'
             else
               pdo (e, s'') <- parse_expression f LOWEST s';
               pdo (es, s3) <- parse_case_tail f [e] s'';
               POk (false, es) s3
           else PErr);
        pdo (_, s2) <- expect_peek s1 TLBrace;
        pdo (b, s3) <- parse_block f s2;
        parse_switch_loop f ((fst hd, snd hd, b) :: acc) (next s3)
  end

with parse_case_tail (fuel : nat) (acc : list expr) (s : pst) {struct fuel} : pr (list expr) :=
  match fuel with
  | O => PFuel
  | S f =>
      if peek_is s TComma then
        pdo (e, s1) <- parse_expression f LOWEST (next (next s));
        parse_case_tail f (e :: acc) s1
      else POk (rev acc) s
  end.

(* ParseProgram *)
Fixpoint parse_program_loop (fuel : nat) (acc : list stmt) (s : pst) : pr program :=
  match fuel with
  | O => PFuel
  | S f =>
      if cur_is s TEOF then POk (rev acc) s
      else if cur_is s TIllegal then PErr
      else
        pdo (st, s1) <- parse_statement fuel s;
        parse_program_loop f (bind_postfix acc st :: acc) (next s1)
  end.

Definition init_pst (ts : list token) : pst :=
  let t1 := match ts with t :: _ => t | [] => eof_tok end in
  let r1 := match ts with _ :: r => r | [] => [] end in
  let t2 := match r1 with t :: _ => t | [] => eof_tok end in
  let r2 := match r1 with _ :: r => r | [] => [] end in
  mkPst (mkTok TEmpty []) t1 t2 r2 false false 0.

Inductive parse_result := ParseOk (p : program) | ParseReject | ParseNeed | ParseFuel.

Definition parse_tokens (ts : list token) : parse_result :=
  let fuel := (2 * List.length ts + 20)%nat in
  match parse_program_loop fuel [] (init_pst ts) with
  | POk p _ => ParseOk p
  | PErr => ParseReject
  | PNeed => ParseNeed
  | PFuel => ParseFuel
  end.

Definition parse_script (src : str) : parse_result :=
  match lex src with
  | None => ParseFuel
  | Some ts => parse_tokens ts
  end.

End WithOracle.

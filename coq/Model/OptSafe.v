(* OptSafe.v - the validated optimizer (C03).

   [optimize_body_safe] runs exactly the passes of Model/Optimizer.v
   ([maths_pass], [jumps_pass], [remove_nops], [remove_dead]) and, after every
   single rewrite step, runs a checker ([validate]) on the pair (code before,
   code after).  It answers None as soon as a step is not validated, so
   whenever it answers [Some c] the unchecked optimizer answers [Some c] too.

   The checker is one closure check over a *plan*: a list of matched program
   points (a, b) - a in the code before, b in the code after - each with a
   prelude (a run of constant instructions: Nop, Push, True, False, integer
   Add/Sub/Mul/Div/Equal/NotEqual, JumpIfFalse on a known boolean) that the
   checker evaluates abstractly on both sides.  After the preludes either both
   sides have moved and stand at matched points with the same pushed
   constants, or both stand at the same instruction whose successors (next
   instruction, jump target) are matched points again.  The plan is computed
   by untrusted generators; Proofs/OptSafeProofs.v proves that a validated
   pair of codes behaves identically from matched points.

   Side conditions this amounts to (all decidable, all checked here):
     - the code walks linearly by instruction lengths; every instruction
       outside the rewritten window is byte-identical before and after;
     - every Jump/JumpIfFalse operand outside the window is an instruction
       boundary that is not strictly inside the window, or lies past the end
       on both sides;
     - the window before and the window after push the same constants and
       leave at the same offset (so the square-root fold is refused: the
       abstract evaluator has no square root);
     - a constant JumpIfFalse that is taken jumps forward and inside the code;
     - remove_nops: every target maps to the new offset of the first non-Nop
       instruction at or after it, and a target inside the code stays inside;
     - remove_dead: the kept prefix has no jumps and each instruction is
       followed by a kept instruction, except the final Return.
   Definitions only. *)
From Coq Require Import Floats.
From EF Require Import Model.Base Gen.Tables Model.Code Model.Value Model.Compiler Model.Optimizer Model.VM.
Open Scope N_scope.

(* ------------------------------------------------------------------ *)
(* abstract evaluation of constant instructions *)

Inductive aval := AInt (z : Z) | ABool (b : bool).

Definition aval_eqb (x y : aval) : bool :=
  match x, y with
  | AInt a, AInt b => (a =? b)%Z
  | ABool a, ABool b => Bool.eqb a b
  | _, _ => false
  end.
Fixpoint avals_eqb (l1 l2 : list aval) : bool :=
  match l1, l2 with
  | [], [] => true
  | x :: l1', y :: l2' => aval_eqb x y && avals_eqb l1' l2'
  | _, _ => false
  end.
Definition aval_value (a : aval) : value :=
  match a with AInt z => VInt z | ABool b => VBool b end.
Definition aval_of_res (r : res value) : option aval :=
  match r with
  | Ok (VInt z) => Some (AInt z)
  | Ok (VBool b) => Some (ABool b)
  | _ => None
  end.

Definition arith_binop (op : N) : option binop :=
  if op =? OpAdd then Some BAdd else if op =? OpSub then Some BSub
  else if op =? OpMul then Some BMul else if op =? OpDiv then Some BDiv
  else if op =? OpEqual then Some BEq else if op =? OpNotEqual then Some BNe
  else None.

(* run constant instructions from ip until the first offset >= stop;
   st = the constants pushed so far on top of the entry stack (top first) *)
Fixpoint aeval (fuel : nat) (code : list N) (ip stop : N) (st : list aval) : option (N * list aval) :=
  match fuel with
  | O => None
  | S f =>
      if stop <=? ip then Some (ip, st)
      else if lenN code <=? ip then None
      else
        match byte_at code ip with
        | None => None
        | Some op =>
            if (op =? OpNop) || (op =? OpPlaceholder) then aeval f code (ip + 1) stop st
            else if op =? OpPush then
              match operand_at code ip with
              | Some a => aeval f code (ip + 3) stop (AInt (Z.of_N a) :: st)
              | None => None
              end
            else if op =? OpTrue then aeval f code (ip + 1) stop (ABool true :: st)
            else if op =? OpFalse then aeval f code (ip + 1) stop (ABool false :: st)
            else if op =? OpJumpIfFalse then
              match operand_at code ip, st with
              | Some target, ABool c :: st' =>
                  if c then aeval f code (ip + 3) stop st'
                  else if (ip <? target) && (target <? lenN code) then aeval f code target stop st'
                  else None
              | _, _ => None
              end
            else
              match arith_binop op with
              | Some b =>
                  match st with
                  | AInt r :: AInt l :: st' =>
                      match aval_of_res (int_binop b l r) with
                      | Some v => aeval f code (ip + 1) stop (v :: st')
                      | None => None
                      end
                  | _ => None
                  end
              | None => None
              end
        end
  end.

(* ------------------------------------------------------------------ *)
(* the checker *)

(* ((a, b), (sa, sb)): point a of the code before matches point b of the code
   after; the preludes run from a up to sa and from b up to sb *)
Definition plan := list ((N * N) * (N * N)).

Definition paired (pts : plan) (x y : N) : bool :=
  existsb (fun e => (fst (fst e) =? x) && (snd (fst e) =? y)) pts.

Definition opt_N_eqb (x y : option N) : bool :=
  match x, y with
  | Some a, Some b => a =? b
  | None, None => true
  | _, _ => false
  end.

Definition jump_ok (A B : list N) (pts : plan) (oa ob : option N) : bool :=
  match oa, ob with
  | Some ta, Some tb =>
      if lenN A <=? ta then lenN B <=? tb
      else (tb <? lenN B) && paired pts ta tb
  | _, _ => false
  end.

(* the same instruction stands at a in A and at b in B, and wherever it
   continues the two sides are at matched points *)
Definition sync_ok (A B : list N) (pts : plan) (a b : N) : bool :=
  if lenN A <=? a then lenN B <=? b
  else if lenN B <=? b then false
  else
    match byte_at A a, byte_at B b with
    | Some op, Some op' =>
        (op =? op') &&
        (if (op =? OpJump) || (op =? OpJumpIfFalse)
         then jump_ok A B pts (operand_at A a) (operand_at B b)
         else if 1 <? op_len op then opt_N_eqb (operand_at A a) (operand_at B b) else true) &&
        ((op =? OpReturn) || (op =? OpJump) || paired pts (a + op_len op) (b + op_len op))
    | _, _ => false
    end.

Definition check_entry (A B : list N) (pts : plan) (e : (N * N) * (N * N)) : bool :=
  let '((a, b), (sa, sb)) := e in
  match aeval (S (List.length A)) A a sa [], aeval (S (List.length B)) B b sb [] with
  | Some (a1, stA), Some (b1, stB) =>
      avals_eqb stA stB &&
      ((negb (a1 =? a) && negb (b1 =? b) && paired pts a1 b1) || sync_ok A B pts a1 b1)
  | _, _ => false
  end.

Definition validate (A B : list N) (pts : plan) : bool :=
  paired pts 0 0 && forallb (check_entry A B pts) pts.

Fixpoint code_eqb (a b : list N) : bool :=
  match a, b with
  | [], [] => true
  | x :: a', y :: b' => (x =? y) && code_eqb a' b'
  | _, _ => false
  end.

(* one validated step: nothing changed, or the plan checks *)
Definition link_ok (A B : list N) (pts : plan) : bool := code_eqb A B || validate A B pts.

(* ------------------------------------------------------------------ *)
(* plans (untrusted) *)

Fixpoint offsets (fuel : nat) (rest : list N) (off : N) : list N :=
  match fuel with
  | O => []
  | S f =>
      match rest with
      | [] => []
      | op :: _ => off :: offsets f (skipn (N.to_nat (op_len op)) rest) (off + op_len op)
      end
  end.

Fixpoint first_diff (a b : list N) (i : N) : option N :=
  match a, b with
  | x :: a', y :: b' => if x =? y then first_diff a' b' (i + 1) else Some i
  | _, _ => None
  end.
Fixpoint last_diff (a b : list N) (i : N) (acc : option N) : option N :=
  match a, b with
  | x :: a', y :: b' => last_diff a' b' (i + 1) (if x =? y then acc else Some i)
  | _, _ => acc
  end.
(* offsets are increasing *)
Fixpoint last_le (l : list N) (d : N) (acc : N) : N :=
  match l with [] => acc | x :: l' => if x <=? d then last_le l' d x else acc end.
Fixpoint first_gt (l : list N) (d : N) (dflt : N) : N :=
  match l with [] => dflt | x :: l' => if d <? x then x else first_gt l' d dflt end.

(* a rewrite that keeps the length: the window is the span of instructions
   that contain a changed byte, extended to where the old window leaves *)
Definition window_plan (A B : list N) : plan :=
  match first_diff A B 0, last_diff A B 0 None with
  | Some d1, Some d2 =>
      let offs := offsets (S (List.length A)) A 0 in
      let ws := last_le offs d1 0 in
      let we := first_gt offs d2 (lenN A) in
      match aeval (S (List.length A)) A ws we [] with
      | Some (e, _) =>
          map (fun x => ((x, x), if x =? ws then (e, e) else (x, x)))
              (filter (fun x => negb ((ws <? x) && (x <? e))) (offs ++ [lenN A]))
      | None => []
      end
  | _, _ => []
  end.

Fixpoint skip_nops (fuel : nat) (A : list N) (x : N) : N :=
  match fuel with
  | O => x
  | S f => match byte_at A x with
           | Some op => if op =? OpNop then skip_nops f A (x + 1) else x
           | None => x
           end
  end.

(* remove_nops: the optimizer's own offset table, plus the end *)
Definition nops_plan (A B : list N) : plan :=
  let '(_, rewrite) := nops_walk (S (List.length A)) A 0 [] 0 [] in
  ((lenN A, lenN B), (lenN A, lenN B)) ::
  map (fun ot => (ot, (skip_nops (S (List.length A)) A (fst ot), snd ot))) rewrite.

(* remove_dead: the kept prefix *)
Definition dead_plan (A B : list N) : plan :=
  map (fun x => ((x, x), (x, x))) (offsets (S (List.length B)) B 0).

(* ------------------------------------------------------------------ *)
(* the checked optimizer *)

Fixpoint iterate_safe (fuel : nat) (pass : list N -> pass_result) (code : list N) : option (list N) :=
  match fuel with
  | O => None
  | S f =>
      match pass code with
      | NoChange => Some code
      | Stop => Some code
      | Changed c => if link_ok code c (window_plan code c) then iterate_safe f pass c else None
      end
  end.

Definition optimize_body_safe (code : list N) : option (list N) :=
  let fuel := S (List.length code) in
  match iterate_safe fuel maths_pass code with
  | None => None
  | Some c1 =>
      match iterate_safe fuel jumps_pass c1 with
      | None => None
      | Some c2 =>
          let c3 := remove_nops c2 in
          if link_ok c2 c3 (nops_plan c2 c3) then
            let c4 := remove_dead c3 in
            if link_ok c3 c4 (dead_plan c3 c4) then Some c4 else None
          else None
      end
  end.

(* run_main refuses an empty main program: the optimizer must not empty it *)
Definition same_emptiness (a b : list N) : bool :=
  match a, b with
  | [], [] => true
  | _ :: _, _ :: _ => true
  | _, _ => false
  end.

Definition optimize_program_safe (p : program_code) : option program_code :=
  match optimize_body_safe (pmain p) with
  | None => None
  | Some m =>
      if same_emptiness (pmain p) m then
        match opt_map (fun nf => match optimize_body_safe (fcode (snd nf)) with
                                 | Some c => Some (fst nf, mkUfunc (fparams (snd nf)) c)
                                 | None => None
                                 end) (pfuncs p) with
        | Some fs => Some (mkProg (pconsts p) m fs)
        | None => None
        end
      else None
  end.

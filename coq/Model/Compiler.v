(* Compiler.v - executable model of compiler.go: AST -> byte-code, constant
   pool and user-function table.  Definitions only. *)
From Coq Require Import Floats.
From EF Require Import Model.Base Gen.Tables Model.Lexer Model.Ast Model.Code Model.Value.
Open Scope N_scope.

Record ufunc := mkUfunc { fparams : list str; fcode : list N }.

(* code is kept reversed while compiling *)
Record cstate := mkC {
  crev : list N; clen : N;
  consts : list value;
  funcs : list (str * ufunc) }.

Inductive cres (A : Type) := COk (a : A) (c : cstate) | CErr | CNeed | CFuel.
Arguments COk {A} a c.
Arguments CErr {A}.
Arguments CNeed {A}.
Arguments CFuel {A}.
Definition cbind {A B} (r : cres A) (f : A -> cstate -> cres B) : cres B :=
  match r with COk a c => f a c | CErr => CErr | CNeed => CNeed | CFuel => CFuel end.
Notation "'cdo' ( x , c ) <- r ; k" := (cbind r (fun x c => k))
  (at level 200, x pattern, c pattern, r at level 100, k at level 200).

Definition emit0 (op : N) (c : cstate) : cstate :=
  mkC (op :: crev c) (clen c + 1) (consts c) (funcs c).
(* returns the position of the new instruction *)
Definition emit1 (op : N) (operand : N) (c : cstate) : N * cstate :=
  (clen c, mkC (lo_byte operand :: hi_byte operand :: op :: crev c) (clen c + 3) (consts c) (funcs c)).
Definition emit1' (op operand : N) (c : cstate) : cstate := snd (emit1 op operand c).

Fixpoint set_nth (l : list N) (i : N) (x : N) : list N :=
  match l with
  | [] => []
  | y :: l' => if i =? 0 then x :: l' else y :: set_nth l' (N.pred i) x
  end.
(* changeOperand: patch the two operand bytes of the instruction at pos *)
Definition patch (pos operand : N) (c : cstate) : cstate :=
  let r := crev c in
  let n := clen c in
  (* byte at absolute offset k sits at reversed index n-1-k *)
  let r1 := set_nth r (n - 1 - (pos + 1)) (hi_byte operand) in
  let r2 := set_nth r1 (n - 1 - (pos + 2)) (lo_byte operand) in
  mkC r2 n (consts c) (funcs c).

(* same float datum (distinguishes the two zeros, identifies NaNs): the
   printed forms of two floats coincide exactly in that case *)
Definition sf_same (a b : SpecFloat.spec_float) : bool :=
  match a, b with
  | SpecFloat.S754_zero s, SpecFloat.S754_zero t => Bool.eqb s t
  | SpecFloat.S754_infinity s, SpecFloat.S754_infinity t => Bool.eqb s t
  | SpecFloat.S754_nan, SpecFloat.S754_nan => true
  | SpecFloat.S754_finite s m e, SpecFloat.S754_finite t n f => Bool.eqb s t && Pos.eqb m n && Z.eqb e f
  | _, _ => false
  end.
Definition const_same (a b : value) : bool :=
  match a, b with
  | VInt x, VInt y => (x =? y)%Z
  | VFloat x, VFloat y => sf_same (Prim2SF x) (Prim2SF y)
  | VStr x, VStr y => str_eqb x y
  | VRegexp x, VRegexp y => str_eqb x y
  | _, _ => false
  end.
Fixpoint find_const (v : value) (l : list value) (i : N) : option N :=
  match l with
  | [] => None
  | x :: l' => if const_same x v then Some i else find_const v l' (i + 1)
  end.
Definition add_const (v : value) (c : cstate) : N * cstate :=
  match find_const v (consts c) 0 with
  | Some i => (i, c)
  | None => (lenN (consts c), mkC (crev c) (clen c) (consts c ++ [v]) (funcs c))
  end.
Definition emit_const (v : value) (c : cstate) : cstate :=
  let '(i, c1) := add_const v c in emit1' OpConstant i c1.

Fixpoint set_func (name : str) (f : ufunc) (l : list (str * ufunc)) : list (str * ufunc) :=
  match l with
  | [] => [(name, f)]
  | (n, g) :: l' => if str_eqb n name then (n, f) :: l' else (n, g) :: set_func name f l'
  end.

(* the opcode of the last instruction of a body (by decoding it linearly) *)
Fixpoint last_op (fuel : nat) (code : list N) (last : option N) : option N :=
  match fuel with
  | O => last
  | S f =>
      match code with
      | [] => last
      | op :: _ => last_op f (skipn (N.to_nat (op_len op)) code) (Some op)
      end
  end.

(* The language's operator -> instruction mapping, as documented.
   Proofs/TableProofs.v proves it equal to what the compiler emits
   (Gen.Tables.optoken_table, observed on the code). *)
Definition infix_opcode (t : tokty) : option N :=
  match t with
  | TPlus | TPlusEq => Some OpAdd
  | TMinus | TMinusEq => Some OpSub
  | TAsterisk | TAsteriskEq => Some OpMul
  | TSlash | TSlashEq => Some OpDiv
  | TMod => Some OpMod
  | TPow => Some OpPower
  | TLt => Some OpLess
  | TLtEq => Some OpLessEqual
  | TGt => Some OpGreater
  | TGtEq => Some OpGreaterEqual
  | TEq => Some OpEqual
  | TNotEq => Some OpNotEqual
  | TContains => Some OpMatches
  | TMissing => Some OpNotMatches
  | TIn => Some OpArrayIn
  | TPeriod => Some OpIndex
  | TDotDot => Some OpRange
  | TAnd => Some OpAnd
  | TOr => Some OpOr
  | _ => None
  end.
Definition is_mutator (t : tokty) : bool :=
  match t with TPlusEq | TMinusEq | TAsteriskEq | TSlashEq => true | _ => false end.
Definition prefix_opcode (t : tokty) : option N :=
  match t with
  | TBang => Some OpBang | TMinus => Some OpMinus | TSqrt => Some OpSquareRoot | _ => None
  end.

Definition inline_int (v : Z) : bool := (0 <=? v)%Z && (v <=? Z.of_N inline_limit)%Z.

Section Compile.

Fixpoint patch_all (l : list N) (target : N) (c : cstate) : cstate :=
  match l with [] => c | p :: l' => patch_all l' target (patch p target c) end.

Fixpoint compile_expr (fuel : nat) (e : expr) (c : cstate) {struct fuel} : cres unit :=
  match fuel with
  | O => CFuel
  | S f =>
  match e with
  | EBool true => COk tt (emit0 OpTrue c)
  | EBool false => COk tt (emit0 OpFalse c)
  | EFloat _ v => COk tt (emit_const (VFloat v) c)
  | EInt _ v => if inline_int v then COk tt (emit1' OpPush (Z.to_N v) c)
                else COk tt (emit_const (VInt v) c)
  | EStr s => COk tt (emit_const (VStr s) c)
  | ERegexp v fl =>
      COk tt (emit_const (VRegexp (match fl with [] => v | _ => L "(?" ++ fl ++ L ")" ++ v end)) c)
  | EArray l =>
      cdo (_, c1) <- compile_exprs f l c;
      COk tt (emit1' OpArray (lenN l) c1)
  | EHash l =>
      (* keys sorted (stably) by their String() *)
      match opt_map (fun kv => match estr 64 (fst kv) with Some s => Some (s, kv) | None => None end) l with
      | None => CNeed
      | Some ks =>
          let sorted := map snd (sort_by (fun a b => str_ltb (fst a) (fst b)) ks) in
          cdo (_, c1) <- compile_pairs f sorted c;
          COk tt (emit1' OpHash (lenN l * 2) c1)
      end
  | EInfix op l r =>
      cdo (_, c1) <- compile_expr f l c;
      match op with
      | TPeriod =>
          (* `a.b` is `a["b"]`: the member is named by the printed form of what was written after the dot,
             which is not evaluated (and not compiled) *)
          match estr 64 r with
          | None => CNeed
          | Some name => COk tt (emit0 OpIndex (emit_const (VStr name) c1))
          end
      | _ =>
      cdo (_, c2) <- compile_expr f r c1;
      match infix_opcode op with
      | None => CErr
      | Some o =>
          if is_mutator op then
            match l with
            | EIdent name => COk tt (emit0 OpSet (emit_const (VStr name) (emit0 o c2)))
            | _ => CErr
            end
          else COk tt (emit0 o c2)
      end
      end
  | EPrefix op r =>
      cdo (_, c1) <- compile_expr f r c;
      match prefix_opcode op with Some o => COk tt (emit0 o c1) | None => CErr end
  | EPostfix name op =>
      match op with
      | TPlusPlus => let '(i, c1) := add_const (VStr name) c in COk tt (emit1' OpInc i c1)
      | TMinusMinus => let '(i, c1) := add_const (VStr name) c in COk tt (emit1' OpDec i c1)
      | _ => CErr
      end
  | ELocal name => COk tt (emit0 OpLocal (emit_const (VStr name) c))
  | EForeach idx ident v body =>
      cdo (_, c1) <- compile_expr f v c;
      let c2 := emit0 OpIterationReset c1 in
      let start := clen c2 in
      let c3 := emit_const (VStr ident) (emit_const (VStr idx) c2) in
      let c4 := emit0 OpIterationNext c3 in
      let '(endp, c5) := emit1 OpJumpIfFalse 9999 c4 in
      cdo (_, c6) <- compile_block f body c5;
      let c7 := emit1' OpJump start c6 in
      let c8 := patch endp (clen c7) c7 in
      COk tt (emit0 OpPlaceholder c8)
  | EFunction name params body =>
      let before_rev := crev c in
      let before_len := clen c in
      let c0 := mkC [] 0 (consts c) (funcs c) in
      cdo (_, c1) <- compile_block f body c0;
      let code1 := rev (crev c1) in
      let c2 := match last_op (S (List.length code1)) code1 None with
                | Some op => if op =? OpReturn then c1 else emit0 OpReturn (emit0 OpVoid c1)
                | None => emit0 OpReturn (emit0 OpVoid c1)
                end in
      let fn := mkUfunc params (rev (crev c2)) in
      COk tt (mkC before_rev before_len (consts c2) (set_func name fn (funcs c2)))
  | EIf cond cns alt =>
      cdo (_, c1) <- compile_expr f cond c;
      let '(jnt, c2) := emit1 OpJumpIfFalse 9999 c1 in
      cdo (_, c3) <- compile_block f cns c2;
      let c4 := patch jnt (clen c3) c3 in
      match alt with
      | None => COk tt (emit0 OpPlaceholder c4)
      | Some a =>
          let '(jp, c5) := emit1 OpJump 9999 c4 in
          let c6 := patch jnt (clen c5) c5 in
          cdo (_, c7) <- compile_block f a c6;
          let c8 := patch jp (clen c7) c7 in
          COk tt (emit0 OpPlaceholder c8)
      end
  | ETernary cond t e' =>
      cdo (_, c1) <- compile_expr f cond c;
      let '(jnt, c2) := emit1 OpJumpIfFalse 9999 c1 in
      cdo (_, c3) <- compile_expr f t c2;
      let '(jend, c4) := emit1 OpJump 9999 c3 in
      let c5 := patch jnt (clen c4) c4 in
      cdo (_, c6) <- compile_expr f e' c5;
      let c7 := patch jend (clen c6) c6 in
      COk tt (emit0 OpPlaceholder c7)
  | ESwitch v choices =>
      cdo (patches, c1) <- compile_cases f v choices [] c;
      cdo (_, c2) <- compile_defaults f choices c1;
      COk tt (emit0 OpPlaceholder (patch_all patches (clen c2) c2))
  | EWhile cond body =>
      let start := clen c in
      cdo (_, c1) <- compile_expr f cond c;
      let '(jnt, c2) := emit1 OpJumpIfFalse 9999 c1 in
      cdo (_, c3) <- compile_block f body c2;
      let c4 := emit1' OpJump start c3 in
      let c5 := patch jnt (clen c4) c4 in
      COk tt (emit0 OpPlaceholder c5)
  | EAssign name v =>
      cdo (_, c1) <- compile_expr f v c;
      COk tt (emit0 OpSet (emit_const (VStr name) c1))
  | EIdent name =>
      let '(i, c1) := add_const (VStr name) c in COk tt (emit1' OpLookup i c1)
  | ECall fn args =>
      cdo (_, c1) <- compile_exprs f args c;
      match estr 64 fn with
      | None => CNeed
      | Some name => COk tt (emit1' OpCall (lenN args) (emit_const (VStr name) c1))
      end
  | EIndex l i =>
      cdo (_, c1) <- compile_expr f l c;
      cdo (_, c2) <- compile_expr f i c1;
      COk tt (emit0 OpIndex c2)
  end
  end

with compile_exprs (fuel : nat) (l : list expr) (c : cstate) {struct fuel} : cres unit :=
  match fuel with
  | O => CFuel
  | S f =>
      match l with
      | [] => COk tt c
      | e :: l' => cdo (_, c1) <- compile_expr f e c; compile_exprs f l' c1
      end
  end

with compile_pairs (fuel : nat) (l : list (expr * expr)) (c : cstate) {struct fuel} : cres unit :=
  match fuel with
  | O => CFuel
  | S f =>
      match l with
      | [] => COk tt c
      | (k, v) :: l' =>
          cdo (_, c1) <- compile_expr f k c;
          cdo (_, c2) <- compile_expr f v c1;
          compile_pairs f l' c2
      end
  end

with compile_stmt (fuel : nat) (s : stmt) (c : cstate) {struct fuel} : cres unit :=
  match fuel with
  | O => CFuel
  | S f =>
      match s with
      | SReturn e => cdo (_, c1) <- compile_expr f e c; COk tt (emit0 OpReturn c1)
      | SExpr e => compile_expr f e c
      end
  end

with compile_block (fuel : nat) (l : list stmt) (c : cstate) {struct fuel} : cres unit :=
  match fuel with
  | O => CFuel
  | S f =>
      match l with
      | [] => COk tt c
      | s :: l' => cdo (_, c1) <- compile_stmt f s c; compile_block f l' c1
      end
  end

(* the non-default arms of a switch; returns the positions of the jumps to the end *)
with compile_cases (fuel : nat) (v : expr) (choices : list (bool * list expr * list stmt))
                   (patches : list N) (c : cstate) {struct fuel} : cres (list N) :=
  match fuel with
  | O => CFuel
  | S f =>
      match choices with
      | [] => COk patches c
      | (true, _, _) :: rest => compile_cases f v rest patches c
      | (false, es, blk) :: rest =>
          cdo (patches1, c1) <- compile_case_exprs f v es blk patches c;
          compile_cases f v rest patches1 c1
      end
  end

with compile_case_exprs (fuel : nat) (v : expr) (es : list expr) (blk : list stmt)
                        (patches : list N) (c : cstate) {struct fuel} : cres (list N) :=
  match fuel with
  | O => CFuel
  | S f =>
      match es with
      | [] => COk patches c
      | e :: es' =>
          cdo (_, c1) <- compile_expr f v c;
          cdo (_, c2) <- compile_expr f e c1;
          let c3 := emit0 OpCase c2 in
          let '(pos, c4) := emit1 OpJumpIfFalse 9999 c3 in
          cdo (_, c5) <- compile_block f blk c4;
          let '(endp, c6) := emit1 OpJump 9999 c5 in
          let c7 := patch pos (clen c6) c6 in
          compile_case_exprs f v es' blk (patches ++ [endp]) c7
      end
  end

with compile_defaults (fuel : nat) (choices : list (bool * list expr * list stmt)) (c : cstate)
                      {struct fuel} : cres unit :=
  match fuel with
  | O => CFuel
  | S f =>
      match choices with
      | [] => COk tt c
      | (true, _, blk) :: rest => cdo (_, c1) <- compile_block f blk c; compile_defaults f rest c1
      | (false, _, _) :: rest => compile_defaults f rest c
      end
  end.

End Compile.

Record program_code := mkProg {
  pconsts : list value;
  pmain : list N;
  pfuncs : list (str * ufunc) }.

Inductive compile_result := CompOk (p : program_code) | CompReject | CompNeed | CompFuel.

(* Prepare: compile, then reject what does not fit sixteen-bit operands *)
Definition fits16 (p : program_code) : bool :=
  (lenN (pmain p) <=? 65535) && (lenN (pconsts p) <=? 65535) &&
  forallb (fun nf => lenN (fcode (snd nf)) <=? 65535) (pfuncs p).

Definition compile_program (fuel : nat) (p : program) : compile_result :=
  match compile_block fuel p (mkC [] 0 [] []) with
  | COk _ c =>
      let pc := mkProg (consts c) (rev (crev c)) (funcs c) in
      if fits16 pc then CompOk pc else CompReject
  | CErr => CompReject
  | CNeed => CompNeed
  | CFuel => CompFuel
  end.

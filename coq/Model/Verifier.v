(* Verifier.v - a byte-code verifier for compiled programs (C18).
   It decodes each body linearly, checks opcodes / operands / jump targets /
   constant references, and checks an inductive lower bound on the stack
   depth - and on the stack heights remembered by the foreach loops that are
   open - along every edge of the control-flow graph (computed by iteration,
   then checked).  The extracted verifier is run on the real programs the
   Go implementation produces.  Definitions only. *)
From EF Require Import Model.Base Gen.Tables Model.Code Model.Value Model.Compiler.
Open Scope N_scope.

Inductive vreason :=
| VUnknownOpcode (ip : N) | VTruncated (ip : N) | VBadJump (ip : N) | VBadConstant (ip : N)
| VNameNotString (ip : N) | VUnderflow (ip : N) | VNotInductive (ip : N) | VFallsOff | VNoFixpoint
| VIterNoJump (ip : N).     (* also: an IterationNext with no loop open *)
Inductive vresult := VOk | VBad (r : vreason).

Record instr := mkI { iip : N; iop : N; iarg : N; ilen : N }.

Definition known_ops : list N :=
  [OpConstant; OpJump; OpJumpIfFalse; OpCall; OpLookup; OpPush; OpArray; OpHash; OpNop; OpPlaceholder; OpSet;
   OpLocal; OpTrue; OpFalse; OpVoid; OpCase; OpAdd; OpSub; OpMul; OpDiv; OpMod; OpPower; OpInc; OpDec; OpReturn;
   OpMinus; OpBang; OpSquareRoot; OpLess; OpLessEqual; OpGreater; OpGreaterEqual; OpEqual; OpNotEqual;
   OpMatches; OpNotMatches; OpAnd; OpOr; OpIndex; OpArrayIn; OpIterationReset; OpIterationNext; OpRange].

(* linear decoding *)
Fixpoint decode (fuel : nat) (rest : list N) (ip : N) (acc : list instr) : vresult * list instr :=
  match fuel with
  | O => (VOk, rev acc)
  | S f =>
      match rest with
      | [] => (VOk, rev acc)
      | op :: _ =>
          if negb (memN op known_ops) then (VBad (VUnknownOpcode ip), rev acc)
          else
            let len := op_len op in
            if len =? 3 then
              match rest with
              | _ :: h :: l :: rest' => decode f rest' (ip + 3) (mkI ip op (h * 256 + l) 3 :: acc)
              | _ => (VBad (VTruncated ip), rev acc)
              end
            else decode f (skipn 1 rest) (ip + 1) (mkI ip op 0 1 :: acc)
      end
  end.

Definition is_start (is : list instr) (t : N) : bool := existsb (fun i => iip i =? t) is.

(* how many values an instruction needs on the stack, and how many it leaves in their place
   (a call is assumed to return a value) *)
Definition pops (i : instr) : N :=
  let op := iop i in
  if memN op [OpSet; OpCase; OpIndex; OpRange; OpAdd; OpSub; OpMul; OpDiv; OpMod; OpPower; OpLess; OpLessEqual;
              OpGreater; OpGreaterEqual; OpEqual; OpNotEqual; OpMatches; OpNotMatches; OpAnd; OpOr; OpArrayIn] then 2
  else if memN op [OpLocal; OpBang; OpMinus; OpSquareRoot; OpReturn; OpJumpIfFalse; OpInc; OpDec; OpIterationReset] then 1
  else if op =? OpArray then iarg i
  else if op =? OpHash then 2 * ((iarg i + 1) / 2)
  else if op =? OpCall then iarg i + 1
  else if op =? OpIterationNext then 3
  else 0.
Definition pushes (i : instr) : N :=
  let op := iop i in
  if memN op [OpConstant; OpLookup; OpPush; OpTrue; OpFalse; OpVoid; OpArray; OpHash; OpCase; OpIndex; OpRange;
              OpAdd; OpSub; OpMul; OpDiv; OpMod; OpPower; OpLess; OpLessEqual; OpGreater; OpGreaterEqual; OpEqual;
              OpNotEqual; OpMatches; OpNotMatches; OpAnd; OpOr; OpArrayIn; OpBang; OpMinus; OpSquareRoot; OpCall;
              OpIterationReset] then 1
  else 0.

(* The abstract state at an instruction: a lower bound on the stack depth, and for every foreach loop
   that is open in this body (innermost first) a lower bound on the stack height it remembered. *)
Definition astate := (N * list N)%type.

(* the successors of an instruction with the abstract state on each edge, given depth d >= pops before it.
   `next` is the instruction that follows in the body (needed for the two-way IterationNext) *)
Definition edges (i : instr) (next : option instr) (st : astate) : option (list (N * astate)) :=
  let '(d, ms) := st in
  let after := d - pops i + pushes i in
  let op := iop i in
  if op =? OpReturn then Some []
  else if op =? OpJump then Some [(iarg i, (after, ms))]
  else if op =? OpJumpIfFalse then Some [(iip i + 3, (after, ms)); (iarg i, (after, ms))]
  else if op =? OpIterationReset then
    (* the loop remembers the height of the stack with its iterator on top *)
    Some [(iip i + ilen i, (after, after :: ms))]
  else if op =? OpIterationNext then
    (* IterationNext; JumpIfFalse L: the two names are popped, the stack is cut back to the remembered
       height (if it is higher), and the loop continues with its iterator on top or leaves without it *)
    match next, ms with
    | Some j, k :: ms0 =>
        if iop j =? OpJumpIfFalse then
          let b := N.min (d - 2) k in
          if b =? 0 then None        (* the iterator itself would be cut away *)
          else Some [(iip j + 3, (b, k :: ms0)); (iarg j, (b - 1, ms0))]
        else None
    | _, _ => None
    end
  else Some [(iip i + ilen i, (after, ms))].

Definition ann := list (N * astate).           (* instruction start -> abstract state there *)
Fixpoint ann_get (a : ann) (ip : N) : option astate :=
  match a with [] => None | (k, v) :: a' => if k =? ip then Some v else ann_get a' ip end.
Fixpoint ann_set (a : ann) (ip : N) (d : astate) : ann :=
  match a with
  | [] => [(ip, d)]
  | (k, v) :: a' => if k =? ip then (k, d) :: a' else (k, v) :: ann_set a' ip d
  end.

(* pointwise comparison / minimum of two lists of remembered heights (of equal length) *)
Fixpoint marks_le (bs ms : list N) : bool :=
  match bs, ms with
  | [], [] => true
  | b :: bs', m :: ms' => (b <=? m) && marks_le bs' ms'
  | _, _ => false
  end.
Fixpoint marks_min (bs ms : list N) : list N :=
  match bs, ms with
  | b :: bs', m :: ms' => N.min b m :: marks_min bs' ms'
  | _, _ => []
  end.
Definition state_le (old new : astate) : bool := (fst old <=? fst new) && marks_le (snd old) (snd new).
(* the greatest state below both; loops must nest the same way on both paths (the final check rejects otherwise) *)
Definition state_meet (old new : astate) : astate :=
  (N.min (fst old) (fst new),
   if Nat.eqb (List.length (snd old)) (List.length (snd new)) then marks_min (snd old) (snd new) else snd old).

(* one pass of the data-flow iteration: lower the bounds along every edge *)
Fixpoint flow_pass (is : list instr) (a : ann) (changed : bool) : ann * bool :=
  match is with
  | [] => (a, changed)
  | i :: rest =>
      match ann_get a (iip i) with
      | None => flow_pass rest a changed
      | Some st =>
          if fst st <? pops i then flow_pass rest a changed      (* reported by the final check *)
          else
            match edges i (match rest with j :: _ => Some j | [] => None end) st with
            | None => flow_pass rest a changed
            | Some es =>
                let '(a', ch') := fold_left (fun acc e =>
                                   let '(a0, c0) := acc in
                                   match ann_get a0 (fst e) with
                                   | Some old => if state_le old (snd e) then (a0, c0)
                                                 else let nw := state_meet old (snd e) in
                                                      if state_le old nw then (a0, c0)      (* loops nest differently: left to the check *)
                                                      else (ann_set a0 (fst e) nw, true)
                                   | None => (ann_set a0 (fst e) (snd e), true)
                                   end) es (a, changed) in
                (* the JumpIfFalse that follows an IterationNext never gets an annotation of its own *)
                flow_pass rest a' ch'
            end
      end
  end.

Fixpoint flow (fuel : nat) (is : list instr) (a : ann) : option ann :=
  match fuel with
  | O => None
  | S f => let '(a', ch) := flow_pass is a false in if ch then flow f is a' else Some a'
  end.

(* the final check: the annotation is inductive and every instruction is well formed *)
Fixpoint check (consts : list value) (is all : list instr) (len : N) (a : ann) : vresult :=
  match is with
  | [] => VOk
  | i :: rest =>
      let op := iop i in
      (* structural checks hold for every decoded instruction, reachable or not *)
      if ((op =? OpJump) || (op =? OpJumpIfFalse)) && negb (is_start all (iarg i) && (iarg i <? len)) then VBad (VBadJump (iip i))
      else if (op =? OpConstant) && negb (iarg i <? lenN consts) then VBad (VBadConstant (iip i))
      else if ((op =? OpLookup) || (op =? OpInc) || (op =? OpDec)) &&
              negb (match nthN consts (iarg i) with Some (VStr _) => true | _ => false end) then
        (match nthN consts (iarg i) with None => VBad (VBadConstant (iip i)) | _ => VBad (VNameNotString (iip i)) end)
      else
        match ann_get a (iip i) with
        | None => check consts rest all len a                 (* unreachable code *)
        | Some st =>
            if fst st <? pops i then VBad (VUnderflow (iip i))
            else
              let nexti := match rest with j :: _ => Some j | [] => None end in
              match edges i nexti st with
              | None => VBad (VIterNoJump (iip i))
              | Some es =>
                  if forallb (fun e => match ann_get a (fst e) with
                                       | Some b => state_le b (snd e)
                                       | None => len <=? fst e     (* falling off the end of the main body *)
                                       end) es
                  then check consts rest all len a
                  else VBad (VNotInductive (iip i))
              end
        end
  end.

Definition last_instr (is : list instr) : option instr := last (map Some is) None.

(* verify one body.  Function bodies must not fall off their end. *)
Definition verify_body (consts : list value) (is_function : bool) (code : list N) : vresult :=
  match decode (S (List.length code)) code 0 [] with
  | (VBad r, _) => VBad r
  | (VOk, is) =>
      let len := lenN code in
      match is with
      | [] => if is_function then VBad VFallsOff else VOk
      | _ =>
          if is_function && negb (match last_instr is with
                                   | Some i => (iop i =? OpReturn) || (iop i =? OpJump)
                                   | None => false
                                   end)
          then VBad VFallsOff
          else
            match flow (S (S (4 * List.length is))) is [(0, (0, []))] with
            | None => VBad VNoFixpoint
            | Some a => check consts is is len a
            end
      end
  end.

Definition verify_program (p : program_code) : vresult :=
  match verify_body (pconsts p) false (pmain p) with
  | VBad r => VBad r
  | VOk =>
      (fix go (fs : list (str * ufunc)) : vresult :=
         match fs with
         | [] => VOk
         | (_, f) :: fs' => match verify_body (pconsts p) true (fcode f) with VBad r => VBad r | VOk => go fs' end
         end) (pfuncs p)
  end.

(* Sched.v - goroutines calling Run on one shared evaluator (C11).
   Eval.Run is `mutex.Lock(); out := Execute(obj); mutex.Unlock(); return truth(out)`.
   A thread is the sequence of atomic events  Acquire; Body; Release.
   The scheduler may interleave the events of different threads in any
   order that respects the mutex.  Definitions only. *)
From Coq Require Import List Arith Bool.
Import ListNotations.

Section Sched.
Variable S : Type.            (* the evaluator's state (variables, program, ...) *)
Variable O : Type.            (* the object handed to a run *)
Variable R : Type.            (* a run's outcome *)
Variable run : S -> O -> S * R.    (* one run, executed alone *)

Inductive pc := PStart | PLocked | PDone.    (* before Lock / holding the lock after the body / finished *)

Record thread := mkT { tobj : O; tpc : pc; tres : option R }.

Record world := mkW {
  shared : S;
  holder : option nat;         (* which thread holds the mutex *)
  threads : list thread;
  order : list nat             (* thread ids in the order they acquired the lock *)
}.

Definition upd (l : list thread) (i : nat) (t : thread) : list thread :=
  firstn i l ++ [t] ++ skipn (Datatypes.S i) l.

(* one scheduler step of thread i *)
Definition step (w : world) (i : nat) : option world :=
  match nth_error (threads w) i with
  | None => None
  | Some t =>
      match tpc t with
      | PStart =>
          (* Lock: only when the mutex is free; the body (Execute) then runs while it is held *)
          match holder w with
          | Some _ => None
          | None =>
              let '(s', r) := run (shared w) (tobj t) in
              Some (mkW s' (Some i) (upd (threads w) i (mkT (tobj t) PLocked (Some r))) (order w ++ [i]))
          end
      | PLocked =>
          (* Unlock *)
          match holder w with
          | Some h => if Nat.eqb h i then Some (mkW (shared w) None (upd (threads w) i (mkT (tobj t) PDone (tres t))) (order w))
                      else None
          | None => None
          end
      | PDone => None
      end
  end.

(* a schedule: the thread chosen at every step; invalid choices are not schedules *)
Fixpoint exec_schedule (w : world) (sch : list nat) : option world :=
  match sch with
  | [] => Some w
  | i :: rest => match step w i with Some w' => exec_schedule w' rest | None => None end
  end.

Definition init_world (s : S) (objs : list O) : world :=
  mkW s None (map (fun o => mkT o PStart None) objs) [].

Definition all_done (w : world) : bool :=
  forallb (fun t => match tpc t with PDone => true | _ => false end) (threads w).

(* the sequential history: the runs one after the other in the given order *)
Fixpoint sequential (s : S) (objs : list O) (ord : list nat) : S * list (nat * R) :=
  match ord with
  | [] => (s, [])
  | i :: rest =>
      match nth_error objs i with
      | None => sequential s objs rest
      | Some o => let '(s', r) := run s o in
                  let '(sf, rs) := sequential s' objs rest in (sf, (i, r) :: rs)
      end
  end.

Definition results (w : world) : list (option R) := map tres (threads w).

End Sched.

(* Reflect.v - host values and their conversion to script objects
   (vm.inspectObject / primitiveToObject / createHash / createArrayFromSlice).
   Go's reflect itself is modelled, not verified.  Definitions only. *)
From Coq Require Import Floats.
From EF Require Import Model.Base Gen.Tables Model.Value.
Open Scope N_scope.

(* Kinds of Go values a host may hand to Run.  `bits` = 0 for int/uint. *)
Inductive hostval :=
| HNil                                   (* untyped nil / nil interface *)
| HInt (bits : N) (z : Z)                (* int, int8 .. int64 *)
| HUint (bits : N) (z : Z)               (* uint, uint8 .. uint64 *)
| HFloat (bits : N) (f : float)          (* float32 (already widened), float64 *)
| HString (s : str)
| HBool (b : bool)
| HTime (unix : Z)                       (* time.Time *)
| HSlice (l : list hostval)              (* any slice; elements as dynamic values *)
| HMapIface (l : list (str * hostval))   (* a map with string keys; values as their dynamic values
                                            (what is inside the interface / behind the pointer) *)
| HMapOther (keykind : N) (l : list (hostval * hostval))
                                         (* a map with keys of another kind, given as host values *)
| HStruct (l : list (str * hostval))     (* exported fields in declaration order *)
| HPtr (h : hostval)                     (* non-nil pointer *)
| HNilPtr                                (* typed nil pointer *)
| HIface (h : hostval)                   (* a struct field of interface type holding h *)
| HOther.                                (* chan, func, array, complex, unsafe pointer, ... *)

Inductive conv := CVal (v : value) | CPanic.

(* createArrayFromSlice: only these dynamic element types are kept *)
Definition slice_elem (h : hostval) : option value :=
  match h with
  | HString s => Some (VStr s)
  | HBool b => Some (VBool b)
  | HFloat _ f => Some (VFloat f)
  | HInt bits z => if (bits =? 0) || (bits =? 32) || (bits =? 64) then Some (VInt z) else None
  | HTime u => Some (VInt u)
  | _ => None
  end.

Fixpoint filter_map {A B} (f : A -> option B) (l : list A) : list B :=
  match l with
  | [] => []
  | x :: l' => match f x with Some y => y :: filter_map f l' | None => filter_map f l' end
  end.

Section WithStdlib.
Variable o : stdlib.

(* primitiveToObject on a field / map value.  None = oracle miss (fuel).  `depth` counts the maps we are
   inside: maps nested deeper than the machine's nesting limit are not followed (a Go map can contain
   itself) and read as null. *)
Fixpoint to_object (fuel : nat) (depth : N) (h : hostval) : option conv :=
  match fuel with
  | O => None
  | S f =>
  match h with
  | HNil => Some (CVal VNull)                           (* invalid reflect.Value *)
  | HInt bits z => Some (CVal (if (bits =? 0) || (bits =? 64) then VInt z else VNull))
  | HUint _ _ => Some (CVal VNull)
  | HFloat _ x => Some (CVal (VFloat x))
  | HString s => Some (CVal (VStr s))
  | HBool b => Some (CVal (VBool b))
  | HTime u => Some (CVal (VInt u))
  | HSlice l => Some (CVal (VArray (filter_map slice_elem l)))
  | HMapIface l =>
      if max_call_depth <=? depth then Some (CVal VNull) else
      (fix go (l : list (str * hostval)) (acc : list (value * value)) : option conv :=
         match l with
         | [] => Some (CVal (VHash acc))
         | (k, x) :: l' =>
             match to_object f (depth + 1) x with
             | Some (CVal v) =>
                 match hash_put o acc (2, k) (VStr k) v with
                 | Some acc' => go l' acc'
                 | None => None
                 end
             | Some CPanic => Some CPanic
             | None => None
             end
         end) l []
  | HMapOther _ l =>
      if max_call_depth <=? depth then Some (CVal VNull) else
      (* keys are converted like any value; a key that is not hashable is skipped *)
      (fix go (l : list (hostval * hostval)) (acc : list (value * value)) : option conv :=
         match l with
         | [] => Some (CVal (VHash acc))
         | (k, x) :: l' =>
             match to_object f (depth + 1) k, to_object f (depth + 1) x with
             | Some (CVal kv), Some (CVal v) =>
                 match hash_key o kv with
                 | None => None
                 | Some None => go l' acc
                 | Some (Some hk) => match hash_put o acc hk kv v with
                                     | Some acc' => go l' acc'
                                     | None => None
                                     end
                 end
             | Some CPanic, _ => Some CPanic
             | _, Some CPanic => Some CPanic
             | _, _ => None
             end
         end) l []
  | HStruct _ => Some (CVal VNull)                      (* a struct that is not time.Time *)
  | HPtr _ | HNilPtr | HIface _ | HOther => Some (CVal VNull)
  end
  end.

(* inspectObject: the name -> object table of the value given to Run.
   Some None = the conversion panics (recovered by Execute). *)
Definition host_fields (h : hostval) : option (option (list (str * value))) :=
  let conv_fields (l : list (str * hostval)) :=
    (fix go (l : list (str * hostval)) (acc : list (str * value)) :=
       match l with
       | [] => Some (Some (rev acc))
       | (k, x) :: l' =>
           match to_object (N.to_nat max_call_depth + 8) 0 x with
           | Some (CVal v) => go l' ((k, v) :: acc)
           | Some CPanic => Some None
           | None => None
           end
       end) l [] in
  let of_indirect (h : hostval) :=
    match h with
    | HStruct l => conv_fields l
    | HMapIface l => conv_fields l
    | HMapOther _ _ => Some (Some [])                   (* keys that are not strings name nothing *)
    | _ => Some None                                    (* NumField panics: not a struct *)
    end in
  match h with
  | HNil => Some (Some [])                              (* obj == nil: nothing to inspect *)
  | HPtr h' => of_indirect h'
  | HNilPtr => Some None
  | _ => of_indirect h
  end.

(* later entries of a map win over earlier ones with the same name (there are none in a Go map);
   struct field names are unique *)
Fixpoint field_get (name : str) (l : list (str * value)) : option value :=
  match l with
  | [] => None
  | (n, v) :: l' => if str_eqb n name then Some v else field_get name l'
  end.

End WithStdlib.

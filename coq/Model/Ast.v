(* Ast.v - the syntax tree (ast/*.go) of the model.  Definitions only. *)
From Coq Require Import Floats.
From EF Require Import Model.Base Model.Lexer.
Open Scope N_scope.

Inductive expr :=
| EInt (text : str) (v : Z)
| EFloat (text : str) (f : float)
| EStr (s : str)
| EBool (b : bool)
| ERegexp (val flags : str)
| EIdent (name : str)
| EPrefix (op : tokty) (r : expr)
| EInfix (op : tokty) (l r : expr)
| EPostfix (name : str) (op : tokty)          (* literal of the token before ++/-- *)
| ETernary (c t f : expr)
| EArray (l : list expr)
| EHash (l : list (expr * expr))               (* pairs in source order *)
| EIndex (l i : expr)
| ECall (f : expr) (args : list expr)
| EAssign (name : str) (v : expr)
| ELocal (name : str)
| EIf (c : expr) (cons : list stmt) (alt : option (list stmt))
| EWhile (c : expr) (body : list stmt)
| EForeach (idx : str) (ident : str) (v : expr) (body : list stmt)   (* idx = [] when absent *)
| EFunction (name : str) (params : list str) (body : list stmt)
| ESwitch (v : expr) (choices : list (bool * list expr * list stmt))   (* (is_default, case exprs, block) *)
with stmt :=
| SReturn (e : expr)
| SExpr (e : expr).

Definition program := list stmt.

(* ast String() where the model needs it (call names, `.` keys, hash-literal
   sort keys): defined for the simple forms, None elsewhere (case dropped). *)
Definition escape_str (s : str) : str :=
  flat_map (fun c => if c =? 10 then [92; 110] else if c =? 13 then [92; 114]
                     else if c =? 9 then [92; 116] else [c]) s.

Fixpoint estr (fuel : nat) (e : expr) : option str :=
  match fuel with
  | O => None
  | S f =>
  match e with
  | EInt t _ => Some t
  | EFloat t _ => Some t
  | EStr s => Some (escape_str ([34] ++ s ++ [34]))
  | EBool b => Some (if b then L "true" else L "false")
  | EIdent n => Some n
  | ERegexp v fl => Some ([47] ++ v ++ [47] ++ fl)
  | EPrefix op r =>
      match estr f r with Some s => Some ([40] ++ tokty_name op ++ s ++ [41]) | None => None end
  | EInfix op l r =>
      match estr f l, estr f r with
      | Some a, Some b => Some ([40] ++ a ++ [32] ++ (match op with TIn => L "in" | _ => tokty_name op end) ++ [32] ++ b ++ [41])
      | _, _ => None
      end
  | EPostfix n op => Some ([40] ++ n ++ tokty_name op ++ [41])
  | EIndex l i =>
      match estr f l, estr f i with
      | Some a, Some b => Some ([40] ++ a ++ [91] ++ b ++ [93; 41])
      | _, _ => None
      end
  | ETernary c t e' =>
      match estr f c, estr f t, estr f e' with
      | Some a, Some b, Some d => Some ([40] ++ a ++ L " ? " ++ b ++ L " : " ++ d ++ [41])
      | _, _, _ => None
      end
  | ECall fn args =>
      match estr f fn with
      | None => None
      | Some a =>
          (fix go (l : list expr) (acc : list str) : option str :=
             match l with
             | [] => Some (a ++ [40] ++ join (L ", ") (rev acc) ++ [41])
             | x :: l' => match estr f x with Some s => go l' (s :: acc) | None => None end
             end) args []
      end
  | EAssign n v => match estr f v with Some s => Some (n ++ [61] ++ s) | None => None end
  | EArray l =>
      (fix go (l : list expr) (acc : list str) : option str :=
         match l with
         | [] => Some ([91] ++ join (L ", ") (rev acc) ++ L "];" ++ [10])
         | x :: l' => match estr f x with Some s => go l' (s :: acc) | None => None end
         end) l []
  | _ => None
  end
  end.

Fixpoint expr_size (e : expr) : nat :=
  (match e with
  | EPrefix _ r => S (expr_size r)
  | EInfix _ l r => S (expr_size l + expr_size r)
  | ETernary c t f => S (expr_size c + expr_size t + expr_size f)
  | EArray l => S (fold_right (fun x a => expr_size x + a) 0 l)
  | EHash l => S (fold_right (fun x a => expr_size (fst x) + expr_size (snd x) + a) 0 l)
  | EIndex l i => S (expr_size l + expr_size i)
  | ECall f args => S (expr_size f + fold_right (fun x a => expr_size x + a) 0 args)
  | EAssign _ v => S (expr_size v)
  | _ => 1
  end)%nat.

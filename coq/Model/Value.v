(* Value.v - the objects of the scripting language (object/*.go).
   Values are immutable and carry no identity (see DESIGN 4.1).
   Definitions only. *)
From Coq Require Import Floats Uint63.
From EF Require Import Model.Base.
Open Scope N_scope.

(* Go standard-library behaviour that is not evalfilter's own logic.
   None = "unknown to the oracle" (the case is dropped, never judged). *)
Record stdlib := mkStdlib {
  fmt_float   : float -> option str;              (* strconv.FormatFloat(f,'f',-1,64) *)
  parse_float : str -> option (option float);     (* strconv.ParseFloat(s,64); Some None = error *)
  pow_float   : float -> float -> option float;   (* math.Pow *)
  re_match    : str -> str -> option (option bool);  (* regexp.Compile(p) / MatchString(s); Some None = invalid pattern *)
  re_replace  : str -> str -> str -> option (option str); (* ReplaceAll; Some None = invalid pattern *)
  to_lower    : str -> option str;                (* strings.ToLower *)
  to_upper    : str -> option str;
  trim_space  : str -> option str;                (* strings.TrimSpace *)
  sprintf     : str -> list (N * str) -> option str;  (* fmt.Sprintf on (kind, printed) arguments *)
  getenv      : str -> option str;
  tz_fields   : Z -> option (list Z * str)        (* [h;m;s;day;month;year], weekday name in $TZ *)
}.

Inductive value :=
| VInt (z : Z)
| VFloat (f : float)
| VStr (s : str)
| VBool (b : bool)
| VNull
| VVoid
| VRegexp (s : str)
| VArray (l : list value)
| VHash (l : list (value * value))             (* (key object, value); keys pairwise distinct by hash_key *)
| VIter (v : value) (off : N).                  (* machine-internal: a private copy being iterated *)

Inductive vtype := TyInt | TyFloat | TyStr | TyBool | TyNull | TyVoid | TyRegexp | TyArray | TyHash.
Scheme Equality for vtype.

Fixpoint type_of (v : value) : vtype :=
  match v with
  | VInt _ => TyInt | VFloat _ => TyFloat | VStr _ => TyStr | VBool _ => TyBool
  | VNull => TyNull | VVoid => TyVoid | VRegexp _ => TyRegexp | VArray _ => TyArray
  | VHash _ => TyHash | VIter v _ => type_of v
  end.

Definition type_name (t : vtype) : str :=
  match t with
  | TyInt => L "INTEGER" | TyFloat => L "FLOAT" | TyStr => L "STRING" | TyBool => L "BOOLEAN"
  | TyNull => L "NULL" | TyVoid => L "VOID" | TyRegexp => L "REGEXP" | TyArray => L "ARRAY"
  | TyHash => L "HASH"
  end.

(* floats *)
Definition f_zero : float := 0%float.
Definition two63f : float := 9223372036854775808%float.
Definition float_of_Z (z : Z) : float :=
  (if (z =? - two63)%Z then PrimFloat.opp two63f
   else if (z <? 0)%Z then PrimFloat.opp (PrimFloat.of_uint63 (Uint63.of_Z (- z)))
   else PrimFloat.of_uint63 (Uint63.of_Z z)).

(* int(f) for finite f of moderate size; None otherwise (platform-defined in Go) *)
Definition Z_of_float (f : float) : option Z :=
  match Prim2SF f with
  | S754_zero _ => Some 0%Z
  | S754_finite s m e =>
      let mag := if (0 <=? e)%Z then (Zpos m * 2 ^ e)%Z else (Zpos m / 2 ^ (- e))%Z in
      if (mag <? 2 ^ 62)%Z then Some (if s then (- mag)%Z else mag) else None
  | _ => None
  end.

Definition f_gt0 (f : float) : bool := PrimFloat.ltb f_zero f.

(* True() of every type *)
Fixpoint truthy (v : value) : bool :=
  match v with
  | VInt z => (0 <? z)%Z
  | VFloat f => f_gt0 f
  | VStr s => match s with [] => false | _ => true end
  | VBool b => b
  | VNull => false
  | VVoid => false
  | VRegexp s => match s with [] => false | _ => true end
  | VArray l => match l with [] => false | _ => true end
  | VHash l => match l with [] => false | _ => true end
  | VIter v _ => truthy v
  end.

Section WithStdlib.
Variable o : stdlib.

Fixpoint sort_insert {A} (lt : A -> A -> bool) (x : A) (l : list A) : list A :=
  match l with
  | [] => [x]
  | y :: l' => if lt x y then x :: l else y :: sort_insert lt x l'
  end.
(* stable insertion sort *)
Definition sort_by {A} (lt : A -> A -> bool) (l : list A) : list A :=
  fold_right (fun x acc => sort_insert (fun a b => negb (lt b a)) x acc) [] l.

Fixpoint opt_map {A B} (f : A -> option B) (l : list A) : option (list B) :=
  match l with
  | [] => Some []
  | x :: l' => match f x, opt_map f l' with
               | Some y, Some ys => Some (y :: ys)
               | _, _ => None
               end
  end.

(* Entries(): pairs sorted by the printed key, ties broken by type name *)
Definition key_lt (a b : str * vtype) : bool :=
  if str_eqb (fst a) (fst b) then str_ltb (type_name (snd a)) (type_name (snd b))
  else str_ltb (fst a) (fst b).

(* Inspect() *)
Fixpoint inspect (v : value) : option str :=
  match v with
  | VInt z => Some (z_to_str z)
  | VFloat f => fmt_float o f
  | VStr s => Some s
  | VBool b => Some (if b then L "true" else L "false")
  | VNull => Some (L "null")
  | VVoid => Some (L "void")
  | VRegexp s => Some s
  | VArray l =>
      match (fix go (l : list value) : option (list str) :=
               match l with
               | [] => Some []
               | x :: l' => match inspect x, go l' with
                            | Some a, Some r => Some (a :: r)
                            | _, _ => None
                            end
               end) l with
      | Some ss => Some ([91] ++ join (L ", ") ss ++ [93])
      | None => None
      end
  | VHash l =>
      match (fix go (l : list (value * value)) : option (list (str * vtype * str)) :=
               match l with
               | [] => Some []
               | (k, x) :: l' =>
                   match inspect k, inspect x, go l' with
                   | Some a, Some b, Some r => Some ((a, type_of k, a ++ L ": " ++ b) :: r)
                   | _, _, _ => None
                   end
               end) l with
      | Some es =>
          let sorted := sort_by (fun a b => key_lt (fst a) (fst b)) es in
          Some ([123] ++ join (L ", ") (map snd sorted) ++ [125])
      | None => None
      end
  | VIter v _ => inspect v
  end.

(* the entries of a hash in iteration order: (key object, value) *)
Definition hash_entries (l : list (value * value)) : option (list (value * value)) :=
  match opt_map (fun kx =>
           match inspect (fst kx) with Some a => Some ((a, type_of (fst kx)), kx) | None => None end) l with
  | Some es => Some (map snd (sort_by (fun a b => key_lt (fst a) (fst b)) es))
  | None => None
  end.

(* HashKey(): integers by value (mod 2^64), floats and strings by printed form
   (FNV-1a of it in the code; treated as injective).
   None = oracle miss; Some None = not hashable *)
Definition hash_key (v : value) : option (option (N * str)) :=
  match v with
  | VInt z => Some (Some (0, z_to_str (z mod two64)%Z))
  | VFloat f => match fmt_float o f with Some s => Some (Some (1, s)) | None => None end
  | VStr s => Some (Some (2, s))
  | _ => Some None
  end.

Definition hk_eqb (a b : N * str) : bool := (fst a =? fst b) && str_eqb (snd a) (snd b).

(* keys already in a hash are hashable *)
Definition key_matches (k : value) (hk : N * str) : option bool :=
  match hash_key k with
  | Some (Some hk') => Some (hk_eqb hk' hk)
  | Some None => Some false
  | None => None
  end.

Fixpoint hash_put (l : list (value * value)) (hk : N * str) (k x : value) : option (list (value * value)) :=
  match l with
  | [] => Some [(k, x)]
  | (k', x') :: l' =>
      match key_matches k' hk with
      | None => None
      | Some true => Some ((k, x) :: l')
      | Some false => match hash_put l' hk k x with Some r => Some ((k', x') :: r) | None => None end
      end
  end.

Fixpoint hash_get (l : list (value * value)) (hk : N * str) : option (option value) :=
  match l with
  | [] => Some None
  | (k', x') :: l' =>
      match key_matches k' hk with
      | None => None
      | Some true => Some (Some x')
      | Some false => hash_get l' hk
      end
  end.

(* same type and same printed form (used by `in`, switch cases, constant pool) *)
Definition same_printed (a b : value) : option bool :=
  if vtype_beq (type_of a) (type_of b) then
    match inspect a, inspect b with
    | Some x, Some y => Some (str_eqb x y)
    | _, _ => None
    end
  else Some false.

(* the same type and the same value (used by `in` and by switch cases): simple values by their printed
   form, arrays and hashes member by member - their printed form does not tell a string from the value
   it spells (`[1, 2]` and `["1, 2"]` print alike; D40) *)
Fixpoint same_value (a b : value) {struct a} : option bool :=
  match a, b with
  | VArray l, VArray l' =>
      if lenN l =? lenN l' then
        (fix go (l l' : list value) {struct l} : option bool :=
           match l, l' with
           | [], [] => Some true
           | x :: r, y :: r' => match same_value x y with
                                | Some true => go r r'
                                | other => other
                                end
           | _, _ => Some false
           end) l l'
      else Some false
  | VHash ps, VHash ps' =>
      if lenN ps =? lenN ps' then
        (fix goh (ps : list (value * value)) : option bool :=
           match ps with
           | [] => Some true
           | (k, x) :: r =>
               match hash_key k with
               | Some (Some hk) =>
                   match hash_get ps' hk with
                   | Some (Some y) => match same_value x y with
                                      | Some true => goh r
                                      | other => other
                                      end
                   | Some None => Some false
                   | None => None
                   end
               | Some None => Some false
               | None => None
               end
           end) ps
      else Some false
  | _, _ => same_printed a b
  end.

End WithStdlib.

(* Api.v - the public API of an evaluator (evalfilter.go) as a state machine
   over histories of operations.  Definitions only. *)
From Coq Require Import Floats.
From EF Require Import Model.Base Gen.Tables Model.Lexer Model.Ast Model.Parser Model.Code Model.Value
                       Model.Env Model.Reflect Model.Builtins Model.Compiler Model.Optimizer Model.VM Spec.Moded.
Open Scope N_scope.

Record machine := mkMachine {
  mprog : program_code;        (* as the machine will run it (optimised or not) *)
  mctx : option N              (* the context captured by Prepare: remaining polls *)
}.

Record eval := mkEval {
  escript : str;
  efns : fnmap;
  eenv : env;                  (* variables persist across runs *)
  ectx : option N;             (* the context set with SetContext *)
  emachine : option machine
}.

Inductive op :=
| OSetVar (name : str) (v : value)
| OAddFn (name : str) (k : hostkind)
| OCtx (d : option N)
| OPrepare (optimize : bool)
| ORun (obj : hostval)
| OExec (obj : hostval)
| OGetVar (name : str)
| ODump.

Inductive rclass := ROk | RScriptError | RInternalError | RTimeout | RPanicRecovered | RCrash.

Inductive opres :=
| RPrepared (ok : bool) (unopt : option program_code) (prog : option program_code)
| RExec (c : rclass) (v : value) (tr : list call) (vars : scope) (nscopes : nat) (residue : nat)
| RRun (c : rclass) (b : bool) (tr : list call) (vars : scope) (nscopes : nat) (residue : nat)
| RGet (v : value)
| RUnit
| RCrashed                      (* a panic escapes to the caller *)
| RNeed                         (* outside the model: the rest of the case is dropped *)
| RFuel.

Definition new_eval (script : str) : eval :=
  mkEval script initial_fnmap (mkEnv [] []) None None.

Section WithStdlib.
Variable o : stdlib.
Variable run_fuel : nat.

Inductive prep := PrepOk (unopt prog : program_code) | PrepReject | PrepNeed | PrepFuel.

Definition optimize_var : str := L "OPTIMIZE".

Definition prepare (e : eval) (optimize : bool) : prep * eval :=
  match parse_script (parse_float o) max_depth (escript e) with
  | ParseReject => (PrepReject, e)
  | ParseNeed => (PrepNeed, e)
  | ParseFuel => (PrepFuel, e)
  | ParseOk ast =>
      match compile_program (4 * List.length (escript e) + 40) ast with
      | CompReject => (PrepReject, e)
      | CompNeed => (PrepNeed, e)
      | CompFuel => (PrepFuel, e)
      | CompOk pc =>
          (* constructs that leave no value may only be used as statements (evalfilter.go: checkModes) *)
          if negb (well_moded ast) then (PrepReject, e) else
          (* NoOptimize also removes the switch an earlier Prepare may have left in the variables *)
          let env1 := if optimize then env_set (eenv e) optimize_var (VBool true) else env_unset (eenv e) optimize_var in
          let do_opt := match env_get env1 optimize_var with Some _ => true | None => false end in
          match (if do_opt then optimize_program pc else Some pc) with
          | None => (PrepNeed, e)
          | Some prog =>
              (PrepOk pc prog,
               mkEval (escript e) (efns e) env1 (ectx e) (Some (mkMachine prog (ectx e))))
          end
      end
  end.

Definition class_of (x : errclass) : option rclass :=
  match x with
  | EScript => Some RScriptError
  | EInternal => Some RInternalError
  | ETimeout => Some RTimeout
  | EPanic => Some RPanicRecovered
  | ECrash => Some RCrash
  | EPrepare => Some RScriptError
  | ENeedOracle => None
  | EFuel => None
  end.

(* Execute *)
Definition execute (e : eval) (obj : hostval) : opres * eval :=
  match emachine e with
  | None => (RExec RPanicRecovered VNull [] (globals (eenv e)) (env_depth (eenv e)) 0, e)   (* nil machine *)
  | Some mc =>
      let p := mprog mc in
      let m0 := mkM [] (eenv e) [] (mctx mc) in
      let '(out, m1) := run_main o (pconsts p) (pfuncs p) (efns e) obj run_fuel (pmain p) m0 in
      let e1 := mkEval (escript e) (efns e) (menv m1) (ectx e) (Some (mkMachine p (polls m1))) in
      let fin c v := RExec c v (rev (trace m1)) (globals (menv m1)) (env_depth (menv m1)) (List.length (stk m1)) in
      match out with
      | ODone v => (fin ROk v, e1)
      | OErr ENeedOracle => (RNeed, e1)
      | OErr EFuel => (RFuel, e1)
      | OErr x => (match class_of x with Some c => fin c VNull | None => RNeed end, e1)
      end
  end.

Definition step (e : eval) (x : op) : opres * eval :=
  match x with
  | OSetVar name v => (RUnit, mkEval (escript e) (efns e) (env_set (eenv e) (trim_dollar name) v) (ectx e) (emachine e))
  | OAddFn name k => (RUnit, mkEval (escript e) (fn_set name (FHost k) (efns e)) (eenv e) (ectx e) (emachine e))
  | OCtx d => (RUnit, mkEval (escript e) (efns e) (eenv e) d (emachine e))
  | OPrepare optimize =>
      match prepare e optimize with
      | (PrepOk u p, e') => (RPrepared true (Some u) (Some p), e')
      | (PrepReject, e') => (RPrepared false None None, e')
      | (PrepNeed, e') => (RNeed, e')
      | (PrepFuel, e') => (RFuel, e')
      end
  | OExec obj => execute e obj
  | ORun obj =>
      match execute e obj with
      | (RExec c v tr vars ns rs, e') =>
          (* Run: the truth value of what Execute returns; false with the error *)
          (RRun c (match c with ROk => truthy v | _ => false end) tr vars ns rs, e')
      | r => r
      end
  | OGetVar name => (RGet (match env_get (eenv e) (trim_dollar name) with Some v => v | None => VNull end), e)
  | ODump => (RUnit, e)       (* prints; an error (not a panic) when nothing was prepared *)
  end.

(* a history: the results of all operations, in order *)
Fixpoint run_history (e : eval) (ops : list op) : list opres :=
  match ops with
  | [] => []
  | x :: ops' =>
      let '(r, e') := step e x in
      match r with
      | RNeed | RFuel => [r]
      | _ => r :: run_history e' ops'
      end
  end.

End WithStdlib.

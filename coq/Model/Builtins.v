(* Builtins.v - the built-in functions (environment/builtins.go).
   Standard-library behaviour enters through the oracle record.
   Definitions only. *)
From Coq Require Import Floats.
From EF Require Import Model.Base Gen.Tables Model.Value.
Open Scope N_scope.

Inductive bres := BVal (v : value) | BPanic | BNeed.

Section WithStdlib.
Variable o : stdlib.

Definition insp (v : value) (k : str -> bres) : bres :=
  match inspect o v with Some s => k s | None => BNeed end.

Definition is_number (v : value) : bool :=
  match v with VInt _ | VFloat _ => true | _ => false end.

(* numericLess: two integers as integers, anything else as floats - as `<` does *)
Definition numeric_less (a b : value) : bool :=
  match a, b with
  | VInt x, VInt y => (x <? y)%Z
  | VInt x, VFloat y => PrimFloat.ltb (float_of_Z x) y
  | VFloat x, VInt y => PrimFloat.ltb x (float_of_Z y)
  | VFloat x, VFloat y => PrimFloat.ltb x y
  | _, _ => false
  end.

(* the same for <= (a NaN is at most nothing and nothing is at most a NaN) *)
Definition numeric_le (a b : value) : bool :=
  match a, b with
  | VInt x, VInt y => (x <=? y)%Z
  | VInt x, VFloat y => PrimFloat.leb (float_of_Z x) y
  | VFloat x, VInt y => PrimFloat.leb x (float_of_Z y)
  | VFloat x, VFloat y => PrimFloat.leb x y
  | _, _ => false
  end.

(* unicode.IsSpace *)
Definition is_space (c : N) : bool :=
  is_space_ascii c || (c =? 133) || (c =? 160) || (c =? 5760) ||
  ((8192 <=? c) && (c <=? 8202)) || (c =? 8232) || (c =? 8233) || (c =? 8239) ||
  (c =? 8287) || (c =? 12288).
Fixpoint drop_space (s : str) : str :=
  match s with c :: s' => if is_space c then drop_space s' else s | [] => [] end.
Definition trim_space_m (s : str) : str := rev (drop_space (rev (drop_space s))).

Definition lower_m (s : str) : option str :=
  if all_ascii s then Some (map lower_c s) else to_lower o s.
Definition upper_m (s : str) : option str :=
  if all_ascii s then Some (map upper_c s) else to_upper o s.

(* strings.Split *)
Fixpoint split_go (fuel : nat) (s sep cur : str) : list str :=
  match fuel with
  | O => [rev cur ++ s]
  | S f =>
      match s with
      | [] => [rev cur]
      | c :: s' =>
          if is_prefix sep s then rev cur :: split_go f (skipn (List.length sep) s) sep []
          else split_go f s' sep (c :: cur)
      end
  end.
Definition split_m (s sep : str) : list str :=
  match sep with
  | [] => map (fun c => [c]) s
  | _ => split_go (S (List.length s)) s sep []
  end.

Definition split_lines (s : str) : list str := split_m s [10].

(* the `match` built-in: any line, trimmed, matches *)
Definition match_m (args : list value) : bres :=
  match args with
  | [a; b] =>
      insp a (fun s => insp b (fun re =>
        (fix go (ls : list str) : bres :=
           match ls with
           | [] => BVal (VBool false)
           | l :: ls' =>
               match re_match o re (trim_space_m l) with
               | None => BNeed
               | Some None => BVal (VBool false)          (* pattern does not compile *)
               | Some (Some true) => BVal (VBool true)
               | Some (Some false) => go ls'
               end
           end) (split_lines s)))
  | _ => BVal (VBool false)
  end.

(* sortHelper: stable insertion order on the printed forms (sort.Slice is an
   insertion sort below 12 elements; longer arrays with equal keys are not generated) *)
Definition sort_m (l : list value) (lower rev_order : bool) : bres :=
  match opt_map (fun v => match inspect o v with
                          | Some s => match (if lower then lower_m s else Some s) with
                                      | Some k => Some (k, v)
                                      | None => None
                                      end
                          | None => None
                          end) l with
  | None => BNeed
  | Some ks =>
      let lt := if rev_order then (fun a b : str * value => str_ltb (fst b) (fst a))
                else (fun a b : str * value => str_ltb (fst a) (fst b)) in
      BVal (VArray (map snd (sort_by lt ks)))
  end.

(* civil time in UTC from Unix seconds (proleptic Gregorian) *)
Open Scope Z_scope.
Definition civil_from_days (z0 : Z) : Z * Z * Z :=
  let z := z0 + 719468 in
  let era := z / 146097 in          (* Z.div floors *)
  let doe := z - era * 146097 in
  let yoe := (doe - doe / 1460 + doe / 36524 - doe / 146096) / 365 in
  let y := yoe + era * 400 in
  let doy := doe - (365 * yoe + yoe / 4 - yoe / 100) in
  let mp := (5 * doy + 2) / 153 in
  let d := doy - (153 * mp + 2) / 5 + 1 in
  let m := if mp <? 10 then mp + 3 else mp - 9 in
  ((if m <=? 2 then y + 1 else y), m, d).
Definition weekday_name (days : Z) : str :=
  match (days + 4) mod 7 with
  | 0 => L "Sunday" | 1 => L "Monday" | 2 => L "Tuesday" | 3 => L "Wednesday"
  | 4 => L "Thursday" | 5 => L "Friday" | _ => L "Saturday"
  end.
(* [hour; minute; second; day; month; year], weekday *)
Definition utc_fields (t : Z) : list Z * str :=
  let days := t / 86400 in          (* floor division *)
  let secs := t mod 86400 in
  let '(y, m, d) := civil_from_days days in
  ([secs / 3600; (secs mod 3600) / 60; secs mod 60; d; m; y], weekday_name days).
Close Scope Z_scope.

Definition time_field (args : list value) (which : nat) : bres :=
  match args with
  | [VInt t] =>
      match tz_fields o t with
      | None => BNeed
      | Some (fs, wd) =>
          if Nat.eqb which 6 then BVal (VStr wd)
          else match nth_opt fs which with Some z => BVal (VInt z) | None => BNeed end
      end
  | _ => BVal VNull
  end.

Definition min_max (args : list value) (want_max : bool) : bres :=
  match args with
  | [a; b] =>
      if is_number a && is_number b then
        if want_max then BVal (if numeric_less a b then b else a)
        else BVal (if numeric_less b a then b else a)
      else
        insp a (fun ka => insp b (fun kb =>
          (* two-element insertion sort on the printed forms *)
          let swapped := str_ltb kb ka in
          if want_max then BVal (if swapped then a else b)
          else BVal (if swapped then b else a)))
  | _ => BVal VNull
  end.

Definition count_percent (s : str) : bool := memN 37 s.

Definition is_name (name : str) (s : string) : bool := str_eqb name (L s).

(* call the built-in of the given name; None = no such built-in in the model *)
Definition call_builtin (name : str) (args : list value) : option bres :=
  if is_name name "between" then Some
    match args with
    | [v; lo; hi] =>
        if is_number v && is_number lo && is_number hi
        then BVal (VBool (numeric_le lo v && numeric_le v hi))
        else BVal VNull
    | _ => BVal VNull
    end
  else if is_name name "float" then Some
    match args with
    | [a] => insp a (fun s => match parse_float o s with
                              | None => BNeed
                              | Some None => BVal VNull
                              | Some (Some f) => BVal (VFloat f)
                              end)
    | _ => BVal VNull
    end
  else if is_name name "getenv" then Some
    match args with
    | [a] => insp a (fun s => match getenv o s with Some v => BVal (VStr v) | None => BNeed end)
    | _ => BVal VNull
    end
  else if is_name name "int" then Some
    match args with
    | [a] => insp a (fun s => match parse_int s with Some z => BVal (VInt z) | None => BVal VNull end)
    | _ => BVal VNull
    end
  else if is_name name "join" then Some
    match args with
    | [VArray l; VStr sep] =>
        match opt_map (inspect o) l with
        | Some ss => BVal (VStr (join sep ss))
        | None => BNeed
        end
    | [_; _] => BVal VNull
    | _ => BVal VNull
    end
  else if is_name name "keys" then Some
    match args with
    | [VHash l] => match hash_entries o l with
                   | Some es => BVal (VArray (map fst es))
                   | None => BNeed
                   end
    | _ => BVal VNull
    end
  else if is_name name "len" then Some
    match args with
    | [VArray l] => BVal (VInt (Z.of_nat (List.length l)))
    | [VHash l] => BVal (VInt (Z.of_nat (List.length l)))
    | [a] => insp a (fun s => BVal (VInt (Z.of_nat (List.length s))))
    | _ => BVal VNull
    end
  else if is_name name "lower" then Some
    match args with
    | [a] => insp a (fun s => match lower_m s with Some r => BVal (VStr r) | None => BNeed end)
    | _ => BVal VNull
    end
  else if is_name name "upper" then Some
    match args with
    | [a] => insp a (fun s => match upper_m s with Some r => BVal (VStr r) | None => BNeed end)
    | _ => BVal VNull
    end
  else if is_name name "match" then Some (match_m args)
  else if is_name name "max" then Some (min_max args true)
  else if is_name name "min" then Some (min_max args false)
  else if is_name name "now" || is_name name "time" then Some BNeed
  else if is_name name "panic" then Some BPanic
  else if is_name name "print" then Some (BVal VVoid)
  else if is_name name "printf" then Some (BVal VVoid)
  else if is_name name "replace" then Some
    match args with
    | [a; b; c] =>
        insp a (fun s => insp b (fun re => insp c (fun rp =>
          match re_replace o s re rp with
          | None => BNeed
          | Some None => BVal (VBool false)
          | Some (Some r) => BVal (VStr r)
          end)))
    | _ => BVal VNull
    end
  else if is_name name "reverse" || is_name name "sort" then Some
    match args with
    | [VArray l] => sort_m l false (is_name name "reverse")
    | [VArray l; VBool b] => sort_m l b (is_name name "reverse")
    | _ => BVal VNull
    end
  else if is_name name "split" then Some
    match args with
    | [VStr s; VStr sep] => BVal (VArray (map VStr (split_m s sep)))
    | _ => BVal VNull
    end
  else if is_name name "sprintf" then Some
    match args with
    | VStr fs :: rest =>
        match rest with
        | [] => if count_percent fs then BNeed else BVal (VStr fs)
        | _ => BNeed
        end
    | _ => BVal VNull
    end
  else if is_name name "string" then Some
    match args with
    | [a] => insp a (fun s => BVal (VStr s))
    | _ => BVal VNull
    end
  else if is_name name "trim" then Some
    match args with
    | [a] => insp a (fun s => BVal (VStr (trim_space_m s)))
    | _ => BVal VNull
    end
  else if is_name name "type" then Some
    match args with
    | [a] => BVal (VStr (map lower_c (type_name (type_of a))))
    | _ => BVal VNull
    end
  else if is_name name "hour" then Some (time_field args 0)
  else if is_name name "minute" then Some (time_field args 1)
  else if is_name name "seconds" then Some (time_field args 2)
  else if is_name name "day" then Some (time_field args 3)
  else if is_name name "month" then Some (time_field args 4)
  else if is_name name "year" then Some (time_field args 5)
  else if is_name name "weekday" then Some (time_field args 6)
  else None.

End WithStdlib.

(* Code.v - byte-code: opcode numbering and lengths come from the code
   (Gen.Tables.op_table, a complete dump of code.String / code.Length).
   Definitions only. *)
From EF Require Import Model.Base Gen.Tables Model.Lexer.
Open Scope N_scope.

(* the byte of the opcode with the given name *)
Fixpoint opc_find (name : str) (l : list (N * str * N)) : N :=
  match l with
  | [] => 255
  | (b, n, _) :: l' => if str_eqb n name then b else opc_find name l'
  end.
Definition opc (name : string) : N := opc_find (L name) op_table.

Fixpoint op_len_find (b : N) (l : list (N * str * N)) : N :=
  match l with
  | [] => 1
  | (b', _, len) :: l' => if b =? b' then len else op_len_find b l'
  end.
Definition op_len (b : N) : N := op_len_find b op_table.

Fixpoint op_name_find (b : N) (l : list (N * str * N)) : str :=
  match l with
  | [] => L "OpUnknown"
  | (b', n, _) :: l' => if b =? b' then n else op_name_find b l'
  end.
Definition op_name (b : N) : str := op_name_find b op_table.

Definition OpConstant := opc "OpConstant".
Definition OpJump := opc "OpJump".
Definition OpJumpIfFalse := opc "OpJumpIfFalse".
Definition OpCall := opc "OpCall".
Definition OpLookup := opc "OpLookup".
Definition OpPush := opc "OpPush".
Definition OpArray := opc "OpArray".
Definition OpHash := opc "OpHash".
Definition OpNop := opc "OpNop".
Definition OpPlaceholder := opc "OpPlaceholder".
Definition OpSet := opc "OpSet".
Definition OpLocal := opc "OpLocal".
Definition OpTrue := opc "OpTrue".
Definition OpFalse := opc "OpFalse".
Definition OpVoid := opc "OpVoid".
Definition OpCase := opc "OpCase".
Definition OpAdd := opc "OpAdd".
Definition OpSub := opc "OpSub".
Definition OpMul := opc "OpMul".
Definition OpDiv := opc "OpDiv".
Definition OpMod := opc "OpMod".
Definition OpPower := opc "OpPower".
Definition OpInc := opc "OpInc".
Definition OpDec := opc "OpDec".
Definition OpReturn := opc "OpReturn".
Definition OpMinus := opc "OpMinus".
Definition OpBang := opc "OpBang".
Definition OpSquareRoot := opc "OpSquareRoot".
Definition OpLess := opc "OpLess".
Definition OpLessEqual := opc "OpLessEqual".
Definition OpGreater := opc "OpGreater".
Definition OpGreaterEqual := opc "OpGreaterEqual".
Definition OpEqual := opc "OpEqual".
Definition OpNotEqual := opc "OpNotEqual".
Definition OpMatches := opc "OpMatches".
Definition OpNotMatches := opc "OpNotMatches".
Definition OpAnd := opc "OpAnd".
Definition OpOr := opc "OpOr".
Definition OpIndex := opc "OpIndex".
Definition OpArrayIn := opc "OpArrayIn".
Definition OpIterationReset := opc "OpIterationReset".
Definition OpIterationNext := opc "OpIterationNext".
Definition OpRange := opc "OpRange".

(* big-endian 16-bit operand; emit/changeOperand truncate to 16 bits *)
Definition hi_byte (n : N) : N := (n mod 65536) / 256.
Definition lo_byte (n : N) : N := n mod 256.

Definition byte_at (code : list N) (ip : N) : option N := nthN code ip.
Definition operand_at (code : list N) (ip : N) : option N :=
  match nthN code (ip + 1), nthN code (ip + 2) with
  | Some h, Some l => Some (h * 256 + l)
  | _, _ => None
  end.

(* Base.v - shared definitions of the executable evalfilter model.
   Definitions only (no proofs), stdlib only. *)
From Coq Require Export List NArith ZArith Bool Ascii String.
Export ListNotations.
Open Scope N_scope.

(* A string of the scripting language: its Unicode code points. *)
Definition str := list N.

Definition L (s : string) : str := map N_of_ascii (list_ascii_of_string s).

Fixpoint str_eqb (a b : str) : bool :=
  match a, b with
  | [], [] => true
  | x :: a', y :: b' => (x =? y) && str_eqb a' b'
  | _, _ => false
  end.

(* Lexicographic order on code points (= byte order of valid UTF-8). *)
Fixpoint str_ltb (a b : str) : bool :=
  match a, b with
  | [], [] => false
  | [], _ :: _ => true
  | _ :: _, [] => false
  | x :: a', y :: b' => if x <? y then true else if y <? x then false else str_ltb a' b'
  end.
Definition str_leb (a b : str) : bool := negb (str_ltb b a).

Fixpoint is_prefix (p s : str) : bool :=
  match p, s with
  | [], _ => true
  | x :: p', y :: s' => (x =? y) && is_prefix p' s'
  | _ :: _, [] => false
  end.

Fixpoint contains (s sub : str) : bool :=
  is_prefix sub s || match s with [] => false | _ :: s' => contains s' sub end.

Fixpoint mem_str (x : str) (l : list str) : bool :=
  match l with [] => false | y :: l' => str_eqb x y || mem_str x l' end.

Fixpoint memN (x : N) (l : list N) : bool :=
  match l with [] => false | y :: l' => (x =? y) || memN x l' end.

(* Results: errors are classified, never compared by text. *)
Inductive errclass :=
| EScript        (* a run-time error of the script's own making *)
| EInternal      (* the machine's internal errors (C18) *)
| ETimeout
| EPanic         (* a Go panic recovered by Execute *)
| ECrash         (* a Go panic that would escape to the caller *)
| EPrepare       (* rejected by Prepare *)
| ENeedOracle    (* outside what the model computes: case is dropped, never judged *)
| EFuel.         (* model ran out of fuel: case is dropped, never judged *)

Inductive res (A : Type) := Ok (a : A) | Err (e : errclass).
Arguments Ok {A} a.
Arguments Err {A} e.

Definition bind {A B} (r : res A) (f : A -> res B) : res B :=
  match r with Ok a => f a | Err e => Err e end.
Notation "'do' x <- r ; k" := (bind r (fun x => k)) (at level 200, x pattern, r at level 100, k at level 200).

Definition of_opt {A} (o : option A) : res A :=
  match o with Some a => Ok a | None => Err ENeedOracle end.

(* int64 *)
Open Scope Z_scope.
Definition two63 : Z := 9223372036854775808.
Definition two64 : Z := 18446744073709551616.
Definition wrap64 (z : Z) : Z := ((z + two63) mod two64) - two63.
Definition in_int64 (z : Z) : bool := (- two63 <=? z) && (z <? two63).
(* Go's / and %: truncate toward zero. *)
Definition go_quot (a b : Z) : Z := wrap64 (Z.quot a b).
Definition go_rem (a b : Z) : Z := Z.rem a b.
Close Scope Z_scope.

(* decimal printing *)
Fixpoint n_digits (fuel : nat) (n : N) (acc : str) : str :=
  match fuel with
  | O => acc
  | S f => if n <? 10 then (48 + n) :: acc
           else n_digits f (n / 10) ((48 + n mod 10) :: acc)
  end.
Definition n_to_str (n : N) : str := n_digits (S (N.size_nat n)) n [].
Definition z_to_str (z : Z) : str :=
  match z with
  | Z0 => [48]
  | Zpos p => n_to_str (Npos p)
  | Zneg p => 45 :: n_to_str (Npos p)
  end.

Definition is_digit (c : N) : bool := (48 <=? c) && (c <=? 57).

Fixpoint digits_val (l : str) (acc : N) : option N :=
  match l with
  | [] => Some acc
  | c :: l' => if is_digit c then digits_val l' (acc * 10 + (c - 48)) else None
  end.

(* strconv.ParseInt(s, 10, 64): optional sign, at least one digit, range. *)
Definition parse_int (s : str) : option Z :=
  let '(neg, ds) := match s with
                    | 45 :: r => (true, r)
                    | 43 :: r => (false, r)
                    | _ => (false, s)
                    end in
  match ds with
  | [] => None
  | _ => match digits_val ds 0 with
         | None => None
         | Some n => let z := if neg : bool then Z.opp (Z.of_N n) else Z.of_N n in
                     if in_int64 z then Some z else None
         end
  end.

(* list helpers *)
Fixpoint nth_opt {A} (l : list A) (n : nat) : option A :=
  match l, n with
  | [], _ => None
  | x :: _, O => Some x
  | _ :: l', S n' => nth_opt l' n'
  end.
Fixpoint nthN {A} (l : list A) (n : N) : option A :=
  match l with
  | [] => None
  | x :: l' => if n =? 0 then Some x else nthN l' (N.pred n)
  end.
Definition lenN {A} (l : list A) : N := N.of_nat (List.length l).

Fixpoint join (sep : str) (l : list str) : str :=
  match l with
  | [] => []
  | [x] => x
  | x :: l' => x ++ sep ++ join sep l'
  end.

(* ASCII case mapping and white space (beyond ASCII: oracle). *)
Definition is_ascii (c : N) : bool := c <? 128.
Definition all_ascii (s : str) : bool := forallb is_ascii s.
Definition lower_c (c : N) : N := if (65 <=? c) && (c <=? 90) then c + 32 else c.
Definition upper_c (c : N) : N := if (97 <=? c) && (c <=? 122) then c - 32 else c.
(* unicode.IsSpace restricted to ASCII: \t \n \v \f \r space *)
Definition is_space_ascii (c : N) : bool := ((9 <=? c) && (c <=? 13)) || (c =? 32).

(* Optimizer.v - executable model of vm/optimizer.go, on bytes, pass by pass.
   Definitions only. *)
From EF Require Import Model.Base Gen.Tables Model.Code Model.Value Model.Compiler.
Open Scope N_scope.

Fixpoint apply_patches (code : list N) (ps : list (N * N)) : list N :=
  match ps with
  | [] => code
  | (i, b) :: ps' => apply_patches (set_nth code i b) ps'
  end.

Definition nop3 (off : N) : list (N * N) := [(off, OpNop); (off + 1, OpNop); (off + 2, OpNop)].
Definition put16 (off v : N) : list (N * N) := [(off + 1, hi_byte v); (off + 2, lo_byte v)].

Inductive pass_result := NoChange | Changed (code : list N) | Stop.   (* Stop: constant division by zero *)

(* integer square root by search (operands are below 65536) *)
Fixpoint isqrt_search (fuel : nat) (k v : N) : option N :=
  match fuel with
  | O => None
  | S f => if k * k =? v then Some k else if v <? k * k then None else isqrt_search f (k + 1) v
  end.
Definition perfect_sqrt (v : N) : option N := isqrt_search 300 0 v.

(* optimizeMaths: one walk; args = constants pushed so far (most recent first) *)
Fixpoint maths_walk (fuel : nat) (code rest : list N) (off : N) (args : list (N * N)) : pass_result :=
  match fuel with
  | O => NoChange
  | S f =>
      match rest with
      | [] => NoChange
      | op :: _ =>
          let len := op_len op in
          let arg := match rest with _ :: h :: l :: _ => h * 256 + l | _ => 0 end in
          let next := skipn (N.to_nat len) rest in
          let go a := maths_walk f code next (off + len) a in
          if op =? OpPush then go ((off, arg) :: args)
          else if op =? OpSquareRoot then
            match args with
            | (aoff, aval) :: _ =>
                match perfect_sqrt aval with
                | Some r => if r <=? 65534
                            then Changed (apply_patches code (put16 aoff r ++ [(off, OpNop)]))
                            else go []
                | None => go []
                end
            | [] => go []
            end
          else if op =? OpNop then go args
          else if (op =? OpEqual) || (op =? OpNotEqual) then
            match args with
            | (aoff, aval) :: (boff, bval) :: _ =>
                let eq := aval =? bval in
                let r := if op =? OpEqual then eq else negb eq in
                Changed (apply_patches code (nop3 aoff ++ nop3 boff ++ [(off, if r then OpTrue else OpFalse)]))
            | _ => go []
            end
          else if (op =? OpMul) || (op =? OpAdd) || (op =? OpSub) || (op =? OpDiv) then
            match args with
            | (aoff, aval) :: (boff, bval) :: _ =>
                if (op =? OpDiv) && (aval =? 0) then Stop
                else
                  let result : option N :=
                    if op =? OpMul then Some (aval * bval)
                    else if op =? OpAdd then Some (aval + bval)
                    else if op =? OpSub then (if aval <=? bval then Some (bval - aval) else None)
                    else Some (bval / aval) in
                  match result with
                  | Some r =>
                      if r <=? 65534
                      then Changed (apply_patches code (put16 aoff r ++ nop3 boff ++ [(off, OpNop)]))
                      else go []
                  | None => go []
                  end
            | _ => go []
            end
          else go []
      end
  end.
Definition maths_pass (code : list N) : pass_result :=
  maths_walk (S (List.length code)) code code 0 [].

(* optimizeJumps: one walk *)
Fixpoint nop_range (from to : N) (n : nat) : list (N * N) :=
  match n with
  | O => []
  | S n' => if from <? to then (from, OpNop) :: nop_range (from + 1) to n' else []
  end.
Fixpoint jumps_walk (fuel : nat) (code rest : list N) (off : N) (prev : N) : pass_result :=
  match fuel with
  | O => NoChange
  | S f =>
      match rest with
      | [] => NoChange
      | op :: _ =>
          let len := op_len op in
          let arg := match rest with _ :: h :: l :: _ => h * 256 + l | _ => 0 end in
          let next := skipn (N.to_nat len) rest in
          if (op =? OpJumpIfFalse) && (prev =? OpTrue) then
            Changed (apply_patches code [(off - 1, OpNop); (off, OpNop); (off + 1, OpNop); (off + 2, OpNop)])
          else if (op =? OpJumpIfFalse) && (prev =? OpFalse) then
            Changed (apply_patches code (nop_range (off - 1) arg (List.length code)))
          else jumps_walk f code next (off + len) op
      end
  end.
Definition jumps_pass (code : list N) : pass_result :=
  jumps_walk (S (List.length code)) code code 0 OpNop.

Fixpoint iterate (fuel : nat) (pass : list N -> pass_result) (code : list N) : option (list N) :=
  match fuel with
  | O => None
  | S f => match pass code with
           | NoChange => Some code
           | Stop => Some code
           | Changed c => iterate f pass c
           end
  end.

(* removeNOPs *)
Fixpoint nops_walk (fuel : nat) (rest : list N) (off : N) (tmp_rev : list N) (tlen : N)
                   (rewrite : list (N * N)) : list N * list (N * N) :=
  match fuel with
  | O => (rev tmp_rev, rewrite)
  | S f =>
      match rest with
      | [] => (rev tmp_rev, rewrite)
      | op :: _ =>
          let len := op_len op in
          let next := skipn (N.to_nat len) rest in
          if op =? OpNop then nops_walk f next (off + len) tmp_rev tlen ((off, tlen) :: rewrite)
          else
            let bytes := firstn (N.to_nat len) rest in
            (* operands are re-encoded from the decoded value; missing bytes read as the walk reads them *)
            nops_walk f next (off + len) (rev bytes ++ tmp_rev) (tlen + lenN bytes) ((off, tlen) :: rewrite)
      end
  end.
Fixpoint rw_get (k : N) (l : list (N * N)) : option N :=
  match l with [] => None | (a, b) :: l' => if a =? k then Some b else rw_get k l' end.
(* re-target the jumps of the compacted code; None = a target is missing: give up *)
Fixpoint retarget (fuel : nat) (rest : list N) (rewrite : list (N * N)) (acc_rev : list N) : option (list N) :=
  match fuel with
  | O => Some (rev acc_rev ++ rest)
  | S f =>
      match rest with
      | [] => Some (rev acc_rev)
      | op :: _ =>
          let len := op_len op in
          let next := skipn (N.to_nat len) rest in
          if (op =? OpJump) || (op =? OpJumpIfFalse) then
            match rest with
            | _ :: h :: l :: _ =>
                match rw_get (h * 256 + l) rewrite with
                | None => None
                | Some d => retarget f next rewrite (lo_byte d :: hi_byte d :: op :: acc_rev)
                end
            | _ => None
            end
          else retarget f next rewrite (rev (firstn (N.to_nat len) rest) ++ acc_rev)
      end
  end.
Definition remove_nops (code : list N) : list N :=
  let '(tmp, rewrite) := nops_walk (S (List.length code)) code 0 [] 0 [] in
  if lenN tmp =? lenN code then code
  else match retarget (S (List.length tmp)) tmp rewrite [] with
       | Some c => c
       | None => code
       end.

(* removeDeadCode: keep everything up to the first return, if no jump precedes it *)
Fixpoint dead_walk (fuel : nat) (rest : list N) (acc_rev : list N) : option (list N) :=
  match fuel with
  | O => None
  | S f =>
      match rest with
      | [] => None
      | op :: _ =>
          let len := op_len op in
          if (op =? OpJumpIfFalse) || (op =? OpJump) then None
          else if op =? OpReturn then Some (rev (OpReturn :: acc_rev))
          else dead_walk f (skipn (N.to_nat len) rest) (rev (firstn (N.to_nat len) rest) ++ acc_rev)
      end
  end.
Definition remove_dead (code : list N) : list N :=
  match dead_walk (S (List.length code)) code [] with Some c => c | None => code end.

(* optimizeBytecode; None = a pass did not reach its fixed point within the fuel *)
Definition optimize_body (code : list N) : option (list N) :=
  let fuel := S (List.length code) in
  match iterate fuel maths_pass code with
  | None => None
  | Some c1 =>
      match iterate fuel jumps_pass c1 with
      | None => None
      | Some c2 => Some (remove_dead (remove_nops c2))
      end
  end.

Definition optimize_program (p : program_code) : option program_code :=
  match optimize_body (pmain p) with
  | None => None
  | Some m =>
      match opt_map (fun nf => match optimize_body (fcode (snd nf)) with
                                 | Some c => Some (fst nf, mkUfunc (fparams (snd nf)) c)
                                 | None => None
                                 end) (pfuncs p) with
      | Some fs => Some (mkProg (pconsts p) m fs)
      | None => None
      end
  end.

(* VM.v - executable model of the stack machine (vm/vm.go).
   Definitions only. *)
From Coq Require Import Floats.
From EF Require Import Model.Base Gen.Tables Model.Lexer Model.Code Model.Value Model.Env
                       Model.Reflect Model.Builtins Model.Compiler.
Open Scope N_scope.

Inductive binop :=
| BAdd | BSub | BMul | BDiv | BMod | BPow | BLt | BLe | BGt | BGe | BEq | BNe
| BMatch | BNotMatch | BAnd | BOr | BIn.

Definition binop_of_opcode (op : N) : option binop :=
  if op =? OpAdd then Some BAdd else if op =? OpSub then Some BSub
  else if op =? OpMul then Some BMul else if op =? OpDiv then Some BDiv
  else if op =? OpMod then Some BMod else if op =? OpPower then Some BPow
  else if op =? OpLess then Some BLt else if op =? OpLessEqual then Some BLe
  else if op =? OpGreater then Some BGt else if op =? OpGreaterEqual then Some BGe
  else if op =? OpEqual then Some BEq else if op =? OpNotEqual then Some BNe
  else if op =? OpMatches then Some BMatch else if op =? OpNotMatches then Some BNotMatch
  else if op =? OpAnd then Some BAnd else if op =? OpOr then Some BOr
  else if op =? OpArrayIn then Some BIn else None.

(* host functions registered with AddFunction: all of them log their arguments *)
Inductive hostkind := HKArg0 | HKVoid | HKConst (v : value) | HKPanic.
Inductive fnimpl := FBuiltin (name : str) | FHost (k : hostkind).
Definition fnmap := list (str * fnimpl).

Fixpoint fn_get (name : str) (m : fnmap) : option fnimpl :=
  match m with
  | [] => None
  | (n, f) :: m' => if str_eqb n name then Some f else fn_get name m'
  end.
Fixpoint fn_set (name : str) (f : fnimpl) (m : fnmap) : fnmap :=
  match m with
  | [] => [(name, f)]
  | (n, g) :: m' => if str_eqb n name then (n, f) :: m' else (n, g) :: fn_set name f m'
  end.
Definition initial_fnmap : fnmap := map (fun n => (n, FBuiltin n)) builtin_names.

Record call := mkCall { cname : str; cargs : list value }.

Record mstate := mkM {
  stk : list value;          (* top first *)
  menv : env;
  trace : list call;         (* most recent first *)
  polls : option N           (* Some d: the context is done from poll number d on *)
}.

Inductive outcome := ODone (v : value) | OErr (e : errclass).

Section WithStdlib.
Variable o : stdlib.

Definition vbool (b : bool) : value := VBool b.

Definition lift (x : option value) : res value :=
  match x with Some v => Ok v | None => Err ENeedOracle end.

(* int64(math.Pow(float64 a, float64 b)) where it is exact *)
Definition int_pow (a b : Z) : res value :=
  (if 0 <=? b then
     if (b <? 1024) then
       let r := a ^ b in
       if (Z.abs r <? 9007199254740992) && (Z.abs a <? 9007199254740992) then Ok (VInt r) else Err ENeedOracle
     else if (a =? 0) || (a =? 1) then Ok (VInt a) else Err ENeedOracle
   else
     if a =? 1 then Ok (VInt 1)
     else if a =? -1 then Ok (VInt (if Z.even b then 1 else -1))
     else if a =? 0 then Err ENeedOracle          (* int64(+Inf): platform-defined *)
     else if Z.abs a <? 9007199254740992 then Ok (VInt 0) else Err ENeedOracle)%Z.

Definition int_binop (op : binop) (a b : Z) : res value :=
  match op with
  | BAdd => Ok (VInt (wrap64 (a + b)))
  | BSub => Ok (VInt (wrap64 (a - b)))
  | BMul => Ok (VInt (wrap64 (a * b)))
  | BDiv => if (b =? 0)%Z then Err EScript else Ok (VInt (go_quot a b))
  | BMod => if (b =? 0)%Z then Err EPanic else Ok (VInt (go_rem a b))
  | BPow => int_pow a b
  | BLt => Ok (vbool (a <? b)%Z)
  | BLe => Ok (vbool (a <=? b)%Z)
  | BGt => Ok (vbool (b <? a)%Z)
  | BGe => Ok (vbool (b <=? a)%Z)
  | BEq => Ok (vbool (a =? b)%Z)
  | BNe => Ok (vbool (negb (a =? b)%Z))
  | _ => Err EScript
  end.

Definition float_binop (op : binop) (a b : float) : res value :=
  match op with
  | BAdd => Ok (VFloat (a + b)%float)
  | BSub => Ok (VFloat (a - b)%float)
  | BMul => Ok (VFloat (a * b)%float)
  | BDiv => if PrimFloat.eqb b f_zero then Err EScript else Ok (VFloat (a / b)%float)
  | BMod =>
      match Z_of_float a, Z_of_float b with
      | Some x, Some y => if (y =? 0)%Z then Err EPanic else Ok (VFloat (float_of_Z (Z.rem x y)))
      | _, _ => Err ENeedOracle
      end
  | BPow => match pow_float o a b with Some r => Ok (VFloat r) | None => Err ENeedOracle end
  | BLt => Ok (vbool (PrimFloat.ltb a b))
  | BLe => Ok (vbool (PrimFloat.leb a b))
  | BGt => Ok (vbool (PrimFloat.ltb b a))
  | BGe => Ok (vbool (PrimFloat.leb b a))
  | BEq => Ok (vbool (PrimFloat.eqb a b))
  | BNe => Ok (vbool (negb (PrimFloat.eqb a b)))
  | _ => Err EScript
  end.

Definition string_binop (op : binop) (a b : str) : res value :=
  match op with
  | BEq => Ok (vbool (str_eqb a b))
  | BNe => Ok (vbool (negb (str_eqb a b)))
  | BGe => Ok (vbool (str_leb b a))
  | BGt => Ok (vbool (str_ltb b a))
  | BLe => Ok (vbool (str_leb a b))
  | BLt => Ok (vbool (str_ltb a b))
  | BAdd => Ok (VStr (a ++ b))
  | BIn => Ok (vbool (contains b a))
  | _ => Err EScript
  end.

Definition of_bres (r : bres) : res value :=
  match r with BVal v => Ok v | BPanic => Err EPanic | BNeed => Err ENeedOracle end.

Fixpoint array_mem (x : value) (l : list value) : option bool :=
  match l with
  | [] => Some false
  | y :: l' => match same_value o x y with
               | Some true => Some true
               | Some false => array_mem x l'
               | None => None
               end
  end.

(* executeBinaryOperation (dispatch order of the code) *)
Definition vm_binop (op : binop) (l r : value) : res value :=
  match op with
  | BAnd => Ok (vbool (truthy l && truthy r))
  | BOr => Ok (vbool (truthy l || truthy r))
  | _ =>
    match l, r with
    | VInt a, VInt b => int_binop op a b
    | VFloat a, VFloat b => float_binop op a b
    | VFloat a, VInt b => float_binop op a (float_of_Z b)
    | VInt a, VFloat b => float_binop op (float_of_Z a) b
    | VStr a, VStr b => string_binop op a b
    | VStr a, VRegexp re =>
        match op with
        | BMatch => do v <- of_bres (match_m o [l; r]); Ok (vbool (truthy v))
        | BNotMatch => do v <- of_bres (match_m o [l; r]); Ok (vbool (negb (truthy v)))
        | _ => Err EScript
        end
    | _, _ =>
        match op with
        | BIn =>
            match r with
            | VArray elems => match array_mem l elems with Some b => Ok (vbool b) | None => Err ENeedOracle end
            | _ => Err EScript
            end
        | _ =>
            match l, r with
            | VBool a, VBool b =>
                string_binop op (if a then L "true" else L "false") (if b then L "true" else L "false")
            | _, _ => Err EScript
            end
        end
    end
  end.

Definition vm_bang (v : value) : value :=
  match v with
  | VBool b => VBool (negb b)
  | VNull => VBool true
  | _ => VBool false
  end.
Definition vm_minus (v : value) : res value :=
  match v with
  | VInt z => Ok (VInt (wrap64 (- z)))
  | VFloat f => Ok (VFloat (- f)%float)
  | _ => Err EScript
  end.
Definition vm_sqrt (v : value) : res value :=
  match v with
  | VInt z => Ok (VFloat (PrimFloat.sqrt (float_of_Z z)))
  | VFloat f => Ok (VFloat (PrimFloat.sqrt f))
  | _ => Err EScript
  end.

Definition vm_index (l i : value) : res value :=
  match l with
  | VHash ps =>
      match hash_key o i with
      | None => Err ENeedOracle
      | Some None => Err EScript
      | Some (Some hk) => match hash_get o ps hk with
                          | None => Err ENeedOracle
                          | Some None => Ok VNull
                          | Some (Some v) => Ok v
                          end
      end
  | VStr s =>
      match i with
      | VInt z => if (z <? 0)%Z then Ok VNull
                  else match nthN s (Z.to_N z) with Some c => Ok (VStr [c]) | None => Ok VNull end
      | _ => Err EScript
      end
  | VArray a =>
      match i with
      | VInt z => if (z <? 0)%Z then Ok VNull
                  else match nthN a (Z.to_N z) with Some v => Ok v | None => Ok VNull end
      | _ => Err EScript
      end
  | _ => Err EScript
  end.

Fixpoint range_list (n : nat) (from : Z) : list value :=
  match n with O => [] | S n' => VInt from :: range_list n' (from + 1)%Z end.
Definition vm_range (a b : value) : res value :=
  match a, b with
  | VInt x, VInt y =>
      if (y <? x)%Z then Err EScript
      else if (100000 <? y - x)%Z then Err ENeedOracle     (* resource-bound: not modelled *)
      else Ok (VArray (range_list (Z.to_nat (y - x + 1)) x))
  | _, _ => Err EScript
  end.

Definition vm_case (v c : value) : res value :=
  match same_value o v c with
  | None => Err ENeedOracle
  | Some true => Ok (VBool true)
  | Some false =>
      match c with
      | VRegexp _ => of_bres (match_m o [v; c])
      | _ => Ok (VBool false)
      end
  end.

(* OpHash: n/2 (value, key) pairs are popped; a key met later overwrites *)
Fixpoint build_hash (n : nat) (s : list value) (acc : list (value * value)) : res (list (value * value) * list value) :=
  match n with
  | O => Ok (acc, s)
  | S n' =>
      match s with
      | v :: k :: s' =>
          match hash_key o k with
          | None => Err ENeedOracle
          | Some None => Err EScript
          | Some (Some hk) =>
              match hash_put o acc hk k v with
              | Some acc' => build_hash n' s' acc'
              | None => Err ENeedOracle
              end
          end
      | _ => Err EInternal
      end
  end.

Fixpoint pop_n (n : nat) (s : list value) (acc : list value) : option (list value * list value) :=
  match n with
  | O => Some (acc, s)
  | S n' => match s with v :: s' => pop_n n' s' (v :: acc) | [] => None end
  end.

(* the next element of a private iteration copy: (value, index/key) *)
Definition iter_next (v : value) (off : N) : res (option (value * value)) :=
  match v with
  | VArray l => Ok (match nthN l off with Some x => Some (x, VInt (Z.of_N off)) | None => None end)
  | VStr s => Ok (match nthN s off with Some c => Some (VStr [c], VInt (Z.of_N off)) | None => None end)
  | VHash ps =>
      match hash_entries o ps with
      | None => Err ENeedOracle
      | Some es => Ok (match nthN es off with Some (k, x) => Some (x, k) | None => None end)
      end
  | _ => Err EScript
  end.
Definition iterable (v : value) : bool :=
  match v with VArray _ | VStr _ | VHash _ => true | _ => false end.

Definition trim_dollar (name : str) : str :=
  match name with 36 :: r => r | _ => name end.

(* lookup: variable, else field of the object, else null *)
Definition lookup (obj : hostval) (e : env) (name0 : str) : res value :=
  let name := trim_dollar name0 in
  match env_get e name with
  | Some v => Ok v
  | None =>
      match host_fields o obj with
      | None => Err ENeedOracle
      | Some None => Err EPanic
      | Some (Some fs) => Ok (match field_get name fs with Some v => v | None => VNull end)
      end
  end.

Definition name_of (v : value) : res str :=
  match inspect o v with Some s => Ok s | None => Err ENeedOracle end.

Definition host_call (k : hostkind) (args : list value) : res value :=
  match k with
  | HKArg0 => Ok (match args with a :: _ => a | [] => VNull end)
  | HKVoid => Ok VVoid
  | HKConst v => Ok v
  | HKPanic => Err EPanic
  end.

Definition set_stk (m : mstate) (s : list value) : mstate := mkM s (menv m) (trace m) (polls m).
Definition set_env (m : mstate) (e : env) : mstate := mkM (stk m) e (trace m) (polls m).

(* Before every iteration of a foreach loop whatever its body left on the stack above the height the
   loop remembered is discarded (vm.go: `for vm.stack.Size() > loops[len(loops)-1] { Pop }`). *)
Definition keep_bottom (d : N) (s : list value) : list value := skipn (List.length s - N.to_nat d) s.
Definition drop_residue (e : env) (s : list value) : list value :=
  match env_mark e with
  | Some d => keep_bottom d s
  | None => s
  end.
Definition push (m : mstate) (v : value) : mstate := set_stk m (v :: stk m).

Definition fail (m : mstate) (e : errclass) : outcome * mstate := (OErr e, m).

Variable consts : list value.
Variable funcs : list (str * ufunc).
Variable fns : fnmap.
Variable obj : hostval.

Fixpoint ufunc_get (name : str) (l : list (str * ufunc)) : option ufunc :=
  match l with
  | [] => None
  | (n, f) :: l' => if str_eqb n name then Some f else ufunc_get name l'
  end.

Fixpoint declare_all (e : env) (names : list str) (vals : list value) : env :=
  match names, vals with
  | n :: ns, v :: vs => declare_all (env_declare e (trim_dollar n) v) ns vs
  | _, _ => e
  end.

(* vm.run: interpret `code` from `ip`.  One unit of fuel per instruction and per call. *)
Fixpoint exec (fuel : nat) (code : list N) (ip : N) (m : mstate) {struct fuel} : outcome * mstate :=
  match fuel with
  | O => fail m EFuel
  | S f =>
  if lenN code <=? ip then (ODone VNull, m) else
  (* poll the context before every instruction *)
  match (match polls m with
         | Some 0 => None
         | Some d => Some (mkM (stk m) (menv m) (trace m) (Some (d - 1)))
         | None => Some m
         end) with
  | None => fail m ETimeout
  | Some m =>
  match byte_at code ip with
  | None => fail m EInternal
  | Some op =>
  let len := op_len op in
  let arg := if 1 <? len then operand_at code ip else Some 0 in
  match arg with
  | None => fail m EPanic          (* operand bytes missing: slice bounds out of range *)
  | Some arg =>
  let next := ip + len in
  let continue (m' : mstate) := exec f code next m' in
  let pop1 (k : value -> list value -> outcome * mstate) :=
    match stk m with v :: s => k v s | [] => fail m EInternal end in
  let pop2 (k : value -> value -> list value -> outcome * mstate) :=
    match stk m with v1 :: v2 :: s => k v1 v2 s | _ => fail (set_stk m []) EInternal end in
  let on (r : res value) (s : list value) :=
    match r with Ok v => continue (set_stk m (v :: s)) | Err e => fail (set_stk m s) e end in
  if (op =? OpNop) || (op =? OpPlaceholder) then continue m
  else if op =? OpPush then continue (push m (VInt (Z.of_N arg)))
  else if op =? OpConstant then
    match nthN consts arg with Some v => continue (push m v) | None => fail m EInternal end
  else if op =? OpLookup then
    match nthN consts arg with
    | None => fail m EInternal
    | Some c => match (do name <- name_of c; lookup obj (menv m) name) with
                | Ok v => continue (push m v)
                | Err e => fail m e
                end
    end
  else if op =? OpLocal then
    pop1 (fun name s =>
      match name_of name with
      | Ok n => continue (mkM s (env_declare (menv m) (trim_dollar n) VNull) (trace m) (polls m))
      | Err e => fail m e
      end)
  else if op =? OpSet then
    pop2 (fun name v s =>
      match name_of name with
      | Ok n => continue (mkM s (env_set (menv m) (trim_dollar n) (match v with VIter x _ => x | _ => v end)) (trace m) (polls m))
      | Err e => fail m e
      end)
  else match binop_of_opcode op with
  | Some b => pop2 (fun r l s => on (vm_binop b l r) s)
  | None =>
  if op =? OpArray then
    match pop_n (N.to_nat arg) (stk m) [] with
    | Some (elems, s) => continue (set_stk m (VArray elems :: s))
    | None => fail m EInternal
    end
  else if op =? OpHash then
    match build_hash (N.to_nat ((arg + 1) / 2)) (stk m) [] with
    | Ok (ps, s) => continue (set_stk m (VHash ps :: s))
    | Err e => fail m e
    end
  else if op =? OpCase then pop2 (fun c v s => on (vm_case v c) s)
  else if op =? OpIndex then pop2 (fun i l s => on (vm_index l i) s)
  else if op =? OpBang then pop1 (fun v s => on (Ok (vm_bang v)) s)
  else if op =? OpMinus then pop1 (fun v s => on (vm_minus v) s)
  else if op =? OpSquareRoot then pop1 (fun v s => on (vm_sqrt v) s)
  else if op =? OpTrue then continue (push m (VBool true))
  else if op =? OpFalse then continue (push m (VBool false))
  else if op =? OpVoid then continue (push m VVoid)
  else if op =? OpReturn then pop1 (fun v s => (ODone v, set_stk m s))
  else if op =? OpJump then
    if lenN code <=? arg then fail m EInternal else exec f code arg m
  else if op =? OpJumpIfFalse then
    pop1 (fun c s =>
      if truthy c then continue (set_stk m s)
      else if lenN code <=? arg then fail (set_stk m s) EInternal else exec f code arg (set_stk m s))
  else if op =? OpCall then
    pop1 (fun fname s0 =>
      match name_of fname with
      | Err e => fail m e
      | Ok name =>
      match pop_n (N.to_nat arg) s0 [] with
      | None => fail m EInternal
      | Some (args, s) =>
      match fn_get name fns with
      | Some (FBuiltin bn) =>
          match call_builtin o bn args with
          | None => fail m ENeedOracle
          | Some r =>
              match of_bres r with
              | Ok v => continue (set_stk m (match v with VVoid => s | _ => v :: s end))
              | Err e => fail (set_stk m s) e
              end
          end
      | Some (FHost k) =>
          let m1 := mkM s (menv m) (mkCall name args :: trace m) (polls m) in
          match host_call k args with
          | Ok v => exec f code next (set_stk m1 (match v with VVoid => s | _ => v :: s end))
          | Err e => fail m1 e
          end
      | None =>
          match ufunc_get name funcs with
          | None => fail (set_stk m s) EScript
          | Some uf =>
              if negb (Nat.eqb (List.length (fparams uf)) (List.length args)) then fail (set_stk m s) EScript
              else if negb (max_call_depth =? 0) && (max_call_depth <=? N.of_nat (env_depth (menv m)))
              then fail (set_stk m s) EScript     (* calls and loops nested too deeply *)
              else
                let depth := env_depth (menv m) in
                let e1 := declare_all (env_push_frame (menv m)) (fparams uf) args in
                match exec f (fcode uf) 0 (mkM [] e1 (trace m) (polls m)) with
                | (ODone out, m2) =>
                    let e2 := env_truncate (menv m2) depth in
                    exec f code next (mkM (match out with VVoid => s | _ => out :: s end) e2 (trace m2) (polls m2))
                | (OErr e, m2) => (OErr e, mkM s (env_truncate (menv m2) depth) (trace m2) (polls m2))
                end
          end
      end end end)
  else if op =? OpIterationReset then
    (* the loop remembers how high the stack is once its iterator has been pushed *)
    let e1 := env_push (menv m) (lenN (stk m)) in
    match stk m with
    | [] => fail (set_env m e1) EInternal
    | v :: s =>
        if iterable v then continue (mkM (VIter v 0 :: s) e1 (trace m) (polls m))
        else fail (mkM s e1 (trace m) (polls m)) EScript
    end
  else if op =? OpIterationNext then
    match stk m with
    | vn :: idn :: rest =>
      (* whatever the body of the loop left above the iterator is discarded *)
      match drop_residue (menv m) rest with
      | [] => fail m EInternal
      | it :: s =>
        match it with
        | VIter v off =>
            match name_of vn, name_of idn, iter_next v off with
            | Ok var, Ok idx, Ok (Some (x, k)) =>
                let e1 := env_declare (menv m) (trim_dollar var) x in
                let e2 := match idx with [] => e1 | _ => env_declare e1 (trim_dollar idx) k end in
                continue (mkM (VBool true :: VIter v (off + 1) :: s) e2 (trace m) (polls m))
            | Ok _, Ok _, Ok None =>
                match env_pop (menv m) with
                | Some e1 => continue (mkM (VBool false :: s) e1 (trace m) (polls m))
                | None => fail m EScript
                end
            | Err e, _, _ => fail m e
            | _, Err e, _ => fail m e
            | _, _, Err e => fail m e
            end
        | _ => if iterable it then fail m ENeedOracle else fail m EScript
        end
      end
    | _ => fail m EInternal
    end
  else if op =? OpRange then pop2 (fun b a s => on (vm_range a b) s)
  else if (op =? OpInc) || (op =? OpDec) then
    match nthN consts arg with
    | None => fail m EInternal
    | Some c =>
        match (do name <- name_of c; do v <- lookup obj (menv m) name; Ok (name, v)) with
        | Err e => fail m e
        | Ok (name, v) =>
            let delta := if op =? OpInc then 1%Z else (-1)%Z in
            match (match v with
                   | VInt z => Some (VInt (wrap64 (z + delta)))
                   | VFloat x => Some (VFloat (x + float_of_Z delta)%float)
                   | _ => None
                   end) with
            | None => fail m EScript
            | Some v' =>
                let e1 := env_set (menv m) (trim_dollar name) v' in
                match stk m with
                | _ :: s => continue (mkM s e1 (trace m) (polls m))
                | [] => fail (set_env m e1) EInternal
                end
            end
        end
    end
  else fail m EInternal          (* unhandled opcode *)
  end
  end end end
  end.

(* VM.Run: a run starts and ends with no open scope and an empty stack *)
Definition run_main (fuel : nat) (main : list N) (m : mstate) : outcome * mstate :=
  let m0 := mkM [] (env_truncate (menv m) 0) (trace m) (polls m) in
  match main with
  | [] => (OErr EScript, m0)          (* "the bytecode program is empty" *)
  | _ =>
      let '(out, m1) := exec fuel main 0 m0 in
      (out, mkM (stk m1) (env_truncate (menv m1) 0) (trace m1) (polls m1))
  end.

End WithStdlib.

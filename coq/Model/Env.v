(* Env.v - variables: globals and a stack of local scopes
   (environment/environment.go).  Definitions only. *)
From EF Require Import Model.Base Model.Value.
Open Scope N_scope.

Definition scope := list (str * value).

(* The open scopes, innermost first.  A scope is opened either by a function call (a frame: it is
   the outermost scope visible from inside that call - the callers' locals are their own) or by a
   foreach loop, which remembers how high the operand stack was once its iterator had been pushed
   (vm.go keeps these heights in the `loops` slice of the running body). *)
Inductive skind := SFrame | SLoop (mark : N).
Definition is_frame (k : skind) : bool := match k with SFrame => true | SLoop _ => false end.
Record env := mkEnv {
  globals : scope;
  scopes : list (skind * scope)
}.

Fixpoint assoc_get (name : str) (l : scope) : option value :=
  match l with
  | [] => None
  | (n, v) :: l' => if str_eqb n name then Some v else assoc_get name l'
  end.

Fixpoint assoc_set (name : str) (v : value) (l : scope) : scope :=
  match l with
  | [] => [(name, v)]
  | (n, x) :: l' => if str_eqb n name then (n, v) :: l' else (n, x) :: assoc_set name v l'
  end.

Fixpoint local_get (name : str) (ss : list (skind * scope)) : option value :=
  match ss with
  | [] => None
  | (frame, s) :: ss' =>
      match assoc_get name s with
      | Some v => Some v
      | None => if is_frame frame then None else local_get name ss'
      end
  end.

Definition env_get (e : env) (name : str) : option value :=
  match local_get name (scopes e) with
  | Some v => Some v
  | None => assoc_get name (globals e)
  end.

(* update the nearest enclosing scope that already holds the name *)
Fixpoint local_update (name : str) (v : value) (ss : list (skind * scope)) : list (skind * scope) :=
  match ss with
  | [] => []
  | (frame, s) :: ss' =>
      match assoc_get name s with
      | Some _ => (frame, assoc_set name v s) :: ss'
      | None => if is_frame frame then (frame, s) :: ss' else (frame, s) :: local_update name v ss'
      end
  end.

(* Set: a local of the running function (any of its open scopes) is updated, everything else is global *)
Definition env_set (e : env) (name : str) (v : value) : env :=
  match local_get name (scopes e) with
  | Some _ => mkEnv (globals e) (local_update name v (scopes e))
  | None => mkEnv (assoc_set name v (globals e)) (scopes e)
  end.

(* Delete: remove a global *)
Fixpoint assoc_remove (name : str) (l : scope) : scope :=
  match l with
  | [] => []
  | (n, x) :: l' => if str_eqb n name then assoc_remove name l' else (n, x) :: assoc_remove name l'
  end.
Definition env_unset (e : env) (name : str) : env := mkEnv (assoc_remove name (globals e)) (scopes e).

(* Declare: bind in the innermost scope (shadowing); nothing if no scope is open *)
Definition env_declare (e : env) (name : str) (v : value) : env :=
  match scopes e with
  | [] => e
  | (frame, s) :: ss => mkEnv (globals e) ((frame, assoc_set name v s) :: ss)
  end.

(* a loop scope, remembering the height of the operand stack *)
Definition env_push (e : env) (mark : N) : env := mkEnv (globals e) ((SLoop mark, []) :: scopes e).
(* the scope of a function call *)
Definition env_push_frame (e : env) : env := mkEnv (globals e) ((SFrame, []) :: scopes e).
(* the height remembered by the innermost scope, if that is a loop of the running body *)
Definition env_mark (e : env) : option N :=
  match scopes e with
  | (SLoop k, _) :: _ => Some k
  | _ => None
  end.
Definition env_pop (e : env) : option env :=
  match scopes e with
  | [] => None
  | _ :: ss => Some (mkEnv (globals e) ss)
  end.
Definition env_depth (e : env) : nat := List.length (scopes e).
(* Truncate(depth): close every scope opened after the given depth *)
Definition env_truncate (e : env) (d : nat) : env :=
  mkEnv (globals e) (skipn (List.length (scopes e) - d) (scopes e)).

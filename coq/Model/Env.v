(* Env.v - variables: globals and a stack of local scopes
   (environment/environment.go).  Definitions only. *)
From EF Require Import Model.Base Model.Value.
Open Scope N_scope.

Definition scope := list (str * value).

Record env := mkEnv {
  globals : scope;
  scopes : list scope      (* innermost first *)
}.

Fixpoint assoc_get (name : str) (l : scope) : option value :=
  match l with
  | [] => None
  | (n, v) :: l' => if str_eqb n name then Some v else assoc_get name l'
  end.

Fixpoint assoc_set (name : str) (v : value) (l : scope) : scope :=
  match l with
  | [] => [(name, v)]
  | (n, x) :: l' => if str_eqb n name then (n, v) :: l' else (n, x) :: assoc_set name v l'
  end.

Fixpoint local_get (name : str) (ss : list scope) : option value :=
  match ss with
  | [] => None
  | s :: ss' => match assoc_get name s with Some v => Some v | None => local_get name ss' end
  end.

Definition env_get (e : env) (name : str) : option value :=
  match local_get name (scopes e) with
  | Some v => Some v
  | None => assoc_get name (globals e)
  end.

(* update the nearest enclosing scope that already holds the name *)
Fixpoint local_update (name : str) (v : value) (ss : list scope) : list scope :=
  match ss with
  | [] => []
  | s :: ss' => match assoc_get name s with
                | Some _ => assoc_set name v s :: ss'
                | None => s :: local_update name v ss'
                end
  end.

(* Set: a local of any enclosing scope is updated, everything else is global *)
Definition env_set (e : env) (name : str) (v : value) : env :=
  match local_get name (scopes e) with
  | Some _ => mkEnv (globals e) (local_update name v (scopes e))
  | None => mkEnv (assoc_set name v (globals e)) (scopes e)
  end.

(* Declare: bind in the innermost scope (shadowing); nothing if no scope is open *)
Definition env_declare (e : env) (name : str) (v : value) : env :=
  match scopes e with
  | [] => e
  | s :: ss => mkEnv (globals e) (assoc_set name v s :: ss)
  end.

Definition env_push (e : env) : env := mkEnv (globals e) ([] :: scopes e).
Definition env_pop (e : env) : option env :=
  match scopes e with
  | [] => None
  | _ :: ss => Some (mkEnv (globals e) ss)
  end.
Definition env_depth (e : env) : nat := List.length (scopes e).
(* Truncate(depth): close every scope opened after the given depth *)
Definition env_truncate (e : env) (d : nat) : env :=
  mkEnv (globals e) (skipn (List.length (scopes e) - d) (scopes e)).

(* Lexer.v - executable model of lexer/lexer.go and token/token.go.
   Definitions only. *)
From EF Require Import Model.Base Gen.Tables.
Open Scope N_scope.

Inductive tokty :=
| TAnd | TAssign | TAsterisk | TAsteriskEq | TBang | TCase | TColon | TComma
| TContains | TDefault | TDotDot | TElse | TEOF | TEq | TFalse | TFloat | TFor
| TForeach | TFunction | TGt | TGtEq | TIdent | TIf | TIllegal | TIn | TInt
| TLBrace | TLocal | TLParen | TLSquare | TLt | TLtEq | TMinus | TMinusEq
| TMinusMinus | TMissing | TMod | TNotEq | TOr | TPeriod | TPlus | TPlusPlus
| TPlusEq | TPow | TQuestion | TRBrace | TRegexp | TReturn | TRParen | TRSquare
| TSemicolon | TSlash | TSlashEq | TSqrt | TString | TSwitch | TTrue | TWhile
| TEmpty  (* the zero Token{} a lone '&', '|' or '~' yields *).

Scheme Equality for tokty.

(* The Go token.Type string of each type (token/token.go constants). *)
Definition tokty_name (t : tokty) : str :=
  match t with
  | TAnd => L "&&" | TAssign => L "=" | TAsterisk => L "*" | TAsteriskEq => L "*="
  | TBang => L "!" | TCase => L "case" | TColon => L ":" | TComma => L ","
  | TContains => L "~=" | TDefault => L "DEFAULT" | TDotDot => L ".." | TElse => L "ELSE"
  | TEOF => L "EOF" | TEq => L "==" | TFalse => L "FALSE" | TFloat => L "FLOAT"
  | TFor => L "FOR" | TForeach => L "FOREACH" | TFunction => L "FUNCTION" | TGt => L ">"
  | TGtEq => L ">=" | TIdent => L "IDENT" | TIf => L "IF" | TIllegal => L "ILLEGAL"
  | TIn => L "IN" | TInt => L "INT" | TLBrace => L "{" | TLocal => L "LOCAL"
  | TLParen => L "(" | TLSquare => L "[" | TLt => L "<" | TLtEq => L "<="
  | TMinus => L "-" | TMinusEq => L "-=" | TMinusMinus => L "--" | TMissing => L "!~"
  | TMod => L "%" | TNotEq => L "!=" | TOr => L "||" | TPeriod => L "." | TPlus => L "+"
  | TPlusPlus => L "++" | TPlusEq => L "+=" | TPow => L "**" | TQuestion => L "?"
  | TRBrace => L "}" | TRegexp => L "REGEXP" | TReturn => L "RETURN" | TRParen => L ")"
  | TRSquare => L "]" | TSemicolon => L ";" | TSlash => L "/" | TSlashEq => L "/="
  | TSqrt => [8730] | TString => L "STRING" | TSwitch => L "switch" | TTrue => L "TRUE"
  | TWhile => L "WHILE" | TEmpty => []
  end.

Definition all_tokty : list tokty :=
  [TAnd; TAssign; TAsterisk; TAsteriskEq; TBang; TCase; TColon; TComma;
   TContains; TDefault; TDotDot; TElse; TEOF; TEq; TFalse; TFloat; TFor;
   TForeach; TFunction; TGt; TGtEq; TIdent; TIf; TIllegal; TIn; TInt;
   TLBrace; TLocal; TLParen; TLSquare; TLt; TLtEq; TMinus; TMinusEq;
   TMinusMinus; TMissing; TMod; TNotEq; TOr; TPeriod; TPlus; TPlusPlus;
   TPlusEq; TPow; TQuestion; TRBrace; TRegexp; TReturn; TRParen; TRSquare;
   TSemicolon; TSlash; TSlashEq; TSqrt; TString; TSwitch; TTrue; TWhile; TEmpty].

Definition tokty_of_name (n : str) : option tokty :=
  find (fun t => str_eqb (tokty_name t) n) all_tokty.

Record token := mkTok { tty : tokty; tlit : str }.

(* unicode.IsLetter / unicode.IsDigit from the regenerated range tables *)
Fixpoint in_ranges (c : N) (l : list (N * N * N)) : bool :=
  match l with
  | [] => false
  | (lo, hi, stride) :: l' =>
      ((lo <=? c) && (c <=? hi) && ((c - lo) mod stride =? 0)) || in_ranges c l'
  end.
Definition is_letter (c : N) : bool := in_ranges c unicode_letter.
Definition is_udigit (c : N) : bool := in_ranges c unicode_digit.
Definition is_identifier (c : N) : bool :=
  is_letter c || is_udigit c || (c =? 36) || (c =? 95).
Definition is_whitespace (c : N) : bool :=
  (c =? 32) || (c =? 9) || (c =? 10) || (c =? 13).

(* keyword lookup through the regenerated table *)
Fixpoint assoc_str {A} (k : str) (l : list (str * A)) : option A :=
  match l with
  | [] => None
  | (k', v) :: l' => if str_eqb k k' then Some v else assoc_str k l'
  end.
Definition lookup_ident (id : str) : tokty :=
  match assoc_str id keyword_table with
  | Some n => match tokty_of_name n with Some t => t | None => TIdent end
  | None => TIdent
  end.

(* The input is the list of remaining code points; the Go lexer's `ch` is
   the head (or 0 at the end), `peekChar` the second element (or 0). *)
Definition cur (l : str) : N := match l with [] => 0 | c :: _ => c end.
Definition peek (l : str) : N := match l with _ :: c :: _ => c | _ => 0 end.
Definition adv (l : str) : str := match l with [] => [] | _ :: l' => l' end.

Fixpoint skip_ws (l : str) : str :=
  match l with
  | c :: l' => if is_whitespace c then skip_ws l' else l
  | [] => []
  end.

(* skipComment: to the end of the line (or the end of the input), then white space *)
Fixpoint skip_line (l : str) : str :=
  match l with
  | c :: l' => if c =? 10 then l else skip_line l'
  | [] => []
  end.

(* skip white space and any number of // comments *)
Fixpoint skip_trivia (fuel : nat) (l : str) : str :=
  let l1 := skip_ws l in
  match fuel with
  | O => l1
  | S f =>
      if (cur l1 =? 47) && (peek l1 =? 47)
      then skip_trivia f (skip_ws (skip_line l1))
      else l1
  end.

Fixpoint take_while (p : N -> bool) (l : str) : str * str :=
  match l with
  | c :: l' => if p c then let '(a, r) := take_while p l' in (c :: a, r) else ([], l)
  | [] => ([], [])
  end.

(* readString: called with l positioned ON the opening quote.  Returns the
   contents and the input positioned ON the closing quote; None =
   unterminated (input position where the lexer stopped is returned too). *)
Fixpoint read_string (fuel : nat) (delim : N) (l : str) (acc : str) : option str * str :=
  match fuel with
  | O => (None, l)
  | S f =>
      let l1 := adv l in                      (* l.readChar() *)
      match l1 with
      | [] => (None, l1)
      | c :: _ =>
          if c =? delim then (Some (rev acc), l1)
          else if c =? 92 then                 (* backslash *)
            if peek l1 =? 10 then read_string f delim (adv l1) acc   (* continuation *)
            else
              let l2 := adv l1 in
              match l2 with
              | [] => (None, l2)
              | e :: _ =>
                  let e' := if e =? 110 then 10 else if e =? 114 then 13
                            else if e =? 116 then 9 else e in
                  read_string f delim l2 (e' :: acc)
              end
          else read_string f delim l1 (c :: acc)
      end
  end.

(* flags: every letter after the closing '/', without repeats, in order *)
Fixpoint collect_flags (l : str) (flags : str) : str * str :=
  match l with
  | c :: l' => if is_letter c
               then collect_flags l' (if memN c flags then flags else flags ++ [c])
               else (flags, l)
  | [] => (flags, [])
  end.
Definition flags_ok (flags : str) : bool :=
  forallb (fun c => (c =? 105) || (c =? 109)) flags.

(* readRegexp: l positioned ON the opening '/'.  On success the input is
   positioned after the flags. *)
Fixpoint read_regexp (fuel : nat) (l : str) (acc : str) : option str * str :=
  match fuel with
  | O => (None, l)
  | S f =>
      let l1 := adv l in
      match l1 with
      | [] => (None, l1)
      | c :: _ =>
          if c =? 47 then
            let '(flags, l2) := collect_flags (adv l1) [] in
            if flags_ok flags then
              let body := rev acc in
              (Some (match flags with [] => body | _ => L "(?" ++ flags ++ L ")" ++ body end), l2)
            else (None, l2)
          else if c =? 92 then
            let l2 := adv l1 in
            (* the escaped character is taken literally; at the very end the
               Go lexer appends its NUL `ch` and then finds the input unterminated *)
            read_regexp f l2 (cur l2 :: acc)
          else read_regexp f l1 (c :: acc)
      end
  end.

Definition slash_is_division (prev : tokty) : bool :=
  match prev with
  | TRParen | TIdent | TRSquare | TFloat | TInt => true
  | _ => false
  end.

Definition two (l : str) : str := [cur l; peek l].

(* NextToken.  State: remaining input and the type of the previous token.
   Returns the token, the remaining input and the new previous type. *)
Definition next_token (l0 : str) (prev : tokty) : token * str * tokty :=
  let l := skip_trivia (List.length l0) l0 in
  let c := cur l in
  let p := peek l in
  let one t := (mkTok t [c], adv l, t) in
  let dbl t := (mkTok t [c; p], adv (adv l), t) in
  match l with
  | [] => (mkTok TEOF [], [], TEOF)
  | _ =>
  if c =? 0 then (mkTok TIllegal [], adv l, TIllegal)          (* NUL inside the input *)
  else if c =? 38 then if p =? 38 then dbl TAnd else (mkTok TEmpty [], adv l, TEmpty)
  else if c =? 124 then if p =? 124 then dbl TOr else (mkTok TEmpty [], adv l, TEmpty)
  else if c =? 61 then if p =? 61 then dbl TEq else one TAssign
  else if c =? 59 then one TSemicolon
  else if c =? 40 then one TLParen
  else if c =? 41 then one TRParen
  else if c =? 44 then one TComma
  else if c =? 46 then if p =? 46 then dbl TDotDot else one TPeriod
  else if c =? 43 then if p =? 43 then dbl TPlusPlus else if p =? 61 then dbl TPlusEq else one TPlus
  else if c =? 37 then one TMod
  else if c =? 8730 then one TSqrt
  else if c =? 123 then one TLBrace
  else if c =? 125 then one TRBrace
  else if c =? 91 then one TLSquare
  else if c =? 93 then one TRSquare
  else if c =? 45 then if p =? 45 then dbl TMinusMinus else if p =? 61 then dbl TMinusEq else one TMinus
  else if c =? 47 then
    if slash_is_division prev then
      if p =? 61 then dbl TSlashEq else one TSlash
    else
      (* a regexp token does not update prevToken *)
      match read_regexp (S (List.length l)) l [] with
      | (Some s, l') => (mkTok TRegexp s, l', prev)
      | (None, l') => (mkTok TIllegal [], l', prev)
      end
  else if c =? 42 then if p =? 42 then dbl TPow else if p =? 61 then dbl TAsteriskEq else one TAsterisk
  else if c =? 63 then one TQuestion
  else if c =? 58 then one TColon
  else if c =? 60 then if p =? 61 then dbl TLtEq else one TLt
  else if c =? 62 then if p =? 61 then dbl TGtEq else one TGt
  else if c =? 126 then if p =? 61 then dbl TContains else (mkTok TEmpty [], adv l, TEmpty)
  else if c =? 33 then if p =? 61 then dbl TNotEq else if p =? 126 then dbl TMissing else one TBang
  else if (c =? 34) || (c =? 39) then
    match read_string (S (List.length l)) c l [] with
    | (Some s, l') => (mkTok TString s, adv l', TString)
    | (None, l') => (mkTok TIllegal [], adv l', TIllegal)
    end
  else if is_digit c then
    let '(ip, r) := take_while is_digit l in
    if (cur r =? 46) && is_digit (peek r) then
      let '(fp, r') := take_while is_digit (adv r) in
      (mkTok TFloat (ip ++ [46] ++ fp), r', TFloat)
    else (mkTok TInt ip, r, TInt)
  else
    let '(id, r) := take_while is_identifier l in
    match id with
    | [] => (mkTok TIllegal [], adv l, prev)     (* invalid character: prevToken unchanged *)
    | _ => let t := lookup_ident id in (mkTok t id, r, t)
    end
  end.

(* The whole token stream, EOF included.  Every call consumes at least one
   code point or reports EOF, so |input|+1 calls suffice (C14). *)
Fixpoint lex_all (fuel : nat) (l : str) (prev : tokty) : option (list token) :=
  match fuel with
  | O => None
  | S f =>
      let '(t, l', prev') := next_token l prev in
      match tty t with
      | TEOF => Some [t]
      | _ => match lex_all f l' prev' with
             | Some ts => Some (t :: ts)
             | None => None
             end
      end
  end.

Definition lex (s : str) : option (list token) := lex_all (S (S (List.length s))) s TEmpty.

(* Extraction of the executable model to OCaml for the correspondence check.
   Directives used: ExtrOcamlBasic only (bool, option, list, prod, unit,
   sumbool -> OCaml), plus ExtrOCamlFloats / ExtrOCamlInt63 for Coq's
   primitive floats.  N, Z, positive stay the extracted inductive types. *)
From Coq Require Extraction.
From Coq Require Import ExtrOcamlBasic ExtrOCamlFloats ExtrOCamlInt63.
From EF Require Import Gen.Tables Model.Base Model.Lexer Model.Ast Model.Parser Model.Value Model.Env Model.Reflect Model.Builtins Model.Code Model.Compiler Model.Optimizer Model.VM Model.Api Spec.Ops Spec.Eval Spec.ExecFun Spec.Moded Model.Verifier Model.OptSafe.
Extraction Language OCaml.
Extraction "model.ml" Lexer.lex Lexer.tokty_name Parser.parse_script Tables.max_depth Api.run_history Api.step Api.new_eval ExecFun.sblock ExecFun.collect_block Moded.well_moded Verifier.verify_program OptSafe.optimize_program_safe Value.hash_key Value.hash_put Builtins.utc_fields Value.inspect.

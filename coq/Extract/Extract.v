(* Extraction of the executable model to OCaml for the correspondence check.
   Directives used: ExtrOcamlBasic only (bool, option, list, prod, unit,
   sumbool -> OCaml), plus ExtrOCamlFloats / ExtrOCamlInt63 for Coq's
   primitive floats.  N, Z, positive stay the extracted inductive types. *)
From Coq Require Extraction.
From Coq Require Import ExtrOcamlBasic.
From EF Require Import Model.Base Model.Lexer.
Extraction Language OCaml.
Extraction "model.ml" Lexer.lex Lexer.tokty_name.

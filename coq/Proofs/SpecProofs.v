(* SpecProofs.v - the reference interpreter of Spec/ExecFun.v characterized in the
   words of properties C02 and C16: what `foreach`, `while`, `switch`, `if / else if /
   else`, the ternary and `return` MEAN in that interpreter, for all programs,
   containers, states and all sufficient fuel.

   The compile-correctness theorems say "the compiled code behaves like the reference
   interpreter"; the theorems here say what the reference interpreter does, so that
   the specification itself is shown to mean what the property says.

   Conventions.  Every interpreter function takes fuel.  A result `XErr EFuel _` means
   "not enough fuel"; every other result is definitive: more fuel gives the very same
   result (`sx_mono` ... below).  The fuel-free reading is
       sx_to e m r  :=  r is not a fuel error and
                        exists n, forall fuel >= n, sx fuel e m = r
   (`block_to`, `while_to` ... alike).  The description functions (`run_body_over`,
   `while_rounds`, `switch_spec` ...) are structurally recursive on the LIST of things
   to visit - entries of the container, rounds, arms - and pass one and the same fuel
   F to every run of a sub-term; the theorems state the fuel needed explicitly.

   Contents.
   A  the defining equations, one step of fuel            (sblock_S, swhile_S, sforeach_S ...)
   B  more fuel, same result                               sx_mono, sblock_mono ...; converges
   C  the open scopes stay                                 sblock_keeps_scopes, sblock_return_scopes
   D  foreach = one run of the body per entry, in order    entries, run_body_over,
        foreach_visits_each_once (+ _inv, foreach_converges, foreach_not_a_container),
        entries_array / _string / _hash / _range, normal_loop_visits_all, body_sees_entry
   E  while, if / else if / else, ternary                  while_unroll, while_runs_k_times,
        while_is_rounds (+ _inv), if_selects, if_first_truthy, if_none_truthy, ternary_selects
   F  switch                                               switch_first_match, switch_no_match,
        switch_is_spec (+ _inv)
   G  blocks and return                                    block_stops_at, return_propagates ...
   I  a decidable class of loop bodies meeting D's side condition   tidy_stack_safe
   H  examples (Module Examples), among them the body that shows the side condition is needed

   What the interpreter does that a reader might not expect (all proved or computed below):
   - foreach relies on cutting the stack back (drop_residue) to the height remembered in the
     loop's scope; a body run that pops BELOW that height - `y = f();` with f returning nothing,
     a lone `x++` - removes the iterator: the loop does not visit the remaining entries but ends
     in an internal error (Examples.foreach_body_may_eat_the_iterator; y then holds the iterated
     container, because an assignment stores the container of an iterator it pops);
   - the subject of a switch is evaluated once per case expression tested, effects included
     (Examples.switch_subject_evaluated_per_test); several default arms would ALL run, in order
     (the parser accepts at most one);
   - a `return` leaves the scopes of the loops it jumps out of open, and their iterators on the
     stack (sblock_return_scopes, Examples.return_from_the_inside); inside a user-defined function
     it ends the function only (call_body);
   - a foreach over a value that is not a container fails with the loop's scope already open.
   Complete proofs only. *)
From Coq Require Import Floats Lia Bool List Permutation Sorted.
From EF Require Import Model.Base Gen.Tables Model.Lexer Model.Ast Model.Code Model.Value Model.Env
                       Model.Reflect Model.Builtins Model.Compiler Model.VM Spec.Ops Spec.Eval
                       Spec.Moded Spec.ExecFun.
From EF Require Proofs.OpsProofs Proofs.ContainerProofs Proofs.DetProofs Proofs.EnvProofs Proofs.ModedProofs.
Import ListNotations.
Open Scope N_scope.

(* a result that only says "the fuel ran out" *)
Definition is_fuel (r : sres) : bool :=
  match r with XErr EFuel _ => true | _ => false end.
Definition is_normal (r : sres) : bool :=
  match r with XNormal _ => true | _ => false end.

Section Spec.
Variables (o : stdlib) (fns : fnmap) (obj : hostval) (afs : aftable).

Notation sx := (sx o fns obj afs).
Notation sxs := (sxs o fns obj afs).
Notation sstmt := (sstmt o fns obj afs).
Notation sblock := (sblock o fns obj afs).
Notation swhile := (swhile o fns obj afs).
Notation sforeach := (sforeach o fns obj afs).
Notation sswitch := (sswitch o fns obj afs).
Notation scase := (scase o fns obj afs).
Notation sdefaults := (sdefaults o fns obj afs).

(* ------------------------------------------------------------------ *)
(* PART A: one step of each function (the defining equations) *)

Lemma sxs_S : forall f l m,
  sxs (S f) l m = match l with [] => XNormal m | e :: l' => then_ (sx f e m) (fun m1 => sxs f l' m1) end.
Proof. reflexivity. Qed.
Lemma sstmt_S : forall f s m,
  sstmt (S f) s m = match s with
                    | SExpr e => sx f e m
                    | SReturn e => then_ (sx f e m) (fun m1 => pop1s m1 (fun v m2 => XReturn v m2))
                    end.
Proof. reflexivity. Qed.
Lemma sblock_S : forall f l m,
  sblock (S f) l m = match l with [] => XNormal m | s :: l' => then_ (sstmt f s m) (fun m1 => sblock f l' m1) end.
Proof. reflexivity. Qed.
Lemma swhile_S : forall f c body m,
  swhile (S f) c body m =
  then_ (sx f c m) (fun m1 => pop1s m1 (fun v m2 =>
    if truthy v then then_ (sblock f body m2) (fun m3 => swhile f c body m3) else XNormal m2)).
Proof. reflexivity. Qed.
Lemma sforeach_S : forall f idx ident it off body m,
  sforeach (S f) idx ident it off body m =
  match foreach_next o it off with
  | Err x => XErr x m
  | Ok (Some (x, k)) =>
      let e1 := env_declare (menv m) (trim_dollar ident) x in
      let e2 := match idx with [] => e1 | _ => env_declare e1 (trim_dollar idx) k end in
      then_ (sblock f body (mkM (VIter it (off + 1) :: stk m) e2 (trace m) (polls m))) (fun m1 =>
        match drop_residue (menv m1) (stk m1) with
        | VIter it' off' :: s' => sforeach f idx ident it' off' body (set_stk m1 s')
        | other :: s' => if iterable other then XErr ENeedOracle (set_stk m1 s') else XErr EScript (set_stk m1 s')
        | [] => XErr EInternal m1
        end)
  | Ok None =>
      match env_pop (menv m) with
      | Some e1 => XNormal (set_menv m e1)
      | None => XErr EScript m
      end
  end.
Proof. reflexivity. Qed.
Lemma sswitch_S : forall f v rest all m,
  sswitch (S f) v rest all m =
  match rest with
  | [] => sdefaults f all m
  | (true, _, _) :: rest' => sswitch f v rest' all m
  | (false, es, blk) :: rest' => scase f v es blk rest' all m
  end.
Proof. reflexivity. Qed.
Lemma scase_S : forall f v es blk rest all m,
  scase (S f) v es blk rest all m =
  match es with
  | [] => sswitch f v rest all m
  | e :: es' =>
      then_ (sx f v m) (fun m1 => then_ (sx f e m1) (fun m2 =>
        pop2s m2 (fun c subj m3 =>
          match vm_case o subj c with
          | Err x => XErr x m3
          | Ok r => if truthy r then sblock f blk m3 else scase f v es' blk rest all m3
          end)))
  end.
Proof. reflexivity. Qed.
Lemma sdefaults_S : forall f all m,
  sdefaults (S f) all m =
  match all with
  | [] => XNormal m
  | (true, _, blk) :: rest => then_ (sblock f blk m) (fun m1 => sdefaults f rest m1)
  | (false, _, _) :: rest => sdefaults f rest m
  end.
Proof. reflexivity. Qed.

(* the control-flow cases of sx *)
Lemma sx_if_S : forall f c cns alt m,
  sx (S f) (EIf c cns alt) m =
  then_ (sx f c m) (fun m1 => pop1s m1 (fun v m2 =>
    if truthy v then sblock f cns m2
    else match alt with Some a => sblock f a m2 | None => XNormal m2 end)).
Proof. reflexivity. Qed.
(* `l.r`: only l is evaluated; every other infix operator evaluates both operands *)
Lemma sx_dot_S : forall g l r m,
  sx (S g) (EInfix TPeriod l r) m =
  then_ (sx g l m) (fun m1 => pop1s m1 (fun a m2 =>
    pushr m2 (match estr 64 r with Some name => spec_index o a (VStr name) | None => Err ENeedOracle end))).
Proof. reflexivity. Qed.
Lemma sx_infix_S : forall g op l r m, op <> TPeriod ->
  sx (S g) (EInfix op l r) m =
  then_ (sx g l m) (fun m1 => then_ (sx g r m1) (fun m2 =>
    match mutator_op op with
    | Some bop =>
        match l with
        | EIdent name =>
            pop2s m2 (fun b a m3 =>
              match spec_binop o bop a b with
              | Ok v => XNormal (set_menv m3 (env_set (menv m3) (trim_dollar name) v))
              | Err x => XErr x m3
              end)
        | _ => XErr ENeedOracle m2
        end
    | None =>
        pop2s m2 (fun b a m3 =>
          pushr m3 (match binop_of_tok op with
                    | Some bop => spec_binop o bop a b
                    | None => match op with
                              | TDotDot => vm_range a b
                              | _ => Err EInternal
                              end
                    end))
    end)).
Proof.
  intros g op l r m Hne.
  destruct op; try (exfalso; apply Hne; reflexivity); reflexivity.
Qed.
Lemma sx_ternary_S : forall f c t e m,
  sx (S f) (ETernary c t e) m =
  then_ (sx f c m) (fun m1 => pop1s m1 (fun v m2 => if truthy v then sx f t m2 else sx f e m2)).
Proof. reflexivity. Qed.
Lemma sx_while_S : forall f c body m, sx (S f) (EWhile c body) m = swhile f c body m.
Proof. reflexivity. Qed.
Lemma sx_switch_S : forall f v cs m, sx (S f) (ESwitch v cs) m = sswitch f v cs cs m.
Proof. reflexivity. Qed.
Lemma sx_foreach_S : forall f idx ident v body m,
  sx (S f) (EForeach idx ident v body) m =
  then_ (sx f v m) (fun m1 =>
    let e1 := env_push (menv m1) (lenN (stk m1)) in
    match stk m1 with
    | [] => XErr EInternal (set_menv m1 e1)
    | it :: s =>
        if iterable it then sforeach f idx ident it 0 body (mkM s e1 (trace m1) (polls m1))
        else XErr EScript (mkM s e1 (trace m1) (polls m1))
    end).
Proof. reflexivity. Qed.

(* the call of a function, the sub-evaluations (arguments, body of a user-defined function) abstracted *)
Definition call_body (ev_args : list expr -> mstate -> sres) (ev_block : list stmt -> mstate -> sres)
                     (oname : option str) (args : list expr) (m : mstate) : sres :=
  match oname with
  | None => XErr ENeedOracle m
  | Some name =>
      then_ (ev_args args m) (fun m1 =>
        match pop_n (List.length args) (stk m1) [] with
        | None => XErr EInternal m1
        | Some (vals, s) =>
            match fn_get name fns with
            | Some (FBuiltin bn) =>
                match call_builtin o bn vals with
                | None => XErr ENeedOracle m1
                | Some r => match of_bres r with
                            | Ok v => XNormal (set_stk m1 (match v with VVoid => s | _ => v :: s end))
                            | Err x => XErr x (set_stk m1 s)
                            end
                end
            | Some (FHost k) =>
                let m2 := mkM s (menv m1) (mkCall name vals :: trace m1) (polls m1) in
                match host_call k vals with
                | Ok v => XNormal (set_stk m2 (match v with VVoid => s | _ => v :: s end))
                | Err x => XErr x m2
                end
            | None =>
                match af_get name afs with
                | None => XErr EScript (set_stk m1 s)
                | Some af =>
                    if negb (Nat.eqb (List.length (aparams af)) (List.length vals)) then XErr EScript (set_stk m1 s)
                    else if negb (max_call_depth =? 0) && (max_call_depth <=? N.of_nat (env_depth (menv m1)))
                    then XErr EScript (set_stk m1 s)
                    else
                      let depth := env_depth (menv m1) in
                      let e1 := declare_all (env_push_frame (menv m1)) (aparams af) vals in
                      let back (m2 : mstate) (st : list value) :=
                        mkM st (env_truncate (menv m2) depth) (trace m2) (polls m2) in
                      match ev_block (abody af) (mkM [] e1 (trace m1) (polls m1)) with
                      | XReturn out m2 => XNormal (back m2 (match out with VVoid => s | _ => out :: s end))
                      | XNormal m2 => XNormal (back m2 s)
                      | XErr x m2 => XErr x (back m2 s)
                      end
                end
            end
        end)
  end.
Lemma sx_call_S : forall f fn args m,
  sx (S f) (ECall fn args) m = call_body (sxs f) (sblock f) (estr 64 fn) args m.
Proof. intros f fn args m. cbn [sx]. generalize (estr 64 fn). intros [name|]; reflexivity. Qed.

Lemma fuel_O : forall e l s b c body idx ident it off v rest all es blk m,
  sx O e m = XErr EFuel m /\ sxs O l m = XErr EFuel m /\ sstmt O s m = XErr EFuel m /\
  sblock O b m = XErr EFuel m /\ swhile O c body m = XErr EFuel m /\
  sforeach O idx ident it off body m = XErr EFuel m /\ sswitch O v rest all m = XErr EFuel m /\
  scase O v es blk rest all m = XErr EFuel m /\ sdefaults O all m = XErr EFuel m.
Proof. intros. repeat split; reflexivity. Qed.

(* ------------------------------------------------------------------ *)
(* PART B: a definitive result does not depend on the fuel *)

Lemma then_mono : forall r r' k k',
  (is_fuel r = false -> r' = r) ->
  (forall m1, is_fuel (k m1) = false -> k' m1 = k m1) ->
  is_fuel (then_ r k) = false -> then_ r' k' = then_ r k.
Proof.
  intros r r' k k' Hr Hk H. destruct r as [m1|v m1|x m1]; cbn [then_] in *.
  - rewrite Hr by reflexivity. cbn [then_]. apply Hk. exact H.
  - rewrite Hr by reflexivity. reflexivity.
  - rewrite Hr by exact H. reflexivity.
Qed.
Lemma pop1s_mono : forall m k k',
  (forall v m2, is_fuel (k v m2) = false -> k' v m2 = k v m2) ->
  is_fuel (pop1s m k) = false -> pop1s m k' = pop1s m k.
Proof. intros m k k' Hk H. unfold pop1s in *. destruct (stk m); [reflexivity|]. apply Hk. exact H. Qed.
Lemma pop2s_mono : forall m k k',
  (forall a b m2, is_fuel (k a b m2) = false -> k' a b m2 = k a b m2) ->
  is_fuel (pop2s m k) = false -> pop2s m k' = pop2s m k.
Proof.
  intros m k k' Hk H. unfold pop2s in *. destruct (stk m) as [|a [|b s]]; [reflexivity|reflexivity|].
  apply Hk. exact H.
Qed.

Lemma call_body_mono : forall (xa xa' : list expr -> mstate -> sres) (xb xb' : list stmt -> mstate -> sres) oname args m,
  (forall l m, is_fuel (xa l m) = false -> xa' l m = xa l m) ->
  (forall b m, is_fuel (xb b m) = false -> xb' b m = xb b m) ->
  is_fuel (call_body xa xb oname args m) = false ->
  call_body xa' xb' oname args m = call_body xa xb oname args m.
Proof.
  intros xa xa' xb xb' [name|] args m Ha Hb H; [|reflexivity]. unfold call_body in *.
  apply then_mono; [apply Ha| |exact H].
  intros m1 H1. destruct (pop_n (List.length args) (stk m1) []) as [[vals s]|]; [|reflexivity].
  destruct (fn_get name fns) as [[bn|k]|]; [reflexivity|reflexivity|].
  destruct (af_get name afs) as [af|]; [|reflexivity].
  destruct (negb (Nat.eqb (List.length (aparams af)) (List.length vals))); [reflexivity|].
  destruct (negb (max_call_depth =? 0) && (max_call_depth <=? N.of_nat (env_depth (menv m1)))); [reflexivity|].
  cbv zeta in *.
  rewrite Hb; [reflexivity|].
  destruct (xb (abody af) _) as [m2|out m2|x m2]; try reflexivity.
  destruct x; try reflexivity. exact H1.
Qed.

Definition MONO (f : nat) : Prop :=
  (forall e m, is_fuel (sx f e m) = false -> sx (S f) e m = sx f e m) /\
  (forall l m, is_fuel (sxs f l m) = false -> sxs (S f) l m = sxs f l m) /\
  (forall s m, is_fuel (sstmt f s m) = false -> sstmt (S f) s m = sstmt f s m) /\
  (forall b m, is_fuel (sblock f b m) = false -> sblock (S f) b m = sblock f b m) /\
  (forall c body m, is_fuel (swhile f c body m) = false -> swhile (S f) c body m = swhile f c body m) /\
  (forall idx ident it off body m, is_fuel (sforeach f idx ident it off body m) = false ->
     sforeach (S f) idx ident it off body m = sforeach f idx ident it off body m) /\
  (forall v rest all m, is_fuel (sswitch f v rest all m) = false -> sswitch (S f) v rest all m = sswitch f v rest all m) /\
  (forall v es blk rest all m, is_fuel (scase f v es blk rest all m) = false ->
     scase (S f) v es blk rest all m = scase f v es blk rest all m) /\
  (forall all m, is_fuel (sdefaults f all m) = false -> sdefaults (S f) all m = sdefaults f all m).

Lemma sx_step_mono : forall f, MONO f ->
  forall e m, is_fuel (sx (S f) e m) = false -> sx (S (S f)) e m = sx (S f) e m.
Proof.
  intros f (Hx & Hxs & Hst & Hb & Hw & Hf & Hsw & Hc & Hd) e m H.
  destruct e as [t z|t x|s|b|v fl|n|op r|op l r|n op|c t e'|l|l|l i|fn args|n v|n|c cns alt|c body|idx ident v body|n ps b|v cs];
    try reflexivity.
  - (* EPrefix *)
    change (then_ (sx (S f) r m) (fun m1 => pop1s m1 (fun v m2 =>
              pushr m2 (match op with
                        | TBang => Ok (vm_bang v) | TMinus => vm_minus v | TSqrt => vm_sqrt v | _ => Err EInternal
                        end))) =
            then_ (sx f r m) (fun m1 => pop1s m1 (fun v m2 =>
              pushr m2 (match op with
                        | TBang => Ok (vm_bang v) | TMinus => vm_minus v | TSqrt => vm_sqrt v | _ => Err EInternal
                        end)))).
    apply then_mono; [apply Hx|reflexivity|exact H].
  - (* EInfix *)
    destruct (tokty_eq_dec op TPeriod) as [->|Hne].
    { (* `l.r`: only l is evaluated *)
      change (then_ (sx (S f) l m) (fun m1 => pop1s m1 (fun a m2 =>
                pushr m2 (match estr 64 r with Some name => spec_index o a (VStr name) | None => Err ENeedOracle end))) =
              then_ (sx f l m) (fun m1 => pop1s m1 (fun a m2 =>
                pushr m2 (match estr 64 r with Some name => spec_index o a (VStr name) | None => Err ENeedOracle end)))).
      apply then_mono; [apply Hx|reflexivity|exact H]. }
    rewrite sx_infix_S in H by exact Hne. rewrite !sx_infix_S by exact Hne.
    apply then_mono; [apply Hx| |exact H].
    intros m1 H1. apply then_mono; [apply Hx|reflexivity|exact H1].
  - (* ETernary *)
    rewrite sx_ternary_S in H; rewrite !sx_ternary_S. apply then_mono; [apply Hx| |exact H].
    intros m1 H1. apply pop1s_mono; [|exact H1]. intros v m2 H2.
    destruct (truthy v); apply Hx; exact H2.
  - (* EArray *)
    change (then_ (sxs (S f) l m) (fun m1 =>
              match pop_n (List.length l) (stk m1) [] with
              | Some (elems, s) => XNormal (set_stk m1 (VArray elems :: s))
              | None => XErr EInternal m1
              end) =
            then_ (sxs f l m) (fun m1 =>
              match pop_n (List.length l) (stk m1) [] with
              | Some (elems, s) => XNormal (set_stk m1 (VArray elems :: s))
              | None => XErr EInternal m1
              end)).
    apply then_mono; [apply Hxs|reflexivity|exact H].
  - (* EIndex *)
    change (then_ (sx (S f) l m) (fun m1 => then_ (sx (S f) i m1) (fun m2 =>
              pop2s m2 (fun b a m3 => pushr m3 (spec_index o a b)))) =
            then_ (sx f l m) (fun m1 => then_ (sx f i m1) (fun m2 =>
              pop2s m2 (fun b a m3 => pushr m3 (spec_index o a b))))).
    apply then_mono; [apply Hx| |exact H].
    intros m1 H1. apply then_mono; [apply Hx|reflexivity|exact H1].
  - (* ECall *)
    rewrite sx_call_S in H; rewrite !sx_call_S.
    apply call_body_mono; [intros; apply Hxs; assumption|intros; apply Hb; assumption|exact H].
  - (* EAssign *)
    change (then_ (sx (S f) v m) (fun m1 => pop1s m1 (fun x m2 =>
              XNormal (set_menv m2 (env_set (menv m2) (trim_dollar n) (match x with VIter y _ => y | _ => x end))))) =
            then_ (sx f v m) (fun m1 => pop1s m1 (fun x m2 =>
              XNormal (set_menv m2 (env_set (menv m2) (trim_dollar n) (match x with VIter y _ => y | _ => x end)))))).
    apply then_mono; [apply Hx|reflexivity|exact H].
  - (* EIf *)
    rewrite sx_if_S in H; rewrite !sx_if_S. apply then_mono; [apply Hx| |exact H].
    intros m1 H1. apply pop1s_mono; [|exact H1]. intros v m2 H2.
    destruct (truthy v); [apply Hb; exact H2|].
    destruct alt; [apply Hb; exact H2|reflexivity].
  - (* EWhile *)
    rewrite sx_while_S in H; rewrite !sx_while_S. apply Hw. exact H.
  - (* EForeach *)
    rewrite sx_foreach_S in H; rewrite !sx_foreach_S. apply then_mono; [apply Hx| |exact H].
    intros m1 H1. cbv zeta in *. destruct (stk m1) as [|it s]; [reflexivity|].
    destruct (iterable it); [|reflexivity]. apply Hf. exact H1.
  - (* ESwitch *)
    rewrite sx_switch_S in H; rewrite !sx_switch_S. apply Hsw. exact H.
Qed.

Lemma mono_all : forall f, MONO f.
Proof.
  induction f as [|f IH].
  - unfold MONO. repeat split; intros; discriminate.
  - pose proof IH as (Hx & Hxs & Hst & Hb & Hw & Hf & Hsw & Hc & Hd).
    unfold MONO. repeat split.
    + apply sx_step_mono. exact IH.
    + intros l m H. rewrite sxs_S in H; rewrite !sxs_S. destruct l as [|e l]; [reflexivity|].
      apply then_mono; [apply Hx| |exact H]. intros m1 H1. apply Hxs. exact H1.
    + intros s m H. rewrite sstmt_S in H; rewrite !sstmt_S. destruct s.
      * apply then_mono; [apply Hx|reflexivity|exact H].
      * apply Hx. exact H.
    + intros b m H. rewrite sblock_S in H; rewrite !sblock_S. destruct b as [|s b]; [reflexivity|].
      apply then_mono; [apply Hst| |exact H]. intros m1 H1. apply Hb. exact H1.
    + intros c body m H. rewrite swhile_S in H; rewrite !swhile_S.
      apply then_mono; [apply Hx| |exact H]. intros m1 H1.
      apply pop1s_mono; [|exact H1]. intros v m2 H2. destruct (truthy v); [|reflexivity].
      apply then_mono; [apply Hb| |exact H2]. intros m3 H3. apply Hw. exact H3.
    + intros idx ident it off body m H. rewrite sforeach_S in H; rewrite !sforeach_S.
      destruct (foreach_next o it off) as [[[x k]|]|x]; [|reflexivity|reflexivity].
      cbv zeta in *. apply then_mono; [apply Hb| |exact H]. intros m1 H1.
      destruct (drop_residue (menv m1) (stk m1)) as [|[] s']; try reflexivity.
      apply Hf. exact H1.
    + intros v rest all m H. rewrite sswitch_S in H; rewrite !sswitch_S.
      destruct rest as [|[[[] es] blk] rest]; [apply Hd|apply Hsw|apply Hc]; exact H.
    + intros v es blk rest all m H. rewrite scase_S in H; rewrite !scase_S.
      destruct es as [|e es]; [apply Hsw; exact H|].
      apply then_mono; [apply Hx| |exact H]. intros m1 H1.
      apply then_mono; [apply Hx| |exact H1]. intros m2 H2.
      apply pop2s_mono; [|exact H2]. intros c subj m3 H3.
      destruct (vm_case o subj c) as [r|x]; [|reflexivity].
      destruct (truthy r); [apply Hb|apply Hc]; exact H3.
    + intros all m H. rewrite sdefaults_S in H; rewrite !sdefaults_S.
      destruct all as [|[[[] es] blk] rest]; [reflexivity| |apply Hd; exact H].
      apply then_mono; [apply Hb| |exact H]. intros m1 H1. apply Hd. exact H1.
Qed.


Definition monotone (run : nat -> sres) : Prop :=
  forall f, is_fuel (run f) = false -> run (S f) = run f.

Lemma mono_le : forall run, monotone run ->
  forall f f', (f <= f')%nat -> is_fuel (run f) = false -> run f' = run f.
Proof.
  intros run Hm f f' Hle H. induction Hle as [|f' Hle IH]; [reflexivity|].
  rewrite Hm; [exact IH|]. rewrite IH. exact H.
Qed.

Lemma sx_monotone : forall e m, monotone (fun f => sx f e m).
Proof. intros e m f. apply (mono_all f). Qed.
Lemma sxs_monotone : forall l m, monotone (fun f => sxs f l m).
Proof. intros l m f. apply (mono_all f). Qed.
Lemma sstmt_monotone : forall s m, monotone (fun f => sstmt f s m).
Proof. intros s m f. apply (mono_all f). Qed.
Lemma sblock_monotone : forall b m, monotone (fun f => sblock f b m).
Proof. intros b m f. apply (mono_all f). Qed.
Lemma swhile_monotone : forall c body m, monotone (fun f => swhile f c body m).
Proof. intros c body m f. apply (mono_all f). Qed.
Lemma sforeach_monotone : forall idx ident it off body m, monotone (fun f => sforeach f idx ident it off body m).
Proof. intros idx ident it off body m f. apply (mono_all f). Qed.
Lemma sswitch_monotone : forall v rest all m, monotone (fun f => sswitch f v rest all m).
Proof. intros v rest all m f. apply (mono_all f). Qed.
Lemma scase_monotone : forall v es blk rest all m, monotone (fun f => scase f v es blk rest all m).
Proof. intros v es blk rest all m f. apply (mono_all f). Qed.
Lemma sdefaults_monotone : forall all m, monotone (fun f => sdefaults f all m).
Proof. intros all m f. apply (mono_all f). Qed.

(* MORE FUEL, SAME RESULT: a result other than "out of fuel" is final *)
Theorem sx_mono : forall f f' e m, (f <= f')%nat -> is_fuel (sx f e m) = false -> sx f' e m = sx f e m.
Proof. intros f f' e m. apply (mono_le _ (sx_monotone e m)). Qed.
Theorem sxs_mono : forall f f' l m, (f <= f')%nat -> is_fuel (sxs f l m) = false -> sxs f' l m = sxs f l m.
Proof. intros f f' l m. apply (mono_le _ (sxs_monotone l m)). Qed.
Theorem sstmt_mono : forall f f' s m, (f <= f')%nat -> is_fuel (sstmt f s m) = false -> sstmt f' s m = sstmt f s m.
Proof. intros f f' s m. apply (mono_le _ (sstmt_monotone s m)). Qed.
Theorem sblock_mono : forall f f' b m, (f <= f')%nat -> is_fuel (sblock f b m) = false -> sblock f' b m = sblock f b m.
Proof. intros f f' b m. apply (mono_le _ (sblock_monotone b m)). Qed.
Theorem swhile_mono : forall f f' c body m, (f <= f')%nat -> is_fuel (swhile f c body m) = false ->
  swhile f' c body m = swhile f c body m.
Proof. intros f f' c body m. apply (mono_le _ (swhile_monotone c body m)). Qed.
Theorem sforeach_mono : forall f f' idx ident it off body m, (f <= f')%nat ->
  is_fuel (sforeach f idx ident it off body m) = false ->
  sforeach f' idx ident it off body m = sforeach f idx ident it off body m.
Proof. intros f f' idx ident it off body m. apply (mono_le _ (sforeach_monotone idx ident it off body m)). Qed.
Theorem sswitch_mono : forall f f' v rest all m, (f <= f')%nat -> is_fuel (sswitch f v rest all m) = false ->
  sswitch f' v rest all m = sswitch f v rest all m.
Proof. intros f f' v rest all m. apply (mono_le _ (sswitch_monotone v rest all m)). Qed.
Theorem scase_mono : forall f f' v es blk rest all m, (f <= f')%nat -> is_fuel (scase f v es blk rest all m) = false ->
  scase f' v es blk rest all m = scase f v es blk rest all m.
Proof. intros f f' v es blk rest all m. apply (mono_le _ (scase_monotone v es blk rest all m)). Qed.
Theorem sdefaults_mono : forall f f' all m, (f <= f')%nat -> is_fuel (sdefaults f all m) = false ->
  sdefaults f' all m = sdefaults f all m.
Proof. intros f f' all m. apply (mono_le _ (sdefaults_monotone all m)). Qed.

(* the fuel-free reading: `run` (a function of the fuel) ends with the definitive result r *)
Definition converges (run : nat -> sres) (r : sres) : Prop :=
  is_fuel r = false /\ exists n, forall fuel, (n <= fuel)%nat -> run fuel = r.

Lemma converges_intro : forall run n r, monotone run -> run n = r -> is_fuel r = false -> converges run r.
Proof.
  intros run n r Hm E H. split; [exact H|]. exists n. intros fuel Hle.
  rewrite <- E. apply mono_le; [exact Hm|exact Hle|]. rewrite E. exact H.
Qed.
Lemma converges_det : forall run r r', converges run r -> converges run r' -> r = r'.
Proof.
  intros run r r' (_ & n & H) (_ & n' & H').
  rewrite <- (H (Nat.max n n')) by lia. apply H'. lia.
Qed.
Lemma converges_at : forall run r n, monotone run -> converges run r -> is_fuel (run n) = false -> run n = r.
Proof.
  intros run r n Hm Hc H. apply (converges_det run); [|exact Hc].
  apply (converges_intro run n); [exact Hm|reflexivity|exact H].
Qed.
Lemma converges_ext : forall run run' r, (forall f, run f = run' f) -> converges run r -> converges run' r.
Proof. intros run run' r E (H & n & Hn). split; [exact H|]. exists n. intros. rewrite <- E. apply Hn. assumption. Qed.

Definition sx_to (e : expr) (m : mstate) (r : sres) : Prop := converges (fun f => sx f e m) r.
Definition stmt_to (s : stmt) (m : mstate) (r : sres) : Prop := converges (fun f => sstmt f s m) r.
Definition block_to (b : list stmt) (m : mstate) (r : sres) : Prop := converges (fun f => sblock f b m) r.

(* ------------------------------------------------------------------ *)
(* PART C: the open scopes.  A run that completes normally leaves exactly the scopes open that
   were open before (their KINDS - call frame / loop with its remembered stack height - are
   unchanged; their contents change by assignment); a `return` may leave scopes of the loops
   it jumped out of on top of them. *)

Definition kinds (m : mstate) : list skind := map fst (scopes (menv m)).

Definition res_ok (P : mstate -> Prop) (ks : list skind) (r : sres) : Prop :=
  match r with
  | XNormal m' => P m'
  | XReturn _ m' => exists pre, kinds m' = pre ++ ks
  | XErr _ _ => True
  end.
Definition keeps (ks : list skind) (r : sres) : Prop := res_ok (fun m' => kinds m' = ks) ks r.
Definition closes (ks : list skind) (r : sres) : Prop := res_ok (fun m' => kinds m' = tl ks) ks r.

Lemma res_ok_then : forall P ks r k,
  keeps ks r -> (forall m1, kinds m1 = ks -> res_ok P ks (k m1)) -> res_ok P ks (then_ r k).
Proof. intros P ks [m1|v m1|x m1] k H Hk; cbn [then_]; [apply Hk; exact H|exact H|exact I]. Qed.
Lemma res_ok_pop1s : forall P ks m k,
  (forall v s, res_ok P ks (k v (set_stk m s))) -> res_ok P ks (pop1s m k).
Proof. intros P ks m k H. unfold pop1s. destruct (stk m); [exact I|apply H]. Qed.
Lemma res_ok_pop2s : forall P ks m k,
  (forall a b s, res_ok P ks (k a b (set_stk m s))) -> res_ok P ks (pop2s m k).
Proof. intros P ks m k H. unfold pop2s. destruct (stk m) as [|a [|b s]]; [exact I|exact I|apply H]. Qed.
Lemma keeps_pushr : forall m r, keeps (kinds m) (pushr m r).
Proof. intros m [v|x]; cbn; [reflexivity|exact I]. Qed.

Lemma kinds_local_update : forall n v ss, map fst (local_update n v ss) = map fst ss.
Proof.
  intros n v ss. induction ss as [|[fr s] ss IH]; [reflexivity|]. cbn [local_update].
  destruct (assoc_get n s); [reflexivity|]. destruct (is_frame fr); [reflexivity|].
  cbn [map fst]. rewrite IH. reflexivity.
Qed.
Lemma kinds_env_set : forall e n v, map fst (scopes (env_set e n v)) = map fst (scopes e).
Proof.
  intros e n v. unfold env_set. destruct (local_get n (scopes e)); cbn [scopes]; [apply kinds_local_update|reflexivity].
Qed.
Lemma kinds_env_declare : forall e n v, map fst (scopes (env_declare e n v)) = map fst (scopes e).
Proof. intros e n v. unfold env_declare. destruct (scopes e) as [|[fr s] ss] eqn:E; [rewrite E|]; reflexivity. Qed.
Lemma kinds_declare_all : forall ns vs e, map fst (scopes (declare_all e ns vs)) = map fst (scopes e).
Proof.
  induction ns as [|n ns IH]; intros vs e; [reflexivity|]. destruct vs as [|v vs]; [reflexivity|].
  cbn [declare_all]. rewrite IH. apply kinds_env_declare.
Qed.
Lemma kinds_set_menv : forall m e, kinds (set_menv m e) = map fst (scopes e).
Proof. reflexivity. Qed.
Lemma truncate_kinds : forall e pre k ks,
  map fst (scopes e) = pre ++ k :: ks ->
  map fst (scopes (env_truncate e (List.length ks))) = ks.
Proof.
  intros e pre k ks H. unfold env_truncate. cbn [scopes]. rewrite <- skipn_map, H.
  assert (L : List.length (scopes e) = (List.length pre + S (List.length ks))%nat).
  { rewrite <- (map_length fst), H, app_length. reflexivity. }
  rewrite L. replace (List.length pre + S (List.length ks) - List.length ks)%nat with (List.length (pre ++ [k])).
  2:{ rewrite app_length. cbn. lia. }
  replace (pre ++ k :: ks) with ((pre ++ [k]) ++ ks) by (rewrite <- app_assoc; reflexivity).
  rewrite skipn_app, skipn_all, Nat.sub_diag. reflexivity.
Qed.

Lemma call_body_keeps : forall (xa : list expr -> mstate -> sres) (xb : list stmt -> mstate -> sres) oname args m,
  (forall l m, keeps (kinds m) (xa l m)) ->
  (forall b m, keeps (kinds m) (xb b m)) ->
  keeps (kinds m) (call_body xa xb oname args m).
Proof.
  intros xa xb [name|] args m Ha Hb; [|exact I]. unfold call_body.
  apply res_ok_then; [apply Ha|]. intros m1 K1.
  destruct (pop_n (List.length args) (stk m1) []) as [[vals s]|]; [|exact I].
  destruct (fn_get name fns) as [[bn|k]|].
  - destruct (call_builtin o bn vals) as [r|]; [|exact I]. destruct (of_bres r); [exact K1|exact I].
  - cbv zeta. destruct (host_call k vals); [exact K1|exact I].
  - destruct (af_get name afs) as [af|]; [|exact I].
    destruct (negb (Nat.eqb (List.length (aparams af)) (List.length vals))); [exact I|].
    destruct (negb (max_call_depth =? 0) && (max_call_depth <=? N.of_nat (env_depth (menv m1)))); [exact I|].
    cbv zeta.
    set (m0 := mkM [] (declare_all (env_push_frame (menv m1)) (aparams af) vals) (trace m1) (polls m1)).
    assert (K0 : kinds m0 = SFrame :: kinds m).
    { unfold kinds, m0. cbn [menv]. rewrite kinds_declare_all. cbn. f_equal. exact K1. }
    assert (D : env_depth (menv m1) = List.length (kinds m)).
    { unfold env_depth. rewrite <- K1. unfold kinds. rewrite map_length. reflexivity. }
    pose proof (Hb (abody af) m0) as H0. rewrite K0 in H0.
    destruct (xb (abody af) m0) as [m2|out m2|x m2]; cbn in H0 |- *; [| |exact I].
    + unfold kinds. cbn [menv]. rewrite D. apply (truncate_kinds _ [] SFrame). exact H0.
    + destruct H0 as (pre & H0). unfold kinds. cbn [menv]. rewrite D. apply (truncate_kinds _ pre SFrame). exact H0.
Qed.

Definition KEEP (f : nat) : Prop :=
  (forall e m, keeps (kinds m) (sx f e m)) /\
  (forall l m, keeps (kinds m) (sxs f l m)) /\
  (forall s m, keeps (kinds m) (sstmt f s m)) /\
  (forall b m, keeps (kinds m) (sblock f b m)) /\
  (forall c body m, keeps (kinds m) (swhile f c body m)) /\
  (forall idx ident it off body m, closes (kinds m) (sforeach f idx ident it off body m)) /\
  (forall v rest all m, keeps (kinds m) (sswitch f v rest all m)) /\
  (forall v es blk rest all m, keeps (kinds m) (scase f v es blk rest all m)) /\
  (forall all m, keeps (kinds m) (sdefaults f all m)).

Lemma sx_step_keeps : forall f, KEEP f -> forall e m, keeps (kinds m) (sx (S f) e m).
Proof.
  intros f (Hx & Hxs & Hst & Hb & Hw & Hf & Hsw & Hc & Hd) e m.
  destruct e as [t z|t x|s|b|v fl|n|op r|op l r|n op|c t e'|l|l|l i|fn args|n v|n|c cns alt|c body|idx ident v body|n ps b|v cs].
  1-5: reflexivity.
  - (* EIdent *) cbn [ExecFun.sx]. apply keeps_pushr.
  - (* EPrefix *) cbn [ExecFun.sx]. apply res_ok_then; [apply Hx|]. intros m1 K1.
    apply res_ok_pop1s. intros v s. rewrite <- K1. apply (keeps_pushr (set_stk m1 s)).
  - (* EInfix *)
    destruct (tokty_eq_dec op TPeriod) as [->|Hne].
    { rewrite sx_dot_S. generalize (estr 64 r) as on. intro on.
      apply res_ok_then; [apply Hx|]. intros m1 K1.
      apply res_ok_pop1s. intros v s. rewrite <- K1. apply (keeps_pushr (set_stk m1 s)). }
    rewrite sx_infix_S by exact Hne. apply res_ok_then; [apply Hx|]. intros m1 K1.
    apply res_ok_then; [rewrite <- K1; apply Hx|]. intros m2 K2.
    destruct (mutator_op op).
    + destruct l; try exact I. apply res_ok_pop2s. intros a b' s.
      destruct (spec_binop o b b' a); [|exact I]. unfold keeps, res_ok, kinds in *; cbn [menv set_menv set_stk] in *; rewrite kinds_env_set. exact K2.
    + apply res_ok_pop2s. intros a b s. rewrite <- K2. apply (keeps_pushr (set_stk m2 s)).
  - (* EPostfix *) cbn [ExecFun.sx]. destruct (lookup o obj (menv m) n) as [v|x]; [|exact I].
    destruct (match v with VInt z => _ | VFloat x => _ | _ => None end) as [v'|]; [|exact I].
    cbv zeta. destruct (stk (set_menv m (env_set (menv m) (trim_dollar n) v'))); [exact I|].
    unfold keeps, res_ok, kinds in *; cbn [menv set_menv set_stk] in *; rewrite kinds_env_set. reflexivity.
  - (* ETernary *) rewrite sx_ternary_S. apply res_ok_then; [apply Hx|]. intros m1 K1.
    apply res_ok_pop1s. intros v s. rewrite <- K1. destruct (truthy v); apply (Hx _ (set_stk m1 s)).
  - (* EArray *) cbn [ExecFun.sx]. apply res_ok_then; [apply Hxs|]. intros m1 K1.
    destruct (pop_n (List.length l) (stk m1) []) as [[elems s]|]; [exact K1|exact I].
  - (* EHash *) exact I.
  - (* EIndex *) cbn [ExecFun.sx]. apply res_ok_then; [apply Hx|]. intros m1 K1.
    apply res_ok_then; [rewrite <- K1; apply Hx|]. intros m2 K2.
    apply res_ok_pop2s. intros a b s. rewrite <- K2. apply (keeps_pushr (set_stk m2 s)).
  - (* ECall *) rewrite sx_call_S. apply call_body_keeps; [apply Hxs|apply Hb].
  - (* EAssign *) cbn [ExecFun.sx]. apply res_ok_then; [apply Hx|]. intros m1 K1.
    apply res_ok_pop1s. intros x s. unfold keeps, res_ok, kinds in *; cbn [menv set_menv set_stk] in *; rewrite kinds_env_set. exact K1.
  - (* ELocal *) unfold keeps, res_ok, kinds; cbn [ExecFun.sx menv set_menv]. rewrite kinds_env_declare. reflexivity.
  - (* EIf *) rewrite sx_if_S. apply res_ok_then; [apply Hx|]. intros m1 K1.
    apply res_ok_pop1s. intros v s. rewrite <- K1. destruct (truthy v); [apply (Hb _ (set_stk m1 s))|].
    destruct alt; [apply (Hb _ (set_stk m1 s))|reflexivity].
  - (* EWhile *) rewrite sx_while_S. apply Hw.
  - (* EForeach *) rewrite sx_foreach_S. apply res_ok_then; [apply Hx|]. intros m1 K1.
    cbv zeta. destruct (stk m1) as [|it s] eqn:Es; [exact I|]. destruct (iterable it); [|exact I].
    set (m0 := mkM s (env_push (menv m1) (lenN (it :: s))) (trace m1) (polls m1)).
    pose proof (Hf idx ident it 0 body m0) as H0.
    assert (K0 : kinds m0 = SLoop (lenN (it :: s)) :: kinds m) by (unfold m0, kinds; cbn; f_equal; exact K1).
    rewrite K0 in H0. unfold closes in H0.
    destruct (sforeach f idx ident it 0 body m0) as [m'|v' m'|x m']; cbn in H0 |- *; [exact H0| |exact I].
    destruct H0 as (pre & H0). exists (pre ++ [SLoop (lenN (it :: s))]). rewrite <- app_assoc. exact H0.
  - (* EFunction *) reflexivity.
  - (* ESwitch *) rewrite sx_switch_S. apply Hsw.
Qed.

Lemma keep_all : forall f, KEEP f.
Proof.
  induction f as [|f IH].
  - unfold KEEP. repeat split; intros; exact I.
  - pose proof IH as (Hx & Hxs & Hst & Hb & Hw & Hf & Hsw & Hc & Hd).
    unfold KEEP. repeat split.
    + apply sx_step_keeps. exact IH.
    + intros l m. rewrite sxs_S. destruct l as [|e l]; [reflexivity|].
      apply res_ok_then; [apply Hx|]. intros m1 K1. rewrite <- K1. apply Hxs.
    + intros s m. rewrite sstmt_S. destruct s.
      * apply res_ok_then; [apply Hx|]. intros m1 K1. apply res_ok_pop1s. intros v s. exists []. exact K1.
      * apply Hx.
    + intros b m. rewrite sblock_S. destruct b as [|s b]; [reflexivity|].
      apply res_ok_then; [apply Hst|]. intros m1 K1. rewrite <- K1. apply Hb.
    + intros c body m. rewrite swhile_S. apply res_ok_then; [apply Hx|]. intros m1 K1.
      apply res_ok_pop1s. intros v s. destruct (truthy v); [|exact K1].
      apply res_ok_then; [rewrite <- K1; apply (Hb _ (set_stk m1 s))|]. intros m3 K3. rewrite <- K3. apply Hw.
    + intros idx ident it off body m. rewrite sforeach_S.
      destruct (foreach_next o it off) as [[[x k]|]|x]; [| |exact I].
      * cbv zeta.
        set (mb := mkM _ _ _ _).
        assert (Kb : kinds mb = kinds m).
        { unfold mb, kinds. cbn [menv]. destruct idx; [|rewrite kinds_env_declare]; apply kinds_env_declare. }
        apply res_ok_then; [rewrite <- Kb; apply Hb|]. intros m1 K1.
        destruct (drop_residue (menv m1) (stk m1)) as [|top s']; [exact I|].
        destruct top; try exact I.
        rewrite <- K1. apply (Hf _ _ _ _ _ (set_stk m1 s')).
      * unfold env_pop. unfold closes, res_ok, kinds.
        destruct (scopes (menv m)) as [|sc ss]; [exact I|]. reflexivity.
    + intros v rest all m. rewrite sswitch_S.
      destruct rest as [|[[[] es] blk] rest]; [apply Hd|apply Hsw|apply Hc].
    + intros v es blk rest all m. rewrite scase_S. destruct es as [|e es]; [apply Hsw|].
      apply res_ok_then; [apply Hx|]. intros m1 K1.
      apply res_ok_then; [rewrite <- K1; apply Hx|]. intros m2 K2.
      apply res_ok_pop2s. intros c subj s. destruct (vm_case o subj c) as [r|x]; [|exact I].
      rewrite <- K2. destruct (truthy r); [apply (Hb _ (set_stk m2 s))|apply (Hc _ _ _ _ _ (set_stk m2 s))].
    + intros all m. rewrite sdefaults_S.
      destruct all as [|[[[] es] blk] rest]; [reflexivity| |apply Hd].
      apply res_ok_then; [apply Hb|]. intros m1 K1. rewrite <- K1. apply Hd.
Qed.

(* THE SCOPES STAY.  For every statement list, state and fuel. *)
Theorem sblock_keeps_scopes : forall fuel b m m',
  sblock fuel b m = XNormal m' -> map fst (scopes (menv m')) = map fst (scopes (menv m)).
Proof. intros fuel b m m' H. destruct (keep_all fuel) as (_ & _ & _ & Kb & _). specialize (Kb b m). rewrite H in Kb. exact Kb. Qed.
Theorem sx_keeps_scopes : forall fuel e m m',
  sx fuel e m = XNormal m' -> map fst (scopes (menv m')) = map fst (scopes (menv m)).
Proof. intros fuel e m m' H. destruct (keep_all fuel) as (Kx & _). specialize (Kx e m). rewrite H in Kx. exact Kx. Qed.
(* a `return` leaves the scopes that were open in place, under those of the loops it left *)
Theorem sblock_return_scopes : forall fuel b m v m',
  sblock fuel b m = XReturn v m' -> exists pre, map fst (scopes (menv m')) = pre ++ map fst (scopes (menv m)).
Proof. intros fuel b m v m' H. destruct (keep_all fuel) as (_ & _ & _ & Kb & _). specialize (Kb b m). rewrite H in Kb. exact Kb. Qed.


(* ------------------------------------------------------------------ *)
(* PART D: FOREACH = one run of the body per entry of the container, in order *)

(* the (key-or-index, element) pairs of a container in iteration order *)
Fixpoint indexed (i : N) (l : list value) : list (value * value) :=
  match l with
  | [] => []
  | x :: l' => (VInt (Z.of_N i), x) :: indexed (i + 1) l'
  end.

Definition entries (c : value) : option (list (value * value)) :=
  match c with
  | VArray l => Some (indexed 0 l)                                  (* elements with indexes 0, 1, 2 .. *)
  | VStr s => Some (indexed 0 (map (fun ch => VStr [ch]) s))        (* one-character strings with indexes *)
  | VHash ps => hash_entries o ps                                   (* (key, value), sorted by printed key *)
  | _ => None
  end.

Lemma nthN_cons_succ : forall A (x : A) l i, nthN (x :: l) (i + 1) = nthN l i.
Proof.
  intros A x l i. cbn [nthN]. destruct (i + 1 =? 0) eqn:E; [apply N.eqb_eq in E; lia|].
  replace (N.pred (i + 1)) with i by lia. reflexivity.
Qed.
Lemma nthN_indexed : forall l i off,
  nthN (indexed i l) off = match nthN l off with Some x => Some (VInt (Z.of_N (i + off)), x) | None => None end.
Proof.
  induction l as [|x l IH]; intros i off; [reflexivity|]. cbn [indexed nthN].
  destruct (off =? 0) eqn:E.
  - apply N.eqb_eq in E. subst off. rewrite N.add_0_r. reflexivity.
  - apply N.eqb_neq in E. rewrite IH. replace (i + 1 + N.pred off) with (i + off) by lia. reflexivity.
Qed.
Lemma nthN_map : forall A B (g : A -> B) l off,
  nthN (map g l) off = match nthN l off with Some x => Some (g x) | None => None end.
Proof.
  induction l as [|x l IH]; intros off; [reflexivity|]. cbn [map nthN].
  destruct (off =? 0); [reflexivity|apply IH].
Qed.
Lemma indexed_length : forall l i, List.length (indexed i l) = List.length l.
Proof. induction l as [|x l IH]; intros i; [reflexivity|]. cbn. rewrite IH. reflexivity. Qed.
Lemma indexed_snd : forall l i, map snd (indexed i l) = l.
Proof. induction l as [|x l IH]; intros i; [reflexivity|]. cbn. rewrite IH. reflexivity. Qed.

(* `entries` IS the order in which the interpreter's iterator (iter_next) delivers *)
Lemma entries_next : forall c es, entries c = Some es ->
  forall off, iter_next o c off = Ok (match nthN es off with Some (k, x) => Some (x, k) | None => None end).
Proof.
  intros c es H off. destruct c; try discriminate; cbn [entries] in H.
  - injection H as <-. cbn [iter_next]. rewrite nthN_indexed, nthN_map. cbn [N.add].
    destruct (nthN s off); reflexivity.
  - injection H as <-. cbn [iter_next]. rewrite nthN_indexed. cbn [N.add].
    destruct (nthN l off); reflexivity.
  - cbn [iter_next]. rewrite H. reflexivity.
Qed.
Lemma entries_iterable : forall c es, entries c = Some es -> iterable c = true.
Proof. intros c es H. destruct c; try discriminate; reflexivity. Qed.
Lemma entries_none : forall c, entries c = None ->
  if iterable c then iter_next o c 0 = Err ENeedOracle else iter_next o c 0 = Err EScript.
Proof.
  intros c H. destruct c; try discriminate; try reflexivity. cbn [entries] in H. cbn. rewrite H. reflexivity.
Qed.

(* what the entries are, container by container (C16) *)
Theorem entries_array : forall l, exists es, entries (VArray l) = Some es /\ map snd es = l /\
  List.length es = List.length l /\
  forall i x, nth_opt l i = Some x -> nth_opt es i = Some (VInt (Z.of_nat i), x).
Proof.
  intros l. exists (indexed 0 l). split; [reflexivity|]. split; [apply indexed_snd|]. split; [apply indexed_length|].
  intros i x H.
  assert (H' : nthN l (N.of_nat i) = Some x) by (rewrite OpsProofs.nthN_nth_opt, Nat2N.id; exact H).
  replace (nth_opt (indexed 0 l) i) with (nthN (indexed 0 l) (N.of_nat i))
    by (rewrite OpsProofs.nthN_nth_opt, Nat2N.id; reflexivity).
  rewrite nthN_indexed, H'. cbn [N.add]. rewrite nat_N_Z. reflexivity.
Qed.
Theorem entries_string : forall s, exists es, entries (VStr s) = Some es /\
  List.length es = List.length s /\
  forall i ch, nth_opt s i = Some ch -> nth_opt es i = Some (VInt (Z.of_nat i), VStr [ch]).
Proof.
  intros s. exists (indexed 0 (map (fun ch => VStr [ch]) s)). split; [reflexivity|].
  split; [rewrite indexed_length; apply map_length|].
  intros i ch H.
  assert (H' : nthN s (N.of_nat i) = Some ch) by (rewrite OpsProofs.nthN_nth_opt, Nat2N.id; exact H).
  replace (nth_opt (indexed 0 (map (fun ch => VStr [ch]) s)) i)
    with (nthN (indexed 0 (map (fun ch => VStr [ch]) s)) (N.of_nat i))
    by (rewrite OpsProofs.nthN_nth_opt, Nat2N.id; reflexivity).
  rewrite nthN_indexed, nthN_map, H'. cbn [N.add]. rewrite nat_N_Z. reflexivity.
Qed.
(* a hash: every pair exactly once (a permutation of the pairs), sorted by (printed key, type) *)
Theorem entries_hash : forall ps es, entries (VHash ps) = Some es ->
  Permutation ps es /\
  forall keys, opt_map (fun kx => match inspect o (fst kx) with Some a => Some (a, type_of (fst kx)) | None => None end) es = Some keys ->
               StronglySorted (fun a b => key_lt b a = false) keys.
Proof.
  intros ps es H. cbn [entries] in H. split.
  - eapply ContainerProofs.hash_entries_perm. exact H.
  - intros keys Hk. eapply DetProofs.entries_sorted; eassumption.
Qed.
(* a range a..b is the array of the integers a, a+1 .. b *)
Theorem entries_range : forall a b c, vm_range (VInt a) (VInt b) = Ok c ->
  exists l es, c = VArray l /\ entries c = Some es /\ map snd es = l /\
    List.length l = Z.to_nat (b - a + 1) /\
    forall i : nat, (i < List.length l)%nat -> nth_opt es i = Some (VInt (Z.of_nat i), VInt (a + Z.of_nat i)).
Proof.
  intros a b c H. assert (exists l, c = VArray l) as (l & ->).
  { unfold vm_range in H. destruct (b <? a)%Z; [discriminate|]. destruct (100000 <? b - a)%Z; [discriminate|].
    injection H as <-. eexists. reflexivity. }
  destruct (ContainerProofs.range_spec a b l H) as (_ & Hl & Hn).
  destruct (entries_array l) as (es & He & Hs & _ & Hi).
  exists l, es. repeat split; try assumption. intros i Hi'. apply Hi. apply Hn. exact Hi'.
Qed.

(* ---- the loop ---- *)

(* the variables of one iteration, declared in the loop's scope *)
Definition bind_entry (idx ident : str) (e : env) (k x : value) : env :=
  let e1 := env_declare e (trim_dollar ident) x in
  match idx with [] => e1 | _ => env_declare e1 (trim_dollar idx) k end.

(* the state in which the body is entered for entry number `off`, (k, x), of the container c:
   the iterator on top of the loop's stack, the variables bound *)
Definition body_entry (idx ident : str) (c : value) (off : N) (k x : value) (m : mstate) : mstate :=
  mkM (VIter c (off + 1) :: stk m) (bind_entry idx ident (menv m) k x) (trace m) (polls m).

(* one run of the body per entry, in order; each starts from the loop's own stack; the first
   completion that is not normal ends the loop; when the entries are exhausted the loop's scope
   is closed.  Every run of the body gets the fuel F. *)
Fixpoint run_body_over (F : nat) (idx ident : str) (body : list stmt) (c : value) (off : N)
                       (es : list (value * value)) (m : mstate) : sres :=
  match es with
  | [] => match env_pop (menv m) with
          | Some e1 => XNormal (set_menv m e1)
          | None => XErr EScript m
          end
  | (k, x) :: es' =>
      then_ (sblock F body (body_entry idx ident c off k x m))
            (fun m1 => run_body_over F idx ident body c (off + 1) es' (set_stk m1 (stk m)))
  end.

(* the entries for which the body was entered *)
Fixpoint visited (F : nat) (idx ident : str) (body : list stmt) (c : value) (off : N)
                 (es : list (value * value)) (m : mstate) : list (value * value) :=
  match es with
  | [] => []
  | (k, x) :: es' =>
      (k, x) :: match sblock F body (body_entry idx ident c off k x m) with
                | XNormal m1 => visited F idx ident body c (off + 1) es' (set_stk m1 (stk m))
                | _ => []
                end
  end.

(* THE SIDE CONDITION.  The runs of the body that complete normally leave the loop's stack
   (iterator and everything below) in place under whatever they pushed.  See
   `foreach_body_may_eat_the_iterator` below for a body where this fails. *)
Fixpoint bodies_safe (F : nat) (idx ident : str) (body : list stmt) (c : value) (off : N)
                     (es : list (value * value)) (m : mstate) : Prop :=
  match es with
  | [] => True
  | (k, x) :: es' =>
      match sblock F body (body_entry idx ident c off k x m) with
      | XNormal m1 => (exists residue, stk m1 = residue ++ VIter c (off + 1) :: stk m) /\
                      bodies_safe F idx ident body c (off + 1) es' (set_stk m1 (stk m))
      | _ => True
      end
  end.

(* a sufficient condition on the body alone *)
Definition stack_safe (body : list stmt) : Prop :=
  forall fuel m m', sblock fuel body m = XNormal m' -> exists residue, stk m' = residue ++ stk m.

Lemma stack_safe_bodies_safe : forall body, stack_safe body ->
  forall F idx ident c es off m, bodies_safe F idx ident body c off es m.
Proof.
  intros body Hs F idx ident c es. induction es as [|[k x] es IH]; intros off m; [exact I|].
  cbn [bodies_safe]. destruct (sblock F body _) as [m1| |] eqn:E; try exact I.
  split; [|apply IH]. apply Hs in E. exact E.
Qed.

Definition next_from (c : value) (off : N) (es : list (value * value)) : Prop :=
  forall i, iter_next o c (off + i) = Ok (match nthN es i with Some (k, x) => Some (x, k) | None => None end).

Lemma next_from_cons : forall c off k x es, next_from c off ((k, x) :: es) ->
  iter_next o c off = Ok (Some (x, k)) /\ next_from c (off + 1) es.
Proof.
  intros c off k x es H. split.
  - specialize (H 0). rewrite N.add_0_r in H. exact H.
  - intros i. specialize (H (i + 1)). rewrite nthN_cons_succ in H.
    replace (off + 1 + i) with (off + (i + 1)) by lia. exact H.
Qed.
Lemma next_from_nil : forall c off, next_from c off [] -> iter_next o c off = Ok None.
Proof. intros c off H. specialize (H 0). rewrite N.add_0_r in H. exact H. Qed.
Lemma entries_next_from : forall c es, entries c = Some es -> next_from c 0 es.
Proof. intros c es H i. cbn [N.add]. apply entries_next. exact H. Qed.

Lemma env_mark_kinds : forall m m', kinds m = kinds m' -> env_mark (menv m) = env_mark (menv m').
Proof.
  intros m m' H. unfold kinds in H. unfold env_mark.
  destruct (scopes (menv m)) as [|[k1 s1] ss1], (scopes (menv m')) as [|[k2 s2] ss2]; try discriminate; [reflexivity|].
  cbn in H. injection H as -> _. reflexivity.
Qed.
Lemma kinds_body_entry : forall idx ident c off k x m, kinds (body_entry idx ident c off k x m) = kinds m.
Proof.
  intros. unfold kinds, body_entry, bind_entry. cbn [menv].
  destruct idx; [|rewrite kinds_env_declare]; apply kinds_env_declare.
Qed.
Lemma keep_bottom_app : forall (r s : list value), keep_bottom (lenN s) (r ++ s) = s.
Proof.
  intros r s. unfold keep_bottom, lenN. rewrite Nat2N.id, app_length.
  replace (List.length r + List.length s - List.length s)%nat with (List.length r + 0)%nat by lia.
  rewrite skipn_app, Nat.add_0_r, skipn_all. replace (List.length r - List.length r)%nat with 0%nat by lia. reflexivity.
Qed.

(* one iteration of the interpreter's loop, in the vocabulary above *)
Lemma sforeach_step : forall f idx ident c off body m k x,
  iter_next o c off = Ok (Some (x, k)) ->
  sforeach (S f) idx ident c off body m =
  then_ (sblock f body (body_entry idx ident c off k x m)) (fun m1 =>
    match drop_residue (menv m1) (stk m1) with
    | VIter it' off' :: s' => sforeach f idx ident it' off' body (set_stk m1 s')
    | other :: s' => if iterable other then XErr ENeedOracle (set_stk m1 s') else XErr EScript (set_stk m1 s')
    | [] => XErr EInternal m1
    end).
Proof. intros. rewrite sforeach_S. unfold foreach_next. rewrite H. reflexivity. Qed.

(* after a safe normal run of the body the interpreter is back at the head of the loop,
   whatever the body left on the stack *)
Lemma back_at_head : forall f idx ident c off body m k x m1 residue,
  env_mark (menv m) = Some (N.succ (lenN (stk m))) ->
  sblock f body (body_entry idx ident c off k x m) = XNormal m1 ->
  stk m1 = residue ++ VIter c (off + 1) :: stk m ->
  drop_residue (menv m1) (stk m1) = VIter c (off + 1) :: stk m /\
  env_mark (menv (set_stk m1 (stk m))) = Some (N.succ (lenN (stk (set_stk m1 (stk m))))).
Proof.
  intros f idx ident c off body m k x m1 residue Hm E Hs.
  assert (K1 : kinds m1 = kinds m).
  { apply sblock_keeps_scopes in E. unfold kinds. rewrite E. apply kinds_body_entry. }
  assert (M1 : env_mark (menv m1) = Some (N.succ (lenN (stk m)))) by (rewrite <- Hm; apply env_mark_kinds; exact K1).
  split; [|exact M1].
  unfold drop_residue. rewrite M1, Hs.
  replace (N.succ (lenN (stk m))) with (lenN (VIter c (off + 1) :: stk m)) by (unfold lenN; cbn [List.length]; lia).
  apply keep_bottom_app.
Qed.

Section Loop.
Variables (idx ident : str) (body : list stmt) (c : value).

(* description => interpreter, with the fuel needed *)
Lemma sforeach_fwd : forall es F off m r,
  next_from c off es -> env_mark (menv m) = Some (N.succ (lenN (stk m))) ->
  bodies_safe F idx ident body c off es m ->
  run_body_over F idx ident body c off es m = r -> is_fuel r = false ->
  forall fuel, (F + List.length es + 1 <= fuel)%nat -> sforeach fuel idx ident c off body m = r.
Proof.
  induction es as [|[k x] es IH]; intros F off m r Hn Hm Hs Hr Hf fuel Hfuel.
  - destruct fuel as [|f]; [lia|]. rewrite sforeach_S. unfold foreach_next. rewrite (next_from_nil _ _ Hn). exact Hr.
  - destruct fuel as [|f]; [lia|]. cbn [List.length] in Hfuel.
    destruct (next_from_cons _ _ _ _ _ Hn) as (Hnx & Hn').
    rewrite (sforeach_step f idx ident c off body m k x Hnx).
    cbn [run_body_over bodies_safe] in Hr, Hs.
    destruct (sblock F body (body_entry idx ident c off k x m)) as [m1|v m1|e m1] eqn:E.
    + rewrite (sblock_mono F f) by (try lia; rewrite E; reflexivity). rewrite E. cbn [then_] in Hr |- *.
      destruct Hs as ((residue & Hst) & Hs).
      destruct (back_at_head F idx ident c off body m k x m1 residue Hm E Hst) as (Hd & Hm').
      rewrite Hd. apply (IH F (off + 1) (set_stk m1 (stk m)) r Hn' Hm' Hs Hr Hf). lia.
    + rewrite (sblock_mono F f) by (try lia; rewrite E; reflexivity). rewrite E. exact Hr.
    + cbn [then_] in Hr. subst r. rewrite (sblock_mono F f) by (try lia; rewrite E; exact Hf). rewrite E. reflexivity.
Qed.

(* interpreter => description *)
Lemma sforeach_bwd : forall es fuel F off m r, (fuel <= F)%nat ->
  next_from c off es -> env_mark (menv m) = Some (N.succ (lenN (stk m))) ->
  bodies_safe F idx ident body c off es m ->
  sforeach fuel idx ident c off body m = r -> is_fuel r = false ->
  run_body_over F idx ident body c off es m = r.
Proof.
  induction es as [|[k x] es IH]; intros fuel F off m r Hle Hn Hm Hs Hr Hf.
  - destruct fuel as [|f]; [subst r; discriminate|].
    rewrite sforeach_S in Hr. unfold foreach_next in Hr. rewrite (next_from_nil _ _ Hn) in Hr. exact Hr.
  - destruct fuel as [|f]; [subst r; discriminate|].
    destruct (next_from_cons _ _ _ _ _ Hn) as (Hnx & Hn').
    rewrite (sforeach_step f idx ident c off body m k x Hnx) in Hr.
    cbn [run_body_over bodies_safe] in Hs |- *.
    assert (Hb : is_fuel (sblock f body (body_entry idx ident c off k x m)) = false).
    { destruct (sblock f body _) as [| |[] ?]; try reflexivity. subst r. discriminate. }
    rewrite (sblock_mono f F) in Hs |- * by (try lia; exact Hb).
    destruct (sblock f body (body_entry idx ident c off k x m)) as [m1|v m1|e m1] eqn:E; cbn [then_] in Hr |- *;
      [|exact Hr|exact Hr].
    destruct Hs as ((residue & Hst) & Hs).
    destruct (back_at_head f idx ident c off body m k x m1 residue Hm E Hst) as (Hd & Hm').
    rewrite Hd in Hr. apply (IH f F (off + 1) (set_stk m1 (stk m)) r); try assumption. lia.
Qed.

End Loop.

Lemma sx_agree : forall f f' e m r, sx f e m = r -> is_fuel r = false -> is_fuel (sx f' e m) = false -> sx f' e m = r.
Proof.
  intros f f' e m r H Hr H'. destruct (Nat.le_ge_cases f f') as [L|L].
  - rewrite <- H. apply sx_mono; [exact L|rewrite H; exact Hr].
  - rewrite <- H. symmetry. apply sx_mono; [exact L|exact H'].
Qed.

(* the state at the head of the loop: the container popped, the loop's scope opened; the scope
   remembers the height of the stack WITH the iterator on it *)
Definition loop_state (m1 : mstate) (s : list value) : mstate :=
  mkM s (env_push (menv m1) (lenN (stk m1))) (trace m1) (polls m1).

(* FOREACH VISITS EVERY ENTRY EXACTLY ONCE, IN ORDER.
   If the loop's expression v evaluates (fuel F) to the container c, whose entries are es, then
   `foreach [idx,] ident in v body` IS `run_body_over ... es`: for any fuel from
   F + length es + 2 on the interpreter returns exactly that result. *)
Theorem foreach_visits_each_once : forall idx ident v body F m m1 c s es r,
  sx F v m = XNormal m1 -> stk m1 = c :: s -> entries c = Some es ->
  bodies_safe F idx ident body c 0 es (loop_state m1 s) ->
  run_body_over F idx ident body c 0 es (loop_state m1 s) = r -> is_fuel r = false ->
  forall fuel, (F + List.length es + 2 <= fuel)%nat -> sx fuel (EForeach idx ident v body) m = r.
Proof.
  intros idx ident v body F m m1 c s es r Hv Hs He Hsafe Hr Hf fuel Hfuel.
  destruct fuel as [|f]; [lia|]. rewrite sx_foreach_S.
  rewrite (sx_mono F f) by (try lia; rewrite Hv; reflexivity). rewrite Hv. cbn [then_]. cbv zeta.
  rewrite Hs. rewrite (entries_iterable _ _ He). rewrite <- Hs. fold (loop_state m1 s).
  apply (sforeach_fwd idx ident body c es F 0 (loop_state m1 s) r); try assumption.
  - apply entries_next_from. exact He.
  - cbn. rewrite Hs. f_equal. unfold lenN. cbn [List.length]. lia.
  - lia.
Qed.

(* and conversely: whatever definitive result the interpreter gives is the one described *)
Theorem foreach_visits_each_once_inv : forall idx ident v body F fuel m m1 c s es r,
  sx F v m = XNormal m1 -> stk m1 = c :: s -> entries c = Some es ->
  bodies_safe fuel idx ident body c 0 es (loop_state m1 s) ->
  sx fuel (EForeach idx ident v body) m = r -> is_fuel r = false ->
  run_body_over fuel idx ident body c 0 es (loop_state m1 s) = r.
Proof.
  intros idx ident v body F fuel m m1 c s es r Hv Hs He Hsafe Hr Hf.
  destruct fuel as [|f]; [subst r; discriminate|]. rewrite sx_foreach_S in Hr.
  assert (Hv' : sx f v m = XNormal m1).
  { apply (sx_agree F); [exact Hv|reflexivity|].
    destruct (sx f v m) as [| |[] ?]; try reflexivity. subst r. discriminate. }
  rewrite Hv' in Hr. cbn [then_] in Hr. cbv zeta in Hr. rewrite Hs in Hr.
  rewrite (entries_iterable _ _ He) in Hr. rewrite <- Hs in Hr. fold (loop_state m1 s) in Hr.
  apply (sforeach_bwd idx ident body c es f (S f) 0 (loop_state m1 s) r); try assumption.
  - lia.
  - apply entries_next_from. exact He.
  - cbn. rewrite Hs. f_equal. unfold lenN. cbn [List.length]. lia.
Qed.

(* the fuel-free reading *)
Corollary foreach_converges : forall idx ident v body m m1 c s es r,
  stack_safe body ->
  sx_to v m (XNormal m1) -> stk m1 = c :: s -> entries c = Some es ->
  (sx_to (EForeach idx ident v body) m r <->
   converges (fun F => run_body_over F idx ident body c 0 es (loop_state m1 s)) r).
Proof.
  intros idx ident v body m m1 c s es r Hsafe (_ & nv & Hv) Hs He. split.
  - intros (Hf & n & Hn). split; [exact Hf|]. exists (Nat.max n nv). intros F HF.
    apply (foreach_visits_each_once_inv idx ident v body nv F m m1 c s es r); try assumption.
    + apply Hv. lia.
    + apply stack_safe_bodies_safe. exact Hsafe.
    + apply Hn. lia.
  - intros (Hf & n & Hn). split; [exact Hf|]. exists (Nat.max n nv + List.length es + 2)%nat. intros fuel HF.
    apply (foreach_visits_each_once idx ident v body (Nat.max n nv) m m1 c s es r); try assumption.
    + apply Hv. lia.
    + apply stack_safe_bodies_safe. exact Hsafe.
    + apply Hn. lia.
Qed.

(* what else can happen at the head of a foreach: the value is not a container, or it is a
   hash one of whose keys has no printed form in the oracle *)
Theorem foreach_not_a_container : forall idx ident v body F m m1 c s,
  sx F v m = XNormal m1 -> stk m1 = c :: s -> entries c = None ->
  forall fuel, (F + 2 <= fuel)%nat ->
  sx fuel (EForeach idx ident v body) m = XErr (if iterable c then ENeedOracle else EScript) (loop_state m1 s).
Proof.
  intros idx ident v body F m m1 c s Hv Hs He fuel Hfuel.
  destruct fuel as [|[|f]]; try lia. rewrite sx_foreach_S.
  rewrite (sx_mono F (S f)) by (try lia; rewrite Hv; reflexivity). rewrite Hv. cbn [then_]. cbv zeta.
  rewrite Hs. pose proof (entries_none c He) as Hn. destruct (iterable c); [|rewrite <- Hs; reflexivity].
  rewrite sforeach_S. unfold foreach_next. rewrite Hn. rewrite <- Hs. reflexivity.
Qed.

(* ---- consequences: how often, with what bound, what ends the loop ---- *)

(* every entry is visited, in order, exactly once, when all runs of the body complete normally;
   in general the visited entries are an initial segment, ending with the run that did not *)
Theorem normal_loop_visits_all : forall F idx ident body c es off m m',
  run_body_over F idx ident body c off es m = XNormal m' ->
  visited F idx ident body c off es m = es.
Proof.
  intros F idx ident body c es. induction es as [|[k x] es IH]; intros off m m' H; [reflexivity|].
  cbn [run_body_over visited] in *. destruct (sblock F body _) as [m1| |]; try discriminate.
  cbn [then_] in H. rewrite (IH _ _ _ H). reflexivity.
Qed.
Theorem visited_initial_segment : forall F idx ident body c es off m,
  exists rest, es = visited F idx ident body c off es m ++ rest.
Proof.
  intros F idx ident body c es. induction es as [|[k x] es IH]; intros off m; [exists []; reflexivity|].
  cbn [visited]. destruct (sblock F body _) as [m1| |].
  - destruct (IH (off + 1) (set_stk m1 (stk m))) as (rest & Hr). exists rest. cbn. rewrite <- Hr. reflexivity.
  - exists es. reflexivity.
  - exists es. reflexivity.
Qed.
(* the loop completes normally exactly when every run does; it then closes its scope and leaves
   the stack as it found it *)
Theorem normal_loop_restores : forall F idx ident body c es off m m',
  run_body_over F idx ident body c off es m = XNormal m' ->
  stk m' = stk m.
Proof.
  intros F idx ident body c es. induction es as [|[k x] es IH]; intros off m m' H.
  - cbn [run_body_over] in H. destruct (env_pop (menv m)); [|discriminate]. injection H as <-. reflexivity.
  - cbn [run_body_over] in H. destruct (sblock F body _) as [m1| |]; try discriminate.
    cbn [then_] in H. apply IH in H. exact H.
Qed.
(* a `return` (or an error) in the body ends the loop at once, with that completion *)
Theorem abrupt_body_ends_loop : forall F idx ident body c k x es off m r,
  sblock F body (body_entry idx ident c off k x m) = r -> is_normal r = false ->
  run_body_over F idx ident body c off ((k, x) :: es) m = r.
Proof.
  intros F idx ident body c k x es off m r H Hn. cbn [run_body_over]. rewrite H.
  destruct r; [discriminate|reflexivity|reflexivity].
Qed.

(* in the body the loop variable is the element, the optional second variable its index or key *)
Lemma declare_get_same : forall e n v, scopes e <> [] -> env_get (env_declare e n v) n = Some v.
Proof.
  intros e n v H. unfold env_declare. destruct (scopes e) as [|[fr s] ss] eqn:E; [contradiction|].
  unfold env_get. cbn [scopes local_get]. rewrite EnvProofs.assoc_set_get_same. reflexivity.
Qed.
Lemma declare_scopes_nonempty : forall e n v, scopes e <> [] -> scopes (env_declare e n v) <> [].
Proof. intros e n v H. unfold env_declare. destruct (scopes e) as [|[fr s] ss]; [contradiction|discriminate]. Qed.
Theorem body_sees_entry : forall idx ident c off k x m,
  scopes (menv m) <> [] ->
  let mb := body_entry idx ident c off k x m in
  (idx = [] \/ str_eqb (trim_dollar idx) (trim_dollar ident) = false -> env_get (menv mb) (trim_dollar ident) = Some x) /\
  (idx <> [] -> env_get (menv mb) (trim_dollar idx) = Some k).
Proof.
  intros idx ident c off k x m Hs. cbn [body_entry menv]. unfold bind_entry. split.
  - intros [->|Hne]; [apply declare_get_same; exact Hs|].
    destruct idx; [apply declare_get_same; exact Hs|].
    rewrite EnvProofs.declare_other by exact Hne. apply declare_get_same. exact Hs.
  - intros Hne. destruct idx; [contradiction|]. apply declare_get_same. apply declare_scopes_nonempty. exact Hs.
Qed.

(* ------------------------------------------------------------------ *)
(* PART E: WHILE, IF / ELSE IF / ELSE, TERNARY *)

Lemma then_agree : forall r0 r0' k k' r,
  then_ r0 k = r -> is_fuel r = false ->
  (is_fuel r0 = false -> r0' = r0) ->
  (forall m1, r0 = XNormal m1 -> k m1 = r -> k' m1 = r) ->
  then_ r0' k' = r.
Proof.
  intros r0 r0' k k' r H Hf H0 Hk. destruct r0 as [m1|v m1|x m1]; cbn [then_] in H.
  - rewrite H0 by reflexivity. cbn [then_]. apply (Hk m1); [reflexivity|exact H].
  - rewrite H0 by reflexivity. exact H.
  - rewrite H0 by (subst r; exact Hf). exact H.
Qed.
Lemma pop1s_agree : forall m k k' r,
  pop1s m k = r ->
  (forall v s, stk m = v :: s -> k v (set_stk m s) = r -> k' v (set_stk m s) = r) ->
  pop1s m k' = r.
Proof. intros m k k' r H Hk. unfold pop1s in *. destruct (stk m) as [|v s]; [exact H|]. apply Hk; [reflexivity|exact H]. Qed.
Lemma pop2s_agree : forall m k k' r,
  pop2s m k = r ->
  (forall a b s, stk m = a :: b :: s -> k a b (set_stk m s) = r -> k' a b (set_stk m s) = r) ->
  pop2s m k' = r.
Proof.
  intros m k k' r H Hk. unfold pop2s in *. destruct (stk m) as [|a [|b s]]; [exact H|exact H|].
  apply Hk; [reflexivity|exact H].
Qed.
Lemma nonfuel_then : forall r0 k, is_fuel (then_ r0 k) = false -> is_fuel r0 = false.
Proof. intros [m1|v m1|[] m1] k H; try reflexivity. exact H. Qed.

(* the test of a condition: its value and the state after it (None: the condition did not
   complete normally with fuel F) *)
Definition cond_val (F : nat) (c : expr) (m : mstate) : option (value * mstate) :=
  match sx F c m with
  | XNormal m1 => match stk m1 with v :: s => Some (v, set_stk m1 s) | [] => None end
  | _ => None
  end.

Lemma cond_val_inv : forall F c m v m2, cond_val F c m = Some (v, m2) ->
  exists m1 s, sx F c m = XNormal m1 /\ stk m1 = v :: s /\ m2 = set_stk m1 s.
Proof.
  intros F c m v m2 H. unfold cond_val in H. destruct (sx F c m) as [m1| |]; try discriminate.
  destruct (stk m1) as [|v' s] eqn:E; [discriminate|]. injection H as <- <-. exists m1, s. auto.
Qed.
Lemma cond_val_mono : forall F F' c m v m2, (F <= F')%nat -> cond_val F c m = Some (v, m2) -> cond_val F' c m = Some (v, m2).
Proof.
  intros F F' c m v m2 Hle H. destruct (cond_val_inv _ _ _ _ _ H) as (m1 & s & E & Es & ->).
  unfold cond_val. rewrite (sx_mono F F') by (try assumption; rewrite E; reflexivity). rewrite E, Es. reflexivity.
Qed.
(* a construct that starts by testing c, once c's value is known *)
Lemma cond_then : forall F c m v m2 f (k : value -> mstate -> sres), cond_val F c m = Some (v, m2) -> (F <= f)%nat ->
  then_ (sx f c m) (fun m1 => pop1s m1 k) = k v m2.
Proof.
  intros F c m v m2 f k H Hle. destruct (cond_val_inv _ _ _ _ _ H) as (m1 & s & E & Es & ->).
  rewrite (sx_mono F f) by (try assumption; rewrite E; reflexivity). rewrite E. cbn [then_]. unfold pop1s. rewrite Es. reflexivity.
Qed.

(* ---- while ---- *)

(* WHILE UNROLLS: test; if truthy, the body, then the loop again; if falsy, done *)
Theorem while_unroll : forall f c body m,
  swhile (S f) c body m =
  then_ (sx f c m) (fun m1 => pop1s m1 (fun v m2 =>
    if truthy v then then_ (sblock f body m2) (fun m3 => swhile f c body m3) else XNormal m2)).
Proof. exact swhile_S. Qed.
Theorem while_unroll_known : forall F c body m v m2 f, cond_val F c m = Some (v, m2) -> (F <= f)%nat ->
  swhile (S f) c body m = if truthy v then then_ (sblock f body m2) (fun m3 => swhile f c body m3) else XNormal m2.
Proof. intros F c body m v m2 f H Hle. rewrite swhile_S. rewrite (cond_then F c m v m2 f _ H Hle). reflexivity. Qed.

(* at most k rounds of (test; body), every sub-run with fuel F; "the loop wants a (k+1)-th round"
   is reported as out-of-fuel *)
Fixpoint while_rounds (F : nat) (c : expr) (body : list stmt) (k : nat) (m : mstate) : sres :=
  then_ (sx F c m) (fun m1 => pop1s m1 (fun v m2 =>
    if truthy v then
      match k with
      | O => XErr EFuel m2
      | S k' => then_ (sblock F body m2) (fun m3 => while_rounds F c body k' m3)
      end
    else XNormal m2)).
Lemma while_rounds_eq : forall F c body k m,
  while_rounds F c body k m =
  then_ (sx F c m) (fun m1 => pop1s m1 (fun v m2 =>
    if truthy v then
      match k with
      | O => XErr EFuel m2
      | S k' => then_ (sblock F body m2) (fun m3 => while_rounds F c body k' m3)
      end
    else XNormal m2)).
Proof. intros. destruct k; reflexivity. Qed.

Theorem while_is_rounds : forall c body k F m r,
  while_rounds F c body k m = r -> is_fuel r = false ->
  forall fuel, (F + k + 1 <= fuel)%nat -> swhile fuel c body m = r.
Proof.
  intros c body k. induction k as [|k IH]; intros F m r H Hf fuel Hfuel;
    (destruct fuel as [|f]; [lia|]); rewrite swhile_S; rewrite while_rounds_eq in H.
  - eapply then_agree; [exact H|exact Hf|intro Hn; apply sx_mono; [lia|exact Hn]|].
    intros m1 _ H1. eapply pop1s_agree; [exact H1|]. intros v s _ H2. cbv beta iota in *.
    destruct (truthy v); [|exact H2]. rewrite <- H2 in Hf. discriminate Hf.
  - eapply then_agree; [exact H|exact Hf|intro Hn; apply sx_mono; [lia|exact Hn]|].
    intros m1 _ H1. eapply pop1s_agree; [exact H1|]. intros v s _ H2. cbv beta iota in *.
    destruct (truthy v); [|exact H2].
    eapply then_agree; [exact H2|exact Hf|intro Hn; apply sblock_mono; [lia|exact Hn]|].
    intros m3 _ H3. apply (IH F m3 r H3 Hf). lia.
Qed.
Theorem while_is_rounds_inv : forall c body fuel F k m r, (fuel <= F)%nat -> (fuel <= k)%nat ->
  swhile fuel c body m = r -> is_fuel r = false -> while_rounds F c body k m = r.
Proof.
  intros c body fuel. induction fuel as [|f IH]; intros F k m r HF Hk H Hf; [subst r; discriminate|].
  rewrite swhile_S in H. rewrite while_rounds_eq.
  eapply then_agree; [exact H|exact Hf|intro Hn; apply sx_mono; [lia|exact Hn]|].
  intros m1 _ H1. eapply pop1s_agree; [exact H1|]. intros v s _ H2. cbv beta iota in *.
  destruct (truthy v); [|exact H2]. destruct k as [|k]; [lia|].
  eapply then_agree; [exact H2|exact Hf|intro Hn; apply sblock_mono; [lia|exact Hn]|].
  intros m3 _ H3. apply (IH F k m3 r); try assumption; lia.
Qed.

(* k rounds in which the condition is truthy and the body completes normally *)
Fixpoint iterate_while (F : nat) (c : expr) (body : list stmt) (k : nat) (m : mstate) : option mstate :=
  match k with
  | O => Some m
  | S k' =>
      match cond_val F c m with
      | Some (v, m2) =>
          if truthy v then
            match sblock F body m2 with
            | XNormal m3 => iterate_while F c body k' m3
            | _ => None
            end
          else None
      | None => None
      end
  end.

Lemma while_rounds_iterate : forall c body F k j m mk, iterate_while F c body k m = Some mk ->
  while_rounds F c body (k + j) m = while_rounds F c body j mk.
Proof.
  intros c body F k. induction k as [|k IH]; intros j m mk H; [injection H as <-; reflexivity|].
  cbn [iterate_while] in H. destruct (cond_val F c m) as [[v m2]|] eqn:Ec; [|discriminate].
  destruct (truthy v) eqn:Et; [|discriminate].
  destruct (sblock F body m2) as [m3| |] eqn:Eb; try discriminate.
  cbn [Nat.add]. rewrite while_rounds_eq. rewrite (cond_then F c m v m2 F _ Ec) by lia.
  rewrite Et, Eb. cbn [then_]. apply IH. exact H.
Qed.

(* THE BODY RUNS ONCE PER ITERATION WHILE THE CONDITION IS TRUTHY: if the condition is truthy the
   first k times and falsy the (k+1)-th, the bodies completing normally, the loop is the k-fold
   composition of (condition; body) followed by the condition *)
Theorem while_runs_k_times : forall c body F k m mk v mend,
  iterate_while F c body k m = Some mk ->
  cond_val F c mk = Some (v, mend) -> truthy v = false ->
  forall fuel, (F + k + 1 <= fuel)%nat ->
    swhile fuel c body m = XNormal mend /\ sx (S fuel) (EWhile c body) m = XNormal mend.
Proof.
  intros c body F k m mk v mend Hi Hc Hv fuel Hfuel.
  assert (H : swhile fuel c body m = XNormal mend).
  { apply (while_is_rounds c body k F); [|reflexivity|exact Hfuel].
    rewrite <- (Nat.add_0_r k), (while_rounds_iterate _ _ _ _ _ _ _ Hi), while_rounds_eq.
    rewrite (cond_then F c mk v mend F _ Hc) by lia. rewrite Hv. reflexivity. }
  split; [exact H|rewrite sx_while_S; exact H].
Qed.
(* ... and a body that does not complete normally in round k+1 (a `return`, an error) ends the loop *)
Theorem while_body_abrupt : forall c body F k m mk v m2 r,
  iterate_while F c body k m = Some mk ->
  cond_val F c mk = Some (v, m2) -> truthy v = true ->
  sblock F body m2 = r -> is_normal r = false -> is_fuel r = false ->
  forall fuel, (F + k + 2 <= fuel)%nat -> swhile fuel c body m = r.
Proof.
  intros c body F k m mk v m2 r Hi Hc Hv Hb Hn Hf fuel Hfuel.
  apply (while_is_rounds c body (k + 1) F); [|exact Hf|lia].
  rewrite (while_rounds_iterate _ _ _ _ _ _ _ Hi), while_rounds_eq.
  rewrite (cond_then F c mk v m2 F _ Hc) by lia. rewrite Hv, Hb.
  destruct r; [discriminate|reflexivity|reflexivity].
Qed.

(* ---- if / else if / else ---- *)

(* ONE BLOCK OF AN IF RUNS: the consequence if the condition is truthy, else the alternative if
   there is one, else nothing.  Exact, for every fuel from F (the fuel the condition needs) on. *)
Theorem if_selects : forall F c cns alt m v m2 f, cond_val F c m = Some (v, m2) -> (F <= f)%nat ->
  sx (S f) (EIf c cns alt) m =
  if truthy v then sblock f cns m2
  else match alt with Some a => sblock f a m2 | None => XNormal m2 end.
Proof. intros F c cns alt m v m2 f H Hle. rewrite sx_if_S. rewrite (cond_then F c m v m2 f _ H Hle). reflexivity. Qed.
(* EXACTLY ONE ARM OF A TERNARY IS EVALUATED *)
Theorem ternary_selects : forall F c t e m v m2 f, cond_val F c m = Some (v, m2) -> (F <= f)%nat ->
  sx (S f) (ETernary c t e) m = sx f (if truthy v then t else e) m2.
Proof. intros. rewrite sx_ternary_S. rewrite (cond_then F c m v m2 f _ H H0). destruct (truthy v); reflexivity. Qed.
(* an abrupt condition is the result *)
Theorem if_cond_abrupt : forall f c cns alt m, is_normal (sx f c m) = false ->
  sx (S f) (EIf c cns alt) m = sx f c m.
Proof. intros. rewrite sx_if_S. destruct (sx f c m); [discriminate|reflexivity|reflexivity]. Qed.

(* `if c0 b0 else if c1 b1 ... else els` as the parser builds it: the next `if` is the only
   statement of the alternative *)
Fixpoint if_chain (c : expr) (b : list stmt) (more : list (expr * list stmt)) (els : option (list stmt)) : expr :=
  match more with
  | [] => EIf c b els
  | (c2, b2) :: more' => EIf c b (Some [SExpr (if_chain c2 b2 more' els)])
  end.

(* the conditions in `cs` are tested in order and all are falsy *)
Fixpoint all_falsy (F : nat) (cs : list expr) (m : mstate) : option mstate :=
  match cs with
  | [] => Some m
  | c :: cs' => match cond_val F c m with
                | Some (v, m2) => if truthy v then None else all_falsy F cs' m2
                | None => None
                end
  end.

Lemma then_normal : forall r, then_ r XNormal = r.
Proof. intros [| |]; reflexivity. Qed.
Lemma sblock_single : forall f e m, sblock (S (S f)) [SExpr e] m = sx f e m.
Proof.
  intros f e m. rewrite sblock_S, sstmt_S.
  replace (fun m1 => sblock (S f) [] m1) with XNormal by reflexivity. apply then_normal.
Qed.

Lemma if_chain_step : forall F c b more els m v m2 f, cond_val F c m = Some (v, m2) -> (F <= f)%nat ->
  sx (S f) (if_chain c b more els) m =
  if truthy v then sblock f b m2
  else match more with
       | [] => match els with Some a => sblock f a m2 | None => XNormal m2 end
       | (c2, b2) :: more' => sblock f [SExpr (if_chain c2 b2 more' els)] m2
       end.
Proof. intros. destruct more as [|[c2 b2] more']; cbn [if_chain]; apply (if_selects F); assumption. Qed.

(* THE BLOCK OF THE FIRST TRUTHY CONDITION RUNS; NO LATER CONDITION IS EVALUATED.
   The arms (c0,b0) :: more are split as pre ++ (cj,bj) :: post; the conditions of `pre` are falsy,
   cj is truthy: the result is the run of bj - whatever post and els are. *)
Theorem if_first_truthy : forall pre c0 b0 more els cj bj post F m m' v m2 r,
  (c0, b0) :: more = pre ++ (cj, bj) :: post ->
  all_falsy F (map fst pre) m = Some m' ->
  cond_val F cj m' = Some (v, m2) -> truthy v = true ->
  sblock F bj m2 = r -> is_fuel r = false ->
  forall fuel, (F + 3 * List.length pre + 1 <= fuel)%nat -> sx fuel (if_chain c0 b0 more els) m = r.
Proof.
  induction pre as [|[cp bp] pre IH]; intros c0 b0 more els cj bj post F m m' v m2 r Hsplit Hfal Hc Hv Hb Hf fuel Hfuel.
  - cbn [app] in Hsplit. injection Hsplit as -> -> ->. cbn [map all_falsy] in Hfal. injection Hfal as <-.
    destruct fuel as [|f]; [lia|]. rewrite (if_chain_step F cj bj post els m v m2 f Hc) by lia. rewrite Hv.
    rewrite <- Hb. apply sblock_mono; [lia|rewrite Hb; exact Hf].
  - cbn [app] in Hsplit. injection Hsplit as -> -> ->. cbn [map fst all_falsy] in Hfal.
    destruct (cond_val F cp m) as [[vp mp]|] eqn:Ep; [|discriminate].
    destruct (truthy vp) eqn:Etp; [discriminate|].
    cbn [List.length] in Hfuel. destruct fuel as [|[|[|f]]]; try lia.
    rewrite (if_chain_step F cp bp _ els m vp mp (S (S f)) Ep) by lia. rewrite Etp.
    destruct (pre ++ (cj, bj) :: post) as [|[c2 b2] more'] eqn:Em; [destruct pre; discriminate|].
    rewrite sblock_single. apply (IH c2 b2 more' els cj bj post F mp m' v m2 r); try assumption.
    + symmetry. exact Em.
    + lia.
Qed.
(* NO CONDITION IS TRUTHY: the else block runs, if there is one; otherwise nothing does *)
Theorem if_none_truthy : forall more c0 b0 els F m m' r,
  all_falsy F (map fst ((c0, b0) :: more)) m = Some m' ->
  match els with Some a => sblock F a m' | None => XNormal m' end = r -> is_fuel r = false ->
  forall fuel, (F + 3 * List.length more + 1 <= fuel)%nat -> sx fuel (if_chain c0 b0 more els) m = r.
Proof.
  induction more as [|[c2 b2] more IH]; intros c0 b0 els F m m' r Hfal Hr Hf fuel Hfuel;
    cbn [map fst all_falsy] in Hfal;
    (destruct (cond_val F c0 m) as [[v0 m0]|] eqn:E0; [|discriminate]);
    (destruct (truthy v0) eqn:Et0; [discriminate|]).
  - cbn [all_falsy] in Hfal. injection Hfal as <-.
    destruct fuel as [|f]; [lia|]. rewrite (if_chain_step F c0 b0 [] els m v0 m0 f E0) by lia. rewrite Et0.
    destruct els as [a|]; [|exact Hr]. rewrite <- Hr. apply sblock_mono; [lia|rewrite Hr; exact Hf].
  - cbn [List.length] in Hfuel. destruct fuel as [|[|[|f]]]; try lia.
    rewrite (if_chain_step F c0 b0 _ els m v0 m0 (S (S f)) E0) by lia. rewrite Et0.
    rewrite sblock_single. apply (IH c2 b2 els F m0 m' r); try assumption. lia.
Qed.

(* ------------------------------------------------------------------ *)
(* PART F: SWITCH *)

Definition choice := (bool * list expr * list stmt)%type.    (* (is_default, case expressions, block) *)

(* the interpreter's switch with one fuel F for every sub-run, structurally recursive on the arms *)
Fixpoint defaults_spec (F : nat) (all : list choice) (m : mstate) : sres :=
  match all with
  | [] => XNormal m
  | (true, _, blk) :: rest => then_ (sblock F blk m) (fun m1 => defaults_spec F rest m1)
  | (false, _, _) :: rest => defaults_spec F rest m
  end.
Fixpoint case_spec (F : nat) (v : expr) (es : list expr) (blk : list stmt) (k : mstate -> sres) (m : mstate) : sres :=
  match es with
  | [] => k m
  | e :: es' =>
      then_ (sx F v m) (fun m1 => then_ (sx F e m1) (fun m2 =>
        pop2s m2 (fun c subj m3 =>
          match vm_case o subj c with
          | Err x => XErr x m3
          | Ok r => if truthy r then sblock F blk m3 else case_spec F v es' blk k m3
          end)))
  end.
Fixpoint switch_spec (F : nat) (v : expr) (rest all : list choice) (m : mstate) : sres :=
  match rest with
  | [] => defaults_spec F all m
  | (true, _, _) :: rest' => switch_spec F v rest' all m
  | (false, es, blk) :: rest' => case_spec F v es blk (switch_spec F v rest' all) m
  end.

(* the case expressions of the non-default arms, in source order *)
Definition case_exprs_of (l : list choice) : list expr :=
  flat_map (fun ch : choice => if fst (fst ch) then [] else snd (fst ch)) l.
(* fuel the interpreter spends on walking the arms *)
Definition switch_cost (rest all : list choice) : nat :=
  (2 * List.length rest + List.length (case_exprs_of rest) + List.length all + 2)%nat.

Lemma defaults_fwd : forall all F m r, defaults_spec F all m = r -> is_fuel r = false ->
  forall fuel, (F + List.length all + 1 <= fuel)%nat -> sdefaults fuel all m = r.
Proof.
  induction all as [|[[[] es] blk] all IH]; intros F m r H Hf fuel Hfuel;
    (destruct fuel as [|f]; [lia|]); rewrite sdefaults_S; cbn [defaults_spec List.length] in *.
  - exact H.
  - eapply then_agree; [exact H|exact Hf|intro Hn; apply sblock_mono; [lia|exact Hn]|].
    intros m1 _ H1. apply (IH F m1 r H1 Hf). lia.
  - apply (IH F m r H Hf). lia.
Qed.
Lemma defaults_bwd : forall all fuel F m r, (fuel <= F)%nat -> sdefaults fuel all m = r -> is_fuel r = false ->
  defaults_spec F all m = r.
Proof.
  induction all as [|[[[] es] blk] all IH]; intros fuel F m r Hle H Hf;
    (destruct fuel as [|f]; [rewrite <- H in Hf; discriminate Hf|]); rewrite sdefaults_S in H; cbn [defaults_spec].
  - exact H.
  - eapply then_agree; [exact H|exact Hf|intro Hn; apply sblock_mono; [lia|exact Hn]|].
    intros m1 _ H1. apply (IH f F m1 r); [lia|exact H1|exact Hf].
  - apply (IH f F m r); [lia|exact H|exact Hf].
Qed.

Lemma case_fwd : forall v blk rest all,
  (forall F m r, switch_spec F v rest all m = r -> is_fuel r = false ->
     forall fuel, (F + switch_cost rest all <= fuel)%nat -> sswitch fuel v rest all m = r) ->
  forall es F m r, case_spec F v es blk (switch_spec F v rest all) m = r -> is_fuel r = false ->
  forall fuel, (F + List.length es + 1 + switch_cost rest all <= fuel)%nat -> scase fuel v es blk rest all m = r.
Proof.
  intros v blk rest all Hsw. induction es as [|e es IH]; intros F m r H Hf fuel Hfuel;
    (destruct fuel as [|f]; [lia|]); rewrite scase_S; cbn [case_spec List.length] in *.
  - apply (Hsw F m r H Hf). lia.
  - eapply then_agree; [exact H|exact Hf|intro Hn; apply sx_mono; [lia|exact Hn]|].
    intros m1 _ H1. eapply then_agree; [exact H1|exact Hf|intro Hn; apply sx_mono; [lia|exact Hn]|].
    intros m2 _ H2. eapply pop2s_agree; [exact H2|]. intros c subj s _ H3. cbv beta in *.
    destruct (vm_case o subj c) as [t|x]; [|exact H3].
    destruct (truthy t).
    + rewrite <- H3. apply sblock_mono; [lia|rewrite H3; exact Hf].
    + apply (IH F _ r H3 Hf). lia.
Qed.
Lemma case_exprs_cons : forall (d : bool) es blk rest,
  case_exprs_of ((d, es, blk) :: rest) = (if d then [] else es) ++ case_exprs_of rest.
Proof. reflexivity. Qed.
Lemma switch_fwd : forall v all rest F m r, switch_spec F v rest all m = r -> is_fuel r = false ->
  forall fuel, (F + switch_cost rest all <= fuel)%nat -> sswitch fuel v rest all m = r.
Proof.
  intros v all. induction rest as [|[[[] es] blk] rest IH]; intros F m r H Hf fuel Hfuel;
    unfold switch_cost in Hfuel; rewrite ?case_exprs_cons, ?app_length in Hfuel; cbn [List.length] in Hfuel;
    (destruct fuel as [|f]; [lia|]); rewrite sswitch_S; cbn [switch_spec] in H.
  - apply (defaults_fwd all F m r H Hf). lia.
  - apply (IH F m r H Hf). unfold switch_cost. lia.
  - apply (case_fwd v blk rest all IH es F m r H Hf). unfold switch_cost. lia.
Qed.

Lemma case_bwd : forall v blk rest all,
  (forall fuel F m r, (fuel <= F)%nat -> sswitch fuel v rest all m = r -> is_fuel r = false ->
     switch_spec F v rest all m = r) ->
  forall es fuel F m r, (fuel <= F)%nat -> scase fuel v es blk rest all m = r -> is_fuel r = false ->
  case_spec F v es blk (switch_spec F v rest all) m = r.
Proof.
  intros v blk rest all Hsw. induction es as [|e es IH]; intros fuel F m r Hle H Hf;
    (destruct fuel as [|f]; [rewrite <- H in Hf; discriminate Hf|]); rewrite scase_S in H; cbn [case_spec].
  - apply (Hsw f F m r); [lia|exact H|exact Hf].
  - eapply then_agree; [exact H|exact Hf|intro Hn; apply sx_mono; [lia|exact Hn]|].
    intros m1 _ H1. eapply then_agree; [exact H1|exact Hf|intro Hn; apply sx_mono; [lia|exact Hn]|].
    intros m2 _ H2. eapply pop2s_agree; [exact H2|]. intros c subj s _ H3. cbv beta in *.
    destruct (vm_case o subj c) as [t|x]; [|exact H3].
    destruct (truthy t).
    + rewrite <- H3. apply sblock_mono; [lia|rewrite H3; exact Hf].
    + apply (IH f F _ r); [lia|exact H3|exact Hf].
Qed.
Lemma switch_bwd : forall v all rest fuel F m r, (fuel <= F)%nat -> sswitch fuel v rest all m = r -> is_fuel r = false ->
  switch_spec F v rest all m = r.
Proof.
  intros v all. induction rest as [|[[[] es] blk] rest IH]; intros fuel F m r Hle H Hf;
    (destruct fuel as [|f]; [rewrite <- H in Hf; discriminate Hf|]); rewrite sswitch_S in H; cbn [switch_spec].
  - apply (defaults_bwd all f F m r); [lia|exact H|exact Hf].
  - apply (IH f F m r); [lia|exact H|exact Hf].
  - apply (case_bwd v blk rest all IH es f F m r); [lia|exact H|exact Hf].
Qed.

(* the interpreter's switch IS switch_spec *)
Theorem switch_is_spec : forall v cs F m r, switch_spec F v cs cs m = r -> is_fuel r = false ->
  forall fuel, (F + switch_cost cs cs + 1 <= fuel)%nat -> sx fuel (ESwitch v cs) m = r.
Proof.
  intros v cs F m r H Hf fuel Hfuel. destruct fuel as [|f]; [lia|]. rewrite sx_switch_S.
  apply (switch_fwd v cs cs F m r H Hf). lia.
Qed.
Theorem switch_is_spec_inv : forall v cs fuel m r, sx fuel (ESwitch v cs) m = r -> is_fuel r = false ->
  switch_spec fuel v cs cs m = r.
Proof.
  intros v cs fuel m r H Hf. destruct fuel as [|f]; [rewrite <- H in Hf; discriminate Hf|].
  rewrite sx_switch_S in H. apply (switch_bwd v cs cs f (S f) m r); [lia|exact H|exact Hf].
Qed.

(* ---- the property's words ---- *)

(* one test: the subject is evaluated (again), then the case expression, then they are compared:
   Some (matched?, state after) when all of this completes normally *)
Definition case_test (F : nat) (v e : expr) (m : mstate) : option (bool * mstate) :=
  match sx F v m with
  | XNormal m1 =>
      match sx F e m1 with
      | XNormal m2 =>
          match stk m2 with
          | c :: subj :: s => match vm_case o subj c with
                              | Ok t => Some (truthy t, set_stk m2 s)
                              | Err _ => None
                              end
          | _ => None
          end
      | _ => None
      end
  | _ => None
  end.
(* the tests of `es`, in order, all fail *)
Fixpoint tests_fail (F : nat) (v : expr) (es : list expr) (m : mstate) : option mstate :=
  match es with
  | [] => Some m
  | e :: es' => match case_test F v e m with
                | Some (false, m') => tests_fail F v es' m'
                | _ => None
                end
  end.
(* blocks run one after the other *)
Fixpoint run_blocks (F : nat) (bs : list (list stmt)) (m : mstate) : sres :=
  match bs with
  | [] => XNormal m
  | b :: bs' => then_ (sblock F b m) (fun m1 => run_blocks F bs' m1)
  end.
Definition default_blocks (l : list choice) : list (list stmt) :=
  map snd (filter (fun ch : choice => fst (fst ch)) l).

Lemma case_test_step : forall F v e es blk k m t m',
  case_test F v e m = Some (t, m') ->
  case_spec F v (e :: es) blk k m = if t then sblock F blk m' else case_spec F v es blk k m'.
Proof.
  intros F v e es blk k m t m' H. unfold case_test in H. cbn [case_spec].
  destruct (sx F v m) as [m1| |]; try discriminate. cbn [then_].
  destruct (sx F e m1) as [m2| |]; try discriminate. cbn [then_]. unfold pop2s.
  destruct (stk m2) as [|c [|subj s]]; try discriminate.
  destruct (vm_case o subj c) as [r|]; [|discriminate]. injection H as <- <-. reflexivity.
Qed.
Lemma tests_fail_app : forall F v a b m,
  tests_fail F v (a ++ b) m = match tests_fail F v a m with Some m' => tests_fail F v b m' | None => None end.
Proof.
  intros F v a. induction a as [|e a IH]; intros b m; [reflexivity|]. cbn [app tests_fail].
  destruct (case_test F v e m) as [[[] m']|]; try reflexivity. apply IH.
Qed.
Lemma case_spec_fail : forall F v blk k es m m', tests_fail F v es m = Some m' ->
  case_spec F v es blk k m = k m'.
Proof.
  intros F v blk k es. induction es as [|e es IH]; intros m m' H; [injection H as <-; reflexivity|].
  cbn [tests_fail] in H. destruct (case_test F v e m) as [[[] m1]|] eqn:E; try discriminate.
  rewrite (case_test_step _ _ _ _ _ _ _ _ _ E). apply IH. exact H.
Qed.
Lemma case_spec_hit : forall F v blk k es1 e es2 m m' m'',
  tests_fail F v es1 m = Some m' -> case_test F v e m' = Some (true, m'') ->
  case_spec F v (es1 ++ e :: es2) blk k m = sblock F blk m''.
Proof.
  intros F v blk k es1. induction es1 as [|e1 es1 IH]; intros e es2 m m' m'' H Ht.
  - injection H as <-. cbn [app]. rewrite (case_test_step _ _ _ _ _ _ _ _ _ Ht). reflexivity.
  - cbn [tests_fail] in H. destruct (case_test F v e1 m) as [[[] m1]|] eqn:E; try discriminate.
    cbn [app]. rewrite (case_test_step _ _ _ _ _ _ _ _ _ E). apply (IH e es2 m1 m' m'' H Ht).
Qed.
Lemma switch_spec_skip : forall F v all pre rest m m', tests_fail F v (case_exprs_of pre) m = Some m' ->
  switch_spec F v (pre ++ rest) all m = switch_spec F v rest all m'.
Proof.
  intros F v all pre. induction pre as [|[[[] es] blk] pre IH]; intros rest m m' H.
  - injection H as <-. reflexivity.
  - cbn [app switch_spec]. apply IH. exact H.
  - unfold case_exprs_of in H. cbn [flat_map fst snd] in H. fold (case_exprs_of pre) in H.
    rewrite tests_fail_app in H. destruct (tests_fail F v es m) as [m1|] eqn:E; [|discriminate].
    cbn [app switch_spec]. rewrite (case_spec_fail _ _ _ _ _ _ _ E). apply IH. exact H.
Qed.
Lemma then_ext : forall r k k', (forall m, k m = k' m) -> then_ r k = then_ r k'.
Proof. intros [m1| |] k k' H; cbn [then_]; [apply H|reflexivity|reflexivity]. Qed.
Lemma defaults_spec_blocks : forall F all m, defaults_spec F all m = run_blocks F (default_blocks all) m.
Proof.
  intros F all. induction all as [|[[[] es] blk] all IH]; intros m; [reflexivity| |apply IH].
  cbn [defaults_spec]. unfold default_blocks. cbn [filter fst snd map run_blocks].
  apply then_ext. intros m1. apply IH.
Qed.

(* EXACTLY ONE ARM RUNS: THE FIRST WHOSE CASE MATCHES.
   The arms are  pre ++ (false, es1 ++ e :: es2, blk) :: post.  Every case expression of the
   non-default arms of `pre`, then those of es1, is tested in order (each test evaluates the
   subject again) and fails; the test of e succeeds: the switch is the run of blk in the state
   after that test.  Nothing of es2 or post - case expressions, blocks, default arms - is
   evaluated: the result does not depend on them. *)
Theorem switch_first_match : forall v pre es1 e es2 blk post F m m' m'' r,
  tests_fail F v (case_exprs_of pre ++ es1) m = Some m' ->
  case_test F v e m' = Some (true, m'') ->
  sblock F blk m'' = r -> is_fuel r = false ->
  let cs := pre ++ (false, es1 ++ e :: es2, blk) :: post in
  forall fuel, (F + switch_cost cs cs + 1 <= fuel)%nat -> sx fuel (ESwitch v cs) m = r.
Proof.
  intros v pre es1 e es2 blk post F m m' m'' r Hfail Hhit Hb Hf cs fuel Hfuel.
  apply (switch_is_spec v cs F m r); [|exact Hf|exact Hfuel].
  rewrite tests_fail_app in Hfail. destruct (tests_fail F v (case_exprs_of pre) m) as [m1|] eqn:E; [|discriminate].
  unfold cs at 1. rewrite (switch_spec_skip _ _ _ _ _ _ _ E). cbn [switch_spec].
  rewrite (case_spec_hit _ _ _ _ _ _ _ _ _ _ Hfail Hhit). exact Hb.
Qed.
(* NO CASE MATCHES: the default arm(s) run, wherever written; without one, nothing runs *)
Theorem switch_no_match : forall v cs F m m' r,
  tests_fail F v (case_exprs_of cs) m = Some m' ->
  run_blocks F (default_blocks cs) m' = r -> is_fuel r = false ->
  forall fuel, (F + switch_cost cs cs + 1 <= fuel)%nat -> sx fuel (ESwitch v cs) m = r.
Proof.
  intros v cs F m m' r Hfail Hb Hf fuel Hfuel.
  apply (switch_is_spec v cs F m r); [|exact Hf|exact Hfuel].
  rewrite <- (app_nil_r cs) at 1. rewrite (switch_spec_skip _ _ _ _ _ _ _ Hfail). cbn [switch_spec].
  rewrite defaults_spec_blocks. exact Hb.
Qed.
Corollary switch_no_match_no_default : forall v cs F m m',
  tests_fail F v (case_exprs_of cs) m = Some m' -> default_blocks cs = [] ->
  forall fuel, (F + switch_cost cs cs + 1 <= fuel)%nat -> sx fuel (ESwitch v cs) m = XNormal m'.
Proof. intros v cs F m m' Hfail Hd. apply (switch_no_match v cs F m m'); [exact Hfail|rewrite Hd; reflexivity|reflexivity]. Qed.
(* the parser accepts at most one default arm (Parser.count_defaults): then "the default" is one block *)
Corollary switch_no_match_one_default : forall v cs blk F m m' r,
  tests_fail F v (case_exprs_of cs) m = Some m' -> default_blocks cs = [blk] ->
  sblock F blk m' = r -> is_fuel r = false ->
  forall fuel, (F + switch_cost cs cs + 1 <= fuel)%nat -> sx fuel (ESwitch v cs) m = r.
Proof.
  intros v cs blk F m m' r Hfail Hd Hb Hf. apply (switch_no_match v cs F m m'); [exact Hfail| |exact Hf].
  rewrite Hd. cbn [run_blocks]. rewrite Hb. apply then_normal.
Qed.
(* a test that does not complete normally (the subject or the case expression raises an error,
   or the comparison needs the oracle) ends the switch with that completion: see switch_is_spec /
   case_spec, where `then_` passes it on. *)
Lemma default_count : forall cs, List.length (default_blocks cs) = Parser.count_defaults cs.
Proof.
  induction cs as [|[[[] es] blk] cs IH]; [reflexivity| |exact IH].
  unfold default_blocks in *. cbn [filter fst map List.length Parser.count_defaults]. rewrite IH. reflexivity.
Qed.

(* ------------------------------------------------------------------ *)
(* PART G: BLOCKS AND RETURN *)

(* a block runs its statements in order ... *)
Theorem block_app_normal : forall pre post Fp m m1, sblock Fp pre m = XNormal m1 ->
  forall fuel, (Fp <= fuel)%nat -> sblock (fuel + List.length pre) (pre ++ post) m = sblock fuel post m1.
Proof.
  induction pre as [|p pre IH]; intros post Fp m m1 H fuel Hle.
  - destruct Fp as [|g]; [discriminate|]. rewrite sblock_S in H. injection H as <-.
    cbn [List.length app]. rewrite Nat.add_0_r. reflexivity.
  - destruct Fp as [|g]; [discriminate|]. rewrite sblock_S in H.
    destruct (sstmt g p m) as [m2| |] eqn:E; try discriminate. cbn [then_] in H.
    cbn [List.length app]. rewrite Nat.add_succ_r, sblock_S.
    rewrite (sstmt_mono g (fuel + List.length pre)) by (try lia; rewrite E; reflexivity). rewrite E. cbn [then_].
    apply (IH post g m2 m1 H). lia.
Qed.
(* ... running off the end is the normal completion (which compile correctness maps to the
   result null: Spec.ExecFun.program_compile_correct, case XNormal) ... *)
Theorem block_runs_off_end : forall f m, sblock (S f) [] m = XNormal m.
Proof. reflexivity. Qed.
(* ... and the first statement that does not complete normally - a `return`, an error - ends it:
   no later statement runs *)
Theorem block_stops_at : forall pre s rest Fp Fs m m1 r,
  sblock Fp pre m = XNormal m1 -> sstmt Fs s m1 = r -> is_normal r = false -> is_fuel r = false ->
  forall fuel, (Fp <= fuel)%nat -> (Fs < fuel)%nat -> sblock (fuel + List.length pre) (pre ++ s :: rest) m = r.
Proof.
  intros pre s rest Fp Fs m m1 r Hp Hs Hn Hf fuel H1 H2.
  rewrite (block_app_normal pre (s :: rest) Fp m m1 Hp fuel H1).
  destruct fuel as [|f]; [lia|]. rewrite sblock_S.
  rewrite (sstmt_mono Fs f) by (try lia; rewrite Hs; exact Hf). rewrite Hs.
  destruct r; [discriminate|reflexivity|reflexivity].
Qed.
(* `return e` completes with the value of e *)
Theorem return_stmt : forall F e m v m2, cond_val F e m = Some (v, m2) ->
  forall f, (F <= f)%nat -> sstmt (S f) (SReturn e) m = XReturn v m2.
Proof. intros F e m v m2 H f Hle. rewrite sstmt_S. rewrite (cond_then F e m v m2 f _ H Hle). reflexivity. Qed.

(* RETURN PROPAGATES: whatever construct is running a block (or a statement, or an arm) that
   completes with XReturn completes with that very XReturn - at once: the continuation (the rest
   of the block, the next round of the loop, the next entry, the next arm) is not run.  One step
   for each construct; any nesting is a composition of these.  (The same holds for XErr.) *)
Theorem return_propagates : forall f v m',
  (* a statement of a block *)
  (forall s rest m, sstmt f s m = XReturn v m' -> sblock (S f) (s :: rest) m = XReturn v m') /\
  (* an expression statement *)
  (forall e m, sx f e m = XReturn v m' -> sstmt (S f) (SExpr e) m = XReturn v m') /\
  (* the chosen block of an if *)
  (forall c cns alt m x m2, cond_val f c m = Some (x, m2) ->
     (if truthy x then sblock f cns m2 else match alt with Some a => sblock f a m2 | None => XNormal m2 end) = XReturn v m' ->
     sx (S f) (EIf c cns alt) m = XReturn v m') /\
  (* the body of a while *)
  (forall c body m x m2, cond_val f c m = Some (x, m2) -> truthy x = true ->
     sblock f body m2 = XReturn v m' -> swhile (S f) c body m = XReturn v m') /\
  (* the body of a foreach *)
  (forall idx ident c off body m k x, iter_next o c off = Ok (Some (x, k)) ->
     sblock f body (body_entry idx ident c off k x m) = XReturn v m' ->
     sforeach (S f) idx ident c off body m = XReturn v m') /\
  (* the matching arm of a switch, a default arm *)
  (forall sv e es blk rest all m m3, case_test f sv e m = Some (true, m3) ->
     sblock f blk m3 = XReturn v m' -> scase (S f) sv (e :: es) blk rest all m = XReturn v m') /\
  (forall es blk rest m, sblock f blk m = XReturn v m' -> sdefaults (S f) ((true, es, blk) :: rest) m = XReturn v m') /\
  (* the constructs themselves, as expressions and in the walk over the arms *)
  (forall c body m, swhile f c body m = XReturn v m' -> sx (S f) (EWhile c body) m = XReturn v m') /\
  (forall sv cs m, sswitch f sv cs cs m = XReturn v m' -> sx (S f) (ESwitch sv cs) m = XReturn v m') /\
  (forall sv es blk rest all m, scase f sv es blk rest all m = XReturn v m' ->
     sswitch (S f) sv ((false, es, blk) :: rest) all m = XReturn v m') /\
  (forall sv es blk rest all m, sswitch f sv rest all m = XReturn v m' ->
     sswitch (S f) sv ((true, es, blk) :: rest) all m = XReturn v m' /\
     scase (S f) sv [] blk rest all m = XReturn v m') /\
  (forall all m, sdefaults f all m = XReturn v m' -> sswitch (S f) (EBool true) [] all m = XReturn v m').
Proof.
  intros f v m'. repeat split.
  - intros s rest m H. rewrite sblock_S, H. reflexivity.
  - intros e m H. rewrite sstmt_S. exact H.
  - intros c cns alt m x m2 Hc H. rewrite (if_selects f c cns alt m x m2 f Hc) by lia. exact H.
  - intros c body m x m2 Hc Ht H. rewrite (while_unroll_known f c body m x m2 f Hc) by lia. rewrite Ht, H. reflexivity.
  - intros idx ident c off body m k x Hn H. rewrite (sforeach_step f idx ident c off body m k x Hn), H. reflexivity.
  - intros sv e es blk rest all m m3 Ht H. rewrite scase_S. unfold case_test in Ht.
    destruct (sx f sv m) as [m1| |]; try discriminate. cbn [then_].
    destruct (sx f e m1) as [m2| |]; try discriminate. cbn [then_]. unfold pop2s.
    destruct (stk m2) as [|c [|subj s]]; try discriminate.
    destruct (vm_case o subj c) as [r|]; [|discriminate]. injection Ht as Ht <-. rewrite Ht. exact H.
  - intros es blk rest m H. rewrite sdefaults_S, H. reflexivity.
  - intros c body m H. rewrite sx_while_S. exact H.
  - intros sv cs m H. rewrite sx_switch_S. exact H.
  - intros sv es blk rest all m H. rewrite sswitch_S. exact H.
  - rewrite sswitch_S. exact H.
  - rewrite scase_S. exact H.
  - intros all m H. rewrite sswitch_S. exact H.
Qed.

(* ... up to the call of a user-defined function: there a `return` ends the FUNCTION and its value
   becomes the value of the call (XNormal again): `call_body`, case XReturn.  At the top level of a
   script - where compile correctness is stated - `return v` ends the script: XReturn v. *)

(* the fuel-free summary for a whole block: return at statement number |pre| *)
Corollary return_ends_block : forall pre e rest Fp F m m1 v m2,
  sblock Fp pre m = XNormal m1 -> cond_val F e m1 = Some (v, m2) ->
  block_to (pre ++ SReturn e :: rest) m (XReturn v m2).
Proof.
  intros pre e rest Fp F m m1 v m2 Hp He.
  apply (converges_intro _ (Nat.max Fp (S (S F)) + List.length pre)); [apply sblock_monotone| |reflexivity].
  apply (block_stops_at pre (SReturn e) rest Fp (S F) m m1); try reflexivity; try lia; try assumption.
  apply (return_stmt F); [exact He|lia].
Qed.

(* ------------------------------------------------------------------ *)
(* PART I: a decidable class of bodies that satisfy the side condition of the foreach theorem.
   `Spec.Moded.moded_block` (value-less constructs only in statement position, `++`/`--` directly
   after the bare name they apply to) is not enough: a call may return nothing, and an operand
   position then pops a value that was never pushed (Examples.foreach_body_may_eat_the_iterator).
   Well-moded bodies in which calls occur only as whole expression statements ARE stack-safe. *)

Fixpoint nocall (fuel : nat) (top : bool) (e : expr) {struct fuel} : bool :=
  match fuel with
  | O => false
  | S f =>
      match e with
      | ECall _ args => top && forallb (nocall f false) args
      | EPrefix _ r => nocall f false r
      | EInfix _ l r => nocall f false l && nocall f false r
      | ETernary c t x => nocall f false c && nocall f false t && nocall f false x
      | EArray l => forallb (nocall f false) l
      | EIndex l i => nocall f false l && nocall f false i
      | EAssign _ v => nocall f false v
      | EIf c cns alt => nocall f false c && nocall_block f cns &&
                         match alt with Some a => nocall_block f a | None => true end
      | EWhile c b => nocall f false c && nocall_block f b
      | EForeach _ _ v b => nocall f false v && nocall_block f b
      | ESwitch v cs => nocall f false v &&
                        forallb (fun c : choice => forallb (nocall f false) (snd (fst c)) && nocall_block f (snd c)) cs
      | _ => true       (* literals, names, local, ++/--; a function definition does nothing where it stands *)
      end
  end
with nocall_block (fuel : nat) (l : list stmt) {struct fuel} : bool :=
  match fuel with
  | O => false
  | S f => forallb (fun s => match s with SReturn e => nocall f false e | SExpr e => nocall f true e end) l
  end.

Definition nocall_stmt (h : nat) (s : stmt) : bool :=
  match s with SReturn e => nocall h false e | SExpr e => nocall h true e end.
Definition nocall_choice (h : nat) (c : choice) : bool :=
  forallb (nocall h false) (snd (fst c)) && nocall_block h (snd c).

Lemma then_inv : forall r k m', then_ r k = XNormal m' -> exists m1, r = XNormal m1 /\ k m1 = XNormal m'.
Proof. intros [m1| |] k m' H; try discriminate. exists m1. split; [reflexivity|exact H]. Qed.
Lemma pop1s_inv : forall m k m', pop1s m k = XNormal m' ->
  exists v s, stk m = v :: s /\ k v (set_stk m s) = XNormal m'.
Proof. intros m k m' H. unfold pop1s in H. destruct (stk m) as [|v s]; [discriminate|]. exists v, s. auto. Qed.
Lemma pop2s_inv : forall m k m', pop2s m k = XNormal m' ->
  exists a b s, stk m = a :: b :: s /\ k a b (set_stk m s) = XNormal m'.
Proof. intros m k m' H. unfold pop2s in H. destruct (stk m) as [|a [|b s]]; try discriminate. exists a, b, s. auto. Qed.
Lemma pushr_inv : forall m r m', pushr m r = XNormal m' -> exists v, m' = push m v.
Proof. intros m [v|x] m' H; [|discriminate]. injection H as <-. exists v. reflexivity. Qed.
Lemma pop_n_exact : forall vs s acc, pop_n (List.length vs) (vs ++ s) acc = Some (rev vs ++ acc, s).
Proof.
  induction vs as [|v vs IH]; intros s acc; [reflexivity|]. cbn [List.length app pop_n rev].
  rewrite IH, <- app_assoc. reflexivity.
Qed.
Lemma not_mutator : forall op, is_mutator op = false -> mutator_op op = None.
Proof. intros []; cbn; intros H; try reflexivity; discriminate. Qed.
Lemma postfix_pops : forall f n op m m', sx f (EPostfix n op) m = XNormal m' -> exists v, stk m = v :: stk m'.
Proof.
  intros [|f] n op m m' H; [discriminate|]. cbn [ExecFun.sx] in H.
  destruct (lookup o obj (menv m) n) as [v|]; [|discriminate].
  destruct (match v with VInt z => _ | VFloat x => _ | _ => None end) as [v'|]; [|discriminate].
  cbv zeta in H. cbn [stk set_menv] in H. destruct (stk m) as [|t s]; [discriminate|].
  injection H as <-. exists t. reflexivity.
Qed.
Lemma sx_up : forall f e m m', sx f e m = XNormal m' -> sx (S f) e m = XNormal m'.
Proof. intros f e m m' H. rewrite <- H. apply sx_mono; [lia|rewrite H; reflexivity]. Qed.
Lemma sblock_up : forall f b m m', sblock f b m = XNormal m' -> sblock (S f) b m = XNormal m'.
Proof. intros f b m m' H. rewrite <- H. apply sblock_mono; [lia|rewrite H; reflexivity]. Qed.

Notation mop := moded_operand.
Notation mch := ModedProofs.moded_choice.

Definition TIDY (f : nat) : Prop :=
  (forall g h e m m', mop g e = true -> nocall h false e = true ->
     sx f e m = XNormal m' -> exists v, stk m' = v :: stk m) /\
  (forall g h l m m', forallb (mop g) l = true -> forallb (nocall h false) l = true ->
     sxs f l m = XNormal m' -> exists vs, List.length vs = List.length l /\ stk m' = vs ++ stk m) /\
  (forall g h e m m', moded_stmt_expr g e = true -> nocall h true e = true -> (forall n op, e <> EPostfix n op) ->
     sx f e m = XNormal m' -> exists r, stk m' = r ++ stk m) /\
  (forall g h b m m', forallb (ModedProofs.moded_stmt g) b = true -> postfix_paired b = true ->
     forallb (nocall_stmt h) b = true ->
     sblock f b m = XNormal m' -> exists r, stk m' = r ++ stk m) /\
  (forall g h c body m m', mop g c = true -> nocall h false c = true ->
     moded_block g body = true -> nocall_block h body = true ->
     swhile f c body m = XNormal m' -> exists r, stk m' = r ++ stk m) /\
  (forall g h idx ident it off body m m', moded_block g body = true -> nocall_block h body = true ->
     env_mark (menv m) = Some (N.succ (lenN (stk m))) ->
     sforeach f idx ident it off body m = XNormal m' -> stk m' = stk m) /\
  (forall g h v rest all m m', mop g v = true -> nocall h false v = true ->
     forallb (mch g) rest = true -> forallb (nocall_choice h) rest = true ->
     forallb (mch g) all = true -> forallb (nocall_choice h) all = true ->
     sswitch f v rest all m = XNormal m' -> exists r, stk m' = r ++ stk m) /\
  (forall g h v es blk rest all m m', mop g v = true -> nocall h false v = true ->
     forallb (mop g) es = true -> forallb (nocall h false) es = true ->
     moded_block g blk = true -> nocall_block h blk = true ->
     forallb (mch g) rest = true -> forallb (nocall_choice h) rest = true ->
     forallb (mch g) all = true -> forallb (nocall_choice h) all = true ->
     scase f v es blk rest all m = XNormal m' -> exists r, stk m' = r ++ stk m) /\
  (forall g h all m m', forallb (mch g) all = true -> forallb (nocall_choice h) all = true ->
     sdefaults f all m = XNormal m' -> exists r, stk m' = r ++ stk m).

Lemma block_of_stmts : forall f,
  (forall g h b m m', forallb (ModedProofs.moded_stmt g) b = true -> postfix_paired b = true ->
     forallb (nocall_stmt h) b = true ->
     sblock f b m = XNormal m' -> exists r, stk m' = r ++ stk m) ->
  forall g h b m m', moded_block g b = true -> nocall_block h b = true ->
     sblock f b m = XNormal m' -> exists r, stk m' = r ++ stk m.
Proof.
  intros f H g h b m m' Hm Hn Hr.
  destruct (ModedProofs.moded_block_inv g b Hm) as (g' & -> & Hs & Hp).
  destruct h as [|h']; [discriminate|]. cbn [nocall_block] in Hn.
  apply (H g' h' b m m' Hs Hp Hn Hr).
Qed.

Ltac inv_then H m1 E :=
  let H' := fresh in apply then_inv in H; destruct H as (m1 & E & H'); rename H' into H.
Ltac split_and := repeat match goal with
  | H : _ && _ = true |- _ => apply andb_true_iff in H; destruct H
  end.

Lemma operand_step : forall f, TIDY f ->
  forall g h e m m', mop g e = true -> nocall h false e = true ->
  sx (S f) e m = XNormal m' -> exists v, stk m' = v :: stk m.
Proof.
  intros f (Hop & Hops & _) g h e m m' Hm Hn H.
  destruct g as [|g]; [discriminate|]. destruct h as [|h]; [discriminate|].
  destruct e as [t z|t x|s|b|v fl|n|op r|op l r|n op|c t e'|l|l|l i|fn args|n v|n|c cns alt|c body|idx ident v body|n ps b|v cs];
    cbn [moded_operand valueless negb andb] in Hm; try discriminate Hm.
  - injection H as <-. eexists. reflexivity.
  - injection H as <-. eexists. reflexivity.
  - injection H as <-. eexists. reflexivity.
  - injection H as <-. eexists. reflexivity.
  - injection H as <-. eexists. reflexivity.
  - (* EIdent *) cbn [ExecFun.sx] in H. apply pushr_inv in H. destruct H as (v & ->). eexists. reflexivity.
  - (* EPrefix *) cbn [ExecFun.sx nocall] in H, Hn. inv_then H m1 E1.
    apply pop1s_inv in H. destruct H as (v & s & Es & H). apply pushr_inv in H. destruct H as (v' & ->).
    destruct (Hop g h r m m1 Hm Hn E1) as (v0 & E0). rewrite Es in E0. injection E0 as _ ->.
    eexists. reflexivity.
  - (* EInfix *) cbn [nocall] in Hn. split_and.
    destruct (is_mutator op) eqn:Emu; [discriminate|]. cbn [negb andb] in *. split_and.
    destruct (tokty_eq_dec op TPeriod) as [->|Hne].
    { (* `l.r`: only l runs *)
      rewrite sx_dot_S in H. revert H. generalize (estr 64 r) as on. intros on H. inv_then H m1 E1.
      apply pop1s_inv in H. destruct H as (v & s & Es & H). apply pushr_inv in H. destruct H as (v' & ->).
      destruct (Hop g h l m m1) as (v0 & E0); try assumption. rewrite Es in E0. injection E0 as _ ->.
      eexists. reflexivity. }
    rewrite sx_infix_S in H by exact Hne. rewrite (not_mutator op Emu) in H.
    inv_then H m1 E1. inv_then H m2 E2. apply pop2s_inv in H. destruct H as (b & a & s & Es & H).
    apply pushr_inv in H. destruct H as (v' & ->).
    destruct (Hop g h l m m1) as (v1 & S1); try assumption.
    destruct (Hop g h r m1 m2) as (v2 & S2); try assumption.
    rewrite S2, S1 in Es. injection Es as _ _ <-. eexists. reflexivity.
  - (* ETernary *) cbn [nocall] in Hn. split_and. rewrite sx_ternary_S in H. inv_then H m1 E1.
    apply pop1s_inv in H. destruct H as (v & s & Es & H).
    destruct (Hop g h c m m1) as (v1 & S1); try assumption. rewrite Es in S1. injection S1 as _ ->.
    destruct (truthy v).
    + destruct (Hop g h t (set_stk m1 (stk m)) m') as (v2 & S2); try assumption. exists v2. exact S2.
    + destruct (Hop g h e' (set_stk m1 (stk m)) m') as (v2 & S2); try assumption. exists v2. exact S2.
  - (* EArray *) cbn [nocall] in Hn. cbn [ExecFun.sx] in H. inv_then H m1 E1.
    destruct (Hops g h l m m1) as (vs & Hl & S1); try assumption.
    rewrite S1, <- Hl, pop_n_exact in H. injection H as <-. eexists. reflexivity.
  - (* EHash *) discriminate H.
  - (* EIndex *) cbn [nocall] in Hn. split_and. cbn [ExecFun.sx] in H.
    inv_then H m1 E1. inv_then H m2 E2. apply pop2s_inv in H. destruct H as (b & a & s & Es & H).
    apply pushr_inv in H. destruct H as (v' & ->).
    destruct (Hop g h l m m1) as (v1 & S1); try assumption.
    destruct (Hop g h i m1 m2) as (v2 & S2); try assumption.
    rewrite S2, S1 in Es. injection Es as _ _ <-. eexists. reflexivity.
  - (* ECall *) cbn [nocall andb] in Hn. discriminate Hn.
Qed.

Lemma nocall_top : forall h e, (forall fn args, e <> ECall fn args) -> nocall h true e = true -> nocall h false e = true.
Proof. intros [|h] e Hne H; [discriminate|]. destruct e; try exact H. exfalso. eapply Hne. reflexivity. Qed.

Lemma call_body_tidy : forall (xa : list expr -> mstate -> sres) (xb : list stmt -> mstate -> sres) oname args m m',
  (forall m1, xa args m = XNormal m1 -> exists vs, List.length vs = List.length args /\ stk m1 = vs ++ stk m) ->
  call_body xa xb oname args m = XNormal m' -> exists r, stk m' = r ++ stk m.
Proof.
  intros xa xb [name|] args m m' Ha H; [|discriminate]. unfold call_body in H.
  inv_then H m1 E1. destruct (Ha m1 E1) as (vs & Hl & S1).
  rewrite S1, <- Hl, pop_n_exact in H.
  destruct (fn_get name fns) as [[bn|k]|].
  - destruct (call_builtin o bn _) as [r|]; [|discriminate]. destruct (of_bres r) as [v|]; [|discriminate].
    injection H as <-. destruct v; try (eexists [_]; reflexivity). exists []. reflexivity.
  - cbv zeta in H. destruct (host_call k _) as [v|]; [|discriminate].
    injection H as <-. destruct v; try (eexists [_]; reflexivity). exists []. reflexivity.
  - destruct (af_get name afs) as [af|]; [|discriminate].
    destruct (negb _); [discriminate|]. destruct (negb _ && _); [discriminate|]. cbv zeta in H.
    destruct (xb (abody af) _) as [m2|out m2|]; [| |discriminate].
    + injection H as <-. exists []. reflexivity.
    + injection H as <-. destruct out; try (eexists [_]; reflexivity). exists []. reflexivity.
Qed.

Lemma stmt_step : forall f, TIDY f ->
  forall g h e m m', moded_stmt_expr g e = true -> nocall h true e = true -> (forall n op, e <> EPostfix n op) ->
  sx (S f) e m = XNormal m' -> exists r, stk m' = r ++ stk m.
Proof.
  intros f T g h e m m' Hm Hn Hne H.
  pose proof (operand_step f T) as Hop1.
  destruct T as (Hop & Hops & Hst & Hstmts & Hwh & Hfe & Hsw & Hcs & Hdf).
  pose proof (block_of_stmts f Hstmts) as Hblk.
  assert (Hval : forall g, mop g e = true -> (forall fn args, e <> ECall fn args) -> exists r, stk m' = r ++ stk m).
  { intros g0 Hm0 Hnc. destruct (Hop1 g0 h e m m' Hm0 (nocall_top h e Hnc Hn) H) as (v & Sv). exists [v]. exact Sv. }
  destruct g as [|g]; [discriminate|]. destruct h as [|h]; [discriminate|].
  destruct e as [t z|t x|s|b|v fl|n|op r|op l r|n op|c t e'|l|l|l i|fn args|n v|n|c cns alt|c body|idx ident v body|n ps b|v cs];
    cbn [moded_stmt_expr] in Hm; try (apply (Hval g Hm); intros; discriminate).
  - (* EInfix *) destruct (is_mutator op) eqn:Emu; [|apply (Hval g Hm); intros; discriminate].
    cbn [nocall] in Hn. split_and. rewrite sx_infix_S in H by (intros ->; discriminate Emu).
    inv_then H m1 E1. inv_then H m2 E2.
    destruct (Hop g h l m m1) as (v1 & S1); try assumption.
    destruct (Hop g h r m1 m2) as (v2 & S2); try assumption.
    assert (exists bop, mutator_op op = Some bop) as (bop & Eb) by (destruct op; try discriminate Emu; eexists; reflexivity).
    rewrite Eb in H.
    destruct l; try discriminate. apply pop2s_inv in H. destruct H as (b' & a & s & Es & H).
    destruct (spec_binop o bop a b'); [|discriminate]. injection H as <-.
    rewrite S2, S1 in Es. injection Es as _ _ <-. exists []. reflexivity.
  - (* EPostfix *) exfalso. eapply Hne. reflexivity.
  - (* ECall *) rewrite sx_call_S in H. cbn [nocall andb] in Hn.
    eapply call_body_tidy; [|exact H]. intros m1 E1. destruct g as [|g]; [discriminate|].
    cbn [moded_operand valueless negb andb] in Hm.
    apply andb_true_iff in Hm. destruct Hm as (_ & Hm).
    apply (Hops g h args m m1 Hm Hn E1).
  - (* EAssign *) cbn [nocall] in Hn. cbn [ExecFun.sx] in H. inv_then H m1 E1.
    apply pop1s_inv in H. destruct H as (x & s & Es & H). injection H as <-.
    destruct (Hop g h v m m1) as (v1 & S1); try assumption. rewrite S1 in Es. injection Es as _ <-.
    exists []. reflexivity.
  - (* ELocal *) injection H as <-. exists []. reflexivity.
  - (* EIf *) cbn [nocall] in Hn. split_and. rewrite sx_if_S in H. inv_then H m1 E1.
    apply pop1s_inv in H. destruct H as (x & s & Es & H).
    destruct (Hop g h c m m1) as (v1 & S1); try assumption. rewrite S1 in Es. injection Es as _ <-.
    destruct (truthy x).
    + apply (Hblk g h cns (set_stk m1 (stk m)) m'); assumption.
    + destruct alt as [a|]; [|injection H as <-; exists []; reflexivity].
      apply (Hblk g h a (set_stk m1 (stk m)) m'); assumption.
  - (* EWhile *) cbn [nocall] in Hn. split_and. rewrite sx_while_S in H. apply (Hwh g h c body m m'); assumption.
  - (* EForeach *) cbn [nocall] in Hn. split_and. rewrite sx_foreach_S in H. inv_then H m1 E1. cbv zeta in H.
    destruct (Hop g h v m m1) as (v1 & S1); try assumption. rewrite S1 in H.
    destruct (iterable v1); [|discriminate].
    apply (Hfe g h) in H; try assumption.
    + cbn [stk] in H. exists []. exact H.
    + cbn. f_equal. unfold lenN. cbn [List.length]. lia.
  - (* EFunction *) injection H as <-. exists []. reflexivity.
  - (* ESwitch *) cbn [nocall] in Hn. split_and. rewrite sx_switch_S in H.
    apply (Hsw g h v cs cs m m'); assumption.
Qed.

Lemma tidy_all : forall f, TIDY f.
Proof.
  induction f as [|f IH].
  - unfold TIDY. repeat split; intros; discriminate.
  - pose proof (operand_step f IH) as Hop1. pose proof (stmt_step f IH) as Hst1.
    pose proof IH as (Hop & Hops & Hst & Hstmts & Hwh & Hfe & Hsw & Hcs & Hdf).
    pose proof (block_of_stmts f Hstmts) as Hblk.
    unfold TIDY. repeat split.
    + exact Hop1.
    + (* sxs *) intros g h l m m' Hm Hn H. rewrite sxs_S in H. destruct l as [|e l].
      * injection H as <-. exists []. split; reflexivity.
      * cbn [forallb] in Hm, Hn. split_and. inv_then H m1 E1.
        destruct (Hop g h e m m1) as (v & S1); try assumption.
        destruct (Hops g h l m1 m') as (vs & Hl & S2); try assumption.
        exists (vs ++ [v]). split; [rewrite app_length; cbn; lia|]. rewrite S2, S1, <- app_assoc. reflexivity.
    + exact Hst1.
    + (* statements of a block *)
      intros g h b m m' Hm Hp Hn H. rewrite sblock_S in H. destruct b as [|s b].
      * injection H as <-. exists []. reflexivity.
      * cbn [forallb] in Hm, Hn. split_and. inv_then H m1 E1.
        destruct (ModedProofs.postfix_paired_cases s b Hp) as (Hnp & [(n & n' & op & rest & -> & -> & Hp')|Hp']).
        -- (* x; ++ *)
           destruct f as [|f1]; [discriminate|]. rewrite sstmt_S in E1.
           destruct f1 as [|f2]; [discriminate|]. cbn [ExecFun.sx] in E1.
           apply pushr_inv in E1. destruct E1 as (v & ->).
           rewrite sblock_S in H. inv_then H m2 E2. rewrite sstmt_S in E2.
           apply postfix_pops in E2. destruct E2 as (v' & E2). cbn [push set_stk stk] in E2. injection E2 as _ E2.
           cbn [forallb] in *. split_and.
           apply sblock_up in H.
           destruct (Hstmts g h rest m2 m') as (r & Sr); try assumption.
           exists r. rewrite Sr, <- E2. reflexivity.
        -- destruct f as [|f1]; [discriminate|]. rewrite sstmt_S in E1. destruct s as [e|e].
           ++ inv_then E1 m2 E2. apply pop1s_inv in E1. destruct E1 as (? & ? & _ & E1). discriminate.
           ++ apply sx_up in E1.
              destruct (Hst g h e m m1) as (r1 & S1); try assumption.
              { intros n op ->. eapply Hnp. reflexivity. }
              destruct (Hstmts g h b m1 m') as (r2 & S2); try assumption.
              exists (r2 ++ r1). rewrite S2, S1, app_assoc. reflexivity.
    + (* while *)
      intros g h c body m m' Hmc Hnc Hmb Hnb H. rewrite swhile_S in H. inv_then H m1 E1.
      apply pop1s_inv in H. destruct H as (x & s & Es & H).
      destruct (Hop g h c m m1) as (v1 & S1); try assumption. rewrite S1 in Es. injection Es as _ <-.
      destruct (truthy x); [|injection H as <-; exists []; reflexivity].
      inv_then H m3 E3. destruct (Hblk g h body _ m3 Hmb Hnb E3) as (r1 & S3). cbn [stk set_stk] in S3.
      destruct (Hwh g h c body m3 m') as (r2 & S4); try assumption.
      exists (r2 ++ r1). rewrite S4, S3, app_assoc. reflexivity.
    + (* foreach *)
      intros g h idx ident it off body m m' Hmb Hnb Hmark H. rewrite sforeach_S in H.
      unfold foreach_next in H. destruct (iter_next o it off) as [[[x k]|]|] eqn:En; [| |discriminate].
      * cbv zeta in H. change (mkM (VIter it (off + 1) :: stk m) _ (trace m) (polls m))
          with (body_entry idx ident it off k x m) in H.
        inv_then H m1 E1. destruct (Hblk g h body _ m1 Hmb Hnb E1) as (r1 & S1). cbn [stk body_entry] in S1.
        destruct (back_at_head f idx ident it off body m k x m1 r1 Hmark E1 S1) as (Hd & Hmark').
        rewrite Hd in H. exact (Hfe g h _ _ _ _ _ _ _ Hmb Hnb Hmark' H).
      * destruct (env_pop (menv m)); [|discriminate]. injection H as <-. reflexivity.
    + (* switch *)
      intros g h v rest all m m' Hmv Hnv Hmr Hnr Hma Hna H. rewrite sswitch_S in H.
      destruct rest as [|[[[] es] blk] rest].
      * apply (Hdf g h all m m'); assumption.
      * cbn [forallb] in Hmr, Hnr. split_and. apply (Hsw g h v rest all m m'); assumption.
      * cbn [forallb] in Hmr, Hnr. split_and.
        unfold ModedProofs.moded_choice, nocall_choice in *. cbn [fst snd] in *. split_and.
        apply (Hcs g h v es blk rest all m m'); assumption.
    + (* case *)
      intros g h v es blk rest all m m' Hmv Hnv Hme Hne Hmb Hnb Hmr Hnr Hma Hna H. rewrite scase_S in H.
      destruct es as [|e es]; [apply (Hsw g h v rest all m m'); assumption|].
      cbn [forallb] in Hme, Hne. split_and.
      inv_then H m1 E1. inv_then H m2 E2. apply pop2s_inv in H. destruct H as (c & subj & s & Es & H).
      destruct (Hop g h v m m1) as (v1 & S1); try assumption.
      destruct (Hop g h e m1 m2) as (v2 & S2); try assumption.
      rewrite S2, S1 in Es. injection Es as _ _ <-.
      destruct (vm_case o subj c) as [t|]; [|discriminate]. destruct (truthy t).
      * apply (Hblk g h blk (set_stk m2 (stk m)) m'); assumption.
      * apply (Hcs g h v es blk rest all (set_stk m2 (stk m)) m'); assumption.
    + (* defaults *)
      intros g h all m m' Hma Hna H. rewrite sdefaults_S in H.
      destruct all as [|[[[] es] blk] all]; [injection H as <-; exists []; reflexivity| |].
      * cbn [forallb] in Hma, Hna. split_and.
        unfold ModedProofs.moded_choice, nocall_choice in *. cbn [fst snd] in *. split_and.
        inv_then H m1 E1. destruct (Hblk g h blk m m1) as (r1 & S1); try assumption.
        destruct (Hdf g h all m1 m') as (r2 & S2); try assumption.
        exists (r2 ++ r1). rewrite S2, S1, app_assoc. reflexivity.
      * cbn [forallb] in Hma, Hna. split_and. apply (Hdf g h all m m'); assumption.
Qed.

(* WELL-MODED BODIES WITHOUT OPERAND CALLS SATISFY THE SIDE CONDITION - for every state and fuel *)
Theorem tidy_stack_safe : forall g h body,
  moded_block g body = true -> nocall_block h body = true -> stack_safe body.
Proof.
  intros g h body Hm Hn fuel m m' H. destruct (tidy_all fuel) as (_ & _ & _ & Hstmts & _).
  apply (block_of_stmts fuel Hstmts g h body m m' Hm Hn H).
Qed.
(* ... so for such bodies foreach is the fold, unconditionally *)
Corollary foreach_visits_each_once_tidy : forall g h idx ident v body F m m1 c s es r,
  moded_block g body = true -> nocall_block h body = true ->
  sx F v m = XNormal m1 -> stk m1 = c :: s -> entries c = Some es ->
  run_body_over F idx ident body c 0 es (loop_state m1 s) = r -> is_fuel r = false ->
  forall fuel, (F + List.length es + 2 <= fuel)%nat -> sx fuel (EForeach idx ident v body) m = r.
Proof.
  intros g h idx ident v body F m m1 c s es r Hm Hn Hv Hs He Hr Hf fuel Hfuel.
  apply (foreach_visits_each_once idx ident v body F m m1 c s es r); try assumption.
  apply stack_safe_bodies_safe. apply (tidy_stack_safe g h); assumption.
Qed.

End Spec.

(* ------------------------------------------------------------------ *)
(* PART H: the theorems at work on concrete programs (no oracle: every oracle function answers None) *)
Module Examples.
Local Open Scope string_scope.
Definition o0 : stdlib := ContainerProofs.cex_stdlib.
Definition m0 : mstate := mkM [] (mkEnv [] []) [] None.
Definition lit (z : Z) : expr := EInt [] z.
Definition asg (n : string) (e : expr) : stmt := SExpr (EAssign (L n) e).
Definition var (n : string) : expr := EIdent (L n).
Definition glob (l : list (string * value)) : mstate :=
  mkM [] (mkEnv (map (fun nv => (L (fst nv), snd nv)) l) []) [] None.

(* 1. foreach with a body that leaves residue on the stack: the statement `7;` pushes a value in
      every iteration; the loop still visits all three elements *)
Definition body1 : list stmt := [SExpr (lit 7); SExpr (EInfix TPlusEq (var "s") (var "x"))].
Definition loop1 : expr := EForeach [] (L "x") (EArray [lit 10; lit 20; lit 30]) body1.
Definition prog1 : list stmt := [asg "s" (lit 0); SExpr loop1; SReturn (var "s")].
Example foreach_with_residue : exists m', sblock o0 [] HNil [] 12 prog1 m0 = XReturn (VInt 60) m'.
Proof. eexists. vm_compute. reflexivity. Qed.
(* the same through the theorem, for every fuel from 11 on; the side condition holds (the
   residue is [7] each time) *)
Example foreach_with_residue_spec : forall fuel, (11 <= fuel)%nat ->
  sx o0 [] HNil [] fuel loop1 (glob [("s", VInt 0)]) = XNormal (glob [("s", VInt 60)]).
Proof.
  intros fuel Hfuel.
  eapply (foreach_visits_each_once o0 [] HNil [] [] (L "x") _ body1 6).
  - vm_compute. reflexivity.
  - reflexivity.
  - reflexivity.
  - vm_compute. repeat split; exists [VInt 7]; reflexivity.
  - vm_compute. reflexivity.
  - reflexivity.
  - cbn. lia.
Qed.
Example foreach_visits_three :
  visited o0 [] HNil [] 6 [] (L "x") body1 (VArray [VInt 10; VInt 20; VInt 30]) 0
          [(VInt 0, VInt 10); (VInt 1, VInt 20); (VInt 2, VInt 30)]
          (loop_state (mkM [VArray [VInt 10; VInt 20; VInt 30]] (mkEnv [(L "s", VInt 0)] []) [] None) [])
  = [(VInt 0, VInt 10); (VInt 1, VInt 20); (VInt 2, VInt 30)].
Proof. vm_compute. reflexivity. Qed.

(* 2. a hash is visited in sorted key order whatever the order of its pairs; key and value bound *)
Definition hash_ba : value := VHash [(VStr (L "b"), VInt 2); (VStr (L "a"), VInt 1)].
Example hash_entries_sorted : entries o0 hash_ba = Some [(VStr (L "a"), VInt 1); (VStr (L "b"), VInt 2)].
Proof. vm_compute. reflexivity. Qed.
Definition loop2 : expr :=
  EForeach (L "k") (L "x") (var "h")
    [SExpr (EInfix TPlusEq (var "ks") (var "k")); SExpr (EInfix TPlusEq (var "n") (var "x"))].
Example foreach_hash_in_key_order : forall fuel, (11 <= fuel)%nat ->
  sx o0 [] HNil [] fuel loop2 (glob [("h", hash_ba); ("ks", VStr []); ("n", VInt 0)])
  = XNormal (glob [("h", hash_ba); ("ks", VStr (L "ab")); ("n", VInt 3)]).
Proof.
  intros fuel Hfuel.
  eapply (foreach_visits_each_once o0 [] HNil [] (L "k") (L "x") _ _ 6).
  - vm_compute. reflexivity.
  - reflexivity.
  - vm_compute. reflexivity.
  - vm_compute. repeat split; exists []; reflexivity.
  - vm_compute. reflexivity.
  - reflexivity.
  - cbn. lia.
Qed.
(* strings by character, ranges as arrays of consecutive integers *)
Example string_entries : entries o0 (VStr (L "hi")) = Some [(VInt 0, VStr (L "h")); (VInt 1, VStr (L "i"))].
Proof. vm_compute. reflexivity. Qed.
Example range_entries : exists c, vm_range (VInt 3) (VInt 5) = Ok c /\
  entries o0 c = Some [(VInt 0, VInt 3); (VInt 1, VInt 4); (VInt 2, VInt 5)].
Proof. eexists. split; vm_compute; reflexivity. Qed.

(* 3. THE SIDE CONDITION IS NEEDED, even for well-moded bodies: `y = f();` with a host function f
      that returns nothing pops the loop's iterator (the assignment pops what the call did not
      push; y becomes the iterated container).  The interpreter then finds the stack below the
      height the loop remembered and ends in an internal error after ONE visit - it is not the
      two visits `run_body_over` describes. *)
Definition body3 : list stmt := [asg "y" (ECall (var "f") [])].
Definition loop3 : expr := EForeach [] (L "x") (EArray [lit 1; lit 2]) body3.
Definition fns3 : fnmap := [(L "f", FHost HKVoid)].
Example foreach_body_may_eat_the_iterator :
  moded_block 5 body3 = true /\
  (exists m', sx o0 fns3 HNil [] 12 loop3 m0 = XErr EInternal m' /\
              env_get (menv m') (L "y") = Some (VArray [VInt 1; VInt 2]) /\ List.length (trace m') = 1%nat) /\
  (exists m', run_body_over o0 fns3 HNil [] 12 [] (L "x") body3 (VArray [VInt 1; VInt 2]) 0
                [(VInt 0, VInt 1); (VInt 1, VInt 2)]
                (loop_state (mkM [VArray [VInt 1; VInt 2]] (mkEnv [] []) [] None) []) = XNormal m' /\
              List.length (trace m') = 2%nat) /\
  ~ stack_safe o0 fns3 HNil [] body3.
Proof.
  split; [vm_compute; reflexivity|]. split; [eexists; vm_compute; repeat split; reflexivity|].
  split; [eexists; vm_compute; repeat split; reflexivity|].
  intro H. destruct (H 5%nat (mkM [VInt 1] (mkEnv [] []) [] None) _ eq_refl) as (r & Hr).
  vm_compute in Hr. destruct r; discriminate.
Qed.

(* 4. while: three rounds, then the condition is falsy *)
Definition cond4 : expr := EInfix TLt (var "i") (lit 3).
Definition body4 : list stmt := [SExpr (var "i"); SExpr (EPostfix (L "i") TPlusPlus)].
Example while_three_rounds : forall fuel, (12 <= fuel)%nat ->
  sx o0 [] HNil [] (S fuel) (EWhile cond4 body4) (glob [("i", VInt 0)]) = XNormal (glob [("i", VInt 3)]).
Proof.
  intros fuel Hfuel.
  apply (while_runs_k_times o0 [] HNil [] cond4 body4 8 3 _ (glob [("i", VInt 3)]) (VBool false)).
  - vm_compute. reflexivity.
  - vm_compute. reflexivity.
  - reflexivity.
  - lia.
Qed.

(* 5. switch: the first matching arm, found by its second case expression; later arms and the
      default are not looked at (they contain calls of an unknown function, which would fail) *)
Definition boom : expr := ECall (var "nosuch") [].
Definition sw5 : expr :=
  ESwitch (var "v")
    [ (false, [lit 1], [asg "a" (lit 10)]);
      (false, [lit 5; lit 2; boom], [asg "a" (lit 20)]);
      (false, [boom], [SExpr boom]);
      (true, [], [SExpr boom]) ].
Example switch_second_arm : forall fuel, (25 <= fuel)%nat ->
  sx o0 [] HNil [] fuel sw5 (glob [("v", VInt 2)]) = XNormal (glob [("v", VInt 2); ("a", VInt 20)]).
Proof.
  intros fuel Hfuel.
  apply (switch_first_match o0 [] HNil [] (var "v") [(false, [lit 1], [asg "a" (lit 10)])] [lit 5] (lit 2) [boom]
           [asg "a" (lit 20)] [(false, [boom], [SExpr boom]); (true, [], [SExpr boom])] 5
           (glob [("v", VInt 2)]) (glob [("v", VInt 2)]) (glob [("v", VInt 2)])).
  - vm_compute. reflexivity.
  - vm_compute. reflexivity.
  - vm_compute. reflexivity.
  - reflexivity.
  - vm_compute. lia.
Qed.
(* no case matches: the default, although written first *)
Definition sw5b : expr :=
  ESwitch (var "v") [ (true, [], [asg "a" (lit 99)]); (false, [lit 1], [asg "a" (lit 10)]) ].
Example switch_default_written_first : forall fuel, (15 <= fuel)%nat ->
  sx o0 [] HNil [] fuel sw5b (glob [("v", VInt 2)]) = XNormal (glob [("v", VInt 2); ("a", VInt 99)]).
Proof.
  intros fuel Hfuel.
  apply (switch_no_match_one_default o0 [] HNil [] (var "v") _ [asg "a" (lit 99)] 5
           (glob [("v", VInt 2)]) (glob [("v", VInt 2)])).
  - vm_compute. reflexivity.
  - reflexivity.
  - vm_compute. reflexivity.
  - reflexivity.
  - vm_compute. lia.
Qed.

(* 6. if / else if / else: the second condition is the first truthy one; the third condition and
      the else block would fail if they were evaluated *)
Definition if6 : expr :=
  if_chain (EBool false) [asg "a" (lit 1)] [(EBool true, [asg "a" (lit 2)]); (boom, [SExpr boom])] (Some [SExpr boom]).
Example else_if_second : forall fuel, (9 <= fuel)%nat ->
  sx o0 [] HNil [] fuel if6 m0 = XNormal (glob [("a", VInt 2)]).
Proof.
  intros fuel Hfuel.
  apply (if_first_truthy o0 [] HNil [] [(EBool false, [asg "a" (lit 1)])] _ _ _ _ (EBool true) [asg "a" (lit 2)]
           [(boom, [SExpr boom])] 5 m0 m0 (VBool true) m0).
  - reflexivity.
  - vm_compute. reflexivity.
  - vm_compute. reflexivity.
  - reflexivity.
  - vm_compute. reflexivity.
  - reflexivity.
  - cbn. lia.
Qed.
(* 7. the ternary evaluates one arm *)
Example ternary_one_arm : forall fuel, (2 <= fuel)%nat ->
  sx o0 [] HNil [] (S fuel) (ETernary (EBool true) (lit 1) boom) m0 = sx o0 [] HNil [] fuel (lit 1) m0.
Proof. intros fuel Hfuel. apply (ternary_selects o0 [] HNil [] 2 (EBool true) (lit 1) boom m0 (VBool true) m0); [reflexivity|exact Hfuel]. Qed.

(* 8. `return` from the inside of if-in-foreach-in-while-in-switch ends the script with its value;
      nothing after it runs; the scopes of the loops it left stay open on the environment, the
      iterator on the stack *)
Definition prog8 : list stmt :=
  [ asg "i" (lit 0);
    SExpr (ESwitch (lit 1)
      [ (false, [lit 1],
         [ SExpr (EWhile (EBool true)
             [ SExpr (EForeach [] (L "x") (EArray [lit 5; lit 6; lit 7])
                 [ SExpr (EIf (EInfix TEq (var "x") (lit 6)) [SReturn (EInfix TPlus (var "x") (lit 100))] None);
                   asg "i" (var "x") ]);
               SExpr boom ]);
           SExpr boom ]) ]);
    SExpr boom ].
Example return_from_the_inside : exists m',
  sblock o0 [] HNil [] 30 prog8 m0 = XReturn (VInt 106) m' /\
  env_get (menv m') (L "i") = Some (VInt 5) /\ List.length (scopes (menv m')) = 1%nat.
Proof. eexists. vm_compute. repeat split; reflexivity. Qed.
(* running off the end is the normal completion *)
Example off_the_end : sblock o0 [] HNil [] 5 [asg "a" (lit 1)] m0 = XNormal (glob [("a", VInt 1)]).
Proof. vm_compute. reflexivity. Qed.

(* 9. body1 above belongs to the decidable class of Part I, hence is stack-safe for every state *)
Example body1_is_tidy : moded_block 5 body1 = true /\ nocall_block 5 body1 = true.
Proof. split; vm_compute; reflexivity. Qed.
Example body1_stack_safe : forall o fns obj afs, stack_safe o fns obj afs body1.
Proof. intros. apply (tidy_stack_safe o fns obj afs 5 5); vm_compute; reflexivity. Qed.

(* 10. the subject of a switch is evaluated once per case expression tested: a host call in the
       subject is made twice when the second case expression is the one that matches *)
Definition fns10 : fnmap := [(L "f", FHost (HKConst (VInt 2)))].
Definition sw10 : expr :=
  ESwitch (ECall (var "f") []) [ (false, [lit 1; lit 2; lit 3], [asg "a" (lit 1)]); (true, [], []) ].
Example switch_subject_evaluated_per_test : exists m',
  sx o0 fns10 HNil [] 12 sw10 m0 = XNormal m' /\ List.length (trace m') = 2%nat /\ stk m' = [].
Proof. eexists. vm_compute. repeat split; reflexivity. Qed.

End Examples.

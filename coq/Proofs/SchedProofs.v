(* SchedProofs.v - the locking protocol of Eval.Run (C11).
   Complete proofs only; no axioms.

   Method: an invariant [Inv] of every world reachable from [init_world]:
   thread i still carries object i; [order] has no duplicates and lists
   exactly the threads that have passed Lock; the shared state and the
   recorded results are those of the sequential history along [order];
   the mutex holder is exactly the (unique) thread that is PLocked. *)
From Coq Require Import List Arith Bool Permutation NArith Lia.
From EF Require Import Model.Base Gen.Surface Model.Sched Model.Value Model.Reflect Model.Api.
Import ListNotations.
Local Open Scope nat_scope.
(* Model.Base re-exports String, whose [length] shadows the one on lists *)
Local Notation length := List.length.

Section Generic.
Variables (St O R : Type) (run : St -> O -> St * R).

Notation thread := (Sched.thread O R).
Notation world := (Sched.world St O R).
Notation mkT := (Sched.mkT O R).
Notation mkW := (Sched.mkW St O R).
Notation tobj := (Sched.tobj O R).
Notation tpc := (Sched.tpc O R).
Notation tres := (Sched.tres O R).
Notation shared := (Sched.shared St O R).
Notation holder := (Sched.holder St O R).
Notation threads := (Sched.threads St O R).
Notation order := (Sched.order St O R).
Notation upd := (Sched.upd O R).
Notation sstep := (Sched.step St O R run).
Notation exec_schedule := (Sched.exec_schedule St O R run).
Notation init_world := (Sched.init_world St O R).
Notation all_done := (Sched.all_done St O R).
Notation sequential := (Sched.sequential St O R run).
Notation results := (Sched.results St O R).

(* ------------------------------------------------------------------ *)
(* lists *)

Lemma upd_cons_S : forall a (l : list thread) i t, upd (a :: l) (S i) t = a :: upd l i t.
Proof. reflexivity. Qed.

Lemma upd_cons_0 : forall a (l : list thread) t, upd (a :: l) 0 t = t :: l.
Proof. reflexivity. Qed.

Lemma upd_nth : forall (l : list thread) i j t, i < length l ->
  nth_error (upd l i t) j = if Nat.eqb j i then Some t else nth_error l j.
Proof.
  induction l as [|a l IH]; intros i j t Hi; cbn [length] in Hi; [lia|].
  destruct i as [|i].
  - rewrite upd_cons_0. destruct j; reflexivity.
  - rewrite upd_cons_S. destruct j as [|j]; [reflexivity|].
    cbn [nth_error Nat.eqb]. apply IH. lia.
Qed.

Lemma upd_length : forall (l : list thread) i t, i < length l -> length (upd l i t) = length l.
Proof.
  induction l as [|a l IH]; intros i t Hi; cbn [length] in Hi; [lia|].
  destruct i as [|i].
  - reflexivity.
  - rewrite upd_cons_S. cbn [length]. f_equal. apply IH. lia.
Qed.

Lemma nth_error_map_inv : forall (A B : Type) (f : A -> B) l i b,
  nth_error (map f l) i = Some b -> exists a, nth_error l i = Some a /\ b = f a.
Proof.
  induction l as [|a l IH]; intros [|i] b H; cbn in H; try discriminate.
  - injection H as <-. exists a. split; reflexivity.
  - apply IH. exact H.
Qed.

Lemma nth_error_map_fwd : forall (A B : Type) (f : A -> B) l i a,
  nth_error l i = Some a -> nth_error (map f l) i = Some (f a).
Proof.
  induction l as [|x l IH]; intros [|i] a H; cbn in H; try discriminate.
  - injection H as <-. reflexivity.
  - cbn. apply IH. exact H.
Qed.

Lemma filter_none : forall (A : Type) (P : A -> bool) l,
  (forall i t, nth_error l i = Some t -> P t = false) -> filter P l = [].
Proof.
  induction l as [|a l IH]; intro H; [reflexivity|].
  cbn [filter]. rewrite (H 0 a eq_refl). apply IH. intros i t Hi. exact (H (S i) t Hi).
Qed.

Lemma filter_at_most_one : forall (A : Type) (P : A -> bool) l,
  (forall i j t u, nth_error l i = Some t -> nth_error l j = Some u -> P t = true -> P u = true -> i = j) ->
  length (filter P l) <= 1.
Proof.
  induction l as [|a l IH]; intro H; [cbn; lia|].
  cbn [filter]. destruct (P a) eqn:Ea.
  - rewrite filter_none; [cbn; lia|].
    intros i t Hi. destruct (P t) eqn:Et; [|reflexivity].
    pose proof (H 0 (S i) a t eq_refl Hi Ea Et). discriminate.
  - apply IH. intros i j t u Hi Hj Ht Hu.
    pose proof (H (S i) (S j) t u Hi Hj Ht Hu). lia.
Qed.

(* ------------------------------------------------------------------ *)
(* the sequential history, extended at the back *)

Lemma sequential_snoc : forall objs ord s i,
  sequential s objs (ord ++ [i]) =
  match nth_error objs i with
  | None => sequential s objs ord
  | Some o => let '(s', r) := run (fst (sequential s objs ord)) o in
              (s', snd (sequential s objs ord) ++ [(i, r)])
  end.
Proof.
  intros objs. induction ord as [|j ord IH]; intros s i.
  - cbn [app Sched.sequential fst snd]. destruct (nth_error objs i) as [o|]; [|reflexivity].
    destruct (run s o) as [s' r]. reflexivity.
  - cbn [app Sched.sequential]. destruct (nth_error objs j) as [oj|].
    + destruct (run s oj) as [s1 r1]. rewrite IH.
      destruct (nth_error objs i) as [o|].
      * destruct (sequential s1 objs ord) as [sf rs]. cbn [fst snd].
        destruct (run sf o) as [s' r]. reflexivity.
      * reflexivity.
    + apply IH.
Qed.

Lemma sequential_in_order : forall objs ord s i r,
  In (i, r) (snd (sequential s objs ord)) -> In i ord.
Proof.
  intros objs. induction ord as [|j ord IH]; intros s i r H.
  - cbn in H. contradiction.
  - cbn [Sched.sequential] in H. destruct (nth_error objs j) as [oj|].
    + destruct (run s oj) as [s1 r1]. specialize (IH s1 i r).
      destruct (sequential s1 objs ord) as [sf rs]. cbn [snd] in *.
      destruct H as [H|H].
      * injection H as <- _. left. reflexivity.
      * right. apply IH. exact H.
    + right. apply (IH s i r). exact H.
Qed.

(* ------------------------------------------------------------------ *)
(* the invariant *)

Definition Inv (s : St) (objs : list O) (w : world) : Prop :=
  length (threads w) = length objs /\
  (forall i t, nth_error (threads w) i = Some t -> nth_error objs i = Some (tobj t)) /\
  NoDup (order w) /\
  (forall i, In i (order w) <-> exists t, nth_error (threads w) i = Some t /\ tpc t <> PStart) /\
  shared w = fst (sequential s objs (order w)) /\
  (forall i r, In (i, r) (snd (sequential s objs (order w))) ->
               exists t, nth_error (threads w) i = Some t /\ tres t = Some r) /\
  (forall i t, nth_error (threads w) i = Some t -> (tpc t = PLocked <-> holder w = Some i)).

Lemma Inv_init : forall s objs, Inv s objs (init_world s objs).
Proof.
  intros s objs. unfold Inv, Sched.init_world. cbn [Sched.threads Sched.order Sched.shared Sched.holder].
  split; [|split; [|split; [|split; [|split; [|split]]]]].
  - apply map_length.
  - intros i t H. apply nth_error_map_inv in H. destruct H as (o & Ho & ->). exact Ho.
  - constructor.
  - intro i. split.
    + intros [].
    + intros (t & Ht & Hpc). apply nth_error_map_inv in Ht. destruct Ht as (o & _ & ->).
      exfalso. apply Hpc. reflexivity.
  - reflexivity.
  - intros i r [].
  - intros i t H. apply nth_error_map_inv in H. destruct H as (o & _ & ->).
    cbn [Sched.tpc]. split; discriminate.
Qed.

Lemma Inv_step : forall s objs w i w',
  Inv s objs w -> sstep w i = Some w' -> Inv s objs w'.
Proof.
  intros s objs w i w' (Hlen & Hobj & Hnd & Hord & Hsh & Hres & Hhold) Hstep.
  unfold Sched.step in Hstep.
  destruct (nth_error (threads w) i) as [t|] eqn:Et; [|discriminate].
  assert (Hi : i < length (threads w)) by (apply nth_error_Some; congruence).
  destruct (tpc t) eqn:Epc.
  - (* Lock + body *)
    destruct (holder w) as [h|] eqn:Eh; [discriminate|].
    destruct (run (shared w) (tobj t)) as [s' r] eqn:Er.
    injection Hstep as <-. unfold Inv.
    cbn [Sched.threads Sched.order Sched.shared Sched.holder].
    assert (Hnotin : ~ In i (order w)).
    { intro Hin. apply Hord in Hin. destruct Hin as (t' & Ht' & Hpc').
      rewrite Et in Ht'. injection Ht' as <-. apply Hpc'. exact Epc. }
    split; [|split; [|split; [|split; [|split; [|split]]]]].
    + rewrite upd_length by exact Hi. exact Hlen.
    + intros j tj Hj. rewrite upd_nth in Hj by exact Hi.
      destruct (Nat.eqb_spec j i) as [->|Hne].
      * injection Hj as <-. cbn [Sched.tobj]. apply Hobj. exact Et.
      * apply Hobj. exact Hj.
    + apply (Permutation_NoDup (Permutation_cons_append (order w) i)).
      constructor; assumption.
    + intro j. rewrite in_app_iff. rewrite upd_nth by exact Hi. split.
      * intros [Hin|[<-|[]]].
        -- apply Hord in Hin. destruct Hin as (tj & Htj & Hpc).
           destruct (Nat.eqb_spec j i) as [->|Hne].
           ++ exfalso. rewrite Et in Htj. injection Htj as <-. apply Hpc. exact Epc.
           ++ exists tj. split; assumption.
        -- rewrite Nat.eqb_refl. eexists. split; [reflexivity|]. cbn [Sched.tpc]. discriminate.
      * intros (tj & Htj & Hpc). destruct (Nat.eqb_spec j i) as [->|Hne].
        -- right. left. reflexivity.
        -- left. apply Hord. exists tj. split; assumption.
    + rewrite sequential_snoc, (Hobj _ _ Et), <- Hsh, Er. reflexivity.
    + intros j rj Hin. rewrite sequential_snoc, (Hobj _ _ Et), <- Hsh, Er in Hin.
      cbn [snd] in Hin. apply in_app_iff in Hin. rewrite upd_nth by exact Hi.
      destruct Hin as [Hin|[Hin|[]]].
      * destruct (Nat.eqb_spec j i) as [->|Hne].
        -- exfalso. apply Hnotin. eapply sequential_in_order. exact Hin.
        -- apply Hres. exact Hin.
      * injection Hin as <- <-. rewrite Nat.eqb_refl. eexists. split; reflexivity.
    + intros j tj Hj. rewrite upd_nth in Hj by exact Hi.
      destruct (Nat.eqb_spec j i) as [->|Hne].
      * injection Hj as <-. cbn [Sched.tpc]. split; reflexivity.
      * pose proof (Hhold j tj Hj) as Hh. try rewrite Eh in Hh. split.
        -- intro Hl. apply Hh in Hl. discriminate.
        -- intro Hs. injection Hs as ->. contradiction.
  - (* Unlock *)
    destruct (holder w) as [h|] eqn:Eh; [|discriminate].
    destruct (Nat.eqb_spec h i) as [->|Hne]; [|discriminate].
    injection Hstep as <-. unfold Inv.
    cbn [Sched.threads Sched.order Sched.shared Sched.holder].
    split; [|split; [|split; [|split; [|split; [|split]]]]].
    + rewrite upd_length by exact Hi. exact Hlen.
    + intros j tj Hj. rewrite upd_nth in Hj by exact Hi.
      destruct (Nat.eqb_spec j i) as [->|Hne].
      * injection Hj as <-. cbn [Sched.tobj]. apply Hobj. exact Et.
      * apply Hobj. exact Hj.
    + exact Hnd.
    + intro j. rewrite upd_nth by exact Hi. rewrite Hord.
      destruct (Nat.eqb_spec j i) as [->|Hne]; [|reflexivity].
      split.
      * intros _. eexists. split; [reflexivity|]. cbn [Sched.tpc]. discriminate.
      * intros _. exists t. split; [exact Et|]. rewrite Epc. discriminate.
    + exact Hsh.
    + intros j rj Hin. apply Hres in Hin. destruct Hin as (tj & Htj & Hrj).
      rewrite upd_nth by exact Hi. destruct (Nat.eqb_spec j i) as [->|Hne].
      * rewrite Et in Htj. injection Htj as <-. eexists. split; [reflexivity|]. exact Hrj.
      * exists tj. split; assumption.
    + intros j tj Hj. rewrite upd_nth in Hj by exact Hi.
      destruct (Nat.eqb_spec j i) as [->|Hne].
      * injection Hj as <-. cbn [Sched.tpc]. split; discriminate.
      * pose proof (Hhold j tj Hj) as Hh. try rewrite Eh in Hh. split.
        -- intro Hl. apply Hh in Hl. injection Hl as ->. contradiction.
        -- discriminate.
  - discriminate.
Qed.

Lemma Inv_schedule : forall s objs sch w w',
  Inv s objs w -> exec_schedule w sch = Some w' -> Inv s objs w'.
Proof.
  intros s objs. induction sch as [|i sch IH]; intros w w' HI H.
  - cbn in H. injection H as <-. exact HI.
  - cbn [Sched.exec_schedule] in H. destruct (sstep w i) as [w1|] eqn:E1; [|discriminate].
    apply (IH w1 w'); [|exact H]. eapply Inv_step; eassumption.
Qed.

Lemma Inv_reachable : forall s objs sch w,
  exec_schedule (init_world s objs) sch = Some w -> Inv s objs w.
Proof. intros s objs sch w H. eapply Inv_schedule; [apply Inv_init|exact H]. Qed.

(* ------------------------------------------------------------------ *)
(* the theorems *)

Lemma all_done_nth : forall w i t,
  all_done w = true -> nth_error (threads w) i = Some t -> tpc t = PDone.
Proof.
  intros w i t H Ht. unfold Sched.all_done in H. rewrite forallb_forall in H.
  specialize (H t (nth_error_In _ _ Ht)). destruct (tpc t); try discriminate. reflexivity.
Qed.

Lemma done_order_perm : forall s objs w,
  Inv s objs w -> all_done w = true -> Permutation (order w) (seq 0 (length objs)).
Proof.
  intros s objs w (Hlen & Hobj & Hnd & Hord & _) Hd.
  apply NoDup_Permutation; [exact Hnd|apply seq_NoDup|].
  intro i. rewrite in_seq, Hord. split.
  - intros (t & Ht & _). split; [lia|]. cbn. rewrite <- Hlen. apply nth_error_Some. congruence.
  - intros [_ Hi]. cbn in Hi. rewrite <- Hlen in Hi.
    destruct (nth_error (threads w) i) as [t|] eqn:Et.
    + exists t. split; [reflexivity|]. rewrite (all_done_nth w i t Hd Et). discriminate.
    + exfalso. apply nth_error_Some in Hi. contradiction.
Qed.

Theorem serializable_gen : forall (s : St) (objs : list O) (sch : list nat) (w : world),
  exec_schedule (init_world s objs) sch = Some w -> all_done w = true ->
  Permutation (order w) (seq 0 (length objs)) /\
  shared w = fst (sequential s objs (order w)) /\
  forall i r, In (i, r) (snd (sequential s objs (order w))) ->
              nth_error (results w) i = Some (Some r).
Proof.
  intros s objs sch w H Hd. pose proof (Inv_reachable _ _ _ _ H) as HI.
  split; [eapply done_order_perm; eassumption|].
  destruct HI as (_ & _ & _ & _ & Hsh & Hres & _). split; [exact Hsh|].
  intros i r Hin. destruct (Hres i r Hin) as (t & Ht & Hr).
  unfold Sched.results. rewrite (nth_error_map_fwd _ _ tres _ _ _ Ht), Hr. reflexivity.
Qed.

Theorem mutual_exclusion_gen : forall (s : St) (objs : list O) (sch : list nat) (w : world),
  exec_schedule (init_world s objs) sch = Some w ->
  length (filter (fun t => match tpc t with PLocked => true | _ => false end) (threads w)) <= 1.
Proof.
  intros s objs sch w H. pose proof (Inv_reachable _ _ _ _ H) as HI.
  destruct HI as (_ & _ & _ & _ & _ & _ & Hhold).
  apply filter_at_most_one. intros i j t u Hi Hj Ht Hu.
  assert (Hti : holder w = Some i).
  { apply (Hhold i t Hi). destruct (tpc t); try discriminate. reflexivity. }
  assert (Htj : holder w = Some j).
  { apply (Hhold j u Hj). destruct (tpc u); try discriminate. reflexivity. }
  congruence.
Qed.

End Generic.

Theorem serializable : forall (S O R : Type) (run : S -> O -> S * R) (s : S) (objs : list O) (sch : list nat) (w : world S O R),
  exec_schedule S O R run (init_world S O R s objs) sch = Some w -> all_done S O R w = true ->
  Permutation (order S O R w) (seq 0 (length objs)) /\
  shared S O R w = fst (sequential S O R run s objs (order S O R w)) /\
  forall i r, In (i, r) (snd (sequential S O R run s objs (order S O R w))) ->
              nth_error (results S O R w) i = Some (Some r).
Proof. exact serializable_gen. Qed.

Theorem mutual_exclusion : forall (S O R : Type) (run : S -> O -> S * R) (s : S) (objs : list O) (sch : list nat) (w : world S O R),
  exec_schedule S O R run (init_world S O R s objs) sch = Some w ->
  (length (filter (fun t => match tpc O R t with PLocked => true | _ => false end) (threads S O R w)) <= 1)%nat.
Proof. exact mutual_exclusion_gen. Qed.

(* ------------------------------------------------------------------ *)
(* a counter *)

Lemma counter_sequential : forall (objs : list unit) ord n0,
  (forall i, In i ord -> i < length objs) ->
  fst (sequential nat unit nat (fun n _ => (Datatypes.S n, n)) n0 objs ord) = n0 + length ord.
Proof.
  intros objs. induction ord as [|i ord IH]; intros n0 H.
  - cbn. lia.
  - cbn [sequential]. destruct (nth_error objs i) as [o|] eqn:Eo.
    + specialize (IH (Datatypes.S n0) (fun j Hj => H j (or_intror Hj))).
      destruct (sequential nat unit nat (fun n _ => (Datatypes.S n, n)) (Datatypes.S n0) objs ord) as [sf rs].
      cbn [fst] in *. rewrite IH. cbn [length]. lia.
    + exfalso. assert (Hi : i < length objs) by (apply H; left; reflexivity).
      apply nth_error_Some in Hi. contradiction.
Qed.

Theorem no_lost_update : forall (objs : list unit) (sch : list nat) (w : world nat unit nat) (n0 : nat),
  exec_schedule nat unit nat (fun n _ => (Datatypes.S n, n)) (init_world nat unit nat n0 objs) sch = Some w ->
  all_done nat unit nat w = true ->
  shared nat unit nat w = (n0 + length objs)%nat.
Proof.
  intros objs sch w n0 H Hd.
  destruct (serializable _ _ _ _ _ _ _ _ H Hd) as (Hp & Hsh & _).
  rewrite Hsh, counter_sequential.
  - rewrite (Permutation_length Hp), seq_length. reflexivity.
  - intros i Hi. apply (Permutation_in _ Hp) in Hi. apply in_seq in Hi. lia.
Qed.

(* ------------------------------------------------------------------ *)
(* the evaluator model *)

Theorem applies_to_run : forall o fuel (e : eval) (objs : list hostval) sch w,
  let run := fun (e : eval) (obj : hostval) => let '(r, e') := step o fuel e (ORun obj) in (e', r) in
  exec_schedule eval hostval opres run (init_world eval hostval opres e objs) sch = Some w ->
  all_done eval hostval opres w = true ->
  shared eval hostval opres w = fst (sequential eval hostval opres run e objs (order eval hostval opres w)).
Proof.
  intros o fuel e objs sch w run H Hd.
  exact (proj1 (proj2 (serializable _ _ _ run e objs sch w H Hd))).
Qed.

(* ------------------------------------------------------------------ *)
(* package-level state, over the generated facts *)

Definition guarded (how : list N) : bool := str_eqb how (L "locked") || str_eqb how (L "init").

Theorem shared_state_guarded :
  forallb (fun '(_, _, _, mutated, accesses) => negb mutated || forallb (fun a => guarded (snd a)) accesses) package_vars = true.
Proof. vm_compute. reflexivity. Qed.

Theorem evaluators_disjoint :
  forallb (fun '(_, name, _, mutated, _) => negb mutated || str_eqb name (L "regCache")) package_vars = true.
Proof. vm_compute. reflexivity. Qed.

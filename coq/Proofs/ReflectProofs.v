(* ReflectProofs.v - host objects as seen by scripts (C04): the supported
   kinds convert without loss, the others become null, converting never
   panics; the lookup order of names; each run sees its own object.
   Complete proofs only; no axioms. *)
From Coq Require Import Floats Lia.
From EF Require Import Model.Base Gen.Tables Model.Value Model.Env Model.Reflect Model.VM Model.Api.
Open Scope N_scope.

(* ------------------------------------------------------------------ *)
(* scalars *)

Lemma scalars_lossless : forall o fuel depth z f s b u bits,
  to_object o (S fuel) depth (HInt 0 z) = Some (CVal (VInt z)) /\
  to_object o (S fuel) depth (HInt 64 z) = Some (CVal (VInt z)) /\
  to_object o (S fuel) depth (HFloat bits f) = Some (CVal (VFloat f)) /\
  to_object o (S fuel) depth (HString s) = Some (CVal (VStr s)) /\
  to_object o (S fuel) depth (HBool b) = Some (CVal (VBool b)) /\
  to_object o (S fuel) depth (HTime u) = Some (CVal (VInt u)) /\
  to_object o (S fuel) depth HNil = Some (CVal VNull).
Proof. intros. repeat split. Qed.

Lemma filter_map_all : forall (l : list hostval) (vs : list value),
  Forall2 (fun h v => slice_elem h = Some v) l vs -> filter_map slice_elem l = vs.
Proof.
  intros l vs H. induction H as [|h v l vs Hh _ IH]; cbn [filter_map].
  - reflexivity.
  - rewrite Hh, IH. reflexivity.
Qed.

Lemma slices_lossless : forall o fuel depth (l : list hostval) (vs : list value),
  Forall2 (fun h v => slice_elem h = Some v) l vs ->
  to_object o (S fuel) depth (HSlice l) = Some (CVal (VArray vs)).
Proof.
  intros o fuel depth l vs H. cbn [to_object]. rewrite (filter_map_all l vs H). reflexivity.
Qed.

Lemma unsupported_is_null : forall o fuel depth bits z h,
  to_object o (S fuel) depth (HUint bits z) = Some (CVal VNull) /\
  to_object o (S fuel) depth (HInt 8 z) = Some (CVal VNull) /\
  to_object o (S fuel) depth (HPtr h) = Some (CVal VNull) /\
  to_object o (S fuel) depth HNilPtr = Some (CVal VNull) /\
  to_object o (S fuel) depth HOther = Some (CVal VNull) /\
  to_object o (S fuel) depth (HIface h) = Some (CVal VNull).
Proof. intros. repeat split. Qed.

(* ------------------------------------------------------------------ *)
(* maps nested deeper than the machine's nesting limit are not followed: they read as null
   (a Go map can contain itself; the conversion is bounded all the same) *)

Lemma too_deep_is_null : forall o fuel depth l kk l',
  max_call_depth <= depth ->
  to_object o (S fuel) depth (HMapIface l) = Some (CVal VNull) /\
  to_object o (S fuel) depth (HMapOther kk l') = Some (CVal VNull).
Proof.
  intros o fuel depth l kk l' H. apply N.leb_le in H.
  split; cbn [to_object]; rewrite H; reflexivity.
Qed.

(* ------------------------------------------------------------------ *)
(* converting never panics *)

Section Panics.
Variable o : stdlib.

Definition go_iface (f : nat) (depth : N) :=
  fix go (l : list (str * hostval)) (acc : list (value * value)) : option conv :=
    match l with
    | [] => Some (CVal (VHash acc))
    | (k, x) :: l' =>
        match to_object o f (depth + 1) x with
        | Some (CVal v) =>
            match hash_put o acc (2, k) (VStr k) v with
            | Some acc' => go l' acc'
            | None => None
            end
        | Some CPanic => Some CPanic
        | None => None
        end
    end.

Definition go_other (f : nat) (depth : N) :=
  fix go (l : list (hostval * hostval)) (acc : list (value * value)) : option conv :=
    match l with
    | [] => Some (CVal (VHash acc))
    | (k, x) :: l' =>
        match to_object o f (depth + 1) k, to_object o f (depth + 1) x with
        | Some (CVal kv), Some (CVal v) =>
            match hash_key o kv with
            | None => None
            | Some None => go l' acc
            | Some (Some hk) => match hash_put o acc hk kv v with
                                | Some acc' => go l' acc'
                                | None => None
                                end
            end
        | Some CPanic, _ => Some CPanic
        | _, Some CPanic => Some CPanic
        | _, _ => None
        end
    end.

Lemma to_object_iface : forall f depth l, depth < max_call_depth ->
  to_object o (S f) depth (HMapIface l) = go_iface f depth l [].
Proof. intros f depth l H. apply N.leb_gt in H. cbn [to_object]. rewrite H. reflexivity. Qed.

Lemma to_object_other : forall f depth kk l, depth < max_call_depth ->
  to_object o (S f) depth (HMapOther kk l) = go_other f depth l [].
Proof. intros f depth kk l H. apply N.leb_gt in H. cbn [to_object]. rewrite H. reflexivity. Qed.

Lemma go_iface_no_panic : forall f depth,
  (forall h, to_object o f (depth + 1) h <> Some CPanic) ->
  forall l acc, go_iface f depth l acc <> Some CPanic.
Proof.
  intros f depth IH. induction l as [|[k x] l IHl]; intro acc; cbn [go_iface].
  - discriminate.
  - fold (go_iface f depth). destruct (to_object o f (depth + 1) x) as [[v|]|] eqn:E.
    + destruct (hash_put o acc (2, k) (VStr k) v); [apply IHl|discriminate].
    + exfalso. exact (IH x E).
    + discriminate.
Qed.

Lemma go_other_no_panic : forall f depth,
  (forall h, to_object o f (depth + 1) h <> Some CPanic) ->
  forall l acc, go_other f depth l acc <> Some CPanic.
Proof.
  intros f depth IH. induction l as [|[k x] l IHl]; intro acc; cbn [go_other].
  - discriminate.
  - fold (go_other f depth).
    destruct (to_object o f (depth + 1) k) as [[kv|]|] eqn:Ek.
    + destruct (to_object o f (depth + 1) x) as [[v|]|] eqn:Ex.
      * destruct (hash_key o kv) as [[hk|]|].
        -- destruct (hash_put o acc hk kv v); [apply IHl|discriminate].
        -- apply IHl.
        -- discriminate.
      * exfalso. exact (IH x Ex).
      * discriminate.
    + exfalso. exact (IH k Ek).
    + destruct (to_object o f (depth + 1) x) as [[v|]|] eqn:Ex.
      * discriminate.
      * exfalso. exact (IH x Ex).
      * discriminate.
Qed.

Lemma conversion_never_panics_o : forall fuel depth h, to_object o fuel depth h <> Some CPanic.
Proof.
  induction fuel as [|f IH]; intros depth h.
  - discriminate.
  - destruct h; try (cbn [to_object]; discriminate).
    + destruct (N.le_gt_cases max_call_depth depth) as [Hd|Hd].
      * rewrite (proj1 (too_deep_is_null o f depth _ 0 [] Hd)). discriminate.
      * rewrite to_object_iface by exact Hd. apply go_iface_no_panic. apply IH.
    + destruct (N.le_gt_cases max_call_depth depth) as [Hd|Hd].
      * rewrite (proj2 (too_deep_is_null o f depth [] _ _ Hd)). discriminate.
      * rewrite to_object_other by exact Hd. apply go_other_no_panic. apply IH.
Qed.

(* ------------------------------------------------------------------ *)
(* fields *)

Definition conv_fields :=
  fix go (l : list (str * hostval)) (acc : list (str * value)) : option (option (list (str * value))) :=
    match l with
    | [] => Some (Some (rev acc))
    | (k, x) :: l' =>
        match to_object o (N.to_nat max_call_depth + 8) 0 x with
        | Some (CVal v) => go l' ((k, v) :: acc)
        | Some CPanic => Some None
        | None => None
        end
    end.

Lemma conv_fields_ok : forall (fs : list (str * hostval)) (vs : list (str * value)),
  Forall2 (fun f v => fst f = fst v /\ to_object o (N.to_nat max_call_depth + 8) 0 (snd f) = Some (CVal (snd v))) fs vs ->
  forall acc, conv_fields fs acc = Some (Some (rev acc ++ vs)).
Proof.
  intros fs vs H. induction H as [|[k x] [k' v] fs vs [Hk Hx] _ IH]; intro acc; cbn [conv_fields].
  - rewrite app_nil_r. reflexivity.
  - fold conv_fields. cbn [fst snd] in Hk, Hx. subst k'. rewrite Hx, IH.
    cbn [rev]. rewrite <- app_assoc. reflexivity.
Qed.

End Panics.

Lemma conversion_never_panics : forall o fuel depth h, to_object o fuel depth h <> Some CPanic.
Proof. exact conversion_never_panics_o. Qed.

Lemma struct_fields : forall o (fs : list (str * hostval)) (vs : list (str * value)),
  Forall2 (fun f v => fst f = fst v /\ to_object o (N.to_nat max_call_depth + 8) 0 (snd f) = Some (CVal (snd v))) fs vs ->
  host_fields o (HStruct fs) = Some (Some vs) /\ host_fields o (HPtr (HStruct fs)) = Some (Some vs) /\
  host_fields o (HMapIface fs) = Some (Some vs).
Proof.
  intros o fs vs H. pose proof (conv_fields_ok o fs vs H []) as E. cbn [rev app] in E.
  repeat split; exact E.
Qed.

(* ------------------------------------------------------------------ *)
(* lookup order *)

Lemma lookup_variable_first : forall o obj e name v,
  env_get e (trim_dollar name) = Some v -> lookup o obj e name = Ok v.
Proof. intros o obj e name v H. unfold lookup. rewrite H. reflexivity. Qed.

Lemma lookup_field : forall o obj e name fs,
  env_get e (trim_dollar name) = None -> host_fields o obj = Some (Some fs) ->
  lookup o obj e name = Ok (match field_get (trim_dollar name) fs with Some v => v | None => VNull end).
Proof. intros o obj e name fs H1 H2. unfold lookup. rewrite H1, H2. reflexivity. Qed.

(* ------------------------------------------------------------------ *)
(* each run sees its own object *)

Lemma this_run : forall o fuel e obj r e',
  execute o fuel e obj = (r, e') ->
  forall obj2, fst (execute o fuel e' obj2) = fst (execute o fuel (mkEval (escript e') (efns e') (eenv e') (ectx e') (emachine e')) obj2).
Proof. intros o fuel e obj r e' _ obj2. destruct e'. reflexivity. Qed.

Lemma odd_objects : forall o h,
  host_fields o HNil = Some (Some []) /\
  (match h with HStruct _ | HMapIface _ | HMapOther _ _ | HPtr _ | HNil => True | _ => host_fields o h = Some None end).
Proof. intros o h. split; [reflexivity|]. destruct h; try exact I; reflexivity. Qed.

(* EndToEndProofs.v - the end-to-end theorem: what the API's Execute (and
   Run) answers after Prepare is what the reference interpreter of
   Spec/ExecFun.v computes on the parsed script.

   It composes
     - Proofs/ApiProofs.v     prepare_ok (what Prepare stores),
     - Proofs/ProgProofs.v    program_compile_correct_partial (compiler + machine
                              against the reference interpreter),
     - Proofs/OptSafeProofs.v optimize_program_safe_correct (validated optimizer),
                              exec_mono / exec_polls (more fuel, no context),
   and adds the glue of Model/Api.v's [execute] and Model/VM.v's [run_main]
   (truncation of the scopes before and after a run, the empty program).
   Complete proofs only; no axioms. *)
From Coq Require Import Floats Lia.
From EF Require Import Model.Base Gen.Tables Model.Lexer Model.Ast Model.Parser Model.Code Model.Value Model.Env
                       Model.Reflect Model.Builtins Model.Compiler Model.Optimizer Model.VM Model.OptSafe Model.Api
                       Spec.Ops Spec.Eval Spec.ExecFun.
(* not imported: these files define their own [step], [sres], [ok], ... *)
From EF Require Proofs.EnvProofs Proofs.ApiProofs Proofs.StmtProofs Proofs.ProgProofs Proofs.OptProofs
                Proofs.OptSafeProofs.
Open Scope N_scope.

(* ------------------------------------------------------------------ *)
(* scopes are closed before and after a run *)

Lemma truncate0_eq : forall e, env_truncate e 0 = mkEnv (globals e) [].
Proof.
  intro e. pose proof (EnvProofs.truncate_zero_scopes e) as H.
  unfold env_truncate in *. cbn [scopes] in H. rewrite H. reflexivity.
Qed.

(* the evaluator [e] with its variables replaced by the globals [g], no open scope *)
Definition with_vars (e : eval) (g : scope) : eval :=
  mkEval (escript e) (efns e) (mkEnv g []) (ectx e) (emachine e).

Lemma with_vars_globals : forall e g, globals (eenv (with_vars e g)) = g.
Proof. reflexivity. Qed.

Lemma with_vars_clean : forall e g, scopes (eenv (with_vars e g)) = [].
Proof. reflexivity. Qed.

(* ------------------------------------------------------------------ *)
(* run_main: more fuel, the validated optimizer *)

Section Runs.
Variables (o : stdlib) (fns : fnmap) (obj : hostval).

(* the machine a run of [main] starts from *)
Definition start_of (m : mstate) : mstate := mkM [] (env_truncate (menv m) 0) (trace m) (polls m).
(* what [run_main] makes of the machine the code stopped in *)
Definition closed (m : mstate) : mstate := mkM (stk m) (env_truncate (menv m) 0) (trace m) (polls m).

(* the run of program q from m ends in (out, mf), whatever the fuel from some point on *)
Definition stable_run (q : program_code) (m : mstate) (out : outcome) (mf : mstate) : Prop :=
  exists n : nat, forall k : nat,
    run_main o (pconsts q) (pfuncs q) fns obj (n + k) (pmain q) m = (out, mf).

Lemma run_main_mono : forall consts funcs fuel main m out mf,
  run_main o consts funcs fns obj fuel main m = (out, mf) -> out <> OErr EFuel ->
  forall k, run_main o consts funcs fns obj (fuel + k) main m = (out, mf).
Proof.
  intros consts funcs fuel main m out mf H Hne k. unfold run_main in *.
  destruct main as [|b rest]; [exact H|].
  destruct (exec o consts funcs fns obj fuel (b :: rest) 0
              (mkM [] (env_truncate (menv m) 0) (trace m) (polls m))) as [out1 m1] eqn:E.
  assert (Hne1 : out1 <> OErr EFuel) by (injection H as <- _; exact Hne).
  rewrite (OptSafeProofs.exec_mono o consts fns obj funcs fuel (fuel + k) _ _ _ _ _ E Hne1 ltac:(lia)).
  exact H.
Qed.

Lemma stable_of_run : forall q fuel m out mf,
  run_main o (pconsts q) (pfuncs q) fns obj fuel (pmain q) m = (out, mf) -> out <> OErr EFuel ->
  stable_run q m out mf.
Proof. intros q fuel m out mf H Hne. exists fuel. intro k. apply run_main_mono; assumption. Qed.

(* a run of the code that ends is a run of run_main, when the program is not empty *)
Lemma stable_of_exec : forall q m out m',
  pmain q <> [] -> out <> OErr EFuel ->
  (exists n, exec o (pconsts q) (pfuncs q) fns obj n (pmain q) 0 (start_of m) = (out, m')) ->
  stable_run q m out (closed m').
Proof.
  intros q m out m' Hne Ho [n Hn]. apply (stable_of_run q n); [|exact Ho].
  unfold run_main. destruct (pmain q) as [|b rest]; [congruence|].
  fold (start_of m). rewrite Hn. reflexivity.
Qed.

(* the empty program *)
Lemma run_main_empty : forall consts funcs fuel m,
  run_main o consts funcs fns obj fuel [] m = (OErr EScript, start_of m).
Proof. reflexivity. Qed.

(* not optimized, or optimized and validated: the same stable runs *)
Lemma stable_transfer : forall u p m out mf,
  (p = u \/ optimize_program_safe u = Some p) -> polls m = None -> out <> OErr EFuel ->
  stable_run u m out mf -> stable_run p m out mf.
Proof.
  intros u p m out mf [->|Hs] Hm Hne H; [exact H|].
  destruct H as [n Hn]. specialize (Hn 0%nat).
  destruct (OptSafeProofs.optimize_program_safe_correct o fns obj u p Hs m Hm _ _ _ Hn Hne) as [fuel' H'].
  exact (stable_of_run p fuel' m out mf H' Hne).
Qed.

Lemma same_emptiness_transfer : forall u p,
  (p = u \/ optimize_program_safe u = Some p) -> (pmain u = [] <-> pmain p = []).
Proof.
  intros u p [->|Hs]; [tauto|].
  destruct (OptSafeProofs.program_equiv o fns obj u p Hs) as [_ [Es _]].
  destruct (pmain u), (pmain p); try discriminate Es; split; intro H; try reflexivity; discriminate H.
Qed.

End Runs.

(* ------------------------------------------------------------------ *)
(* Execute in terms of run_main *)

Section Execute.
Variable o : stdlib.

Definition fin_of (c : rclass) (v : value) (m1 : mstate) : opres :=
  RExec c v (rev (trace m1)) (globals (menv m1)) (env_depth (menv m1)) (List.length (stk m1)).

Definition result_of (out : outcome) (m1 : mstate) : opres :=
  match out with
  | ODone v => fin_of ROk v m1
  | OErr ENeedOracle => RNeed
  | OErr EFuel => RFuel
  | OErr x => match class_of x with Some c => fin_of c VNull m1 | None => RNeed end
  end.

Lemma execute_run : forall fuel e mc obj out m1,
  emachine e = Some mc ->
  run_main o (pconsts (mprog mc)) (pfuncs (mprog mc)) (efns e) obj fuel (pmain (mprog mc))
           (mkM [] (eenv e) [] (mctx mc)) = (out, m1) ->
  execute o fuel e obj =
    (result_of out m1,
     mkEval (escript e) (efns e) (menv m1) (ectx e) (Some (mkMachine (mprog mc) (polls m1)))).
Proof.
  intros fuel e mc obj out m1 Hm H. unfold execute. rewrite Hm, H.
  destruct out as [v|x]; [reflexivity|]. destruct x; reflexivity.
Qed.

(* a stable run that ended with all scopes closed and no context *)
Lemma execute_stable : forall e p obj out m',
  emachine e = Some (mkMachine p None) -> ectx e = None -> polls m' = None ->
  stable_run o (efns e) obj p (mkM [] (eenv e) [] None) out (closed m') ->
  exists n, forall k,
    execute o (n + k) e obj = (result_of out (closed m'), with_vars e (globals (menv m'))).
Proof.
  intros e p obj out m' Hm Hc Hp [n Hn]. exists n. intro k.
  rewrite (execute_run (n + k) e (mkMachine p None) obj out (closed m') Hm (Hn k)).
  unfold with_vars, closed. cbn [menv polls mprog]. rewrite Hm, Hc, Hp, truncate0_eq. reflexivity.
Qed.

Lemma fin_of_closed : forall c v m',
  fin_of c v (closed m') = RExec c v (rev (trace m')) (globals (menv m')) 0 (List.length (stk m')).
Proof.
  intros c v m'. unfold fin_of, closed. cbn [menv trace stk]. rewrite truncate0_eq. reflexivity.
Qed.

End Execute.

(* ------------------------------------------------------------------ *)
(* a program whose main code is empty consists of function definitions only;
   the reference interpreter passes over them *)

Lemma empty_main_only_definitions : forall (o : stdlib) fuelc ast u,
  compile_program fuelc ast = CompOk u -> ProgProofs.plain_program ast = true ->
  pmain u = [] -> forallb ProgProofs.is_fn_s ast = true.
Proof.
  intros o fuelc ast u Hcp Hplain Hmain. unfold compile_program in Hcp.
  destruct (compile_block fuelc ast (mkC [] 0 [] [])) as [[] c| | |] eqn:Ec; try discriminate.
  destruct (fits16 (mkProg (consts c) (rev (crev c)) (funcs c))); try discriminate.
  injection Hcp as <-. cbn [pmain] in Hmain.
  destruct (ProgProofs.all_fuel o [] [] fuelc) as (_ & _ & _ & Pb & _).
  assert (Hc0 : cstate_ok (mkC [] 0 [] [])) by reflexivity.
  destruct (Pb ast _ c Hc0 Hplain Ec) as (code & Em & [[_ HQ2] _] & _).
  assert (Hrc : rev (crev c) = code).
  { destruct Em as (_ & _ & Hem). unfold emitted in Hem. cbn [crev rev app] in Hem. exact Hem. }
  rewrite Hrc in Hmain. subst code.
  destruct (forallb ProgProofs.is_fn_s ast); [reflexivity|].
  specialize (HQ2 eq_refl). cbn in HQ2. lia.
Qed.

Lemma sblock_only_definitions : forall o fns obj afs b,
  forallb ProgProofs.is_fn_s b = true ->
  forall f m, sblock o fns obj afs f b m = XNormal m \/ sblock o fns obj afs f b m = XErr EFuel m.
Proof.
  intros o fns obj afs. induction b as [|s b IH]; intros Hb f m.
  - destruct f; [right|left]; reflexivity.
  - cbn [forallb] in Hb. apply andb_true_iff in Hb. destruct Hb as [Hs Hb].
    destruct f as [|f]; [right; reflexivity|].
    change (sblock o fns obj afs (S f) (s :: b) m) with
      (then_ (sstmt o fns obj afs f s m) (fun m1 => sblock o fns obj afs f b m1)).
    destruct s as [e|e]; [discriminate Hs|]. destruct e; try discriminate Hs.
    destruct f as [|f]; [right; reflexivity|].
    destruct f as [|f]; [right; reflexivity|].
    change (then_ (XNormal m) (fun m1 => sblock o fns obj afs (S (S f)) b m1) = XNormal m \/
            then_ (XNormal m) (fun m1 => sblock o fns obj afs (S (S f)) b m1) = XErr EFuel m).
    cbn [then_]. apply IH. exact Hb.
Qed.

(* ------------------------------------------------------------------ *)
(* the theorem *)

Section EndToEnd.
Variable o : stdlib.

(* the class Execute reports when the script falls off its end: an empty
   main program (a script of function definitions only) is refused by the machine *)
Definition fall_class (u : program_code) : rclass :=
  match pmain u with [] => RScriptError | _ :: _ => ROk end.

(* what Prepare leaves, in the form used below *)
Lemma prepared_shape : forall e optimize u p e1 ast,
  ectx e = None ->
  prepare o e optimize = (PrepOk u p, e1) ->
  parse_script (parse_float o) max_depth (escript e) = ParseOk ast ->
  compile_program (4 * List.length (escript e) + 40) ast = CompOk u /\
  escript e1 = escript e /\ efns e1 = efns e /\ ectx e1 = None /\
  emachine e1 = Some (mkMachine p None) /\
  eenv e1 = (if optimize then env_set (eenv e) optimize_var (VBool true) else env_unset (eenv e) optimize_var).
Proof.
  intros e optimize u p e1 ast Hctx Hprep Hparse.
  apply ApiProofs.prepare_ok in Hprep. destruct Hprep as [[ast' [Ep Ec]] [_ ->]].
  rewrite Hparse in Ep. injection Ep as <-. cbn [escript efns ectx emachine eenv]. rewrite Hctx.
  repeat split; try reflexivity. exact Ec.
Qed.

(* the hypothesis "not optimized, or optimized and validated" of the theorems below, from
   what Prepare did: without the flag nothing is optimized, whatever the variables hold (no scope is open);
   with the flag, it is enough that the validated optimizer accepts the compiled program
   (it then returns the very program Prepare stored) *)
Lemma not_optimized : forall e u p e1,
  scopes (eenv e) = [] -> prepare o e false = (PrepOk u p, e1) ->
  p = u \/ optimize_program_safe u = Some p.
Proof. intros e u p e1 Hc H. left. exact (ApiProofs.nooptimize_only o e u p e1 H Hc). Qed.

Lemma optimized_validated : forall e u p e1 p',
  prepare o e true = (PrepOk u p, e1) -> optimize_program_safe u = Some p' ->
  p = u \/ optimize_program_safe u = Some p.
Proof.
  intros e u p e1 p' H Hs. right.
  pose proof (ApiProofs.optimize_only o e u p e1 H) as H1.
  pose proof (OptSafeProofs.safe_agrees_program u p' Hs) as H2.
  rewrite H1 in H2. injection H2 as <-. exact Hs.
Qed.

(* when the main program is empty: every Execute is refused, nothing changes *)
Lemma end_to_end_empty_main : forall e optimize u p e1,
  prepare o e optimize = (PrepOk u p, e1) ->
  (p = u \/ optimize_program_safe u = Some p) ->
  pmain u = [] ->
  forall fuel obj,
    execute o fuel e1 obj =
      (RExec RScriptError VNull [] (globals (eenv e1)) 0 0, with_vars e1 (globals (eenv e1))).
Proof.
  intros e optimize u p e1 Hprep Hopt Hmain fuel obj.
  apply ApiProofs.prepare_ok in Hprep. destruct Hprep as [_ [_ ->]].
  assert (Hp : pmain p = []).
  { apply (same_emptiness_transfer o [] HNil u p Hopt). exact Hmain. }
  set (e1 := mkEval (escript e) (efns e) (ApiProofs.prep_env e optimize) (ectx e)
                    (Some (mkMachine p (ectx e)))).
  rewrite (execute_run o fuel e1 (mkMachine p (ectx e)) obj (OErr EScript)
             (start_of (mkM [] (eenv e1) [] (ectx e))) eq_refl).
  - unfold result_of, fin_of, start_of, with_vars, e1.
    cbn [class_of menv trace stk polls mprog escript efns eenv ectx emachine rev List.length].
    rewrite truncate0_eq. reflexivity.
  - cbn [mprog mctx]. rewrite Hp. apply run_main_empty.
Qed.

(* ... and the reference interpreter only passes over the definitions *)
Lemma empty_main_reference : forall fuelc ast u fns obj afs sfuel m,
  compile_program fuelc ast = CompOk u -> ProgProofs.plain_program ast = true -> pmain u = [] ->
  sblock o fns obj afs sfuel ast m = XNormal m \/ sblock o fns obj afs sfuel ast m = XErr EFuel m.
Proof.
  intros fuelc ast u fns obj afs sfuel m Hc Hplain Hmain.
  apply sblock_only_definitions. exact (empty_main_only_definitions o fuelc ast u Hc Hplain Hmain).
Qed.

Theorem end_to_end : forall e optimize u p e1 ast,
  ectx e = None ->
  prepare o e optimize = (PrepOk u p, e1) ->
  parse_script (parse_float o) max_depth (escript e) = ParseOk ast ->
  ProgProofs.plain_program ast = true ->
  (p = u \/ optimize_program_safe u = Some p) ->      (* not optimized, or optimized and validated *)
  forall obj sfuel,
    let fuelc := (4 * List.length (escript e) + 40)%nat in
    let m0 := mkM [] (env_truncate (eenv e1) 0) [] None in
    match sblock o (efns e1) obj (collect_block fuelc ast []) sfuel ast m0 with
    | XNormal m' =>
        exists n, forall k,
          execute o (n + k) e1 obj =
            (RExec (fall_class u) VNull (rev (trace m')) (globals (menv m')) 0 (List.length (stk m')),
             with_vars e1 (globals (menv m')))
    | XReturn v m' =>
        exists n, forall k,
          execute o (n + k) e1 obj =
            (RExec ROk v (rev (trace m')) (globals (menv m')) 0 (List.length (stk m')),
             with_vars e1 (globals (menv m')))
    | XErr ENeedOracle _ | XErr EFuel _ => True
    | XErr x _ =>
        exists c, class_of x = Some c /\
        exists tr vars rs n, forall k,
          execute o (n + k) e1 obj = (RExec c VNull tr vars 0 rs, with_vars e1 vars)
    end.
Proof.
  intros e optimize u p e1 ast Hctx Hprep Hparse Hplain Hopt obj sfuel fuelc m0.
  destruct (prepared_shape e optimize u p e1 ast Hctx Hprep Hparse)
    as (Hcomp & _ & Hfns & Hctx1 & Hmach & _).
  fold fuelc in Hcomp.
  set (afs := collect_block fuelc ast []).
  set (ms := mkM [] (eenv e1) [] None).
  assert (Hms : start_of ms = m0) by reflexivity.
  assert (Hpms : polls ms = None) by reflexivity.
  assert (Hpm0 : polls m0 = None) by reflexivity.
  (* the empty main program *)
  destruct (pmain u) as [|b0 rest0] eqn:Emain.
  { pose proof (end_to_end_empty_main e optimize u p e1 Hprep Hopt Emain) as Hex.
    destruct (empty_main_reference fuelc ast u (efns e1) obj afs sfuel m0 Hcomp Hplain Emain) as [Hs|Hs];
      rewrite Hs; [|exact I].
    exists 0%nat. intro k. rewrite Hex. unfold fall_class. rewrite Emain. unfold m0.
    cbn [trace stk menv rev List.length]. rewrite truncate0_eq. reflexivity. }
  assert (Hne : pmain u <> []) by (rewrite Emain; discriminate).
  assert (Hfall : fall_class u = ROk) by (unfold fall_class; rewrite Emain; reflexivity).
  clear Emain b0 rest0.
  (* compiler + machine against the reference interpreter *)
  pose proof (ProgProofs.program_compile_correct_partial o (efns e1) ast Hplain fuelc u Hcomp obj m0 sfuel Hpm0)
    as H.
  cbv zeta in H. fold afs in H.
  (* from a stable run of u to Execute on the prepared evaluator *)
  assert (Hfinish : forall out m', out <> OErr EFuel ->
            (exists n, exec o (pconsts u) (pfuncs u) (efns e1) obj n (pmain u) 0 m0 = (out, m')) ->
            exists n, forall k,
              execute o (n + k) e1 obj = (result_of out (closed m'), with_vars e1 (globals (menv m')))).
  { intros out m' Ho Hex.
    assert (Hpm' : polls m' = None).
    { destruct Hex as [n Hn]. exact (OptSafeProofs.exec_polls o _ _ _ _ _ _ _ _ _ _ Hpm0 Hn). }
    apply (execute_stable o e1 p obj out m' Hmach Hctx1 Hpm').
    apply (stable_transfer o (efns e1) obj u p ms out (closed m') Hopt Hpms Ho).
    apply (stable_of_exec o (efns e1) obj u ms out m' Hne Ho). rewrite Hms. exact Hex. }
  destruct (sblock o (efns e1) obj afs sfuel ast m0) as [m'|v m'|x m'].
  - (* fell through *)
    destruct H as [n Hn].
    destruct (Hfinish (ODone VNull) m' ltac:(discriminate) (ex_intro _ (n + 0)%nat (Hn 0%nat))) as [n' Hn'].
    exists n'. intro k. rewrite (Hn' k). rewrite Hfall. cbn [result_of]. rewrite fin_of_closed. reflexivity.
  - (* return *)
    destruct H as [n Hn].
    destruct (Hfinish (ODone v) m' ltac:(discriminate) (ex_intro _ (n + 0)%nat (Hn 0%nat))) as [n' Hn'].
    exists n'. intro k. rewrite (Hn' k). cbn [result_of]. rewrite fin_of_closed. reflexivity.
  - (* errors *)
    assert (Herr : forall c, x <> EFuel -> x <> ENeedOracle -> class_of x = Some c ->
              fails_with o (pconsts u) (pfuncs u) (efns e1) obj (pmain u) 0 m0 x ->
              exists c, class_of x = Some c /\
              exists tr vars rs n, forall k,
                execute o (n + k) e1 obj = (RExec c VNull tr vars 0 rs, with_vars e1 vars)).
    { intros c Hx1 Hx2 Hc [n Hn]. destruct (Hn 0%nat) as [mx Hmx]. unfold xexec in Hmx.
      destruct (Hfinish (OErr x) mx ltac:(congruence) (ex_intro _ (n + 0)%nat Hmx)) as [n' Hn'].
      exists c. split; [exact Hc|].
      exists (rev (trace mx)), (globals (menv mx)), (List.length (stk mx)), n'. intro k.
      rewrite (Hn' k). rewrite <- fin_of_closed. unfold result_of. rewrite Hc.
      destruct x; try reflexivity; congruence. }
    destruct x; try exact I;
      (eapply Herr; [discriminate|discriminate|reflexivity|exact H]).
Qed.

(* the statement with the evaluator after the run left existential, and the
   side condition "the main program is not empty" where Execute answers ROk
   after falling through *)
Corollary end_to_end_weak : forall e optimize u p e1 ast,
  ectx e = None ->
  prepare o e optimize = (PrepOk u p, e1) ->
  parse_script (parse_float o) max_depth (escript e) = ParseOk ast ->
  ProgProofs.plain_program ast = true ->
  (p = u \/ optimize_program_safe u = Some p) ->
  forall obj sfuel,
    let fuelc := (4 * List.length (escript e) + 40)%nat in
    let m0 := mkM [] (env_truncate (eenv e1) 0) [] None in
    match sblock o (efns e1) obj (collect_block fuelc ast []) sfuel ast m0 with
    | XNormal m' =>
        pmain u <> [] -> exists n, forall k, exists e2,
          execute o (n + k) e1 obj =
            (RExec ROk VNull (rev (trace m')) (globals (menv m')) 0 (List.length (stk m')), e2) /\
          globals (eenv e2) = globals (menv m') /\ scopes (eenv e2) = []
    | XReturn v m' =>
        exists n, forall k, exists e2,
          execute o (n + k) e1 obj =
            (RExec ROk v (rev (trace m')) (globals (menv m')) 0 (List.length (stk m')), e2) /\
          globals (eenv e2) = globals (menv m') /\ scopes (eenv e2) = []
    | XErr ENeedOracle _ | XErr EFuel _ => True
    | XErr x _ =>
        pmain u <> [] -> exists c, class_of x = Some c /\
        exists n, forall k, exists tr vars ns rs e2,
          execute o (n + k) e1 obj = (RExec c VNull tr vars ns rs, e2)
    end.
Proof.
  intros e optimize u p e1 ast Hctx Hprep Hparse Hplain Hopt obj sfuel fuelc m0.
  pose proof (end_to_end e optimize u p e1 ast Hctx Hprep Hparse Hplain Hopt obj sfuel) as H.
  cbv zeta in H. fold fuelc m0 in H.
  destruct (sblock o (efns e1) obj (collect_block fuelc ast []) sfuel ast m0) as [m'|v m'|x m'].
  - intro Hne. destruct H as [n Hn]. exists n. intro k. exists (with_vars e1 (globals (menv m'))).
    split; [|split; reflexivity]. rewrite (Hn k). unfold fall_class. destruct (pmain u); [congruence|reflexivity].
  - destruct H as [n Hn]. exists n. intro k. exists (with_vars e1 (globals (menv m'))).
    split; [|split; reflexivity]. exact (Hn k).
  - destruct x; try exact I; intros _; destruct H as (c & Hc & tr & vars & rs & n & Hn);
      (exists c; split; [exact Hc|]; exists n; intro k; exists tr, vars, 0%nat, rs; eexists; exact (Hn k)).
Qed.

(* ------------------------------------------------------------------ *)
(* Run is the truth value of what Execute returns (C20) *)

Lemma run_of_execute : forall fuel e obj c v tr vars ns rs e2,
  execute o fuel e obj = (RExec c v tr vars ns rs, e2) ->
  step o fuel e (ORun obj) =
    (RRun c (match c with ROk => truthy v | _ => false end) tr vars ns rs, e2).
Proof. intros fuel e obj c v tr vars ns rs e2 H. cbn [step]. rewrite H. reflexivity. Qed.

Lemma class_of_not_ok : forall x c, class_of x = Some c -> c <> ROk.
Proof. intros x c H. destruct x; cbn [class_of] in H; try discriminate H; injection H as <-; discriminate. Qed.

Theorem end_to_end_run : forall e optimize u p e1 ast,
  ectx e = None ->
  prepare o e optimize = (PrepOk u p, e1) ->
  parse_script (parse_float o) max_depth (escript e) = ParseOk ast ->
  ProgProofs.plain_program ast = true ->
  (p = u \/ optimize_program_safe u = Some p) ->
  forall obj sfuel,
    let fuelc := (4 * List.length (escript e) + 40)%nat in
    let m0 := mkM [] (env_truncate (eenv e1) 0) [] None in
    match sblock o (efns e1) obj (collect_block fuelc ast []) sfuel ast m0 with
    | XNormal m' =>
        exists n, forall k,
          step o (n + k) e1 (ORun obj) =
            (RRun (fall_class u) false (rev (trace m')) (globals (menv m')) 0 (List.length (stk m')),
             with_vars e1 (globals (menv m')))
    | XReturn v m' =>
        exists n, forall k,
          step o (n + k) e1 (ORun obj) =
            (RRun ROk (truthy v) (rev (trace m')) (globals (menv m')) 0 (List.length (stk m')),
             with_vars e1 (globals (menv m')))
    | XErr ENeedOracle _ | XErr EFuel _ => True
    | XErr x _ =>
        exists c, class_of x = Some c /\
        exists tr vars rs n, forall k,
          step o (n + k) e1 (ORun obj) = (RRun c false tr vars 0 rs, with_vars e1 vars)
    end.
Proof.
  intros e optimize u p e1 ast Hctx Hprep Hparse Hplain Hopt obj sfuel fuelc m0.
  pose proof (end_to_end e optimize u p e1 ast Hctx Hprep Hparse Hplain Hopt obj sfuel) as H.
  cbv zeta in H. fold fuelc m0 in H.
  destruct (sblock o (efns e1) obj (collect_block fuelc ast []) sfuel ast m0) as [m'|v m'|x m'].
  - destruct H as [n Hn]. exists n. intro k. rewrite (run_of_execute _ _ _ _ _ _ _ _ _ _ (Hn k)).
    unfold fall_class. destruct (pmain u); reflexivity.
  - destruct H as [n Hn]. exists n. intro k. rewrite (run_of_execute _ _ _ _ _ _ _ _ _ _ (Hn k)). reflexivity.
  - destruct x; try exact I; destruct H as (c & Hc & tr & vars & rs & n & Hn);
      (exists c; split; [exact Hc|]; exists tr, vars, rs, n; intro k;
       rewrite (run_of_execute _ _ _ _ _ _ _ _ _ _ (Hn k));
       pose proof (class_of_not_ok _ _ Hc) as Hno; destruct c; try reflexivity; congruence).
Qed.

End EndToEnd.

(* ------------------------------------------------------------------ *)
(* the hypotheses are satisfiable, with a program the optimizer really rewrites:
   a definition, a call, an assignment, constant arithmetic in both bodies *)

Module Demo.

Definition o : stdlib := OptProofs.no_stdlib.      (* every oracle answers "not modelled" *)
Definition script : str := L "function f(a) { return a + 2 * 5; } x = f(1 + 1); return x;".
Definition e0 : eval := new_eval script.

Definition ast : program :=
  [SExpr (EFunction (L "f") [L "a"]
            [SReturn (EInfix TPlus (EIdent (L "a")) (EInfix TAsterisk (EInt (L "2") 2) (EInt (L "5") 5)))]);
   SExpr (EAssign (L "x") (ECall (EIdent (L "f")) [EInfix TPlus (EInt (L "1") 1) (EInt (L "1") 1)]));
   SReturn (EIdent (L "x"))].

Definition pool : list value := [VStr (L "a"); VStr (L "f"); VStr (L "x")].
(* as compiled *)
Definition u : program_code :=
  mkProg pool
    [OpPush; 0; 1; OpPush; 0; 1; OpAdd; OpConstant; 0; 1; OpCall; 0; 1; OpConstant; 0; 2; OpSet;
     OpLookup; 0; 2; OpReturn]
    [(L "f", mkUfunc [L "a"] [OpLookup; 0; 0; OpPush; 0; 2; OpPush; 0; 5; OpMul; OpAdd; OpReturn])].
(* as optimized *)
Definition p : program_code :=
  mkProg pool
    [OpPush; 0; 2; OpConstant; 0; 1; OpCall; 0; 1; OpConstant; 0; 2; OpSet; OpLookup; 0; 2; OpReturn]
    [(L "f", mkUfunc [L "a"] [OpLookup; 0; 0; OpPush; 0; 10; OpAdd; OpReturn])].

Definition e1 : eval :=
  mkEval script initial_fnmap (mkEnv [(L "OPTIMIZE", VBool true)] []) None (Some (mkMachine p None)).

Example no_context : ectx e0 = None.
Proof. reflexivity. Qed.

Example prepared : prepare o e0 true = (PrepOk u p, e1).
Proof. vm_compute. reflexivity. Qed.

Example parsed : parse_script (parse_float o) max_depth (escript e0) = ParseOk ast.
Proof. vm_compute. reflexivity. Qed.

Example plain : ProgProofs.plain_program ast = true.
Proof. vm_compute. reflexivity. Qed.

Example validated : optimize_program_safe u = Some p.
Proof. vm_compute. reflexivity. Qed.

Example rewritten : p <> u.
Proof. intro H. apply (f_equal pmain) in H. discriminate H. Qed.

Definition vars : scope := [(L "OPTIMIZE", VBool true); (L "x", VInt 12)].

(* what the reference interpreter computes on the syntax tree ... *)
Example reference_result :
  sblock o (efns e1) HNil (collect_block (4 * List.length (escript e0) + 40) ast []) 50 ast
         (mkM [] (env_truncate (eenv e1) 0) [] None)
  = XReturn (VInt 12) (mkM [] (mkEnv vars []) [] None).
Proof. vm_compute. reflexivity. Qed.

(* ... is, by the theorem (nothing is run here), what Execute and Run answer
   on the optimized byte-code, for every sufficient fuel *)
Example execute_result : exists n, forall k,
  execute o (n + k) e1 HNil = (RExec ROk (VInt 12) [] vars 0 0, with_vars e1 vars).
Proof.
  pose proof (end_to_end o e0 true u p e1 ast no_context prepared parsed plain (or_intror validated) HNil 50%nat)
    as H.
  cbv zeta in H. rewrite reference_result in H. exact H.
Qed.

Example run_result : exists n, forall k,
  step o (n + k) e1 (ORun HNil) = (RRun ROk true [] vars 0 0, with_vars e1 vars).
Proof.
  pose proof (end_to_end_run o e0 true u p e1 ast no_context prepared parsed plain (or_intror validated) HNil 50%nat)
    as H.
  cbv zeta in H. rewrite reference_result in H. exact H.
Qed.

(* the theorem composes over histories: the evaluator after the run is again a
   prepared evaluator with the same program and no context *)
Example after_run_prepared :
  emachine (with_vars e1 vars) = Some (mkMachine p None) /\ ectx (with_vars e1 vars) = None /\
  scopes (eenv (with_vars e1 vars)) = [].
Proof. repeat split. Qed.

End Demo.

(* SameValueProofs.v - `in` and switch cases compare values structurally (C16, C02; repair of D40).
   Complete proofs only; no axioms. *)
From Coq Require Import Floats Lia.
From EF Require Import Model.Base Model.Code Model.Value Model.Env Model.Reflect Model.Builtins
                       Model.Compiler Model.VM Proofs.ContainerProofs.
Open Scope N_scope.

(* ------------------------------------------------------------------ *)
(* decimal printing is injective *)

(* the number a string of digits spells *)
Fixpoint dval (l : str) : N :=
  match l with
  | [] => 0
  | c :: l' => (c - 48) * 10 ^ lenN l' + dval l'
  end.

Lemma lenN_cons : forall A (x : A) l, lenN (x :: l) = N.succ (lenN l).
Proof. intros A x l. unfold lenN. cbn [List.length]. apply Nat2N.inj_succ. Qed.

Lemma dval_cons : forall c l, dval (c :: l) = (c - 48) * 10 ^ lenN l + dval l.
Proof. reflexivity. Qed.

Lemma n_digits_S : forall f n acc,
  n_digits (S f) n acc =
  if n <? 10 then (48 + n) :: acc else n_digits f (n / 10) ((48 + n mod 10) :: acc).
Proof. reflexivity. Qed.

Lemma pow2_of_nat_S : forall f, 2 ^ N.of_nat (S f) = 2 * 2 ^ N.of_nat f.
Proof. intro f. rewrite Nat2N.inj_succ. apply N.pow_succ_r'. Qed.

Lemma n_digits_dval : forall f n acc,
  n < 2 ^ N.of_nat f ->
  dval (n_digits (S f) n acc) = n * 10 ^ lenN acc + dval acc.
Proof.
  induction f as [|f IH]; intros n acc Hn; rewrite n_digits_S.
  - change (2 ^ N.of_nat 0) with 1 in Hn.
    destruct (N.ltb_spec n 10) as [_|Hge]; [|lia].
    rewrite dval_cons. rewrite (N.add_comm 48 n), N.add_sub. reflexivity.
  - destruct (N.ltb_spec n 10) as [Hlt|Hge].
    + rewrite dval_cons. rewrite (N.add_comm 48 n), N.add_sub. reflexivity.
    + rewrite pow2_of_nat_S in Hn.
      assert (Hdiv : n / 10 < 2 ^ N.of_nat f).
      { apply N.div_lt_upper_bound; [lia|]. lia. }
      rewrite (IH _ _ Hdiv). rewrite dval_cons, lenN_cons, N.pow_succ_r'.
      rewrite (N.add_comm 48 (n mod 10)), N.add_sub.
      pose proof (N.div_mod n 10 ltac:(lia)) as Hdm.
      set (q := n / 10) in *. set (r := n mod 10) in *. set (P := 10 ^ lenN acc).
      rewrite Hdm. ring.
Qed.

Lemma pos_size_nat_gt : forall p, Npos p < 2 ^ N.of_nat (Pos.size_nat p).
Proof.
  induction p as [p IH|p IH|]; cbn [Pos.size_nat]; try rewrite pow2_of_nat_S.
  - change (N.pos p~1) with (2 * N.pos p + 1). lia.
  - change (N.pos p~0) with (2 * N.pos p). lia.
  - reflexivity.
Qed.

Lemma size_nat_gt : forall n, n < 2 ^ N.of_nat (N.size_nat n).
Proof.
  intros [|p]; [reflexivity | apply pos_size_nat_gt].
Qed.

Lemma n_to_str_dval : forall n, dval (n_to_str n) = n.
Proof.
  intro n. unfold n_to_str. rewrite n_digits_dval by apply size_nat_gt.
  change (lenN (@nil N)) with 0. change (dval []) with 0. rewrite N.pow_0_r. lia.
Qed.

Lemma n_to_str_inj : forall a b, n_to_str a = n_to_str b -> a = b.
Proof.
  intros a b H. rewrite <- (n_to_str_dval a), <- (n_to_str_dval b), H. reflexivity.
Qed.

Lemma n_digits_ge48 : forall f n acc,
  Forall (fun c => 48 <= c) acc -> Forall (fun c => 48 <= c) (n_digits f n acc).
Proof.
  induction f as [|f IH]; intros n acc H.
  - exact H.
  - rewrite n_digits_S. destruct (n <? 10).
    + constructor; [apply N.le_add_r | exact H].
    + apply IH. constructor; [apply N.le_add_r | exact H].
Qed.

Lemma n_to_str_ge48 : forall n, Forall (fun c => 48 <= c) (n_to_str n).
Proof. intro n. apply n_digits_ge48. constructor. Qed.

Lemma z_to_str_inj : forall a b : Z, z_to_str a = z_to_str b -> a = b.
Proof.
  intros a b H.
  destruct a as [|p|p]; destruct b as [|q|q]; cbn [z_to_str] in H.
  - reflexivity.
  - apply (f_equal dval) in H. rewrite n_to_str_dval in H. discriminate.
  - pose proof (n_to_str_ge48 (N.pos q)) as G. injection H as H1 H2. discriminate.
  - apply (f_equal dval) in H. rewrite n_to_str_dval in H. discriminate.
  - apply n_to_str_inj in H. congruence.
  - pose proof (n_to_str_ge48 (N.pos p)) as G. rewrite H in G. inversion G; subst. lia.
  - injection H as H1 H2. discriminate.
  - pose proof (n_to_str_ge48 (N.pos q)) as G. rewrite <- H in G. inversion G; subst. lia.
  - injection H as H. apply n_to_str_inj in H. congruence.
Qed.

(* ------------------------------------------------------------------ *)
(* an induction principle that reaches the members of arrays and hashes *)

Section ValueInd.
  Variable P : value -> Prop.
  Hypothesis HInt : forall z, P (VInt z).
  Hypothesis HFloat : forall f, P (VFloat f).
  Hypothesis HStr : forall s, P (VStr s).
  Hypothesis HBool : forall b, P (VBool b).
  Hypothesis HNull : P VNull.
  Hypothesis HVoid : P VVoid.
  Hypothesis HRegexp : forall s, P (VRegexp s).
  Hypothesis HArray : forall l, Forall P l -> P (VArray l).
  Hypothesis HHash : forall l, Forall (fun kx => P (fst kx) /\ P (snd kx)) l -> P (VHash l).
  Hypothesis HIter : forall v off, P v -> P (VIter v off).

  Fixpoint value_ind_nested (v : value) : P v :=
    match v with
    | VInt z => HInt z
    | VFloat f => HFloat f
    | VStr s => HStr s
    | VBool b => HBool b
    | VNull => HNull
    | VVoid => HVoid
    | VRegexp s => HRegexp s
    | VArray l =>
        HArray l ((fix go (l : list value) : Forall P l :=
                     match l with
                     | [] => Forall_nil P
                     | x :: r => Forall_cons x (value_ind_nested x) (go r)
                     end) l)
    | VHash l =>
        HHash l ((fix go (l : list (value * value)) : Forall (fun kx => P (fst kx) /\ P (snd kx)) l :=
                    match l with
                    | [] => Forall_nil _
                    | kx :: r => Forall_cons kx (conj (value_ind_nested (fst kx)) (value_ind_nested (snd kx))) (go r)
                    end) l)
    | VIter v off => HIter v off (value_ind_nested v)
    end.
End ValueInd.

(* ------------------------------------------------------------------ *)
(* same_value, unfolded *)

(* the members of two arrays, one by one *)
Fixpoint same_members (o : stdlib) (l l' : list value) : option bool :=
  match l, l' with
  | [], [] => Some true
  | x :: r, y :: r' => match same_value o x y with
                       | Some true => same_members o r r'
                       | other => other
                       end
  | _, _ => Some false
  end.

(* the pairs of one hash, looked up in the other *)
Fixpoint same_pairs (o : stdlib) (ps' ps : list (value * value)) : option bool :=
  match ps with
  | [] => Some true
  | (k, x) :: r =>
      match hash_key o k with
      | Some (Some hk) =>
          match hash_get o ps' hk with
          | Some (Some y) => match same_value o x y with
                             | Some true => same_pairs o ps' r
                             | other => other
                             end
          | Some None => Some false
          | None => None
          end
      | Some None => Some false
      | None => None
      end
  end.

Lemma same_value_array_eq : forall o l l',
  same_value o (VArray l) (VArray l') = if lenN l =? lenN l' then same_members o l l' else Some false.
Proof.
  intros o l l'. cbn [same_value]. destruct (lenN l =? lenN l'); [|reflexivity].
  revert l'. induction l as [|x r IH]; intros [|y r']; cbn [same_members]; try reflexivity.
  destruct (same_value o x y) as [[|]|]; [apply IH | reflexivity | reflexivity].
Qed.

Lemma same_value_hash_eq : forall o ps ps',
  same_value o (VHash ps) (VHash ps') = if lenN ps =? lenN ps' then same_pairs o ps' ps else Some false.
Proof.
  intros o ps ps'. cbn [same_value]. destruct (lenN ps =? lenN ps'); [|reflexivity].
  induction ps as [|[k x] r IH]; cbn [same_pairs]; [reflexivity|].
  destruct (hash_key o k) as [[hk|]|]; try reflexivity.
  destruct (hash_get o ps' hk) as [[y|]|]; try reflexivity.
  destruct (same_value o x y) as [[|]|]; [apply IH | reflexivity | reflexivity].
Qed.

Lemma same_members_true : forall o l l',
  same_members o l l' = Some true <-> Forall2 (fun x y => same_value o x y = Some true) l l'.
Proof.
  intros o l. induction l as [|x r IH]; intros [|y r']; cbn [same_members].
  - split; [constructor | reflexivity].
  - split; [discriminate | intro H; inversion H].
  - split; [discriminate | intro H; inversion H].
  - destruct (same_value o x y) as [[|]|] eqn:Hs.
    + rewrite IH. split; [intro H; constructor; assumption | intro H; inversion H; assumption].
    + split; [discriminate | intro H; inversion H; subst; congruence].
    + split; [discriminate | intro H; inversion H; subst; congruence].
Qed.

Lemma Forall2_lenN : forall A B (R : A -> B -> Prop) l l', Forall2 R l l' -> lenN l = lenN l'.
Proof.
  intros A B R l l' H. unfold lenN. f_equal. induction H; cbn [List.length]; congruence.
Qed.

(* arrays are compared member by member *)
Lemma same_value_array : forall o l l',
  same_value o (VArray l) (VArray l') = Some true <-> Forall2 (fun x y => same_value o x y = Some true) l l'.
Proof.
  intros o l l'. rewrite same_value_array_eq. split.
  - destruct (lenN l =? lenN l'); [apply same_members_true | discriminate].
  - intro H. rewrite (Forall2_lenN _ _ _ _ _ H), N.eqb_refl. apply same_members_true. exact H.
Qed.

Lemma same_pairs_true : forall o ps' ps,
  same_pairs o ps' ps = Some true <->
  Forall (fun kx => exists hk y, hash_key o (fst kx) = Some (Some hk) /\ hash_get o ps' hk = Some (Some y) /\
                                 same_value o (snd kx) y = Some true) ps.
Proof.
  intros o ps' ps. induction ps as [|[k x] r IH]; cbn [same_pairs].
  - split; [constructor | reflexivity].
  - split.
    + intro H. destruct (hash_key o k) as [[hk|]|] eqn:Hk; try discriminate.
      destruct (hash_get o ps' hk) as [[y|]|] eqn:Hg; try discriminate.
      destruct (same_value o x y) as [[|]|] eqn:Hs; try discriminate.
      constructor; [|apply IH; exact H].
      exists hk, y. cbn [fst snd]. auto.
    + intro H. inversion H as [|kx r' Hhd Htl]; subst.
      destruct Hhd as [hk [y [Hk [Hg Hs]]]]. cbn [fst snd] in *.
      rewrite Hk, Hg, Hs. apply IH. exact Htl.
Qed.

(* hashes: same number of pairs, and every key of the one is a key of the other with the same value *)
Lemma same_value_hash : forall o ps ps',
  same_value o (VHash ps) (VHash ps') = Some true <->
  lenN ps = lenN ps' /\
  Forall (fun kx => exists hk y, hash_key o (fst kx) = Some (Some hk) /\ hash_get o ps' hk = Some (Some y) /\
                                 same_value o (snd kx) y = Some true) ps.
Proof.
  intros o ps ps'. rewrite same_value_hash_eq. split.
  - destruct (N.eqb_spec (lenN ps) (lenN ps')) as [He|]; [|discriminate].
    intro H. split; [exact He | apply same_pairs_true; exact H].
  - intros [He H]. rewrite He, N.eqb_refl. apply same_pairs_true. exact H.
Qed.

Lemma vtype_beq_true : forall a b, vtype_beq a b = true -> a = b.
Proof. intros [] []; cbn; intro H; try reflexivity; discriminate. Qed.

Lemma same_printed_types : forall o a b, same_printed o a b = Some true -> type_of a = type_of b.
Proof.
  intros o a b. unfold same_printed.
  destruct (vtype_beq (type_of a) (type_of b)) eqn:Ht; [|discriminate].
  intros _. apply vtype_beq_true. exact Ht.
Qed.

(* values of different types are never the same *)
Lemma same_value_types : forall o a b, same_value o a b = Some true -> type_of a = type_of b.
Proof.
  intros o a b H.
  destruct a; try (apply (same_printed_types o); exact H);
  destruct b; try (apply (same_printed_types o); exact H); reflexivity.
Qed.

(* ------------------------------------------------------------------ *)
(* plain values *)

(* plain values: integers, strings, booleans, null and arrays of plain values *)
Fixpoint plain (v : value) : bool :=
  match v with
  | VInt _ | VStr _ | VBool _ | VNull => true
  | VArray l => forallb plain l
  | _ => false
  end.

(* no iterator (the machine-internal wrapper, which is compared by what it iterates)
   at the top or among the members of arrays *)
Fixpoint no_iter (v : value) : bool :=
  match v with
  | VIter _ _ => false
  | VArray l => forallb no_iter l
  | _ => true
  end.

Lemma plain_no_iter : forall v, plain v = true -> no_iter v = true.
Proof.
  induction v using value_ind_nested; cbn [plain no_iter]; intro Hp; try reflexivity; try discriminate.
  induction l as [|x r IHr]; [reflexivity|].
  cbn [forallb] in *. apply andb_prop in Hp. destruct Hp as [Hx Hr].
  inversion H; subst. rewrite (H2 Hx), (IHr H3 Hr). reflexivity.
Qed.

Lemma forallb_plain_no_iter : forall l, forallb plain l = true -> forallb no_iter l = true.
Proof. intros l H. apply (plain_no_iter (VArray l)). exact H. Qed.

Lemma bool_str_inj : forall b b' : bool,
  str_eqb (if b then L "true" else L "false") (if b' then L "true" else L "false") = true -> b = b'.
Proof. intros [] []; vm_compute; intro H; try reflexivity; discriminate. Qed.

(* on plain values no oracle is needed and "the same value" is equality *)
Theorem same_value_plain_total : forall o a b, plain a = true -> plain b = true -> exists r, same_value o a b = Some r.
Proof.
  intros o a. induction a using value_ind_nested; intros c Ha Hb; try discriminate Ha;
    try (destruct c; try discriminate Hb; eexists; reflexivity).
  destruct c as [| | | | | | |l'| |]; try discriminate Hb; try (eexists; reflexivity).
  rewrite same_value_array_eq. destruct (lenN l =? lenN l'); [|eexists; reflexivity].
  cbn [plain] in Ha, Hb. revert l' Hb.
  induction l as [|x r IHr]; intros [|y r'] Hb; cbn [same_members]; try (eexists; reflexivity).
  cbn [forallb] in Ha, Hb. apply andb_prop in Ha. apply andb_prop in Hb.
  destruct Ha as [Hx Hr]. destruct Hb as [Hy Hr']. inversion H; subst.
  destruct (H2 y Hx Hy) as [[|] Hs]; rewrite Hs; [|eexists; reflexivity].
  apply IHr; assumption.
Qed.

Lemma same_value_refl_plain : forall o a, plain a = true -> same_value o a a = Some true.
Proof.
  intros o a. induction a using value_ind_nested; intro Ha; try discriminate Ha.
  - cbn [same_value]. unfold same_printed. cbn [type_of vtype_beq inspect]. rewrite str_eqb_refl. reflexivity.
  - cbn [same_value]. unfold same_printed. cbn [type_of vtype_beq inspect]. rewrite str_eqb_refl. reflexivity.
  - cbn [same_value]. unfold same_printed. cbn [type_of vtype_beq inspect]. rewrite str_eqb_refl. reflexivity.
  - reflexivity.
  - apply same_value_array. cbn [plain] in Ha.
    induction l as [|x r IHr]; [constructor|].
    cbn [forallb] in Ha. apply andb_prop in Ha. destruct Ha as [Hx Hr]. inversion H; subst.
    constructor; [apply H2; exact Hx | apply IHr; assumption].
Qed.

(* "the same value" is equality: a plain value against any value free of iterators
   (without that side condition it fails: see iter_witness below) *)
Theorem same_value_plain_eq : forall o a b, plain a = true -> no_iter b = true ->
  (same_value o a b = Some true <-> a = b).
Proof.
  intros o a b Ha Hb. split; [|intro; subst b; apply same_value_refl_plain; exact Ha].
  revert b Ha Hb. induction a using value_ind_nested; intros c Ha Hb; try discriminate Ha.
  - destruct c; try discriminate Hb; cbn [same_value]; unfold same_printed;
      cbn [type_of vtype_beq inspect]; try discriminate.
    intro Hs. injection Hs as Hs. apply str_eqb_eq in Hs. apply z_to_str_inj in Hs. congruence.
  - destruct c; try discriminate Hb; cbn [same_value]; unfold same_printed;
      cbn [type_of vtype_beq inspect]; try discriminate.
    intro Hs. injection Hs as Hs. apply str_eqb_eq in Hs. congruence.
  - destruct c as [| | |b'| | | | | |]; try discriminate Hb; cbn [same_value]; unfold same_printed;
      cbn [type_of vtype_beq inspect]; try discriminate.
    intro Hs. injection Hs as Hs. apply bool_str_inj in Hs. congruence.
  - destruct c; try discriminate Hb; cbn [same_value]; unfold same_printed;
      cbn [type_of vtype_beq inspect]; try discriminate.
    reflexivity.
  - destruct c as [| | | | | | |l'| |]; try discriminate Hb;
      try (cbn [same_value]; unfold same_printed; cbn [type_of vtype_beq]; discriminate).
    rewrite same_value_array. intro HF. f_equal.
    cbn [plain no_iter] in Ha, Hb. revert Ha Hb H.
    induction HF as [|x y r r' Hxy HF IHF]; intros Ha Hb H; [reflexivity|].
    cbn [forallb] in Ha, Hb. apply andb_prop in Ha. apply andb_prop in Hb.
    destruct Ha as [Hx Hr]. destruct Hb as [Hy Hr']. inversion H; subst.
    f_equal; [apply H2; assumption | apply IHF; assumption].
Qed.

Corollary same_value_plain_plain_eq : forall o a b, plain a = true -> plain b = true ->
  (same_value o a b = Some true <-> a = b).
Proof. intros o a b Ha Hb. apply same_value_plain_eq; [exact Ha | apply plain_no_iter; exact Hb]. Qed.

(* `in` finds exactly the elements present *)
Theorem in_plain_exact : forall o x l b, plain x = true -> forallb no_iter l = true ->
  array_mem o x l = Some b -> (b = true <-> In x l).
Proof.
  intros o x l b Hx Hl Hm. rewrite (in_exact o x l b Hm).
  rewrite forallb_forall in Hl. split.
  - intros [y [Hin Hs]]. apply (same_value_plain_eq o x y Hx (Hl y Hin)) in Hs. subst y. exact Hin.
  - intro Hin. exists x. split; [exact Hin | apply same_value_refl_plain; exact Hx].
Qed.

Corollary in_plain_plain_exact : forall o x l b, plain x = true -> forallb plain l = true ->
  array_mem o x l = Some b -> (b = true <-> In x l).
Proof.
  intros o x l b Hx Hl. apply in_plain_exact; [exact Hx | apply forallb_plain_no_iter; exact Hl].
Qed.

(* switch: a plain subject matches a non-regexp case label iff they are the same value *)
Theorem case_plain_exact : forall o v c, plain v = true -> no_iter c = true -> (forall s, c <> VRegexp s) ->
  (vm_case o v c = Ok (VBool true) <-> v = c).
Proof.
  intros o v c Hv Hc Hre. rewrite <- (same_value_plain_eq o v c Hv Hc). unfold vm_case.
  destruct (same_value o v c) as [[|]|].
  - split; reflexivity.
  - destruct c; try (split; discriminate). exfalso. eapply Hre. reflexivity.
  - split; discriminate.
Qed.

Corollary case_plain_plain_exact : forall o v c, plain v = true -> plain c = true ->
  (vm_case o v c = Ok (VBool true) <-> v = c).
Proof.
  intros o v c Hv Hc. apply case_plain_exact; [exact Hv | apply plain_no_iter; exact Hc |].
  intros s E. subst c. discriminate Hc.
Qed.

(* why the iterator-free side condition: an iterator is compared by what it iterates *)
Theorem iter_witness : forall o,
  same_value o (VInt 1) (VIter (VInt 1) 0) = Some true /\
  array_mem o (VInt 1) [VIter (VInt 1) 0] = Some true /\
  vm_case o (VInt 1) (VIter (VInt 1) 0) = Ok (VBool true).
Proof. intro o. repeat split; vm_compute; reflexivity. Qed.

(* the former behaviour (D40): printed forms conflate a string with the value it spells; the structural comparison does not *)
Theorem d40_witness : forall o,
  same_printed o (VArray [VInt 1; VInt 2]) (VArray [VStr (L "1, 2")]) = Some true /\
  same_value o (VArray [VInt 1; VInt 2]) (VArray [VStr (L "1, 2")]) = Some false /\
  array_mem o (VArray [VInt 1; VInt 2]) [VArray [VStr (L "1, 2")]] = Some false /\
  array_mem o (VArray [VInt 1; VInt 2]) [VArray [VStr (L "1, 2")]; VArray [VInt 1; VInt 2]] = Some true.
Proof. intro o. repeat split; vm_compute; reflexivity. Qed.

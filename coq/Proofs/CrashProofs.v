(* CrashProofs.v - errors, never a crash of the host (C08): no operation of
   the API returns "crashed", the machine never produces the crash class,
   the evaluator stays usable, the parser's recursion is bounded.
   Complete proofs only; no axioms.

   Method for [faults_are_errors]: Proofs/PollProofs.v classifies one
   iteration of [exec] as a [shape] (stop / continue / call then continue);
   [instr_shape_ok] repeats that classification and records that a stopping
   iteration never stops with [OErr ECrash]; the theorem is then an
   induction on the fuel. *)
From Coq Require Import Floats Lia.
From EF Require Import Model.Base Gen.Tables Model.Lexer Model.Ast Model.Parser Model.Code Model.Value Model.Env
                       Model.Reflect Model.Builtins Model.Compiler Model.Optimizer Model.VM Model.Api.
From EF Require Import Proofs.EnvProofs Proofs.ApiProofs Proofs.PollProofs.
Open Scope N_scope.

(* the implicit-argument declarations of Model/Parser.v are made inside a
   section and do not survive it; restate them (as Proofs/ParserProofs.v does)
   so that Properties/C08.v can write [PErr] *)
#[global] Arguments POk {A} a s.
#[global] Arguments PErr {A}.
#[global] Arguments PNeed {A}.
#[global] Arguments PFuel {A}.

(* ------------------------------------------------------------------ *)
(* the helper functions of the machine never return the crash class *)

Ltac nc_split :=
  repeat (cbv beta iota zeta;
          match goal with
          | |- context [match ?x with _ => _ end] => destruct x
          end).

Lemma bind_nc : forall A B (r : res A) (f : A -> res B),
  r <> Err ECrash -> (forall a, f a <> Err ECrash) -> bind r f <> Err ECrash.
Proof.
  intros A B [a|e] f H1 H2; cbn [bind]; [apply H2|].
  intro E. apply H1. injection E as ->. reflexivity.
Qed.

Section NoCrash.
Variable o : stdlib.

Lemma of_bres_nc : forall r, of_bres r <> Err ECrash.
Proof. intros []; discriminate. Qed.

Lemma lift_nc : forall x, lift x <> Err ECrash.
Proof. intros []; discriminate. Qed.

Lemma int_pow_nc : forall a b, int_pow a b <> Err ECrash.
Proof. intros a b. unfold int_pow. nc_split; discriminate. Qed.

Lemma int_binop_nc : forall op a b, int_binop op a b <> Err ECrash.
Proof. intros op a b. destruct op; cbn [int_binop]; try apply int_pow_nc; nc_split; discriminate. Qed.

Lemma float_binop_nc : forall op a b, float_binop o op a b <> Err ECrash.
Proof. intros op a b. destruct op; cbn [float_binop]; nc_split; discriminate. Qed.

Lemma string_binop_nc : forall op a b, string_binop op a b <> Err ECrash.
Proof. intros op a b. destruct op; discriminate. Qed.

Lemma match_bind_nc : forall r (f : value -> value),
  (do v <- of_bres r; Ok (f v)) <> Err ECrash.
Proof. intros r f. apply bind_nc; [apply of_bres_nc|discriminate]. Qed.

Lemma vm_binop_nc : forall op l r, vm_binop o op l r <> Err ECrash.
Proof.
  intros op l r. unfold vm_binop.
  destruct op; try discriminate;
    destruct l; destruct r;
    first [ discriminate | apply int_binop_nc | apply float_binop_nc | apply string_binop_nc
          | apply match_bind_nc
          | nc_split; first [discriminate | apply string_binop_nc] ].
Qed.

Lemma vm_minus_nc : forall v, vm_minus v <> Err ECrash.
Proof. intros []; discriminate. Qed.

Lemma vm_sqrt_nc : forall v, vm_sqrt v <> Err ECrash.
Proof. intros []; discriminate. Qed.

Lemma vm_index_nc : forall l i, vm_index o l i <> Err ECrash.
Proof. intros l i. unfold vm_index. nc_split; discriminate. Qed.

Lemma vm_range_nc : forall a b, vm_range a b <> Err ECrash.
Proof. intros a b. unfold vm_range. nc_split; discriminate. Qed.

Lemma vm_case_nc : forall v c, vm_case o v c <> Err ECrash.
Proof. intros v c. unfold vm_case. nc_split; first [discriminate | apply of_bres_nc]. Qed.

Lemma build_hash_nc : forall n s acc, build_hash o n s acc <> Err ECrash.
Proof.
  induction n as [|n IH]; intros s acc; cbn [build_hash]; [discriminate|].
  destruct s as [|v [|k s']]; try discriminate.
  destruct (hash_key o k) as [[hk|]|]; try discriminate.
  destruct (hash_put o acc hk k v); [apply IH|discriminate].
Qed.

Lemma iter_next_nc : forall v off, iter_next o v off <> Err ECrash.
Proof. intros v off. unfold iter_next. nc_split; discriminate. Qed.

Lemma lookup_nc : forall obj e name, lookup o obj e name <> Err ECrash.
Proof. intros obj e name. unfold lookup. nc_split; discriminate. Qed.

Lemma name_of_nc : forall v, name_of o v <> Err ECrash.
Proof. intros v. unfold name_of. destruct (inspect o v); discriminate. Qed.

Lemma host_call_nc : forall k args, host_call k args <> Err ECrash.
Proof. intros [] args; discriminate. Qed.

Lemma name_lookup_nc : forall obj e c,
  (do name <- name_of o c; lookup o obj e name) <> Err ECrash.
Proof. intros. apply bind_nc; [apply name_of_nc|intro; apply lookup_nc]. Qed.

Lemma name_lookup2_nc : forall obj e c,
  (do name <- name_of o c; do v <- lookup o obj e name; Ok (name, v)) <> Err ECrash.
Proof.
  intros. apply bind_nc; [apply name_of_nc|intro a].
  apply bind_nc; [apply lookup_nc|discriminate].
Qed.

End NoCrash.

(* ------------------------------------------------------------------ *)
(* one iteration never stops with the crash class *)

Definition sh_ok (sh : shape) : Prop :=
  match sh with
  | ShStop (OErr ECrash) _ _ _ => False
  | _ => True
  end.

Section Exec.
Variables (o : stdlib) (consts : list value) (funcs : list (str * ufunc)) (fns : fnmap) (obj : hostval).
Notation ex := (exec o consts funcs fns obj).

Ltac kill_crash :=
  match goal with
  | H : _ = Err ECrash |- False =>
      first [ exact (vm_binop_nc _ _ _ _ H) | exact (vm_case_nc _ _ _ H) | exact (vm_index_nc _ _ _ H)
            | exact (vm_minus_nc _ H) | exact (vm_sqrt_nc _ H) | exact (vm_range_nc _ _ H)
            | exact (build_hash_nc _ _ _ _ H) | exact (iter_next_nc _ _ _ H)
            | exact (name_of_nc _ _ H) | exact (host_call_nc _ _ H) | exact (of_bres_nc _ H)
            | exact (name_lookup_nc _ _ _ _ H) | exact (name_lookup2_nc _ _ _ _ H)
            | exact (lookup_nc _ _ _ _ H) ]
  end.

Ltac leaf_ok :=
  cbn [sh_ok];
  first [ exact I
        | match goal with
          | |- context [match ?e with _ => _ end] =>
              destruct e; try exact I; kill_crash
          end ].

Ltac shape_leaf_ok :=
  first [ eexists (ShStop _ _ _ _); split; [intros ? ?; reflexivity | leaf_ok]
        | eexists (ShCont _ _ _ _); split; [intros ? ?; reflexivity | exact I]
        | eexists (ShCall _ _ _ _ _ _); split; [intros ? ?; reflexivity | exact I] ].

Ltac crunch :=
  repeat (cbv beta iota zeta;
          match goal with
          | |- context [match ?x with _ => _ end] => destruct x eqn:?
          end).

Lemma instr_shape_ok : forall code ip s e t,
  exists sh, (forall rec p, instr o consts funcs fns obj rec code ip (mkM s e t p) = interp rec code p sh) /\ sh_ok sh.
Proof.
  intros code ip s e t. unfold instr, fail, push, set_stk, set_env.
  cbn [stk menv trace polls].
  crunch; cbv beta iota zeta; shape_leaf_ok.
Qed.

Lemma exec_step_ok : forall code ip s e t,
  (lenN code <=? ip) = false ->
  exists sh, sh_ok sh /\ forall f p,
    ex (S f) code ip (mkM s e t p) =
    match poll p with
    | None => (OErr ETimeout, mkM s e t p)
    | Some p' => interp (ex f) code p' sh
    end.
Proof.
  intros code ip s e t Hl. destruct (instr_shape_ok code ip s e t) as [sh [Hsh Hok]].
  exists sh. split; [exact Hok|]. intros f p. rewrite exec_S_poll, Hl.
  destruct (poll p) as [p'|]; [apply Hsh|reflexivity].
Qed.

Lemma faults_are_errors_sec : forall fuel code ip m out m',
  ex fuel code ip m = (out, m') -> out <> OErr ECrash.
Proof.
  induction fuel as [|f IH]; intros code ip [s e t p] out m' H.
  - cbn [exec] in H. injection H as <- _. discriminate.
  - destruct (lenN code <=? ip) eqn:Hl.
    + rewrite exec_S_poll, Hl in H. injection H as <- _. discriminate.
    + destruct (exec_step_ok code ip s e t Hl) as [sh [Hok Hsh]]. rewrite Hsh in H. clear Hsh.
      destruct (poll p) as [p'|].
      * destruct sh as [out0 s0 e0 t0|ip0 s0 e0 t0|fc e1 t0 s0 depth next]; cbn [interp] in H.
        -- injection H as <- _. cbn [sh_ok] in Hok. intro E. rewrite E in Hok. exact Hok.
        -- exact (IH _ _ _ _ _ H).
        -- destruct (ex f fc 0 (mkM [] e1 t0 p')) as [r1 m2] eqn:E1.
           destruct r1 as [v|x].
           ++ exact (IH _ _ _ _ _ H).
           ++ injection H as <- _. exact (IH _ _ _ _ _ E1).
      * injection H as <- _. discriminate.
Qed.

End Exec.

Lemma faults_are_errors : forall o consts funcs fns obj fuel code ip m out m',
  exec o consts funcs fns obj fuel code ip m = (out, m') -> out <> OErr ECrash.
Proof. intros o consts funcs fns obj. exact (faults_are_errors_sec o consts funcs fns obj). Qed.

(* ------------------------------------------------------------------ *)
(* the API *)

Lemma execute_result : forall o fuel e obj,
  match fst (execute o fuel e obj) with
  | RExec _ _ _ _ _ _ | RNeed | RFuel => True
  | _ => False
  end.
Proof.
  intros o fuel e obj. unfold execute.
  destruct (emachine e) as [mc|]; [|exact I].
  destruct (run_main o (pconsts (mprog mc)) (pfuncs (mprog mc)) (efns e) obj fuel
              (pmain (mprog mc)) (mkM [] (eenv e) [] (mctx mc))) as [out m1].
  destruct out as [v|x]; [exact I|]. destruct x; exact I.
Qed.

Lemma no_crash : forall o fuel e x, fst (step o fuel e x) <> RCrashed.
Proof.
  intros o fuel e x. destruct x; cbn [step fst]; try discriminate.
  - destruct (prepare o e optimize) as [[u p| | |] e']; discriminate.
  - pose proof (execute_result o fuel e obj) as H.
    destruct (execute o fuel e obj) as [r e']. cbn [fst] in H.
    destruct r; try discriminate; contradiction.
  - pose proof (execute_result o fuel e obj) as H.
    destruct (execute o fuel e obj) as [r e']. cbn [fst] in *.
    destruct r; try discriminate; contradiction.
Qed.

Lemma usable_after : forall o fuel e x r e',
  scopes (eenv e) = [] -> step o fuel e x = (r, e') ->
  scopes (eenv e') = [] /\
  (forall mc, emachine e = Some mc -> match x with OPrepare _ => True | _ => exists mc', emachine e' = Some mc' /\ mprog mc' = mprog mc end).
Proof.
  intros o fuel e x r e' Hc H. split; [exact (clean_preserved o fuel e x r e' Hc H)|].
  intros mc Hm.
  assert (Hex : forall obj r0 e0, execute o fuel e obj = (r0, e0) ->
                exists mc', emachine e0 = Some mc' /\ mprog mc' = mprog mc).
  { intros obj r0 e0 E. apply run_keeps_program in E. destruct E as (_ & _ & _ & E).
    rewrite Hm in E. destruct (emachine e0) as [mc'|]; [|contradiction].
    exists mc'. split; [reflexivity|exact E]. }
  destruct x; cbn [step] in H.
  - injection H as _ <-. exists mc. split; [exact Hm|reflexivity].
  - injection H as _ <-. exists mc. split; [exact Hm|reflexivity].
  - injection H as _ <-. exists mc. split; [exact Hm|reflexivity].
  - exact I.
  - destruct (execute o fuel e obj) as [r0 e0] eqn:E.
    assert (e' = e0) by (destruct r0; injection H as _ <-; reflexivity). subst e'.
    exact (Hex _ _ _ E).
  - exact (Hex _ _ _ H).
  - injection H as _ <-. exists mc. split; [exact Hm|reflexivity].
  - injection H as _ <-. exists mc. split; [exact Hm|reflexivity].
Qed.

(* ------------------------------------------------------------------ *)
(* the parser's depth limit *)

Lemma parser_depth_bounded : forall pf md fuel prec s,
  md <> 0 -> md < depth s + 1 -> parse_expression pf md (S fuel) prec s = PErr.
Proof.
  intros pf md fuel prec s Hmd Hd.
  assert (E : deeper md s = PErr).
  { unfold deeper. apply N.eqb_neq in Hmd. apply N.ltb_lt in Hd. rewrite Hmd, Hd. reflexivity. }
  cbn [parse_expression]. rewrite E. reflexivity.
Qed.

Lemma limits_in_force : max_depth <> 0 /\ max_call_depth <> 0.
Proof. split; vm_compute; discriminate. Qed.

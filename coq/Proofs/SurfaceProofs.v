(* SurfaceProofs.v - confinement (C10).
   Complete proofs only; no axioms.

   The three table lemmas are computations over the generated facts
   (Gen/Surface.v, Gen/Tables.v).  [effects_only_through_host_calls] reuses
   the one-iteration body [instr] of Proofs/PollProofs.v: [instr_shape_trace]
   is [instr_shape] with the trace exposed - whatever the instruction, the
   trace handed on by one iteration is the old one, or the old one with one
   call to a HOST-registered name pushed in front.  The theorem is then an
   induction on the fuel. *)
From Coq Require Import List Bool NArith Lia.
From EF Require Import Model.Base Gen.Tables Gen.Surface Model.Code Model.Value Model.Env Model.Reflect Model.Builtins
                       Model.Compiler Model.VM Proofs.TableProofs Proofs.PollProofs.
Import ListNotations.
Open Scope N_scope.

(* ------------------------------------------------------------------ *)
(* the generated tables *)

Definition audited_imports : list string :=
  ["bytes"; "context"; "encoding/binary"; "errors"; "fmt"; "hash/fnv"; "math"; "os"; "reflect"; "regexp"; "sort";
   "strconv"; "strings"; "sync"; "time"; "unicode"; "unicode/utf8";
   "github.com/skx/evalfilter/v2/ast"; "github.com/skx/evalfilter/v2/code"; "github.com/skx/evalfilter/v2/environment";
   "github.com/skx/evalfilter/v2/lexer"; "github.com/skx/evalfilter/v2/object"; "github.com/skx/evalfilter/v2/parser";
   "github.com/skx/evalfilter/v2/stack"; "github.com/skx/evalfilter/v2/token"; "github.com/skx/evalfilter/v2/vm"]%string.

Theorem imports_confined :
  forallb (fun fi => forallb (fun i => existsb (fun a => str_eqb i (L a)) audited_imports) (snd fi)) file_imports = true
  /\ uses_cgo = false.
Proof. split; vm_compute; reflexivity. Qed.

Definition member_ok (pkg member : str) : bool :=
  if str_eqb pkg (L "os") then str_eqb member (L "Getenv")
  else if str_eqb pkg (L "time") then existsb (fun a => str_eqb member (L a)) ["Now"; "LoadLocation"; "Time"; "Unix"; "Duration"; "Location"]%string
  else if str_eqb pkg (L "fmt") then existsb (fun a => str_eqb member (L a)) ["Errorf"; "Print"; "Printf"; "Println"; "Sprintf"; "Sprint"]%string
  else if str_eqb pkg (L "reflect") then negb (existsb (fun a => str_eqb member (L a)) ["NewAt"; "MakeFunc"]%string)
  else true.

Theorem members_confined :
  forallb (fun u => member_ok (snd (fst u)) (snd u)) member_uses = true.
Proof. vm_compute. reflexivity. Qed.

Theorem closed_instruction_set : TableProofs.opcodes_agree = true /\
  forallb (fun '(b, name, _) => str_eqb name (L "OpUnknown") || (b <? 43)) op_table = true.
Proof. split; [exact TableProofs.opcodes_agree_true|vm_compute; reflexivity]. Qed.

(* ------------------------------------------------------------------ *)
(* the trace only grows by calls to host-registered names *)

Section Trace.
Variables (o : stdlib) (consts : list value) (funcs : list (str * ufunc)) (fns : fnmap) (obj : hostval).
Notation ex := (exec o consts funcs fns obj).

Definition host_call_of (c : call) : Prop := exists k, fn_get (cname c) fns = Some (FHost k).

(* one iteration: at most one host call pushed in front *)
Definition ext (t t' : list call) : Prop :=
  t' = t \/ exists name args k, t' = mkCall name args :: t /\ fn_get name fns = Some (FHost k).

(* any number of iterations *)
Definition grows (t t' : list call) : Prop :=
  exists calls, t' = calls ++ t /\ Forall host_call_of calls.

Lemma grows_refl : forall t, grows t t.
Proof. intro t. exists []. split; [reflexivity|constructor]. Qed.

Lemma grows_trans : forall t1 t2 t3, grows t1 t2 -> grows t2 t3 -> grows t1 t3.
Proof.
  intros t1 t2 t3 (c1 & -> & F1) (c2 & -> & F2). exists (c2 ++ c1). split.
  - rewrite app_assoc. reflexivity.
  - apply Forall_app. split; assumption.
Qed.

Lemma ext_grows : forall t t', ext t t' -> grows t t'.
Proof.
  intros t t' [->|(name & args & k & -> & Hk)].
  - apply grows_refl.
  - exists [mkCall name args]. split; [reflexivity|].
    constructor; [|constructor]. exists k. exact Hk.
Qed.

Definition shape_trace (sh : shape) : list call :=
  match sh with
  | ShStop _ _ _ t => t
  | ShCont _ _ _ t => t
  | ShCall _ _ t _ _ _ => t
  end.

Ltac trace_leaf :=
  cbn [shape_trace];
  first [ left; reflexivity
        | right; do 3 eexists; split; [reflexivity|]; subst; eassumption ].

Ltac shape_leaf_t :=
  first [ eexists (ShStop _ _ _ _); split; [intros ? ?; reflexivity|trace_leaf]
        | eexists (ShCont _ _ _ _); split; [intros ? ?; reflexivity|trace_leaf]
        | eexists (ShCall _ _ _ _ _ _); split; [intros ? ?; reflexivity|trace_leaf] ].

Ltac crunch :=
  repeat (cbv beta iota zeta;
          match goal with
          | |- context [match ?x with _ => _ end] => destruct x eqn:?
          end).

Lemma instr_shape_trace : forall code ip s e t,
  exists sh,
    (forall rec p, instr o consts funcs fns obj rec code ip (mkM s e t p) = interp rec code p sh) /\
    ext t (shape_trace sh).
Proof.
  intros code ip s e t. unfold instr, fail, push, set_stk, set_env.
  cbn [stk menv trace polls].
  crunch; cbv beta iota zeta; shape_leaf_t.
Qed.

Lemma exec_grows : forall fuel code ip m out m',
  ex fuel code ip m = (out, m') -> grows (trace m) (trace m').
Proof.
  induction fuel as [|f IH]; intros code ip [s e t p] out m' H; cbn [trace].
  - cbn [exec] in H. injection H as _ <-. apply grows_refl.
  - rewrite exec_S_poll in H. destruct (lenN code <=? ip) eqn:Hl.
    + injection H as _ <-. apply grows_refl.
    + destruct (poll p) as [p'|].
      2:{ injection H as _ <-. apply grows_refl. }
      destruct (instr_shape_trace code ip s e t) as (sh & Hsh & Hext).
      rewrite Hsh in H. clear Hsh. apply ext_grows in Hext.
      destruct sh as [out0 s0 e0 t0|ip0 s0 e0 t0|fc e1 t0 s0 depth next];
        cbn [interp shape_trace] in *.
      * injection H as _ <-. exact Hext.
      * apply IH in H. cbn [trace] in H. eapply grows_trans; eassumption.
      * destruct (ex f fc 0 (mkM [] e1 t0 p')) as [r1 m2] eqn:E1.
        apply IH in E1. cbn [trace] in E1.
        destruct r1 as [v|x].
        -- apply IH in H. cbn [trace] in H.
           eapply grows_trans; [exact Hext|]. eapply grows_trans; eassumption.
        -- injection H as _ <-. cbn [trace]. eapply grows_trans; eassumption.
Qed.

End Trace.

Theorem effects_only_through_host_calls : forall o consts funcs fns obj fuel code ip m out m',
  exec o consts funcs fns obj fuel code ip m = (out, m') ->
  exists calls, trace m' = calls ++ trace m /\
    Forall (fun c => exists k, fn_get (cname c) fns = Some (FHost k)) calls.
Proof.
  intros o consts funcs fns obj fuel code ip m out m' H.
  exact (exec_grows o consts funcs fns obj fuel code ip m out m' H).
Qed.

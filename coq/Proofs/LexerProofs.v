(* LexerProofs.v - proofs of the C14 statements about Model/Lexer.v.
   Every lemma is proved outright, stdlib only. *)
From EF Require Import Model.Base Gen.Tables Model.Lexer Spec.LexSpec.
From Coq Require Import Lia.
Open Scope N_scope.

Local Opaque is_letter is_udigit.

(* ------------------------------------------------------------------ *)
(* The part of next_token after trivia have been skipped.              *)

Definition nt_body (l : str) (prev : tokty) : token * str * tokty :=
  let c := cur l in
  let p := peek l in
  let one t := (mkTok t [c], adv l, t) in
  let dbl t := (mkTok t [c; p], adv (adv l), t) in
  match l with
  | [] => (mkTok TEOF [], [], TEOF)
  | _ =>
  if c =? 0 then (mkTok TIllegal [], adv l, TIllegal)
  else if c =? 38 then if p =? 38 then dbl TAnd else (mkTok TEmpty [], adv l, TEmpty)
  else if c =? 124 then if p =? 124 then dbl TOr else (mkTok TEmpty [], adv l, TEmpty)
  else if c =? 61 then if p =? 61 then dbl TEq else one TAssign
  else if c =? 59 then one TSemicolon
  else if c =? 40 then one TLParen
  else if c =? 41 then one TRParen
  else if c =? 44 then one TComma
  else if c =? 46 then if p =? 46 then dbl TDotDot else one TPeriod
  else if c =? 43 then if p =? 43 then dbl TPlusPlus else if p =? 61 then dbl TPlusEq else one TPlus
  else if c =? 37 then one TMod
  else if c =? 8730 then one TSqrt
  else if c =? 123 then one TLBrace
  else if c =? 125 then one TRBrace
  else if c =? 91 then one TLSquare
  else if c =? 93 then one TRSquare
  else if c =? 45 then if p =? 45 then dbl TMinusMinus else if p =? 61 then dbl TMinusEq else one TMinus
  else if c =? 47 then
    if slash_is_division prev then
      if p =? 61 then dbl TSlashEq else one TSlash
    else
      match read_regexp (S (List.length l)) l [] with
      | (Some s, l') => (mkTok TRegexp s, l', prev)
      | (None, l') => (mkTok TIllegal [], l', prev)
      end
  else if c =? 42 then if p =? 42 then dbl TPow else if p =? 61 then dbl TAsteriskEq else one TAsterisk
  else if c =? 63 then one TQuestion
  else if c =? 58 then one TColon
  else if c =? 60 then if p =? 61 then dbl TLtEq else one TLt
  else if c =? 62 then if p =? 61 then dbl TGtEq else one TGt
  else if c =? 126 then if p =? 61 then dbl TContains else (mkTok TEmpty [], adv l, TEmpty)
  else if c =? 33 then if p =? 61 then dbl TNotEq else if p =? 126 then dbl TMissing else one TBang
  else if (c =? 34) || (c =? 39) then
    match read_string (S (List.length l)) c l [] with
    | (Some s, l') => (mkTok TString s, adv l', TString)
    | (None, l') => (mkTok TIllegal [], adv l', TIllegal)
    end
  else if is_digit c then
    let '(ip, r) := take_while is_digit l in
    if (cur r =? 46) && is_digit (peek r) then
      let '(fp, r') := take_while is_digit (adv r) in
      (mkTok TFloat (ip ++ [46] ++ fp), r', TFloat)
    else (mkTok TInt ip, r, TInt)
  else
    let '(id, r) := take_while is_identifier l in
    match id with
    | [] => (mkTok TIllegal [], adv l, prev)
    | _ => let t := lookup_ident id in (mkTok t id, r, t)
    end
  end.

Lemma next_token_eq : forall l0 prev,
  next_token l0 prev = nt_body (skip_trivia (List.length l0) l0) prev.
Proof. reflexivity. Qed.

(* ------------------------------------------------------------------ *)
(* Length facts.                                                       *)

Lemma adv_length : forall l : str, (List.length (adv l) <= List.length l)%nat.
Proof. destruct l; simpl; lia. Qed.

Lemma skip_ws_length : forall l, (List.length (skip_ws l) <= List.length l)%nat.
Proof.
  induction l as [|c l IH]; simpl; [lia|].
  destruct (is_whitespace c); simpl; lia.
Qed.

Lemma skip_line_length : forall l, (List.length (skip_line l) <= List.length l)%nat.
Proof.
  induction l as [|c l IH]; simpl; [lia|].
  destruct (c =? 10); simpl; lia.
Qed.

Lemma skip_trivia_length : forall f l, (List.length (skip_trivia f l) <= List.length l)%nat.
Proof.
  induction f as [|f IH]; intros l; simpl.
  - apply skip_ws_length.
  - destruct ((cur (skip_ws l) =? 47) && (peek (skip_ws l) =? 47)).
    + specialize (IH (skip_ws (skip_line (skip_ws l)))).
      pose proof (skip_ws_length (skip_line (skip_ws l))).
      pose proof (skip_line_length (skip_ws l)).
      pose proof (skip_ws_length l). lia.
    + apply skip_ws_length.
Qed.

Lemma take_while_length : forall p l a r,
  take_while p l = (a, r) -> List.length l = (List.length a + List.length r)%nat.
Proof.
  induction l as [|c l IH]; simpl; intros a r H.
  - inversion H; reflexivity.
  - destruct (p c).
    + destruct (take_while p l) as [a' r'] eqn:E. inversion H; subst.
      simpl. rewrite (IH a' r eq_refl). reflexivity.
    + inversion H; reflexivity.
Qed.

Lemma take_while_head : forall p c l a r,
  p c = true -> take_while p (c :: l) = (a, r) -> (List.length r < List.length (c :: l))%nat.
Proof.
  intros p c l a r Hc H. simpl in H. rewrite Hc in H.
  destruct (take_while p l) as [a' r'] eqn:E. inversion H; subst.
  apply take_while_length in E. simpl. lia.
Qed.

Lemma collect_flags_length : forall l fl,
  (List.length (snd (collect_flags l fl)) <= List.length l)%nat.
Proof.
  induction l as [|c l IH]; intros fl; simpl; [lia|].
  destruct (is_letter c); simpl; [|lia].
  specialize (IH (if memN c fl then fl else fl ++ [c])). lia.
Qed.

Lemma read_string_length : forall f d l acc,
  (List.length (snd (read_string f d l acc)) <= List.length l)%nat.
Proof.
  induction f as [|f IH]; intros d l acc; [simpl; lia|].
  destruct l as [|x [|c l1]]; [simpl; lia|simpl; lia|].
  cbn [read_string adv peek].
  destruct (c =? d); [simpl; lia|].
  destruct (c =? 92).
  - destruct l1 as [|e l2]. 
    + destruct (0 =? 10); simpl; try lia. specialize (IH d [] acc). simpl in IH. lia.
    + destruct (e =? 10).
      * specialize (IH d (e :: l2) acc). simpl in *. lia.
      * match goal with |- context [read_string f d ?x ?y] => specialize (IH d x y) end.
        simpl in *. lia.
  - match goal with |- context [read_string f d ?x ?y] => specialize (IH d x y) end.
    simpl in *. lia.
Qed.

Lemma read_regexp_length : forall f l acc,
  (List.length (snd (read_regexp f l acc)) <= List.length l)%nat.
Proof.
  induction f as [|f IH]; intros l acc; [simpl; lia|].
  destruct l as [|x [|c l1]]; [simpl; lia|simpl; lia|].
  cbn [read_regexp adv].
  destruct (c =? 47).
  - pose proof (collect_flags_length l1 []) as Hc.
    destruct (collect_flags l1 []) as [fl l2]. simpl in Hc.
    destruct (flags_ok fl); simpl; lia.
  - destruct (c =? 92).
    + match goal with |- context [read_regexp f ?x ?y] => specialize (IH x y) end.
      pose proof (adv_length l1). simpl in *. lia.
    + match goal with |- context [read_regexp f ?x ?y] => specialize (IH x y) end.
      simpl in *. lia.
Qed.

Lemma read_string_length_S : forall f d x l acc,
  (List.length (snd (read_string (S f) d (x :: l) acc)) <= List.length l)%nat.
Proof.
  intros f d x l acc.
  destruct l as [|c l1]; [simpl; lia|].
  cbn [read_string adv peek].
  destruct (c =? d); [simpl; lia|].
  destruct (c =? 92).
  - destruct l1 as [|e l2].
    + destruct (0 =? 10); simpl; try lia.
      pose proof (read_string_length f d [] acc) as IH. simpl in IH. lia.
    + destruct (e =? 10).
      * pose proof (read_string_length f d (e :: l2) acc). simpl in *. lia.
      * match goal with |- context [read_string f d ?x ?y] =>
          pose proof (read_string_length f d x y) end.
        simpl in *. lia.
  - match goal with |- context [read_string f d ?x ?y] =>
      pose proof (read_string_length f d x y) end.
    simpl in *. lia.
Qed.

Lemma read_regexp_length_S : forall f x l acc,
  (List.length (snd (read_regexp (S f) (x :: l) acc)) <= List.length l)%nat.
Proof.
  intros f x l acc.
  destruct l as [|c l1]; [simpl; lia|].
  cbn [read_regexp adv].
  destruct (c =? 47).
  - pose proof (collect_flags_length l1 []) as Hc.
    destruct (collect_flags l1 []) as [fl l2]. simpl in Hc.
    destruct (flags_ok fl); simpl; lia.
  - destruct (c =? 92).
    + match goal with |- context [read_regexp f ?x ?y] =>
        pose proof (read_regexp_length f x y) end.
      pose proof (adv_length l1). simpl in *. lia.
    + match goal with |- context [read_regexp f ?x ?y] =>
        pose proof (read_regexp_length f x y) end.
      simpl in *. lia.
Qed.

(* ------------------------------------------------------------------ *)
(* Every call consumes at least one code point or reports EOF.         *)

Lemma nt_body_length : forall l prev t l' prev',
  nt_body l prev = (t, l', prev') ->
  (List.length l' < List.length l)%nat \/ tty t = TEOF.
Proof.
  intros l prev t l' prev'.
  destruct l as [|c r].
  - intros H; inversion H; right; reflexivity.
  - unfold nt_body. cbn [cur peek adv].
    repeat match goal with
    | |- (if ?b then _ else _) = _ -> _ => destruct b eqn:?
    end;
    try (intros H; inversion H; subst; left;
         try match goal with |- context [adv ?x] => pose proof (adv_length x) end;
         simpl; lia).
    + (* regexp *)
      pose proof (read_regexp_length_S (List.length (c :: r)) c r []) as Hr.
      destruct (read_regexp (S (List.length (c :: r))) (c :: r) []) as [[s|] l2];
        intros H; inversion H; subst; left; simpl in *; lia.
    + (* string *)
      pose proof (read_string_length_S (List.length (c :: r)) c c r []) as Hr.
      destruct (read_string (S (List.length (c :: r))) c (c :: r) []) as [[s|] l2];
        intros H; inversion H; subst; left; pose proof (adv_length l2); simpl in *; lia.
    + (* number *)
      destruct (take_while is_digit (c :: r)) as [ip r1] eqn:E.
      apply take_while_head in E; [|assumption].
      destruct ((cur r1 =? 46) && is_digit (peek r1)).
      * destruct (take_while is_digit (adv r1)) as [fp r2] eqn:E2.
        apply take_while_length in E2. pose proof (adv_length r1) as Ha.
        intros H; inversion H; subst; left. lia.
      * intros H; inversion H; subst; left. lia.
    + (* identifier *)
      destruct (take_while is_identifier (c :: r)) as [id r1] eqn:E.
      destruct id as [|i id].
      * intros H; inversion H; subst; left; simpl; lia.
      * apply take_while_length in E.
        intros H; inversion H; subst; left. simpl in *; lia.
Qed.

Lemma next_token_length : forall l prev t l' prev',
  next_token l prev = (t, l', prev') ->
  (List.length l' < List.length l)%nat \/ tty t = TEOF.
Proof.
  intros l prev t l' prev' H. rewrite next_token_eq in H.
  apply nt_body_length in H.
  pose proof (skip_trivia_length (List.length l) l). destruct H; [left; lia | right; assumption].
Qed.

Lemma lex_all_S : forall f l prev,
  lex_all (S f) l prev =
  let '(t, l', prev') := next_token l prev in
  match tty t with
  | TEOF => Some [t]
  | _ => match lex_all f l' prev' with
         | Some ts => Some (t :: ts)
         | None => None
         end
  end.
Proof. reflexivity. Qed.

Lemma lex_all_terminates : forall f l prev,
  (List.length l < f)%nat -> lex_all f l prev <> None.
Proof.
  induction f as [|f IH]; intros l prev Hf; [lia|].
  rewrite lex_all_S.
  destruct (next_token l prev) as [[t l'] prev'] eqn:E.
  apply next_token_length in E.
  destruct (tokty_eq_dec (tty t) TEOF) as [Ht|Ht].
  - rewrite Ht. discriminate.
  - destruct E as [E|E]; [|contradiction].
    specialize (IH l' prev' ltac:(lia)).
    destruct (lex_all f l' prev'); [|contradiction].
    destruct (tty t); try discriminate. 
Qed.

Lemma lexer_terminates : forall s : str, lex s <> None.
Proof. intros s. unfold lex. apply lex_all_terminates. lia. Qed.

(* ------------------------------------------------------------------ *)
(* skip_trivia: enough fuel gives a fuel-independent result.           *)

Lemma skip_ws_idem : forall l, skip_ws (skip_ws l) = skip_ws l.
Proof.
  induction l as [|c l IH]; simpl; [reflexivity|].
  destruct (is_whitespace c) eqn:E; [assumption|].
  simpl. rewrite E. reflexivity.
Qed.

Lemma skip_ws_app : forall ws l,
  forallb is_whitespace ws = true -> skip_ws (ws ++ l) = skip_ws l.
Proof.
  induction ws as [|c ws IH]; intros l H; simpl in *; [reflexivity|].
  apply andb_true_iff in H. destruct H as [H1 H2]. rewrite H1. auto.
Qed.

Lemma skip_trivia_skip_ws : forall f l, skip_trivia f (skip_ws l) = skip_trivia f l.
Proof. destruct f; intros l; simpl; rewrite skip_ws_idem; reflexivity. Qed.

Lemma skip_line_comment_length : forall l,
  cur l = 47 -> (List.length (skip_line l) < List.length l)%nat.
Proof.
  destruct l as [|c l]; simpl; intros H; [discriminate|]. subst c.
  simpl. pose proof (skip_line_length l). lia.
Qed.

Lemma skip_trivia_fuel : forall f1 f2 l,
  (List.length l <= f1)%nat -> (List.length l <= f2)%nat ->
  skip_trivia f1 l = skip_trivia f2 l.
Proof.
  induction f1 as [|f1 IH]; intros f2 l H1 H2.
  - destruct l; [|simpl in H1; lia]. destruct f2; reflexivity.
  - destruct f2 as [|f2].
    + destruct l; [|simpl in H2; lia]. reflexivity.
    + simpl.
      destruct (cur (skip_ws l) =? 47) eqn:Ec; [|reflexivity].
      destruct (peek (skip_ws l) =? 47); [|reflexivity]. simpl.
      apply N.eqb_eq in Ec. apply skip_line_comment_length in Ec.
      pose proof (skip_ws_length l).
      pose proof (skip_ws_length (skip_line (skip_ws l))).
      apply IH; lia.
Qed.

Lemma leading_layout : forall (ws l : str) (prev : tokty),
  forallb is_whitespace ws = true ->
  next_token (ws ++ l) prev = next_token l prev.
Proof.
  intros ws l prev H. rewrite !next_token_eq. f_equal.
  rewrite <- skip_trivia_skip_ws, skip_ws_app by assumption.
  rewrite skip_trivia_skip_ws.
  apply skip_trivia_fuel; rewrite ?app_length; lia.
Qed.

(* a comment body is any text without a newline (NUL included: the lexer
   no longer takes the character 0 for the end of the input) *)
Lemma skip_line_body : forall body l,
  forallb (fun c => negb (c =? 10)) body = true ->
  skip_line (body ++ 10 :: l) = 10 :: l.
Proof.
  induction body as [|c body IH]; intros l H; simpl in *; [reflexivity|].
  apply andb_true_iff in H. destruct H as [Ha H2].
  apply negb_true_iff in Ha. rewrite Ha. auto.
Qed.

Lemma skip_trivia_S_comment : forall f r,
  skip_trivia (S f) (47 :: 47 :: r) = skip_trivia f (skip_ws (skip_line r)).
Proof. reflexivity. Qed.

Lemma leading_comment : forall (body l : str) (prev : tokty),
  forallb (fun c => negb (c =? 10)) body = true ->
  next_token (47 :: 47 :: body ++ 10 :: l) prev = next_token l prev.
Proof.
  intros body l prev H. rewrite !next_token_eq. f_equal.
  cbn [List.length]. rewrite skip_trivia_S_comment.
  rewrite skip_line_body by assumption.
  change (skip_ws (10 :: l)) with (skip_ws l).
  rewrite skip_trivia_skip_ws.
  apply skip_trivia_fuel; rewrite ?app_length; simpl; lia.
Qed.

(* ------------------------------------------------------------------ *)
(* next_token by class of first character.                             *)

Lemma skip_trivia_S : forall f l,
  skip_trivia (S f) l =
  if (cur (skip_ws l) =? 47) && (peek (skip_ws l) =? 47)
  then skip_trivia f (skip_ws (skip_line (skip_ws l)))
  else skip_ws l.
Proof. reflexivity. Qed.

Lemma skip_trivia_none : forall f c r,
  is_whitespace c = false -> (c =? 47) && (cur r =? 47) = false ->
  skip_trivia f (c :: r) = c :: r.
Proof.
  intros f c r Hw Hc.
  assert (Hs : skip_ws (c :: r) = c :: r) by (simpl; rewrite Hw; reflexivity).
  assert (Hp : peek (c :: r) = cur r) by (destruct r; reflexivity).
  destruct f; [exact Hs|]. rewrite skip_trivia_S, Hs, Hp.
  cbn [cur]. rewrite Hc. reflexivity.
Qed.

(* decide every comparison of the first code point with a literal *)
Ltac eqb_false :=
  repeat match goal with
  | |- context [N.eqb ?c ?k] =>
      first [ replace (N.eqb c k) with false by (symmetry; apply N.eqb_neq; lia)
            | replace (N.eqb c k) with true by (symmetry; apply N.eqb_eq; lia) ]
  end.

Lemma nt_body_slash_div : forall r prev,
  slash_is_division prev = true ->
  nt_body (47 :: r) prev =
  if cur r =? 61 then (mkTok TSlashEq [47; cur r], adv r, TSlashEq)
  else (mkTok TSlash [47], r, TSlash).
Proof.
  intros r prev H. unfold nt_body.
  replace (peek (47 :: r)) with (cur r) by (destruct r; reflexivity).
  cbn [cur adv]. rewrite H. reflexivity.
Qed.

Lemma nt_body_slash_re : forall r prev,
  slash_is_division prev = false ->
  nt_body (47 :: r) prev =
  match read_regexp (S (List.length (47 :: r))) (47 :: r) [] with
  | (Some s, l') => (mkTok TRegexp s, l', prev)
  | (None, l') => (mkTok TIllegal [], l', prev)
  end.
Proof.
  intros r prev H. unfold nt_body. cbn [cur]. rewrite H. reflexivity.
Qed.

Lemma slash_division : forall (prev : tokty) (rest : str),
  slash_is_division prev = true -> cur rest <> 61 -> cur rest <> 47 ->
  next_token (47 :: rest) prev = (mkTok TSlash [47], rest, TSlash).
Proof.
  intros prev rest Hd H61 H47. rewrite next_token_eq.
  rewrite skip_trivia_none.
  - rewrite nt_body_slash_div by assumption.
    apply N.eqb_neq in H61. rewrite H61. reflexivity.
  - reflexivity.
  - apply N.eqb_neq in H47. rewrite H47. reflexivity.
Qed.

Lemma slash_regexp : forall (prev : tokty) (rest : str),
  slash_is_division prev = false -> cur rest <> 47 ->
  let '(t, _, _) := next_token (47 :: rest) prev in tty t = TRegexp \/ tty t = TIllegal.
Proof.
  intros prev rest Hd H47. rewrite next_token_eq.
  rewrite skip_trivia_none.
  - rewrite nt_body_slash_re by assumption.
    destruct (read_regexp (S (List.length (47 :: rest))) (47 :: rest) []) as [[s|] l'];
      [left|right]; reflexivity.
  - reflexivity.
  - apply N.eqb_neq in H47. rewrite H47. reflexivity.
Qed.

Lemma slash_context_table :
  forallb (fun '(name, verdict) =>
     match tokty_of_name name with
     | Some t => Bool.eqb (slash_is_division t) (str_eqb verdict (L "div"))
     | None => false
     end) slash_context = true.
Proof. vm_compute. reflexivity. Qed.

Lemma is_digit_bounds : forall c, is_digit c = true -> 48 <= c <= 57.
Proof.
  intros c H. unfold is_digit in H. apply andb_true_iff in H.
  destruct H as [H1 H2]. apply N.leb_le in H1, H2. lia.
Qed.

Lemma is_whitespace_false : forall c,
  c <> 32 -> c <> 9 -> c <> 10 -> c <> 13 -> is_whitespace c = false.
Proof.
  intros c H1 H2 H3 H4. unfold is_whitespace.
  apply N.eqb_neq in H1, H2, H3, H4. rewrite H1, H2, H3, H4. reflexivity.
Qed.

Lemma nt_body_digit : forall c r prev,
  is_digit c = true ->
  nt_body (c :: r) prev =
  let '(ip, r1) := take_while is_digit (c :: r) in
  if (cur r1 =? 46) && is_digit (peek r1) then
    let '(fp, r') := take_while is_digit (adv r1) in
    (mkTok TFloat (ip ++ [46] ++ fp), r', TFloat)
  else (mkTok TInt ip, r1, TInt).
Proof.
  intros c r prev H. pose proof (is_digit_bounds c H) as Hb.
  unfold nt_body. cbn [cur].
  eqb_false. cbv iota. cbn [orb]. rewrite H. reflexivity.
Qed.

Lemma nt_body_quote : forall q r prev,
  is_quote q = true ->
  nt_body (q :: r) prev =
  match read_string (S (List.length (q :: r))) q (q :: r) [] with
  | (Some s, l') => (mkTok TString s, adv l', TString)
  | (None, l') => (mkTok TIllegal [], adv l', TIllegal)
  end.
Proof.
  intros q r prev H. unfold is_quote in H. apply orb_true_iff in H.
  destruct H as [H|H]; apply N.eqb_eq in H; subst q; reflexivity.
Qed.

Lemma nt_body_dotdot : forall r prev,
  nt_body (46 :: 46 :: r) prev = (mkTok TDotDot [46; 46], r, TDotDot).
Proof. reflexivity. Qed.

Lemma next_token_nil : forall prev, next_token [] prev = (mkTok TEOF [], [], TEOF).
Proof. reflexivity. Qed.

(* ------------------------------------------------------------------ *)
(* lex_all: fuel.                                                      *)

Lemma lex_all_mono : forall f l p ts,
  lex_all f l p = Some ts -> forall f', (f <= f')%nat -> lex_all f' l p = Some ts.
Proof.
  induction f as [|f IH]; intros l p ts H f' Hf; [discriminate|].
  destruct f' as [|f']; [lia|].
  rewrite lex_all_S in *.
  destruct (next_token l p) as [[t l'] p'].
  destruct (tty t); try exact H;
    (destruct (lex_all f l' p') as [ts'|] eqn:E; [|discriminate];
     rewrite (IH _ _ _ E f') by lia; exact H).
Qed.

Lemma lex_all_cons : forall f l prev t l' p' ts,
  next_token l prev = (t, l', p') -> tty t <> TEOF ->
  lex_all f l' p' = Some ts -> lex_all (S f) l prev = Some (t :: ts).
Proof.
  intros f l prev t l' p' ts H Ht Hr. rewrite lex_all_S, H, Hr.
  destruct (tty t); try reflexivity. congruence.
Qed.

Lemma lex_all_eof : forall f prev, lex_all (S f) [] prev = Some [mkTok TEOF []].
Proof. reflexivity. Qed.

Lemma lex_single : forall l t p',
  next_token l TEmpty = (t, [], p') -> tty t <> TEOF ->
  lex l = Some [t; mkTok TEOF []].
Proof.
  intros l t p' H Ht. unfold lex.
  eapply lex_all_cons; eauto.
Qed.

(* ------------------------------------------------------------------ *)
(* Numbers.                                                            *)

Lemma take_while_app : forall p a tl,
  forallb p a = true -> p (cur tl) = false -> take_while p (a ++ tl) = (a, tl).
Proof.
  induction a as [|c a IH]; intros tl Ha Ht.
  - destruct tl; simpl in *; [reflexivity|]. rewrite Ht. reflexivity.
  - simpl in *. apply andb_true_iff in Ha. destruct Ha as [Hc Ha].
    rewrite Hc, (IH tl Ha Ht). reflexivity.
Qed.

Lemma skip_trivia_digit : forall f c r,
  is_digit c = true -> skip_trivia f (c :: r) = c :: r.
Proof.
  intros f c r H. apply is_digit_bounds in H.
  apply skip_trivia_none.
  - apply is_whitespace_false; lia.
  - replace (c =? 47) with false by (symmetry; apply N.eqb_neq; lia). reflexivity.
Qed.

Lemma next_token_int : forall a tl prev,
  a <> [] -> all_digits a = true -> is_digit (cur tl) = false ->
  (cur tl =? 46) && is_digit (peek tl) = false ->
  next_token (a ++ tl) prev = (mkTok TInt a, tl, TInt).
Proof.
  intros a tl prev Ha Hd Ht Hf. rewrite next_token_eq.
  destruct a as [|c a]; [congruence|].
  pose proof Hd as Hd'. unfold all_digits in Hd'. simpl in Hd'.
  apply andb_true_iff in Hd'. destruct Hd' as [Hc _].
  change ((c :: a) ++ tl) with (c :: (a ++ tl)).
  rewrite skip_trivia_digit by assumption.
  rewrite nt_body_digit by assumption.
  change (c :: (a ++ tl)) with ((c :: a) ++ tl).
  rewrite take_while_app by assumption.
  rewrite Hf. reflexivity.
Qed.

Lemma next_token_float : forall a b tl prev,
  a <> [] -> b <> [] -> all_digits a = true -> all_digits b = true ->
  is_digit (cur tl) = false ->
  next_token (a ++ 46 :: b ++ tl) prev = (mkTok TFloat (a ++ [46] ++ b), tl, TFloat).
Proof.
  intros a b tl prev Ha Hb Hda Hdb Ht. rewrite next_token_eq.
  destruct a as [|c a]; [congruence|].
  destruct b as [|d b]; [congruence|].
  pose proof Hda as Hd'. unfold all_digits in Hd'. simpl in Hd'.
  apply andb_true_iff in Hd'. destruct Hd' as [Hc _].
  pose proof Hdb as Hd'. unfold all_digits in Hd'. simpl in Hd'.
  apply andb_true_iff in Hd'. destruct Hd' as [Hd _].
  change ((c :: a) ++ 46 :: (d :: b) ++ tl) with (c :: (a ++ 46 :: (d :: b) ++ tl)).
  rewrite skip_trivia_digit by assumption.
  rewrite nt_body_digit by assumption.
  change (c :: (a ++ 46 :: (d :: b) ++ tl)) with ((c :: a) ++ 46 :: (d :: b) ++ tl).
  rewrite take_while_app by (try assumption; reflexivity).
  cbn [cur peek adv app]. rewrite Hd. change (46 =? 46) with true. cbn [andb].
  change (d :: b ++ tl) with ((d :: b) ++ tl).
  rewrite take_while_app by assumption.
  reflexivity.
Qed.

Lemma int_literal : forall ds : str,
  ds <> [] -> all_digits ds = true -> lex ds = Some [mkTok TInt ds; mkTok TEOF []].
Proof.
  intros ds Hn Hd. eapply lex_single with (p' := TInt); [|discriminate].
  pose proof (next_token_int ds [] TEmpty Hn Hd eq_refl eq_refl) as H.
  rewrite app_nil_r in H. exact H.
Qed.

Lemma float_literal : forall a b : str,
  a <> [] -> b <> [] -> all_digits a = true -> all_digits b = true ->
  lex (a ++ [46] ++ b) = Some [mkTok TFloat (a ++ [46] ++ b); mkTok TEOF []].
Proof.
  intros a b Ha Hb Hda Hdb. eapply lex_single with (p' := TFloat); [|discriminate].
  pose proof (next_token_float a b [] TEmpty Ha Hb Hda Hdb eq_refl) as H.
  rewrite app_nil_r in H. exact H.
Qed.

Lemma range_literal : forall a b : str,
  a <> [] -> b <> [] -> all_digits a = true -> all_digits b = true ->
  lex (a ++ [46; 46] ++ b) =
  Some [mkTok TInt a; mkTok TDotDot [46; 46]; mkTok TInt b; mkTok TEOF []].
Proof.
  intros a b Ha Hb Hda Hdb. unfold lex.
  apply lex_all_mono with (f := 4%nat).
  - eapply lex_all_cons; [apply next_token_int; auto | discriminate |].
    eapply lex_all_cons; [| discriminate |].
    { rewrite next_token_eq. cbn [app].
      rewrite skip_trivia_none by reflexivity. apply nt_body_dotdot. }
    eapply lex_all_cons; [| discriminate | apply lex_all_eof].
    pose proof (next_token_int b [] TDotDot Hb Hdb eq_refl eq_refl) as H.
    rewrite app_nil_r in H. exact H.
  - rewrite !app_length. destruct a; [congruence|]. destruct b; [congruence|].
    simpl. lia.
Qed.

(* ------------------------------------------------------------------ *)
(* Strings.                                                            *)

Lemma read_string_S : forall f d x c r acc,
  read_string (S f) d (x :: c :: r) acc =
  if c =? d then (Some (rev acc), c :: r)
  else if c =? 92 then
    if cur r =? 10 then read_string f d r acc
    else match r with
         | [] => (None, [])
         | e :: _ =>
             read_string f d r
               ((if e =? 110 then 10 else if e =? 114 then 13
                 else if e =? 116 then 9 else e) :: acc)
         end
  else read_string f d (c :: r) (c :: acc).
Proof. intros. destruct r; reflexivity. Qed.

Lemma is_quote_cases : forall q, is_quote q = true -> q = 34 \/ q = 39.
Proof.
  intros q H. unfold is_quote in H. apply orb_true_iff in H.
  destruct H as [H|H]; apply N.eqb_eq in H; auto.
Qed.

Lemma rev_cons_app : forall (c : N) acc s, rev (c :: acc) ++ s = rev acc ++ c :: s.
Proof. intros. simpl. rewrite <- app_assoc. reflexivity. Qed.

Lemma read_string_quote_body : forall q s f x acc tl,
  is_quote q = true ->
  (List.length (quote_body q s) < f)%nat ->
  read_string f q (x :: quote_body q s ++ q :: tl) acc = (Some (rev acc ++ s), q :: tl).
Proof.
  intros q s. induction s as [|c s IH]; intros f x acc tl Hq Hf.
  - destruct f as [|f]; [simpl in Hf; lia|].
    cbn [quote_body app]. rewrite read_string_S.
    rewrite N.eqb_refl, app_nil_r. reflexivity.
  - destruct f as [|f]; [simpl in Hf; lia|].
    pose proof (is_quote_cases q Hq) as Hq'.
    cbn [quote_body] in *.
    destruct ((c =? 92) || (c =? q)) eqn:E.
    + assert (Hc' : c = 92 \/ c = 34 \/ c = 39).
      { apply orb_true_iff in E. destruct E as [E|E]; apply N.eqb_eq in E; lia. }
      cbn [app]. rewrite read_string_S. cbn [cur].
      replace (92 =? q) with false by (symmetry; apply N.eqb_neq; lia).
      change (92 =? 92) with true. cbv iota.
      replace (c =? 10) with false by (symmetry; apply N.eqb_neq; lia).
      replace (c =? 110) with false by (symmetry; apply N.eqb_neq; lia).
      replace (c =? 114) with false by (symmetry; apply N.eqb_neq; lia).
      replace (c =? 116) with false by (symmetry; apply N.eqb_neq; lia).
      rewrite IH; auto.
      * rewrite rev_cons_app. reflexivity.
      * cbn [app List.length] in Hf. lia.
    + apply orb_false_iff in E. destruct E as [E1 E2].
      cbn [app]. rewrite read_string_S.
      rewrite E1, E2.
      rewrite IH; auto.
      * rewrite rev_cons_app. reflexivity.
      * cbn [app List.length] in Hf. lia.
Qed.

Lemma read_string_quote_body_esc : forall q s f x acc tl,
  is_quote q = true ->
  (List.length (quote_body_esc q s) < f)%nat ->
  read_string f q (x :: quote_body_esc q s ++ q :: tl) acc = (Some (rev acc ++ s), q :: tl).
Proof.
  intros q s. induction s as [|c s IH]; intros f x acc tl Hq Hf.
  - destruct f as [|f]; [simpl in Hf; lia|].
    cbn [quote_body_esc app]. rewrite read_string_S.
    rewrite N.eqb_refl, app_nil_r. reflexivity.
  - destruct f as [|f]; [simpl in Hf; lia|].
    pose proof (is_quote_cases q Hq) as Hq'.
    cbn [quote_body_esc] in *.
    assert (Hesc : forall e e', e <> 10 ->
              (if e =? 110 then 10 else if e =? 114 then 13
               else if e =? 116 then 9 else e) = e' ->
              (List.length (quote_body_esc q s) < f)%nat ->
              read_string (S f) q (x :: 92 :: e :: quote_body_esc q s ++ q :: tl) acc =
              (Some (rev acc ++ e' :: s), q :: tl)).
    { intros e e' He10 He' Hf'. rewrite read_string_S. cbn [cur].
      replace (92 =? q) with false by (symmetry; apply N.eqb_neq; lia).
      change (92 =? 92) with true. cbv iota.
      replace (e =? 10) with false by (symmetry; apply N.eqb_neq; lia).
      rewrite He'. rewrite IH; auto. rewrite rev_cons_app. reflexivity. }
    destruct ((c =? 92) || (c =? q)) eqn:E;
      [|destruct (c =? 10) eqn:E10; [|destruct (c =? 13) eqn:E13; [|destruct (c =? 9) eqn:E9]]];
      cbn [app List.length] in Hf |- *.
    + assert (Hc' : c = 92 \/ c = 34 \/ c = 39).
      { apply orb_true_iff in E. destruct E as [E|E]; apply N.eqb_eq in E; lia. }
      apply Hesc; try lia.
      replace (c =? 110) with false by (symmetry; apply N.eqb_neq; lia).
      replace (c =? 114) with false by (symmetry; apply N.eqb_neq; lia).
      replace (c =? 116) with false by (symmetry; apply N.eqb_neq; lia).
      reflexivity.
    + apply N.eqb_eq in E10. subst c. apply Hesc; try lia. reflexivity.
    + apply N.eqb_eq in E13. subst c. apply Hesc; try lia. reflexivity.
    + apply N.eqb_eq in E9. subst c. apply Hesc; try lia. reflexivity.
    + apply orb_false_iff in E. destruct E as [E1 E2].
      rewrite read_string_S.
      rewrite E1, E2.
      rewrite IH; auto.
      * rewrite rev_cons_app. reflexivity.
      * lia.
Qed.

Lemma skip_trivia_quote : forall f q r,
  is_quote q = true -> skip_trivia f (q :: r) = q :: r.
Proof.
  intros f q r H. apply is_quote_cases in H.
  apply skip_trivia_none.
  - apply is_whitespace_false; lia.
  - replace (q =? 47) with false by (symmetry; apply N.eqb_neq; lia). reflexivity.
Qed.

(* the contents are ANY text, the character 0 included *)
Lemma string_roundtrip : forall (q : N) (s : str),
  is_quote q = true ->
  lex (quote q s) = Some [mkTok TString s; mkTok TEOF []].
Proof.
  intros q s Hq. eapply lex_single with (p' := TString); [|discriminate].
  unfold quote. rewrite next_token_eq, skip_trivia_quote, nt_body_quote by assumption.
  rewrite read_string_quote_body; auto.
  cbn [List.length]. rewrite app_length. simpl. lia.
Qed.

Lemma string_escapes : forall (q : N) (s : str),
  is_quote q = true ->
  lex (quote_esc q s) = Some [mkTok TString s; mkTok TEOF []].
Proof.
  intros q s Hq. eapply lex_single with (p' := TString); [|discriminate].
  unfold quote_esc. rewrite next_token_eq, skip_trivia_quote, nt_body_quote by assumption.
  rewrite read_string_quote_body_esc; auto.
  cbn [List.length]. rewrite app_length. simpl. lia.
Qed.

(* ------------------------------------------------------------------ *)
(* Regexps.                                                            *)

Lemma read_regexp_S : forall f x c r acc,
  read_regexp (S f) (x :: c :: r) acc =
  if c =? 47 then
    let '(flags, l2) := collect_flags r [] in
    if flags_ok flags then
      let body := rev acc in
      (Some (match flags with [] => body | _ => L "(?" ++ flags ++ L ")" ++ body end), l2)
    else (None, l2)
  else if c =? 92 then read_regexp f r (cur r :: acc)
  else read_regexp f (c :: r) (c :: acc).
Proof. reflexivity. Qed.

Lemma read_regexp_re_body : forall s f x acc tl,
  (List.length (re_body s) < f)%nat ->
  read_regexp f (x :: re_body s ++ 47 :: tl) acc =
  read_regexp 1 (47 :: 47 :: tl) (rev s ++ acc).
Proof.
  induction s as [|c s IH]; intros f x acc tl Hf.
  - destruct f as [|f]; [simpl in Hf; lia|].
    cbn [re_body app rev]. rewrite !read_regexp_S. reflexivity.
  - destruct f as [|f]; [simpl in Hf; lia|].
    cbn [re_body] in *.
    replace (rev (c :: s) ++ acc) with (rev s ++ c :: acc)
      by (simpl; rewrite <- app_assoc; reflexivity).
    destruct ((c =? 92) || (c =? 47)) eqn:E; cbn [app List.length] in Hf |- *.
    + rewrite read_regexp_S.
      change (92 =? 47) with false.
      change (92 =? 92) with true. cbv iota. cbn [cur].
      apply IH; auto. lia.
    + apply orb_false_iff in E. destruct E as [E1 E2].
      rewrite read_regexp_S.
      rewrite E1, E2. apply IH; auto. lia.
Qed.

Lemma re_body_head : forall s tl,
  s <> [] -> (cur (re_body s ++ tl) =? 47) = false.
Proof.
  intros s tl Hs. destruct s as [|c s]; [congruence|].
  cbn [re_body]. destruct ((c =? 92) || (c =? 47)) eqn:E; cbn [app cur].
  - reflexivity.
  - apply orb_false_iff in E. tauto.
Qed.

Lemma next_token_re_lit : forall s tl,
  s <> [] ->
  next_token (47 :: re_body s ++ 47 :: tl) TEmpty =
  match read_regexp 1 (47 :: 47 :: tl) (rev s) with
  | (Some r, l') => (mkTok TRegexp r, l', TEmpty)
  | (None, l') => (mkTok TIllegal [], l', TEmpty)
  end.
Proof.
  intros s tl Hn. rewrite next_token_eq.
  rewrite skip_trivia_none;
    [| reflexivity | rewrite re_body_head by assumption; reflexivity].
  rewrite nt_body_slash_re by reflexivity.
  rewrite read_regexp_re_body; auto.
  - rewrite app_nil_r. reflexivity.
  - cbn [List.length]. rewrite app_length. simpl. lia.
Qed.

(* the pattern is ANY non-empty text, the character 0 included *)
Lemma regexp_literal : forall s : str,
  s <> [] ->
  lex (re_lit s) = Some [mkTok TRegexp s; mkTok TEOF []].
Proof.
  intros s Hn. eapply lex_single with (p' := TEmpty); [|discriminate].
  unfold re_lit. rewrite next_token_re_lit by assumption.
  rewrite read_regexp_S. cbn. rewrite rev_involutive. reflexivity.
Qed.

Lemma is_letter_105 : is_letter 105 = true.
Proof. vm_compute. reflexivity. Qed.

Lemma regexp_flag_i : forall s : str,
  s <> [] ->
  lex (re_lit s ++ [105]) = Some [mkTok TRegexp (L "(?i)" ++ s); mkTok TEOF []].
Proof.
  intros s Hn. eapply lex_single with (p' := TEmpty); [|discriminate].
  unfold re_lit. cbn [app]. rewrite <- app_assoc. cbn [app].
  rewrite next_token_re_lit by assumption.
  rewrite read_regexp_S.
  change (47 =? 47) with true. cbv iota.
  cbn [collect_flags]. rewrite is_letter_105. cbn [memN app collect_flags].
  change (flags_ok [105]) with true. cbv iota zeta.
  rewrite rev_involutive. reflexivity.
Qed.

Lemma regexp_bad_flag : forall (s : str) (f : N),
  s <> [] -> is_letter f = true -> f <> 105 -> f <> 109 ->
  lex (re_lit s ++ [f]) = Some [mkTok TIllegal []; mkTok TEOF []].
Proof.
  intros s f Hn Hl H1 H2. eapply lex_single with (p' := TEmpty); [|discriminate].
  unfold re_lit. cbn [app]. rewrite <- app_assoc. cbn [app].
  rewrite next_token_re_lit by assumption.
  rewrite read_regexp_S.
  change (47 =? 47) with true. cbv iota.
  cbn [collect_flags]. rewrite Hl. cbn [memN app collect_flags].
  unfold flags_ok. cbn [forallb].
  apply N.eqb_neq in H1, H2. rewrite H1, H2. reflexivity.
Qed.

(* ------------------------------------------------------------------ *)
(* The character 0 inside a string literal, a regexp literal or a comment
   is an ordinary character (it used to end them: the Go lexer took NUL
   for its end-of-input mark).  Where a token starts it is still illegal. *)

(* "a<NUL>b" *)
Lemma string_with_nul :
  lex [34; 97; 0; 98; 34] = Some [mkTok TString [97; 0; 98]; mkTok TEOF []].
Proof. vm_compute; reflexivity. Qed.

(* // c <NUL> d<newline>1 *)
Lemma comment_with_nul :
  lex [47; 47; 32; 99; 32; 0; 32; 100; 10; 49] = Some [mkTok TInt [49]; mkTok TEOF []].
Proof. vm_compute; reflexivity. Qed.

(* /a<NUL>b/ *)
Lemma regexp_with_nul :
  lex [47; 97; 0; 98; 47] = Some [mkTok TRegexp [97; 0; 98]; mkTok TEOF []].
Proof. vm_compute; reflexivity. Qed.

(* <NUL> where a token starts: still ILLEGAL, and lexing goes on after it *)
Lemma nul_at_token_start :
  lex [49; 32; 0; 50] = Some [mkTok TInt [49]; mkTok TIllegal []; mkTok TInt [50]; mkTok TEOF []].
Proof. vm_compute; reflexivity. Qed.

(* TableProofs.v - the semantic tables the model hard-codes (as the
   documentation states them) coincide with the tables read from the code
   on this run (Gen/Tables.v).  Finite domains: vm_compute. *)
From EF Require Import Model.Base Gen.Tables Model.Lexer Model.Parser Model.Code Model.Compiler.
Open Scope N_scope.

(* precedence of every token type *)
Definition prec_agrees : bool :=
  forallb (fun t => prec_of t =? table_prec t) all_tokty.
Lemma prec_agrees_true : prec_agrees = true.
Proof. vm_compute. reflexivity. Qed.

Lemma prec_table_agrees : forall t, prec_of t = table_prec t.
Proof.
  intros t. assert (H := prec_agrees_true). unfold prec_agrees in H.
  rewrite forallb_forall in H. apply N.eqb_eq. apply H. destruct t; vm_compute; tauto.
Qed.

(* the names of the levels *)
Definition levels_agree : bool :=
  forallb (fun '(name, v) => match assoc_str (L name) prec_levels with Some n => n =? v | None => false end)
    [("LOWEST"%string, LOWEST); ("TERNARY"%string, P_TERNARY); ("ASSIGN"%string, P_ASSIGN); ("COND"%string, P_COND);
     ("EQUALS"%string, P_EQUALS); ("LESSGREATER"%string, P_LESSGREATER); ("SUM"%string, P_SUM);
     ("PRODUCT"%string, P_PRODUCT); ("POWER"%string, P_POWER); ("MOD"%string, P_MOD); ("PREFIX"%string, PREFIX);
     ("CALL"%string, P_CALL); ("INDEX"%string, P_INDEX)].
Lemma levels_agree_true : levels_agree = true.
Proof. vm_compute. reflexivity. Qed.

(* which tokens have a prefix / infix / postfix parse function *)
Definition registrations_agree : bool :=
  forallb (fun t => Bool.eqb (has_prefix t) (mem_str (tokty_name t) prefix_tokens) &&
                    Bool.eqb (has_infix t) (mem_str (tokty_name t) infix_tokens) &&
                    Bool.eqb (has_postfix t) (mem_str (tokty_name t) postfix_tokens)) all_tokty
  && forallb (fun n => match tokty_of_name n with Some _ => true | None => false end)
             (prefix_tokens ++ infix_tokens ++ postfix_tokens).
Lemma registrations_agree_true : registrations_agree = true.
Proof. vm_compute. reflexivity. Qed.

(* operator spelling -> instruction *)
Definition op_token (spelling : str) : option tokty :=
  if str_eqb spelling (L "in") then Some TIn else tokty_of_name spelling.
Definition optoken_agrees : bool :=
  forallb (fun '(spelling, opname) =>
     match op_token spelling with
     | Some t => match infix_opcode t with
                 | Some b => str_eqb (op_name b) opname
                 | None => false
                 end
     | None => false
     end) optoken_table
  && forallb (fun '(spelling, opname) =>
     match tokty_of_name spelling with
     | Some t => match prefix_opcode t with
                 | Some b => str_eqb (op_name b) opname
                 | None => false
                 end
     | None => false
     end) prefixop_table
  && (23 <=? lenN optoken_table) && (3 <=? lenN prefixop_table).
Lemma optoken_agrees_true : optoken_agrees = true.
Proof. vm_compute. reflexivity. Qed.

(* the reserved words *)
Definition documented_keywords : list (string * tokty) :=
  [("case"%string, TCase); ("default"%string, TDefault); ("else"%string, TElse); ("false"%string, TFalse);
   ("for"%string, TFor); ("foreach"%string, TForeach); ("function"%string, TFunction); ("if"%string, TIf);
   ("in"%string, TIn); ("local"%string, TLocal); ("return"%string, TReturn); ("switch"%string, TSwitch);
   ("true"%string, TTrue); ("while"%string, TWhile)].
Definition keywords_agree : bool :=
  forallb (fun '(w, t) => tokty_beq (lookup_ident (L w)) t) documented_keywords
  && (lenN keyword_table =? 14).
Lemma keywords_agree_true : keywords_agree = true.
Proof. vm_compute. reflexivity. Qed.

(* the built-in functions *)
Definition documented_builtins : list string :=
  ["between"; "day"; "float"; "getenv"; "hour"; "int"; "join"; "keys"; "len"; "lower"; "match"; "max"; "min";
   "minute"; "month"; "now"; "panic"; "print"; "printf"; "replace"; "reverse"; "seconds"; "sort"; "split";
   "sprintf"; "string"; "time"; "trim"; "type"; "upper"; "weekday"; "year"]%string.
Definition builtins_agree : bool :=
  (lenN builtin_names =? lenN documented_builtins) &&
  forallb (fun n => mem_str (L n) builtin_names) documented_builtins.
Lemma builtins_agree_true : builtins_agree = true.
Proof. vm_compute. reflexivity. Qed.

(* every opcode the model uses exists in the code's table, with the documented length *)
Definition opcodes_agree : bool :=
  forallb (fun '(b, len) => negb (b =? 255) && (op_len b =? len))
    [(OpConstant, 3); (OpJump, 3); (OpJumpIfFalse, 3); (OpCall, 3); (OpLookup, 3); (OpPush, 3);
     (OpArray, 3); (OpHash, 3); (OpInc, 3); (OpDec, 3);
     (OpNop, 1); (OpPlaceholder, 1); (OpSet, 1); (OpLocal, 1); (OpTrue, 1); (OpFalse, 1); (OpVoid, 1);
     (OpCase, 1); (OpAdd, 1); (OpSub, 1); (OpMul, 1); (OpDiv, 1); (OpMod, 1); (OpPower, 1); (OpReturn, 1);
     (OpMinus, 1); (OpBang, 1); (OpSquareRoot, 1); (OpLess, 1); (OpLessEqual, 1); (OpGreater, 1);
     (OpGreaterEqual, 1); (OpEqual, 1); (OpNotEqual, 1); (OpMatches, 1); (OpNotMatches, 1); (OpAnd, 1);
     (OpOr, 1); (OpIndex, 1); (OpArrayIn, 1); (OpIterationReset, 1); (OpIterationNext, 1); (OpRange, 1)]
  && (inline_limit =? 65534).
Lemma opcodes_agree_true : opcodes_agree = true.
Proof. vm_compute. reflexivity. Qed.

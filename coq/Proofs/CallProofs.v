(* CallProofs.v - the call instruction (C06, C20): what OpCall does with an
   unknown function, a wrong argument count, a built-in, a host function and a
   user-defined function.  One-step lemmas about Model/VM.v's exec.
   Complete proofs only; no axioms. *)
From Coq Require Import Floats Lia.
From EF Require Import Model.Base Gen.Tables Model.Code Model.Value Model.Env Model.Reflect
                       Model.Builtins Model.Compiler Model.VM.
From EF Require Proofs.ContainerProofs.
Open Scope N_scope.

Ltac closed_eval t := let v := eval vm_compute in t in change t with v.
Ltac step_simpl :=
  repeat match goal with
  | |- context [N.eqb ?a ?b] => closed_eval (N.eqb a b)
  | |- context [N.ltb 1 (op_len ?a)] => closed_eval (N.ltb 1 (op_len a))
  | |- context [op_len ?a] => closed_eval (op_len a)
  | |- context [binop_of_opcode ?a] => closed_eval (binop_of_opcode a)
  end; cbv beta iota; cbn [orb].

(* the arguments of a call come off the stack in source order *)
Lemma pop_args : forall (args s : list value) n,
  lenN args = n -> pop_n (N.to_nat n) (rev args ++ s) [] = Some (args, s).
Proof.
  intros args s n <-. unfold lenN. rewrite Nat2N.id.
  apply ContainerProofs.array_literal_order.
Qed.

(* the nesting test of the call instruction, as a proposition *)
Lemma depth_ok : forall d : nat,
  (max_call_depth = 0 \/ N.of_nat d < max_call_depth) ->
  negb (max_call_depth =? 0) && (max_call_depth <=? N.of_nat d) = false.
Proof.
  intros d [H|H].
  - rewrite H. reflexivity.
  - apply N.leb_gt in H. rewrite H. apply andb_false_r.
Qed.

Section Call.
Variables (o : stdlib) (consts : list value) (funcs : list (str * ufunc)) (fns : fnmap) (obj : hostval).
Notation ex := (exec o consts funcs fns obj).

(* the call instruction, up to the function-table lookup *)
Lemma exec_call : forall k code ip m name n args s,
  byte_at code ip = Some OpCall -> operand_at code ip = Some n -> ip < lenN code -> polls m = None ->
  stk m = VStr name :: rev args ++ s -> lenN args = n ->
  ex (S k) code ip m =
  match fn_get name fns with
  | Some (FBuiltin bn) =>
      match call_builtin o bn args with
      | None => (OErr ENeedOracle, m)
      | Some r =>
          match of_bres r with
          | Ok v => ex k code (ip + 3) (set_stk m (match v with VVoid => s | _ => v :: s end))
          | Err e => (OErr e, set_stk m s)
          end
      end
  | Some (FHost hk) =>
      let m1 := mkM s (menv m) (mkCall name args :: trace m) (polls m) in
      match host_call hk args with
      | Ok v => ex k code (ip + 3) (set_stk m1 (match v with VVoid => s | _ => v :: s end))
      | Err e => (OErr e, m1)
      end
  | None =>
      match ufunc_get name funcs with
      | None => (OErr EScript, set_stk m s)
      | Some uf =>
          if negb (Nat.eqb (List.length (fparams uf)) (List.length args)) then (OErr EScript, set_stk m s)
          else if negb (max_call_depth =? 0) && (max_call_depth <=? N.of_nat (env_depth (menv m)))
          then (OErr EScript, set_stk m s)
          else
            match ex k (fcode uf) 0
                    (mkM [] (declare_all (env_push_frame (menv m)) (fparams uf) args) (trace m) (polls m)) with
            | (ODone out, m2) =>
                ex k code (ip + 3)
                  (mkM (match out with VVoid => s | _ => out :: s end)
                       (env_truncate (menv m2) (env_depth (menv m))) (trace m2) (polls m2))
            | (OErr e, m2) =>
                (OErr e, mkM s (env_truncate (menv m2) (env_depth (menv m))) (trace m2) (polls m2))
            end
      end
  end.
Proof.
  intros k code ip m name n args s Hb Ho Hip Hp Hs Hn.
  assert (Hl : (lenN code <=? ip) = false) by (apply N.leb_gt; exact Hip).
  cbn [exec]. rewrite Hl, Hp, Hb. step_simpl. rewrite Ho. step_simpl.
  rewrite Hs. change (name_of o (VStr name)) with (@Ok str name). cbv beta iota.
  rewrite (pop_args args s n Hn). unfold fail. rewrite Hp. reflexivity.
Qed.

Lemma unknown_function_is_error :
  forall code ip m name n args s k,
  byte_at code ip = Some OpCall -> operand_at code ip = Some n -> ip < lenN code -> polls m = None ->
  stk m = VStr name :: rev args ++ s -> lenN args = n ->
  fn_get name fns = None -> ufunc_get name funcs = None ->
  exists m', ex (S k) code ip m = (OErr EScript, m').
Proof.
  intros code ip m name n args s k Hb Ho Hip Hp Hs Hn Hf Hu.
  rewrite (exec_call k code ip m name n args s Hb Ho Hip Hp Hs Hn), Hf, Hu.
  eexists. reflexivity.
Qed.

Lemma wrong_arity_is_error :
  forall code ip m name n args s k uf,
  byte_at code ip = Some OpCall -> operand_at code ip = Some n -> ip < lenN code -> polls m = None ->
  stk m = VStr name :: rev args ++ s -> lenN args = n ->
  fn_get name fns = None -> ufunc_get name funcs = Some uf ->
  List.length (fparams uf) <> List.length args ->
  exists m', ex (S k) code ip m = (OErr EScript, m').
Proof.
  intros code ip m name n args s k uf Hb Ho Hip Hp Hs Hn Hf Hu Hne.
  rewrite (exec_call k code ip m name n args s Hb Ho Hip Hp Hs Hn), Hf, Hu.
  apply Nat.eqb_neq in Hne. rewrite Hne. cbn [negb].
  eexists. reflexivity.
Qed.

Lemma builtin_wins :
  forall code ip m name n args s k bn v,
  byte_at code ip = Some OpCall -> operand_at code ip = Some n -> ip < lenN code -> polls m = None ->
  stk m = VStr name :: rev args ++ s -> lenN args = n ->
  fn_get name fns = Some (FBuiltin bn) -> call_builtin o bn args = Some (BVal v) ->
  ex (S k) code ip m =
  ex k code (ip + 3) (set_stk m (match v with VVoid => s | _ => v :: s end)).
Proof.
  intros code ip m name n args s k bn v Hb Ho Hip Hp Hs Hn Hf Hc.
  rewrite (exec_call k code ip m name n args s Hb Ho Hip Hp Hs Hn), Hf, Hc.
  reflexivity.
Qed.

Lemma host_call_protocol :
  forall code ip m name n args s k hk v,
  byte_at code ip = Some OpCall -> operand_at code ip = Some n -> ip < lenN code -> polls m = None ->
  stk m = VStr name :: rev args ++ s -> lenN args = n ->
  fn_get name fns = Some (FHost hk) -> host_call hk args = Ok v ->
  ex (S k) code ip m =
  ex k code (ip + 3)
     (mkM (match v with VVoid => s | _ => v :: s end) (menv m) (mkCall name args :: trace m) (polls m)).
Proof.
  intros code ip m name n args s k hk v Hb Ho Hip Hp Hs Hn Hf Hc.
  rewrite (exec_call k code ip m name n args s Hb Ho Hip Hp Hs Hn), Hf.
  cbv zeta. rewrite Hc. reflexivity.
Qed.

Lemma call_frame :
  forall code ip m name n args s k uf,
  byte_at code ip = Some OpCall -> operand_at code ip = Some n -> ip < lenN code -> polls m = None ->
  stk m = VStr name :: rev args ++ s -> lenN args = n ->
  fn_get name fns = None -> ufunc_get name funcs = Some uf ->
  List.length (fparams uf) = List.length args ->
  (max_call_depth = 0 \/ N.of_nat (env_depth (menv m)) < max_call_depth) ->
  let callee := ex k (fcode uf) 0
                  (mkM [] (declare_all (env_push_frame (menv m)) (fparams uf) args) (trace m) (polls m)) in
  match callee with
  | (ODone out, m2) =>
      ex (S k) code ip m =
      ex k code (ip + 3)
        (mkM (match out with VVoid => s | _ => out :: s end)
             (env_truncate (menv m2) (env_depth (menv m))) (trace m2) (polls m2))
  | (OErr x, m2) =>
      ex (S k) code ip m =
      (OErr x, mkM s (env_truncate (menv m2) (env_depth (menv m))) (trace m2) (polls m2))
  end.
Proof.
  intros code ip m name n args s k uf Hb Ho Hip Hp Hs Hn Hf Hu Hlen Hd callee.
  rewrite (exec_call k code ip m name n args s Hb Ho Hip Hp Hs Hn), Hf, Hu.
  apply Nat.eqb_eq in Hlen. rewrite Hlen. cbn [negb].
  rewrite (depth_ok _ Hd).
  fold callee. destruct callee as [[out|x] m2]; reflexivity.
Qed.

(* the limit on nesting: with the limit in force, a user function called while
   that many scopes (or more) are open is a run-time error - nothing of the
   callee runs, the arguments are popped, nothing else changes *)
Lemma too_deep_is_error :
  forall code ip m name n args s k uf,
  byte_at code ip = Some OpCall -> operand_at code ip = Some n -> ip < lenN code -> polls m = None ->
  stk m = VStr name :: rev args ++ s -> lenN args = n ->
  fn_get name fns = None -> ufunc_get name funcs = Some uf ->
  List.length (fparams uf) = List.length args ->
  max_call_depth <> 0 -> max_call_depth <= N.of_nat (env_depth (menv m)) ->
  exists m', ex (S k) code ip m = (OErr EScript, m').
Proof.
  intros code ip m name n args s k uf Hb Ho Hip Hp Hs Hn Hf Hu Hlen Hz Hd.
  rewrite (exec_call k code ip m name n args s Hb Ho Hip Hp Hs Hn), Hf, Hu.
  apply Nat.eqb_eq in Hlen. rewrite Hlen. cbn [negb].
  apply N.eqb_neq in Hz. apply N.leb_le in Hd. rewrite Hz, Hd. cbn [negb andb].
  eexists. reflexivity.
Qed.

End Call.

(* StructProofs.v - every program the compiler accepts is structurally sound:
   each compiled body (the main body and every function in the table) decodes
   completely into known instructions; every jump lands on the start of an
   instruction strictly inside the same body; every constant reference is
   inside the pool; every name operand (lookup / ++ / --) refers to a string
   constant; every function body ends in OpReturn.  For every syntax tree and
   every fuel; no execution involved.  Complete proofs only; no axioms.

   Structure: (A) relational decoding `dec` and instruction starts; (B) the
   per-instruction condition `iok`, function-table invariant; (C) what the
   emission primitives append; (D) straight-line composition; (E) control
   constructs (back-patched jumps); (F) switch (code with holes); (G) function
   definitions (last_op against the decoder); (H) the induction on the
   compiler's fuel and the theorem.
   Reuses the emission/patching lemmas of Proofs/StmtProofs.v (emits,
   patch_emits, patchable, the compile_*_eq unfolding equations). *)
From Coq Require Import Floats Lia Setoid.
From EF Require Import Model.Base Gen.Tables Model.Lexer Model.Ast Model.Code Model.Value
                       Model.Compiler Model.Verifier Spec.Eval.
From EF Require Import Proofs.ExprProofs Proofs.StmtProofs.
Open Scope N_scope.

Local Ltac lenN_norm := repeat (progress (rewrite ?lenN_app, ?lenN_cons, ?lenN_nil in *)).
Local Ltac pos := lenN_norm; lia.
Local Ltac leq := repeat (progress (rewrite <- ?app_assoc; cbn [app])); reflexivity.

(* ------------------------------------------------------------------ *)
(* the statement *)

Definition instr_ok (consts : list value) (is : list instr) (len : N) (i : instr) : Prop :=
  memN (iop i) known_ops = true /\
  ((iop i = OpJump \/ iop i = OpJumpIfFalse) -> is_start is (iarg i) = true /\ iarg i < len) /\
  (iop i = OpConstant -> iarg i < lenN consts) /\
  ((iop i = OpLookup \/ iop i = OpInc \/ iop i = OpDec) -> exists s, nthN consts (iarg i) = Some (VStr s)).

Definition body_ok (consts : list value) (code : list N) : Prop :=
  exists is, decode (S (List.length code)) code 0 [] = (VOk, is) /\
             Forall (instr_ok consts is (lenN code)) is.

Definition ends_in_return (code : list N) : Prop :=
  exists is i, decode (S (List.length code)) code 0 [] = (VOk, is) /\
               last_instr is = Some i /\ iop i = OpReturn.

(* ------------------------------------------------------------------ *)
(* PART A: relational decoding *)

Inductive dec : list N -> N -> list instr -> Prop :=
| dec_nil : forall ip, dec [] ip []
| dec_3 : forall op h l rest ip is,
    memN op known_ops = true -> op_len op = 3 -> dec rest (ip + 3) is ->
    dec (op :: h :: l :: rest) ip (mkI ip op (h * 256 + l) 3 :: is)
| dec_1 : forall op rest ip is,
    memN op known_ops = true -> op_len op = 1 -> dec rest (ip + 1) is ->
    dec (op :: rest) ip (mkI ip op 0 1 :: is).

Lemma dec_decode : forall code ip is, dec code ip is ->
  forall fuel acc, (List.length code < fuel)%nat -> decode fuel code ip acc = (VOk, rev acc ++ is).
Proof.
  induction 1 as [ip|op h l rest ip is Hk Hl Hd IH|op rest ip is Hk Hl Hd IH]; intros fuel acc Hf.
  - destruct fuel as [|f]; cbn [decode]; rewrite app_nil_r; reflexivity.
  - destruct fuel as [|f]; [cbn [List.length] in Hf; lia|]. cbn [decode]. rewrite Hk. cbn [negb].
    rewrite Hl. change (3 =? 3) with true. cbv iota.
    rewrite IH by (cbn [List.length] in Hf; lia). cbn [rev]. rewrite <- app_assoc. reflexivity.
  - destruct fuel as [|f]; [cbn [List.length] in Hf; lia|]. cbn [decode]. rewrite Hk. cbn [negb].
    rewrite Hl. change (1 =? 3) with false. cbv iota. cbn [skipn].
    rewrite IH by (cbn [List.length] in Hf; lia). cbn [rev]. rewrite <- app_assoc. reflexivity.
Qed.

Lemma dec_app' : forall a ip isa, dec a ip isa ->
  forall b ip' isb, dec b ip' isb -> ip' = ip + lenN a -> dec (a ++ b) ip (isa ++ isb).
Proof.
  induction 1 as [ip|op h l rest ip is Hk Hl Hd IH|op rest ip is Hk Hl Hd IH]; intros b ip' isb Hb Hip.
  - rewrite lenN_nil, N.add_0_r in Hip. subst. exact Hb.
  - cbn [app]. apply dec_3; auto. eapply IH; [exact Hb|]. rewrite !lenN_cons in Hip. lia.
  - cbn [app]. apply dec_1; auto. eapply IH; [exact Hb|]. rewrite lenN_cons in Hip. lia.
Qed.

Lemma dec_one1 : forall op ip, memN op known_ops = true -> op_len op = 1 -> dec [op] ip [mkI ip op 0 1].
Proof. intros. apply dec_1; auto. apply dec_nil. Qed.

Lemma dec_one3 : forall op h l ip, memN op known_ops = true -> op_len op = 3 ->
  dec [op; h; l] ip [mkI ip op (h * 256 + l) 3].
Proof. intros. apply dec_3; auto. apply dec_nil. Qed.

Lemma dec_at : forall ch ip ip' is, dec ch ip is -> ip = ip' -> dec ch ip' is.
Proof. intros. subst. assumption. Qed.

Local Ltac d_app t := eapply dec_app'; [eapply dec_at; [t|try reflexivity; lenN_norm; lia]| |reflexivity].
Local Ltac d_end t := eapply dec_at; [t|try reflexivity; lenN_norm; lia].
Local Ltac d_one3 := apply dec_one3; reflexivity.
Local Ltac d_one1 := apply dec_one1; reflexivity.

Lemma dec_range : forall ch base is, dec ch base is ->
  forall i, In i is -> base <= iip i /\ iip i < base + lenN ch.
Proof.
  induction 1 as [ip|op h l rest ip is Hk Hl Hd IH|op rest ip is Hk Hl Hd IH]; intros i Hi.
  - contradiction.
  - rewrite !lenN_cons. destruct Hi as [<-|Hi]; [cbn [iip]; lia|]. apply IH in Hi. lia.
  - rewrite !lenN_cons. destruct Hi as [<-|Hi]; [cbn [iip]; lia|]. apply IH in Hi. lia.
Qed.

Lemma dec_known : forall ch base is, dec ch base is -> Forall (fun i => memN (iop i) known_ops = true) is.
Proof. induction 1; constructor; auto. Qed.

(* instruction starts *)
Definition st (is : list instr) (t : N) : Prop := exists i, In i is /\ iip i = t.

Lemma st_nil_iff : forall t, st [] t <-> False.
Proof. intro t. split; [intros (i & [] & _)|contradiction]. Qed.

Lemma st_cons_iff : forall i is t, st (i :: is) t <-> iip i = t \/ st is t.
Proof.
  intros i is t. split.
  - intros (j & [<-|Hj] & E); [left; exact E|right; exists j; auto].
  - intros [E|(j & Hj & E)]; [exists i; split; [left; reflexivity|exact E]|exists j; split; [right; exact Hj|exact E]].
Qed.

Lemma st_app_iff : forall a b t, st (a ++ b) t <-> st a t \/ st b t.
Proof.
  intros a b t. split.
  - intros (j & Hj & E). apply in_app_or in Hj. destruct Hj as [Hj|Hj]; [left|right]; exists j; auto.
  - intros [(j & Hj & E)|(j & Hj & E)]; exists j; split; auto; apply in_or_app; auto.
Qed.

Lemma st_is_start : forall is t, st is t -> is_start is t = true.
Proof.
  intros is t (i & Hi & <-). unfold is_start. apply existsb_exists. exists i. split; [exact Hi|apply N.eqb_refl].
Qed.

Lemma dec_base : forall ch base is, dec ch base is -> st is base \/ (ch = [] /\ is = []).
Proof.
  destruct 1; [right; auto|left|left]; (eexists; split; [left; reflexivity|reflexivity]).
Qed.

Lemma st_range : forall ch base is t, dec ch base is -> st is t -> base <= t /\ t < base + lenN ch.
Proof. intros ch base is t D (i & Hi & <-). eapply dec_range; eassumption. Qed.

Local Ltac st_tac :=
  repeat first [rewrite st_app_iff in * | rewrite st_cons_iff in * | rewrite st_nil_iff in *];
  cbn [iip] in *; intuition (try lia).

(* last instruction *)
Lemma last_some : forall (l : list instr) j d, exists k, last (map Some (j :: l)) d = Some k.
Proof.
  induction l as [|j' l IH]; intros j d.
  - exists j. reflexivity.
  - destruct (IH j' d) as (k & Hk). exists k. cbn [map] in *. exact Hk.
Qed.

Lemma last_instr_cons : forall i is,
  last_instr (i :: is) = match last_instr is with Some j => Some j | None => Some i end.
Proof.
  intros i is. unfold last_instr. destruct is as [|j is']; [reflexivity|].
  destruct (last_some is' j None) as (k & Hk). rewrite Hk.
  cbn [map] in *. exact Hk.
Qed.

Lemma last_instr_snoc : forall is i, last_instr (is ++ [i]) = Some i.
Proof. intros is i. unfold last_instr. rewrite map_app. cbn [map]. apply last_last. Qed.

Lemma last_op_dec : forall code ip is, dec code ip is ->
  forall fuel last, (List.length code < fuel)%nat ->
  last_op fuel code last = match last_instr is with Some i => Some (iop i) | None => last end.
Proof.
  induction 1 as [ip|op h l rest ip is Hk Hl Hd IH|op rest ip is Hk Hl Hd IH]; intros fuel last Hf.
  - destruct fuel; reflexivity.
  - destruct fuel as [|f]; [cbn [List.length] in Hf; lia|]. cbn [last_op]. rewrite Hl.
    change (N.to_nat 3) with 3%nat. cbn [skipn].
    rewrite IH by (cbn [List.length] in Hf; lia). rewrite last_instr_cons.
    destruct (last_instr is); reflexivity.
  - destruct fuel as [|f]; [cbn [List.length] in Hf; lia|]. cbn [last_op]. rewrite Hl.
    change (N.to_nat 1) with 1%nat. cbn [skipn].
    rewrite IH by (cbn [List.length] in Hf; lia). rewrite last_instr_cons.
    destruct (last_instr is); reflexivity.
Qed.

(* ------------------------------------------------------------------ *)
(* PART B: the per-instruction condition, relative to a set G of permitted jump targets *)

Definition iok (cs : list value) (G : N -> Prop) (i : instr) : Prop :=
  ((iop i = OpJump \/ iop i = OpJumpIfFalse) -> G (iarg i)) /\
  (iop i = OpConstant -> iarg i < lenN cs) /\
  ((iop i = OpLookup \/ iop i = OpInc \/ iop i = OpDec) -> exists s, nthN cs (iarg i) = Some (VStr s)).

Lemma iok_weaken : forall cs cs' (G G' : N -> Prop) i,
  (forall t, G t -> G' t) -> pool_extends cs cs' -> iok cs G i -> iok cs' G' i.
Proof.
  intros cs cs' G G' i HG Hpe (H1 & H2 & H3). split; [|split].
  - intro H. apply HG. apply H1. exact H.
  - intro H. apply H2 in H. apply pool_extends_len in Hpe. lia.
  - intro H. destruct (H3 H) as (s & Hs). exists s. eapply pool_extends_nth; eassumption.
Qed.

Lemma Forall_iok_weaken : forall cs cs' (G G' : N -> Prop) is,
  (forall t, G t -> G' t) -> pool_extends cs cs' -> Forall (iok cs G) is -> Forall (iok cs' G') is.
Proof.
  intros cs cs' G G' is HG Hpe H. eapply Forall_impl; [|exact H].
  intros i Hi. eapply iok_weaken; eassumption.
Qed.

Definition special (op : N) : bool := memN op [OpJump; OpJumpIfFalse; OpConstant; OpLookup; OpInc; OpDec].

Lemma iok_plain : forall cs G ip op a l, special op = false -> iok cs G (mkI ip op a l).
Proof.
  intros cs G ip op a l Hs. unfold iok. cbn [iop iarg].
  split; [|split]; intro H; exfalso;
    repeat (destruct H as [H|H]); subst op; vm_compute in Hs; discriminate.
Qed.

Lemma len1_plain : forall op, op_len op = 1 -> special op = false.
Proof.
  intros op H. unfold special. cbn [memN].
  repeat match goal with
  | |- context [op =? ?x] => destruct (N.eqb_spec op x) as [E|_]; [subst op; vm_compute in H; discriminate|]
  end.
  reflexivity.
Qed.


(* the function table: every function whose code fits sixteen-bit operands is sound *)
Definition fn_ok (cs : list value) (code : list N) : Prop :=
  lenN cs <= 65535 -> lenN code <= 65535 -> body_ok cs code /\ ends_in_return code.

Definition FI (cs : list value) (fs : list (str * ufunc)) : Prop :=
  Forall (fun nf => fn_ok cs (fcode (snd nf))) fs.

Lemma instr_ok_mono : forall cs cs' is len i, pool_extends cs cs' -> instr_ok cs is len i -> instr_ok cs' is len i.
Proof.
  intros cs cs' is len i Hpe (H0 & H1 & H2 & H3). split; [exact H0|split; [exact H1|split]].
  - intro H. apply H2 in H. apply pool_extends_len in Hpe. lia.
  - intro H. destruct (H3 H) as (s & Hs). exists s. eapply pool_extends_nth; eassumption.
Qed.

Lemma body_ok_mono : forall cs cs' code, pool_extends cs cs' -> body_ok cs code -> body_ok cs' code.
Proof.
  intros cs cs' code Hpe (is & D & K). exists is. split; [exact D|].
  eapply Forall_impl; [|exact K]. intros i Hi. eapply instr_ok_mono; eassumption.
Qed.

Lemma fn_ok_mono : forall cs cs' code, pool_extends cs cs' -> fn_ok cs code -> fn_ok cs' code.
Proof.
  intros cs cs' code Hpe H Hs Hl. pose proof (pool_extends_len _ _ Hpe) as Hle.
  destruct (H ltac:(lia) Hl) as (B & E). split; [eapply body_ok_mono; eassumption|exact E].
Qed.

Lemma FI_mono : forall cs cs' fs, pool_extends cs cs' -> FI cs fs -> FI cs' fs.
Proof.
  intros cs cs' fs Hpe H. eapply Forall_impl; [|exact H]. intros nf Hnf. eapply fn_ok_mono; eassumption.
Qed.

Lemma FI_set_func : forall cs name fn fs, fn_ok cs (fcode fn) -> FI cs fs -> FI cs (set_func name fn fs).
Proof.
  intros cs name fn fs Hfn. induction fs as [|[n g] fs IH]; intro H.
  - cbn [set_func]. constructor; [exact Hfn|constructor].
  - cbn [set_func]. inversion H as [|x l Hx Hl]; subst. destruct (str_eqb n name).
    + constructor; [exact Hfn|exact Hl].
    + constructor; [exact Hx|apply IH; exact Hl].
Qed.

Definition fpres (c c' : cstate) : Prop := FI (consts c) (funcs c) -> FI (consts c') (funcs c').

Lemma fpres_refl : forall c, fpres c c.
Proof. intros c H. exact H. Qed.
Lemma fpres_trans : forall a b c, fpres a b -> fpres b c -> fpres a c.
Proof. intros a b c H1 H2 H. auto. Qed.
Lemma fpres_emit0' : forall c c1 op, fpres c c1 -> fpres c (emit0 op c1).
Proof. intros c c1 op H. exact H. Qed.
Lemma fpres_emit1' : forall c c1 op v, fpres c c1 -> fpres c (emit1' op v c1).
Proof. intros c c1 op v H. exact H. Qed.
Lemma fpres_patch' : forall c c1 p v, fpres c c1 -> fpres c (patch p v c1).
Proof. intros c c1 p v H. exact H. Qed.
Lemma fpres_patch_all' : forall ps c c1 v, fpres c c1 -> fpres c (patch_all ps v c1).
Proof.
  induction ps as [|p ps IH]; intros c c1 v H; cbn [patch_all]; [exact H|].
  apply IH. apply fpres_patch'. exact H.
Qed.

(* ------------------------------------------------------------------ *)
(* PART C: the constant pool, without the float axiom *)

Lemma find_const_lt : forall v l b i, find_const v l b = Some i -> b <= i /\ i < b + lenN l.
Proof.
  induction l as [|x l IH]; intros b i H; [discriminate|].
  cbn [find_const] in H. rewrite lenN_cons. destruct (const_same x v).
  - injection H as <-. lia.
  - apply IH in H. lia.
Qed.

Lemma const_same_str : forall x s, const_same x (VStr s) = true -> x = VStr s.
Proof.
  intros x s H. destruct x; cbn [const_same] in H; try discriminate.
  apply str_eqb_eq in H. subst. reflexivity.
Qed.

Lemma find_const_str : forall s l pre i,
  find_const (VStr s) l (lenN pre) = Some i -> nthN (pre ++ l) i = Some (VStr s).
Proof.
  induction l as [|x l IH]; intros pre i H; [discriminate|].
  cbn [find_const] in H. destruct (const_same x (VStr s)) eqn:E.
  - injection H as <-. apply const_same_str in E. subst x. apply nthN_app0.
  - specialize (IH (pre ++ [x]) i). rewrite lenN_app in IH.
    change (lenN [x]) with 1 in IH. apply IH in H. rewrite <- app_assoc in H. exact H.
Qed.

Lemma add_const_facts : forall v c i c1, add_const v c = (i, c1) ->
  crev c1 = crev c /\ clen c1 = clen c /\ funcs c1 = funcs c /\
  pool_extends (consts c) (consts c1) /\ i < lenN (consts c1).
Proof.
  intros v c i c1 H. unfold add_const in H. destruct (find_const v (consts c) 0) as [j|] eqn:E.
  - injection H as <- <-. apply find_const_lt in E. repeat split; [apply pool_extends_refl|lia].
  - injection H as <- <-. cbn [crev clen consts funcs]. repeat split.
    + exists [v]. reflexivity.
    + rewrite lenN_app. change (lenN [v]) with 1. lia.
Qed.

Lemma add_const_str : forall s c i c1, add_const (VStr s) c = (i, c1) -> nthN (consts c1) i = Some (VStr s).
Proof.
  intros s c i c1 H. unfold add_const in H. destruct (find_const (VStr s) (consts c) 0) as [j|] eqn:E.
  - injection H as <- <-. apply (find_const_str s (consts c) [] j). exact E.
  - injection H as <- <-. cbn [consts]. apply nthN_app0.
Qed.

Lemma emits_add' : forall op v c i c1, cstate_ok c -> add_const v c = (i, c1) ->
  emits c (emit1' op i c1) [op; hi_byte i; lo_byte i].
Proof.
  intros op v c i c1 Hc H. apply add_const_facts in H. destruct H as (Hr & Hl & _ & Hp & _).
  unfold emits, emit1', emit1, cstate_ok, emitted in *. cbn [snd crev clen consts].
  repeat split.
  - rewrite !lenN_cons. rewrite Hl, Hc, Hr. lia.
  - exact Hp.
  - cbn [rev]. rewrite Hr. rewrite <- !app_assoc. reflexivity.
Qed.

Lemma fpres_add' : forall c c1 c2 op v i, add_const v c1 = (i, c2) -> fpres c c1 -> fpres c (emit1' op i c2).
Proof.
  intros c c1 c2 op v i H F K. apply add_const_facts in H. destruct H as (_ & _ & Hf & Hp & _).
  cbn [emit1' emit1 snd consts funcs]. rewrite Hf. eapply FI_mono; [exact Hp|]. apply F. exact K.
Qed.

Lemma fpres_const' : forall c c1 v, fpres c c1 -> fpres c (emit_const v c1).
Proof.
  intros c c1 v F. unfold emit_const. destruct (add_const v c1) as [i c2] eqn:E.
  eapply fpres_add'; eassumption.
Qed.

Local Ltac fp :=
  repeat first
    [ assumption
    | apply fpres_refl
    | apply fpres_emit0'
    | apply fpres_emit1'
    | apply fpres_patch'
    | apply fpres_patch_all'
    | apply fpres_const'
    | match goal with H : fpres ?a ?b |- fpres _ ?b => apply (fpres_trans _ a b); [|exact H] end ].

(* ------------------------------------------------------------------ *)
(* PART D: closed segments and straight-line composition *)

Definition small (c : cstate) : Prop := lenN (consts c) <= 65535 /\ clen c <= 65535.

(* a closed segment: decodes, and every jump lands on one of its own instruction starts *)
Definition cseg (cs : list value) (base : N) (ch : list N) : Prop :=
  exists is, dec ch base is /\ Forall (iok cs (st is)) is.

Definition Rx (c c' : cstate) : Prop :=
  exists ch, emits c c' ch /\ fpres c c' /\ (small c' -> cseg (consts c') (clen c) ch).

Lemma Rx_ok : forall c c', Rx c c' -> cstate_ok c'.
Proof. intros c c' (ch & E & _). apply E. Qed.

Lemma small_back : forall c c' ch, cstate_ok c -> emits c c' ch -> small c' -> small c.
Proof.
  intros c c' ch Hc E (S1 & S2). pose proof (emits_len _ _ _ Hc E) as L.
  pose proof (pool_extends_len _ _ (emits_pe _ _ _ E)) as P. split; lia.
Qed.

Lemma Rx_refl : forall c, cstate_ok c -> Rx c c.
Proof.
  intros c Hc. exists []. split; [apply emits_refl; exact Hc|split; [apply fpres_refl|]].
  intros _. exists []. split; [apply dec_nil|constructor].
Qed.

Lemma Rx_trans : forall c c1 c2, cstate_ok c -> Rx c c1 -> Rx c1 c2 -> Rx c c2.
Proof.
  intros c c1 c2 Hc (A & E1 & F1 & S1) (B & E2 & F2 & S2).
  assert (Hc1 : cstate_ok c1) by apply E1.
  pose proof (emits_len _ _ _ Hc E1) as L1.
  exists (A ++ B). split; [eapply emits_trans; eassumption|split; [eapply fpres_trans; eassumption|]].
  intros sm2. pose proof (small_back _ _ _ Hc1 E2 sm2) as sm1.
  destruct (S1 sm1) as (is1 & D1 & K1). destruct (S2 sm2) as (is2 & D2 & K2).
  exists (is1 ++ is2). split.
  - eapply dec_app'; [exact D1|exact D2|exact L1].
  - apply Forall_app. split.
    + eapply Forall_iok_weaken; [|exact (emits_pe _ _ _ E2)|exact K1]. intros t Ht. st_tac.
    + eapply Forall_iok_weaken; [|apply pool_extends_refl|exact K2]. intros t Ht. st_tac.
Qed.

Lemma Rx_emit0 : forall op c, cstate_ok c -> memN op known_ops = true -> op_len op = 1 -> Rx c (emit0 op c).
Proof.
  intros op c Hc Hk Hl. exists [op]. split; [apply emits_emit0; exact Hc|split; [fp|]].
  intros _. exists [mkI (clen c) op 0 1]. split; [apply dec_one1; assumption|].
  constructor; [|constructor]. apply iok_plain. apply len1_plain. exact Hl.
Qed.

Lemma Rx_emit1 : forall op v c, cstate_ok c -> memN op known_ops = true -> op_len op = 3 -> special op = false ->
  Rx c (emit1' op v c).
Proof.
  intros op v c Hc Hk Hl Hs. exists [op; hi_byte v; lo_byte v]. split; [apply emits_emit1; exact Hc|split; [fp|]].
  intros _. eexists. split; [apply dec_one3; assumption|].
  constructor; [|constructor]. apply iok_plain. exact Hs.
Qed.

Lemma Rx_add_const : forall v c i c1, cstate_ok c -> add_const v c = (i, c1) -> Rx c (emit1' OpConstant i c1).
Proof.
  intros v c i c1 Hc H. exists [OpConstant; hi_byte i; lo_byte i].
  split; [eapply emits_add'; eassumption|split; [eapply fpres_add'; [exact H|fp]|]].
  intros (S1 & _). cbn [emit1' emit1 snd consts] in *.
  apply add_const_facts in H. destruct H as (_ & _ & _ & _ & Hi).
  eexists. split; [apply dec_one3; reflexivity|].
  constructor; [|constructor]. rewrite hi_lo by lia. unfold iok. cbn [iop iarg].
  split; [|split]; intro K; try exact Hi; exfalso; repeat (destruct K as [K|K]); vm_compute in K; discriminate.
Qed.

Lemma Rx_const : forall v c, cstate_ok c -> Rx c (emit_const v c).
Proof.
  intros v c Hc. unfold emit_const. destruct (add_const v c) as [i c1] eqn:E.
  eapply Rx_add_const; eassumption.
Qed.

Lemma Rx_name : forall op s c i c1, cstate_ok c -> op = OpLookup \/ op = OpInc \/ op = OpDec ->
  add_const (VStr s) c = (i, c1) -> Rx c (emit1' op i c1).
Proof.
  intros op s c i c1 Hc Hop H. exists [op; hi_byte i; lo_byte i].
  split; [eapply emits_add'; eassumption|split; [eapply fpres_add'; [exact H|fp]|]].
  intros (S1 & _). cbn [emit1' emit1 snd consts] in *.
  pose proof (add_const_str _ _ _ _ H) as Hs.
  apply add_const_facts in H. destruct H as (_ & _ & _ & _ & Hi).
  eexists. split; [apply dec_one3; destruct Hop as [->|[->| ->]]; reflexivity|].
  constructor; [|constructor]. rewrite hi_lo by lia. unfold iok. cbn [iop iarg].
  split; [|split]; intro K.
  - exfalso. destruct Hop as [->|[->| ->]]; destruct K as [K|K]; vm_compute in K; discriminate.
  - exfalso. destruct Hop as [->|[->| ->]]; vm_compute in K; discriminate.
  - exists s. exact Hs.
Qed.

Lemma infix_known : forall t o, infix_opcode t = Some o -> memN o known_ops = true /\ op_len o = 1.
Proof. intros t o H. destruct t; cbn [infix_opcode] in H; try discriminate; injection H as <-; split; reflexivity. Qed.

Lemma prefix_known : forall t o, prefix_opcode t = Some o -> memN o known_ops = true /\ op_len o = 1.
Proof. intros t o H. destruct t; cbn [prefix_opcode] in H; try discriminate; injection H as <-; split; reflexivity. Qed.

(* ------------------------------------------------------------------ *)
(* PART E: segments with jumps *)

Local Ltac pe := eauto 7 using pool_extends_trans, pool_extends_refl, emits_pe.

Lemma iok_jump : forall cs (G : N -> Prop) ip op t,
  op = OpJump \/ op = OpJumpIfFalse -> t < 65536 -> G t ->
  iok cs G (mkI ip op (hi_byte t * 256 + lo_byte t) 3).
Proof.
  intros cs G ip op t Hop Ht HG. rewrite hi_lo by exact Ht. unfold iok. cbn [iop iarg].
  split; [intros _; exact HG|split]; intro K; exfalso;
    destruct Hop as [-> | ->]; repeat (destruct K as [K|K]); vm_compute in K; discriminate.
Qed.

Lemma cseg_lift : forall cs cs' base ch, pool_extends cs cs' -> cseg cs base ch -> cseg cs' base ch.
Proof.
  intros cs cs' base ch Hpe (is & D & K). exists is. split; [exact D|].
  eapply Forall_iok_weaken; [|exact Hpe|exact K]. auto.
Qed.

Lemma cseg_at : forall cs base base' ch, cseg cs base ch -> base = base' -> cseg cs base' ch.
Proof. intros. subst. assumption. Qed.

Lemma cseg_nil : forall cs base, cseg cs base [].
Proof. intros. exists []. split; [apply dec_nil|constructor]. Qed.

Local Ltac lift K := eapply Forall_iok_weaken; [|apply pool_extends_refl|exact K]; intros t Ht; st_tac.

Lemma seg_if : forall cs base A B T,
  cseg cs base A -> cseg cs (base + lenN A + 3) B -> T = base + lenN A + 3 + lenN B -> T < 65536 ->
  cseg cs base (A ++ [OpJumpIfFalse; hi_byte T; lo_byte T] ++ B ++ [OpPlaceholder]).
Proof.
  intros cs base A B T (isA & DA & KA) (isB & DB & KB) HT Hlt.
  exists (isA ++ [mkI (base + lenN A) OpJumpIfFalse (hi_byte T * 256 + lo_byte T) 3] ++ isB ++
          [mkI T OpPlaceholder 0 1]).
  split.
  - d_app ltac:(exact DA). d_app d_one3. d_app ltac:(exact DB). d_end d_one1.
  - cbn [app]. apply Forall_app; split; [|constructor; [|apply Forall_app; split; [|constructor; [|constructor]]]].
    + lift KA.
    + apply iok_jump; [right; reflexivity|exact Hlt|]. st_tac.
    + lift KB.
    + apply iok_plain. reflexivity.
Qed.

Lemma seg_if_else : forall cs base A B C T1 T2,
  cseg cs base A -> cseg cs (base + lenN A + 3) B -> cseg cs T1 C ->
  T1 = base + lenN A + 3 + lenN B + 3 -> T2 = T1 + lenN C -> T2 < 65536 ->
  cseg cs base (A ++ [OpJumpIfFalse; hi_byte T1; lo_byte T1] ++ B ++
                [OpJump; hi_byte T2; lo_byte T2] ++ C ++ [OpPlaceholder]).
Proof.
  intros cs base A B C T1 T2 (isA & DA & KA) (isB & DB & KB) (isC & DC & KC) HT1 HT2 Hlt.
  exists (isA ++ [mkI (base + lenN A) OpJumpIfFalse (hi_byte T1 * 256 + lo_byte T1) 3] ++ isB ++
          [mkI (base + lenN A + 3 + lenN B) OpJump (hi_byte T2 * 256 + lo_byte T2) 3] ++ isC ++
          [mkI T2 OpPlaceholder 0 1]).
  split.
  - d_app ltac:(exact DA). d_app d_one3. d_app ltac:(exact DB). d_app d_one3. d_app ltac:(exact DC). d_end d_one1.
  - cbn [app]. apply Forall_app; split; [|constructor; [|apply Forall_app; split;
      [|constructor; [|apply Forall_app; split; [|constructor; [|constructor]]]]]].
    + lift KA.
    + apply iok_jump; [right; reflexivity|lia|].
      destruct (dec_base _ _ _ DC) as [Hs|[-> ->]]; [st_tac|]. rewrite lenN_nil in HT2. st_tac.
    + lift KB.
    + apply iok_jump; [left; reflexivity|exact Hlt|]. st_tac.
    + lift KC.
    + apply iok_plain. reflexivity.
Qed.

Lemma seg_loop : forall cs base A B T,
  cseg cs base A -> cseg cs (base + lenN A + 3) B -> T = base + lenN A + 3 + lenN B + 3 -> T < 65536 ->
  cseg cs base (A ++ [OpJumpIfFalse; hi_byte T; lo_byte T] ++ B ++
                [OpJump; hi_byte base; lo_byte base] ++ [OpPlaceholder]).
Proof.
  intros cs base A B T (isA & DA & KA) (isB & DB & KB) HT Hlt.
  exists (isA ++ [mkI (base + lenN A) OpJumpIfFalse (hi_byte T * 256 + lo_byte T) 3] ++ isB ++
          [mkI (base + lenN A + 3 + lenN B) OpJump (hi_byte base * 256 + lo_byte base) 3] ++
          [mkI T OpPlaceholder 0 1]).
  split.
  - d_app ltac:(exact DA). d_app d_one3. d_app ltac:(exact DB). d_app d_one3. d_end d_one1.
  - cbn [app]. apply Forall_app; split; [|constructor; [|apply Forall_app; split;
      [|constructor; [|constructor; [|constructor]]]]].
    + lift KA.
    + apply iok_jump; [right; reflexivity|exact Hlt|]. st_tac.
    + lift KB.
    + apply iok_jump; [left; reflexivity|lia|].
      destruct (dec_base _ _ _ DA) as [Hs|[-> ->]]; [st_tac|]. rewrite lenN_nil in *. st_tac.
    + apply iok_plain. reflexivity.
Qed.

(* open segments (the arms of a switch): a jump may also leave to the end of the
   segment or to the common exit E *)
Definition oseg (cs : list value) (base : N) (ch : list N) (E : N) : Prop :=
  exists is, dec ch base is /\ Forall (iok cs (fun t => st is t \/ t = base + lenN ch \/ t = E)) is.

Lemma oseg_nil : forall cs base E, oseg cs base [] E.
Proof. intros. exists []. split; [apply dec_nil|constructor]. Qed.

Lemma oseg_lift : forall cs cs' base ch E, pool_extends cs cs' -> oseg cs base ch E -> oseg cs' base ch E.
Proof.
  intros cs cs' base ch E Hpe (is & D & K). exists is. split; [exact D|].
  eapply Forall_iok_weaken; [|exact Hpe|exact K]. auto.
Qed.

Lemma oseg_at : forall cs base base' ch E, oseg cs base ch E -> base = base' -> oseg cs base' ch E.
Proof. intros. subst. assumption. Qed.

Lemma oseg_app : forall cs base a b E,
  oseg cs base a E -> oseg cs (base + lenN a) b E -> oseg cs base (a ++ b) E.
Proof.
  intros cs base a b E (isa & Da & Ka) (isb & Db & Kb).
  exists (isa ++ isb). split; [eapply dec_app'; [exact Da|exact Db|reflexivity]|].
  apply Forall_app; split.
  - eapply Forall_iok_weaken; [|apply pool_extends_refl|exact Ka]. intros t Ht.
    destruct (dec_base _ _ _ Db) as [Hs|[-> ->]].
    + destruct Ht as [Ht|[Ht|Ht]]; [left; st_tac|left; subst t; st_tac|right; right; exact Ht].
    + rewrite !app_nil_r. exact Ht.
  - eapply Forall_iok_weaken; [|apply pool_extends_refl|exact Kb]. intros t Ht.
    destruct Ht as [Ht|[Ht|Ht]]; [left; st_tac|right; left; subst t; pos|right; right; exact Ht].
Qed.

Lemma seg_case_head : forall cs base V X Blk Ln E,
  cseg cs base V -> cseg cs (base + lenN V) X -> cseg cs (base + lenN V + lenN X + 4) Blk ->
  Ln = base + lenN V + lenN X + 4 + lenN Blk + 3 -> Ln < 65536 -> E < 65536 ->
  oseg cs base (V ++ X ++ [OpCase] ++ [OpJumpIfFalse; hi_byte Ln; lo_byte Ln] ++ Blk ++
                [OpJump; hi_byte E; lo_byte E]) E.
Proof.
  intros cs base V X Blk Ln E (isV & DV & KV) (isX & DX & KX) (isB & DB & KB) HLn Hlt HE.
  exists (isV ++ isX ++ [mkI (base + lenN V + lenN X) OpCase 0 1] ++
          [mkI (base + lenN V + lenN X + 1) OpJumpIfFalse (hi_byte Ln * 256 + lo_byte Ln) 3] ++ isB ++
          [mkI (base + lenN V + lenN X + 4 + lenN Blk) OpJump (hi_byte E * 256 + lo_byte E) 3]).
  split.
  - d_app ltac:(exact DV). d_app ltac:(exact DX). d_app d_one1. d_app d_one3. d_app ltac:(exact DB). d_end d_one3.
  - cbn [app]. apply Forall_app; split; [|apply Forall_app; split; [|constructor; [|constructor;
      [|apply Forall_app; split; [|constructor; [|constructor]]]]]].
    + eapply Forall_iok_weaken; [|apply pool_extends_refl|exact KV]. intros t Ht. left. st_tac.
    + eapply Forall_iok_weaken; [|apply pool_extends_refl|exact KX]. intros t Ht. left. st_tac.
    + apply iok_plain. reflexivity.
    + apply iok_jump; [right; reflexivity|exact Hlt|]. right; left. pos.
    + eapply Forall_iok_weaken; [|apply pool_extends_refl|exact KB]. intros t Ht. left. st_tac.
    + apply iok_jump; [left; reflexivity|exact HE|]. right; right; reflexivity.
Qed.

Lemma seg_switch : forall cs base g D E,
  oseg cs base g E -> cseg cs (base + lenN g) D -> E = base + lenN g + lenN D ->
  cseg cs base (g ++ D ++ [OpPlaceholder]).
Proof.
  intros cs base g D E (isg & Dg & Kg) (isD & DD & KD) HE.
  exists (isg ++ isD ++ [mkI E OpPlaceholder 0 1]). split.
  - d_app ltac:(exact Dg). d_app ltac:(exact DD). d_end d_one1.
  - apply Forall_app; split; [|apply Forall_app; split; [|constructor; [|constructor]]].
    + eapply Forall_iok_weaken; [|apply pool_extends_refl|exact Kg]. intros t Ht.
      destruct Ht as [Ht|[Ht|Ht]]; [st_tac| |subst t; st_tac].
      destruct (dec_base _ _ _ DD) as [Hs|[-> ->]]; [subst t; st_tac|].
      rewrite lenN_nil in HE. subst t. st_tac.
    + lift KD.
    + apply iok_plain. reflexivity.
Qed.

(* ------------------------------------------------------------------ *)
(* PART E2: the control constructs, at the level of compiler states *)

Lemma sc_if_none : forall c c1 c3, cstate_ok c -> Rx c c1 -> Rx (emit1' OpJumpIfFalse 9999 c1) c3 ->
  Rx c (emit0 OpPlaceholder (patch (clen c1) (clen c3) c3)).
Proof.
  intros c c1 c3 Hc (A & E1 & F1 & S1) (B & E3 & F3 & S3).
  assert (Hc1 : cstate_ok c1) by apply E1.
  pose proof (emits_emit1 OpJumpIfFalse 9999 c1 Hc1) as E2.
  set (c2 := emit1' OpJumpIfFalse 9999 c1) in *.
  assert (Hc2 : cstate_ok c2) by apply E2.
  pose proof (emits_len _ _ _ Hc E1) as L1.
  pose proof (emits_len _ _ _ Hc1 E2) as L2.
  pose proof (emits_len _ _ _ Hc2 E3) as L3.
  change (lenN [OpJumpIfFalse; hi_byte 9999; lo_byte 9999]) with 3 in L2.
  assert (E13 : emits c c3 (A ++ OpJumpIfFalse :: hi_byte 9999 :: lo_byte 9999 :: B)).
  { eapply emits_eq; [eapply emits_trans; [exact E1|eapply emits_trans; [exact E2|exact E3]]|leq]. }
  set (T := clen c3) in *.
  destruct (patch_emits c c3 A _ _ _ B (clen c1) T Hc E13 L1) as (E4 & L4 & CS4).
  set (c4 := patch (clen c1) T c3) in *.
  assert (Hc4 : cstate_ok c4) by apply E4.
  exists (A ++ [OpJumpIfFalse; hi_byte T; lo_byte T] ++ B ++ [OpPlaceholder]). split; [|split].
  - eapply emits_eq; [eapply emits_trans; [exact E4|apply emits_emit0; exact Hc4]|leq].
  - unfold c4, c2 in *. fp.
  - intros (sm & sl). cbn [emit0 consts clen] in sm, sl |- *. rewrite CS4 in *.
    assert (sm3 : small c3) by (split; [exact sm|lia]).
    assert (sm1 : small c1).
    { eapply small_back; [exact Hc1|eapply emits_trans; [exact E2|exact E3]|exact sm3]. }
    apply seg_if.
    + eapply cseg_lift; [|exact (S1 sm1)]. pe.
    + eapply cseg_at; [exact (S3 sm3)|lia].
    + lia.
    + lia.
Qed.

Lemma sc_if_else : forall c c1 c3 c7, cstate_ok c -> Rx c c1 -> Rx (emit1' OpJumpIfFalse 9999 c1) c3 ->
  let c4 := patch (clen c1) (clen c3) c3 in
  let c5 := emit1' OpJump 9999 c4 in
  let c6 := patch (clen c1) (clen c5) c5 in
  Rx c6 c7 -> Rx c (emit0 OpPlaceholder (patch (clen c4) (clen c7) c7)).
Proof.
  intros c c1 c3 c7 Hc (code1 & E1 & F1 & S1) (code3 & E3 & F3 & S3) c4 c5 c6 (code7 & E7 & F7 & S7).
  assert (Hc1 : cstate_ok c1) by apply E1.
  pose proof (emits_emit1 OpJumpIfFalse 9999 c1 Hc1) as E2.
  set (c2 := emit1' OpJumpIfFalse 9999 c1) in *.
  assert (Hc2 : cstate_ok c2) by apply E2.
  pose proof (emits_len _ _ _ Hc E1) as L1.
  pose proof (emits_len _ _ _ Hc1 E2) as L2.
  pose proof (emits_len _ _ _ Hc2 E3) as L3.
  assert (E13 : emits c c3 (code1 ++ OpJumpIfFalse :: hi_byte 9999 :: lo_byte 9999 :: code3)).
  { eapply emits_eq; [eapply emits_trans; [exact E1|eapply emits_trans; [exact E2|exact E3]]|leq]. }
  destruct (patch_emits c c3 code1 _ _ _ code3 (clen c1) (clen c3) Hc E13 L1) as (E4 & L4 & CS4).
  fold c4 in E4, L4, CS4.
  assert (Hc4 : cstate_ok c4) by apply E4.
  pose proof (emits_emit1 OpJump 9999 c4 Hc4) as E5. fold c5 in E5.
  assert (Hc5 : cstate_ok c5) by apply E5.
  pose proof (emits_len _ _ _ Hc4 E5) as L5.
  set (T1 := clen c5) in *.
  assert (E15 : emits c c5 (code1 ++ OpJumpIfFalse :: hi_byte (clen c3) :: lo_byte (clen c3) ::
                              (code3 ++ [OpJump; hi_byte 9999; lo_byte 9999]))).
  { eapply emits_eq; [eapply emits_trans; [exact E4|exact E5]|leq]. }
  destruct (patch_emits c c5 code1 _ _ _ _ (clen c1) T1 Hc E15 L1) as (E6 & L6 & CS6).
  fold c6 in E6, L6, CS6.
  assert (Hc6 : cstate_ok c6) by apply E6.
  pose proof (emits_len _ _ _ Hc6 E7) as L7.
  set (T2 := clen c7) in *.
  assert (E17 : emits c c7 ((code1 ++ [OpJumpIfFalse; hi_byte T1; lo_byte T1] ++ code3) ++
                            OpJump :: hi_byte 9999 :: lo_byte 9999 :: code7)).
  { eapply emits_eq; [eapply emits_trans; [exact E6|exact E7]|leq]. }
  change (lenN [OpJumpIfFalse; hi_byte 9999; lo_byte 9999]) with 3 in *.
  change (lenN [OpJump; hi_byte 9999; lo_byte 9999]) with 3 in *.
  destruct (patch_emits c c7 _ _ _ _ code7 (clen c4) T2 Hc E17) as (E8 & L8 & CS8).
  { rewrite L4, L3, L2, L1. pos. }
  set (c8 := patch (clen c4) T2 c7) in *.
  assert (Hc8 : cstate_ok c8) by apply E8.
  exists (code1 ++ [OpJumpIfFalse; hi_byte T1; lo_byte T1] ++ code3 ++
          [OpJump; hi_byte T2; lo_byte T2] ++ code7 ++ [OpPlaceholder]). split; [|split].
  - eapply emits_eq; [eapply emits_trans; [exact E8|apply emits_emit0; exact Hc8]|leq].
  - unfold c8, c6, c5, c4, c2 in *. fp.
  - intros (sm & sl). cbn [emit0 consts clen] in sm, sl |- *. rewrite CS8 in *.
    assert (P3 : pool_extends (consts c3) (consts c7)).
    { rewrite <- CS4. change (consts c4) with (consts c5). rewrite <- CS6. pe. }
    assert (sm7 : small c7) by (split; [exact sm|lia]).
    assert (sm3 : small c3).
    { split; [apply pool_extends_len in P3; lia|lia]. }
    assert (sm1 : small c1).
    { eapply small_back; [exact Hc1|eapply emits_trans; [exact E2|exact E3]|exact sm3]. }
    apply seg_if_else.
    + eapply cseg_lift; [|exact (S1 sm1)]. pe.
    + eapply cseg_at; [eapply cseg_lift; [exact P3|exact (S3 sm3)]|lia].
    + eapply cseg_at; [exact (S7 sm7)|lia].
    + lia.
    + lia.
    + lia.
Qed.

Lemma sc_ternary : forall c c1 c3 c6, cstate_ok c -> Rx c c1 -> Rx (emit1' OpJumpIfFalse 9999 c1) c3 ->
  let c4 := emit1' OpJump 9999 c3 in
  let c5 := patch (clen c1) (clen c4) c4 in
  Rx c5 c6 -> Rx c (emit0 OpPlaceholder (patch (clen c3) (clen c6) c6)).
Proof.
  intros c c1 c3 c6 Hc (code1 & E1 & F1 & S1) (code3 & E3 & F3 & S3) c4 c5 (code6 & E6 & F6 & S6).
  assert (Hc1 : cstate_ok c1) by apply E1.
  pose proof (emits_emit1 OpJumpIfFalse 9999 c1 Hc1) as E2.
  set (c2 := emit1' OpJumpIfFalse 9999 c1) in *.
  assert (Hc2 : cstate_ok c2) by apply E2.
  assert (Hc3 : cstate_ok c3) by apply E3.
  pose proof (emits_len _ _ _ Hc E1) as L1.
  pose proof (emits_len _ _ _ Hc1 E2) as L2.
  pose proof (emits_len _ _ _ Hc2 E3) as L3.
  pose proof (emits_emit1 OpJump 9999 c3 Hc3) as E4. fold c4 in E4.
  assert (Hc4 : cstate_ok c4) by apply E4.
  pose proof (emits_len _ _ _ Hc3 E4) as L4.
  set (T1 := clen c4) in *.
  assert (E14 : emits c c4 (code1 ++ OpJumpIfFalse :: hi_byte 9999 :: lo_byte 9999 ::
                              (code3 ++ [OpJump; hi_byte 9999; lo_byte 9999]))).
  { eapply emits_eq; [eapply emits_trans; [exact E1|eapply emits_trans; [exact E2|
      eapply emits_trans; [exact E3|exact E4]]]|leq]. }
  destruct (patch_emits c c4 code1 _ _ _ _ (clen c1) T1 Hc E14 L1) as (E5 & L5 & CS5).
  fold c5 in E5, L5, CS5.
  assert (Hc5 : cstate_ok c5) by apply E5.
  pose proof (emits_len _ _ _ Hc5 E6) as L6.
  set (T2 := clen c6) in *.
  assert (E16 : emits c c6 ((code1 ++ [OpJumpIfFalse; hi_byte T1; lo_byte T1] ++ code3) ++
                            OpJump :: hi_byte 9999 :: lo_byte 9999 :: code6)).
  { eapply emits_eq; [eapply emits_trans; [exact E5|exact E6]|leq]. }
  change (lenN [OpJumpIfFalse; hi_byte 9999; lo_byte 9999]) with 3 in *.
  change (lenN [OpJump; hi_byte 9999; lo_byte 9999]) with 3 in *.
  destruct (patch_emits c c6 _ _ _ _ code6 (clen c3) T2 Hc E16) as (E7 & L7 & CS7).
  { rewrite L3, L2, L1. pos. }
  set (c7 := patch (clen c3) T2 c6) in *.
  assert (Hc7 : cstate_ok c7) by apply E7.
  exists (code1 ++ [OpJumpIfFalse; hi_byte T1; lo_byte T1] ++ code3 ++
          [OpJump; hi_byte T2; lo_byte T2] ++ code6 ++ [OpPlaceholder]). split; [|split].
  - eapply emits_eq; [eapply emits_trans; [exact E7|apply emits_emit0; exact Hc7]|leq].
  - unfold c7, c5, c4, c2 in *. fp.
  - intros (sm & sl). cbn [emit0 consts clen] in sm, sl |- *. rewrite CS7 in *.
    assert (P3 : pool_extends (consts c3) (consts c6)).
    { change (consts c3) with (consts c4). rewrite <- CS5. pe. }
    assert (sm6 : small c6) by (split; [exact sm|lia]).
    assert (sm3 : small c3).
    { split; [apply pool_extends_len in P3; lia|lia]. }
    assert (sm1 : small c1).
    { eapply small_back; [exact Hc1|eapply emits_trans; [exact E2|exact E3]|exact sm3]. }
    apply seg_if_else.
    + eapply cseg_lift; [|exact (S1 sm1)]. pe.
    + eapply cseg_at; [eapply cseg_lift; [exact P3|exact (S3 sm3)]|lia].
    + eapply cseg_at; [exact (S6 sm6)|lia].
    + lia.
    + lia.
    + lia.
Qed.

Lemma sc_loop : forall ca cb c6, cstate_ok ca -> Rx ca cb -> Rx (emit1' OpJumpIfFalse 9999 cb) c6 ->
  let c7 := emit1' OpJump (clen ca) c6 in
  Rx ca (emit0 OpPlaceholder (patch (clen cb) (clen c7) c7)).
Proof.
  intros c c1 c3 Hc (code1 & E1 & F1 & S1) (code3 & E3 & F3 & S3) c4.
  assert (Hc1 : cstate_ok c1) by apply E1.
  pose proof (emits_emit1 OpJumpIfFalse 9999 c1 Hc1) as E2.
  set (c2 := emit1' OpJumpIfFalse 9999 c1) in *.
  assert (Hc2 : cstate_ok c2) by apply E2.
  assert (Hc3 : cstate_ok c3) by apply E3.
  pose proof (emits_len _ _ _ Hc E1) as L1.
  pose proof (emits_len _ _ _ Hc1 E2) as L2.
  pose proof (emits_len _ _ _ Hc2 E3) as L3.
  pose proof (emits_emit1 OpJump (clen c) c3 Hc3) as E4. fold c4 in E4.
  assert (Hc4 : cstate_ok c4) by apply E4.
  pose proof (emits_len _ _ _ Hc3 E4) as L4.
  set (T := clen c4) in *. set (S0 := clen c) in *.
  assert (E14 : emits c c4 (code1 ++ OpJumpIfFalse :: hi_byte 9999 :: lo_byte 9999 ::
                              (code3 ++ [OpJump; hi_byte S0; lo_byte S0]))).
  { eapply emits_eq; [eapply emits_trans; [exact E1|eapply emits_trans; [exact E2|
      eapply emits_trans; [exact E3|exact E4]]]|leq]. }
  destruct (patch_emits c c4 code1 _ _ _ _ (clen c1) T Hc E14 L1) as (E5 & L5 & CS5).
  set (c5 := patch (clen c1) T c4) in *.
  assert (Hc5 : cstate_ok c5) by apply E5.
  change (lenN [OpJumpIfFalse; hi_byte 9999; lo_byte 9999]) with 3 in *.
  change (lenN [OpJump; hi_byte S0; lo_byte S0]) with 3 in *.
  exists (code1 ++ [OpJumpIfFalse; hi_byte T; lo_byte T] ++ code3 ++
          [OpJump; hi_byte S0; lo_byte S0] ++ [OpPlaceholder]). split; [|split].
  - eapply emits_eq; [eapply emits_trans; [exact E5|apply emits_emit0; exact Hc5]|leq].
  - unfold c5, c4, c2 in *. fp.
  - intros (sm & sl). cbn [emit0 consts clen] in sm, sl |- *. rewrite CS5 in *.
    change (consts c4) with (consts c3) in *.
    assert (sm3 : small c3) by (split; [exact sm|lia]).
    assert (sm1 : small c1).
    { eapply small_back; [exact Hc1|eapply emits_trans; [exact E2|exact E3]|exact sm3]. }
    apply seg_loop.
    + eapply cseg_lift; [|exact (S1 sm1)]. pe.
    + eapply cseg_at; [exact (S3 sm3)|lia].
    + lia.
    + lia.
Qed.

(* ------------------------------------------------------------------ *)
(* PART F: switch *)

Definition Rce (c c' : cstate) (patches po : list N) : Prop :=
  exists new g, po = patches ++ new /\ (forall E, lenN (g E) = lenN (g 0)) /\
    emits c c' (g 9999) /\ patchable new (clen c) g /\ fpres c c' /\
    (forall E, small c' -> E < 65536 -> oseg (consts c') (clen c) (g E) E).

Lemma Rce_ok : forall c c' p po, Rce c c' p po -> cstate_ok c'.
Proof. intros c c' p po (new & g & _ & _ & E & _). apply E. Qed.

Lemma Rce_nil : forall c patches, cstate_ok c -> Rce c c patches patches.
Proof.
  intros c patches Hc. exists [], (fun _ => []).
  split; [symmetry; apply app_nil_r|split; [reflexivity|split; [|split; [|split]]]].
  - apply emits_refl. exact Hc.
  - apply patchable_nil.
  - apply fpres_refl.
  - intros. apply oseg_nil.
Qed.

Lemma Rce_trans : forall c c1 c' patches p1 po, cstate_ok c ->
  Rce c c1 patches p1 -> Rce c1 c' p1 po -> Rce c c' patches po.
Proof.
  intros c c1 c' patches p1 po Hc (new1 & g1 & Hp1 & Hl1 & Em1 & Pat1 & F1 & Sem1)
         (new2 & g2 & Hp2 & Hl2 & Em2 & Pat2 & F2 & Sem2).
  assert (Hc1 : cstate_ok c1) by apply Em1.
  pose proof (emits_len _ _ _ Hc Em1) as L1.
  exists (new1 ++ new2), (fun E => g1 E ++ g2 E).
  split; [rewrite Hp2, Hp1; leq|split; [|split; [|split; [|split]]]].
  - intro E. rewrite !lenN_app, (Hl1 E), (Hl2 E). reflexivity.
  - eapply emits_trans; eassumption.
  - apply patchable_app; [exact Hl1|exact Pat1|].
    replace (clen c + lenN (g1 0)) with (clen c1) by (rewrite <- (Hl1 9999); lia). exact Pat2.
  - eapply fpres_trans; eassumption.
  - intros E sm HE. pose proof (small_back _ _ _ Hc1 Em2 sm) as sm1.
    apply oseg_app.
    + eapply oseg_lift; [exact (emits_pe _ _ _ Em2)|]. apply Sem1; assumption.
    + eapply oseg_at; [apply Sem2; assumption|]. rewrite (Hl1 E), <- (Hl1 9999). lia.
Qed.

Lemma sc_case_exprs_cons : forall patches po c c1 c2 c5 c',
  cstate_ok c -> Rx c c1 -> Rx c1 c2 ->
  let c3 := emit0 OpCase c2 in
  let c4 := emit1' OpJumpIfFalse 9999 c3 in
  Rx c4 c5 ->
  let c6 := emit1' OpJump 9999 c5 in
  let c7 := patch (clen c3) (clen c6) c6 in
  Rce c7 c' (patches ++ [clen c5]) po ->
  Rce c c' patches po.
Proof.
  intros patches po c c1 c2 c5 c' Hc (codeV & E1 & F1 & S1) (codeE & E2 & F2 & S2)
         c3 c4 (codeB & E5 & F5 & S5) c6 c7 R7.
  assert (Hc1 : cstate_ok c1) by apply E1.
  assert (Hc2 : cstate_ok c2) by apply E2.
  pose proof (emits_emit0 OpCase c2 Hc2) as E3. fold c3 in E3.
  assert (Hc3 : cstate_ok c3) by apply E3.
  pose proof (emits_emit1 OpJumpIfFalse 9999 c3 Hc3) as E4. fold c4 in E4.
  assert (Hc4 : cstate_ok c4) by apply E4.
  assert (Hc5 : cstate_ok c5) by apply E5.
  pose proof (emits_emit1 OpJump 9999 c5 Hc5) as E6. fold c6 in E6.
  assert (Hc6 : cstate_ok c6) by apply E6.
  pose proof (emits_len _ _ _ Hc E1) as L1.
  pose proof (emits_len _ _ _ Hc1 E2) as L2.
  pose proof (emits_len _ _ _ Hc2 E3) as L3.
  pose proof (emits_len _ _ _ Hc3 E4) as L4.
  pose proof (emits_len _ _ _ Hc4 E5) as L5.
  pose proof (emits_len _ _ _ Hc5 E6) as L6.
  set (Ln := clen c6) in *.
  set (pre3 := codeV ++ codeE ++ [OpCase]).
  assert (E13 : emits c c3 pre3).
  { eapply emits_eq; [eapply emits_trans; [exact E1|eapply emits_trans; [exact E2|exact E3]]|unfold pre3; leq]. }
  pose proof (emits_len _ _ _ Hc E13) as L13.
  assert (E16 : emits c c6 (pre3 ++ OpJumpIfFalse :: hi_byte 9999 :: lo_byte 9999 ::
                              (codeB ++ [OpJump; hi_byte 9999; lo_byte 9999]))).
  { eapply emits_eq; [eapply emits_trans; [exact E13|eapply emits_trans; [exact E4|
      eapply emits_trans; [exact E5|exact E6]]]|leq]. }
  destruct (patch_emits c c6 pre3 _ _ _ _ (clen c3) Ln Hc E16 L13) as (E7 & L7 & CS7).
  fold c7 in E7, L7, CS7.
  assert (Hc7 : cstate_ok c7) by apply E7.
  set (a := pre3 ++ [OpJumpIfFalse; hi_byte Ln; lo_byte Ln] ++ codeB).
  set (A := fun E : N => codeV ++ codeE ++ [OpCase] ++ [OpJumpIfFalse; hi_byte Ln; lo_byte Ln] ++ codeB ++
                         [OpJump; hi_byte E; lo_byte E]).
  change (lenN [OpCase]) with 1 in *.
  change (lenN [OpJumpIfFalse; hi_byte 9999; lo_byte 9999]) with 3 in *.
  change (lenN [OpJump; hi_byte 9999; lo_byte 9999]) with 3 in *.
  assert (La : lenN a = lenN codeV + lenN codeE + 1 + 3 + lenN codeB) by (unfold a, pre3; pos).
  assert (LA : forall E, lenN (A E) = lenN a + 3) by (intro E; rewrite La; unfold A; pos).
  assert (Hp5 : clen c5 = clen c + lenN a) by (unfold pre3 in L13; lenN_norm; lia).
  assert (R1 : Rce c c7 patches (patches ++ [clen c5])).
  { exists [clen c5], A. split; [reflexivity|split; [|split; [|split; [|split]]]].
    - intro E. rewrite !LA. reflexivity.
    - eapply emits_eq; [exact E7|unfold A, pre3; leq].
    - rewrite Hp5. eapply patchable_ext; [|apply (patchable_one (clen c) a [])].
      intro E. unfold A, a, pre3. leq.
    - unfold c7, c6, c4, c3 in *. fp.
    - intros E (sm & sl) HE. rewrite CS7 in sm. change (consts c6) with (consts c5) in sm.
      assert (sm5 : small c5) by (split; [exact sm|lia]).
      assert (P2 : pool_extends (consts c2) (consts c5)).
      { change (consts c2) with (consts c4). pe. }
      assert (sm2 : small c2).
      { split; [apply pool_extends_len in P2; lia|lia]. }
      pose proof (small_back _ _ _ Hc1 E2 sm2) as sm1.
      rewrite CS7. change (consts c6) with (consts c5).
      unfold A. apply seg_case_head.
      + eapply cseg_lift; [|exact (S1 sm1)]. pe.
      + eapply cseg_at; [eapply cseg_lift; [exact P2|exact (S2 sm2)]|lia].
      + eapply cseg_at; [exact (S5 sm5)|lia].
      + lia.
      + lia.
      + exact HE. }
  eapply Rce_trans; [exact Hc|exact R1|exact R7].
Qed.

Lemma sc_switch : forall c c1 c2 ps, cstate_ok c -> Rce c c1 [] ps -> Rx c1 c2 ->
  Rx c (emit0 OpPlaceholder (patch_all ps (clen c2) c2)).
Proof.
  intros c c1 c2 ps Hc (new & g & Hps & Hl & Em & Pat & Fc & Sem) (codeD & ED & FD & SD).
  cbn [app] in Hps. subst new.
  assert (Hc1 : cstate_ok c1) by apply Em.
  pose proof (emits_len _ _ _ Hc Em) as L1.
  pose proof (emits_len _ _ _ Hc1 ED) as L2.
  set (E := clen c2) in *.
  destruct (Pat E c c2 [] codeD Hc) as (E3 & L3 & CS3).
  { eapply emits_eq; [eapply emits_trans; [exact Em|exact ED]|leq]. }
  { pos. }
  cbn [app] in E3.
  set (c3 := patch_all ps E c2) in *.
  assert (Hc3 : cstate_ok c3) by apply E3.
  exists (g E ++ codeD ++ [OpPlaceholder]). split; [|split].
  - eapply emits_eq; [eapply emits_trans; [exact E3|apply emits_emit0; exact Hc3]|leq].
  - unfold c3. fp.
  - intros (sm & sl). cbn [emit0 consts clen] in sm, sl |- *. rewrite CS3 in *.
    assert (sm2 : small c2) by (split; [exact sm|lia]).
    pose proof (small_back _ _ _ Hc1 ED sm2) as sm1.
    assert (HE : E = clen c + lenN (g E) + lenN codeD) by (rewrite (Hl E), <- (Hl 9999); lia).
    apply seg_switch with (E := E).
    + eapply oseg_lift; [exact (emits_pe _ _ _ ED)|]. apply Sem; [exact sm1|lia].
    + eapply cseg_at; [exact (SD sm2)|]. rewrite (Hl E), <- (Hl 9999). lia.
    + exact HE.
Qed.

(* ------------------------------------------------------------------ *)
(* PART G: function definitions *)

Lemma seg_body : forall cs code is, dec code 0 is -> Forall (iok cs (st is)) is ->
  decode (S (List.length code)) code 0 [] = (VOk, is) /\ Forall (instr_ok cs is (lenN code)) is.
Proof.
  intros cs code is D K. split.
  - apply (dec_decode _ _ _ D (S (List.length code)) []). lia.
  - pose proof (dec_known _ _ _ D) as Kn. rewrite Forall_forall in *. intros i Hi.
    destruct (K i Hi) as (H1 & H2 & H3). split; [exact (Kn i Hi)|split; [|split; [exact H2|exact H3]]].
    intro J. specialize (H1 J). split; [apply st_is_start; exact H1|].
    destruct (st_range _ _ _ _ D H1) as (_ & Hlt). lia.
Qed.

Lemma sc_function : forall name params c c1, cstate_ok c ->
  Rx (mkC [] 0 (consts c) (funcs c)) c1 ->
  let code1 := rev (crev c1) in
  let c2 := match last_op (S (List.length code1)) code1 None with
            | Some op => if op =? OpReturn then c1 else emit0 OpReturn (emit0 OpVoid c1)
            | None => emit0 OpReturn (emit0 OpVoid c1)
            end in
  Rx c (mkC (crev c) (clen c) (consts c2) (set_func name (mkUfunc params (rev (crev c2))) (funcs c2))).
Proof.
  intros name params c c1 Hc (A & E1 & F1 & S1) code1 c2.
  set (c0 := mkC [] 0 (consts c) (funcs c)) in *.
  assert (Hc0 : cstate_ok c0) by reflexivity.
  assert (Hc1 : cstate_ok c1) by apply E1.
  pose proof (emits_len _ _ _ Hc0 E1) as L1. cbn [c0 clen] in L1.
  assert (HA : code1 = A).
  { destruct E1 as (_ & _ & Em). unfold emitted in Em. cbn [c0 crev rev app] in Em. exact Em. }
  assert (Hcs : consts c2 = consts c1).
  { unfold c2. destruct (last_op _ code1 None) as [op|]; [destruct (op =? OpReturn)|]; reflexivity. }
  assert (Hfs : funcs c2 = funcs c1).
  { unfold c2. destruct (last_op _ code1 None) as [op|]; [destruct (op =? OpReturn)|]; reflexivity. }
  assert (Hfn : fn_ok (consts c1) (rev (crev c2))).
  { intros Hs Hl.
    assert (Hlen : lenN A <= lenN (rev (crev c2))).
    { unfold c2. destruct (last_op _ code1 None) as [op|]; [destruct (op =? OpReturn)|];
        cbn [emit0 crev rev]; fold code1; rewrite HA; pos. }
    assert (sm : small c1) by (split; [exact Hs|lia]).
    destruct (S1 sm) as (isA & DA & KA). cbn [c0 clen] in DA.
    pose proof (last_op_dec _ _ _ DA (S (List.length A)) None (Nat.lt_succ_diag_r _)) as Hlo.
    assert (Happ : forall isV, isV = [mkI (lenN A) OpVoid 0 1; mkI (lenN A + 1) OpReturn 0 1] ->
              body_ok (consts c1) (A ++ [OpVoid; OpReturn]) /\ ends_in_return (A ++ [OpVoid; OpReturn])).
    { intros isV HV.
      assert (D : dec (A ++ [OpVoid; OpReturn]) 0 (isA ++ isV)).
      { subst isV. d_app ltac:(exact DA). apply dec_1; [reflexivity|reflexivity|]. d_end d_one1. }
      assert (K : Forall (iok (consts c1) (st (isA ++ isV))) (isA ++ isV)).
      { apply Forall_app; split; [lift KA|]. subst isV.
        constructor; [apply iok_plain; reflexivity|constructor; [apply iok_plain; reflexivity|constructor]]. }
      destruct (seg_body _ _ _ D K) as (Hd & Hi). split.
      - exists (isA ++ isV). split; assumption.
      - exists (isA ++ isV), (mkI (lenN A + 1) OpReturn 0 1). split; [exact Hd|split; [|reflexivity]].
        subst isV. change (isA ++ [mkI (lenN A) OpVoid 0 1; mkI (lenN A + 1) OpReturn 0 1])
          with (isA ++ [mkI (lenN A) OpVoid 0 1] ++ [mkI (lenN A + 1) OpReturn 0 1]).
        rewrite app_assoc. apply last_instr_snoc. }
    unfold c2 in *. fold code1 in Hlo. rewrite HA in *. rewrite Hlo.
    destruct (last_instr isA) as [i|] eqn:Eli.
    - destruct (N.eqb_spec (iop i) OpReturn) as [Er|Er].
      + fold code1. rewrite HA.
        destruct (seg_body _ _ _ DA KA) as (Hd & Hi). split.
        * exists isA. split; assumption.
        * exists isA, i. split; [exact Hd|split; [exact Eli|exact Er]].
      + cbn [emit0 crev rev]. fold code1. rewrite HA. rewrite <- app_assoc. cbn [app].
        eapply Happ. reflexivity.
    - cbn [emit0 crev rev]. fold code1. rewrite HA. rewrite <- app_assoc. cbn [app].
      eapply Happ. reflexivity. }
  exists []. split; [|split].
  - split; [exact Hc|split].
    + cbn [consts]. rewrite Hcs. exact (emits_pe _ _ _ E1).
    + unfold emitted. cbn [crev]. symmetry. apply app_nil_r.
  - intro K. cbn [consts funcs]. rewrite Hcs, Hfs. apply FI_set_func; [exact Hfn|]. apply F1. exact K.
  - intros _. apply cseg_nil.
Qed.

Lemma compile_function_inv' : forall f name params body c c',
  compile_expr (S f) (EFunction name params body) c = COk tt c' ->
  exists c1, compile_block f body (mkC [] 0 (consts c) (funcs c)) = COk tt c1 /\
    c' = (let code1 := rev (crev c1) in
          let c2 := match last_op (S (List.length code1)) code1 None with
                    | Some op => if op =? OpReturn then c1 else emit0 OpReturn (emit0 OpVoid c1)
                    | None => emit0 OpReturn (emit0 OpVoid c1)
                    end in
          mkC (crev c) (clen c) (consts c2) (set_func name (mkUfunc params (rev (crev c2))) (funcs c2))).
Proof.
  intros f name params body c c' H.
  assert (Heq : compile_expr (S f) (EFunction name params body) c =
    cbind (compile_block f body (mkC [] 0 (consts c) (funcs c))) (fun _ c1 =>
      let code1 := rev (crev c1) in
      let c2 := match last_op (S (List.length code1)) code1 None with
                | Some op => if op =? OpReturn then c1 else emit0 OpReturn (emit0 OpVoid c1)
                | None => emit0 OpReturn (emit0 OpVoid c1)
                end in
      COk tt (mkC (crev c) (clen c) (consts c2) (set_func name (mkUfunc params (rev (crev c2))) (funcs c2)))))
    by reflexivity.
  rewrite Heq in H. clear Heq.
  destruct (compile_block f body _) as [[] c1| | |] eqn:E1 in H; try discriminate. cbn [cbind] in H.
  cbv zeta in H. injection H as <-.
  exists c1. split; [exact E1|reflexivity].
Qed.

(* ------------------------------------------------------------------ *)
(* PART H: the induction on the compiler's fuel *)

Definition SP_expr (fuel : nat) : Prop := forall e c c',
  cstate_ok c -> compile_expr fuel e c = COk tt c' -> Rx c c'.
Definition SP_exprs (fuel : nat) : Prop := forall l c c',
  cstate_ok c -> compile_exprs fuel l c = COk tt c' -> Rx c c'.
Definition SP_pairs (fuel : nat) : Prop := forall l c c',
  cstate_ok c -> compile_pairs fuel l c = COk tt c' -> Rx c c'.
Definition SP_stmt (fuel : nat) : Prop := forall s c c',
  cstate_ok c -> compile_stmt fuel s c = COk tt c' -> Rx c c'.
Definition SP_block (fuel : nat) : Prop := forall b c c',
  cstate_ok c -> compile_block fuel b c = COk tt c' -> Rx c c'.
Definition SP_case_exprs (fuel : nat) : Prop := forall v es blk patches c po c',
  cstate_ok c -> compile_case_exprs fuel v es blk patches c = COk po c' -> Rce c c' patches po.
Definition SP_cases (fuel : nat) : Prop := forall v chs patches c po c',
  cstate_ok c -> compile_cases fuel v chs patches c = COk po c' -> Rce c c' patches po.
Definition SP_defaults (fuel : nat) : Prop := forall chs c c',
  cstate_ok c -> compile_defaults fuel chs c = COk tt c' -> Rx c c'.

Local Ltac known := first [reflexivity | assumption].

Lemma struct_all_fuel : forall fuel,
  SP_expr fuel /\ SP_exprs fuel /\ SP_stmt fuel /\ SP_block fuel /\
  SP_case_exprs fuel /\ SP_cases fuel /\ SP_defaults fuel /\ SP_pairs fuel.
Proof.
  induction fuel as [|f (IHe & IHl & IHs & IHb & IHce & IHc & IHd & IHp)].
  - repeat split; intro; intros; discriminate.
  - split; [|split; [|split; [|split; [|split; [|split; [|split]]]]]].
    + (* expressions *)
      intros e c c' Hc H. destruct e.
      * (* EInt *)
        cbn [compile_expr] in H. destruct (inline_int v) eqn:Ei; injection H as <-.
        -- apply Rx_emit1; known.
        -- apply Rx_const. exact Hc.
      * cbn [compile_expr] in H. injection H as <-. apply Rx_const. exact Hc.
      * cbn [compile_expr] in H. injection H as <-. apply Rx_const. exact Hc.
      * (* EBool *)
        cbn [compile_expr] in H. destruct b; injection H as <-; apply Rx_emit0; known.
      * cbn [compile_expr] in H. injection H as <-. apply Rx_const. exact Hc.
      * (* EIdent *)
        cbn [compile_expr] in H. destruct (add_const (VStr name) c) as [i c1] eqn:E.
        injection H as <-. eapply Rx_name; [exact Hc|left; reflexivity|exact E].
      * (* EPrefix *)
        rewrite compile_prefix_eq in H.
        destruct (compile_expr f e c) as [[] c1| | |] eqn:E1; try discriminate. cbn [cbind] in H.
        pose proof (IHe e c c1 Hc E1) as R1.
        destruct (prefix_opcode op) as [o|] eqn:Eo; try discriminate. injection H as <-.
        destruct (prefix_known _ _ Eo) as (Hk & Hl).
        eapply Rx_trans; [exact Hc|exact R1|]. apply Rx_emit0; [exact (Rx_ok _ _ R1)|exact Hk|exact Hl].
      * (* EInfix *)
        destruct (tokty_eq_dec op TPeriod) as [->|Hne].
        { (* `l.r`: code of l, one constant push, OpIndex *)
          destruct (compile_dot_inv _ _ _ _ _ H) as (c1 & name & E1 & En & ->).
          pose proof (IHe e1 c c1 Hc E1) as R1.
          pose proof (Rx_const (VStr name) c1 (Rx_ok _ _ R1)) as R2.
          eapply Rx_trans; [exact Hc|exact R1|].
          eapply Rx_trans; [exact (Rx_ok _ _ R1)|exact R2|].
          apply Rx_emit0; [exact (Rx_ok _ _ R2)|reflexivity|reflexivity]. }
        rewrite compile_infix_eq in H by exact Hne.
        destruct (compile_expr f e1 c) as [[] c1| | |] eqn:E1; try discriminate. cbn [cbind] in H.
        destruct (compile_expr f e2 c1) as [[] c2| | |] eqn:E2; try discriminate. cbn [cbind] in H.
        pose proof (IHe e1 c c1 Hc E1) as R1.
        pose proof (IHe e2 c1 c2 (Rx_ok _ _ R1) E2) as R2.
        pose proof (Rx_trans _ _ _ Hc R1 R2) as R12.
        destruct (infix_opcode op) as [o|] eqn:Eo; try discriminate.
        destruct (infix_known _ _ Eo) as (Hk & Hl).
        pose proof (Rx_emit0 o c2 (Rx_ok _ _ R2) Hk Hl) as R3.
        destruct (is_mutator op).
        -- destruct e1; try discriminate. injection H as <-.
           eapply Rx_trans; [exact Hc|exact R12|].
           eapply Rx_trans; [exact (Rx_ok _ _ R2)|exact R3|].
           eapply Rx_trans; [exact (Rx_ok _ _ R3)|apply Rx_const; exact (Rx_ok _ _ R3)|].
           apply Rx_emit0; [|reflexivity|reflexivity].
           apply (Rx_ok _ _ (Rx_const (VStr name) _ (Rx_ok _ _ R3))).
        -- injection H as <-. eapply Rx_trans; [exact Hc|exact R12|exact R3].
      * (* EPostfix *)
        cbn [compile_expr] in H. destruct op; try discriminate;
          destruct (add_const (VStr name) c) as [i c1] eqn:E; injection H as <-.
        -- eapply Rx_name; [exact Hc|right; right; reflexivity|exact E].
        -- eapply Rx_name; [exact Hc|right; left; reflexivity|exact E].
      * (* ETernary *)
        rewrite compile_ternary_eq in H.
        destruct (compile_expr f e1 c) as [[] c1| | |] eqn:E1; try discriminate. cbn [cbind] in H.
        pose proof (IHe e1 c c1 Hc E1) as R1.
        pose proof (emits_ok _ _ _ (emits_emit1 OpJumpIfFalse 9999 c1 (Rx_ok _ _ R1))) as Hc2.
        destruct (compile_expr f e2 (emit1' OpJumpIfFalse 9999 c1)) as [[] c3| | |] eqn:E2; try discriminate.
        cbn [cbind] in H. cbv zeta in H.
        pose proof (IHe e2 _ c3 Hc2 E2) as R2.
        assert (Hc5 : cstate_ok (patch (clen c1) (clen (emit1' OpJump 9999 c3)) (emit1' OpJump 9999 c3))).
        { apply patch_ok. eapply emits_ok. apply emits_emit1. exact (Rx_ok _ _ R2). }
        destruct (compile_expr f e3 _) as [[] c6| | |] eqn:E3 in H; try discriminate.
        cbn [cbind] in H. injection H as <-.
        pose proof (IHe e3 _ c6 Hc5 E3) as R3.
        exact (sc_ternary c c1 c3 c6 Hc R1 R2 R3).
      * (* EArray *)
        rewrite compile_array_eq in H.
        destruct (compile_exprs f l c) as [[] c1| | |] eqn:E1; try discriminate. cbn [cbind] in H.
        injection H as <-. pose proof (IHl l c c1 Hc E1) as R1.
        eapply Rx_trans; [exact Hc|exact R1|]. apply Rx_emit1; [exact (Rx_ok _ _ R1)|known..].
      * (* EHash *)
        apply compile_hash_inv in H. destruct H as (sorted & c1 & E1 & ->).
        pose proof (IHp sorted c c1 Hc E1) as R1.
        eapply Rx_trans; [exact Hc|exact R1|]. apply Rx_emit1; [exact (Rx_ok _ _ R1)|known..].
      * (* EIndex *)
        rewrite compile_index_eq in H.
        destruct (compile_expr f e1 c) as [[] c1| | |] eqn:E1; try discriminate. cbn [cbind] in H.
        destruct (compile_expr f e2 c1) as [[] c2| | |] eqn:E2; try discriminate. cbn [cbind] in H.
        pose proof (IHe e1 c c1 Hc E1) as R1.
        pose proof (IHe e2 c1 c2 (Rx_ok _ _ R1) E2) as R2.
        injection H as <-.
        eapply Rx_trans; [exact Hc|exact (Rx_trans _ _ _ Hc R1 R2)|].
        apply Rx_emit0; [exact (Rx_ok _ _ R2)|known..].
      * (* ECall *)
        apply compile_call_inv in H. destruct H as (c1 & name & E1 & Es & ->).
        pose proof (IHl args c c1 Hc E1) as R1.
        pose proof (Rx_const (VStr name) c1 (Rx_ok _ _ R1)) as R2.
        eapply Rx_trans; [exact Hc|exact (Rx_trans _ _ _ Hc R1 R2)|].
        apply Rx_emit1; [exact (Rx_ok _ _ R2)|known..].
      * (* EAssign *)
        rewrite compile_assign_eq in H.
        destruct (compile_expr f e c) as [[] c1| | |] eqn:E1; try discriminate. cbn [cbind] in H.
        injection H as <-. pose proof (IHe e c c1 Hc E1) as R1.
        pose proof (Rx_const (VStr name) c1 (Rx_ok _ _ R1)) as R2.
        eapply Rx_trans; [exact Hc|exact (Rx_trans _ _ _ Hc R1 R2)|].
        apply Rx_emit0; [exact (Rx_ok _ _ R2)|known..].
      * (* ELocal *)
        cbn [compile_expr] in H. injection H as <-.
        pose proof (Rx_const (VStr name) c Hc) as R1.
        eapply Rx_trans; [exact Hc|exact R1|]. apply Rx_emit0; [exact (Rx_ok _ _ R1)|known..].
      * (* EIf *)
        rewrite compile_if_eq in H.
        destruct (compile_expr f e c) as [[] c1| | |] eqn:E1; try discriminate. cbn [cbind] in H.
        pose proof (IHe e c c1 Hc E1) as R1.
        pose proof (emits_ok _ _ _ (emits_emit1 OpJumpIfFalse 9999 c1 (Rx_ok _ _ R1))) as Hc2.
        destruct (compile_block f cons (emit1' OpJumpIfFalse 9999 c1)) as [[] c3| | |] eqn:E2; try discriminate.
        cbn [cbind] in H. cbv zeta in H.
        pose proof (IHb cons _ c3 Hc2 E2) as R2.
        destruct alt as [a|].
        -- match type of H with cbind (compile_block f a ?c6) _ = _ =>
             assert (Hc6 : cstate_ok c6);
             [apply patch_ok; eapply emits_ok; apply emits_emit1; apply patch_ok; exact (Rx_ok _ _ R2)|];
             destruct (compile_block f a c6) as [[] c7| | |] eqn:E3; try discriminate
           end.
           cbn [cbind] in H. injection H as <-.
           pose proof (IHb a _ c7 Hc6 E3) as R3.
           exact (sc_if_else c c1 c3 c7 Hc R1 R2 R3).
        -- injection H as <-. exact (sc_if_none c c1 c3 Hc R1 R2).
      * (* EWhile *)
        rewrite compile_while_eq in H.
        destruct (compile_expr f e c) as [[] c1| | |] eqn:E1; try discriminate. cbn [cbind] in H.
        pose proof (IHe e c c1 Hc E1) as R1.
        pose proof (emits_ok _ _ _ (emits_emit1 OpJumpIfFalse 9999 c1 (Rx_ok _ _ R1))) as Hc2.
        destruct (compile_block f body (emit1' OpJumpIfFalse 9999 c1)) as [[] c3| | |] eqn:E2; try discriminate.
        cbn [cbind] in H. cbv zeta in H. injection H as <-.
        pose proof (IHb body _ c3 Hc2 E2) as R2.
        exact (sc_loop c c1 c3 Hc R1 R2).
      * (* EForeach *)
        rewrite compile_foreach_eq in H.
        destruct (compile_expr f e c) as [[] c1| | |] eqn:E1; try discriminate. cbn [cbind] in H.
        pose proof (IHe e c c1 Hc E1) as R1. cbv zeta in H.
        assert (Hc1 : cstate_ok c1) by exact (Rx_ok _ _ R1).
        pose proof (Rx_emit0 OpIterationReset c1 Hc1 eq_refl eq_refl) as R2.
        set (c2 := emit0 OpIterationReset c1) in *.
        assert (Hc2 : cstate_ok c2) by exact (Rx_ok _ _ R2).
        pose proof (Rx_const (VStr idx) c2 Hc2) as R3a.
        pose proof (Rx_const (VStr ident) _ (Rx_ok _ _ R3a)) as R3b.
        pose proof (Rx_emit0 OpIterationNext _ (Rx_ok _ _ R3b) eq_refl eq_refl) as R4.
        set (c4 := emit0 OpIterationNext (emit_const (VStr ident) (emit_const (VStr idx) c2))) in *.
        assert (R24 : Rx c2 c4).
        { eapply Rx_trans; [exact Hc2|exact R3a|]. eapply Rx_trans; [exact (Rx_ok _ _ R3a)|exact R3b|exact R4]. }
        assert (Hc5 : cstate_ok (emit1' OpJumpIfFalse 9999 c4)).
        { eapply emits_ok. apply emits_emit1. exact (Rx_ok _ _ R24). }
        destruct (compile_block f body (emit1' OpJumpIfFalse 9999 c4)) as [[] c6| | |] eqn:E2; try discriminate.
        cbn [cbind] in H. injection H as <-.
        pose proof (IHb body _ c6 Hc5 E2) as R6.
        eapply Rx_trans; [exact Hc|exact (Rx_trans _ _ _ Hc R1 R2)|].
        exact (sc_loop c2 c4 c6 Hc2 R24 R6).
      * (* EFunction *)
        apply compile_function_inv' in H. destruct H as (c1 & E1 & ->).
        assert (Hc0 : cstate_ok (mkC [] 0 (consts c) (funcs c))) by reflexivity.
        pose proof (IHb body _ c1 Hc0 E1) as R1.
        exact (sc_function name params c c1 Hc R1).
      * (* ESwitch *)
        rewrite compile_switch_eq in H.
        destruct (compile_cases f e choices [] c) as [ps c1| | |] eqn:E1; try discriminate. cbn [cbind] in H.
        pose proof (IHc e choices [] c ps c1 Hc E1) as R1.
        destruct (compile_defaults f choices c1) as [[] c2| | |] eqn:E2; try discriminate. cbn [cbind] in H.
        pose proof (IHd choices c1 c2 (Rce_ok _ _ _ _ R1) E2) as R2.
        injection H as <-. exact (sc_switch c c1 c2 ps Hc R1 R2).
    + (* expression lists *)
      intros l c c' Hc H. destruct l as [|e l].
      * rewrite compile_exprs_nil_eq in H. injection H as <-. apply Rx_refl. exact Hc.
      * rewrite compile_exprs_cons_eq in H.
        destruct (compile_expr f e c) as [[] c1| | |] eqn:E1; try discriminate. cbn [cbind] in H.
        pose proof (IHe e c c1 Hc E1) as R1.
        eapply Rx_trans; [exact Hc|exact R1|]. exact (IHl l c1 c' (Rx_ok _ _ R1) H).
    + (* statements *)
      intros s c c' Hc H. destruct s as [e|e].
      * rewrite compile_stmt_return_eq in H.
        destruct (compile_expr f e c) as [[] c1| | |] eqn:E1; try discriminate. cbn [cbind] in H.
        injection H as <-. pose proof (IHe e c c1 Hc E1) as R1.
        eapply Rx_trans; [exact Hc|exact R1|]. apply Rx_emit0; [exact (Rx_ok _ _ R1)|known..].
      * rewrite compile_stmt_expr_eq in H. exact (IHe e c c' Hc H).
    + (* blocks *)
      intros b c c' Hc H. destruct b as [|s b].
      * rewrite compile_block_nil_eq in H. injection H as <-. apply Rx_refl. exact Hc.
      * rewrite compile_block_cons_eq in H.
        destruct (compile_stmt f s c) as [[] c1| | |] eqn:E1; try discriminate. cbn [cbind] in H.
        pose proof (IHs s c c1 Hc E1) as R1.
        eapply Rx_trans; [exact Hc|exact R1|]. exact (IHb b c1 c' (Rx_ok _ _ R1) H).
    + (* the case expressions of one arm *)
      intros v es blk patches c po c' Hc H. destruct es as [|e es'].
      * rewrite compile_case_exprs_nil_eq in H. injection H as <- <-. apply Rce_nil. exact Hc.
      * rewrite compile_case_exprs_cons_eq in H.
        destruct (compile_expr f v c) as [[] c1| | |] eqn:E1; try discriminate. cbn [cbind] in H.
        pose proof (IHe v c c1 Hc E1) as R1.
        destruct (compile_expr f e c1) as [[] c2| | |] eqn:E2; try discriminate. cbn [cbind] in H.
        pose proof (IHe e c1 c2 (Rx_ok _ _ R1) E2) as R2. cbv zeta in H.
        assert (Hc4 : cstate_ok (emit1' OpJumpIfFalse 9999 (emit0 OpCase c2))).
        { eapply emits_ok. apply emits_emit1. eapply emits_ok. apply emits_emit0. exact (Rx_ok _ _ R2). }
        destruct (compile_block f blk _) as [[] c5| | |] eqn:E5 in H; try discriminate. cbn [cbind] in H.
        pose proof (IHb blk _ c5 Hc4 E5) as R5.
        match type of H with compile_case_exprs f v es' blk _ ?c7 = _ =>
          assert (Hc7 : cstate_ok c7);
          [apply patch_ok; eapply emits_ok; apply emits_emit1; exact (Rx_ok _ _ R5)|] end.
        pose proof (IHce v es' blk _ _ po c' Hc7 H) as R7.
        exact (sc_case_exprs_cons patches po c c1 c2 c5 c' Hc R1 R2 R5 R7).
    + (* the arms of a switch *)
      intros v chs patches c po c' Hc H. destruct chs as [|[[d es] blk] rest].
      * rewrite compile_cases_nil_eq in H. injection H as <- <-. apply Rce_nil. exact Hc.
      * destruct d.
        -- rewrite compile_cases_default_eq in H. exact (IHc v rest patches c po c' Hc H).
        -- rewrite compile_cases_arm_eq in H.
           destruct (compile_case_exprs f v es blk patches c) as [p1 c1| | |] eqn:E1; try discriminate.
           cbn [cbind] in H.
           pose proof (IHce v es blk patches c p1 c1 Hc E1) as R1.
           pose proof (IHc v rest p1 c1 po c' (Rce_ok _ _ _ _ R1) H) as R2.
           exact (Rce_trans c c1 c' patches p1 po Hc R1 R2).
    + (* the default blocks *)
      intros chs c c' Hc H. destruct chs as [|[[d es] blk] rest].
      * rewrite compile_defaults_nil_eq in H. injection H as <-. apply Rx_refl. exact Hc.
      * destruct d.
        -- rewrite compile_defaults_default_eq in H.
           destruct (compile_block f blk c) as [[] c1| | |] eqn:E1; try discriminate. cbn [cbind] in H.
           pose proof (IHb blk c c1 Hc E1) as R1.
           pose proof (IHd rest c1 c' (Rx_ok _ _ R1) H) as R2.
           exact (Rx_trans _ _ _ Hc R1 R2).
        -- rewrite compile_defaults_skip_eq in H. exact (IHd rest c c' Hc H).
    + (* the pairs of a hash literal *)
      intros l c c' Hc H. destruct l as [|[k v] l].
      * rewrite compile_pairs_nil_eq in H. injection H as <-. apply Rx_refl. exact Hc.
      * rewrite compile_pairs_cons_eq in H.
        destruct (compile_expr f k c) as [[] c1| | |] eqn:E1; try discriminate. cbn [cbind] in H.
        pose proof (IHe k c c1 Hc E1) as R1.
        destruct (compile_expr f v c1) as [[] c2| | |] eqn:E2; try discriminate. cbn [cbind] in H.
        pose proof (IHe v c1 c2 (Rx_ok _ _ R1) E2) as R2.
        pose proof (IHp l c2 c' (Rx_ok _ _ R2) H) as R3.
        eapply Rx_trans; [exact Hc|exact R1|]. eapply Rx_trans; [exact (Rx_ok _ _ R1)|exact R2|exact R3].
Qed.

(* ------------------------------------------------------------------ *)
(* the theorem *)

Theorem compile_structure : forall fuel (ast : program) p,
  compile_program fuel ast = CompOk p ->
  body_ok (pconsts p) (pmain p) /\
  Forall (fun nf => body_ok (pconsts p) (fcode (snd nf)) /\ ends_in_return (fcode (snd nf))) (pfuncs p).
Proof.
  intros fuel ast p H. unfold compile_program in H.
  destruct (compile_block fuel ast (mkC [] 0 [] [])) as [[] c| | |] eqn:E; try discriminate.
  destruct (fits16 _) eqn:Ef in H; try discriminate. injection H as <-.
  cbn [pconsts pmain pfuncs]. unfold fits16 in Ef. cbn [pconsts pmain pfuncs] in Ef.
  apply andb_true_iff in Ef. destruct Ef as (Ef & Ef3).
  apply andb_true_iff in Ef. destruct Ef as (Ef1 & Ef2).
  apply N.leb_le in Ef1. apply N.leb_le in Ef2.
  destruct (struct_all_fuel fuel) as (_ & _ & _ & Pb & _).
  assert (Hc0 : cstate_ok (mkC [] 0 [] [])) by reflexivity.
  destruct (Pb ast _ c Hc0 E) as (ch & Em & F & S).
  assert (Hc : cstate_ok c) by apply Em.
  assert (Hch : rev (crev c) = ch).
  { destruct Em as (_ & _ & Em). unfold emitted in Em. cbn [crev rev app] in Em. exact Em. }
  assert (sm : small c).
  { split; [exact Ef2|]. unfold cstate_ok in Hc. rewrite Hc, <- lenN_rev. exact Ef1. }
  split.
  - destruct (S sm) as (is & D & K). cbn [clen] in D. rewrite Hch.
    destruct (seg_body _ _ _ D K) as (Hd & Hi). exists is. split; assumption.
  - assert (FIc : FI (consts c) (funcs c)) by (apply F; constructor).
    unfold FI in FIc. rewrite Forall_forall in *. rewrite forallb_forall in Ef3.
    intros nf Hnf. apply (FIc nf Hnf); [exact Ef2|]. apply N.leb_le. exact (Ef3 nf Hnf).
Qed.


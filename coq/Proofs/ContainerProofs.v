(* ContainerProofs.v - arrays, hashes, strings and ranges of the model behave as
   ordered, total containers (property C16).
   Complete proofs only; no axioms. *)
From Coq Require Import Floats Permutation Sorted Lia.
From EF Require Import Model.Base Model.Code Model.Value Model.Env Model.Reflect Model.Builtins
                       Model.Compiler Model.VM Spec.Ops Proofs.OpsProofs.
Open Scope N_scope.

(* ------------------------------------------------------------------ *)
(* indexing *)

Lemma array_index_total : forall o (a : list value) (z : Z),
  vm_index o (VArray a) (VInt z) =
  Ok (if ((0 <=? z)%Z && (z <? Z.of_nat (List.length a))%Z)
      then match nth_opt a (Z.to_nat z) with Some v => v | None => VNull end else VNull).
Proof. intros o a z. rewrite index_table. reflexivity. Qed.

Lemma string_index_total : forall o (s : str) (z : Z),
  vm_index o (VStr s) (VInt z) =
  Ok (if ((0 <=? z)%Z && (z <? Z.of_nat (List.length s))%Z)
      then match nth_opt s (Z.to_nat z) with Some c => VStr [c] | None => VNull end else VNull).
Proof. intros o s z. rewrite index_table. reflexivity. Qed.

Lemma nth_opt_some_lt : forall A (l : list A) (n : nat) v,
  nth_opt l n = Some v -> (n < List.length l)%nat.
Proof.
  induction l as [|x l IH]; intros n v H; simpl in *.
  - discriminate.
  - destruct n as [|n]; [lia|]. apply IH in H. lia.
Qed.

Lemma index_in_range_is_element : forall o (a : list value) (n : nat) v,
  nth_opt a n = Some v -> vm_index o (VArray a) (VInt (Z.of_nat n)) = Ok v.
Proof.
  intros o a n v H. rewrite array_index_total.
  pose proof (nth_opt_some_lt _ _ _ _ H) as Hlt.
  destruct (Z.leb_spec 0 (Z.of_nat n)); [|lia].
  destruct (Z.ltb_spec (Z.of_nat n) (Z.of_nat (List.length a))); [|lia].
  simpl andb. cbv iota. rewrite Nat2Z.id, H. reflexivity.
Qed.

(* ------------------------------------------------------------------ *)
(* ranges *)

Lemma range_list_length : forall n from, List.length (range_list n from) = n.
Proof. induction n as [|n IH]; intro from; simpl; [reflexivity | rewrite IH; reflexivity]. Qed.

Lemma range_list_nth : forall n from i,
  (i < n)%nat -> nth_opt (range_list n from) i = Some (VInt (from + Z.of_nat i)).
Proof.
  induction n as [|n IH]; intros from i Hi; [lia|].
  simpl. destruct i as [|i].
  - simpl. rewrite Z.add_0_r. reflexivity.
  - rewrite IH by lia. f_equal. f_equal. lia.
Qed.

Lemma range_spec : forall (a b : Z) l,
  vm_range (VInt a) (VInt b) = Ok (VArray l) ->
  (a <= b)%Z /\ List.length l = Z.to_nat (b - a + 1) /\
  forall i : nat, (i < List.length l)%nat -> nth_opt l i = Some (VInt (a + Z.of_nat i)).
Proof.
  intros a b l H. unfold vm_range in H.
  destruct (Z.ltb_spec b a) as [Hlt|Hle]; [discriminate|].
  destruct (100000 <? b - a)%Z; [discriminate|].
  inversion H; subst l; clear H.
  split; [exact Hle|]. split.
  - apply range_list_length.
  - intros i Hi. rewrite range_list_length in Hi. apply range_list_nth. exact Hi.
Qed.

Lemma range_errors : forall a b,
  (forall x y, a = VInt x -> b = VInt y -> (y < x)%Z) -> forall v, vm_range a b <> Ok v.
Proof.
  intros a b H v. destruct a; try (simpl; discriminate).
  destruct b; try (simpl; discriminate).
  unfold vm_range. specialize (H z z0 eq_refl eq_refl).
  destruct (Z.ltb_spec z0 z); [discriminate | lia].
Qed.

(* ------------------------------------------------------------------ *)
(* array literals *)

Lemma pop_n_rev : forall (l s acc : list value),
  pop_n (List.length l) (rev l ++ s) acc = Some (l ++ acc, s).
Proof.
  intro l. induction l as [|x l IH] using rev_ind; intros s acc.
  - reflexivity.
  - rewrite rev_app_distr, app_length. simpl rev. simpl app.
    rewrite Nat.add_comm. simpl. rewrite IH. rewrite <- app_assoc. reflexivity.
Qed.

Lemma array_literal_order : forall (l s : list value),
  pop_n (List.length l) (rev l ++ s) [] = Some (l, s).
Proof. intros l s. rewrite pop_n_rev, app_nil_r. reflexivity. Qed.

(* ------------------------------------------------------------------ *)
(* hash keys *)

Lemma str_eqb_refl : forall s, str_eqb s s = true.
Proof. induction s as [|x s IH]; simpl; [reflexivity | rewrite N.eqb_refl, IH; reflexivity]. Qed.

Lemma str_eqb_eq : forall a b, str_eqb a b = true -> a = b.
Proof.
  induction a as [|x a IH]; destruct b as [|y b]; simpl; intro H; try discriminate.
  - reflexivity.
  - apply andb_prop in H. destruct H as [H1 H2].
    apply N.eqb_eq in H1. apply IH in H2. subst. reflexivity.
Qed.

Lemma hk_eqb_refl : forall hk, hk_eqb hk hk = true.
Proof. intros [n s]. unfold hk_eqb. simpl. rewrite N.eqb_refl, str_eqb_refl. reflexivity. Qed.

Lemma hk_eqb_eq : forall a b, hk_eqb a b = true -> a = b.
Proof.
  intros [n s] [m t]. unfold hk_eqb. simpl. intro H.
  apply andb_prop in H. destruct H as [H1 H2].
  apply N.eqb_eq in H1. apply str_eqb_eq in H2. subst. reflexivity.
Qed.

Lemma key_matches_self : forall o k hk,
  hash_key o k = Some (Some hk) -> key_matches o k hk = Some true.
Proof. intros o k hk H. unfold key_matches. rewrite H, hk_eqb_refl. reflexivity. Qed.

Lemma hash_get_put_same : forall o ps hk k v ps',
  hash_put o ps hk k v = Some ps' -> hash_key o k = Some (Some hk) ->
  hash_get o ps' hk = Some (Some v).
Proof.
  intros o ps hk k v. induction ps as [|[k' x'] ps IH]; intros ps' Hput Hk; simpl in Hput.
  - inversion Hput; subst. simpl. rewrite (key_matches_self _ _ _ Hk). reflexivity.
  - destruct (key_matches o k' hk) as [[|]|] eqn:Hm; try discriminate.
    + inversion Hput; subst. simpl. rewrite (key_matches_self _ _ _ Hk). reflexivity.
    + destruct (hash_put o ps hk k v) as [r|] eqn:Hr; [|discriminate].
      inversion Hput; subst. simpl. rewrite Hm. apply IH; [reflexivity | exact Hk].
Qed.

(* The statement requested as [hash_get_put_other],

     forall o ps hk k v ps' hk',
       hash_put o ps hk k v = Some ps' -> hk_eqb hk' hk = false ->
       hash_get o ps' hk' = hash_get o ps hk',

   is FALSE of the model: nothing ties the key object [k] to the hash key [hk]
   it is stored under, so [k] may well hash to the probed key [hk'] (or to an
   oracle miss).  The refutation is proved below; the true statement, with the
   missing hypothesis [hash_key o k = Some (Some hk)] (the one every caller of
   hash_put in Model/VM.v establishes, and the one [hash_get_put_same] already
   carries), is [hash_get_put_other_weaker]. *)

Definition cex_stdlib : stdlib :=
  mkStdlib (fun _ => None) (fun _ => None) (fun _ _ => None) (fun _ _ => None)
           (fun _ _ _ => None) (fun _ => None) (fun _ => None) (fun _ => None)
           (fun _ _ => None) (fun _ => None) (fun _ => None).

Lemma hash_get_put_other_counterexample :
  exists o ps hk k v ps' hk',
    hash_put o ps hk k v = Some ps' /\ hk_eqb hk' hk = false /\
    hash_get o ps' hk' = Some (Some v) /\ hash_get o ps hk' = Some None.
Proof.
  exists cex_stdlib, [], (0, L "1"), (VStr (L "a")), (VInt 7),
         [(VStr (L "a"), VInt 7)], (2, L "a").
  repeat split; reflexivity.
Qed.

Lemma hash_get_put_other_false :
  ~ (forall o ps hk k v ps' hk',
       hash_put o ps hk k v = Some ps' -> hk_eqb hk' hk = false ->
       hash_get o ps' hk' = hash_get o ps hk').
Proof.
  intro H. destruct hash_get_put_other_counterexample
    as (o & ps & hk & k & v & ps' & hk' & Hput & Hne & H1 & H2).
  specialize (H o ps hk k v ps' hk' Hput Hne). rewrite H1, H2 in H. discriminate.
Qed.

Lemma hk_eqb_false_sym : forall a b, hk_eqb a b = false -> hk_eqb b a = false.
Proof.
  intros a b H. destruct (hk_eqb b a) eqn:E; [|reflexivity].
  apply hk_eqb_eq in E. subst. rewrite hk_eqb_refl in H. discriminate.
Qed.

Lemma key_matches_other : forall o k hk hk',
  key_matches o k hk = Some true -> hk_eqb hk' hk = false -> key_matches o k hk' = Some false.
Proof.
  intros o k hk hk' Hm Hne. unfold key_matches in *.
  destruct (hash_key o k) as [[hk''|]|]; try discriminate.
  inversion Hm as [E]. apply hk_eqb_eq in E. subst hk''.
  rewrite (hk_eqb_false_sym _ _ Hne). reflexivity.
Qed.

Lemma hash_get_put_other_weaker : forall o ps hk k v ps' hk',
  hash_key o k = Some (Some hk) ->
  hash_put o ps hk k v = Some ps' -> hk_eqb hk' hk = false ->
  hash_get o ps' hk' = hash_get o ps hk'.
Proof.
  intros o ps hk k v ps' hk' Hk Hput Hne.
  pose proof (key_matches_other o k hk hk' (key_matches_self o k hk Hk) Hne) as Hkm.
  revert ps' Hput. induction ps as [|[k' x'] ps IH]; intros ps' Hput; simpl in Hput.
  - inversion Hput; subst. simpl. rewrite Hkm. reflexivity.
  - destruct (key_matches o k' hk) as [[|]|] eqn:Hm; try discriminate.
    + inversion Hput; subst. simpl.
      rewrite Hkm, (key_matches_other o k' hk hk' Hm Hne). reflexivity.
    + destruct (hash_put o ps hk k v) as [r|] eqn:Hr; [|discriminate].
      inversion Hput; subst. simpl.
      destruct (key_matches o k' hk') as [[|]|]; try reflexivity.
      apply IH. reflexivity.
Qed.

Lemma key_types_distinct : forall o z f s hi hf hs,
  hash_key o (VInt z) = Some (Some hi) -> hash_key o (VFloat f) = Some (Some hf) ->
  hash_key o (VStr s) = Some (Some hs) ->
  hk_eqb hi hf = false /\ hk_eqb hi hs = false /\ hk_eqb hf hs = false.
Proof.
  intros o z f s hi hf hs Hi Hf Hs. simpl in Hi, Hf, Hs.
  destruct (fmt_float o f); [|discriminate].
  inversion Hi; inversion Hf; inversion Hs; subst.
  repeat split; reflexivity.
Qed.

(* ------------------------------------------------------------------ *)
(* membership *)

Lemma in_exact : forall o x l b,
  array_mem o x l = Some b ->
  (b = true <-> exists y, In y l /\ same_value o x y = Some true).
Proof.
  intros o x l. induction l as [|y l IH]; intros b H; simpl in H.
  - inversion H; subst. split; [discriminate|]. intros [y [[] _]].
  - destruct (same_value o x y) as [[|]|] eqn:Hs; try discriminate.
    + inversion H; subst. split; [|reflexivity].
      intros _. exists y. split; [left; reflexivity | exact Hs].
    + specialize (IH b H). split.
      * intro Hb. apply IH in Hb. destruct Hb as [y' [Hin Hy']].
        exists y'. split; [right; exact Hin | exact Hy'].
      * intros [y' [[Heq|Hin] Hy']].
        -- subst y'. rewrite Hs in Hy'. discriminate.
        -- apply IH. exists y'. split; assumption.
Qed.

(* ------------------------------------------------------------------ *)
(* iteration *)

Lemma nthN_none_iff : forall A (l : list A) (off : N), nthN l off = None <-> lenN l <= off.
Proof.
  intros A l off. rewrite nthN_nth_opt. unfold lenN. split.
  - intro H. destruct (N.le_gt_cases (N.of_nat (List.length l)) off) as [Hle|Hgt]; [exact Hle|].
    exfalso. assert (Hlt : (N.to_nat off < List.length l)%nat) by lia.
    clear Hgt. revert H Hlt. generalize (N.to_nat off). clear off.
    induction l as [|x l IH]; intros n H Hlt; simpl in *; [lia|].
    destruct n as [|n]; [discriminate|]. apply (IH n H). lia.
  - intro H. apply nth_opt_none. lia.
Qed.

Lemma iter_array : forall o (l : list value) (off : N),
  iter_next o (VArray l) off =
  Ok (match nthN l off with Some x => Some (x, VInt (Z.of_N off)) | None => None end) /\
  (nthN l off = None <-> lenN l <= off).
Proof. intros o l off. split; [reflexivity | apply nthN_none_iff]. Qed.

Lemma iter_string : forall o (s : str) (off : N),
  iter_next o (VStr s) off =
  Ok (match nthN s off with Some c => Some (VStr [c], VInt (Z.of_N off)) | None => None end).
Proof. intros; reflexivity. Qed.

(* ------------------------------------------------------------------ *)
(* hash entries *)

Lemma sort_insert_perm : forall A (lt : A -> A -> bool) x l,
  Permutation (x :: l) (sort_insert lt x l).
Proof.
  intros A lt x l. induction l as [|y l IH]; simpl.
  - apply Permutation_refl.
  - destruct (lt x y).
    + apply Permutation_refl.
    + eapply perm_trans; [apply perm_swap|]. apply perm_skip. exact IH.
Qed.

Lemma sort_by_perm : forall A (lt : A -> A -> bool) l, Permutation l (sort_by lt l).
Proof.
  intros A lt l. unfold sort_by. induction l as [|x l IH]; simpl.
  - apply perm_nil.
  - eapply perm_trans; [apply perm_skip; exact IH|]. apply sort_insert_perm.
Qed.

Lemma opt_map_decorate_snd : forall A B (f : A -> option (B * A)) (l : list A) es,
  (forall x y, f x = Some y -> snd y = x) ->
  opt_map f l = Some es -> map snd es = l.
Proof.
  intros A B f l. induction l as [|x l IH]; intros es Hf H; simpl in H.
  - inversion H; reflexivity.
  - destruct (f x) as [y|] eqn:Hy; [|discriminate].
    destruct (opt_map f l) as [ys|] eqn:Hys; [|discriminate].
    inversion H; subst. simpl. rewrite (IH ys Hf eq_refl), (Hf x y Hy). reflexivity.
Qed.

Lemma hash_entries_perm : forall o ps es,
  hash_entries o ps = Some es -> Permutation ps es.
Proof.
  intros o ps es H. unfold hash_entries in H.
  match type of H with
  | match opt_map ?f ps with _ => _ end = _ => destruct (opt_map f ps) as [ds|] eqn:Hd
  end; [|discriminate].
  inversion H; subst es; clear H.
  assert (Hsnd : map snd ds = ps).
  { eapply opt_map_decorate_snd; [|exact Hd].
    intros x y Hy. simpl in Hy. destruct (inspect o (fst x)); [|discriminate].
    inversion Hy; reflexivity. }
  rewrite <- Hsnd. apply Permutation_map. apply sort_by_perm.
Qed.

(* ------------------------------------------------------------------ *)
(* len *)

Lemma len_spec : forall o (l : list value) (ps : list (value * value)) (s : str),
  call_builtin o (L "len") [VArray l] = Some (BVal (VInt (Z.of_nat (List.length l)))) /\
  call_builtin o (L "len") [VHash ps] = Some (BVal (VInt (Z.of_nat (List.length ps)))) /\
  call_builtin o (L "len") [VStr s] = Some (BVal (VInt (Z.of_nat (List.length s)))).
Proof. intros o l ps s. repeat split; reflexivity. Qed.

(* ExprProofs.v - compile correctness of jump-free expressions (C01):
   the code Model/Compiler.v emits for a pure expression, run by
   Model/VM.v, pushes exactly the value Spec/Eval.v's reference evaluator
   gives, or ends in exactly its error.  Complete proofs only.

   Depends on Proofs/OpsProofs.v for binop_table and index_table only.
   The float-literal case uses Coq.Floats.FloatAxioms.Prim2SF_inj (the
   standard library's axiomatisation of primitive floats). *)
From Coq Require Import Floats Lia.
From Coq Require FloatAxioms.
From EF Require Import Model.Base Gen.Tables Model.Lexer Model.Ast Model.Code Model.Value Model.Env
                       Model.Reflect Model.Builtins Model.Compiler Model.VM Spec.Ops Spec.Eval.
From EF Require Proofs.OpsProofs.
Open Scope N_scope.

(* ------------------------------------------------------------------ *)
(* lists indexed by N *)

Lemma lenN_app : forall {A} (a b : list A), lenN (a ++ b) = lenN a + lenN b.
Proof. intros. unfold lenN. rewrite app_length. lia. Qed.

Lemma lenN_cons : forall {A} (x : A) l, lenN (x :: l) = N.succ (lenN l).
Proof. intros. unfold lenN. cbn [length]. apply Nat2N.inj_succ. Qed.

Lemma lenN_nil : forall {A}, lenN (@nil A) = 0.
Proof. reflexivity. Qed.

Lemma lenN_rev : forall {A} (l : list A), lenN (rev l) = lenN l.
Proof. intros. unfold lenN. rewrite rev_length. reflexivity. Qed.

Lemma nthN_app : forall {A} (pre l : list A) k, nthN (pre ++ l) (lenN pre + k) = nthN l k.
Proof.
  induction pre as [|a pre IH]; intros l k.
  - rewrite lenN_nil, N.add_0_l. reflexivity.
  - cbn [app nthN]. rewrite lenN_cons.
    destruct (N.eqb_spec (N.succ (lenN pre) + k) 0) as [E|E]; [lia|].
    replace (N.pred (N.succ (lenN pre) + k)) with (lenN pre + k) by lia.
    apply IH.
Qed.

Lemma nthN_app0 : forall {A} (pre : list A) x l, nthN (pre ++ x :: l) (lenN pre) = Some x.
Proof.
  intros. rewrite <- (N.add_0_r (lenN pre)). rewrite nthN_app. reflexivity.
Qed.

Lemma nthN_some_lt : forall {A} (l : list A) i v, nthN l i = Some v -> i < lenN l.
Proof.
  induction l as [|a l IH]; intros i v H.
  - discriminate.
  - cbn [nthN] in H. rewrite lenN_cons.
    destruct (N.eqb_spec i 0) as [E|E]; [lia|].
    apply IH in H. lia.
Qed.

Lemma nthN_app_l : forall {A} (l r : list A) i v, nthN l i = Some v -> nthN (l ++ r) i = Some v.
Proof.
  induction l as [|a l IH]; intros r i v H.
  - discriminate.
  - cbn [nthN app] in *. destruct (i =? 0); [exact H|]. apply IH. exact H.
Qed.

Lemma hi_lo : forall n, n < 65536 -> hi_byte n * 256 + lo_byte n = n.
Proof.
  intros n H. unfold hi_byte, lo_byte. rewrite (N.mod_small n 65536) by exact H.
  pose proof (N.div_mod' n 256). lia.
Qed.

(* the instruction found at the end of a known prefix *)
Lemma at_op1 : forall (main pre post : list N) op ip,
  main = pre ++ op :: post -> ip = lenN pre ->
  (lenN main <=? ip) = false /\ byte_at main ip = Some op.
Proof.
  intros main pre post op ip -> ->. split.
  - apply N.leb_gt. rewrite lenN_app, lenN_cons. lia.
  - unfold byte_at. apply nthN_app0.
Qed.

Lemma at_op3 : forall (main pre post : list N) op h l ip,
  main = pre ++ op :: h :: l :: post -> ip = lenN pre ->
  (lenN main <=? ip) = false /\ byte_at main ip = Some op /\ operand_at main ip = Some (h * 256 + l).
Proof.
  intros main pre post op h l ip -> ->. split; [|split].
  - apply N.leb_gt. rewrite lenN_app, lenN_cons. lia.
  - unfold byte_at. apply nthN_app0.
  - unfold operand_at. rewrite !nthN_app. reflexivity.
Qed.

(* ------------------------------------------------------------------ *)
(* the constant pool *)

Lemma str_eqb_eq : forall a b, str_eqb a b = true -> a = b.
Proof.
  induction a as [|x a IH]; destruct b as [|y b]; cbn [str_eqb]; intro H; try discriminate.
  - reflexivity.
  - apply andb_true_iff in H. destruct H as [H1 H2].
    apply N.eqb_eq in H1. apply IH in H2. subst. reflexivity.
Qed.

Lemma sf_same_eq : forall a b, sf_same a b = true -> a = b.
Proof.
  intros a b H. destruct a, b; cbn [sf_same] in H; try discriminate.
  - apply Bool.eqb_prop in H. subst. reflexivity.
  - apply Bool.eqb_prop in H. subst. reflexivity.
  - reflexivity.
  - apply andb_true_iff in H. destruct H as [H H3].
    apply andb_true_iff in H. destruct H as [H1 H2].
    apply Bool.eqb_prop in H1. apply Pos.eqb_eq in H2. apply Z.eqb_eq in H3. subst. reflexivity.
Qed.

Lemma const_same_eq : forall a b, const_same a b = true -> a = b.
Proof.
  intros a b H. destruct a, b; cbn [const_same] in H; try discriminate.
  - apply Z.eqb_eq in H. subst. reflexivity.
  - apply sf_same_eq in H. apply FloatAxioms.Prim2SF_inj in H. subst. reflexivity.
  - apply str_eqb_eq in H. subst. reflexivity.
  - apply str_eqb_eq in H. subst. reflexivity.
Qed.

Lemma find_const_spec : forall v l pre i,
  find_const v l (lenN pre) = Some i -> nthN (pre ++ l) i = Some v.
Proof.
  induction l as [|x l IH]; intros pre i H.
  - discriminate.
  - cbn [find_const] in H. destruct (const_same x v) eqn:E.
    + injection H as <-. apply const_same_eq in E. subst x. apply nthN_app0.
    + specialize (IH (pre ++ [x]) i). rewrite lenN_app in IH.
      change (lenN [x]) with 1 in IH. apply IH in H.
      rewrite <- app_assoc in H. exact H.
Qed.

Lemma pool_extends_refl : forall l, pool_extends l l.
Proof. intro l. exists []. symmetry. apply app_nil_r. Qed.

Lemma pool_extends_trans : forall a b c, pool_extends a b -> pool_extends b c -> pool_extends a c.
Proof.
  intros a b c [r1 ->] [r2 ->]. exists (r1 ++ r2). symmetry. apply app_assoc.
Qed.

Lemma pool_extends_len : forall a b, pool_extends a b -> lenN a <= lenN b.
Proof. intros a b [r ->]. rewrite lenN_app. lia. Qed.

Lemma pool_extends_nth : forall a b i v, pool_extends a b -> nthN a i = Some v -> nthN b i = Some v.
Proof. intros a b i v [r ->] H. apply nthN_app_l. exact H. Qed.

Lemma add_const_spec : forall v c i c1,
  add_const v c = (i, c1) ->
  crev c1 = crev c /\ clen c1 = clen c /\ pool_extends (consts c) (consts c1) /\
  nthN (consts c1) i = Some v.
Proof.
  intros v c i c1 H. unfold add_const in H.
  destruct (find_const v (consts c) 0) as [j|] eqn:E.
  - injection H as <- <-. repeat split.
    + apply pool_extends_refl.
    + apply (find_const_spec v (consts c) [] j). exact E.
  - injection H as <- <-. cbn [crev clen consts]. repeat split.
    + exists [v]. reflexivity.
    + apply nthN_app0.
Qed.

(* add a constant, then emit a three-byte instruction whose operand is its index *)
Lemma add_emit_spec : forall op v c i c1,
  add_const v c = (i, c1) -> cstate_ok c ->
  cstate_ok (emit1' op i c1) /\
  pool_extends (consts c) (consts (emit1' op i c1)) /\
  emitted c (emit1' op i c1) [op; hi_byte i; lo_byte i] /\
  nthN (consts (emit1' op i c1)) i = Some v.
Proof.
  intros op v c i c1 H Hok. apply add_const_spec in H. destruct H as [Hr [Hl [Hp Hn]]].
  unfold emit1', emit1, cstate_ok, emitted in *. cbn [snd crev clen consts].
  repeat split.
  - rewrite !lenN_cons. rewrite Hl, Hok, Hr. lia.
  - exact Hp.
  - cbn [rev]. rewrite Hr. rewrite <- !app_assoc. reflexivity.
  - exact Hn.
Qed.

(* ------------------------------------------------------------------ *)
(* one step of the machine, per opcode *)

Ltac closed_eval t := let v := eval vm_compute in t in change t with v.
Ltac step_simpl :=
  repeat match goal with
  | |- context [N.eqb ?a ?b] => closed_eval (N.eqb a b)
  | |- context [N.ltb 1 (op_len ?a)] => closed_eval (N.ltb 1 (op_len a))
  | |- context [op_len ?a] => closed_eval (op_len a)
  | |- context [binop_of_opcode ?a] => closed_eval (binop_of_opcode a)
  end; cbv beta iota; cbn [orb].

Definition opcode_of_binop (b : binop) : N :=
  match b with
  | BAdd => OpAdd | BSub => OpSub | BMul => OpMul | BDiv => OpDiv | BMod => OpMod | BPow => OpPower
  | BLt => OpLess | BLe => OpLessEqual | BGt => OpGreater | BGe => OpGreaterEqual
  | BEq => OpEqual | BNe => OpNotEqual | BMatch => OpMatches | BNotMatch => OpNotMatches
  | BAnd => OpAnd | BOr => OpOr | BIn => OpArrayIn
  end.

Section Steps.
Variables (o : stdlib) (pool : list value) (funcs : list (str * ufunc)) (fns : fnmap) (obj : hostval).
Notation ex := (exec o pool funcs fns obj).

Lemma exec_true : forall k main ip m,
  (lenN main <=? ip) = false -> polls m = None -> byte_at main ip = Some OpTrue ->
  ex (S k) main ip m = ex k main (ip + 1) (push m (VBool true)).
Proof.
  intros k main ip m Hl Hp Hb. cbn [exec]. rewrite Hl, Hp, Hb. step_simpl. reflexivity.
Qed.

Lemma exec_false : forall k main ip m,
  (lenN main <=? ip) = false -> polls m = None -> byte_at main ip = Some OpFalse ->
  ex (S k) main ip m = ex k main (ip + 1) (push m (VBool false)).
Proof.
  intros k main ip m Hl Hp Hb. cbn [exec]. rewrite Hl, Hp, Hb. step_simpl. reflexivity.
Qed.

Lemma exec_push : forall k main ip m arg,
  (lenN main <=? ip) = false -> polls m = None -> byte_at main ip = Some OpPush ->
  operand_at main ip = Some arg ->
  ex (S k) main ip m = ex k main (ip + 3) (push m (VInt (Z.of_N arg))).
Proof.
  intros k main ip m arg Hl Hp Hb Ho. cbn [exec]. rewrite Hl, Hp, Hb. step_simpl.
  rewrite Ho. step_simpl. reflexivity.
Qed.

Lemma exec_constant : forall k main ip m arg v,
  (lenN main <=? ip) = false -> polls m = None -> byte_at main ip = Some OpConstant ->
  operand_at main ip = Some arg -> nthN pool arg = Some v ->
  ex (S k) main ip m = ex k main (ip + 3) (push m v).
Proof.
  intros k main ip m arg v Hl Hp Hb Ho Hn. cbn [exec]. rewrite Hl, Hp, Hb. step_simpl.
  rewrite Ho. step_simpl. rewrite Hn. reflexivity.
Qed.

Lemma exec_lookup : forall k main ip m arg name,
  (lenN main <=? ip) = false -> polls m = None -> byte_at main ip = Some OpLookup ->
  operand_at main ip = Some arg -> nthN pool arg = Some (VStr name) ->
  ex (S k) main ip m =
  match lookup o obj (menv m) name with
  | Ok v => ex k main (ip + 3) (push m v)
  | Err e => (OErr e, m)
  end.
Proof.
  intros k main ip m arg name Hl Hp Hb Ho Hn. cbn [exec]. rewrite Hl, Hp, Hb. step_simpl.
  rewrite Ho. step_simpl. rewrite Hn. reflexivity.
Qed.

Lemma exec_binop : forall b k main ip m r l s,
  (lenN main <=? ip) = false -> polls m = None -> byte_at main ip = Some (opcode_of_binop b) ->
  stk m = r :: l :: s ->
  ex (S k) main ip m =
  match vm_binop o b l r with
  | Ok v => ex k main (ip + 1) (set_stk m (v :: s))
  | Err e => (OErr e, set_stk m s)
  end.
Proof.
  intros b k main ip m r l s Hl Hp Hb Hs. cbn [exec]. rewrite Hl, Hp.
  destruct b; cbn [opcode_of_binop] in Hb; rewrite Hb; step_simpl; rewrite Hs; reflexivity.
Qed.

Lemma exec_index : forall k main ip m i l s,
  (lenN main <=? ip) = false -> polls m = None -> byte_at main ip = Some OpIndex ->
  stk m = i :: l :: s ->
  ex (S k) main ip m =
  match vm_index o l i with
  | Ok v => ex k main (ip + 1) (set_stk m (v :: s))
  | Err e => (OErr e, set_stk m s)
  end.
Proof.
  intros k main ip m i l s Hl Hp Hb Hs. cbn [exec]. rewrite Hl, Hp, Hb. step_simpl.
  rewrite Hs. reflexivity.
Qed.

Lemma exec_range : forall k main ip m b a s,
  (lenN main <=? ip) = false -> polls m = None -> byte_at main ip = Some OpRange ->
  stk m = b :: a :: s ->
  ex (S k) main ip m =
  match vm_range a b with
  | Ok v => ex k main (ip + 1) (set_stk m (v :: s))
  | Err e => (OErr e, set_stk m s)
  end.
Proof.
  intros k main ip m b a s Hl Hp Hb Hs. cbn [exec]. rewrite Hl, Hp, Hb. step_simpl.
  rewrite Hs. reflexivity.
Qed.

Lemma exec_bang : forall k main ip m v s,
  (lenN main <=? ip) = false -> polls m = None -> byte_at main ip = Some OpBang ->
  stk m = v :: s ->
  ex (S k) main ip m = ex k main (ip + 1) (set_stk m (vm_bang v :: s)).
Proof.
  intros k main ip m v s Hl Hp Hb Hs. cbn [exec]. rewrite Hl, Hp, Hb. step_simpl.
  rewrite Hs. reflexivity.
Qed.

Lemma exec_minus : forall k main ip m v s,
  (lenN main <=? ip) = false -> polls m = None -> byte_at main ip = Some OpMinus ->
  stk m = v :: s ->
  ex (S k) main ip m =
  match vm_minus v with
  | Ok w => ex k main (ip + 1) (set_stk m (w :: s))
  | Err e => (OErr e, set_stk m s)
  end.
Proof.
  intros k main ip m v s Hl Hp Hb Hs. cbn [exec]. rewrite Hl, Hp, Hb. step_simpl.
  rewrite Hs. reflexivity.
Qed.

Lemma exec_sqrt : forall k main ip m v s,
  (lenN main <=? ip) = false -> polls m = None -> byte_at main ip = Some OpSquareRoot ->
  stk m = v :: s ->
  ex (S k) main ip m =
  match vm_sqrt v with
  | Ok w => ex k main (ip + 1) (set_stk m (w :: s))
  | Err e => (OErr e, set_stk m s)
  end.
Proof.
  intros k main ip m v s Hl Hp Hb Hs. cbn [exec]. rewrite Hl, Hp, Hb. step_simpl.
  rewrite Hs. reflexivity.
Qed.

Lemma exec_array : forall k main ip m arg elems s,
  (lenN main <=? ip) = false -> polls m = None -> byte_at main ip = Some OpArray ->
  operand_at main ip = Some arg -> pop_n (N.to_nat arg) (stk m) [] = Some (elems, s) ->
  ex (S k) main ip m = ex k main (ip + 3) (set_stk m (VArray elems :: s)).
Proof.
  intros k main ip m arg elems s Hl Hp Hb Ho Hs. cbn [exec]. rewrite Hl, Hp, Hb. step_simpl.
  rewrite Ho. step_simpl. rewrite Hs. reflexivity.
Qed.

End Steps.

(* ------------------------------------------------------------------ *)
(* composing runs *)

Section Runs.
Variables (o : stdlib) (pool : list value) (funcs : list (str * ufunc)) (fns : fnmap) (obj : hostval).
Notation ex := (exec o pool funcs fns obj).
Notation rt := (runs_to o pool funcs fns obj).
Notation fw := (fails_with o pool funcs fns obj).

Lemma runs_to_refl : forall main ip m, rt main ip ip m m.
Proof. intros. exists 0%nat. intro k. reflexivity. Qed.

Lemma runs_to_trans : forall main a b c m1 m2 m3,
  rt main a b m1 m2 -> rt main b c m2 m3 -> rt main a c m1 m3.
Proof.
  intros main a b c m1 m2 m3 [n1 H1] [n2 H2]. exists (n1 + n2)%nat. intro k.
  rewrite <- Nat.add_assoc. rewrite H1. apply H2.
Qed.

Lemma runs_then_fails : forall main a b m1 m2 x,
  rt main a b m1 m2 -> fw main b m2 x -> fw main a m1 x.
Proof.
  intros main a b m1 m2 x [n1 H1] [n2 H2]. exists (n1 + n2)%nat. intro k.
  rewrite <- Nat.add_assoc. rewrite H1. apply H2.
Qed.

Lemma runs_to_step : forall main a b m1 m2,
  (forall k, ex (S k) main a m1 = ex k main b m2) -> rt main a b m1 m2.
Proof. intros main a b m1 m2 H. exists 1%nat. intro k. apply H. Qed.

Lemma fails_step : forall main a m1 x m',
  (forall k, ex (S k) main a m1 = (OErr x, m')) -> fw main a m1 x.
Proof. intros main a m1 x m' H. exists 1%nat. intro k. exists m'. apply H. Qed.

End Runs.

(* ------------------------------------------------------------------ *)
(* the statement, split into its parts *)

Fixpoint sevals (o : stdlib) (l : list expr) (en : env) (obj : hostval) : res (list value) :=
  match l with
  | [] => Ok []
  | x :: l' => do v <- seval o x en obj; do vs <- sevals o l' en obj; Ok (v :: vs)
  end.

Lemma seval_array : forall o l en obj,
  seval o (EArray l) en obj =
  match sevals o l en obj with Ok vs => Ok (VArray vs) | Err x => Err x end.
Proof.
  intros o l en obj. cbn [seval].
  match goal with
  | |- match ?a with _ => _ end = match ?b with _ => _ end => assert (E : a = b); [|rewrite E; reflexivity]
  end.
  induction l as [|x l IH]; [reflexivity|].
  cbn [sevals]. rewrite <- IH. reflexivity.
Qed.

Lemma sevals_len : forall o l en obj vs, sevals o l en obj = Ok vs -> List.length vs = List.length l.
Proof.
  induction l as [|a l IH]; intros en obj vs H; cbn [sevals] in H.
  - injection H as <-. reflexivity.
  - destruct (seval o a en obj); cbn [bind] in H; try discriminate.
    destruct (sevals o l en obj) eqn:E; cbn [bind] in H; try discriminate.
    injection H as <-. cbn [List.length]. f_equal. eapply IH. exact E.
Qed.

Lemma pop_n_app : forall l acc s, pop_n (List.length l) (l ++ s) acc = Some (rev l ++ acc, s).
Proof.
  induction l as [|a l IH]; intros acc s.
  - reflexivity.
  - cbn [List.length app pop_n rev]. rewrite IH. rewrite <- app_assoc. reflexivity.
Qed.

Definition sem1 (o : stdlib) (e : expr) (c' : cstate) (start : N) (code : list N) : Prop :=
  forall pool funcs fns obj pre post m,
    lenN (consts c') <= 65536 -> pool_extends (consts c') pool -> lenN pre = start -> polls m = None ->
    match seval o e (menv m) obj with
    | Ok v => runs_to o pool funcs fns obj (pre ++ code ++ post) (lenN pre) (lenN pre + lenN code) m (push m v)
    | Err x => fails_with o pool funcs fns obj (pre ++ code ++ post) (lenN pre) m x
    end.

Definition cc_res (o : stdlib) (e : expr) (c c' : cstate) : Prop :=
  cstate_ok c' /\ pool_extends (consts c) (consts c') /\
  exists code, emitted c c' code /\ sem1 o e c' (clen c) code.

Definition sems (o : stdlib) (l : list expr) (c' : cstate) (start : N) (code : list N) : Prop :=
  forall pool funcs fns obj pre post m,
    lenN (consts c') <= 65536 -> pool_extends (consts c') pool -> lenN pre = start -> polls m = None ->
    match sevals o l (menv m) obj with
    | Ok vs => runs_to o pool funcs fns obj (pre ++ code ++ post) (lenN pre) (lenN pre + lenN code) m
                 (set_stk m (rev vs ++ stk m))
    | Err x => fails_with o pool funcs fns obj (pre ++ code ++ post) (lenN pre) m x
    end.

Definition ccs_res (o : stdlib) (l : list expr) (c c' : cstate) : Prop :=
  cstate_ok c' /\ pool_extends (consts c) (consts c') /\
  exists code, emitted c c' code /\ sems o l c' (clen c) code.

Lemma sem1_use : forall o e c' start code, sem1 o e c' start code ->
  forall pool funcs fns obj main pre post m ip,
  main = pre ++ code ++ post -> ip = lenN pre -> ip = start ->
  lenN (consts c') <= 65536 -> pool_extends (consts c') pool -> polls m = None ->
  match seval o e (menv m) obj with
  | Ok v => runs_to o pool funcs fns obj main ip (ip + lenN code) m (push m v)
  | Err x => fails_with o pool funcs fns obj main ip m x
  end.
Proof. intros o e c' start code H pool funcs fns obj main pre post m ip -> -> Hs Hz Hp Hm. apply H; assumption. Qed.

Lemma sems_use : forall o l c' start code, sems o l c' start code ->
  forall pool funcs fns obj main pre post m ip,
  main = pre ++ code ++ post -> ip = lenN pre -> ip = start ->
  lenN (consts c') <= 65536 -> pool_extends (consts c') pool -> polls m = None ->
  match sevals o l (menv m) obj with
  | Ok vs => runs_to o pool funcs fns obj main ip (ip + lenN code) m (set_stk m (rev vs ++ stk m))
  | Err x => fails_with o pool funcs fns obj main ip m x
  end.
Proof. intros o l c' start code H pool funcs fns obj main pre post m ip -> -> Hs Hz Hp Hm. apply H; assumption. Qed.

Lemma emitted_len : forall c c' code,
  cstate_ok c -> cstate_ok c' -> emitted c c' code -> clen c' = clen c + lenN code.
Proof.
  unfold cstate_ok, emitted. intros c c' code H1 H2 H. rewrite H1, H2.
  rewrite <- (lenN_rev (crev c')), H, lenN_app, lenN_rev. reflexivity.
Qed.

Ltac list_eq := repeat rewrite <- app_assoc; reflexivity.

(* ------------------------------------------------------------------ *)
(* leaves *)

Lemma cc_nullary : forall o e op v c,
  cstate_ok c -> (forall en obj, seval o e en obj = Ok v) ->
  (forall pool funcs fns obj k main ip m,
     (lenN main <=? ip) = false -> polls m = None -> byte_at main ip = Some op ->
     exec o pool funcs fns obj (S k) main ip m = exec o pool funcs fns obj k main (ip + 1) (push m v)) ->
  cc_res o e c (emit0 op c).
Proof.
  intros o e op v c Hc Hev Hstep. split; [|split].
  - unfold cstate_ok in *. cbn [emit0 crev clen]. rewrite lenN_cons, Hc. lia.
  - apply pool_extends_refl.
  - exists [op]. split; [reflexivity|].
    intros pool funcs fns obj pre post m Hsz Hpool Hpre Hpolls. rewrite Hev.
    destruct (at_op1 (pre ++ [op] ++ post) pre post op (lenN pre) eq_refl eq_refl) as [Hl Hb].
    apply runs_to_step. intro k. apply Hstep; assumption.
Qed.

Lemma cc_push : forall o t z c,
  cstate_ok c -> inline_int z = true -> cc_res o (EInt t z) c (emit1' OpPush (Z.to_N z) c).
Proof.
  intros o t z c Hc Hz.
  unfold inline_int, inline_limit in Hz. apply andb_true_iff in Hz. destruct Hz as [Hz1 Hz2].
  apply Z.leb_le in Hz1. apply Z.leb_le in Hz2. change (Z.of_N 65534) with 65534%Z in Hz2.
  split; [|split].
  - unfold cstate_ok in *. cbn [emit1' emit1 snd crev clen]. rewrite !lenN_cons, Hc. lia.
  - apply pool_extends_refl.
  - exists [OpPush; hi_byte (Z.to_N z); lo_byte (Z.to_N z)]. split.
    + unfold emitted. cbn [emit1' emit1 snd crev rev]. list_eq.
    + intros pool funcs fns obj pre post m Hsz Hpool Hpre Hpolls. cbn [seval].
      destruct (at_op3 (pre ++ [OpPush; hi_byte (Z.to_N z); lo_byte (Z.to_N z)] ++ post) pre post
                  OpPush (hi_byte (Z.to_N z)) (lo_byte (Z.to_N z)) (lenN pre) eq_refl eq_refl) as (Hl & Hb & Ho).
      rewrite hi_lo in Ho by lia.
      apply runs_to_step. intro k.
      rewrite (exec_push o pool funcs fns obj k _ _ m (Z.to_N z) Hl Hpolls Hb Ho).
      rewrite Z2N.id by lia. reflexivity.
Qed.

Lemma cc_const : forall o e v c,
  cstate_ok c -> (forall en obj, seval o e en obj = Ok v) -> cc_res o e c (emit_const v c).
Proof.
  intros o e v c Hc Hev. unfold emit_const.
  destruct (add_const v c) as [i c1] eqn:E.
  destruct (add_emit_spec OpConstant v c i c1 E Hc) as (Hok & Hpe & Hem & Hn).
  split; [exact Hok|split; [exact Hpe|]].
  exists [OpConstant; hi_byte i; lo_byte i]. split; [exact Hem|].
  intros pool funcs fns obj pre post m Hsz Hpool Hpre Hpolls. rewrite Hev.
  assert (Hi : i < 65536) by (apply nthN_some_lt in Hn; lia).
  destruct (at_op3 (pre ++ [OpConstant; hi_byte i; lo_byte i] ++ post) pre post
              OpConstant (hi_byte i) (lo_byte i) (lenN pre) eq_refl eq_refl) as (Hl & Hb & Ho).
  rewrite hi_lo in Ho by exact Hi.
  apply runs_to_step. intro k.
  apply (exec_constant o pool funcs fns obj k _ _ m i v Hl Hpolls Hb Ho).
  eapply pool_extends_nth; eassumption.
Qed.

Lemma cc_ident : forall o name c i c1,
  cstate_ok c -> add_const (VStr name) c = (i, c1) ->
  cc_res o (EIdent name) c (emit1' OpLookup i c1).
Proof.
  intros o name c i c1 Hc E.
  destruct (add_emit_spec OpLookup (VStr name) c i c1 E Hc) as (Hok & Hpe & Hem & Hn).
  split; [exact Hok|split; [exact Hpe|]].
  exists [OpLookup; hi_byte i; lo_byte i]. split; [exact Hem|].
  intros pool funcs fns obj pre post m Hsz Hpool Hpre Hpolls. cbn [seval].
  assert (Hi : i < 65536) by (apply nthN_some_lt in Hn; lia).
  destruct (at_op3 (pre ++ [OpLookup; hi_byte i; lo_byte i] ++ post) pre post
              OpLookup (hi_byte i) (lo_byte i) (lenN pre) eq_refl eq_refl) as (Hl & Hb & Ho).
  rewrite hi_lo in Ho by exact Hi.
  assert (Hn' : nthN pool i = Some (VStr name)) by (eapply pool_extends_nth; eassumption).
  pose proof (fun k => exec_lookup o pool funcs fns obj k _ _ m i name Hl Hpolls Hb Ho Hn') as St.
  destruct (lookup o obj (menv m) name) as [v|x] eqn:El.
  - apply runs_to_step. exact St.
  - eapply fails_step. exact St.
Qed.

(* ------------------------------------------------------------------ *)
(* operators: operand code, then the instruction *)

Definition un_step (o : stdlib) (op : N) (f : value -> res value) : Prop :=
  forall pool funcs fns obj k main ip m a s,
  (lenN main <=? ip) = false -> polls m = None -> byte_at main ip = Some op -> stk m = a :: s ->
  exec o pool funcs fns obj (S k) main ip m =
  match f a with
  | Ok v => exec o pool funcs fns obj k main (ip + 1) (set_stk m (v :: s))
  | Err e => (OErr e, set_stk m s)
  end.

Definition bin_step (o : stdlib) (op : N) (f : value -> value -> res value) : Prop :=
  forall pool funcs fns obj k main ip m b a s,
  (lenN main <=? ip) = false -> polls m = None -> byte_at main ip = Some op -> stk m = b :: a :: s ->
  exec o pool funcs fns obj (S k) main ip m =
  match f a b with
  | Ok v => exec o pool funcs fns obj k main (ip + 1) (set_stk m (v :: s))
  | Err e => (OErr e, set_stk m s)
  end.

Lemma cc_unary : forall o e r op f c c1,
  cstate_ok c -> cc_res o r c c1 ->
  (forall en obj, seval o e en obj = do a <- seval o r en obj; f a) ->
  un_step o op f ->
  cc_res o e c (emit0 op c1).
Proof.
  intros o e r op f c c1 Hc (Hok1 & Hpe1 & code1 & Hem1 & Hs1) Hev Hstep.
  pose proof (emitted_len _ _ _ Hc Hok1 Hem1) as Hlen1.
  split; [|split].
  - unfold cstate_ok in *. cbn [emit0 crev clen]. rewrite lenN_cons, Hok1. lia.
  - exact Hpe1.
  - exists (code1 ++ [op]). split.
    + unfold emitted in *. cbn [emit0 crev rev]. rewrite Hem1. list_eq.
    + intros pool funcs fns obj pre post m Hsz Hpool Hpre Hpolls.
      cbn [emit0 consts] in Hsz, Hpool. rewrite Hev.
      set (main := pre ++ (code1 ++ [op]) ++ post).
      assert (M1 : main = pre ++ code1 ++ [op] ++ post) by (unfold main; list_eq).
      pose proof (sem1_use _ _ _ _ _ Hs1 pool funcs fns obj main pre ([op] ++ post) m (lenN pre)
                    M1 eq_refl Hpre Hsz Hpool Hpolls) as R1.
      destruct (seval o r (menv m) obj) as [a|x]; cbn [bind]; [|exact R1].
      assert (M2 : main = (pre ++ code1) ++ op :: post) by (unfold main; list_eq).
      assert (I2 : lenN pre + lenN code1 = lenN (pre ++ code1)) by (rewrite lenN_app; reflexivity).
      destruct (at_op1 main (pre ++ code1) post op _ M2 I2) as [Hl Hb].
      pose proof (fun k => Hstep pool funcs fns obj k main _ (push m a) a (stk m) Hl Hpolls Hb eq_refl) as St.
      replace (lenN pre + lenN (code1 ++ [op])) with (lenN pre + lenN code1 + 1)
        by (rewrite lenN_app; change (lenN [op]) with 1; lia).
      destruct (f a) as [v|x] eqn:Ef; try rewrite Ef in St.
      * eapply runs_to_trans; [exact R1|]. apply runs_to_step. exact St.
      * eapply runs_then_fails; [exact R1|]. eapply fails_step. exact St.
Qed.

Lemma cc_binary : forall o e l r op f c c1 c2,
  cstate_ok c -> cc_res o l c c1 -> cc_res o r c1 c2 ->
  (forall en obj, seval o e en obj = do a <- seval o l en obj; do b <- seval o r en obj; f a b) ->
  bin_step o op f ->
  cc_res o e c (emit0 op c2).
Proof.
  intros o e l r op f c c1 c2 Hc (Hok1 & Hpe1 & code1 & Hem1 & Hs1) (Hok2 & Hpe2 & code2 & Hem2 & Hs2) Hev Hstep.
  pose proof (emitted_len _ _ _ Hc Hok1 Hem1) as Hlen1.
  split; [|split].
  - unfold cstate_ok in *. cbn [emit0 crev clen]. rewrite lenN_cons, Hok2. lia.
  - cbn [emit0 consts]. eapply pool_extends_trans; eassumption.
  - exists (code1 ++ code2 ++ [op]). split.
    + unfold emitted in *. cbn [emit0 crev rev]. rewrite Hem2, Hem1. list_eq.
    + intros pool funcs fns obj pre post m Hsz Hpool Hpre Hpolls.
      cbn [emit0 consts] in Hsz, Hpool. rewrite Hev.
      set (main := pre ++ (code1 ++ code2 ++ [op]) ++ post).
      assert (Hsz1 : lenN (consts c1) <= 65536) by (apply pool_extends_len in Hpe2; lia).
      assert (Hpool1 : pool_extends (consts c1) pool) by (eapply pool_extends_trans; eassumption).
      assert (M1 : main = pre ++ code1 ++ (code2 ++ [op] ++ post)) by (unfold main; list_eq).
      pose proof (sem1_use _ _ _ _ _ Hs1 pool funcs fns obj main pre (code2 ++ [op] ++ post) m (lenN pre)
                    M1 eq_refl Hpre Hsz1 Hpool1 Hpolls) as R1.
      destruct (seval o l (menv m) obj) as [a|x]; cbn [bind]; [|exact R1].
      assert (M2 : main = (pre ++ code1) ++ code2 ++ ([op] ++ post)) by (unfold main; list_eq).
      assert (I2 : lenN pre + lenN code1 = lenN (pre ++ code1)) by (rewrite lenN_app; reflexivity).
      assert (S2 : lenN pre + lenN code1 = clen c1) by lia.
      pose proof (sem1_use _ _ _ _ _ Hs2 pool funcs fns obj main (pre ++ code1) ([op] ++ post) (push m a) _
                    M2 I2 S2 Hsz Hpool Hpolls) as R2.
      change (menv (push m a)) with (menv m) in R2.
      destruct (seval o r (menv m) obj) as [b|x]; cbn [bind].
      2:{ eapply runs_then_fails; [exact R1|exact R2]. }
      assert (M3 : main = (pre ++ code1 ++ code2) ++ op :: post) by (unfold main; list_eq).
      assert (I3 : lenN pre + lenN code1 + lenN code2 = lenN (pre ++ code1 ++ code2))
        by (rewrite !lenN_app; lia).
      destruct (at_op1 main (pre ++ code1 ++ code2) post op _ M3 I3) as [Hl Hb].
      pose proof (fun k => Hstep pool funcs fns obj k main _ (push (push m a) b) b a (stk m)
                            Hl Hpolls Hb eq_refl) as St.
      replace (lenN pre + lenN (code1 ++ code2 ++ [op])) with (lenN pre + lenN code1 + lenN code2 + 1)
        by (rewrite !lenN_app; change (lenN [op]) with 1; lia).
      destruct (f a b) as [v|x] eqn:Ef; try rewrite Ef in St.
      * eapply runs_to_trans; [exact R1|]. eapply runs_to_trans; [exact R2|].
        apply runs_to_step. exact St.
      * eapply runs_then_fails; [exact R1|]. eapply runs_then_fails; [exact R2|].
        eapply fails_step. exact St.
Qed.

Lemma bin_step_binop : forall o b, bin_step o (opcode_of_binop b) (spec_binop o b).
Proof.
  intros o b pool funcs fns obj k main ip m r l s Hl Hp Hb Hs.
  rewrite <- OpsProofs.binop_table. apply exec_binop; assumption.
Qed.

Lemma bin_step_index : forall o, bin_step o OpIndex (spec_index o).
Proof.
  intros o pool funcs fns obj k main ip m i l s Hl Hp Hb Hs.
  rewrite <- OpsProofs.index_table. apply exec_index; assumption.
Qed.

Lemma bin_step_range : forall o, bin_step o OpRange vm_range.
Proof.
  intros o pool funcs fns obj k main ip m b a s Hl Hp Hb Hs. apply exec_range; assumption.
Qed.

Lemma un_step_bang : forall o, un_step o OpBang (fun v => Ok (vm_bang v)).
Proof.
  intros o pool funcs fns obj k main ip m a s Hl Hp Hb Hs. apply exec_bang; assumption.
Qed.

Lemma un_step_minus : forall o, un_step o OpMinus vm_minus.
Proof.
  intros o pool funcs fns obj k main ip m a s Hl Hp Hb Hs. apply exec_minus; assumption.
Qed.

Lemma un_step_sqrt : forall o, un_step o OpSquareRoot vm_sqrt.
Proof.
  intros o pool funcs fns obj k main ip m a s Hl Hp Hb Hs. apply exec_sqrt; assumption.
Qed.

(* ------------------------------------------------------------------ *)
(* expression lists and array literals *)

Lemma ccs_nil : forall o c, cstate_ok c -> ccs_res o [] c c.
Proof.
  intros o c Hc. split; [exact Hc|split; [apply pool_extends_refl|]].
  exists []. split.
  - unfold emitted. symmetry. apply app_nil_r.
  - intros pool funcs fns obj pre post m Hsz Hpool Hpre Hpolls. cbn [sevals rev app].
    rewrite lenN_nil, N.add_0_r.
    replace (set_stk m (stk m)) with m by (destruct m; reflexivity).
    apply runs_to_refl.
Qed.

Lemma ccs_cons : forall o e l c c1 c2,
  cstate_ok c -> cc_res o e c c1 -> ccs_res o l c1 c2 -> ccs_res o (e :: l) c c2.
Proof.
  intros o e l c c1 c2 Hc (Hok1 & Hpe1 & code1 & Hem1 & Hs1) (Hok2 & Hpe2 & code2 & Hem2 & Hs2).
  pose proof (emitted_len _ _ _ Hc Hok1 Hem1) as Hlen1.
  split; [exact Hok2|split; [eapply pool_extends_trans; eassumption|]].
  exists (code1 ++ code2). split.
  - unfold emitted in *. rewrite Hem2, Hem1. list_eq.
  - intros pool funcs fns obj pre post m Hsz Hpool Hpre Hpolls. cbn [sevals].
    set (main := pre ++ (code1 ++ code2) ++ post).
    assert (Hsz1 : lenN (consts c1) <= 65536) by (apply pool_extends_len in Hpe2; lia).
    assert (Hpool1 : pool_extends (consts c1) pool) by (eapply pool_extends_trans; eassumption).
    assert (M1 : main = pre ++ code1 ++ (code2 ++ post)) by (unfold main; list_eq).
    pose proof (sem1_use _ _ _ _ _ Hs1 pool funcs fns obj main pre (code2 ++ post) m (lenN pre)
                  M1 eq_refl Hpre Hsz1 Hpool1 Hpolls) as R1.
    destruct (seval o e (menv m) obj) as [a|x]; cbn [bind]; [|exact R1].
    assert (M2 : main = (pre ++ code1) ++ code2 ++ post) by (unfold main; list_eq).
    assert (I2 : lenN pre + lenN code1 = lenN (pre ++ code1)) by (rewrite lenN_app; reflexivity).
    assert (S2 : lenN pre + lenN code1 = clen c1) by lia.
    pose proof (sems_use _ _ _ _ _ Hs2 pool funcs fns obj main (pre ++ code1) post (push m a) _
                  M2 I2 S2 Hsz Hpool Hpolls) as R2.
    change (menv (push m a)) with (menv m) in R2.
    destruct (sevals o l (menv m) obj) as [vs|x]; cbn [bind].
    2:{ eapply runs_then_fails; [exact R1|exact R2]. }
    replace (lenN pre + lenN (code1 ++ code2)) with (lenN pre + lenN code1 + lenN code2)
      by (rewrite lenN_app; lia).
    replace (set_stk m (rev (a :: vs) ++ stk m)) with (set_stk (push m a) (rev vs ++ stk (push m a)))
      by (cbn [rev]; rewrite <- app_assoc; reflexivity).
    eapply runs_to_trans; [exact R1|exact R2].
Qed.

Lemma cc_array : forall o l c c1,
  cstate_ok c -> lenN l < 65536 -> ccs_res o l c c1 ->
  cc_res o (EArray l) c (emit1' OpArray (lenN l) c1).
Proof.
  intros o l c c1 Hc Hn (Hok1 & Hpe1 & code1 & Hem1 & Hs1).
  pose proof (emitted_len _ _ _ Hc Hok1 Hem1) as Hlen1.
  set (h := hi_byte (lenN l)). set (lo := lo_byte (lenN l)).
  split; [|split].
  - unfold cstate_ok in *. cbn [emit1' emit1 snd crev clen]. rewrite !lenN_cons, Hok1. lia.
  - exact Hpe1.
  - exists (code1 ++ [OpArray; h; lo]). split.
    + unfold emitted in *. cbn [emit1' emit1 snd crev rev]. rewrite Hem1. list_eq.
    + intros pool funcs fns obj pre post m Hsz Hpool Hpre Hpolls.
      cbn [emit1' emit1 snd consts] in Hsz, Hpool. rewrite seval_array.
      set (main := pre ++ (code1 ++ [OpArray; h; lo]) ++ post).
      assert (M1 : main = pre ++ code1 ++ ([OpArray; h; lo] ++ post)) by (unfold main; list_eq).
      pose proof (sems_use _ _ _ _ _ Hs1 pool funcs fns obj main pre ([OpArray; h; lo] ++ post) m (lenN pre)
                    M1 eq_refl Hpre Hsz Hpool Hpolls) as R1.
      destruct (sevals o l (menv m) obj) as [vs|x] eqn:Ev; [|exact R1].
      assert (M2 : main = (pre ++ code1) ++ OpArray :: h :: lo :: post) by (unfold main; list_eq).
      assert (I2 : lenN pre + lenN code1 = lenN (pre ++ code1)) by (rewrite lenN_app; reflexivity).
      destruct (at_op3 main (pre ++ code1) post OpArray h lo _ M2 I2) as (Hl & Hb & Ho).
      unfold h, lo in Ho. rewrite hi_lo in Ho by exact Hn.
      assert (Hpop : pop_n (N.to_nat (lenN l)) (stk (set_stk m (rev vs ++ stk m))) [] = Some (vs, stk m)).
      { cbn [set_stk stk]. unfold lenN. rewrite Nat2N.id.
        rewrite <- (sevals_len _ _ _ _ _ Ev), <- (rev_length vs).
        rewrite pop_n_app. rewrite rev_involutive, app_nil_r. reflexivity. }
      replace (lenN pre + lenN (code1 ++ [OpArray; h; lo])) with (lenN pre + lenN code1 + 3)
        by (rewrite lenN_app; change (lenN [OpArray; h; lo]) with 3; lia).
      eapply runs_to_trans; [exact R1|]. apply runs_to_step. intro k.
      apply (exec_array o pool funcs fns obj k main _ (set_stk m (rev vs ++ stk m)) (lenN l) vs (stk m) Hl Hpolls Hb Ho Hpop).
Qed.

(* ------------------------------------------------------------------ *)
(* the compiler, one level *)

(* `a.b`: the left operand is compiled, the right one only names the member *)
Lemma compile_dot_eq : forall f l r c,
  compile_expr (S f) (EInfix TPeriod l r) c =
  cbind (compile_expr f l c) (fun _ c1 =>
  match estr 64 r with
  | None => CNeed
  | Some name => COk tt (emit0 OpIndex (emit_const (VStr name) c1))
  end).
Proof. reflexivity. Qed.

(* inversion of a successful compilation of `l.r`.  (Proof hygiene: `estr 64 r` is named before any
   step that the kernel re-checks by conversion; otherwise the fuel literal gets unrolled at Qed.) *)
Lemma compile_dot_inv : forall f l r c c',
  compile_expr (S f) (EInfix TPeriod l r) c = COk tt c' ->
  exists c1 name, compile_expr f l c = COk tt c1 /\ estr 64 r = Some name /\
                  c' = emit0 OpIndex (emit_const (VStr name) c1).
Proof.
  intros f l r c c' H. rewrite compile_dot_eq in H.
  destruct (estr 64 r) as [name|].
  - destruct (compile_expr f l c) as [[] c1| | |]; try discriminate. cbn [cbind] in H.
    injection H as <-. exists c1, name. repeat split.
  - destruct (compile_expr f l c) as [[] c1| | |]; discriminate.
Qed.

Lemma compile_infix_eq : forall f op l r c, op <> TPeriod ->
  compile_expr (S f) (EInfix op l r) c =
  cbind (compile_expr f l c) (fun _ c1 =>
  cbind (compile_expr f r c1) (fun _ c2 =>
  match infix_opcode op with
  | None => CErr
  | Some o =>
      if is_mutator op then
        match l with
        | EIdent name => COk tt (emit0 OpSet (emit_const (VStr name) (emit0 o c2)))
        | _ => CErr
        end
      else COk tt (emit0 o c2)
  end)).
Proof. intros f op l r c Hne. destruct op; try reflexivity. exfalso; apply Hne; reflexivity. Qed.

(* the code of `l.r` is the code of `l[name]` where name is the printed form of r *)
Lemma cc_dot : forall o l r name c c1,
  cstate_ok c -> cc_res o l c c1 -> estr 64 r = Some name ->
  cc_res o (EInfix TPeriod l r) c (emit0 OpIndex (emit_const (VStr name) c1)).
Proof.
  intros o l r name c c1 Hc R1 Hn.
  apply (cc_binary o _ l (EStr name) OpIndex (spec_index o) c c1 _ Hc R1).
  - apply cc_const; [exact (proj1 R1)|reflexivity].
  - intros en obj. cbn [seval]. rewrite Hn. destruct (seval o l en obj); reflexivity.
  - apply bin_step_index.
Qed.

Lemma compile_prefix_eq : forall f op r c,
  compile_expr (S f) (EPrefix op r) c =
  cbind (compile_expr f r c) (fun _ c1 =>
  match prefix_opcode op with Some o => COk tt (emit0 o c1) | None => CErr end).
Proof. reflexivity. Qed.

Lemma compile_index_eq : forall f l i c,
  compile_expr (S f) (EIndex l i) c =
  cbind (compile_expr f l c) (fun _ c1 =>
  cbind (compile_expr f i c1) (fun _ c2 => COk tt (emit0 OpIndex c2))).
Proof. reflexivity. Qed.

Lemma compile_array_eq : forall f l c,
  compile_expr (S f) (EArray l) c =
  cbind (compile_exprs f l c) (fun _ c1 => COk tt (emit1' OpArray (lenN l) c1)).
Proof. reflexivity. Qed.

Lemma compile_exprs_nil_eq : forall f c, compile_exprs (S f) [] c = COk tt c.
Proof. reflexivity. Qed.

Lemma compile_exprs_cons_eq : forall f e l c,
  compile_exprs (S f) (e :: l) c = cbind (compile_expr f e c) (fun _ c1 => compile_exprs f l c1).
Proof. reflexivity. Qed.

Ltac infix_case o e1 e2 c c1 c2 Hc R1 R2 :=
  match goal with
  | |- cc_res _ (EInfix TDotDot _ _) _ _ =>
      apply (cc_binary o _ e1 e2 OpRange vm_range c c1 c2 Hc R1 R2);
      [intros; reflexivity | apply bin_step_range]
  | |- cc_res _ (EInfix ?t _ _) _ _ =>
      let b := eval cbv in (binop_of_tok t) in
      match b with
      | Some ?b' =>
          apply (cc_binary o _ e1 e2 (opcode_of_binop b') (spec_binop o b') c c1 c2 Hc R1 R2);
          [intros; reflexivity | apply bin_step_binop]
      end
  end.

Lemma cc_fuel : forall o fuel,
  (forall e c c', pure_expr e = true -> cstate_ok c -> compile_expr fuel e c = COk tt c' -> cc_res o e c c') /\
  (forall l c c', forallb pure_expr l = true -> cstate_ok c -> compile_exprs fuel l c = COk tt c' -> ccs_res o l c c').
Proof.
  intros o. induction fuel as [|f [IHe IHl]].
  - split; intros; discriminate.
  - split.
    + intros e c c' Hp Hc H. destruct e; cbn [pure_expr] in Hp; try discriminate.
      * (* EInt *)
        cbn [compile_expr] in H. destruct (inline_int v) eqn:Ei; injection H as <-.
        -- apply cc_push; assumption.
        -- apply cc_const; [exact Hc|reflexivity].
      * (* EFloat *)
        cbn [compile_expr] in H. injection H as <-. apply cc_const; [exact Hc|reflexivity].
      * (* EStr *)
        cbn [compile_expr] in H. injection H as <-. apply cc_const; [exact Hc|reflexivity].
      * (* EBool *)
        cbn [compile_expr] in H. destruct b; injection H as <-.
        -- apply (cc_nullary o _ OpTrue (VBool true)); [exact Hc|reflexivity|].
           intros; apply exec_true; assumption.
        -- apply (cc_nullary o _ OpFalse (VBool false)); [exact Hc|reflexivity|].
           intros; apply exec_false; assumption.
      * (* ERegexp *)
        cbn [compile_expr] in H. injection H as <-. apply cc_const; [exact Hc|reflexivity].
      * (* EIdent *)
        cbn [compile_expr] in H. destruct (add_const (VStr name) c) as [i c1] eqn:E.
        injection H as <-. apply cc_ident; assumption.
      * (* EPrefix *)
        rewrite compile_prefix_eq in H. apply andb_true_iff in Hp. destruct Hp as [Hop Hp1].
        destruct (compile_expr f e c) as [[] c1| | |] eqn:E1; try discriminate. cbn [cbind] in H.
        pose proof (IHe e c c1 Hp1 Hc E1) as R1.
        destruct op; try discriminate; cbn [prefix_opcode] in H; injection H as <-.
        -- apply (cc_unary o _ e OpBang (fun v => Ok (vm_bang v)) c c1 Hc R1);
             [intros; reflexivity | apply un_step_bang].
        -- apply (cc_unary o _ e OpMinus vm_minus c c1 Hc R1);
             [intros; reflexivity | apply un_step_minus].
        -- apply (cc_unary o _ e OpSquareRoot vm_sqrt c c1 Hc R1);
             [intros; reflexivity | apply un_step_sqrt].
      * (* EInfix *)
        apply andb_true_iff in Hp. destruct Hp as [Hp Hp2].
        apply andb_true_iff in Hp. destruct Hp as [Hop Hp1].
        destruct (tokty_eq_dec op TPeriod) as [->|Hne].
        { (* `.`: the right operand is not compiled (pure_expr e2 is not needed here) *)
          destruct (compile_dot_inv _ _ _ _ _ H) as (c1 & name & E1 & En & ->).
          apply cc_dot; [exact Hc|exact (IHe e1 c c1 Hp1 Hc E1)|exact En]. }
        rewrite compile_infix_eq in H by exact Hne.
        destruct (compile_expr f e1 c) as [[] c1| | |] eqn:E1; try discriminate. cbn [cbind] in H.
        destruct (compile_expr f e2 c1) as [[] c2| | |] eqn:E2; try discriminate. cbn [cbind] in H.
        pose proof (IHe e1 c c1 Hp1 Hc E1) as R1.
        pose proof (IHe e2 c1 c2 Hp2 (proj1 R1) E2) as R2.
        destruct op; try discriminate; try (exfalso; apply Hne; reflexivity);
          cbn [infix_opcode is_mutator] in H; injection H as <-;
          infix_case o e1 e2 c c1 c2 Hc R1 R2.
      * (* EArray *)
        rewrite compile_array_eq in H. apply andb_true_iff in Hp. destruct Hp as [Hn Hall].
        apply N.ltb_lt in Hn.
        destruct (compile_exprs f l c) as [[] c1| | |] eqn:E1; try discriminate. cbn [cbind] in H.
        injection H as <-. apply cc_array; [exact Hc|exact Hn|]. apply IHl; assumption.
      * (* EIndex *)
        rewrite compile_index_eq in H. apply andb_true_iff in Hp. destruct Hp as [Hp1 Hp2].
        destruct (compile_expr f e1 c) as [[] c1| | |] eqn:E1; try discriminate. cbn [cbind] in H.
        destruct (compile_expr f e2 c1) as [[] c2| | |] eqn:E2; try discriminate. cbn [cbind] in H.
        pose proof (IHe e1 c c1 Hp1 Hc E1) as R1.
        pose proof (IHe e2 c1 c2 Hp2 (proj1 R1) E2) as R2.
        injection H as <-.
        apply (cc_binary o _ e1 e2 OpIndex (spec_index o) c c1 c2 Hc R1 R2);
          [intros; reflexivity | apply bin_step_index].
    + intros l c c' Hp Hc H. destruct l as [|e l].
      * rewrite compile_exprs_nil_eq in H. injection H as <-. apply ccs_nil. exact Hc.
      * rewrite compile_exprs_cons_eq in H. cbn [forallb] in Hp.
        apply andb_true_iff in Hp. destruct Hp as [Hp1 Hp2].
        destruct (compile_expr f e c) as [[] c1| | |] eqn:E1; try discriminate. cbn [cbind] in H.
        pose proof (IHe e c c1 Hp1 Hc E1) as R1.
        apply (ccs_cons o e l c c1 c'); [exact Hc|exact R1|].
        apply IHl; [exact Hp2|exact (proj1 R1)|exact H].
Qed.

(* ------------------------------------------------------------------ *)
(* C01 *)

Lemma expr_compile_correct : forall (o : stdlib) e,
  Spec.Eval.pure_expr e = true -> Spec.Eval.compile_correct o e.
Proof.
  intros o e Hp fuelc c c' Hc H.
  exact (proj1 (cc_fuel o fuelc) e c c' Hp Hc H).
Qed.

Lemma int_literal : forall (o : stdlib) consts funcs fns obj text (z : Z) c c' fuel,
  in_int64 z = true ->
  compile_expr fuel (EInt text z) c = COk tt c' ->
  Spec.Eval.literal_pushes o consts funcs fns obj c c' (VInt z).
Proof.
  intros o pool funcs fns obj text z c c' fuel Hz H Hc Hpool Hsz.
  destruct (proj1 (cc_fuel o fuel) (EInt text z) c c' Hz Hc H) as (_ & _ & code & Hem & Hs).
  exists code. split; [exact Hem|].
  intros pre post m Hpre Hpolls.
  exact (Hs pool funcs fns obj pre post m Hsz Hpool Hpre Hpolls).
Qed.

(* DetProofs.v - nothing observable depends on the (absent) order of a hash's pairs
   (property C19).  A hash is a list of pairs in arbitrary order; every consumer
   sorts it with the stable insertion sort [sort_by] on (printed key, key type).
   Complete proofs only; no axioms.  Depends on Model.Base and Model.Value only. *)
From Coq Require Import Floats Permutation Sorted Lia.
From EF Require Import Model.Base Model.Value.
Open Scope N_scope.

(* ------------------------------------------------------------------ *)
(* strings: str_eqb decides equality, str_ltb is a strict total order *)

Lemma det_str_eqb_refl : forall s, str_eqb s s = true.
Proof. induction s as [|x s IH]; simpl; [reflexivity | rewrite N.eqb_refl, IH; reflexivity]. Qed.

Lemma det_str_eqb_eq : forall a b, str_eqb a b = true -> a = b.
Proof.
  induction a as [|x a IH]; destruct b as [|y b]; simpl; intro H; try discriminate.
  - reflexivity.
  - apply andb_prop in H. destruct H as [H1 H2].
    apply N.eqb_eq in H1. apply IH in H2. subst. reflexivity.
Qed.

Lemma det_str_eqb_neq : forall a b, str_eqb a b = false -> a <> b.
Proof. intros a b H E. subst. rewrite det_str_eqb_refl in H. discriminate. Qed.

Lemma str_ltb_irrefl : forall a, str_ltb a a = false.
Proof. induction a as [|x a IH]; simpl; [reflexivity | rewrite N.ltb_irrefl; exact IH]. Qed.

Lemma str_ltb_trans : forall a b c,
  str_ltb a b = true -> str_ltb b c = true -> str_ltb a c = true.
Proof.
  induction a as [|x a IH]; destruct b as [|y b]; destruct c as [|z c]; simpl;
    try discriminate; try (intros; reflexivity).
  destruct (N.ltb_spec x y), (N.ltb_spec y x), (N.ltb_spec y z), (N.ltb_spec z y),
           (N.ltb_spec x z), (N.ltb_spec z x);
    try lia; try discriminate; try (intros; reflexivity).
  apply IH.
Qed.

Lemma str_ltb_trichotomy : forall a b,
  str_ltb a b = false -> str_ltb b a = false -> a = b.
Proof.
  induction a as [|x a IH]; destruct b as [|y b]; simpl; try discriminate.
  - reflexivity.
  - destruct (N.ltb_spec x y), (N.ltb_spec y x); try discriminate; try lia.
    intros H1 H2. f_equal; [lia | apply IH; assumption].
Qed.

(* ------------------------------------------------------------------ *)
(* consequences of being a strict total order *)

Section StrictOrder.
  Variable K : Type.
  Variable klt : K -> K -> bool.
  Hypothesis klt_irrefl : forall a, klt a a = false.
  Hypothesis klt_trans : forall a b c, klt a b = true -> klt b c = true -> klt a c = true.
  Hypothesis klt_trichotomy : forall a b, klt a b = false -> klt b a = false -> a = b.

  Lemma so_asym : forall a b, klt a b = true -> klt b a = false.
  Proof.
    intros a b H. destruct (klt b a) eqn:E; [|reflexivity].
    pose proof (klt_trans a b a H E) as H1. rewrite klt_irrefl in H1. discriminate.
  Qed.

  (* a <= b -> b <= c -> a <= c, with x <= y written [klt y x = false] *)
  Lemma so_le_trans : forall a b c,
    klt b a = false -> klt c b = false -> klt c a = false.
  Proof.
    intros a b c H1 H2. destruct (klt c a) eqn:E; [|reflexivity].
    destruct (klt a b) eqn:E2.
    - pose proof (klt_trans c a b E E2). congruence.
    - assert (a = b) by (apply klt_trichotomy; assumption). subst. congruence.
  Qed.

  (* ---------------------------------------------------------------- *)
  (* the stable insertion sort on keyed elements *)

  Variable A : Type.
  Variable key : A -> K.
  Local Notation ltA := (fun a b : A => klt (key a) (key b)).
  Local Notation leR := (fun a b : A => klt (key b) (key a) = false).

  Lemma det_sort_insert_perm : forall (lt : A -> A -> bool) x l,
    Permutation (x :: l) (sort_insert lt x l).
  Proof.
    intros lt x l. induction l as [|y l IH]; simpl.
    - apply Permutation_refl.
    - destruct (lt x y).
      + apply Permutation_refl.
      + eapply perm_trans; [apply perm_swap|]. apply perm_skip. exact IH.
  Qed.

  Lemma det_sort_by_perm : forall (lt : A -> A -> bool) l, Permutation l (sort_by lt l).
  Proof.
    intros lt l. unfold sort_by. induction l as [|x l IH]; simpl.
    - apply perm_nil.
    - eapply perm_trans; [apply perm_skip; exact IH|]. apply det_sort_insert_perm.
  Qed.

  Lemma sort_insert_sorted : forall x l,
    StronglySorted leR l ->
    StronglySorted leR (sort_insert (fun a b => negb (ltA b a)) x l).
  Proof.
    intros x l. induction l as [|y l IH]; intro Hs; simpl.
    - constructor; constructor.
    - inversion Hs as [|? ? Hs' Hall]; subst.
      destruct (klt (key y) (key x)) eqn:E; simpl.
      + constructor; [apply IH; exact Hs'|].
        eapply Permutation_Forall; [apply det_sort_insert_perm|].
        constructor; [apply so_asym; exact E | exact Hall].
      + constructor; [exact Hs|].
        constructor; [exact E|].
        eapply Forall_impl; [|exact Hall]. intros z Hz. simpl in *.
        eapply so_le_trans; eassumption.
  Qed.

  Lemma sort_by_sorted : forall l, StronglySorted leR (sort_by ltA l).
  Proof.
    unfold sort_by. induction l as [|x l IH]; simpl.
    - constructor.
    - apply sort_insert_sorted. exact IH.
  Qed.

  (* a sorted list is determined by its elements, as long as the order is
     antisymmetric on them *)
  Lemma sorted_perm_unique : forall (R : A -> A -> Prop) l l',
    StronglySorted R l -> StronglySorted R l' -> Permutation l l' ->
    (forall a b, In a l -> In b l -> R a b -> R b a -> a = b) ->
    l = l'.
  Proof.
    intros R. induction l as [|a l IH]; intros l' Hs Hs' Hp Hanti.
    - apply Permutation_nil in Hp. subst. reflexivity.
    - destruct l' as [|b l'].
      + apply Permutation_sym, Permutation_nil in Hp. discriminate.
      + inversion Hs as [|? ? Hsl Hal]; subst. inversion Hs' as [|? ? Hsl' Hal']; subst.
        assert (Hab : a = b).
        { assert (Ha : In a (b :: l')) by (eapply Permutation_in; [exact Hp | left; reflexivity]).
          assert (Hb : In b (a :: l)) by (eapply Permutation_in; [apply Permutation_sym; exact Hp | left; reflexivity]).
          destruct Ha as [Ha|Ha]; [symmetry; exact Ha|].
          destruct Hb as [Hb|Hb]; [exact Hb|].
          rewrite Forall_forall in Hal, Hal'.
          apply Hanti; [left; reflexivity | right; exact Hb | apply Hal; exact Hb | apply Hal'; exact Ha]. }
        subst b. f_equal. apply IH; try assumption.
        * eapply Permutation_cons_inv; exact Hp.
        * intros x y Hx Hy. apply Hanti; right; assumption.
  Qed.

  Lemma NoDup_map_In_inj : forall (l : list A) a b,
    NoDup (map key l) -> In a l -> In b l -> key a = key b -> a = b.
  Proof.
    induction l as [|x l IH]; intros a b Hnd Ha Hb E; [destruct Ha|].
    simpl in Hnd. inversion Hnd as [|? ? Hni Hnd']; subst.
    destruct Ha as [Ha|Ha]; destruct Hb as [Hb|Hb]; subst.
    - reflexivity.
    - exfalso. apply Hni. rewrite E. apply in_map. exact Hb.
    - exfalso. apply Hni. rewrite <- E. apply in_map. exact Ha.
    - apply IH; assumption.
  Qed.

  (* the point: with pairwise distinct sort keys the result of the stable sort
     does not depend on the order of the input *)
  Theorem sort_by_perm_invariant : forall l l',
    Permutation l l' -> NoDup (map key l) ->
    sort_by ltA l = sort_by ltA l'.
  Proof.
    intros l l' Hp Hnd.
    apply (sorted_perm_unique leR).
    - apply sort_by_sorted.
    - apply sort_by_sorted.
    - eapply perm_trans; [apply Permutation_sym, det_sort_by_perm|].
      eapply perm_trans; [exact Hp|]. apply det_sort_by_perm.
    - intros a b Ha Hb H1 H2. simpl in H1, H2.
      assert (Ha' : In a l) by (eapply Permutation_in; [apply Permutation_sym, det_sort_by_perm | exact Ha]).
      assert (Hb' : In b l) by (eapply Permutation_in; [apply Permutation_sym, det_sort_by_perm | exact Hb]).
      apply (NoDup_map_In_inj l); try assumption.
      apply klt_trichotomy; assumption.
  Qed.
End StrictOrder.

Lemma StronglySorted_map : forall A B (f : A -> B) (R : B -> B -> Prop) l,
  StronglySorted (fun a b => R (f a) (f b)) l -> StronglySorted R (map f l).
Proof.
  intros A B f R l H. induction H as [|a l Hs IH Hall]; simpl; constructor.
  - exact IH.
  - rewrite Forall_forall in *. intros y Hy. apply in_map_iff in Hy.
    destruct Hy as [x [Hx Hin]]. subst. apply Hall. exact Hin.
Qed.

(* ------------------------------------------------------------------ *)
(* the key order: lexicographic on the printed key, ties broken by type name *)

Lemma type_name_inj : forall a b, type_name a = type_name b -> a = b.
Proof. destruct a, b; intro H; try reflexivity; vm_compute in H; discriminate. Qed.

Lemma key_lt_irrefl : forall a, key_lt a a = false.
Proof. intros [s t]. unfold key_lt; simpl. rewrite det_str_eqb_refl. apply str_ltb_irrefl. Qed.

Lemma key_order_total : forall a b : str * vtype,
  key_lt a b = false -> key_lt b a = false -> a = b.
Proof.
  intros [s t] [s' t']. unfold key_lt; simpl.
  destruct (str_eqb s s') eqn:E.
  - apply det_str_eqb_eq in E. subst s'. rewrite det_str_eqb_refl. intros H1 H2.
    f_equal. apply type_name_inj. apply str_ltb_trichotomy; assumption.
  - destruct (str_eqb s' s) eqn:E'.
    + apply det_str_eqb_eq in E'. subst. rewrite det_str_eqb_refl in E. discriminate.
    + intros H1 H2. exfalso. apply (det_str_eqb_neq _ _ E).
      apply str_ltb_trichotomy; assumption.
Qed.

Lemma key_lt_trans : forall a b c, key_lt a b = true -> key_lt b c = true -> key_lt a c = true.
Proof.
  intros [s1 t1] [s2 t2] [s3 t3]. unfold key_lt; simpl.
  destruct (str_eqb s1 s2) eqn:E12; destruct (str_eqb s2 s3) eqn:E23.
  - apply det_str_eqb_eq in E12, E23. subst. rewrite det_str_eqb_refl. apply str_ltb_trans.
  - apply det_str_eqb_eq in E12. subst. rewrite E23. intros _ H; exact H.
  - apply det_str_eqb_eq in E23. subst. rewrite E12. intros H _; exact H.
  - intros H1 H2. destruct (str_eqb s1 s3) eqn:E13.
    + apply det_str_eqb_eq in E13. subst.
      pose proof (str_ltb_trans _ _ _ H1 H2) as H. rewrite str_ltb_irrefl in H. discriminate.
    + eapply str_ltb_trans; eassumption.
Qed.

(* ------------------------------------------------------------------ *)
(* opt_map *)

Lemma opt_map_perm_some : forall A B (f : A -> option B) l l',
  Permutation l l' -> forall r, opt_map f l = Some r ->
  exists r', opt_map f l' = Some r' /\ Permutation r r'.
Proof.
  intros A B f l l' Hp. induction Hp as [|x l l' Hp IH|x y l|l l' l'' Hp1 IH1 Hp2 IH2]; intros r H; simpl in *.
  - inversion H; subst. exists []. split; [reflexivity | constructor].
  - destruct (f x) as [fx|]; [|discriminate].
    destruct (opt_map f l) as [ys|]; [|discriminate].
    inversion H; subst. destruct (IH ys eq_refl) as [r' [H1 H2]].
    rewrite H1. exists (fx :: r'). split; [reflexivity | constructor; exact H2].
  - destruct (f y) as [fy|]; [|discriminate].
    destruct (f x) as [fx|]; [|discriminate].
    destruct (opt_map f l) as [ys|]; [|discriminate].
    inversion H; subst. exists (fx :: fy :: ys). split; [reflexivity | apply perm_swap].
  - destruct (IH1 r H) as [r' [H1 H2]]. destruct (IH2 r' H1) as [r'' [H3 H4]].
    exists r''. split; [exact H3 | eapply perm_trans; eassumption].
Qed.

Lemma opt_map_perm_none : forall A B (f : A -> option B) l l',
  Permutation l l' -> opt_map f l = None -> opt_map f l' = None.
Proof.
  intros A B f l l' Hp H. destruct (opt_map f l') as [r'|] eqn:E; [|reflexivity].
  destruct (opt_map_perm_some _ _ f l' l (Permutation_sym Hp) r' E) as [r [H1 _]].
  congruence.
Qed.

(* projecting a decoration: if g x = Some y implies f x = Some (p y) *)
Lemma opt_map_project : forall A B C (g : A -> option B) (f : A -> option C) (p : B -> C) l r,
  (forall x y, g x = Some y -> f x = Some (p y)) ->
  opt_map g l = Some r -> opt_map f l = Some (map p r).
Proof.
  intros A B C g f p l. induction l as [|x l IH]; intros r Hgf H; simpl in *.
  - inversion H; reflexivity.
  - destruct (g x) as [y|] eqn:Hy; [|discriminate].
    destruct (opt_map g l) as [ys|] eqn:Hys; [|discriminate].
    inversion H; subst. rewrite (Hgf x y Hy), (IH ys Hgf eq_refl). reflexivity.
Qed.

Lemma opt_map_Forall : forall A B (g : A -> option B) (P : B -> Prop) l r,
  (forall x y, g x = Some y -> P y) ->
  opt_map g l = Some r -> Forall P r.
Proof.
  intros A B g P l. induction l as [|x l IH]; intros r Hg H; simpl in *.
  - inversion H; constructor.
  - destruct (g x) as [y|] eqn:Hy; [|discriminate].
    destruct (opt_map g l) as [ys|] eqn:Hys; [|discriminate].
    inversion H; subst. constructor; [eapply Hg; exact Hy | apply IH; [exact Hg | reflexivity]].
Qed.

Lemma opt_map_of_Forall : forall A B C (f : A -> option C) (q : B -> A) (p : B -> C) (r : list B),
  Forall (fun d => f (q d) = Some (p d)) r ->
  opt_map f (map q r) = Some (map p r).
Proof.
  intros A B C f q p r H. induction H as [|d r Hd _ IH]; simpl.
  - reflexivity.
  - rewrite Hd, IH. reflexivity.
Qed.

(* ------------------------------------------------------------------ *)
(* hash_entries *)

Definition key_of (o : stdlib) (kx : value * value) : option (str * vtype) :=
  match inspect o (fst kx) with Some a => Some (a, type_of (fst kx)) | None => None end.

Definition decorate (o : stdlib) (kx : value * value) : option ((str * vtype) * (value * value)) :=
  match inspect o (fst kx) with Some a => Some ((a, type_of (fst kx)), kx) | None => None end.

Lemma hash_entries_unfold : forall o ps,
  hash_entries o ps =
  match opt_map (decorate o) ps with
  | Some es => Some (map snd (sort_by (fun a b => key_lt (fst a) (fst b)) es))
  | None => None
  end.
Proof. reflexivity. Qed.

Lemma decorate_key : forall o x y, decorate o x = Some y -> key_of o x = Some (fst y).
Proof.
  intros o x y H. unfold decorate, key_of in *. destruct (inspect o (fst x)); [|discriminate].
  inversion H; reflexivity.
Qed.

Lemma decorate_snd : forall o x y, decorate o x = Some y -> snd y = x.
Proof.
  intros o x y H. unfold decorate in H. destruct (inspect o (fst x)); [|discriminate].
  inversion H; reflexivity.
Qed.

Definition key_sort_invariant {P : Type} :=
  sort_by_perm_invariant (str * vtype) key_lt key_lt_irrefl key_lt_trans key_order_total
    ((str * vtype) * P) fst.

Lemma hash_entries_perm_invariant : forall o ps ps',
  Permutation ps ps' ->
  (forall ks, opt_map (fun kx => match inspect o (fst kx) with Some a => Some (a, type_of (fst kx)) | None => None end) ps = Some ks ->
   NoDup ks) ->
  hash_entries o ps = hash_entries o ps'.
Proof.
  intros o ps ps' Hp Hd. rewrite !hash_entries_unfold.
  destruct (opt_map (decorate o) ps) as [ds|] eqn:E.
  - destruct (opt_map_perm_some _ _ _ _ _ Hp ds E) as [ds' [E' Hp']]. rewrite E'.
    rewrite (key_sort_invariant ds ds' Hp'); [reflexivity|].
    apply Hd. apply (opt_map_project _ _ _ (decorate o) _ fst); [apply decorate_key | exact E].
  - rewrite (opt_map_perm_none _ _ _ _ _ Hp E). reflexivity.
Qed.

Lemma entries_sorted : forall o ps es keys,
  hash_entries o ps = Some es ->
  opt_map (fun kx => match inspect o (fst kx) with Some a => Some (a, type_of (fst kx)) | None => None end) es = Some keys ->
  StronglySorted (fun a b => key_lt b a = false) keys.
Proof.
  intros o ps es keys H Hk. rewrite hash_entries_unfold in H.
  destruct (opt_map (decorate o) ps) as [ds|] eqn:E; [|discriminate].
  inversion H; subst es; clear H.
  set (sd := sort_by (fun a b => key_lt (fst a) (fst b)) ds) in *.
  assert (Hall : Forall (fun d => key_of o (snd d) = Some (fst d)) sd).
  { eapply Permutation_Forall; [apply det_sort_by_perm|].
    eapply opt_map_Forall; [|exact E].
    intros x y Hy. simpl. rewrite (decorate_snd _ _ _ Hy). apply decorate_key. exact Hy. }
  pose proof (opt_map_of_Forall _ _ _ (key_of o) snd fst sd Hall) as Hk'.
  unfold key_of in Hk' at 1. rewrite Hk in Hk'. inversion Hk'; subst keys.
  apply StronglySorted_map.
  apply (sort_by_sorted (str * vtype) key_lt key_lt_irrefl key_lt_trans key_order_total _ fst).
Qed.

(* ------------------------------------------------------------------ *)
(* inspect of a hash *)

Definition decorate_text (o : stdlib) (kx : value * value) : option (str * vtype * str) :=
  match inspect o (fst kx), inspect o (snd kx) with
  | Some a, Some b => Some (a, type_of (fst kx), a ++ L ": " ++ b)
  | _, _ => None
  end.

Lemma inspect_hash_unfold : forall o ps,
  inspect o (VHash ps) =
  match opt_map (decorate_text o) ps with
  | Some es =>
      Some ([123] ++ join (L ", ") (map snd (sort_by (fun a b => key_lt (fst a) (fst b)) es)) ++ [125])
  | None => None
  end.
Proof.
  intros o ps. simpl.
  match goal with |- match ?g ps with _ => _ end = _ =>
    assert (Hgo : forall l, g l = opt_map (decorate_text o) l)
  end.
  { induction l as [|[k x] l IH]; [reflexivity|].
    simpl. unfold decorate_text at 1. simpl. rewrite <- IH.
    destruct (inspect o k); [|reflexivity].
    destruct (inspect o x); reflexivity. }
  rewrite Hgo. reflexivity.
Qed.

Lemma decorate_text_key : forall o x y, decorate_text o x = Some y -> key_of o x = Some (fst y).
Proof.
  intros o x y H. unfold decorate_text, key_of in *.
  destruct (inspect o (fst x)); [|discriminate].
  destruct (inspect o (snd x)); [|discriminate].
  inversion H; reflexivity.
Qed.

Lemma inspect_perm_invariant : forall o ps ps',
  Permutation ps ps' ->
  (forall ks, opt_map (fun kx => match inspect o (fst kx) with Some a => Some (a, type_of (fst kx)) | None => None end) ps = Some ks ->
   NoDup ks) ->
  inspect o (VHash ps) = inspect o (VHash ps').
Proof.
  intros o ps ps' Hp Hd. rewrite !inspect_hash_unfold.
  destruct (opt_map (decorate_text o) ps) as [ds|] eqn:E.
  - destruct (opt_map_perm_some _ _ _ _ _ Hp ds E) as [ds' [E' Hp']]. rewrite E'.
    rewrite (key_sort_invariant ds ds' Hp'); [reflexivity|].
    apply Hd. apply (opt_map_project _ _ _ (decorate_text o) _ fst); [apply decorate_text_key | exact E].
  - rewrite (opt_map_perm_none _ _ _ _ _ Hp E). reflexivity.
Qed.

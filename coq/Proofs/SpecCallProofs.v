(* SpecCallProofs.v - WHAT A FUNCTION CALL MEANS in the reference interpreter of Spec/ExecFun.v,
   in the words of property C06:

     "Calling a user-defined function binds its parameters, `local` variables and any foreach
      variables only for the duration of that call or loop: after the call returns - from anywhere,
      including from inside loops - the caller's variables of the same names have their old values
      and the callee's are gone, while assignments to other names are global and visible
      afterwards.  Functions may be called before their definition and recursively, return the
      value of their `return` (nothing if they have none), a wrong argument count or unknown
      function is a run-time error, and a built-in wins over a user-defined function of the same
      name."

   Every theorem is about `sx`/`sblock` of ExecFun.v themselves, for all programs, states, oracles
   and fuel.  Complete proofs only; no axioms.

   PART A  the environment under a call frame (`above`, exact truncation)
   PART B  block_keeps_below_marked: generic "what a run cannot reach" (one induction over the
           whole interpreter, used for call frames and for loop scopes);
           block_keeps_callers_scopes: whatever runs inside a frame leaves the caller's scopes
           exactly as they were, however it ends
   PART C  block_is_quiet: a run never touches the polling state and only extends the trace
   PART D  user_call (the call as an equation), user_call_inv, call_restores_callers_locals,
           failed_call_restores_callers_locals, return_value_is_the_calls_value,
           no_return_no_value, return_from_loops_closes_them, unknown_function_is_error,
           wrong_arity_is_error, too_deep_is_error, builtin_wins, host_function_wins
   PART E  callee_sees_parameters_not_callers_locals, callee_reads_ignore_callers_locals,
           callee_assignment_never_touches_callers_locals, assignment_to_other_names_is_global
   PART G  foreach_variables_scoped (locals of the loop variable's name are restored; globals NOT
           necessarily: Examples.loop_variable_global_counterexample)
   PART H  callee_cannot_observe_callers_locals: non-interference - the body's outcome does not
           depend on the caller's scopes at all (no dynamic scoping, for all programs)
   PART F  only_the_lookup_matters, definition_found_wherever_written (call before definition)
   PART X  examples by computation

   What a reader should know (all proved or shown below):
   - the arguments are evaluated BEFORE the name is looked up and the count checked: their effects
     happen and their errors win over "unknown function"/"wrong argument count";
   - the nesting limit (max_call_depth) counts OPEN SCOPES at the call site, loops included;
   - with duplicate parameter names the last one wins (Examples.duplicate_parameter_last_wins);
   - `return` of no value (VVoid) and falling off the end are the same to the caller;
   - a definition nested in another function's body is a definition of the script, callable
     before (and without) the enclosing function running (Examples.nested_definition_is_global);
   - an error inside the callee also closes the callee's scopes (the state carried by the error
     has the caller's scopes). *)
From Coq Require Import Floats Lia Bool List Permutation.
From EF Require Import Model.Base Gen.Tables Model.Lexer Model.Ast Model.Code Model.Value Model.Env
                       Model.Reflect Model.Builtins Model.Compiler Model.VM Spec.Ops Spec.Eval
                       Spec.Moded Spec.ExecFun.
From EF Require Import Proofs.SpecProofs.
From EF Require Proofs.ContainerProofs Proofs.EnvProofs Proofs.CallProofs.
Import ListNotations.
Open Scope N_scope.

(* ------------------------------------------------------------------ *)
(* PART A: the environment under a call frame.
   `above outer ss`: the open scopes ss are the caller's scopes `outer`, then a call frame, then
   whatever the running function has opened since (loops, frames of the calls it makes). *)

Definition above (outer ss : list (skind * scope)) : Prop :=
  exists inner s, ss = inner ++ (SFrame, s) :: outer.
Lemma above_frame : forall outer s, above outer ((SFrame, s) :: outer).
Proof. intros outer s. exists [], s. reflexivity. Qed.
Lemma above_cons : forall outer sc ss, above outer ss -> above outer (sc :: ss).
Proof. intros outer sc ss (inner & s & ->). exists (sc :: inner), s. reflexivity. Qed.
Lemma above_env_declare : forall outer e n v, above outer (scopes e) -> above outer (scopes (env_declare e n v)).
Proof.
  intros outer e n v (inner & s & E). unfold env_declare. rewrite E.
  destruct inner as [|[fr x] inner]; cbn [app scopes].
  - exists [], (assoc_set n v s). reflexivity.
  - exists ((fr, assoc_set n v x) :: inner), s. reflexivity.
Qed.
Lemma above_declare_all : forall outer ns vs e, above outer (scopes e) -> above outer (scopes (declare_all e ns vs)).
Proof.
  intros outer ns. induction ns as [|n ns IH]; intros vs e H; [exact H|]. destruct vs as [|v vs]; [exact H|].
  cbn [declare_all]. apply IH. apply above_env_declare. exact H.
Qed.

(* closing scopes down to the caller's depth gives the caller's scopes back, exactly *)
Lemma above_truncate : forall outer e, above outer (scopes e) ->
  env_truncate e (List.length outer) = mkEnv (globals e) outer.
Proof.
  intros outer e (inner & s & E). unfold env_truncate. rewrite E. f_equal.
  rewrite app_length. cbn [List.length].
  replace (List.length inner + S (List.length outer) - List.length outer)%nat with (List.length (inner ++ [(SFrame, s)])).
  2:{ rewrite app_length. cbn. lia. }
  replace (inner ++ (SFrame, s) :: outer) with ((inner ++ [(SFrame, s)]) ++ outer) by (rewrite <- app_assoc; reflexivity).
  rewrite skipn_app, skipn_all, Nat.sub_diag. reflexivity.
Qed.

(* reading and assigning inside the frame never look past it *)
Lemma env_get_above : forall g inner s outer1 outer2 n,
  env_get (mkEnv g (inner ++ (SFrame, s) :: outer1)) n = env_get (mkEnv g (inner ++ (SFrame, s) :: outer2)) n.
Proof. intros. unfold env_get. cbn [scopes globals]. rewrite (EnvProofs.local_get_frame n inner s outer1 outer2). reflexivity. Qed.

Lemma local_get_inner : forall n inner s outer,
  local_get n (inner ++ (SFrame, s) :: outer) = local_get n (inner ++ [(SFrame, s)]).
Proof. intros. apply (EnvProofs.local_get_frame n inner s outer []). Qed.

Lemma local_update_inner : forall n v inner s outer,
  local_update n v (inner ++ (SFrame, s) :: outer) = local_update n v (inner ++ [(SFrame, s)]) ++ outer.
Proof.
  intros n v inner s outer. induction inner as [|[fr x] inner IH]; cbn [app local_update].
  - destruct (assoc_get n s); reflexivity.
  - destruct (assoc_get n x); [cbn [app]; rewrite <- app_assoc; reflexivity|].
    destruct fr as [|k]; cbn [is_frame]; [cbn [app]; rewrite <- app_assoc; reflexivity|].
    rewrite IH. reflexivity.
Qed.

(* the final state of a run, however it ended *)
Definition state_of (r : sres) : mstate :=
  match r with XNormal m => m | XReturn _ m => m | XErr _ m => m end.

Lemma sx_array_S : forall o fns obj afs f l m,
  sx o fns obj afs (S f) (EArray l) m =
  then_ (sxs o fns obj afs f l m) (fun m1 =>
    match pop_n (List.length l) (stk m1) [] with
    | Some (elems, s) => XNormal (set_stk m1 (VArray elems :: s))
    | None => XErr EInternal m1
    end).
Proof. reflexivity. Qed.

Section Calls.
Variables (o : stdlib) (fns : fnmap) (obj : hostval) (afs : aftable).

Notation sx := (sx o fns obj afs).
Notation sxs := (sxs o fns obj afs).
Notation sstmt := (sstmt o fns obj afs).
Notation sblock := (sblock o fns obj afs).
Notation swhile := (swhile o fns obj afs).
Notation sforeach := (sforeach o fns obj afs).
Notation sswitch := (sswitch o fns obj afs).
Notation scase := (scase o fns obj afs).
Notation sdefaults := (sdefaults o fns obj afs).
Notation call_body := (call_body o fns afs).

(* ------------------------------------------------------------------ *)
(* PART B: WHAT A RUN CANNOT REACH.  Generic form: one open scope is MARKED by a property P that
   assignments and declarations preserve (for a call: "is the callee's frame"; for a loop: "binds
   the loop variable"), and the scopes below it satisfy a property Q that assignments passing
   through the marked scope preserve (for a call: "are exactly the caller's scopes"; for a loop:
   "bind the loop variable's name as they did").  Then Q holds of the scopes below the marked one
   after ANY run that starts at or above it - however the run ends (normally, by `return`, by an
   error, even by running out of fuel). *)
Section Marked.
Variable P : skind * scope -> Prop.
Variable Q : list (skind * scope) -> Prop.
Variable L : nat.
Hypothesis Q_len : forall outer, Q outer -> List.length outer = L.
Hypothesis P_declare : forall n v k sc, P (k, sc) -> P (k, assoc_set n v sc).
Hypothesis PQ_update : forall n v inner b outer, P b -> Q outer ->
  exists inner' b' outer', local_update n v (inner ++ b :: outer) = inner' ++ b' :: outer' /\ P b' /\ Q outer'.

Definition gabove (ss : list (skind * scope)) : Prop :=
  exists inner b outer, ss = inner ++ b :: outer /\ P b /\ Q outer.
Definition gabove1 (ss : list (skind * scope)) : Prop :=
  match ss with [] => False | _ :: rest => gabove rest end.

Lemma gabove_cons : forall sc ss, gabove ss -> gabove (sc :: ss).
Proof. intros sc ss (inner & b & outer & -> & Hp & Hq). exists (sc :: inner), b, outer. repeat split; assumption. Qed.
Lemma gabove1_gabove : forall ss, gabove1 ss -> gabove ss.
Proof. intros [|sc ss] H; [contradiction|]. apply gabove_cons. exact H. Qed.
Lemma gabove_depth : forall ss, gabove ss -> (S L <= List.length ss)%nat.
Proof.
  intros ss (inner & b & outer & -> & Hp & Hq). rewrite app_length. cbn [List.length]. rewrite (Q_len _ Hq). lia.
Qed.
Lemma gabove_local_update : forall n v ss, gabove ss -> gabove (local_update n v ss).
Proof.
  intros n v ss (inner & b & outer & -> & Hp & Hq).
  destruct (PQ_update n v inner b outer Hp Hq) as (inner' & b' & outer' & -> & Hp' & Hq').
  exists inner', b', outer'. repeat split; assumption.
Qed.
Lemma gabove_env_set : forall e n v, gabove (scopes e) -> gabove (scopes (env_set e n v)).
Proof.
  intros e n v H. unfold env_set. destruct (local_get n (scopes e)); cbn [scopes]; [|exact H].
  apply gabove_local_update. exact H.
Qed.
Lemma gabove_env_declare : forall e n v, gabove (scopes e) -> gabove (scopes (env_declare e n v)).
Proof.
  intros e n v (inner & b & outer & E & Hp & Hq). unfold env_declare. rewrite E.
  destruct inner as [|[fr x] inner]; cbn [app scopes].
  - destruct b as [k sc]. exists [], (k, assoc_set n v sc), outer. repeat split; [apply P_declare; exact Hp|exact Hq].
  - exists ((fr, assoc_set n v x) :: inner), b, outer. repeat split; assumption.
Qed.
Lemma gabove1_env_declare : forall e n v, gabove1 (scopes e) -> gabove1 (scopes (env_declare e n v)).
Proof.
  intros e n v H. unfold env_declare. destruct (scopes e) as [|[fr x] ss] eqn:E; [contradiction|].
  cbn [scopes gabove1] in *. exact H.
Qed.
Lemma gabove_declare_all : forall ns vs e, gabove (scopes e) -> gabove (scopes (declare_all e ns vs)).
Proof.
  intros ns. induction ns as [|n ns IH]; intros vs e H; [exact H|]. destruct vs as [|v vs]; [exact H|].
  cbn [declare_all]. apply IH. apply gabove_env_declare. exact H.
Qed.
(* closing scopes down to a depth that is still at or above the marked scope *)
Lemma gabove_skipn : forall ss d, gabove ss -> (S L <= d)%nat -> gabove (skipn (List.length ss - d) ss).
Proof.
  intros ss d (inner & b & outer & -> & Hp & Hq) Hd.
  assert (K : (List.length (inner ++ b :: outer) - d <= List.length inner)%nat).
  { rewrite app_length. cbn [List.length]. rewrite (Q_len _ Hq). lia. }
  remember (List.length (inner ++ b :: outer) - d)%nat as k.
  exists (skipn k inner), b, outer. split; [|split; assumption].
  rewrite skipn_app. replace (k - List.length inner)%nat with 0%nat by lia. reflexivity.
Qed.
(* a state with the same kinds of scopes as one that has a scope open above the marked one has one too *)
Lemma gabove1_of_kinds : forall ss ss0, gabove ss -> gabove1 ss0 -> map fst ss = map fst ss0 -> gabove1 ss.
Proof.
  intros ss ss0 (inner & b & outer & -> & Hp & Hq) H0 K.
  destruct ss0 as [|sc0 ss0]; [contradiction|]. destruct H0 as (inner0 & b0 & outer0 & -> & Hp0 & Hq0).
  apply (f_equal (@List.length skind)) in K. rewrite !map_length in K.
  cbn [List.length] in K. rewrite !app_length in K. cbn [List.length] in K.
  rewrite (Q_len _ Hq), (Q_len _ Hq0) in K.
  destruct inner as [|sc inner]; [cbn in K; lia|]. cbn [app gabove1]. exists inner, b, outer. repeat split; assumption.
Qed.
(* ... and one with the same kinds as a state whose TOP scope is the marked one has it on top *)
Lemma gabove_top_of_kinds : forall ss b0 outer0, gabove ss -> Q outer0 -> map fst ss = map fst (b0 :: outer0) ->
  exists b outer, ss = b :: outer /\ P b /\ Q outer.
Proof.
  intros ss b0 outer0 (inner & b & outer & -> & Hp & Hq) Hq0 K.
  apply (f_equal (@List.length skind)) in K. rewrite !map_length in K.
  cbn [List.length] in K. rewrite !app_length in K. cbn [List.length] in K.
  rewrite (Q_len _ Hq), (Q_len _ Hq0) in K.
  destruct inner as [|sc inner]; [|cbn in K; lia]. exists b, outer. repeat split; assumption.
Qed.

Definition keepsA (m : mstate) (r : sres) : Prop :=
  gabove (scopes (menv m)) -> gabove (scopes (menv (state_of r))).
(* the loop of a foreach closes the loop's scope at the end: it must be one opened above the marked scope *)
Definition keepsL (m : mstate) (r : sres) : Prop :=
  gabove1 (scopes (menv m)) -> gabove (scopes (menv (state_of r))).

Lemma keepsA_then : forall m r k,
  keepsA m r -> (forall m1, r = XNormal m1 -> keepsA m1 (k m1)) -> keepsA m (then_ r k).
Proof.
  intros m [m1|v m1|x m1] k H Hk; cbn [then_]; [|exact H|exact H].
  intros Ho. apply (Hk m1 eq_refl). apply (H Ho).
Qed.
Lemma keepsA_pop1s : forall m k, (forall v s, keepsA m (k v (set_stk m s))) -> keepsA m (pop1s m k).
Proof. intros m k H. unfold pop1s. destruct (stk m); [intros Ho; exact Ho|apply H]. Qed.
Lemma keepsA_pop2s : forall m k, (forall a b s, keepsA m (k a b (set_stk m s))) -> keepsA m (pop2s m k).
Proof. intros m k H. unfold pop2s. destruct (stk m) as [|a [|b s]]; [intros Ho; exact Ho|intros Ho; exact Ho|apply H]. Qed.
Lemma keepsA_pushr : forall m r, keepsA m (pushr m r).
Proof. intros m [v|x] Ho; exact Ho. Qed.
Lemma keepsA_same : forall m r, menv (state_of r) = menv m -> keepsA m r.
Proof. intros m r E Ho. rewrite E. exact Ho. Qed.

Lemma call_body_above : forall (xa : list expr -> mstate -> sres) (xb : list stmt -> mstate -> sres) oname args m,
  (forall l m, keepsA m (xa l m)) -> (forall b m, keepsA m (xb b m)) ->
  keepsA m (call_body xa xb oname args m).
Proof.
  intros xa xb [name|] args m Ha Hb; [|apply keepsA_same; reflexivity]. unfold SpecProofs.call_body.
  apply keepsA_then; [apply Ha|]. intros m1 _.
  destruct (pop_n (List.length args) (stk m1) []) as [[vals s]|]; [|apply keepsA_same; reflexivity].
  destruct (fn_get name fns) as [[bn|k]|].
  - destruct (call_builtin o bn vals) as [r|]; [|apply keepsA_same; reflexivity].
    destruct (of_bres r); apply keepsA_same; reflexivity.
  - cbv zeta. destruct (host_call k vals); apply keepsA_same; reflexivity.
  - destruct (af_get name afs) as [af|]; [|apply keepsA_same; reflexivity].
    destruct (negb (Nat.eqb (List.length (aparams af)) (List.length vals))); [apply keepsA_same; reflexivity|].
    destruct (negb (max_call_depth =? 0) && (max_call_depth <=? N.of_nat (env_depth (menv m1)))); [apply keepsA_same; reflexivity|].
    cbv zeta.
    set (m0 := mkM [] (declare_all (env_push_frame (menv m1)) (aparams af) vals) (trace m1) (polls m1)).
    intros Ho.
    assert (H0 : gabove (scopes (menv m0))).
    { unfold m0. cbn [menv]. apply gabove_declare_all. cbn [env_push_frame scopes]. apply gabove_cons. exact Ho. }
    pose proof (Hb (abody af) m0 H0) as H2.
    pose proof (gabove_depth _ Ho) as D. fold (env_depth (menv m1)) in D.
    destruct (xb (abody af) m0) as [m2|out m2|x m2]; cbn [state_of menv env_truncate scopes] in H2 |- *;
      apply gabove_skipn; assumption.
Qed.

Definition ABOVE (f : nat) : Prop :=
  (forall e m, keepsA m (sx f e m)) /\
  (forall l m, keepsA m (sxs f l m)) /\
  (forall s m, keepsA m (sstmt f s m)) /\
  (forall b m, keepsA m (sblock f b m)) /\
  (forall c body m, keepsA m (swhile f c body m)) /\
  (forall idx ident it off body m, keepsL m (sforeach f idx ident it off body m)) /\
  (forall v rest all m, keepsA m (sswitch f v rest all m)) /\
  (forall v es blk rest all m, keepsA m (scase f v es blk rest all m)) /\
  (forall all m, keepsA m (sdefaults f all m)).

Lemma keepsA_set_env : forall m n v (s : list value),
  keepsA m (XNormal (set_menv (set_stk m s) (env_set (menv (set_stk m s)) n v))).
Proof. intros m n v s Ho. cbn [state_of set_menv set_stk menv]. apply gabove_env_set. exact Ho. Qed.

Lemma sx_step_above : forall f, ABOVE f -> forall e m, keepsA m (sx (S f) e m).
Proof.
  intros f (Hx & Hxs & Hst & Hb & Hw & Hf & Hsw & Hc & Hd) e m.
  destruct e as [t z|t x|s|b|v fl|n|op r|op l r|n op|c t e'|l|l|l i|fn args|n v|n|c cns alt|c body|idx ident v body|n ps b|v cs].
  1-5: apply keepsA_same; reflexivity.
  - (* EIdent *) cbn [ExecFun.sx]. apply keepsA_pushr.
  - (* EPrefix *) cbn [ExecFun.sx]. apply keepsA_then; [apply Hx|]. intros m1 _.
    apply keepsA_pop1s. intros v s. apply (keepsA_pushr (set_stk m1 s)).
  - (* EInfix *)
    destruct (tokty_eq_dec op TPeriod) as [->|Hne].
    { rewrite sx_dot_S. generalize (estr 64 r) as on. intro on.
      apply keepsA_then; [apply Hx|]. intros m1 _.
      apply keepsA_pop1s. intros v s. apply (keepsA_pushr (set_stk m1 s)). }
    rewrite sx_infix_S by exact Hne. apply keepsA_then; [apply Hx|]. intros m1 _.
    apply keepsA_then; [apply Hx|]. intros m2 _.
    destruct (mutator_op op).
    + destruct l; try (apply keepsA_same; reflexivity). apply keepsA_pop2s. intros a b' s.
      destruct (spec_binop o b b' a); [|apply keepsA_same; reflexivity]. apply keepsA_set_env.
    + apply keepsA_pop2s. intros a b s. apply (keepsA_pushr (set_stk m2 s)).
  - (* EPostfix *) cbn [ExecFun.sx]. destruct (lookup o obj (menv m) n) as [v|x]; [|apply keepsA_same; reflexivity].
    destruct (match v with VInt z => _ | VFloat x => _ | _ => None end) as [v'|]; [|apply keepsA_same; reflexivity].
    cbv zeta. destruct (stk (set_menv m (env_set (menv m) (trim_dollar n) v')));
      intros Ho; cbn [state_of set_menv set_stk menv]; apply gabove_env_set; exact Ho.
  - (* ETernary *) rewrite sx_ternary_S. apply keepsA_then; [apply Hx|]. intros m1 _.
    apply keepsA_pop1s. intros v s. destruct (truthy v); apply (Hx _ (set_stk m1 s)).
  - (* EArray *) cbn [ExecFun.sx]. apply keepsA_then; [apply Hxs|]. intros m1 _.
    destruct (pop_n (List.length l) (stk m1) []) as [[elems s]|]; apply keepsA_same; reflexivity.
  - (* EHash *) apply keepsA_same; reflexivity.
  - (* EIndex *) cbn [ExecFun.sx]. apply keepsA_then; [apply Hx|]. intros m1 _.
    apply keepsA_then; [apply Hx|]. intros m2 _.
    apply keepsA_pop2s. intros a b s. apply (keepsA_pushr (set_stk m2 s)).
  - (* ECall *) rewrite sx_call_S. apply call_body_above; [apply Hxs|apply Hb].
  - (* EAssign *) cbn [ExecFun.sx]. apply keepsA_then; [apply Hx|]. intros m1 _.
    apply keepsA_pop1s. intros x s. apply keepsA_set_env.
  - (* ELocal *) cbn [ExecFun.sx]. intros Ho. cbn [state_of set_menv menv]. apply gabove_env_declare. exact Ho.
  - (* EIf *) rewrite sx_if_S. apply keepsA_then; [apply Hx|]. intros m1 _.
    apply keepsA_pop1s. intros v s. destruct (truthy v); [apply (Hb _ (set_stk m1 s))|].
    destruct alt; [apply (Hb _ (set_stk m1 s))|apply keepsA_same; reflexivity].
  - (* EWhile *) rewrite sx_while_S. apply Hw.
  - (* EForeach *) rewrite sx_foreach_S. apply keepsA_then; [apply Hx|]. intros m1 _.
    cbv zeta. destruct (stk m1) as [|it s] eqn:Es.
    + intros Ho. cbn [state_of set_menv menv env_push scopes]. apply gabove_cons. exact Ho.
    + destruct (iterable it).
      * intros Ho. apply (Hf idx ident it 0 body _). cbn [menv env_push scopes gabove1]. exact Ho.
      * intros Ho. cbn [state_of menv env_push scopes]. apply gabove_cons. exact Ho.
  - (* EFunction *) apply keepsA_same; reflexivity.
  - (* ESwitch *) rewrite sx_switch_S. apply Hsw.
Qed.

Lemma above_all : forall f, ABOVE f.
Proof.
  induction f as [|f IH].
  - unfold ABOVE. refine (conj _ (conj _ (conj _ (conj _ (conj _ (conj _ (conj _ (conj _ _))))))));
      intros; try (apply keepsA_same; reflexivity).
    intros Ho. apply gabove1_gabove. exact Ho.
  - pose proof IH as (Hx & Hxs & Hst & Hb & Hw & Hf & Hsw & Hc & Hd).
    unfold ABOVE. refine (conj _ (conj _ (conj _ (conj _ (conj _ (conj _ (conj _ (conj _ _)))))))).
    + apply sx_step_above. exact IH.
    + intros l m. rewrite sxs_S. destruct l as [|e l]; [apply keepsA_same; reflexivity|].
      apply keepsA_then; [apply Hx|]. intros m1 _. apply Hxs.
    + intros s m. rewrite sstmt_S. destruct s.
      * apply keepsA_then; [apply Hx|]. intros m1 _. apply keepsA_pop1s. intros v s. apply keepsA_same; reflexivity.
      * apply Hx.
    + intros b m. rewrite sblock_S. destruct b as [|s b]; [apply keepsA_same; reflexivity|].
      apply keepsA_then; [apply Hst|]. intros m1 _. apply Hb.
    + intros c body m. rewrite swhile_S. apply keepsA_then; [apply Hx|]. intros m1 _.
      apply keepsA_pop1s. intros v s. destruct (truthy v); [|apply keepsA_same; reflexivity].
      apply keepsA_then; [apply (Hb _ (set_stk m1 s))|]. intros m3 _. apply Hw.
    + intros idx ident it off body m. rewrite sforeach_S.
      destruct (foreach_next o it off) as [[[x k]|]|x].
      * cbv zeta. set (mb := mkM _ _ _ _). intros Ho.
        assert (H1 : gabove1 (scopes (menv mb))).
        { unfold mb. cbn [menv]. destruct idx; [|apply gabove1_env_declare]; apply gabove1_env_declare; exact Ho. }
        pose proof (Hb body mb (gabove1_gabove _ H1)) as H2.
        destruct (sblock f body mb) as [m1|v m1|e m1] eqn:E; cbn [then_]; [|exact H2|exact H2].
        cbn [state_of] in H2.
        assert (H3 : gabove1 (scopes (menv m1))).
        { apply (gabove1_of_kinds _ (scopes (menv mb))); [exact H2|exact H1|].
          apply (sblock_keeps_scopes o fns obj afs f body mb m1 E). }
        destruct (drop_residue (menv m1) (stk m1)) as [|top s']; [exact H2|].
        destruct top; try (destruct (iterable _)); try exact H2.
        apply (Hf _ _ _ _ _ (set_stk m1 s')). exact H3.
      * unfold env_pop. intros Ho. destruct (scopes (menv m)) as [|sc ss] eqn:E; [contradiction|].
        cbn [state_of set_menv menv scopes]. exact Ho.
      * intros Ho. apply gabove1_gabove. exact Ho.
    + intros v rest all m. rewrite sswitch_S.
      destruct rest as [|[[[] es] blk] rest]; [apply Hd|apply Hsw|apply Hc].
    + intros v es blk rest all m. rewrite scase_S. destruct es as [|e es]; [apply Hsw|].
      apply keepsA_then; [apply Hx|]. intros m1 _.
      apply keepsA_then; [apply Hx|]. intros m2 _.
      apply keepsA_pop2s. intros c subj s. destruct (vm_case o subj c) as [r|x]; [|apply keepsA_same; reflexivity].
      destruct (truthy r); [apply (Hb _ (set_stk m2 s))|apply (Hc _ _ _ _ _ (set_stk m2 s))].
    + intros all m. rewrite sdefaults_S.
      destruct all as [|[[[] es] blk] rest]; [apply keepsA_same; reflexivity| |apply Hd].
      apply keepsA_then; [apply Hb|]. intros m1 _. apply Hd.
Qed.

Theorem block_keeps_below_marked : forall fuel b m,
  gabove (scopes (menv m)) -> gabove (scopes (menv (state_of (sblock fuel b m)))).
Proof. intros fuel b m H. destruct (above_all fuel) as (_ & _ & _ & Kb & _). apply (Kb b m H). Qed.

End Marked.

(* THE CALLER'S SCOPES ARE OUT OF REACH.  A block run inside a call frame - the frame, then any
   loops and `local`s and nested calls - ends, HOWEVER it ends, in a state whose scopes below the
   frame are exactly the caller's: same scopes, same names, same values. *)
Theorem block_keeps_callers_scopes : forall fuel b m outer,
  above outer (scopes (menv m)) -> above outer (scopes (menv (state_of (sblock fuel b m)))).
Proof.
  intros fuel b m outer (inner & s & E).
  destruct (block_keeps_below_marked (fun b => fst b = SFrame) (fun ou => ou = outer) (List.length outer)) with (fuel := fuel) (b := b) (m := m)
    as (inner' & [k s'] & outer' & E' & Hk & ->).
  - intros ou ->. reflexivity.
  - intros n v k sc H. exact H.
  - intros n v inner0 [k sc] ou Hk ->. cbn [fst] in Hk. subst k.
    destruct (EnvProofs.local_update_frame n v inner0 sc outer) as (inner' & s' & -> & _).
    exists inner', (SFrame, s'), outer. repeat split.
  - exists inner, (SFrame, s), outer. repeat split. exact E.
  - cbn [fst] in Hk. subst k. exists inner', s'. exact E'.
Qed.

(* ------------------------------------------------------------------ *)
(* PART C: what a run can change besides the environment: it may add host calls to the trace;
   the polling state is never touched. *)

Definition quiet (m : mstate) (r : sres) : Prop :=
  polls (state_of r) = polls m /\ exists t, trace (state_of r) = t ++ trace m.

Lemma quiet_same : forall m r, polls (state_of r) = polls m -> trace (state_of r) = trace m -> quiet m r.
Proof. intros m r Hp Ht. split; [exact Hp|]. exists []. exact Ht. Qed.
Lemma quiet_trans : forall m m1 r, quiet m (XNormal m1) -> quiet m1 r -> quiet m r.
Proof.
  intros m m1 r (P1 & t1 & T1) (P2 & t2 & T2). cbn [state_of] in *. split; [congruence|].
  exists (t2 ++ t1). rewrite T2, T1, app_assoc. reflexivity.
Qed.
Lemma quiet_then : forall m r k,
  quiet m r -> (forall m1, r = XNormal m1 -> quiet m1 (k m1)) -> quiet m (then_ r k).
Proof.
  intros m [m1|v m1|x m1] k H Hk; cbn [then_]; [|exact H|exact H].
  apply (quiet_trans m m1); [exact H|apply Hk; reflexivity].
Qed.
Lemma quiet_pop1s : forall m k, (forall v s, quiet m (k v (set_stk m s))) -> quiet m (pop1s m k).
Proof. intros m k H. unfold pop1s. destruct (stk m); [apply quiet_same; reflexivity|apply H]. Qed.
Lemma quiet_pop2s : forall m k, (forall a b s, quiet m (k a b (set_stk m s))) -> quiet m (pop2s m k).
Proof. intros m k H. unfold pop2s. destruct (stk m) as [|a [|b s]]; [apply quiet_same; reflexivity|apply quiet_same; reflexivity|apply H]. Qed.
Lemma quiet_pushr : forall m r, quiet m (pushr m r).
Proof. intros m [v|x]; apply quiet_same; reflexivity. Qed.

Lemma call_body_quiet : forall (xa : list expr -> mstate -> sres) (xb : list stmt -> mstate -> sres) oname args m,
  (forall l m, quiet m (xa l m)) -> (forall b m, quiet m (xb b m)) ->
  quiet m (call_body xa xb oname args m).
Proof.
  intros xa xb [name|] args m Ha Hb; [|apply quiet_same; reflexivity]. unfold SpecProofs.call_body.
  apply quiet_then; [apply Ha|]. intros m1 _.
  destruct (pop_n (List.length args) (stk m1) []) as [[vals s]|]; [|apply quiet_same; reflexivity].
  destruct (fn_get name fns) as [[bn|k]|].
  - destruct (call_builtin o bn vals) as [r|]; [|apply quiet_same; reflexivity].
    destruct (of_bres r); apply quiet_same; reflexivity.
  - cbv zeta. destruct (host_call k vals); (split; [reflexivity|exists [mkCall name vals]; reflexivity]).
  - destruct (af_get name afs) as [af|]; [|apply quiet_same; reflexivity].
    destruct (negb (Nat.eqb (List.length (aparams af)) (List.length vals))); [apply quiet_same; reflexivity|].
    destruct (negb (max_call_depth =? 0) && (max_call_depth <=? N.of_nat (env_depth (menv m1)))); [apply quiet_same; reflexivity|].
    cbv zeta.
    set (m0 := mkM [] (declare_all (env_push_frame (menv m1)) (aparams af) vals) (trace m1) (polls m1)).
    pose proof (Hb (abody af) m0) as H2.
    destruct (xb (abody af) m0) as [m2|out m2|x m2]; exact H2.
Qed.

Definition QUIET (f : nat) : Prop :=
  (forall e m, quiet m (sx f e m)) /\
  (forall l m, quiet m (sxs f l m)) /\
  (forall s m, quiet m (sstmt f s m)) /\
  (forall b m, quiet m (sblock f b m)) /\
  (forall c body m, quiet m (swhile f c body m)) /\
  (forall idx ident it off body m, quiet m (sforeach f idx ident it off body m)) /\
  (forall v rest all m, quiet m (sswitch f v rest all m)) /\
  (forall v es blk rest all m, quiet m (scase f v es blk rest all m)) /\
  (forall all m, quiet m (sdefaults f all m)).

Lemma sx_step_quiet : forall f, QUIET f -> forall e m, quiet m (sx (S f) e m).
Proof.
  intros f (Hx & Hxs & Hst & Hb & Hw & Hf & Hsw & Hc & Hd) e m.
  destruct e as [t z|t x|s|b|v fl|n|op r|op l r|n op|c t e'|l|l|l i|fn args|n v|n|c cns alt|c body|idx ident v body|n ps b|v cs].
  1-5: apply quiet_same; reflexivity.
  - cbn [ExecFun.sx]. apply quiet_pushr.
  - cbn [ExecFun.sx]. apply quiet_then; [apply Hx|]. intros m1 _.
    apply quiet_pop1s. intros v s. apply (quiet_pushr (set_stk m1 s)).
  - (* EInfix *)
    destruct (tokty_eq_dec op TPeriod) as [->|Hne].
    { rewrite sx_dot_S. generalize (estr 64 r) as on. intro on.
      apply quiet_then; [apply Hx|]. intros m1 _.
      apply quiet_pop1s. intros v s. apply (quiet_pushr (set_stk m1 s)). }
    rewrite sx_infix_S by exact Hne. apply quiet_then; [apply Hx|]. intros m1 _.
    apply quiet_then; [apply Hx|]. intros m2 _.
    destruct (mutator_op op).
    + destruct l; try (apply quiet_same; reflexivity). apply quiet_pop2s. intros a b' s.
      destruct (spec_binop o b b' a); apply quiet_same; reflexivity.
    + apply quiet_pop2s. intros a b s. apply (quiet_pushr (set_stk m2 s)).
  - cbn [ExecFun.sx]. destruct (lookup o obj (menv m) n) as [v|x]; [|apply quiet_same; reflexivity].
    destruct (match v with VInt z => _ | VFloat x => _ | _ => None end) as [v'|]; [|apply quiet_same; reflexivity].
    cbv zeta. destruct (stk (set_menv m (env_set (menv m) (trim_dollar n) v'))); apply quiet_same; reflexivity.
  - rewrite sx_ternary_S. apply quiet_then; [apply Hx|]. intros m1 _.
    apply quiet_pop1s. intros v s. destruct (truthy v); apply (Hx _ (set_stk m1 s)).
  - cbn [ExecFun.sx]. apply quiet_then; [apply Hxs|]. intros m1 _.
    destruct (pop_n (List.length l) (stk m1) []) as [[elems s]|]; apply quiet_same; reflexivity.
  - apply quiet_same; reflexivity.
  - cbn [ExecFun.sx]. apply quiet_then; [apply Hx|]. intros m1 _.
    apply quiet_then; [apply Hx|]. intros m2 _.
    apply quiet_pop2s. intros a b s. apply (quiet_pushr (set_stk m2 s)).
  - rewrite sx_call_S. apply call_body_quiet; [apply Hxs|apply Hb].
  - cbn [ExecFun.sx]. apply quiet_then; [apply Hx|]. intros m1 _.
    apply quiet_pop1s. intros x s. apply quiet_same; reflexivity.
  - apply quiet_same; reflexivity.
  - rewrite sx_if_S. apply quiet_then; [apply Hx|]. intros m1 _.
    apply quiet_pop1s. intros v s. destruct (truthy v); [apply (Hb _ (set_stk m1 s))|].
    destruct alt; [apply (Hb _ (set_stk m1 s))|apply quiet_same; reflexivity].
  - rewrite sx_while_S. apply Hw.
  - rewrite sx_foreach_S. apply quiet_then; [apply Hx|]. intros m1 _.
    cbv zeta. destruct (stk m1) as [|it s] eqn:Es; [apply quiet_same; reflexivity|].
    destruct (iterable it); [|apply quiet_same; reflexivity].
    apply (Hf idx ident it 0 body (mkM s (env_push (menv m1) (lenN (it :: s))) (trace m1) (polls m1))).
  - apply quiet_same; reflexivity.
  - rewrite sx_switch_S. apply Hsw.
Qed.

Lemma quiet_all : forall f, QUIET f.
Proof.
  induction f as [|f IH].
  - unfold QUIET. refine (conj _ (conj _ (conj _ (conj _ (conj _ (conj _ (conj _ (conj _ _))))))));
      intros; apply quiet_same; reflexivity.
  - pose proof IH as (Hx & Hxs & Hst & Hb & Hw & Hf & Hsw & Hc & Hd).
    unfold QUIET. refine (conj _ (conj _ (conj _ (conj _ (conj _ (conj _ (conj _ (conj _ _)))))))).
    + apply sx_step_quiet. exact IH.
    + intros l m. rewrite sxs_S. destruct l as [|e l]; [apply quiet_same; reflexivity|].
      apply quiet_then; [apply Hx|]. intros m1 _. apply Hxs.
    + intros s m. rewrite sstmt_S. destruct s.
      * apply quiet_then; [apply Hx|]. intros m1 _. apply quiet_pop1s. intros v s. apply quiet_same; reflexivity.
      * apply Hx.
    + intros b m. rewrite sblock_S. destruct b as [|s b]; [apply quiet_same; reflexivity|].
      apply quiet_then; [apply Hst|]. intros m1 _. apply Hb.
    + intros c body m. rewrite swhile_S. apply quiet_then; [apply Hx|]. intros m1 _.
      apply quiet_pop1s. intros v s. destruct (truthy v); [|apply quiet_same; reflexivity].
      apply quiet_then; [apply (Hb _ (set_stk m1 s))|]. intros m3 _. apply Hw.
    + intros idx ident it off body m. rewrite sforeach_S.
      destruct (foreach_next o it off) as [[[x k]|]|x].
      * cbv zeta. set (mb := mkM _ _ _ _).
        apply (quiet_trans m mb); [apply quiet_same; reflexivity|].
        apply quiet_then; [apply Hb|]. intros m1 _.
        destruct (drop_residue (menv m1) (stk m1)) as [|top s']; [apply quiet_same; reflexivity|].
        destruct top; try (destruct (iterable _)); try (apply quiet_same; reflexivity).
        apply (Hf _ _ _ _ _ (set_stk m1 s')).
      * destruct (env_pop (menv m)); apply quiet_same; reflexivity.
      * apply quiet_same; reflexivity.
    + intros v rest all m. rewrite sswitch_S.
      destruct rest as [|[[[] es] blk] rest]; [apply Hd|apply Hsw|apply Hc].
    + intros v es blk rest all m. rewrite scase_S. destruct es as [|e es]; [apply Hsw|].
      apply quiet_then; [apply Hx|]. intros m1 _.
      apply quiet_then; [apply Hx|]. intros m2 _.
      apply quiet_pop2s. intros c subj s. destruct (vm_case o subj c) as [r|x]; [|apply quiet_same; reflexivity].
      destruct (truthy r); [apply (Hb _ (set_stk m2 s))|apply (Hc _ _ _ _ _ (set_stk m2 s))].
    + intros all m. rewrite sdefaults_S.
      destruct all as [|[[[] es] blk] rest]; [apply quiet_same; reflexivity| |apply Hd].
      apply quiet_then; [apply Hb|]. intros m1 _. apply Hd.
Qed.

Theorem block_is_quiet : forall fuel b m,
  polls (state_of (sblock fuel b m)) = polls m /\ exists t, trace (state_of (sblock fuel b m)) = t ++ trace m.
Proof. intros fuel b m. destruct (quiet_all fuel) as (_ & _ & _ & Kb & _). apply Kb. Qed.
Theorem sxs_is_quiet : forall fuel l m,
  polls (state_of (sxs fuel l m)) = polls m /\ exists t, trace (state_of (sxs fuel l m)) = t ++ trace m.
Proof. intros fuel l m. destruct (quiet_all fuel) as (_ & Kb & _). apply Kb. Qed.


(* ------------------------------------------------------------------ *)
(* PART D: THE CALL OF A USER-DEFINED FUNCTION *)

(* the name of the called function: the printed form of the callee expression; for `f(...)` it is f *)
Lemma callee_name_ident : forall n, estr 64 (EIdent n) = Some n.
Proof. reflexivity. Qed.

(* the state in which the body of the callee starts: an EMPTY stack, a fresh frame on top of the
   caller's scopes holding the parameters, the caller's globals, trace and polling state *)
Definition callee_entry (m1 : mstate) (af : afunc) (vals : list value) : mstate :=
  mkM [] (declare_all (env_push_frame (menv m1)) (aparams af) vals) (trace m1) (polls m1).
(* the value of a call goes on the caller's stack - unless there is none *)
Definition ret_stack (v : value) (s : list value) : list value :=
  match v with VVoid => s | _ => v :: s end.
(* the caller's state after the call: ITS scopes as they were when the arguments had been
   evaluated (m1), ITS polling state; the globals and the trace as the callee left them (m2) *)
Definition after_call (m1 m2 : mstate) (st : list value) : mstate :=
  mkM st (mkEnv (globals (menv m2)) (scopes (menv m1))) (trace m2) (polls m1).
(* how the body ended: with a value (VVoid: none) *)
Definition body_end (r : sres) : option (value * mstate) :=
  match r with XNormal m2 => Some (VVoid, m2) | XReturn v m2 => Some (v, m2) | XErr _ _ => None end.
Definition depth_ok (m1 : mstate) : Prop :=
  max_call_depth = 0 \/ N.of_nat (env_depth (menv m1)) < max_call_depth.

Lemma depth_ok_inv : forall d : nat,
  negb (max_call_depth =? 0) && (max_call_depth <=? N.of_nat d) = false ->
  max_call_depth = 0 \/ N.of_nat d < max_call_depth.
Proof.
  intros d H. destruct (max_call_depth =? 0) eqn:E.
  - left. apply N.eqb_eq. exact E.
  - right. cbn [negb andb] in H. apply N.leb_gt. exact H.
Qed.

Lemma callee_entry_above : forall m1 af vals,
  above (scopes (menv m1)) (scopes (menv (callee_entry m1 af vals))).
Proof. intros. unfold callee_entry. cbn [menv]. apply above_declare_all. apply above_frame. Qed.

(* closing the callee's scopes *)
Lemma back_is_after_call : forall fuel b m1 af vals st,
  let r := sblock fuel b (callee_entry m1 af vals) in
  mkM st (env_truncate (menv (state_of r)) (env_depth (menv m1))) (trace (state_of r)) (polls (state_of r))
  = after_call m1 (state_of r) st.
Proof.
  intros fuel b m1 af vals st r. unfold after_call, env_depth.
  rewrite (above_truncate (scopes (menv m1)) (menv (state_of r))).
  2:{ apply block_keeps_callers_scopes. apply callee_entry_above. }
  destruct (block_is_quiet fuel b (callee_entry m1 af vals)) as (Hp & _). fold r in Hp. rewrite Hp. reflexivity.
Qed.

(* THE CALL, as an equation: name resolved to a user-defined function, arguments evaluated to
   vals (popped off the stack, s is what is left), argument count right, not too deep. *)
Theorem user_call : forall f fn name args m m1 vals s af,
  estr 64 fn = Some name ->
  sxs f args m = XNormal m1 -> pop_n (List.length args) (stk m1) [] = Some (vals, s) ->
  fn_get name fns = None -> af_get name afs = Some af ->
  List.length (aparams af) = List.length vals -> depth_ok m1 ->
  sx (S f) (ECall fn args) m =
  match sblock f (abody af) (callee_entry m1 af vals) with
  | XNormal m2 => XNormal (after_call m1 m2 s)
  | XReturn v m2 => XNormal (after_call m1 m2 (ret_stack v s))
  | XErr x m2 => XErr x (after_call m1 m2 s)
  end.
Proof.
  intros f fn name args m m1 vals s af Hn Ha Hp Hf Haf Hl Hd.
  rewrite sx_call_S, Hn. unfold SpecProofs.call_body. rewrite Ha. cbn [then_]. rewrite Hp, Hf, Haf.
  apply Nat.eqb_eq in Hl. rewrite Hl. cbn [negb]. rewrite (CallProofs.depth_ok _ Hd). cbv zeta.
  fold (callee_entry m1 af vals).
  pose proof (fun st => back_is_after_call f (abody af) m1 af vals st) as B. cbv zeta in B.
  destruct (sblock f (abody af) (callee_entry m1 af vals)) as [m2|v m2|x m2]; cbn [state_of] in B; rewrite B; reflexivity.
Qed.

Lemma pop_n_length : forall n st acc vals s,
  pop_n n st acc = Some (vals, s) -> List.length vals = (n + List.length acc)%nat.
Proof.
  induction n as [|n IH]; intros st acc vals s H; cbn [pop_n] in H.
  - injection H as <- _. reflexivity.
  - destruct st as [|v st]; [discriminate|]. apply IH in H. rewrite H. cbn [List.length]. lia.
Qed.

(* what it means that the call of a user-defined function completed *)
Definition user_call_completes (f : nat) (af : afunc) (args : list expr) (m m1 : mstate)
                               (vals s : list value) (v : value) (m2 m' : mstate) : Prop :=
  sxs f args m = XNormal m1 /\ pop_n (List.length args) (stk m1) [] = Some (vals, s) /\
  List.length (aparams af) = List.length args /\ List.length vals = List.length args /\ depth_ok m1 /\
  body_end (sblock f (abody af) (callee_entry m1 af vals)) = Some (v, m2) /\
  m' = after_call m1 m2 (ret_stack v s).

(* ... and conversely: a call that resolves to a user-defined function and completes did all that *)
Theorem user_call_inv : forall f fn name args m m' af,
  estr 64 fn = Some name -> fn_get name fns = None -> af_get name afs = Some af ->
  sx (S f) (ECall fn args) m = XNormal m' ->
  exists m1 vals s v m2, user_call_completes f af args m m1 vals s v m2 m'.
Proof.
  intros f fn name args m m' af Hn Hf Haf H.
  rewrite sx_call_S, Hn in H. unfold SpecProofs.call_body in H.
  destruct (sxs f args m) as [m1| |] eqn:Ha; cbn [then_] in H; try discriminate.
  destruct (pop_n (List.length args) (stk m1) []) as [[vals s]|] eqn:Hp; [|discriminate].
  rewrite Hf, Haf in H.
  destruct (Nat.eqb (List.length (aparams af)) (List.length vals)) eqn:Hl; cbn [negb] in H; [|discriminate].
  destruct (negb (max_call_depth =? 0) && (max_call_depth <=? N.of_nat (env_depth (menv m1)))) eqn:Hd; [discriminate|].
  cbv zeta in H. fold (callee_entry m1 af vals) in H.
  apply Nat.eqb_eq in Hl. apply depth_ok_inv in Hd.
  pose proof (pop_n_length _ _ _ _ _ Hp) as Hv. cbn [List.length] in Hv. rewrite Nat.add_0_r in Hv.
  pose proof (fun st => back_is_after_call f (abody af) m1 af vals st) as B. cbv zeta in B.
  destruct (sblock f (abody af) (callee_entry m1 af vals)) as [m2|v m2|x m2] eqn:Eb; cbn [state_of] in B;
    [| |discriminate]; rewrite B in H; injection H as <-.
  - exists m1, vals, s, VVoid, m2. unfold user_call_completes. rewrite Eb. repeat split; try assumption; congruence.
  - exists m1, vals, s, v, m2. unfold user_call_completes. rewrite Eb. repeat split; try assumption; congruence.
Qed.

(* 1. AFTER THE CALL THE CALLER'S VARIABLES ARE WHAT THEY WERE.
   If the call `fn(args)` of a user-defined function completes - the body returned from anywhere,
   also from inside nested loops, or fell off its end - then the caller's open scopes are EXACTLY
   those it had when the arguments had been evaluated: same scopes, same names, same values.  The
   callee could not change them, and its own parameters, locals and loop variables are gone.  The
   stack is the caller's stack (the arguments popped) with the value of the call pushed, if there
   is one.  What else changed: the globals, and host calls were added to the trace. *)
Theorem call_restores_callers_locals : forall f fn name args m m' af,
  estr 64 fn = Some name -> fn_get name fns = None -> af_get name afs = Some af ->
  sx (S f) (ECall fn args) m = XNormal m' ->
  exists m1 vals s v m2,
    user_call_completes f af args m m1 vals s v m2 m' /\
    scopes (menv m') = scopes (menv m1) /\
    stk m' = ret_stack v s /\
    globals (menv m') = globals (menv m2) /\
    polls m' = polls m /\
    (exists t, trace m' = t ++ trace m) /\
    (forall n, local_get n (scopes (menv m')) = local_get n (scopes (menv m1))).
Proof.
  intros f fn name args m m' af Hn Hf Haf H.
  destruct (user_call_inv f fn name args m m' af Hn Hf Haf H) as (m1 & vals & s & v & m2 & C).
  exists m1, vals, s, v, m2. split; [exact C|].
  destruct C as (Ha & Hp & Hl & Hv & Hd & Hb & ->). cbn [after_call menv scopes globals stk polls trace].
  destruct (sxs_is_quiet f args m) as (P1 & t1 & T1). rewrite Ha in P1, T1. cbn [state_of] in P1, T1.
  destruct (block_is_quiet f (abody af) (callee_entry m1 af vals)) as (P2 & t2 & T2).
  assert (E2 : state_of (sblock f (abody af) (callee_entry m1 af vals)) = m2).
  { destruct (sblock f (abody af) (callee_entry m1 af vals)); cbn in Hb |- *; congruence. }
  rewrite E2 in P2, T2. cbn [callee_entry trace polls] in T2.
  repeat split; try reflexivity; [exact P1|].
  exists (t2 ++ t1). rewrite T2, T1, app_assoc. reflexivity.
Qed.

(* the same when the callee fails: the error leaves the caller's scopes as they were *)
Theorem failed_call_restores_callers_locals : forall f fn name args m m1 vals s af x m',
  estr 64 fn = Some name ->
  sxs f args m = XNormal m1 -> pop_n (List.length args) (stk m1) [] = Some (vals, s) ->
  fn_get name fns = None -> af_get name afs = Some af ->
  sx (S f) (ECall fn args) m = XErr x m' ->
  scopes (menv m') = scopes (menv m1) /\ stk m' = s.
Proof.
  intros f fn name args m m1 vals s af x m' Hn Ha Hp Hf Haf H.
  rewrite sx_call_S, Hn in H. unfold SpecProofs.call_body in H. rewrite Ha in H. cbn [then_] in H.
  rewrite Hp, Hf, Haf in H.
  destruct (negb (Nat.eqb (List.length (aparams af)) (List.length vals))); [injection H as _ <-; split; reflexivity|].
  destruct (negb (max_call_depth =? 0) && (max_call_depth <=? N.of_nat (env_depth (menv m1)))); [injection H as _ <-; split; reflexivity|].
  cbv zeta in H. fold (callee_entry m1 af vals) in H.
  pose proof (fun st => back_is_after_call f (abody af) m1 af vals st) as B. cbv zeta in B.
  destruct (sblock f (abody af) (callee_entry m1 af vals)) as [m2|v m2|x2 m2]; cbn [state_of] in B; try discriminate.
  rewrite B in H. injection H as _ <-. split; reflexivity.
Qed.

(* 7. THE VALUE OF THE CALL is the value of the `return` that ended the body ... *)
Theorem return_value_is_the_calls_value : forall f fn name args m m1 vals s af v m2,
  estr 64 fn = Some name ->
  sxs f args m = XNormal m1 -> pop_n (List.length args) (stk m1) [] = Some (vals, s) ->
  fn_get name fns = None -> af_get name afs = Some af ->
  List.length (aparams af) = List.length vals -> depth_ok m1 ->
  sblock f (abody af) (callee_entry m1 af vals) = XReturn v m2 ->
  sx (S f) (ECall fn args) m = XNormal (after_call m1 m2 (ret_stack v s)) /\
  (v <> VVoid -> stk (after_call m1 m2 (ret_stack v s)) = v :: s).
Proof.
  intros f fn name args m m1 vals s af v m2 Hn Ha Hp Hf Haf Hl Hd Hb.
  rewrite (user_call f fn name args m m1 vals s af Hn Ha Hp Hf Haf Hl Hd), Hb. split; [reflexivity|].
  intros Hv. cbn [after_call stk]. destruct v; try reflexivity. contradiction.
Qed.
(* ... and a body that falls off its end gives the call NO value: nothing is pushed *)
Theorem no_return_no_value : forall f fn name args m m1 vals s af m2,
  estr 64 fn = Some name ->
  sxs f args m = XNormal m1 -> pop_n (List.length args) (stk m1) [] = Some (vals, s) ->
  fn_get name fns = None -> af_get name afs = Some af ->
  List.length (aparams af) = List.length vals -> depth_ok m1 ->
  sblock f (abody af) (callee_entry m1 af vals) = XNormal m2 ->
  sx (S f) (ECall fn args) m = XNormal (after_call m1 m2 s) /\ stk (after_call m1 m2 s) = s.
Proof.
  intros f fn name args m m1 vals s af m2 Hn Ha Hp Hf Haf Hl Hd Hb.
  rewrite (user_call f fn name args m m1 vals s af Hn Ha Hp Hf Haf Hl Hd), Hb. split; reflexivity.
Qed.
(* a `return` from inside loops leaves their scopes open in the callee's final state
   (SpecProofs.sblock_return_scopes); the call closes them all *)
Theorem return_from_loops_closes_them : forall f af m1 vals v m2,
  sblock f (abody af) (callee_entry m1 af vals) = XReturn v m2 ->
  exists loops s, scopes (menv m2) = loops ++ (SFrame, s) :: scopes (menv m1).
Proof.
  intros f af m1 vals v m2 H.
  pose proof (block_keeps_callers_scopes f (abody af) _ _ (callee_entry_above m1 af vals)) as A.
  rewrite H in A. exact A.
Qed.

(* 6. THE ERRORS AND THE PRIORITY RULE.  In every case the arguments are evaluated first (their
   effects happen, their errors win); then the name is looked up among the built-ins and host
   functions, only then among the script's functions. *)
Theorem unknown_function_is_error : forall f fn name args m m1 vals s,
  estr 64 fn = Some name ->
  sxs f args m = XNormal m1 -> pop_n (List.length args) (stk m1) [] = Some (vals, s) ->
  fn_get name fns = None -> af_get name afs = None ->
  sx (S f) (ECall fn args) m = XErr EScript (set_stk m1 s).
Proof.
  intros f fn name args m m1 vals s Hn Ha Hp Hf Haf.
  rewrite sx_call_S, Hn. unfold SpecProofs.call_body. rewrite Ha. cbn [then_]. rewrite Hp, Hf, Haf. reflexivity.
Qed.
Theorem wrong_arity_is_error : forall f fn name args m m1 vals s af,
  estr 64 fn = Some name ->
  sxs f args m = XNormal m1 -> pop_n (List.length args) (stk m1) [] = Some (vals, s) ->
  fn_get name fns = None -> af_get name afs = Some af ->
  List.length (aparams af) <> List.length args ->
  sx (S f) (ECall fn args) m = XErr EScript (set_stk m1 s).
Proof.
  intros f fn name args m m1 vals s af Hn Ha Hp Hf Haf Hl.
  rewrite sx_call_S, Hn. unfold SpecProofs.call_body. rewrite Ha. cbn [then_]. rewrite Hp, Hf, Haf.
  pose proof (pop_n_length _ _ _ _ _ Hp) as Hv. cbn [List.length] in Hv. rewrite Nat.add_0_r in Hv.
  rewrite Hv. apply Nat.eqb_neq in Hl. rewrite Hl. reflexivity.
Qed.
(* the nesting limit counts OPEN SCOPES - call frames and foreach loops alike *)
Theorem too_deep_is_error : forall f fn name args m m1 vals s af,
  estr 64 fn = Some name ->
  sxs f args m = XNormal m1 -> pop_n (List.length args) (stk m1) [] = Some (vals, s) ->
  fn_get name fns = None -> af_get name afs = Some af ->
  List.length (aparams af) = List.length args ->
  max_call_depth <> 0 -> max_call_depth <= N.of_nat (env_depth (menv m1)) ->
  sx (S f) (ECall fn args) m = XErr EScript (set_stk m1 s).
Proof.
  intros f fn name args m m1 vals s af Hn Ha Hp Hf Haf Hl Hz Hd.
  rewrite sx_call_S, Hn. unfold SpecProofs.call_body. rewrite Ha. cbn [then_]. rewrite Hp, Hf, Haf.
  pose proof (pop_n_length _ _ _ _ _ Hp) as Hv. cbn [List.length] in Hv. rewrite Nat.add_0_r in Hv.
  rewrite Hv. apply Nat.eqb_eq in Hl. rewrite Hl. cbn [negb].
  apply N.eqb_neq in Hz. apply N.leb_le in Hd. rewrite Hz, Hd. reflexivity.
Qed.
(* each call opens exactly one scope *)
Lemma callee_depth : forall m1 af vals, env_depth (menv (callee_entry m1 af vals)) = S (env_depth (menv m1)).
Proof.
  intros. unfold env_depth, callee_entry. cbn [menv]. rewrite <- (map_length fst), kinds_declare_all. cbn.
  rewrite map_length. reflexivity.
Qed.

(* a built-in of that name is what runs - the script's function table is not even looked at *)
Theorem builtin_wins : forall f fn name args m m1 vals s bn,
  estr 64 fn = Some name ->
  sxs f args m = XNormal m1 -> pop_n (List.length args) (stk m1) [] = Some (vals, s) ->
  fn_get name fns = Some (FBuiltin bn) ->
  sx (S f) (ECall fn args) m =
  match call_builtin o bn vals with
  | None => XErr ENeedOracle m1
  | Some r => match of_bres r with
              | Ok v => XNormal (set_stk m1 (ret_stack v s))
              | Err x => XErr x (set_stk m1 s)
              end
  end.
Proof.
  intros f fn name args m m1 vals s bn Hn Ha Hp Hf.
  rewrite sx_call_S, Hn. unfold SpecProofs.call_body. rewrite Ha. cbn [then_]. rewrite Hp, Hf. reflexivity.
Qed.
(* and so does a function registered by the host *)
Theorem host_function_wins : forall f fn name args m m1 vals s k,
  estr 64 fn = Some name ->
  sxs f args m = XNormal m1 -> pop_n (List.length args) (stk m1) [] = Some (vals, s) ->
  fn_get name fns = Some (FHost k) ->
  sx (S f) (ECall fn args) m =
  let m2 := mkM s (menv m1) (mkCall name vals :: trace m1) (polls m1) in
  match host_call k vals with
  | Ok v => XNormal (set_stk m2 (ret_stack v s))
  | Err x => XErr x m2
  end.
Proof.
  intros f fn name args m m1 vals s k Hn Ha Hp Hf.
  rewrite sx_call_S, Hn. unfold SpecProofs.call_body. rewrite Ha. cbn [then_]. rewrite Hp, Hf. reflexivity.
Qed.


(* ------------------------------------------------------------------ *)
(* PART E: WHAT THE CALLEE SEES, AND WHERE ITS ASSIGNMENTS GO *)

Lemma str_eqb_neq : forall a b : str, a <> b -> str_eqb a b = false.
Proof. intros a b H. destruct (str_eqb a b) eqn:E; [|reflexivity]. apply EnvProofs.str_eqb_eq in E. contradiction. Qed.

Lemma declare_all_other : forall ps vals e n, ~ In n (map trim_dollar ps) -> env_get (declare_all e ps vals) n = env_get e n.
Proof.
  induction ps as [|a ps IH]; intros [|v vs] e n H; try reflexivity. cbn [declare_all]. cbn [map] in H.
  rewrite IH by (intro; apply H; right; assumption). apply EnvProofs.declare_other.
  apply str_eqb_neq. intro. apply H. left. assumption.
Qed.
Lemma declare_all_globals : forall ps vals e, globals (declare_all e ps vals) = globals e.
Proof.
  induction ps as [|a ps IH]; intros [|v vs] e; try reflexivity. cbn [declare_all].
  rewrite IH. apply EnvProofs.declare_globals.
Qed.
Lemma declare_all_top : forall ps vals e fr s ss, scopes e = (fr, s) :: ss ->
  exists s', scopes (declare_all e ps vals) = (fr, s') :: ss.
Proof.
  induction ps as [|a ps IH]; intros [|v vs] e fr s ss H; try (exists s; exact H). cbn [declare_all].
  apply (IH vs _ fr (assoc_set (trim_dollar a) v s) ss). unfold env_declare. rewrite H. reflexivity.
Qed.
Lemma declare_all_param : forall ps vals e i p,
  scopes e <> [] -> NoDup (map trim_dollar ps) -> nth_error ps i = Some p -> List.length ps = List.length vals ->
  env_get (declare_all e ps vals) (trim_dollar p) = nth_error vals i.
Proof.
  induction ps as [|a ps IH]; intros vals e i p Hs Hd Hn Hl; [destruct i; discriminate|].
  destruct vals as [|v vs]; [discriminate|]. cbn [declare_all]. cbn [map] in Hd. inversion Hd as [|? ? Hna Hd']; subst.
  destruct i as [|i]; cbn [nth_error] in *.
  - injection Hn as ->. rewrite declare_all_other by exact Hna. apply declare_get_same. exact Hs.
  - apply IH; try assumption; [apply declare_scopes_nonempty; exact Hs|]. cbn [List.length] in Hl. lia.
Qed.

(* 2a. AT THE START OF THE BODY the i-th parameter holds the i-th argument value; every other
   name - in particular one that is a local variable of the CALLER, or of the caller's callers -
   reads as the global of that name (nothing if there is none); the callee's scopes are one fresh
   frame on top of the caller's. *)
Theorem callee_sees_parameters_not_callers_locals : forall m1 af vals,
  List.length (aparams af) = List.length vals ->
  let e := menv (callee_entry m1 af vals) in
  (NoDup (map trim_dollar (aparams af)) ->
     forall i p, nth_error (aparams af) i = Some p -> env_get e (trim_dollar p) = nth_error vals i) /\
  (forall n, ~ In n (map trim_dollar (aparams af)) -> env_get e n = assoc_get n (globals (menv m1))) /\
  globals e = globals (menv m1) /\
  (exists s, scopes e = (SFrame, s) :: scopes (menv m1)).
Proof.
  intros m1 af vals Hl e. unfold e, callee_entry. cbn [menv]. split; [|split; [|split]].
  - intros Hd i p Hn. apply declare_all_param; try assumption. discriminate.
  - intros n Hn. rewrite declare_all_other by exact Hn. reflexivity.
  - rewrite declare_all_globals. reflexivity.
  - apply (declare_all_top _ _ _ SFrame []). reflexivity.
Qed.

(* 2b. DURING THE BODY (the environment then is: scopes the callee opened, its frame, the
   caller's scopes): a name is read from the callee's own scopes, else from the globals - never
   from the caller's scopes, whatever they hold *)
Theorem callee_reads_ignore_callers_locals : forall g inner s outer n,
  env_get (mkEnv g (inner ++ (SFrame, s) :: outer)) n =
  match local_get n (inner ++ [(SFrame, s)]) with Some v => Some v | None => assoc_get n g end.
Proof. intros. unfold env_get. cbn [scopes globals]. rewrite local_get_inner. reflexivity. Qed.

(* 2c. ... and an assignment updates the callee's own variable of that name if it has one, else
   the GLOBAL - never the caller's local of that name: `outer` is left as it is *)
Theorem callee_assignment_never_touches_callers_locals : forall g inner s outer n v,
  env_set (mkEnv g (inner ++ (SFrame, s) :: outer)) n v =
  match local_get n (inner ++ [(SFrame, s)]) with
  | Some _ => mkEnv g (local_update n v (inner ++ [(SFrame, s)]) ++ outer)
  | None => mkEnv (assoc_set n v g) (inner ++ (SFrame, s) :: outer)
  end.
Proof.
  intros. unfold env_set. cbn [scopes globals]. rewrite local_get_inner.
  destruct (local_get n (inner ++ [(SFrame, s)])); [rewrite local_update_inner|]; reflexivity.
Qed.
Corollary callee_assignment_to_other_name_is_global : forall g inner s outer n v,
  local_get n (inner ++ [(SFrame, s)]) = None ->
  env_set (mkEnv g (inner ++ (SFrame, s) :: outer)) n v = mkEnv (assoc_set n v g) (inner ++ (SFrame, s) :: outer) /\
  env_get (env_set (mkEnv g (inner ++ (SFrame, s) :: outer)) n v) n = Some v.
Proof.
  intros g inner s outer n v H. rewrite callee_assignment_never_touches_callers_locals, H. split; [reflexivity|].
  rewrite callee_reads_ignore_callers_locals, H. apply EnvProofs.assoc_set_get_same.
Qed.

(* 3. AFTER THE CALL: a name that is local in the caller still has the caller's value, whatever
   the callee assigned to a variable of that name; every other name reads as the global the
   callee left - so the callee's assignments to names that were not its own are visible. *)
Theorem assignment_to_other_names_is_global : forall f af args m m1 vals s v m2 m',
  user_call_completes f af args m m1 vals s v m2 m' ->
  forall n,
    env_get (menv m') n =
      match local_get n (scopes (menv m1)) with Some x => Some x | None => assoc_get n (globals (menv m2)) end /\
    (forall x, local_get n (scopes (menv m1)) = Some x ->
       env_get (menv m') n = Some x /\ env_get (menv m1) n = Some x) /\
    (local_get n (scopes (menv m1)) = None -> local_get n (scopes (menv m2)) = None ->
       env_get (menv m') n = env_get (menv m2) n).
Proof.
  intros f af args m m1 vals s v m2 m' (_ & _ & _ & _ & _ & _ & ->) n.
  unfold env_get. cbn [after_call menv scopes globals]. split; [reflexivity|split].
  - intros x Hx. rewrite Hx. split; reflexivity.
  - intros H1 H2. rewrite H1, H2. reflexivity.
Qed.

(* ------------------------------------------------------------------ *)
(* PART G: THE VARIABLES OF A FOREACH LOOP live in the loop's scope.  While the loop runs, the
   loop's scope binds them, so nothing the body does - assignments, `local`, inner loops, calls,
   `return`-free or not - can reach a variable of the same name in an enclosing scope of the
   running function; when the loop ends its scope is closed and those variables are back, with the
   values they had.  (NOT so for a GLOBAL of that name: a function called from the body does not
   see the loop's scope and assigns the global - see Examples.loop_variable_global_counterexample.) *)

(* what the scopes say about the name x: per scope, its kind and x's binding there *)
Definition xview (x : str) (ss : list (skind * scope)) : list (skind * option value) :=
  map (fun ks : skind * scope => (fst ks, assoc_get x (snd ks))) ss.
Definition bound (x : str) (b : skind * scope) : Prop := assoc_get x (snd b) <> None.

Lemma xview_kinds : forall x ss ss', xview x ss = xview x ss' -> map fst ss = map fst ss'.
Proof.
  intros x ss ss' H. apply (f_equal (map fst)) in H. unfold xview in H. rewrite !map_map in H. exact H.
Qed.
Lemma local_get_xview : forall x ss ss', xview x ss = xview x ss' -> local_get x ss = local_get x ss'.
Proof.
  intros x. induction ss as [|[fr s] ss IH]; intros [|[fr' s'] ss'] H; try discriminate; [reflexivity|].
  cbn [xview map fst snd] in H. injection H as -> Hs Hr. cbn [local_get]. rewrite Hs.
  destruct (assoc_get x s'); [reflexivity|]. rewrite (IH ss' Hr). reflexivity.
Qed.
Lemma xview_local_update : forall n v x ss, str_eqb n x = false -> xview x (local_update n v ss) = xview x ss.
Proof.
  intros n v x ss H. induction ss as [|[fr s] ss IH]; [reflexivity|]. cbn [local_update].
  destruct (assoc_get n s) eqn:E.
  - cbn [xview map fst snd]. rewrite (EnvProofs.assoc_set_get_other n v x s H). reflexivity.
  - destruct (is_frame fr); [reflexivity|]. cbn [xview map fst snd]. f_equal. exact IH.
Qed.
Lemma bound_declare : forall x n v sc, assoc_get x sc <> None -> assoc_get x (assoc_set n v sc) <> None.
Proof.
  intros x n v sc H. destruct (str_eqb n x) eqn:E.
  - apply EnvProofs.str_eqb_eq in E. subst n. rewrite EnvProofs.assoc_set_get_same. discriminate.
  - rewrite (EnvProofs.assoc_set_get_other n v x sc E). exact H.
Qed.
Lemma shadow_update : forall x V n v inner b outer, bound x b -> xview x outer = V ->
  exists inner' b' outer', local_update n v (inner ++ b :: outer) = inner' ++ b' :: outer' /\ bound x b' /\ xview x outer' = V.
Proof.
  intros x V n v inner b outer Hb Hq. induction inner as [|[fr s0] inner IH]; cbn [app local_update].
  - destruct b as [k sc]. unfold bound in Hb. cbn [snd] in Hb. destruct (assoc_get n sc) eqn:E.
    + exists [], (k, assoc_set n v sc), outer. split; [reflexivity|]. split; [apply bound_declare; exact Hb|exact Hq].
    + destruct (is_frame k).
      * exists [], (k, sc), outer. split; [reflexivity|]. split; [exact Hb|exact Hq].
      * exists [], (k, sc), (local_update n v outer). split; [reflexivity|]. split; [exact Hb|].
        rewrite xview_local_update; [exact Hq|]. destruct (str_eqb n x) eqn:En; [|reflexivity].
        apply EnvProofs.str_eqb_eq in En. subst n. contradiction.
  - destruct (assoc_get n s0).
    + exists ((fr, assoc_set n v s0) :: inner), b, outer. split; [reflexivity|]. split; assumption.
    + destruct (is_frame fr).
      * exists ((fr, s0) :: inner), b, outer. split; [reflexivity|]. split; assumption.
      * destruct IH as (inner' & b' & outer' & -> & Hb' & Hq'). exists ((fr, s0) :: inner'), b', outer'.
        split; [reflexivity|]. split; assumption.
Qed.

(* a block run at or above a scope that binds x leaves x's bindings in all scopes below as they were *)
Theorem block_keeps_shadowed : forall x V fuel b m,
  gabove (bound x) (fun ou => xview x ou = V) (scopes (menv m)) ->
  gabove (bound x) (fun ou => xview x ou = V) (scopes (menv (state_of (sblock fuel b m)))).
Proof.
  intros x V fuel b m. apply (block_keeps_below_marked (bound x) (fun ou => xview x ou = V) (List.length V)).
  - intros ou <-. unfold xview. rewrite map_length. reflexivity.
  - intros n v k sc H. unfold bound in *. cbn [snd] in *. apply bound_declare. exact H.
  - intros n v inner b0 outer. apply shadow_update.
Qed.

Lemma bind_top : forall x (idx ident' idx' : str) e kv xv b below,
  scopes e = b :: below -> (x = ident' \/ (idx <> [] /\ x = idx')) ->
  exists b', scopes (match idx with [] => env_declare e ident' xv | _ => env_declare (env_declare e ident' xv) idx' kv end) = b' :: below /\
             bound x b'.
Proof.
  intros x idx ident idx1 e kv xv [kb sc] below H Hx.
  assert (E1 : scopes (env_declare e ident xv) = (kb, assoc_set ident xv sc) :: below).
  { unfold env_declare. rewrite H. reflexivity. }
  destruct idx as [|c idx'].
  - destruct Hx as [->|[Hne _]]; [|contradiction]. exists (kb, assoc_set ident xv sc). split; [exact E1|].
    unfold bound. cbn [snd]. rewrite EnvProofs.assoc_set_get_same. discriminate.
  - exists (kb, assoc_set idx1 kv (assoc_set ident xv sc)). split.
    + unfold env_declare at 1. rewrite E1. reflexivity.
    + unfold bound. cbn [snd]. destruct Hx as [->|[_ ->]].
      * apply bound_declare. rewrite EnvProofs.assoc_set_get_same. discriminate.
      * rewrite EnvProofs.assoc_set_get_same. discriminate.
Qed.

Lemma sforeach_keeps_shadowed : forall x V f idx ident it off body m m' b below,
  (x = trim_dollar ident \/ (idx <> [] /\ x = trim_dollar idx)) ->
  scopes (menv m) = b :: below -> xview x below = V ->
  sforeach f idx ident it off body m = XNormal m' -> xview x (scopes (menv m')) = V.
Proof.
  intros x V. induction f as [|f IH]; intros idx ident it off body m m' b below Hx Hs Hv H; [discriminate|].
  rewrite sforeach_S in H. destruct (foreach_next o it off) as [[[xv kv]|]|e]; [| |discriminate].
  - cbv zeta in H.
    destruct (bind_top x idx (trim_dollar ident) (trim_dollar idx) (menv m) kv xv b below Hs Hx) as (b' & Hs' & Hb').
    set (mb := mkM _ _ _ _) in H.
    assert (Hmb : scopes (menv mb) = b' :: below) by exact Hs'.
    destruct (sblock f body mb) as [m1|v1 m1|e1 m1] eqn:E; cbn [then_] in H; try discriminate.
    pose proof (block_keeps_shadowed x V f body mb) as G. rewrite E in G. cbn [state_of] in G.
    destruct (gabove_top_of_kinds (bound x) (fun ou => xview x ou = V) (List.length V)) with (ss := scopes (menv m1)) (b0 := b') (outer0 := below)
      as (b1 & outer1 & Hs1 & Hb1 & Hv1).
    + intros ou <-. unfold xview. rewrite map_length. reflexivity.
    + apply G. rewrite Hmb. exists [], b', below. repeat split; assumption.
    + exact Hv.
    + rewrite <- Hmb. apply (sblock_keeps_scopes o fns obj afs f body mb m1 E).
    + destruct (drop_residue (menv m1) (stk m1)) as [|top s']; [discriminate|].
      destruct top; try (destruct (iterable _); discriminate).
      apply (IH _ _ _ _ _ (set_stk m1 s') m' b1 outer1 Hx Hs1 Hv1 H).
  - unfold env_pop in H. rewrite Hs in H. injection H as <-. cbn [set_menv menv scopes]. exact Hv.
Qed.

(* 4. AFTER THE LOOP.  When `foreach [idx,] ident in v body` completes normally, the scopes are
   those in which the loop started (the loop's own scope, with ident and idx, is gone), and in
   every one of them the name ident (and idx) is bound exactly as it was when the loop started - 
   whatever the body did.  In particular a local variable of that name reads as before. *)
Theorem foreach_variables_scoped : forall f idx ident v body m m' x,
  (x = trim_dollar ident \/ (idx <> [] /\ x = trim_dollar idx)) ->
  sx (S f) (EForeach idx ident v body) m = XNormal m' ->
  exists m1 c s, sx f v m = XNormal m1 /\ stk m1 = c :: s /\
    map fst (scopes (menv m')) = map fst (scopes (menv m1)) /\
    xview x (scopes (menv m')) = xview x (scopes (menv m1)) /\
    local_get x (scopes (menv m')) = local_get x (scopes (menv m1)) /\
    (forall v0, local_get x (scopes (menv m1)) = Some v0 ->
       env_get (menv m') x = Some v0 /\ env_get (menv m1) x = Some v0).
Proof.
  intros f idx ident v body m m' x Hx H. rewrite sx_foreach_S in H.
  destruct (sx f v m) as [m1| |] eqn:Ev; cbn [then_] in H; try discriminate. cbv zeta in H.
  destruct (stk m1) as [|c s] eqn:Es; [discriminate|]. destruct (iterable c); [|discriminate].
  exists m1, c, s. split; [reflexivity|]. split; [exact Es|].
  assert (X : xview x (scopes (menv m')) = xview x (scopes (menv m1))).
  { eapply (sforeach_keeps_shadowed x _ f idx ident c 0 body _ m' (SLoop (lenN (c :: s)), []) (scopes (menv m1)) Hx);
      [| |exact H]; reflexivity. }
  split; [apply (xview_kinds x); exact X|]. split; [exact X|].
  pose proof (local_get_xview x _ _ X) as Lg. split; [exact Lg|].
  intros v0 H0. unfold env_get. rewrite Lg, H0. split; reflexivity.
Qed.

(* ------------------------------------------------------------------ *)
(* PART H: THE CALLEE CANNOT READ THE CALLER'S LOCALS EITHER (no dynamic scoping, for all programs).
   Run the same block in two states that differ ONLY in the scopes below the call frame (outer1
   and outer2: any scopes whatever, as long as there are equally many - the nesting limit counts
   them): the two runs end the same way, with the same value or error, the same stack, globals,
   trace, and the same scopes from the frame up; each leaves its own outer scopes in place. *)
Section NoRead.
Variables outer1 outer2 : list (skind * scope).
Hypothesis same_depth : List.length outer1 = List.length outer2.

Definition senv (e e' : env) : Prop :=
  globals e = globals e' /\
  exists inner s, scopes e = inner ++ (SFrame, s) :: outer1 /\ scopes e' = inner ++ (SFrame, s) :: outer2.
Definition senv1 (e e' : env) : Prop :=
  globals e = globals e' /\
  exists sc inner s, scopes e = sc :: inner ++ (SFrame, s) :: outer1 /\ scopes e' = sc :: inner ++ (SFrame, s) :: outer2.

Lemma senv1_senv : forall e e', senv1 e e' -> senv e e'.
Proof. intros e e' (G & sc & inner & s & E & E'). split; [exact G|]. exists (sc :: inner), s. split; assumption. Qed.
Lemma senv_get : forall e e', senv e e' -> forall n, env_get e n = env_get e' n.
Proof.
  intros e e' (G & inner & s & E & E') n. unfold env_get.
  rewrite E, E', G, (EnvProofs.local_get_frame n inner s outer1 outer2). reflexivity.
Qed.
Lemma senv_set : forall e e', senv e e' -> forall n v, senv (env_set e n v) (env_set e' n v).
Proof.
  intros e e' (G & inner & s & E & E') n v. unfold env_set. rewrite E, E'.
  rewrite (EnvProofs.local_get_frame n inner s outer1 outer2).
  destruct (local_get n (inner ++ (SFrame, s) :: outer2)).
  - split; [exact G|]. cbn [scopes]. rewrite (local_update_inner n v inner s outer1), (local_update_inner n v inner s outer2).
    destruct (EnvProofs.local_update_frame n v inner s []) as (inner' & s' & -> & _).
    exists inner', s'. split; rewrite <- app_assoc; reflexivity.
  - split; [cbn [globals]; rewrite G; reflexivity|]. exists inner, s. split; reflexivity.
Qed.
Lemma senv_declare : forall e e', senv e e' -> forall n v, senv (env_declare e n v) (env_declare e' n v).
Proof.
  intros e e' (G & inner & s & E & E') n v. unfold env_declare. rewrite E, E'.
  destruct inner as [|[fr x] inner]; cbn [app]; (split; [exact G|]).
  - exists [], (assoc_set n v s). split; reflexivity.
  - exists ((fr, assoc_set n v x) :: inner), s. split; reflexivity.
Qed.
Lemma senv1_declare : forall e e', senv1 e e' -> forall n v, senv1 (env_declare e n v) (env_declare e' n v).
Proof.
  intros e e' (G & [fr x] & inner & s & E & E') n v. unfold env_declare. rewrite E, E'.
  split; [exact G|]. exists (fr, assoc_set n v x), inner, s. split; reflexivity.
Qed.
Lemma senv_declare_all : forall ns vs e e', senv e e' -> senv (declare_all e ns vs) (declare_all e' ns vs).
Proof.
  induction ns as [|n ns IH]; intros vs e e' H; [exact H|]. destruct vs as [|v vs]; [exact H|].
  cbn [declare_all]. apply IH. apply senv_declare. exact H.
Qed.
Lemma senv_push : forall e e', senv e e' -> forall k, senv1 (env_push e k) (env_push e' k).
Proof.
  intros e e' (G & inner & s & E & E') k. split; [exact G|]. exists (SLoop k, []), inner, s.
  unfold env_push. cbn [scopes]. rewrite E, E'. split; reflexivity.
Qed.
Lemma senv_push_frame : forall e e', senv e e' -> senv (env_push_frame e) (env_push_frame e').
Proof.
  intros e e' (G & inner & s & E & E'). split; [exact G|]. exists ((SFrame, []) :: inner), s.
  unfold env_push_frame. cbn [scopes]. rewrite E, E'. split; reflexivity.
Qed.
Lemma senv_pop : forall e e', senv1 e e' ->
  exists e1 e1', env_pop e = Some e1 /\ env_pop e' = Some e1' /\ senv e1 e1'.
Proof.
  intros e e' (G & sc & inner & s & E & E'). unfold env_pop. rewrite E, E'.
  eexists. eexists. split; [reflexivity|]. split; [reflexivity|]. split; [exact G|]. exists inner, s. split; reflexivity.
Qed.
Lemma senv_depth : forall e e', senv e e' -> env_depth e = env_depth e'.
Proof.
  intros e e' (G & inner & s & E & E'). unfold env_depth. rewrite E, E', !app_length. cbn [List.length].
  rewrite same_depth. reflexivity.
Qed.
Lemma senv_depth_ge : forall e e', senv e e' -> (S (List.length outer1) <= env_depth e)%nat.
Proof. intros e e' (G & inner & s & E & E'). unfold env_depth. rewrite E, app_length. cbn [List.length]. lia. Qed.
Lemma senv_mark : forall e e', senv e e' -> env_mark e = env_mark e'.
Proof.
  intros e e' (G & inner & s & E & E'). unfold env_mark. rewrite E, E'.
  destruct inner as [|[[|k] x] inner]; reflexivity.
Qed.
Lemma senv_truncate : forall e e', senv e e' -> forall d, (S (List.length outer1) <= d)%nat ->
  senv (env_truncate e d) (env_truncate e' d).
Proof.
  intros e e' (G & inner & s & E & E') d Hd. unfold env_truncate. rewrite E, E'. split; [exact G|]. cbn [scopes].
  rewrite !app_length. cbn [List.length]. rewrite <- same_depth.
  set (k := (List.length inner + S (List.length outer1) - d)%nat). assert (Hk : (k <= List.length inner)%nat) by lia.
  exists (skipn k inner), s. rewrite !skipn_app. replace (k - List.length inner)%nat with 0%nat by lia. split; reflexivity.
Qed.
Lemma senv1_of_kinds : forall e e' e0 e0', senv e e' -> senv1 e0 e0' ->
  map fst (scopes e) = map fst (scopes e0) -> senv1 e e'.
Proof.
  intros e e' e0 e0' (G & inner & s & E & E') (_ & sc0 & inner0 & s0 & E0 & _) K. rewrite E, E0 in K.
  apply (f_equal (@List.length skind)) in K. rewrite !map_length in K.
  cbn [List.length] in K. rewrite !app_length in K. cbn [List.length] in K.
  destruct inner as [|sc inner]; [cbn in K; lia|]. split; [exact G|]. exists sc, inner, s. split; assumption.
Qed.

Definition sim (m m' : mstate) : Prop :=
  stk m = stk m' /\ trace m = trace m' /\ polls m = polls m' /\ senv (menv m) (menv m').
Definition sim1 (m m' : mstate) : Prop :=
  stk m = stk m' /\ trace m = trace m' /\ polls m = polls m' /\ senv1 (menv m) (menv m').
Definition rsim (r r' : sres) : Prop :=
  match r, r' with
  | XNormal m, XNormal m' => sim m m'
  | XReturn v m, XReturn v' m' => v = v' /\ sim m m'
  | XErr x m, XErr x' m' => x = x' /\ sim m m'
  | _, _ => False
  end.

Lemma sim1_sim : forall m m', sim1 m m' -> sim m m'.
Proof. intros m m' (Hs & Ht & Hp & He). repeat split; try assumption; apply senv1_senv; exact He. Qed.
Lemma sim_stk : forall m m', sim m m' -> forall s, sim (set_stk m s) (set_stk m' s).
Proof. intros m m' (Hs & Ht & Hp & He) s. split; [reflexivity|]. split; [exact Ht|]. split; [exact Hp|exact He]. Qed.
Lemma sim1_stk : forall m m', sim1 m m' -> forall s, sim1 (set_stk m s) (set_stk m' s).
Proof. intros m m' (Hs & Ht & Hp & He) s. split; [reflexivity|]. split; [exact Ht|]. split; [exact Hp|exact He]. Qed.
Lemma sim_push : forall m m', sim m m' -> forall v, sim (push m v) (push m' v).
Proof.
  intros m m' (Hs & Ht & Hp & He) v. unfold push. split; [cbn [set_stk stk]; rewrite Hs; reflexivity|].
  split; [exact Ht|]. split; [exact Hp|exact He].
Qed.
Lemma sim_env : forall m m' e e', sim m m' -> senv e e' -> sim (set_menv m e) (set_menv m' e').
Proof. intros m m' e e' (Hs & Ht & Hp & He) H. split; [exact Hs|]. split; [exact Ht|]. split; [exact Hp|exact H]. Qed.
Lemma sim_set_env : forall m m', sim m m' -> forall n v,
  sim (set_menv m (env_set (menv m) n v)) (set_menv m' (env_set (menv m') n v)).
Proof. intros m m' H n v. apply sim_env; [exact H|]. apply senv_set. apply H. Qed.
Lemma sim_lookup : forall m m', sim m m' -> forall n, lookup o obj (menv m) n = lookup o obj (menv m') n.
Proof. intros m m' (_ & _ & _ & He) n. unfold lookup. rewrite (senv_get _ _ He). reflexivity. Qed.
Lemma rsim_err : forall m m' x, sim m m' -> rsim (XErr x m) (XErr x m').
Proof. intros m m' x H. split; [reflexivity|exact H]. Qed.
Lemma rsim_then : forall r r' k k',
  rsim r r' -> (forall m1 m1', r = XNormal m1 -> r' = XNormal m1' -> sim m1 m1' -> rsim (k m1) (k' m1')) ->
  rsim (then_ r k) (then_ r' k').
Proof.
  intros [m1|v m1|x m1] [m1'|v' m1'|x' m1'] k k' H Hk; cbn [rsim then_] in *; try contradiction; try exact H.
  apply Hk; [reflexivity|reflexivity|exact H].
Qed.
Lemma rsim_pop1s : forall m m' k k', sim m m' ->
  (forall v s, rsim (k v (set_stk m s)) (k' v (set_stk m' s))) -> rsim (pop1s m k) (pop1s m' k').
Proof.
  intros m m' k k' H Hk. unfold pop1s. pose proof H as (Hs & _). rewrite <- Hs.
  destruct (stk m); [apply rsim_err; exact H|apply Hk].
Qed.
Lemma rsim_pop2s : forall m m' k k', sim m m' ->
  (forall a b s, rsim (k a b (set_stk m s)) (k' a b (set_stk m' s))) -> rsim (pop2s m k) (pop2s m' k').
Proof.
  intros m m' k k' H Hk. unfold pop2s. pose proof (sim_stk _ _ H []) as H0. pose proof H as (Hs & _). rewrite <- Hs.
  destruct (stk m) as [|a [|b s]]; [apply rsim_err; exact H0|apply rsim_err; exact H0|apply Hk].
Qed.
Lemma rsim_pushr : forall m m' r, sim m m' -> rsim (pushr m r) (pushr m' r).
Proof. intros m m' [v|x] H; cbn [pushr rsim]; [apply sim_push; exact H|split; [reflexivity|exact H]]. Qed.

Lemma sim_back : forall m2 m2' d st, sim m2 m2' -> (S (List.length outer1) <= d)%nat ->
  sim (mkM st (env_truncate (menv m2) d) (trace m2) (polls m2)) (mkM st (env_truncate (menv m2') d) (trace m2') (polls m2')).
Proof.
  intros m2 m2' d st (Hs & Ht & Hp & He) Hd. split; [reflexivity|]. split; [exact Ht|]. split; [exact Hp|].
  apply senv_truncate; assumption.
Qed.

Lemma call_body_noread : forall (xa : list expr -> mstate -> sres) (xb : list stmt -> mstate -> sres) oname args m m',
  (forall l m m', sim m m' -> rsim (xa l m) (xa l m')) ->
  (forall b m m', sim m m' -> rsim (xb b m) (xb b m')) ->
  sim m m' -> rsim (call_body xa xb oname args m) (call_body xa xb oname args m').
Proof.
  intros xa xb [name|] args m m' Ha Hb H; [|apply rsim_err; exact H]. unfold SpecProofs.call_body.
  apply rsim_then; [apply Ha; exact H|]. intros m1 m1' _ _ H1.
  pose proof H1 as (Hs & Ht & Hp & He). rewrite <- Hs.
  destruct (pop_n (List.length args) (stk m1) []) as [[vals s]|]; [|apply rsim_err; exact H1].
  destruct (fn_get name fns) as [[bn|k]|].
  - destruct (call_builtin o bn vals) as [r|]; [|apply rsim_err; exact H1].
    destruct (of_bres r); [apply (sim_stk _ _ H1)|apply rsim_err; apply (sim_stk _ _ H1)].
  - cbv zeta.
    assert (S2 : sim (mkM s (menv m1) (mkCall name vals :: trace m1) (polls m1))
                     (mkM s (menv m1') (mkCall name vals :: trace m1') (polls m1'))).
    { split; [reflexivity|]. split; [cbn [trace]; rewrite Ht; reflexivity|]. split; [exact Hp|exact He]. }
    destruct (host_call k vals); [apply (sim_stk _ _ S2)|apply rsim_err; exact S2].
  - destruct (af_get name afs) as [af|]; [|apply rsim_err; apply (sim_stk _ _ H1)].
    destruct (negb (Nat.eqb (List.length (aparams af)) (List.length vals))); [apply rsim_err; apply (sim_stk _ _ H1)|].
    rewrite <- (senv_depth _ _ He).
    destruct (negb (max_call_depth =? 0) && (max_call_depth <=? N.of_nat (env_depth (menv m1)))); [apply rsim_err; apply (sim_stk _ _ H1)|].
    cbv zeta.
    set (m0 := mkM [] (declare_all (env_push_frame (menv m1)) (aparams af) vals) (trace m1) (polls m1)).
    set (m0' := mkM [] (declare_all (env_push_frame (menv m1')) (aparams af) vals) (trace m1') (polls m1')).
    assert (S0 : sim m0 m0').
    { split; [reflexivity|]. split; [exact Ht|]. split; [exact Hp|].
      unfold m0, m0'. cbn [menv]. apply senv_declare_all. apply senv_push_frame. exact He. }
    pose proof (Hb (abody af) m0 m0' S0) as R.
    pose proof (senv_depth_ge _ _ He) as D.
    destruct (xb (abody af) m0) as [m2|out m2|x m2], (xb (abody af) m0') as [m2'|out' m2'|x' m2']; cbn [rsim] in R; try contradiction.
    + apply sim_back; assumption.
    + destruct R as (-> & R). apply sim_back; assumption.
    + destruct R as (-> & R). split; [reflexivity|]. apply sim_back; assumption.
Qed.

Definition NOREAD (f : nat) : Prop :=
  (forall e m m', sim m m' -> rsim (sx f e m) (sx f e m')) /\
  (forall l m m', sim m m' -> rsim (sxs f l m) (sxs f l m')) /\
  (forall s m m', sim m m' -> rsim (sstmt f s m) (sstmt f s m')) /\
  (forall b m m', sim m m' -> rsim (sblock f b m) (sblock f b m')) /\
  (forall c body m m', sim m m' -> rsim (swhile f c body m) (swhile f c body m')) /\
  (forall idx ident it off body m m', sim1 m m' -> rsim (sforeach f idx ident it off body m) (sforeach f idx ident it off body m')) /\
  (forall v rest all m m', sim m m' -> rsim (sswitch f v rest all m) (sswitch f v rest all m')) /\
  (forall v es blk rest all m m', sim m m' -> rsim (scase f v es blk rest all m) (scase f v es blk rest all m')) /\
  (forall all m m', sim m m' -> rsim (sdefaults f all m) (sdefaults f all m')).

Lemma sx_step_noread : forall f, NOREAD f -> forall e m m', sim m m' -> rsim (sx (S f) e m) (sx (S f) e m').
Proof.
  intros f (Hx & Hxs & Hst & Hb & Hw & Hf & Hsw & Hc & Hd) e m m' H.
  destruct e as [t z|t x|s|b|v fl|n|op r|op l r|n op|c t e'|l|l|l i|fn args|n v|n|c cns alt|c body|idx ident v body|n ps b|v cs].
  1-5: cbn [ExecFun.sx rsim]; apply sim_push; exact H.
  - (* EIdent *) cbn [ExecFun.sx]. rewrite (sim_lookup _ _ H). apply rsim_pushr. exact H.
  - (* EPrefix *) cbn [ExecFun.sx]. apply rsim_then; [apply Hx; exact H|]. intros m1 m1' _ _ H1.
    apply rsim_pop1s; [exact H1|]. intros v s. apply rsim_pushr. apply sim_stk. exact H1.
  - (* EInfix *)
    destruct (tokty_eq_dec op TPeriod) as [->|Hne].
    { rewrite !sx_dot_S. generalize (estr 64 r) as on. intro on.
      apply rsim_then; [apply Hx; exact H|]. intros m1 m1' _ _ H1.
      apply rsim_pop1s; [exact H1|]. intros v s. apply rsim_pushr. apply sim_stk. exact H1. }
    rewrite !sx_infix_S by exact Hne. apply rsim_then; [apply Hx; exact H|]. intros m1 m1' _ _ H1.
    apply rsim_then; [apply Hx; exact H1|]. intros m2 m2' _ _ H2.
    destruct (mutator_op op).
    + destruct l; try (apply rsim_err; exact H2). apply rsim_pop2s; [exact H2|]. intros a b' s.
      destruct (spec_binop o b b' a); [|apply rsim_err; apply sim_stk; exact H2].
      apply (sim_set_env _ _ (sim_stk _ _ H2 s)).
    + apply rsim_pop2s; [exact H2|]. intros a b s. apply rsim_pushr. apply sim_stk. exact H2.
  - (* EPostfix *) cbn [ExecFun.sx]. rewrite <- (sim_lookup _ _ H).
    destruct (lookup o obj (menv m) n) as [v|x]; [|apply rsim_err; exact H].
    destruct (match v with VInt z => _ | VFloat x => _ | _ => None end) as [v'|]; [|apply rsim_err; exact H].
    cbv zeta. pose proof (sim_set_env _ _ H (trim_dollar n) v') as H1. cbn [set_menv stk].
    destruct H as (Hs & _). rewrite <- Hs.
    destruct (stk m); [apply rsim_err; exact H1|apply (sim_stk _ _ H1)].
  - (* ETernary *) rewrite !sx_ternary_S. apply rsim_then; [apply Hx; exact H|]. intros m1 m1' _ _ H1.
    apply rsim_pop1s; [exact H1|]. intros v s. destruct (truthy v); apply Hx; apply sim_stk; exact H1.
  - (* EArray *) rewrite !sx_array_S. apply rsim_then; [apply Hxs; exact H|]. intros m1 m1' _ _ H1.
    pose proof H1 as (Hs & _). rewrite <- Hs.
    destruct (pop_n (List.length l) (stk m1) []) as [[elems s]|]; [apply (sim_stk _ _ H1)|apply rsim_err; exact H1].
  - (* EHash *) apply rsim_err. exact H.
  - (* EIndex *) cbn [ExecFun.sx]. apply rsim_then; [apply Hx; exact H|]. intros m1 m1' _ _ H1.
    apply rsim_then; [apply Hx; exact H1|]. intros m2 m2' _ _ H2.
    apply rsim_pop2s; [exact H2|]. intros a b s. apply rsim_pushr. apply sim_stk. exact H2.
  - (* ECall *) rewrite !sx_call_S. apply call_body_noread; [apply Hxs|apply Hb|exact H].
  - (* EAssign *) cbn [ExecFun.sx]. apply rsim_then; [apply Hx; exact H|]. intros m1 m1' _ _ H1.
    apply rsim_pop1s; [exact H1|]. intros x s. apply (sim_set_env _ _ (sim_stk _ _ H1 s)).
  - (* ELocal *) cbn [ExecFun.sx rsim]. apply sim_env; [exact H|]. apply senv_declare. apply H.
  - (* EIf *) rewrite !sx_if_S. apply rsim_then; [apply Hx; exact H|]. intros m1 m1' _ _ H1.
    apply rsim_pop1s; [exact H1|]. intros v s. destruct (truthy v); [apply Hb; apply sim_stk; exact H1|].
    destruct alt; [apply Hb; apply sim_stk; exact H1|apply (sim_stk _ _ H1)].
  - (* EWhile *) rewrite !sx_while_S. apply Hw. exact H.
  - (* EForeach *) rewrite !sx_foreach_S. apply rsim_then; [apply Hx; exact H|]. intros m1 m1' _ _ H1.
    cbv zeta. pose proof H1 as (Hs & Ht & Hp & He). rewrite <- Hs.
    pose proof (senv_push _ _ He (lenN (stk m1))) as He1.
    destruct (stk m1) as [|it s].
    + apply rsim_err. apply sim_env; [exact H1|]. apply senv1_senv. exact He1.
    + assert (S1 : sim1 (mkM s (env_push (menv m1) (lenN (it :: s))) (trace m1) (polls m1))
                        (mkM s (env_push (menv m1') (lenN (it :: s))) (trace m1') (polls m1'))).
      { split; [reflexivity|]. split; [exact Ht|]. split; [exact Hp|exact He1]. }
      destruct (iterable it); [apply Hf; exact S1|apply rsim_err; apply sim1_sim; exact S1].
  - (* EFunction *) exact H.
  - (* ESwitch *) rewrite !sx_switch_S. apply Hsw. exact H.
Qed.

Lemma noread_all : forall f, NOREAD f.
Proof.
  induction f as [|f IH].
  - unfold NOREAD. refine (conj _ (conj _ (conj _ (conj _ (conj _ (conj _ (conj _ (conj _ _))))))));
      intros; apply rsim_err; try assumption. apply sim1_sim. assumption.
  - pose proof IH as (Hx & Hxs & Hst & Hb & Hw & Hf & Hsw & Hc & Hd).
    unfold NOREAD. refine (conj _ (conj _ (conj _ (conj _ (conj _ (conj _ (conj _ (conj _ _)))))))).
    + apply sx_step_noread. exact IH.
    + intros l m m' H. rewrite !sxs_S. destruct l as [|e l]; [exact H|].
      apply rsim_then; [apply Hx; exact H|]. intros m1 m1' _ _ H1. apply Hxs. exact H1.
    + intros s m m' H. rewrite !sstmt_S. destruct s.
      * apply rsim_then; [apply Hx; exact H|]. intros m1 m1' _ _ H1. apply rsim_pop1s; [exact H1|].
        intros v s. split; [reflexivity|apply sim_stk; exact H1].
      * apply Hx. exact H.
    + intros b m m' H. rewrite !sblock_S. destruct b as [|s b]; [exact H|].
      apply rsim_then; [apply Hst; exact H|]. intros m1 m1' _ _ H1. apply Hb. exact H1.
    + intros c body m m' H. rewrite !swhile_S. apply rsim_then; [apply Hx; exact H|]. intros m1 m1' _ _ H1.
      apply rsim_pop1s; [exact H1|]. intros v s. destruct (truthy v); [|apply (sim_stk _ _ H1)].
      apply rsim_then; [apply Hb; apply sim_stk; exact H1|]. intros m3 m3' _ _ H3. apply Hw. exact H3.
    + intros idx ident it off body m m' H. rewrite !sforeach_S.
      pose proof H as (Hs & Ht & Hp & He).
      destruct (foreach_next o it off) as [[[x k]|]|x].
      * cbv zeta. set (mb := mkM _ _ _ _). set (mb' := mkM _ _ (trace m') _).
        assert (S1 : sim1 mb mb').
        { split; [unfold mb, mb'; cbn [stk]; rewrite Hs; reflexivity|]. split; [exact Ht|]. split; [exact Hp|].
          unfold mb, mb'. cbn [menv]. destruct idx; [|apply senv1_declare]; apply senv1_declare; exact He. }
        apply rsim_then; [apply Hb; apply sim1_sim; exact S1|]. intros m1 m1' E1 _ H1.
        assert (S3 : sim1 m1 m1').
        { destruct H1 as (Hs1 & Ht1 & Hp1 & He1). split; [exact Hs1|]. split; [exact Ht1|]. split; [exact Hp1|].
          apply (senv1_of_kinds _ _ (menv mb) (menv mb')); [exact He1|apply S1|].
          apply (sblock_keeps_scopes o fns obj afs f body mb m1 E1). }
        assert (Dr : drop_residue (menv m1') (stk m1') = drop_residue (menv m1) (stk m1)).
        { destruct H1 as (Hs1 & _ & _ & He1). unfold drop_residue. rewrite <- (senv_mark _ _ He1), Hs1. reflexivity. }
        rewrite Dr.
        destruct (drop_residue (menv m1) (stk m1)) as [|top s']; [apply rsim_err; exact H1|].
        destruct top; try (destruct (iterable _); apply rsim_err; apply sim_stk; exact H1).
        apply Hf. apply sim1_stk. exact S3.
      * destruct (senv_pop _ _ He) as (e1 & e1' & P1 & P1' & Se). rewrite P1, P1'.
        apply sim_env; [apply sim1_sim; exact H|exact Se].
      * apply rsim_err. apply sim1_sim. exact H.
    + intros v rest all m m' H. rewrite !sswitch_S.
      destruct rest as [|[[[] es] blk] rest]; [apply Hd|apply Hsw|apply Hc]; exact H.
    + intros v es blk rest all m m' H. rewrite !scase_S. destruct es as [|e es]; [apply Hsw; exact H|].
      apply rsim_then; [apply Hx; exact H|]. intros m1 m1' _ _ H1.
      apply rsim_then; [apply Hx; exact H1|]. intros m2 m2' _ _ H2.
      apply rsim_pop2s; [exact H2|]. intros c subj s.
      destruct (vm_case o subj c) as [r|x]; [|apply rsim_err; apply sim_stk; exact H2].
      destruct (truthy r); [apply Hb|apply Hc]; apply sim_stk; exact H2.
    + intros all m m' H. rewrite !sdefaults_S.
      destruct all as [|[[[] es] blk] rest]; [exact H| |apply Hd; exact H].
      apply rsim_then; [apply Hb; exact H|]. intros m1 m1' _ _ H1. apply Hd. exact H1.
Qed.

Theorem block_ignores_scopes_below_the_frame : forall fuel b m m',
  sim m m' -> rsim (sblock fuel b m) (sblock fuel b m').
Proof. intros fuel b m m' H. destruct (noread_all fuel) as (_ & _ & _ & Kb & _). apply Kb. exact H. Qed.

End NoRead.

(* the same in plain words: what two runs agree on *)
Definition agree (m m' : mstate) : Prop :=
  stk m = stk m' /\ trace m = trace m' /\ polls m = polls m' /\ globals (menv m) = globals (menv m').
Definition same_outcome (r r' : sres) : Prop :=
  match r, r' with
  | XNormal m, XNormal m' => agree m m'
  | XReturn v m, XReturn v' m' => v = v' /\ agree m m'
  | XErr x m, XErr x' m' => x = x' /\ agree m m'
  | _, _ => False
  end.

(* 2d. THE BODY OF A CALLED FUNCTION BEHAVES THE SAME WHATEVER THE CALLER'S LOCAL VARIABLES ARE.
   Two callers that agree on the globals, the trace and the polling state, with equally many
   open scopes holding ANY variables with ANY values: the body, started with the same arguments,
   ends the same way in both - same `return` value or error, same globals, same host calls. *)
Theorem callee_cannot_observe_callers_locals : forall f af vals m1 m1',
  trace m1 = trace m1' -> polls m1 = polls m1' -> globals (menv m1) = globals (menv m1') ->
  List.length (scopes (menv m1)) = List.length (scopes (menv m1')) ->
  same_outcome (sblock f (abody af) (callee_entry m1 af vals)) (sblock f (abody af) (callee_entry m1' af vals)).
Proof.
  intros f af vals m1 m1' Ht Hp Hg Hl.
  assert (S0 : sim (scopes (menv m1)) (scopes (menv m1')) (callee_entry m1 af vals) (callee_entry m1' af vals)).
  { split; [reflexivity|]. split; [exact Ht|]. split; [exact Hp|]. unfold callee_entry. cbn [menv].
    apply senv_declare_all. split; [exact Hg|]. exists [], []. split; reflexivity. }
  pose proof (block_ignores_scopes_below_the_frame _ _ Hl f (abody af) _ _ S0) as R.
  destruct (sblock f (abody af) (callee_entry m1 af vals)) as [m2|v m2|x m2],
           (sblock f (abody af) (callee_entry m1' af vals)) as [m2'|v' m2'|x' m2']; cbn [rsim same_outcome] in *; try contradiction.
  - destruct R as (Hs & Ht2 & Hp2 & Hg2 & _). repeat split; assumption.
  - destruct R as (-> & Hs & Ht2 & Hp2 & Hg2 & _). repeat split; assumption.
  - destruct R as (-> & Hs & Ht2 & Hp2 & Hg2 & _). repeat split; assumption.
Qed.

End Calls.

(* ------------------------------------------------------------------ *)
(* PART F: CALL BEFORE DEFINITION.  The interpreter never looks at the order of the definitions:
   it uses the function table only through the lookup `af_get`, and the table of a script
   (`collect_block`) holds every definition of the script wherever it is written. *)

Lemma then_cong : forall r r' k k', r = r' -> (forall m, k m = k' m) -> then_ r k = then_ r' k'.
Proof. intros r r' k k' <- H. destruct r; cbn [then_]; [apply H|reflexivity|reflexivity]. Qed.
Lemma pop1s_cong : forall m k k', (forall v m2, k v m2 = k' v m2) -> pop1s m k = pop1s m k'.
Proof. intros m k k' H. unfold pop1s. destruct (stk m); [reflexivity|apply H]. Qed.
Lemma pop2s_cong : forall m k k', (forall a b m2, k a b m2 = k' a b m2) -> pop2s m k = pop2s m k'.
Proof. intros m k k' H. unfold pop2s. destruct (stk m) as [|a [|b s]]; [reflexivity|reflexivity|apply H]. Qed.

Section TwoTables.
Variables (o : stdlib) (fns : fnmap) (obj : hostval) (afs afs' : aftable).
Hypothesis same_lookup : forall n, af_get n afs = af_get n afs'.

Lemma call_body_cong : forall (xa xa' : list expr -> mstate -> sres) (xb xb' : list stmt -> mstate -> sres) oname args m,
  (forall l m, xa l m = xa' l m) -> (forall b m, xb b m = xb' b m) ->
  call_body o fns afs xa xb oname args m = call_body o fns afs' xa' xb' oname args m.
Proof.
  intros xa xa' xb xb' [name|] args m Ha Hb; [|reflexivity]. unfold call_body.
  apply then_cong; [apply Ha|]. intros m1.
  destruct (pop_n (List.length args) (stk m1) []) as [[vals s]|]; [|reflexivity].
  destruct (fn_get name fns) as [[bn|k]|]; [reflexivity|reflexivity|].
  rewrite <- same_lookup. destruct (af_get name afs) as [af|]; [|reflexivity].
  destruct (negb _); [reflexivity|]. destruct (negb _ && _); [reflexivity|]. cbv zeta. rewrite Hb. reflexivity.
Qed.

Definition SAME (f : nat) : Prop :=
  (forall e m, sx o fns obj afs f e m = sx o fns obj afs' f e m) /\
  (forall l m, sxs o fns obj afs f l m = sxs o fns obj afs' f l m) /\
  (forall s m, sstmt o fns obj afs f s m = sstmt o fns obj afs' f s m) /\
  (forall b m, sblock o fns obj afs f b m = sblock o fns obj afs' f b m) /\
  (forall c body m, swhile o fns obj afs f c body m = swhile o fns obj afs' f c body m) /\
  (forall idx ident it off body m, sforeach o fns obj afs f idx ident it off body m = sforeach o fns obj afs' f idx ident it off body m) /\
  (forall v rest all m, sswitch o fns obj afs f v rest all m = sswitch o fns obj afs' f v rest all m) /\
  (forall v es blk rest all m, scase o fns obj afs f v es blk rest all m = scase o fns obj afs' f v es blk rest all m) /\
  (forall all m, sdefaults o fns obj afs f all m = sdefaults o fns obj afs' f all m).

Ltac cong :=
  repeat first
    [ reflexivity
    | assumption
    | match goal with
      | |- then_ _ _ = then_ _ _ => apply then_cong; [|intro]
      | |- pop1s _ _ = pop1s _ _ => apply pop1s_cong; intros
      | |- pop2s _ _ = pop2s _ _ => apply pop2s_cong; intros
      | H : forall e m, ExecFun.sx _ _ _ afs _ e m = _ |- ExecFun.sx _ _ _ afs _ _ _ = _ => apply H
      | H : forall l m, ExecFun.sxs _ _ _ afs _ l m = _ |- ExecFun.sxs _ _ _ afs _ _ _ = _ => apply H
      | H : forall b m, ExecFun.sblock _ _ _ afs _ b m = _ |- ExecFun.sblock _ _ _ afs _ _ _ = _ => apply H
      | H : forall s m, ExecFun.sstmt _ _ _ afs _ s m = _ |- ExecFun.sstmt _ _ _ afs _ _ _ = _ => apply H
      | H : forall c body m, ExecFun.swhile _ _ _ afs _ c body m = _ |- ExecFun.swhile _ _ _ afs _ _ _ _ = _ => apply H
      | H : forall idx ident it off body m, ExecFun.sforeach _ _ _ afs _ idx ident it off body m = _ |- ExecFun.sforeach _ _ _ afs _ _ _ _ _ _ _ = _ => apply H
      | H : forall v rest all m, ExecFun.sswitch _ _ _ afs _ v rest all m = _ |- ExecFun.sswitch _ _ _ afs _ _ _ _ _ = _ => apply H
      | H : forall v es blk rest all m, ExecFun.scase _ _ _ afs _ v es blk rest all m = _ |- ExecFun.scase _ _ _ afs _ _ _ _ _ _ _ = _ => apply H
      | H : forall all m, ExecFun.sdefaults _ _ _ afs _ all m = _ |- ExecFun.sdefaults _ _ _ afs _ _ _ = _ => apply H
      | |- (if ?c then _ else _) = _ => destruct c
      | |- match ?x with _ => _ end = _ => destruct x
      end ].

Lemma same_all : forall f, SAME f.
Proof.
  induction f as [|f IH].
  - unfold SAME. refine (conj _ (conj _ (conj _ (conj _ (conj _ (conj _ (conj _ (conj _ _)))))))); intros; reflexivity.
  - pose proof IH as (Hx & Hxs & Hst & Hb & Hw & Hf & Hsw & Hc & Hd).
    unfold SAME. refine (conj _ (conj _ (conj _ (conj _ (conj _ (conj _ (conj _ (conj _ _)))))))).
    + intros e m.
      destruct e as [t z|t x|s|b|v fl|n|op r|op l r|n op|c t e'|l|l|l i|fn args|n v|n|c cns alt|c body|idx ident v body|n ps b|v cs];
        try reflexivity.
      * cbn [ExecFun.sx]. cong.
      * cbn [ExecFun.sx]. cong.
      * rewrite !sx_ternary_S. cong.
      * rewrite !sx_array_S. cong.
      * cbn [ExecFun.sx]. cong.
      * rewrite !sx_call_S. apply call_body_cong; assumption.
      * cbn [ExecFun.sx]. cong.
      * rewrite !sx_if_S. cong.
      * rewrite !sx_while_S. apply Hw.
      * rewrite !sx_foreach_S. cbv zeta. cong.
      * rewrite !sx_switch_S. apply Hsw.
    + intros l m. rewrite !sxs_S. cong.
    + intros s m. rewrite !sstmt_S. cong.
    + intros b m. rewrite !sblock_S. cong.
    + intros c body m. rewrite !swhile_S. cong.
    + intros idx ident it off body m. rewrite !sforeach_S. cbv zeta. cong.
    + intros v rest all m. rewrite !sswitch_S. cong.
    + intros v es blk rest all m. rewrite !scase_S. cong.
    + intros all m. rewrite !sdefaults_S. cong.
Qed.

(* THE TABLE IS USED ONLY THROUGH THE LOOKUP: two tables that answer every lookup alike give the
   same run of every program - whatever the order in which the definitions were entered *)
Theorem only_the_lookup_matters : forall f b m, sblock o fns obj afs f b m = sblock o fns obj afs' f b m.
Proof. intros f b m. destruct (same_all f) as (_ & _ & _ & H & _). apply H. Qed.
Theorem only_the_lookup_matters_sx : forall f e m, sx o fns obj afs f e m = sx o fns obj afs' f e m.
Proof. intros f e m. destruct (same_all f) as (H & _). apply H. Qed.
End TwoTables.

(* ---- what the table of a script contains ---- *)

Lemma af_get_set_same : forall n x t, af_get n (af_set n x t) = Some x.
Proof.
  intros n x. induction t as [|[k y] t IH]; cbn [af_set af_get].
  - rewrite EnvProofs.str_eqb_refl. reflexivity.
  - destruct (str_eqb k n) eqn:E; cbn [af_get]; rewrite E; [reflexivity|exact IH].
Qed.
Lemma af_get_set_other : forall n x m t, str_eqb n m = false -> af_get m (af_set n x t) = af_get m t.
Proof.
  intros n x m t H. induction t as [|[k y] t IH]; cbn [af_set af_get].
  - rewrite H. reflexivity.
  - destruct (str_eqb k n) eqn:E; cbn [af_get].
    + apply EnvProofs.str_eqb_eq in E. subst k. rewrite H. reflexivity.
    + rewrite IH. reflexivity.
Qed.

(* no definition of `name` occurs in the expression / block (as deep as the collector looks) *)
Fixpoint nodef_expr (fuel : nat) (name : str) (e : expr) {struct fuel} : bool :=
  match fuel with
  | O => true
  | S f =>
      match e with
      | EPrefix _ r => nodef_expr f name r
      | EInfix _ l r => nodef_expr f name l && nodef_expr f name r
      | ETernary c a b => nodef_expr f name c && nodef_expr f name a && nodef_expr f name b
      | EArray l => forallb (nodef_expr f name) l
      | EHash l => forallb (fun kv : expr * expr => nodef_expr f name (fst kv) && nodef_expr f name (snd kv)) l
      | EIndex l i => nodef_expr f name l && nodef_expr f name i
      | ECall _ args => forallb (nodef_expr f name) args
      | EAssign _ v => nodef_expr f name v
      | EIf c cns alt =>
          nodef_expr f name c && nodef_block f name cns &&
          match alt with Some a => nodef_block f name a | None => true end
      | EWhile c b => nodef_expr f name c && nodef_block f name b
      | EForeach _ _ v b => nodef_expr f name v && nodef_block f name b
      | EFunction n _ b => negb (str_eqb n name) && nodef_block f name b
      | ESwitch v cs =>
          nodef_expr f name v &&
          forallb (fun c : bool * list expr * list stmt =>
                     forallb (nodef_expr f name) (snd (fst c)) && nodef_block f name (snd c)) cs
      | _ => true
      end
  end
with nodef_block (fuel : nat) (name : str) (l : list stmt) {struct fuel} : bool :=
  match fuel with
  | O => true
  | S f => forallb (fun s => match s with SReturn e => nodef_expr f name e | SExpr e => nodef_expr f name e end) l
  end.

Lemma fold_keeps_lookup : forall (A : Type) name (g : aftable -> A -> aftable) l t,
  (forall x t, In x l -> af_get name (g t x) = af_get name t) ->
  af_get name (fold_left g l t) = af_get name t.
Proof.
  intros A name g l. induction l as [|x l IH]; intros t H; [reflexivity|]. cbn [fold_left].
  rewrite IH by (intros y t' Hy; apply H; right; exact Hy). apply H. left. reflexivity.
Qed.
Lemma opt_map_in : forall (A B : Type) (g : A -> option B) l ks y,
  opt_map g l = Some ks -> In y ks -> exists a, In a l /\ g a = Some y.
Proof.
  intros A B g l. induction l as [|a l IH]; intros ks y H Hy; cbn [opt_map] in H.
  - injection H as <-. contradiction.
  - destruct (g a) as [b|] eqn:E; [|discriminate]. destruct (opt_map g l) as [ys|]; [|discriminate].
    injection H as <-. destruct Hy as [<-|Hy].
    + exists a. split; [left; reflexivity|exact E].
    + destruct (IH ys y eq_refl Hy) as (a' & Ha & Hg). exists a'. split; [right; exact Ha|exact Hg].
Qed.

Lemma nodef_keeps_lookup : forall name f,
  (forall e t, nodef_expr f name e = true -> af_get name (collect_expr f e t) = af_get name t) /\
  (forall b t, nodef_block f name b = true -> af_get name (collect_block f b t) = af_get name t).
Proof.
  intros name. induction f as [|f (IHe & IHb)]; [split; reflexivity|].
  assert (Hl : forall l t, forallb (nodef_expr f name) l = true ->
                 af_get name (fold_left (fun acc x => collect_expr f x acc) l t) = af_get name t).
  { intros l t H. apply fold_keeps_lookup. intros x t' Hx. apply IHe.
    rewrite forallb_forall in H. apply H. exact Hx. }
  split.
  - intros e t H.
    destruct e as [tx z|tx x|s|b|v fl|n|op r|op l r|n op|c a e'|l|l|l i|fn args|n v|n|c cns alt|c body|idx ident v body|n ps b|v cs];
      cbn [collect_expr nodef_expr] in *; try reflexivity;
      repeat match goal with H : _ && _ = true |- _ => apply andb_true_iff in H; destruct H end.
    + apply IHe. exact H.
    + rewrite !IHe by assumption. reflexivity.
    + rewrite !IHe by assumption. reflexivity.
    + apply Hl. exact H.
    + destruct (opt_map _ l) as [ks|] eqn:E; [|reflexivity].
      apply fold_keeps_lookup. intros kv t' Hkv.
      apply in_map_iff in Hkv. destruct Hkv as ([sk kv'] & <- & Hin). cbn [snd].
      apply (Permutation_in _ (Permutation_sym (ContainerProofs.sort_by_perm _ _ ks))) in Hin.
      destruct (opt_map_in _ _ _ _ _ _ E Hin) as (a & Ha & Hg).
      destruct (estr 64 (fst a)); [|discriminate]. injection Hg as _ <-.
      rewrite forallb_forall in H. specialize (H a Ha). apply andb_true_iff in H. destruct H as [H1 H2].
      rewrite !IHe by assumption. reflexivity.
    + rewrite !IHe by assumption. reflexivity.
    + apply Hl. exact H.
    + apply IHe. exact H.
    + destruct alt as [a|]; rewrite ?IHb, ?IHe by assumption; reflexivity.
    + rewrite IHb, IHe by assumption. reflexivity.
    + rewrite IHb, IHe by assumption. reflexivity.
    + rewrite af_get_set_other by (apply negb_true_iff; assumption). apply IHb. assumption.
    + rewrite forallb_forall in H0.
      rewrite fold_keeps_lookup.
      * apply fold_keeps_lookup. intros c t' Hc. destruct (fst (fst c)); [reflexivity|].
        specialize (H0 c Hc). apply andb_true_iff in H0. destruct H0 as [H1 H2].
        apply fold_keeps_lookup. intros x t'' Hx. rewrite forallb_forall in H1.
        rewrite IHb, !IHe by (try assumption; apply H1; exact Hx). reflexivity.
      * intros c t' Hc. destruct (fst (fst c)); [|reflexivity].
        specialize (H0 c Hc). apply andb_true_iff in H0. destruct H0 as [H1 H2]. apply IHb. exact H2.
  - intros b t H. cbn [collect_block nodef_block] in *. apply fold_keeps_lookup. intros s t' Hs.
    rewrite forallb_forall in H. specialize (H s Hs). destruct s; apply IHe; exact H.
Qed.

(* 5. A DEFINITION IS FOUND WHEREVER IT STANDS.  If the script is  pre; function name(ps) { b }; post
   and `post` does not define `name` again, the table answers `name` with that definition -
   whatever `pre` is: a call in `pre`, before the definition, resolves to it just like one in
   `post`.  (A definition inside b of the same name is overridden by this one.) *)
Theorem definition_found_wherever_written : forall fuel pre name ps b post t,
  nodef_block (S (S fuel)) name post = true ->
  af_get name (collect_block (S (S fuel)) (pre ++ SExpr (EFunction name ps b) :: post) t) = Some (mkAfunc ps b).
Proof.
  intros fuel pre name ps b post t H.
  change (collect_block (S (S fuel)) (pre ++ SExpr (EFunction name ps b) :: post) t)
    with (fold_left (fun acc s => match s with SReturn e => collect_expr (S fuel) e acc | SExpr e => collect_expr (S fuel) e acc end)
                    (pre ++ SExpr (EFunction name ps b) :: post) t).
  rewrite fold_left_app. cbn [fold_left].
  set (T := fold_left _ pre t).
  change (fold_left _ post ?x) with (collect_block (S (S fuel)) post x).
  destruct (nodef_keeps_lookup name (S (S fuel))) as (_ & Hb). rewrite Hb by exact H.
  change (collect_expr (S fuel) (EFunction name ps b) T) with (af_set name (mkAfunc ps b) (collect_block fuel b T)).
  apply af_get_set_same.
Qed.

(* ------------------------------------------------------------------ *)
(* PART X: concrete scripts (no oracle: every oracle function answers None) *)
Module Examples.
Import SpecProofs.Examples.
Local Open Scope string_scope.

Definition call (n : string) (args : list expr) : expr := ECall (var n) args.
Definition def (n : string) (ps : list string) (b : list stmt) : stmt := SExpr (EFunction (L n) (map L ps) b).
Definition run (fuel : nat) (p : list stmt) : sres := sblock o0 [] HNil (collect_block 20 p []) fuel p m0.
Definition gget (r : sres) (n : string) : option value := env_get (menv (state_of r)) (L n).

(* 1. recursion, and a call BEFORE the definition:
        r = fact(5);
        function fact(n) { if (n <= 1) { return 1; } return n * fact(n - 1); } *)
Definition fact_def : stmt :=
  def "fact" ["n"]
    [ SExpr (EIf (EInfix TLtEq (var "n") (lit 1)) [SReturn (lit 1)] None);
      SReturn (EInfix TAsterisk (var "n") (call "fact" [EInfix TMinus (var "n") (lit 1)])) ].
Definition prog_fact : list stmt := [asg "r" (call "fact" [lit 5]); fact_def].
Example factorial_recursive_called_before_definition :
  run 60 prog_fact = XNormal (glob [("r", VInt 120)]).
Proof. vm_compute. reflexivity. Qed.

(* the same through the theorem: the table answers `fact` with the definition written AFTER the call *)
Example fact_is_in_the_table : exists af,
  af_get (L "fact") (collect_block 20 prog_fact []) = Some af /\ aparams af = [L "n"].
Proof.
  eexists. split.
  - apply (definition_found_wherever_written 18 [asg "r" (call "fact" [lit 5])] (L "fact") _ _ [] []). reflexivity.
  - reflexivity.
Qed.
(* a definition inside another function's body (or inside a block) is a definition of the SCRIPT:
   it can be called although the enclosing function never ran
        r = inner();   function outer() { function inner() { return 3; } } *)
Example nested_definition_is_global :
  run 60 [asg "r" (call "inner" []); def "outer" [] [def "inner" [] [SReturn (lit 3)]]] = XNormal (glob [("r", VInt 3)]).
Proof. vm_compute. reflexivity. Qed.

(* 2. NO dynamic scoping: g assigns x while its caller f has a local x
        function g() { x = 2; }
        function f() { local x; x = 1; g(); return x; }
        r = f();
      f still sees ITS x = 1; g's x went to the globals *)
Definition prog_dyn : list stmt :=
  [ def "g" [] [asg "x" (lit 2)];
    def "f" [] [SExpr (ELocal (L "x")); asg "x" (lit 1); SExpr (call "g" []); SReturn (var "x")];
    asg "r" (call "f" []) ].
Example callee_cannot_assign_callers_local :
  run 60 prog_dyn = XNormal (glob [("x", VInt 2); ("r", VInt 1)]).
Proof. vm_compute. reflexivity. Qed.
(* ... nor read it:  function g() { return x; }  function f() { local x; x = 1; return g(); }
      with a global x = 5: f() is 5 *)
Definition prog_dyn_read : list stmt :=
  [ asg "x" (lit 5);
    def "g" [] [SReturn (var "x")];
    def "f" [] [SExpr (ELocal (L "x")); asg "x" (lit 1); SReturn (call "g" [])];
    asg "r" (call "f" []) ].
Example callee_cannot_read_callers_local :
  run 60 prog_dyn_read = XNormal (glob [("x", VInt 5); ("r", VInt 5)]).
Proof. vm_compute. reflexivity. Qed.

(* 3. `return` from inside two nested foreach loops inside a function, called from a function
      that has locals of the same names as the loop variables:
        function find() { foreach a in [1,2] { foreach b in [10,20] { if (a * b == 20) { return a + b; } } } return 0; }
        function outer() { local a; local b; a = 7; b = 8; r = find(); return [a, b]; }
        q = outer(); *)
Definition prog_find : list stmt :=
  [ def "find" []
      [ SExpr (EForeach [] (L "a") (EArray [lit 1; lit 2])
          [ SExpr (EForeach [] (L "b") (EArray [lit 10; lit 20])
              [ SExpr (EIf (EInfix TEq (EInfix TAsterisk (var "a") (var "b")) (lit 20))
                         [SReturn (EInfix TPlus (var "a") (var "b"))] None) ]) ]);
        SReturn (lit 0) ];
    def "outer" []
      [ SExpr (ELocal (L "a")); SExpr (ELocal (L "b")); asg "a" (lit 7); asg "b" (lit 8);
        asg "r" (call "find" []); SReturn (EArray [var "a"; var "b"]) ];
    asg "q" (call "outer" []) ].
Example return_from_nested_loops_in_function :
  run 80 prog_find = XNormal (glob [("r", VInt 21); ("q", VArray [VInt 7; VInt 8])]).
Proof. vm_compute. reflexivity. Qed.

(* 4. parameters shadow globals for the duration of the call only; no value without `return`
        n = 1; function f(n) { n = n + 1; m = n; }  f(10);     leaves n = 1, m = 11, nothing on the stack *)
Definition prog_param : list stmt :=
  [ asg "n" (lit 1);
    def "f" ["n"] [asg "n" (EInfix TPlus (var "n") (lit 1)); asg "m" (var "n")];
    SExpr (call "f" [lit 10]) ].
Example parameter_is_local_to_the_call :
  run 60 prog_param = XNormal (glob [("n", VInt 1); ("m", VInt 11)]).
Proof. vm_compute. reflexivity. Qed.

(* 4b. loop variables: the body assigns its loop variable and calls f, which assigns a GLOBAL x;
        function f() { x = 99; }
        function g() { local x; x = 7; foreach x in [1, 2] { x = 50; f(); } return x; }
        r = g();
      g's own x is 7 again after the loop (foreach_variables_scoped); the global x is f's *)
Definition prog_loopvar : list stmt :=
  [ def "f" [] [asg "x" (lit 99)];
    def "g" [] [ SExpr (ELocal (L "x")); asg "x" (lit 7);
                 SExpr (EForeach [] (L "x") (EArray [lit 1; lit 2]) [asg "x" (lit 50); SExpr (call "f" [])]);
                 SReturn (var "x") ];
    asg "r" (call "g" []) ].
Example loop_variable_restores_the_local :
  run 60 prog_loopvar = XNormal (glob [("x", VInt 99); ("r", VInt 7)]).
Proof. vm_compute. reflexivity. Qed.
(* THE NATURAL STATEMENT FOR GLOBALS IS FALSE: "after the loop a global of the loop variable's name
   has its old value" -   x = 1; foreach x in [1, 2] { f(); }   leaves the global x = 99 *)
Definition loop_cex : expr := EForeach [] (L "x") (EArray [lit 1; lit 2]) [SExpr (call "f" [])].
Example loop_variable_global_counterexample :
  ~ (forall o fns obj afs f idx ident v body m m',
       sx o fns obj afs (S f) (EForeach idx ident v body) m = XNormal m' ->
       env_get (menv m') ident = env_get (menv m) ident).
Proof.
  intro H.
  assert (E : sx o0 [] HNil [(L "f", mkAfunc [] [asg "x" (lit 99)])] 20 loop_cex (glob [("x", VInt 1)])
              = XNormal (glob [("x", VInt 99)])) by (vm_compute; reflexivity).
  apply (H o0 [] HNil _ 19%nat [] (L "x")) in E. vm_compute in E. discriminate.
Qed.

(* 5. the errors *)
Example wrong_argument_count : exists m', run 60 [def "f" ["a"] []; SExpr (call "f" [])] = XErr EScript m'.
Proof. eexists. vm_compute. reflexivity. Qed.
Example unknown_function : exists m', run 60 [SExpr (call "nosuch" [lit 1])] = XErr EScript m'.
Proof. eexists. vm_compute. reflexivity. Qed.
(* unbounded recursion ends in the nesting error once max_call_depth (5000) scopes are open, and
   the error closes them all:  function f() { f(); } f(); *)
Example unbounded_recursion_is_an_error : exists m',
  run (200 * 100) [def "f" [] [SExpr (call "f" [])]; SExpr (call "f" [])] = XErr EScript m' /\ scopes (menv m') = [].
Proof. eexists. vm_compute. split; reflexivity. Qed.

(* 6. duplicate parameter names: the LAST one wins (hence NoDup in
      callee_sees_parameters_not_callers_locals)   function f(a, a) { return a; }  r = f(1, 2); *)
Example duplicate_parameter_last_wins :
  run 60 [def "f" ["a"; "a"] [SReturn (var "a")]; asg "r" (call "f" [lit 1; lit 2])] = XNormal (glob [("r", VInt 2)]).
Proof. vm_compute. reflexivity. Qed.

End Examples.

(* OptModedProofs.v - the stack discipline AFTER optimisation (C18), obtained by composing the validated
   optimizer's simulation (OptSafeProofs) with the stack discipline of compiled code (ModedProofs):
   the optimized program of a well-moded script never ends in a machine-internal error either, as long
   as the calls of the corresponding unoptimized run return values. *)
From Coq Require Import Floats.
From EF Require Import Model.Base Gen.Tables Model.Ast Model.Code Model.Value Model.Env Model.Reflect Model.Compiler
                       Model.Optimizer Model.OptSafe Model.VM Model.Verifier Spec.Moded
                       Proofs.OptSafeProofs Proofs.ModedProofs.
Open Scope N_scope.

Theorem optimized_run_never_underflows : forall fuelc (ast : program) p p',
  well_moded ast = true -> compile_program fuelc ast = CompOk p ->
  optimize_program_safe p = Some p' ->
  forall o fns obj m, polls m = None ->
  (* every call of the unoptimized run returns a value, whatever the fuel *)
  (forall fuel', calls_push o (pconsts p) (pfuncs p) fns obj fuel' (pmain p) 0
                            (mkM [] (env_truncate (menv m) 0) (trace m) (polls m))) ->
  forall fuel out m',
  run_main o (pconsts p') (pfuncs p') fns obj fuel (pmain p') m = (out, m') ->
  out <> OErr EInternal.
Proof.
  intros fuelc ast p p' Hw Hc Ho o fns obj m Hp Hcp fuel out m' Hr Hi. subst out.
  destruct (optimize_program_safe_complete o fns obj p p' Ho m Hp fuel (OErr EInternal) m' Hr) as [fuel' Hr'].
  - discriminate.
  - exact (compiled_run_never_underflows fuelc ast p Hw Hc o fns obj fuel' m (OErr EInternal) m' Hr' (Hcp fuel') eq_refl).
Qed.

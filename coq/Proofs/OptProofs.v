(* OptProofs.v - the peephole optimizer's rewrites, window by window (C03).
   Every window the optimizer rewrites is shown interchangeable with its
   replacement, in any context and from any machine state; the one rewrite
   that is not sound (the square-root fold) is refuted by a concrete program. *)
From Coq Require Import Floats Lia.
From EF Require Import Model.Base Gen.Tables Model.Code Model.Value Model.Env Model.Reflect Model.Compiler
                       Model.Optimizer Model.VM Model.Api Spec.Eval.
From EF Require Import Proofs.ExprProofs.
From EF Require Proofs.TruthProofs Proofs.EnvProofs.
Open Scope N_scope.

(* ------------------------------------------------------------------ *)
(* arithmetic on the operand range *)

Lemma wrap64_small : forall z : Z, (0 <= z < 9223372036854775808)%Z -> wrap64 z = z.
Proof.
  intros z H. unfold wrap64, two63, two64. rewrite Z.mod_small by lia. lia.
Qed.

Lemma wrap64_of_N : forall r : N, r <= 65535 -> wrap64 (Z.of_N r) = Z.of_N r.
Proof. intros r H. apply wrap64_small. lia. Qed.

Lemma of_N_eqb : forall a b : N, (Z.of_N a =? Z.of_N b)%Z = (a =? b).
Proof.
  intros a b. destruct (N.eqb_spec a b) as [E|E]; destruct (Z.eqb_spec (Z.of_N a) (Z.of_N b)) as [F|F];
    try reflexivity; exfalso; lia.
Qed.

Lemma hi_lo_le : forall n, n <= 65535 -> hi_byte n * 256 + lo_byte n = n.
Proof. intros n H. apply hi_lo. lia. Qed.

(* ------------------------------------------------------------------ *)
(* single instructions, located by the prefix that precedes them *)

Section Runs.
Variables (o : stdlib) (pool : list value) (funcs : list (str * ufunc)) (fns : fnmap) (obj : hostval).
Notation ex := (exec o pool funcs fns obj).
Notation rt := (runs_to o pool funcs fns obj).

Lemma exec_nop : forall k main ip m,
  (lenN main <=? ip) = false -> polls m = None -> byte_at main ip = Some OpNop ->
  ex (S k) main ip m = ex k main (ip + 1) m.
Proof.
  intros k main ip m Hl Hp Hb. cbn [exec]. rewrite Hl, Hp, Hb. step_simpl. reflexivity.
Qed.

Lemma rt_end : forall main a b c m1 m2 m3,
  rt main a b m1 m2 -> b = c -> m2 = m3 -> rt main a c m1 m3.
Proof. intros. subst. assumption. Qed.

Lemma run_nop : forall main pre post ip m,
  main = pre ++ OpNop :: post -> ip = lenN pre -> polls m = None -> rt main ip (ip + 1) m m.
Proof.
  intros main pre post ip m Hm Hi Hp. destruct (at_op1 _ _ _ _ _ Hm Hi) as [Hl Hb].
  apply runs_to_step. intro k. apply exec_nop; assumption.
Qed.

Lemma run_true : forall main pre post ip m,
  main = pre ++ OpTrue :: post -> ip = lenN pre -> polls m = None ->
  rt main ip (ip + 1) m (push m (VBool true)).
Proof.
  intros main pre post ip m Hm Hi Hp. destruct (at_op1 _ _ _ _ _ Hm Hi) as [Hl Hb].
  apply runs_to_step. intro k. apply exec_true; assumption.
Qed.

Lemma run_false : forall main pre post ip m,
  main = pre ++ OpFalse :: post -> ip = lenN pre -> polls m = None ->
  rt main ip (ip + 1) m (push m (VBool false)).
Proof.
  intros main pre post ip m Hm Hi Hp. destruct (at_op1 _ _ _ _ _ Hm Hi) as [Hl Hb].
  apply runs_to_step. intro k. apply exec_false; assumption.
Qed.

Lemma run_push : forall main pre post h l ip m,
  main = pre ++ OpPush :: h :: l :: post -> ip = lenN pre -> polls m = None ->
  rt main ip (ip + 3) m (push m (VInt (Z.of_N (h * 256 + l)))).
Proof.
  intros main pre post h l ip m Hm Hi Hp. destruct (at_op3 _ _ _ _ _ _ _ Hm Hi) as [Hl [Hb Ho]].
  apply runs_to_step. intro k. apply exec_push; assumption.
Qed.

Lemma run_binop : forall b main pre post ip m r l s v,
  main = pre ++ opcode_of_binop b :: post -> ip = lenN pre -> polls m = None ->
  stk m = r :: l :: s -> vm_binop o b l r = Ok v ->
  rt main ip (ip + 1) m (set_stk m (v :: s)).
Proof.
  intros b main pre post ip m r l s v Hm Hi Hp Hs Hv. destruct (at_op1 _ _ _ _ _ Hm Hi) as [Hl Hb].
  apply runs_to_step. intro k.
  rewrite (exec_binop o pool funcs fns obj b k main ip m r l s Hl Hp Hb Hs). rewrite Hv. reflexivity.
Qed.

(* the conditional jump on a constant *)
Lemma run_jif_true : forall main pre post h l ip m s,
  main = pre ++ OpJumpIfFalse :: h :: l :: post -> ip = lenN pre -> polls m = None ->
  stk m = VBool true :: s ->
  rt main ip (ip + 3) m (set_stk m s).
Proof.
  intros main pre post h l ip m s Hm Hi Hp Hs. destruct (at_op3 _ _ _ _ _ _ _ Hm Hi) as [Hl [Hb Ho]].
  apply runs_to_step. intro k.
  rewrite (TruthProofs.exec_jump_if_false o pool funcs fns obj k main ip m _ _ s Hl Hp Hb Ho Hs).
  reflexivity.
Qed.

Lemma run_jif_false : forall main pre post h l ip m s,
  main = pre ++ OpJumpIfFalse :: h :: l :: post -> ip = lenN pre -> polls m = None ->
  stk m = VBool false :: s -> h * 256 + l < lenN main ->
  rt main ip (h * 256 + l) m (set_stk m s).
Proof.
  intros main pre post h l ip m s Hm Hi Hp Hs Ht. destruct (at_op3 _ _ _ _ _ _ _ Hm Hi) as [Hl [Hb Ho]].
  apply runs_to_step. intro k.
  rewrite (TruthProofs.exec_jump_if_false o pool funcs fns obj k main ip m _ _ s Hl Hp Hb Ho Hs).
  cbn [truthy]. apply N.leb_gt in Ht. rewrite Ht. reflexivity.
Qed.

(* a run of n no-ops advances the instruction pointer by n and leaves the state alone *)
Lemma run_nops : forall n pre post m,
  polls m = None ->
  rt (pre ++ repeat OpNop n ++ post) (lenN pre) (lenN pre + N.of_nat n) m m.
Proof.
  induction n as [|n IH]; intros pre post m Hp.
  - cbn [repeat N.of_nat]. rewrite N.add_0_r. apply runs_to_refl.
  - eapply runs_to_trans.
    + apply (run_nop _ pre (repeat OpNop n ++ post)); [reflexivity | reflexivity | exact Hp].
    + eapply rt_end.
      * specialize (IH (pre ++ [OpNop]) post m Hp).
        replace ((pre ++ [OpNop]) ++ repeat OpNop n ++ post)
          with (pre ++ repeat OpNop (S n) ++ post) in IH
          by (rewrite <- app_assoc; reflexivity).
        rewrite lenN_app in IH. change (lenN [OpNop]) with 1 in IH. exact IH.
      * rewrite Nat2N.inj_succ. lia.
      * reflexivity.
Qed.

End Runs.

Lemma set_stk_push : forall m v, set_stk (push m v) (stk m) = m.
Proof. intros [s e t p] v. reflexivity. Qed.

(* locating an instruction inside [pre ++ window ++ post] *)
Ltac list_eq' := repeat rewrite <- app_assoc; cbn [app]; reflexivity.
Ltac len_eq := unfold lenN; repeat rewrite app_length; cbn [Datatypes.length]; lia.

(* ------------------------------------------------------------------ *)
(* constant arithmetic *)

Lemma arith_value : forall (o : stdlib) (op a b r : N),
  a <= 65535 -> b <= 65535 -> r <= 65534 ->
  (op = OpAdd /\ r = a + b \/ op = OpMul /\ r = a * b \/ op = OpSub /\ b <= a /\ r = a - b \/
   op = OpDiv /\ b <> 0 /\ r = a / b) ->
  exists bo, op = opcode_of_binop bo /\
             vm_binop o bo (VInt (Z.of_N a)) (VInt (Z.of_N b)) = Ok (VInt (Z.of_N r)).
Proof.
  intros o op a b r Ha Hb Hr H.
  destruct H as [[-> ->]|[[-> ->]|[[-> [Hba ->]]|[-> [Hb0 ->]]]]].
  - exists BAdd. split; [reflexivity|]. cbn [vm_binop int_binop].
    rewrite <- N2Z.inj_add. rewrite wrap64_of_N by lia. reflexivity.
  - exists BMul. split; [reflexivity|]. cbn [vm_binop int_binop].
    rewrite <- N2Z.inj_mul. rewrite wrap64_of_N by lia. reflexivity.
  - exists BSub. split; [reflexivity|]. cbn [vm_binop int_binop].
    rewrite <- N2Z.inj_sub by exact Hba. rewrite wrap64_of_N by lia. reflexivity.
  - exists BDiv. split; [reflexivity|]. cbn [vm_binop int_binop].
    destruct (Z.eqb_spec (Z.of_N b) 0) as [E|E]; [exfalso; lia|].
    unfold go_quot. rewrite <- N2Z.inj_quot. rewrite wrap64_of_N by lia. reflexivity.
Qed.

Lemma fold_arith : forall (o : stdlib) (consts : list value) (funcs : list (str * ufunc)) (fns : fnmap)
  (obj : hostval) (op : N) (a b r : N) pre post m,
  polls m = None -> a <= 65535 -> b <= 65535 -> r <= 65534 ->
  (op = OpAdd /\ r = a + b \/ op = OpMul /\ r = a * b \/ op = OpSub /\ b <= a /\ r = a - b \/
   op = OpDiv /\ b <> 0 /\ r = a / b) ->
  let w1 := [OpPush; hi_byte a; lo_byte a; OpPush; hi_byte b; lo_byte b; op] in
  let w2 := [OpNop; OpNop; OpNop; OpPush; hi_byte r; lo_byte r; OpNop] in
  runs_to o consts funcs fns obj (pre ++ w1 ++ post) (lenN pre) (lenN pre + 7) m (push m (VInt (Z.of_N r))) /\
  runs_to o consts funcs fns obj (pre ++ w2 ++ post) (lenN pre) (lenN pre + 7) m (push m (VInt (Z.of_N r))).
Proof.
  intros o consts funcs fns obj op a b r pre post m Hp Ha Hb Hr Hop w1 w2. subst w1 w2.
  destruct (arith_value o op a b r Ha Hb Hr Hop) as [bo [Eop Hv]]. split.
  - eapply runs_to_trans.
    { apply (run_push o consts funcs fns obj _ pre
               (OpPush :: hi_byte b :: lo_byte b :: op :: post) (hi_byte a) (lo_byte a));
        [list_eq' | reflexivity | exact Hp]. }
    rewrite (hi_lo_le a Ha).
    eapply runs_to_trans.
    { apply (run_push o consts funcs fns obj _ (pre ++ [OpPush; hi_byte a; lo_byte a])
               (op :: post) (hi_byte b) (lo_byte b));
        [list_eq' | len_eq | exact Hp]. }
    rewrite (hi_lo_le b Hb).
    eapply rt_end.
    { apply (run_binop o consts funcs fns obj bo _
               (pre ++ [OpPush; hi_byte a; lo_byte a; OpPush; hi_byte b; lo_byte b]) post _ _
               (VInt (Z.of_N b)) (VInt (Z.of_N a)) (stk m) (VInt (Z.of_N r)));
        [rewrite <- Eop; list_eq' | len_eq | exact Hp | reflexivity | exact Hv]. }
    + lia.
    + destruct m; reflexivity.
  - eapply runs_to_trans.
    { apply (run_nop o consts funcs fns obj _ pre
               (OpNop :: OpNop :: OpPush :: hi_byte r :: lo_byte r :: OpNop :: post));
        [list_eq' | reflexivity | exact Hp]. }
    eapply runs_to_trans.
    { apply (run_nop o consts funcs fns obj _ (pre ++ [OpNop])
               (OpNop :: OpPush :: hi_byte r :: lo_byte r :: OpNop :: post));
        [list_eq' | len_eq | exact Hp]. }
    eapply runs_to_trans.
    { apply (run_nop o consts funcs fns obj _ (pre ++ [OpNop; OpNop])
               (OpPush :: hi_byte r :: lo_byte r :: OpNop :: post));
        [list_eq' | len_eq | exact Hp]. }
    eapply runs_to_trans.
    { apply (run_push o consts funcs fns obj _ (pre ++ [OpNop; OpNop; OpNop])
               (OpNop :: post) (hi_byte r) (lo_byte r));
        [list_eq' | len_eq | exact Hp]. }
    rewrite (hi_lo_le r) by lia.
    eapply rt_end.
    { apply (run_nop o consts funcs fns obj _
               (pre ++ [OpNop; OpNop; OpNop; OpPush; hi_byte r; lo_byte r]) post);
        [list_eq' | len_eq | exact Hp]. }
    + lia.
    + reflexivity.
Qed.

(* ------------------------------------------------------------------ *)
(* constant comparison *)

Lemma cmp_value : forall (o : stdlib) (op a b : N),
  (op = OpEqual \/ op = OpNotEqual) ->
  exists bo, op = opcode_of_binop bo /\
             vm_binop o bo (VInt (Z.of_N a)) (VInt (Z.of_N b)) =
             Ok (VBool (if op =? OpEqual then a =? b else negb (a =? b))).
Proof.
  intros o op a b [-> | ->].
  - exists BEq. split; [reflexivity|]. cbn [vm_binop int_binop]. unfold vbool.
    rewrite of_N_eqb. reflexivity.
  - exists BNe. split; [reflexivity|]. cbn [vm_binop int_binop]. unfold vbool.
    rewrite of_N_eqb. reflexivity.
Qed.

Lemma fold_cmp : forall (o : stdlib) (consts : list value) (funcs : list (str * ufunc)) (fns : fnmap)
  (obj : hostval) (op : N) (a b : N) pre post m,
  polls m = None -> a <= 65535 -> b <= 65535 -> (op = OpEqual \/ op = OpNotEqual) ->
  let res := if op =? OpEqual then a =? b else negb (a =? b) in
  let w1 := [OpPush; hi_byte a; lo_byte a; OpPush; hi_byte b; lo_byte b; op] in
  let w2 := [OpNop; OpNop; OpNop; OpNop; OpNop; OpNop; if res then OpTrue else OpFalse] in
  runs_to o consts funcs fns obj (pre ++ w1 ++ post) (lenN pre) (lenN pre + 7) m (push m (VBool res)) /\
  runs_to o consts funcs fns obj (pre ++ w2 ++ post) (lenN pre) (lenN pre + 7) m (push m (VBool res)).
Proof.
  intros o consts funcs fns obj op a b pre post m Hp Ha Hb Hop res w1 w2.
  destruct (cmp_value o op a b Hop) as [bo [Eop Hv]]. fold res in Hv. subst w1 w2. clearbody res. split.
  - eapply runs_to_trans.
    { apply (run_push o consts funcs fns obj _ pre
               (OpPush :: hi_byte b :: lo_byte b :: op :: post) (hi_byte a) (lo_byte a));
        [list_eq' | reflexivity | exact Hp]. }
    rewrite (hi_lo_le a Ha).
    eapply runs_to_trans.
    { apply (run_push o consts funcs fns obj _ (pre ++ [OpPush; hi_byte a; lo_byte a])
               (op :: post) (hi_byte b) (lo_byte b));
        [list_eq' | len_eq | exact Hp]. }
    rewrite (hi_lo_le b Hb).
    eapply rt_end.
    { apply (run_binop o consts funcs fns obj bo _
               (pre ++ [OpPush; hi_byte a; lo_byte a; OpPush; hi_byte b; lo_byte b]) post _ _
               (VInt (Z.of_N b)) (VInt (Z.of_N a)) (stk m) (VBool res));
        [rewrite <- Eop; list_eq' | len_eq | exact Hp | reflexivity | exact Hv]. }
    + lia.
    + destruct m; reflexivity.
  - eapply runs_to_trans.
    { apply (run_nops o consts funcs fns obj 6 pre ((if res then OpTrue else OpFalse) :: post) m Hp). }
    replace (pre ++ repeat OpNop 6 ++ (if res then OpTrue else OpFalse) :: post)
      with (pre ++ [OpNop; OpNop; OpNop; OpNop; OpNop; OpNop; if res then OpTrue else OpFalse] ++ post)
      by reflexivity.
    destruct res.
    + eapply rt_end.
      { apply (run_true o consts funcs fns obj _ (pre ++ [OpNop; OpNop; OpNop; OpNop; OpNop; OpNop]) post);
          [list_eq' | len_eq | exact Hp]. }
      * cbn [N.of_nat Pos.of_succ_nat Pos.succ]. lia.
      * reflexivity.
    + eapply rt_end.
      { apply (run_false o consts funcs fns obj _ (pre ++ [OpNop; OpNop; OpNop; OpNop; OpNop; OpNop]) post);
          [list_eq' | len_eq | exact Hp]. }
      * cbn [N.of_nat Pos.of_succ_nat Pos.succ]. lia.
      * reflexivity.
Qed.

(* ------------------------------------------------------------------ *)
(* jumps on constants *)

Lemma jump_never_taken : forall (o : stdlib) (consts : list value) (funcs : list (str * ufunc)) (fns : fnmap)
  (obj : hostval) (target : N) pre post m,
  polls m = None -> lenN (pre ++ [OpTrue; OpJumpIfFalse; hi_byte target; lo_byte target] ++ post) <= 65535 ->
  let w1 := [OpTrue; OpJumpIfFalse; hi_byte target; lo_byte target] in
  let w2 := [OpNop; OpNop; OpNop; OpNop] in
  runs_to o consts funcs fns obj (pre ++ w1 ++ post) (lenN pre) (lenN pre + 4) m m /\
  runs_to o consts funcs fns obj (pre ++ w2 ++ post) (lenN pre) (lenN pre + 4) m m.
Proof.
  intros o consts funcs fns obj target pre post m Hp _ w1 w2. subst w1 w2. split.
  - eapply runs_to_trans.
    { apply (run_true o consts funcs fns obj _ pre
               (OpJumpIfFalse :: hi_byte target :: lo_byte target :: post));
        [list_eq' | reflexivity | exact Hp]. }
    eapply rt_end.
    { apply (run_jif_true o consts funcs fns obj _ (pre ++ [OpTrue]) post
               (hi_byte target) (lo_byte target) _ _ (stk m));
        [list_eq' | len_eq | exact Hp | reflexivity]. }
    + lia.
    + apply set_stk_push.
  - apply (run_nops o consts funcs fns obj 4 pre post m Hp).
Qed.

Lemma jump_always_taken : forall (o : stdlib) (consts : list value) (funcs : list (str * ufunc)) (fns : fnmap)
  (obj : hostval) (body : list N) pre post m,
  polls m = None ->
  let target := lenN pre + 4 + lenN body in
  target <= 65535 -> post <> [] ->
  let w1 := [OpFalse; OpJumpIfFalse; hi_byte target; lo_byte target] ++ body in
  let w2 := repeat OpNop (4 + List.length body) in
  runs_to o consts funcs fns obj (pre ++ w1 ++ post) (lenN pre) target m m /\
  runs_to o consts funcs fns obj (pre ++ w2 ++ post) (lenN pre) target m m.
Proof.
  intros o consts funcs fns obj body pre post m Hp target Ht Hpost w1 w2. subst w1 w2. split.
  - eapply runs_to_trans.
    { apply (run_false o consts funcs fns obj _ pre
               (OpJumpIfFalse :: hi_byte target :: lo_byte target :: body ++ post));
        [list_eq' | reflexivity | exact Hp]. }
    eapply rt_end.
    { apply (run_jif_false o consts funcs fns obj _ (pre ++ [OpFalse]) (body ++ post)
               (hi_byte target) (lo_byte target) _ _ (stk m));
        [list_eq' | len_eq | exact Hp | reflexivity |].
      rewrite (hi_lo_le target Ht). unfold target.
      destruct post as [|x post]; [congruence|].
      repeat rewrite lenN_app. rewrite lenN_cons.
      unfold lenN; cbn [Datatypes.length]; lia. }
    + apply hi_lo_le. exact Ht.
    + apply set_stk_push.
  - eapply rt_end.
    { apply (run_nops o consts funcs fns obj (4 + List.length body) pre post m Hp). }
    + unfold target, lenN. lia.
    + reflexivity.
Qed.

(* ------------------------------------------------------------------ *)
(* patches keep the length *)

Lemma set_nth_length : forall l i x, List.length (set_nth l i x) = List.length l.
Proof.
  induction l as [|y l IH]; intros i x; cbn [set_nth].
  - reflexivity.
  - destruct (i =? 0); cbn [Datatypes.length]; [reflexivity|]. rewrite IH. reflexivity.
Qed.

Lemma apply_patches_length : forall ps code, List.length (apply_patches code ps) = List.length code.
Proof.
  induction ps as [|[i b] ps IH]; intro code; cbn [apply_patches].
  - reflexivity.
  - rewrite IH. apply set_nth_length.
Qed.

Lemma maths_walk_length : forall fuel code rest off args c',
  maths_walk fuel code rest off args = Changed c' -> List.length c' = List.length code.
Proof.
  induction fuel as [|f IH]; intros code rest off args c' H.
  - discriminate.
  - cbn [maths_walk] in H. destruct rest as [|op rest']; [discriminate|].
    repeat match type of H with
    | Changed ?x = Changed _ =>
        let E := fresh in assert (E : c' = x) by congruence; rewrite E; apply apply_patches_length
    | maths_walk f _ _ _ _ = Changed _ => exact (IH _ _ _ _ _ H)
    | NoChange = Changed _ => discriminate H
    | Stop = Changed _ => discriminate H
    | (if ?c then _ else _) = Changed _ => destruct c
    | match ?x with _ => _ end = Changed _ => destruct x
    end.
Qed.

Lemma maths_pass_length : forall code c', maths_pass code = Changed c' -> List.length c' = List.length code.
Proof. intros code c' H. exact (maths_walk_length _ _ _ _ _ _ H). Qed.

(* ------------------------------------------------------------------ *)
(* D5: the square-root fold changes the type of the result *)

Definition no_stdlib : stdlib :=
  mkStdlib (fun _ => None) (fun _ => None) (fun _ _ => None) (fun _ _ => None) (fun _ _ _ => None)
           (fun _ => None) (fun _ => None) (fun _ => None) (fun _ _ => None) (fun _ => None) (fun _ => None).

Definition sqrt_code : list N := [OpPush; 0; 9; OpSquareRoot; OpReturn].
Definition sqrt_code_opt : list N := [OpPush; 0; 3; OpReturn].

Lemma sqrt_code_optimized : optimize_body sqrt_code = Some sqrt_code_opt.
Proof. vm_compute. reflexivity. Qed.

Lemma sqrt_fold_refuted :
  exists (code : list N) (o : stdlib) (v1 v2 : value) m1 m2,
    optimize_body code <> Some code /\
    exec o [] [] [] HNil 10 code 0 (mkM [] (mkEnv [] []) [] None) = (ODone v1, m1) /\
    (forall c', optimize_body code = Some c' -> exec o [] [] [] HNil 10 c' 0 (mkM [] (mkEnv [] []) [] None) = (ODone v2, m2)) /\
    type_of v1 = TyFloat /\ type_of v2 = TyInt.
Proof.
  exists sqrt_code, no_stdlib, (VFloat 3%float), (VInt 3),
         (mkM [] (mkEnv [] []) [] None), (mkM [] (mkEnv [] []) [] None).
  split; [|split; [|split; [|split]]].
  - rewrite sqrt_code_optimized. vm_compute. discriminate.
  - vm_compute. reflexivity.
  - intros c' H. rewrite sqrt_code_optimized in H. injection H as <-. vm_compute. reflexivity.
  - reflexivity.
  - reflexivity.
Qed.

(* ------------------------------------------------------------------ *)
(* D23: the OPTIMIZE switch is a variable the script can read *)

Lemma optimize_flag_visible : forall o e u p e',
  prepare o e true = (PrepOk u p, e') -> env_get (eenv e') optimize_var = Some (VBool true).
Proof.
  intros o e u p e' H. unfold prepare in H.
  repeat match type of H with
  | (match ?x with _ => _ end) = _ => destruct x; try discriminate H
  end.
  assert (E : e' = snd (PrepOk u p, e')) by reflexivity. rewrite <- H in E. rewrite E.
  cbn [snd eenv]. apply EnvProofs.set_get_same.
Qed.

(* BuiltinProofs.v - proofs about the built-in functions (Model/Builtins.v),
   used by Properties/C17.v. *)
From Coq Require Import Floats ZArith NArith List Bool Lia Permutation Sorted.
From EF Require Import Model.Base Gen.Tables Model.Code Model.Value Model.Builtins Model.VM
                       Spec.TimeSpec.
Import ListNotations.
Open Scope N_scope.

(* ------------------------------------------------------------------ *)
(* closed names: the if-chain of call_builtin computes                  *)

Lemma cb_between : forall o args, call_builtin o (L "between") args = Some
    match args with
    | [v; lo; hi] =>
        if is_number v && is_number lo && is_number hi
        then BVal (VBool (numeric_le lo v && numeric_le v hi))
        else BVal VNull
    | _ => BVal VNull
    end.
Proof. reflexivity. Qed.
Lemma cb_min : forall o args, call_builtin o (L "min") args = Some (min_max o args false).
Proof. reflexivity. Qed.
Lemma cb_max : forall o args, call_builtin o (L "max") args = Some (min_max o args true).
Proof. reflexivity. Qed.

(* ------------------------------------------------------------------ *)
(* min / max                                                            *)

Lemma min_max_numeric : forall o a b,
  is_number a = true -> is_number b = true ->
  call_builtin o (L "min") [a; b] = Some (BVal (if numeric_less b a then b else a)) /\
  call_builtin o (L "max") [a; b] = Some (BVal (if numeric_less a b then b else a)) /\
  vm_binop o BLt a b = Ok (VBool (numeric_less a b)).
Proof.
  intros o a b Ha Hb. rewrite cb_min, cb_max. unfold min_max. rewrite Ha, Hb. simpl andb. cbv iota.
  split; [reflexivity | split; [reflexivity |]].
  destruct a; try discriminate Ha; destruct b; try discriminate Hb; reflexivity.
Qed.

(* ------------------------------------------------------------------ *)
(* between                                                              *)

Lemma between_ints : forall o v lo hi,
  call_builtin o (L "between") [VInt v; VInt lo; VInt hi] = Some (BVal (VBool ((lo <=? v)%Z && (v <=? hi)%Z))).
Proof.
  intros. rewrite cb_between. reflexivity.
Qed.

(* ------------------------------------------------------------------ *)
(* floats: comparisons of non-NaN numbers                               *)
(* uses FloatAxioms.ltb_spec, leb_spec, eqb_spec, opp_spec, of_uint63_spec *)

Section FloatFacts.
Open Scope Z_scope.

Lemma SFcompare_antisym : forall x y, SFcompare y x = option_map CompOpp (SFcompare x y).
Proof.
  intros [sx|sx| |sx mx ex] [sy|sy| |sy my ey]; simpl; try reflexivity;
    try (destruct sx; reflexivity); try (destruct sy; reflexivity);
    try (destruct sx, sy; reflexivity).
  destruct sx, sy; simpl; try reflexivity; rewrite (Z.compare_antisym ex ey);
    destruct (ex ?= ey); simpl; try reflexivity.
  - rewrite Pos.compare_cont_antisym. simpl. rewrite CompOpp_involutive. reflexivity.
  - rewrite Pos.compare_cont_antisym. reflexivity.
Qed.

Lemma SFcompare_none : forall x y, SFcompare x y = None -> x = S754_nan \/ y = S754_nan.
Proof.
  intros [sx|sx| |sx mx ex] [sy|sy| |sy my ey]; simpl; intro H; try discriminate; auto.
Qed.

Lemma nlt_le : forall a b, Prim2SF a <> S754_nan -> Prim2SF b <> S754_nan ->
  negb (PrimFloat.ltb a b) = PrimFloat.leb b a.
Proof.
  intros a b Ha Hb. rewrite FloatAxioms.ltb_spec, FloatAxioms.leb_spec. unfold SFltb, SFleb.
  rewrite (SFcompare_antisym (Prim2SF a) (Prim2SF b)).
  destruct (SFcompare (Prim2SF a) (Prim2SF b)) as [[]|] eqn:E; try reflexivity.
  apply SFcompare_none in E. tauto.
Qed.

Lemma eqb_refl_not_nan : forall x, PrimFloat.eqb x x = true -> Prim2SF x <> S754_nan.
Proof.
  intros x H E. rewrite FloatAxioms.eqb_spec in H. rewrite E in H. discriminate.
Qed.

Lemma shr_1_nonneg : forall r, 0 <= shr_m r -> 0 <= shr_m (shr_1 r).
Proof.
  intros [m r s]; simpl. destruct m as [|[p|p|]|p]; simpl; lia.
Qed.

Lemma iter_pos_inv : forall A (f : A -> A) (P : A -> Prop), (forall x, P x -> P (f x)) ->
  forall n x, P x -> P (SpecFloat.iter_pos f n x).
Proof. intros A f P Hf. induction n; simpl; auto. Qed.

Lemma shr_nonneg : forall r e n, 0 <= shr_m r -> 0 <= shr_m (fst (shr r e n)).
Proof.
  intros r e n H. unfold shr. destruct n; simpl; try assumption.
  apply (iter_pos_inv _ shr_1 (fun r => 0 <= shr_m r)); [apply shr_1_nonneg | assumption].
Qed.

Lemma shr_record_of_loc_m : forall m l, shr_m (shr_record_of_loc m l) = m.
Proof. intros m [|[]]; reflexivity. Qed.

Lemma shr_fexp_nonneg : forall p em m e l, 0 <= m -> 0 <= shr_m (fst (shr_fexp p em m e l)).
Proof.
  intros. unfold shr_fexp. apply shr_nonneg. rewrite shr_record_of_loc_m. assumption.
Qed.

Lemma rne_nonneg : forall m l, 0 <= m -> 0 <= round_nearest_even m l.
Proof. intros m [|[]] H; simpl; try destruct (Z.even m); lia. Qed.

Lemma binary_round_aux_not_nan : forall p em sx mx ex lx, 0 <= mx ->
  binary_round_aux p em sx mx ex lx <> S754_nan.
Proof.
  intros p em sx mx ex lx H. unfold binary_round_aux.
  pose proof (shr_fexp_nonneg p em mx ex lx H) as H1.
  destruct (shr_fexp p em mx ex lx) as [mrs' e']. simpl in H1.
  pose proof (shr_fexp_nonneg p em _ e' loc_Exact (rne_nonneg _ (loc_of_shr_record mrs') H1)) as H2.
  destruct (shr_fexp p em (round_nearest_even (shr_m mrs') (loc_of_shr_record mrs')) e' loc_Exact) as [mrs'' e''].
  simpl in H2. destruct (shr_m mrs'') as [|q|q]; try discriminate.
  - destruct (Zle_bool e'' (em - p)); discriminate.
  - lia.
Qed.

Lemma binary_normalize_not_nan : forall p em m e sz, binary_normalize p em m e sz <> S754_nan.
Proof.
  intros p em m e sz. unfold binary_normalize, binary_round.
  destruct m; try discriminate;
    destruct (shl_align _ _ _) as [mz ez]; apply binary_round_aux_not_nan; lia.
Qed.

Lemma of_uint63_not_nan : forall n, Prim2SF (PrimFloat.of_uint63 n) <> S754_nan.
Proof. intro n. rewrite FloatAxioms.of_uint63_spec. apply binary_normalize_not_nan. Qed.

Lemma opp_not_nan : forall x, Prim2SF x <> S754_nan -> Prim2SF (PrimFloat.opp x) <> S754_nan.
Proof. intros x H. rewrite FloatAxioms.opp_spec. destruct (Prim2SF x); try discriminate. contradiction. Qed.

Lemma float_of_Z_not_nan : forall z, Prim2SF (float_of_Z z) <> S754_nan.
Proof.
  intro z. unfold float_of_Z.
  destruct (z =? - two63). { vm_compute. discriminate. }
  destruct (z <? 0); [apply opp_not_nan|]; apply of_uint63_not_nan.
Qed.

End FloatFacts.

Definition num_nn (v : value) : Prop :=
  match v with VFloat x => Prim2SF x <> S754_nan | _ => True end.

Lemma numeric_nlt_le : forall o a b bb,
  is_number a = true -> is_number b = true -> num_nn a -> num_nn b ->
  vm_binop o BLe b a = Ok (VBool bb) -> negb (numeric_less a b) = bb.
Proof.
  intros o a b bb Ha Hb Na Nb H.
  destruct a; try discriminate Ha; destruct b; try discriminate Hb; simpl in *;
    unfold vbool in H; injection H as H; subst bb.
  - symmetry. apply Z.leb_antisym.
  - apply nlt_le; [apply float_of_Z_not_nan | assumption].
  - apply nlt_le; [assumption | apply float_of_Z_not_nan].
  - apply nlt_le; assumption.
Qed.

(* numeric_le is the language's own <= on numbers, NaN included *)
Lemma numeric_le_binop : forall o a b,
  is_number a = true -> is_number b = true ->
  vm_binop o BLe a b = Ok (VBool (numeric_le a b)).
Proof.
  intros o a b Ha Hb.
  destruct a; try discriminate Ha; destruct b; try discriminate Hb; reflexivity.
Qed.

Lemma between_iff : forall o v lo hi b1 b2,
  is_number v = true -> is_number lo = true -> is_number hi = true ->
  vm_binop o BLe lo v = Ok (VBool b1) -> vm_binop o BLe v hi = Ok (VBool b2) ->
  call_builtin o (L "between") [v; lo; hi] = Some (BVal (VBool (b1 && b2))).
Proof.
  intros o v lo hi b1 b2 Hv Hlo Hhi H1 H2.
  rewrite (numeric_le_binop o lo v Hlo Hv) in H1. injection H1 as <-.
  rewrite (numeric_le_binop o v hi Hv Hhi) in H2. injection H2 as <-.
  rewrite cb_between, Hv, Hlo, Hhi. reflexivity.
Qed.

(* a NaN lies in no interval, and nothing lies in an interval with a NaN bound *)
Lemma eqb_false_nan : forall x, PrimFloat.eqb x x = false -> Prim2SF x = S754_nan.
Proof.
  intros x H. rewrite FloatAxioms.eqb_spec in H. unfold SFeqb in H.
  destruct (Prim2SF x) as [s|s| |s m e]; try reflexivity; exfalso.
  - destruct s; discriminate H.
  - destruct s; discriminate H.
  - destruct s; simpl in H; rewrite Z.compare_refl, Pos.compare_cont_refl in H; discriminate H.
Qed.

Lemma leb_nan_l : forall x y, Prim2SF x = S754_nan -> PrimFloat.leb x y = false.
Proof. intros x y H. rewrite FloatAxioms.leb_spec. unfold SFleb. rewrite H. reflexivity. Qed.

Lemma leb_nan_r : forall x y, Prim2SF y = S754_nan -> PrimFloat.leb x y = false.
Proof.
  intros x y H. rewrite FloatAxioms.leb_spec. unfold SFleb. rewrite H.
  destruct (Prim2SF x) as [s|s| |s m e]; try reflexivity; destruct s; reflexivity.
Qed.

Lemma numeric_le_nan_l : forall x b, Prim2SF x = S754_nan -> numeric_le (VFloat x) b = false.
Proof. intros x b H. destruct b; try reflexivity; apply leb_nan_l; exact H. Qed.

Lemma numeric_le_nan_r : forall a x, Prim2SF x = S754_nan -> numeric_le a (VFloat x) = false.
Proof. intros a x H. destruct a; try reflexivity; apply leb_nan_r; exact H. Qed.

Lemma between_nan : forall o v lo hi x,
  is_number v = true -> is_number lo = true -> is_number hi = true ->
  In (VFloat x) [v; lo; hi] -> PrimFloat.eqb x x = false ->
  call_builtin o (L "between") [v; lo; hi] = Some (BVal (VBool false)).
Proof.
  intros o v lo hi x Hv Hlo Hhi Hin Hx. apply eqb_false_nan in Hx.
  rewrite cb_between, Hv, Hlo, Hhi. simpl andb. cbv iota.
  destruct Hin as [->|[->|[->|[]]]].
  - rewrite numeric_le_nan_r by exact Hx. reflexivity.
  - rewrite numeric_le_nan_l by exact Hx. reflexivity.
  - rewrite (numeric_le_nan_r v) by exact Hx. rewrite andb_false_r. reflexivity.
Qed.

(* ------------------------------------------------------------------ *)
(* the order on strings                                                 *)

Lemma str_ltb_asym : forall a b, str_ltb a b = true -> str_ltb b a = false.
Proof.
  induction a as [|x a IH]; destruct b as [|y b]; simpl; intros H; try reflexivity; try discriminate.
  destruct (N.ltb_spec x y), (N.ltb_spec y x); try reflexivity; try lia; try discriminate.
  apply IH; assumption.
Qed.

Lemma str_le_trans : forall a b c,
  str_ltb b a = false -> str_ltb c b = false -> str_ltb c a = false.
Proof.
  induction a as [|x a IH]; destruct b as [|y b]; destruct c as [|z c]; simpl; intros H1 H2;
    try reflexivity; try discriminate.
  destruct (N.ltb_spec y x), (N.ltb_spec x y), (N.ltb_spec z y), (N.ltb_spec y z),
           (N.ltb_spec z x), (N.ltb_spec x z); try reflexivity; try lia; try discriminate.
  eapply IH; eassumption.
Qed.

(* ------------------------------------------------------------------ *)
(* insertion sort                                                       *)

Lemma sort_insert_perm : forall A (le : A -> A -> bool) x l, Permutation (x :: l) (sort_insert le x l).
Proof.
  induction l as [|y l IH]; simpl.
  - apply Permutation_refl.
  - destruct (le x y).
    + apply Permutation_refl.
    + eapply perm_trans; [apply perm_swap | apply perm_skip, IH].
Qed.

Lemma sort_by_perm : forall A (lt : A -> A -> bool) l, Permutation l (sort_by lt l).
Proof.
  induction l as [|x l IH]; simpl.
  - constructor.
  - eapply perm_trans; [apply perm_skip, IH | apply sort_insert_perm].
Qed.

Section SortKeys.
Variable o : stdlib.
Variable lower : bool.

Definition keyf (v : value) : option (str * value) :=
  match inspect o v with
  | Some s => match (if lower then lower_m o s else Some s) with
              | Some k => Some (k, v)
              | None => None
              end
  | None => None
  end.

Lemma opt_map_keyf_snd : forall l ks, opt_map keyf l = Some ks -> map snd ks = l.
Proof.
  induction l as [|v l IH]; simpl; intros ks H.
  - inversion H; reflexivity.
  - destruct (keyf v) as [p|] eqn:Hk; [|discriminate].
    destruct (opt_map keyf l) as [ks'|]; [|discriminate].
    inversion H; subst; simpl. f_equal; [|apply IH; reflexivity].
    unfold keyf in Hk. destruct (inspect o v); [|discriminate].
    destruct (if lower then lower_m o s else Some s); [|discriminate].
    inversion Hk; reflexivity.
Qed.
End SortKeys.

Lemma sort_m_unfold : forall o l lower rv,
  sort_m o l lower rv =
  match opt_map (keyf o lower) l with
  | None => BNeed
  | Some ks =>
      let lt := if rv then (fun a b : str * value => str_ltb (fst b) (fst a))
                else (fun a b : str * value => str_ltb (fst a) (fst b)) in
      BVal (VArray (map snd (sort_by lt ks)))
  end.
Proof. reflexivity. Qed.

Lemma sort_perm : forall o l lower rv l',
  sort_m o l lower rv = BVal (VArray l') -> Permutation l l'.
Proof.
  intros o l lower rv l' H. rewrite sort_m_unfold in H.
  destruct (opt_map (keyf o lower) l) as [ks|] eqn:Hk; [|discriminate].
  cbv zeta in H. inversion H; subst. clear H.
  rewrite <- (opt_map_keyf_snd _ _ _ _ Hk).
  apply Permutation_map, sort_by_perm.
Qed.

(* sortedness of the insertion sort for the order on the printed forms *)
Definition kle (a b : str * value) : Prop := str_ltb (fst b) (fst a) = false.
Definition kleb (a b : str * value) : bool := negb (str_ltb (fst b) (fst a)).

Lemma sort_insert_Forall : forall A (P : A -> Prop) le x l,
  P x -> Forall P l -> Forall P (sort_insert le x l).
Proof.
  intros A P le x l Hx Hl.
  eapply Permutation_Forall; [apply sort_insert_perm | constructor; assumption].
Qed.

Lemma sort_insert_sorted : forall x l,
  StronglySorted kle l -> StronglySorted kle (sort_insert kleb x l).
Proof.
  induction l as [|y l IH]; simpl; intros Hs.
  - constructor; constructor.
  - inversion Hs as [|? ? Hs' Hy]; subst.
    unfold kleb at 1. destruct (str_ltb (fst y) (fst x)) eqn:E; simpl.
    + constructor.
      * apply IH; assumption.
      * apply sort_insert_Forall; [|assumption].
        unfold kle. apply str_ltb_asym; assumption.
    + constructor; [assumption|].
      constructor; [exact E|].
      eapply Forall_impl; [|exact Hy].
      intros z Hz. unfold kle in *. eapply str_le_trans; eassumption.
Qed.

Lemma sort_by_sorted : forall l,
  StronglySorted kle (sort_by (fun a b : str * value => str_ltb (fst a) (fst b)) l).
Proof.
  induction l as [|x l IH]; simpl.
  - constructor.
  - apply (sort_insert_sorted x _ IH).
Qed.

Lemma StronglySorted_map_fst : forall l,
  StronglySorted kle l -> StronglySorted (fun a b => str_ltb b a = false) (map fst l).
Proof.
  induction 1 as [|x l Hs IH Hx]; simpl; constructor; [assumption|].
  apply Forall_map. exact Hx.
Qed.

Lemma opt_map_inspect_keys : forall o (ks : list (str * value)),
  Forall (fun p => inspect o (snd p) = Some (fst p)) ks ->
  opt_map (inspect o) (map snd ks) = Some (map fst ks).
Proof.
  induction 1 as [|p ks Hp Hks IH]; simpl.
  - reflexivity.
  - rewrite Hp, IH. reflexivity.
Qed.

Lemma opt_map_keyf_inspect : forall o l ks, opt_map (keyf o false) l = Some ks ->
  Forall (fun p => inspect o (snd p) = Some (fst p)) ks.
Proof.
  induction l as [|v l IH]; simpl; intros ks H.
  - inversion H; constructor.
  - destruct (keyf o false v) as [p|] eqn:Hk; [|discriminate].
    destruct (opt_map (keyf o false) l) as [ks'|]; [|discriminate].
    inversion H; subst. constructor; [|apply IH; reflexivity].
    unfold keyf in Hk. destruct (inspect o v) eqn:Hi; [|discriminate].
    inversion Hk; subst; simpl. assumption.
Qed.

Lemma sort_sorted : forall o l l' keys,
  sort_m o l false false = BVal (VArray l') ->
  opt_map (inspect o) l' = Some keys ->
  StronglySorted (fun a b => str_ltb b a = false) keys.
Proof.
  intros o l l' keys H Hk. rewrite sort_m_unfold in H.
  destruct (opt_map (keyf o false) l) as [ks|] eqn:Hks; [|discriminate].
  cbv zeta in H. inversion H; subst; clear H.
  rewrite opt_map_inspect_keys in Hk.
  - inversion Hk; subst. apply StronglySorted_map_fst, sort_by_sorted.
  - eapply Permutation_Forall; [apply sort_by_perm|].
    eapply opt_map_keyf_inspect; eassumption.
Qed.

(* ------------------------------------------------------------------ *)
(* split / join                                                         *)

Lemma is_prefix_skipn : forall d s, is_prefix d s = true -> s = d ++ skipn (List.length d) s.
Proof.
  induction d as [|x d IH]; simpl; intros s H.
  - reflexivity.
  - destruct s as [|y s]; [discriminate|].
    apply andb_true_iff in H. destruct H as [H1 H2].
    apply N.eqb_eq in H1. subst. simpl. f_equal. apply IH; assumption.
Qed.

Lemma split_go_nonempty : forall fuel s d cur, split_go fuel s d cur <> [].
Proof.
  induction fuel as [|f IH]; simpl; intros s d cur.
  - discriminate.
  - destruct s as [|c s']; [discriminate|].
    destruct (is_prefix d (c :: s')); [discriminate | apply IH].
Qed.

Lemma join_cons : forall d x l, l <> [] -> join d (x :: l) = x ++ d ++ join d l.
Proof. intros d x l H. destruct l; [contradiction | reflexivity]. Qed.

Lemma join_split_go : forall fuel s d cur, join d (split_go fuel s d cur) = rev cur ++ s.
Proof.
  induction fuel as [|f IH]; intros s d cur.
  - reflexivity.
  - destruct s as [|c s'].
    + simpl. rewrite app_nil_r. reflexivity.
    + cbn [split_go]. destruct (is_prefix d (c :: s')) eqn:E.
      * rewrite join_cons by apply split_go_nonempty.
        rewrite IH. simpl rev. simpl app at 2.
        rewrite <- (is_prefix_skipn _ _ E). reflexivity.
      * rewrite IH. simpl rev. rewrite <- app_assoc. reflexivity.
Qed.

Lemma join_split : forall (s d : str), d <> [] -> join d (split_m s d) = s.
Proof.
  intros s d Hd. unfold split_m. destruct d as [|x d]; [contradiction|].
  rewrite join_split_go. reflexivity.
Qed.

(* ------------------------------------------------------------------ *)
(* every registered built-in has a model                                *)

Lemma all_builtins_modelled : forall o,
  forallb (fun n => match call_builtin o n [] with Some _ => true | None => false end) builtin_names = true.
Proof. intro o. vm_compute. reflexivity. Qed.

(* ------------------------------------------------------------------ *)
(* only panic() panics                                                  *)

Lemma Some_np : forall x : bres, x <> BPanic -> Some x <> Some BPanic.
Proof. intros x H E. injection E as E. contradiction. Qed.

Lemma insp_np : forall o v k, (forall s, k s <> BPanic) -> insp o v k <> BPanic.
Proof. intros o v k H. unfold insp. destruct (inspect o v); [apply H | discriminate]. Qed.

Lemma sort_m_np : forall o l lower rv, sort_m o l lower rv <> BPanic.
Proof. intros. rewrite sort_m_unfold. destruct (opt_map _ l); discriminate. Qed.

Lemma match_m_np : forall o args, match_m o args <> BPanic.
Proof.
  intros o args. unfold match_m.
  destruct args as [|a [|b [|c r]]]; try discriminate.
  apply insp_np; intro s. apply insp_np; intro re.
  induction (split_lines s) as [|l ls IH]; [discriminate|].
  destruct (re_match o re (trim_space_m l)) as [[[|]|]|]; try discriminate. exact IH.
Qed.

Ltac np :=
  repeat (first [ discriminate
                | apply sort_m_np
                | apply match_m_np
                | apply insp_np; intro
                | match goal with |- context [match ?x with _ => _ end] => destruct x end ]).

Lemma min_max_np : forall o args w, min_max o args w <> BPanic.
Proof. intros o args w. unfold min_max. np. Qed.

Lemma time_field_np : forall o args w, time_field o args w <> BPanic.
Proof. intros o args w. unfold time_field. np. Qed.

Lemma never_panics : forall o name args,
  str_eqb name (L "panic") = false -> call_builtin o name args <> Some BPanic.
Proof.
  intros o name args Hn. unfold call_builtin.
  repeat match goal with
  | |- (if is_name ?n ?s then _ else _) <> _ =>
      destruct (is_name n s) eqn:?;
      [ solve [ apply Some_np; first [apply min_max_np | apply time_field_np | np]
              | exfalso; unfold is_name in *; congruence ] | ]
  | |- (if ?a || ?b then _ else _) <> _ =>
      destruct a eqn:?; [ cbn [orb]; solve [apply Some_np; np] | cbn [orb] ]
  end.
  discriminate.
Qed.

(* ------------------------------------------------------------------ *)
(* wrong argument counts                                                *)

Ltac arity :=
  repeat (first [ reflexivity
                | match goal with |- context [match ?x with _ => _ end] => is_var x; destruct x end ]).

Lemma wrong_arity : forall o args,
  (List.length args <> 1%nat ->
     call_builtin o (L "len") args = Some (BVal VNull) /\ call_builtin o (L "int") args = Some (BVal VNull) /\
     call_builtin o (L "float") args = Some (BVal VNull) /\ call_builtin o (L "string") args = Some (BVal VNull) /\
     call_builtin o (L "lower") args = Some (BVal VNull) /\ call_builtin o (L "upper") args = Some (BVal VNull) /\
     call_builtin o (L "trim") args = Some (BVal VNull) /\ call_builtin o (L "type") args = Some (BVal VNull) /\
     call_builtin o (L "keys") args = Some (BVal VNull) /\ call_builtin o (L "hour") args = Some (BVal VNull) /\
     call_builtin o (L "weekday") args = Some (BVal VNull)) /\
  (List.length args <> 2%nat ->
     call_builtin o (L "min") args = Some (BVal VNull) /\ call_builtin o (L "max") args = Some (BVal VNull) /\
     call_builtin o (L "join") args = Some (BVal VNull) /\ call_builtin o (L "split") args = Some (BVal VNull) /\
     call_builtin o (L "match") args = Some (BVal (VBool false))) /\
  (List.length args <> 3%nat ->
     call_builtin o (L "between") args = Some (BVal VNull) /\ call_builtin o (L "replace") args = Some (BVal VNull)).
Proof.
  intros o args.
  destruct args as [|a [|b [|c [|d r]]]]; (split; [|split]); intro Hlen;
    try (exfalso; apply Hlen; reflexivity); clear Hlen;
    repeat split;
    lazy beta iota zeta delta [call_builtin is_name L str_eqb list_ascii_of_string map N_of_ascii
                               N.eqb Pos.eqb andb orb N.add N.mul Pos.add Pos.mul Pos.succ
                               time_field min_max match_m];
    arity.
Qed.

(* ------------------------------------------------------------------ *)
(* civil dates                                                          *)
(* Howard Hinnant's algorithms with floor division (Z.div): the era is z / 146097
   resp. y / 400 for every sign, so the round trip holds for all years. *)

Section Civil.
Open Scope Z_scope.

Definition mp_len (mp : Z) : Z :=
  if mp =? 11 then 29 else if (mp =? 1) || (mp =? 3) || (mp =? 6) || (mp =? 8) then 30 else 31.

Lemma month_part : forall mp d, 0 <= mp <= 11 -> 1 <= d -> d <= mp_len mp ->
  (5 * ((153 * mp + 2) / 5 + d - 1) + 2) / 153 = mp /\ 0 <= (153 * mp + 2) / 5 + d - 1 <= 365 /\
  ((153 * mp + 2) / 5 + d - 1 = 365 -> mp = 11 /\ d = 29).
Proof.
  intros mp d Hmp Hd1 Hd2. unfold mp_len in Hd2.
  assert (C : mp = 0 \/ mp = 1 \/ mp = 2 \/ mp = 3 \/ mp = 4 \/ mp = 5 \/ mp = 6 \/ mp = 7 \/ mp = 8 \/ mp = 9 \/ mp = 10 \/ mp = 11) by lia.
  repeat (destruct C as [C|C]); subst mp; simpl in Hd2; 
  match goal with |- context [(?a * ?b + 2) / 5] => let v := eval vm_compute in ((a * b + 2) / 5) in change ((a * b + 2) / 5) with v end;
  (split; [|lia]); Z.div_mod_to_equations; lia.
Qed.

Lemma year_part : forall yoe doy, 0 <= yoe <= 399 -> 0 <= doy <= 365 ->
  (doy = 365 -> (yoe + 1) mod 4 = 0 /\ ((yoe + 1) mod 100 <> 0 \/ yoe = 399)) ->
  let doe := yoe * 365 + yoe / 4 - yoe / 100 + doy in
  (doe - doe / 1460 + doe / 36524 - doe / 146096) / 365 = yoe /\ 0 <= doe <= 146096.
Proof.
  intros yoe doy Hy Hd Hl doe. subst doe.
  split; Z.div_mod_to_equations; lia.
Qed.

Lemma month_tab : forall y m d, 1 <= m <= 12 -> 1 <= d <= days_in_month y m ->
  let mp := if 2 <? m then m - 3 else m + 9 in
  0 <= mp <= 11 /\ d <= mp_len mp /\ (if mp <? 10 then mp + 3 else mp - 9) = m /\
  (mp = 11 -> d = 29 -> is_leap y = true) /\ (m <=? 2) = (10 <=? mp).
Proof.
  intros y m d Hm Hd.
  assert (C : m = 1 \/ m = 2 \/ m = 3 \/ m = 4 \/ m = 5 \/ m = 6 \/ m = 7 \/ m = 8 \/ m = 9 \/ m = 10 \/ m = 11 \/ m = 12) by lia.
  unfold days_in_month in Hd. remember (is_leap y) as lp.
  repeat (destruct C as [C|C]); subst m; simpl in Hd |- *; unfold mp_len; simpl;
    repeat split; try lia; try reflexivity; try (intros; lia);
    intros; destruct lp; first [reflexivity | lia].
Qed.

Lemma leap_yoe : forall y' yoe era, y' = era * 400 + yoe -> 0 <= yoe <= 399 -> is_leap (y' + 1) = true ->
  (yoe + 1) mod 4 = 0 /\ ((yoe + 1) mod 100 <> 0 \/ yoe = 399).
Proof.
  intros y' yoe era E Hy Hl. unfold is_leap in Hl. subst y'.
  apply orb_true_iff in Hl. destruct Hl as [Hl|Hl].
  - apply andb_true_iff in Hl. destruct Hl as [H4 H100].
    apply Z.eqb_eq in H4. apply negb_true_iff, Z.eqb_neq in H100.
    split; [|left]; Z.div_mod_to_equations; lia.
  - apply Z.eqb_eq in Hl. split; [|right]; Z.div_mod_to_equations; lia.
Qed.

Lemma civil_roundtrip : forall y m d,
  -1000000 <= y <= 1000000 -> valid_date y m d = true ->
  civil_from_days (days_from_civil y m d) = (y, m, d).
Proof.
  intros y m d _ Hv. unfold valid_date in Hv.
  repeat (apply andb_true_iff in Hv; destruct Hv as [Hv ?]).
  repeat match goal with H : (_ <=? _) = true |- _ => apply Z.leb_le in H end.
  destruct (month_tab y m d) as (Hmp & Hlen & Hm' & Hleap & Hm2); [lia | lia |].
  unfold days_from_civil. cbv zeta.
  set (y' := if m <=? 2 then y - 1 else y) in *.
  set (mp := if 2 <? m then m - 3 else m + 9) in *.
  set (era := y' / 400).
  set (yoe := y' - era * 400).
  assert (Hyoe : 0 <= yoe <= 399) by (unfold yoe, era; Z.div_mod_to_equations; lia).
  destruct (month_part mp d Hmp) as (Hmp' & Hdoy & Hdoy365); [lia | assumption |].
  set (doy := (153 * mp + 2) / 5 + d - 1) in *.
  assert (Hy1 : y = if m <=? 2 then y' + 1 else y').
  { unfold y'. destruct (m <=? 2); lia. }
  assert (Hl : doy = 365 -> (yoe + 1) mod 4 = 0 /\ ((yoe + 1) mod 100 <> 0 \/ yoe = 399)).
  { intro E. destruct (Hdoy365 E) as [E1 E2]. apply (leap_yoe y' yoe era); [unfold yoe; lia | assumption |].
    rewrite Hm2 in Hy1. rewrite E1 in Hy1. simpl in Hy1. rewrite <- Hy1. auto. }
  destruct (year_part yoe doy Hyoe Hdoy Hl) as (Hyp & Hdoe).
  set (doe := yoe * 365 + yoe / 4 - yoe / 100 + doy) in *.
  unfold civil_from_days. cbv zeta.
  replace (era * 146097 + doe - 719468 + 719468) with (era * 146097 + doe) by lia.
  set (z := era * 146097 + doe).
  assert (Hze : z / 146097 = era).
  { unfold z. symmetry. apply (Z.div_unique _ _ era doe); lia. }
  rewrite Hze.
  replace (z - era * 146097) with doe by (unfold z; lia).
  rewrite Hyp.
  replace (doe - (365 * yoe + yoe / 4 - yoe / 100)) with doy by (unfold doe; lia).
  rewrite Hmp'. rewrite Hm'.
  replace (yoe + era * 400) with y' by (unfold yoe; lia).
  rewrite <- Hy1.
  f_equal. unfold doy. lia.
Qed.
End Civil.

(* ------------------------------------------------------------------ *)
(* time of day                                                          *)

Lemma time_of_day : forall t : Z,
  let '(fs, _) := utc_fields t in
  match fs with
  | [h; mi; s; _; _; _] => (0 <= h < 24 /\ 0 <= mi < 60 /\ 0 <= s < 60 /\ (t mod 86400 = h * 3600 + mi * 60 + s))%Z
  | _ => False
  end.
Proof.
  intro t. unfold utc_fields.
  destruct (civil_from_days (t / 86400)) as [[y m] d].
  cbv zeta.
  pose proof (Z.mod_pos_bound t 86400 eq_refl) as Hs.
  set (secs := (t mod 86400)%Z) in *. clearbody secs.
  repeat split; Z.div_mod_to_equations; lia.
Qed.

(* OpsProofs.v - the machine's binary / unary / index operations (Model/VM.v)
   agree with the operator table of the language (Spec/Ops.v).
   Complete proofs only; no axioms. *)
From Coq Require Import Floats Lia.
From EF Require Import Model.Base Model.Value Model.Builtins Model.VM Spec.Ops.
Open Scope N_scope.

(* ------------------------------------------------------------------ *)
(* truth values *)

Lemma spec_truth_truthy : forall v, spec_truth v = truthy v.
Proof.
  destruct v as [z|f|s|b| | |s|l|l|v off]; try reflexivity;
    try (destruct s; reflexivity); destruct l; reflexivity.
Qed.

(* ------------------------------------------------------------------ *)
(* the binary operator table *)

Lemma binop_and_or : forall o l r,
  vm_binop o BAnd l r = spec_binop o BAnd l r /\
  vm_binop o BOr l r = spec_binop o BOr l r.
Proof.
  intros o l r. unfold vm_binop, spec_binop, vbool.
  rewrite !spec_truth_truthy. split; reflexivity.
Qed.

Lemma binop_table : forall (o : stdlib) (op : binop) (l r : value),
  vm_binop o op l r = spec_binop o op l r.
Proof.
  intros o op l r.
  destruct op;
    try (apply (proj1 (binop_and_or o l r)));
    try (apply (proj2 (binop_and_or o l r)));
    destruct l; destruct r; reflexivity.
Qed.

(* ------------------------------------------------------------------ *)
(* corollaries about arithmetic *)

Lemma int_pow_is_int : forall a b v, int_pow a b = Ok v -> exists z, v = VInt z.
Proof.
  intros a b v. unfold int_pow.
  repeat match goal with
         | |- context [if ?c then _ else _] => destruct c
         end; intro H; inversion H; eauto.
Qed.

Lemma int_stays_int : forall o op x y v,
  is_arith op = true -> vm_binop o op (VInt x) (VInt y) = Ok v -> exists z, v = VInt z.
Proof.
  intros o op x y v Ha H.
  destruct op; try discriminate Ha; unfold vm_binop, int_binop in H.
  - inversion H; eauto.
  - inversion H; eauto.
  - inversion H; eauto.
  - destruct (y =? 0)%Z; inversion H; eauto.
  - destruct (y =? 0)%Z; inversion H; eauto.
  - eapply int_pow_is_int; eassumption.
Qed.

Lemma float_arith_is_float : forall o op a b v,
  is_arith op = true -> float_binop o op a b = Ok v -> exists f, v = VFloat f.
Proof.
  intros o op a b v Ha H.
  destruct op; try discriminate Ha; unfold float_binop in H.
  - inversion H; eauto.
  - inversion H; eauto.
  - inversion H; eauto.
  - destruct (PrimFloat.eqb b f_zero); inversion H; eauto.
  - destruct (Z_of_float a); [destruct (Z_of_float b); [destruct (_ =? 0)%Z|]|];
      inversion H; eauto.
  - destruct (pow_float o a b); inversion H; eauto.
Qed.

Lemma mixed_is_float : forall o op x y v,
  is_arith op = true ->
  (vm_binop o op (VInt x) (VFloat y) = Ok v \/ vm_binop o op (VFloat y) (VInt x) = Ok v) ->
  exists f, v = VFloat f.
Proof.
  intros o op x y v Ha [H|H].
  - apply (float_arith_is_float o op (float_of_Z x) y v Ha).
    destruct op; try discriminate Ha; exact H.
  - apply (float_arith_is_float o op y (float_of_Z x) v Ha).
    destruct op; try discriminate Ha; exact H.
Qed.

(* ------------------------------------------------------------------ *)
(* division and modulo by zero *)

Lemma float_of_Z_0 : float_of_Z 0 = 0%float.
Proof. reflexivity. Qed.

Lemma Z_of_float_0 : Z_of_float 0%float = Some 0%Z.
Proof. reflexivity. Qed.

Lemma float_div_zero : forall o a v, float_binop o BDiv a 0%float <> Ok v.
Proof. intros o a v. unfold float_binop. discriminate. Qed.

Lemma float_mod_zero : forall o a v, float_binop o BMod a 0%float <> Ok v.
Proof.
  intros o a v. unfold float_binop. rewrite Z_of_float_0.
  destruct (Z_of_float a); discriminate.
Qed.

Lemma div_mod_zero : forall o l r,
  (r = VInt 0 \/ r = VFloat 0%float) -> (exists z, l = VInt z) \/ (exists f, l = VFloat f) ->
  (forall v, vm_binop o BDiv l r <> Ok v) /\
  (forall v, vm_binop o BMod l r <> Ok v).
Proof.
  intros o l r [Hr|Hr] [[z Hl]|[f Hl]]; subst l r; split; intro v.
  - unfold vm_binop, int_binop. discriminate.
  - unfold vm_binop, int_binop. discriminate.
  - change (float_binop o BDiv f (float_of_Z 0) <> Ok v).
    rewrite float_of_Z_0. apply float_div_zero.
  - change (float_binop o BMod f (float_of_Z 0) <> Ok v).
    rewrite float_of_Z_0. apply float_mod_zero.
  - apply (float_div_zero o (float_of_Z z) v).
  - apply (float_mod_zero o (float_of_Z z) v).
  - apply (float_div_zero o f v).
  - apply (float_mod_zero o f v).
Qed.

(* ------------------------------------------------------------------ *)
(* operand types *)

Lemma type_errors : forall o op l r v,
  op <> BAnd -> op <> BOr -> vm_binop o op l r = Ok v ->
  (is_number l = true /\ is_number r = true) \/
  (type_of l = TyStr /\ type_of r = TyStr) \/
  (type_of l = TyBool /\ type_of r = TyBool) \/
  (type_of l = TyStr /\ type_of r = TyRegexp /\ (op = BMatch \/ op = BNotMatch)) \/
  (op = BIn /\ type_of r = TyArray).
Proof.
  intros o op l r v Hand Hor H.
  destruct l; destruct r;
    first
      [ left; split; reflexivity
      | right; left; split; reflexivity
      | right; right; left; split; reflexivity
      | destruct op; cbv beta iota delta [vm_binop string_binop] in H;
        first
          [ discriminate H
          | exfalso; apply Hand; reflexivity
          | exfalso; apply Hor; reflexivity
          | right; right; right; left; split; [reflexivity | split; [reflexivity | auto]]
          | right; right; right; right; split; reflexivity ] ].
Qed.

(* ------------------------------------------------------------------ *)
(* strings, numeric equality, unary operators *)

Lemma string_ops : forall o a b,
  vm_binop o BAdd (VStr a) (VStr b) = Ok (VStr (a ++ b)) /\
  vm_binop o BLt (VStr a) (VStr b) = Ok (VBool (str_ltb a b)) /\
  vm_binop o BEq (VStr a) (VStr b) = Ok (VBool (str_eqb a b)) /\
  vm_binop o BIn (VStr a) (VStr b) = Ok (VBool (contains b a)).
Proof. intros; repeat split; reflexivity. Qed.

Lemma numeric_equality : forall o x f,
  vm_binop o BEq (VInt x) (VFloat f) = Ok (VBool (PrimFloat.eqb (float_of_Z x) f)) /\
  vm_binop o BNe (VInt x) (VFloat f) = Ok (VBool (negb (PrimFloat.eqb (float_of_Z x) f))).
Proof. intros; split; reflexivity. Qed.

Lemma unops : forall v,
  (forall z, v = VInt z -> vm_minus v = Ok (VInt (wrap64 (- z)))) /\
  (type_of v <> TyInt -> type_of v <> TyFloat -> vm_minus v = Err EScript /\ vm_sqrt v = Err EScript).
Proof.
  intro v. split.
  - intros z ->. reflexivity.
  - intros Hi Hf. destruct v; try (split; reflexivity).
    + exfalso; apply Hi; reflexivity.
    + exfalso; apply Hf; reflexivity.
Qed.

(* ------------------------------------------------------------------ *)
(* indexing *)

Lemma nthN_nth_opt : forall A (l : list A) (n : N), nthN l n = nth_opt l (N.to_nat n).
Proof.
  induction l as [|x l IH]; intro n; simpl.
  - reflexivity.
  - destruct (N.eqb_spec n 0) as [->|Hn].
    + reflexivity.
    + rewrite IH.
      replace (N.to_nat n) with (S (N.to_nat (N.pred n))) by lia.
      reflexivity.
Qed.

Lemma nth_opt_none : forall A (l : list A) (n : nat),
  (List.length l <= n)%nat -> nth_opt l n = None.
Proof.
  induction l as [|x l IH]; intros n H; simpl in *.
  - reflexivity.
  - destruct n as [|n]; [lia|]. apply IH. lia.
Qed.

Lemma index_pos : forall A (l : list A) (z : Z) (f : A -> value),
  (if (z <? 0)%Z then Ok VNull
   else match nthN l (Z.to_N z) with Some c => Ok (f c) | None => Ok VNull end)
  = Ok (if ((0 <=? z)%Z && (z <? Z.of_nat (List.length l))%Z)
        then match nth_opt l (Z.to_nat z) with Some c => f c | None => VNull end
        else VNull).
Proof.
  intros A l z f.
  destruct (Z.ltb_spec z 0) as [Hz|Hz].
  - destruct (Z.leb_spec 0 z); [lia|]. reflexivity.
  - destruct (Z.leb_spec 0 z); [|lia].
    rewrite nthN_nth_opt, Z_N_nat. simpl andb.
    destruct (Z.ltb_spec z (Z.of_nat (List.length l))) as [Hl|Hl].
    + destruct (nth_opt l (Z.to_nat z)); reflexivity.
    + rewrite nth_opt_none by lia. reflexivity.
Qed.

Lemma index_table : forall o l i, vm_index o l i = spec_index o l i.
Proof.
  intros o l i.
  destruct l; try (destruct i; reflexivity).
  - (* VStr *)
    destruct i; try reflexivity.
    exact (index_pos N s z (fun c => VStr [c])).
  - (* VArray *)
    destruct i; try reflexivity.
    exact (index_pos value l z (fun v => v)).
Qed.

(* EnvProofs.v - variables are bindings, not shared cells (C15), and the
   scope discipline of the environment (C06): assignment rebinds exactly one
   name, declarations shadow and are undone by closing the scope, every run
   starts and ends with no open scope, running never changes the program.
   Complete proofs only; no axioms. *)
From Coq Require Import Floats Lia.
From EF Require Import Model.Base Gen.Tables Model.Code Model.Value Model.Env Model.Reflect
                       Model.Compiler Model.VM Model.Api.
Open Scope N_scope.

(* ------------------------------------------------------------------ *)
(* names *)

Lemma str_eqb_refl : forall s, str_eqb s s = true.
Proof.
  induction s as [|x s IH]; cbn [str_eqb]; [reflexivity|].
  rewrite N.eqb_refl, IH. reflexivity.
Qed.

Lemma str_eqb_eq : forall a b, str_eqb a b = true -> a = b.
Proof.
  induction a as [|x a IH]; destruct b as [|y b]; cbn [str_eqb]; intro H; try discriminate.
  - reflexivity.
  - apply andb_true_iff in H. destruct H as [H1 H2].
    apply N.eqb_eq in H1. apply IH in H2. subst. reflexivity.
Qed.

(* ------------------------------------------------------------------ *)
(* one scope *)

Lemma assoc_set_get_same : forall n v l, assoc_get n (assoc_set n v l) = Some v.
Proof.
  intros n v. induction l as [|[k x] l IH]; cbn [assoc_set assoc_get].
  - rewrite str_eqb_refl. reflexivity.
  - destruct (str_eqb k n) eqn:E; cbn [assoc_get]; rewrite E; [reflexivity | exact IH].
Qed.

Lemma assoc_set_get_other : forall n v m l,
  str_eqb n m = false -> assoc_get m (assoc_set n v l) = assoc_get m l.
Proof.
  intros n v m l H. induction l as [|[k x] l IH]; cbn [assoc_set assoc_get].
  - rewrite H. reflexivity.
  - destruct (str_eqb k n) eqn:E; cbn [assoc_get].
    + apply str_eqb_eq in E. subst k. rewrite H. reflexivity.
    + rewrite IH. reflexivity.
Qed.

(* ------------------------------------------------------------------ *)
(* the stack of local scopes *)

Lemma local_update_get_same : forall n v ss x,
  local_get n ss = Some x -> local_get n (local_update n v ss) = Some v.
Proof.
  intros n v. induction ss as [|[fr s] ss IH]; intros x H; cbn [local_get local_update] in *.
  - discriminate.
  - destruct (assoc_get n s) as [y|] eqn:E; cbn [local_get].
    + rewrite assoc_set_get_same. reflexivity.
    + destruct fr as [|k]; cbn [is_frame] in *; [discriminate|]. cbn [local_get is_frame]. rewrite E. apply (IH x). exact H.
Qed.

Lemma local_update_get_other : forall n v m ss,
  str_eqb n m = false -> local_get m (local_update n v ss) = local_get m ss.
Proof.
  intros n v m ss H. induction ss as [|[fr s] ss IH]; cbn [local_get local_update].
  - reflexivity.
  - destruct (assoc_get n s) as [y|] eqn:E; cbn [local_get].
    + rewrite (assoc_set_get_other n v m s H). reflexivity.
    + destruct fr as [|k]; cbn [local_get is_frame]; [reflexivity|]. rewrite IH. reflexivity.
Qed.

(* ------------------------------------------------------------------ *)
(* C15: assignment rebinds that one name and no other *)

Lemma set_get_same : forall e n v, env_get (env_set e n v) n = Some v.
Proof.
  intros e n v. unfold env_set.
  destruct (local_get n (scopes e)) as [x|] eqn:E; unfold env_get; cbn [scopes globals].
  - rewrite (local_update_get_same n v (scopes e) x E). reflexivity.
  - rewrite E. apply assoc_set_get_same.
Qed.

Lemma set_get_other : forall e n v m,
  str_eqb n m = false -> env_get (env_set e n v) m = env_get e m.
Proof.
  intros e n v m H. unfold env_set.
  destruct (local_get n (scopes e)) as [x|] eqn:E; unfold env_get; cbn [scopes globals].
  - rewrite (local_update_get_other n v m (scopes e) H). reflexivity.
  - rewrite (assoc_set_get_other n v m (globals e) H). reflexivity.
Qed.

(* ------------------------------------------------------------------ *)
(* one step of the machine: x++ / x-- and assignment *)

Ltac closed_eval t := let v := eval vm_compute in t in change t with v.
Ltac step_simpl :=
  repeat match goal with
  | |- context [N.eqb ?a ?b] => closed_eval (N.eqb a b)
  | |- context [N.ltb 1 (op_len ?a)] => closed_eval (N.ltb 1 (op_len a))
  | |- context [op_len ?a] => closed_eval (op_len a)
  | |- context [binop_of_opcode ?a] => closed_eval (binop_of_opcode a)
  end; cbv beta iota; cbn [orb].

Lemma inc_dec_local :
  forall o consts funcs fns obj code ip m idx name z top s k (is_inc : bool),
  byte_at code ip = Some (if is_inc then OpInc else OpDec) -> operand_at code ip = Some idx ->
  ip < lenN code -> polls m = None ->
  nthN consts idx = Some (VStr name) ->
  lookup o obj (menv m) name = Ok (VInt z) -> stk m = top :: s ->
  exec o consts funcs fns obj (S k) code ip m =
  exec o consts funcs fns obj k code (ip + 3)
       (mkM s (env_set (menv m) (trim_dollar name) (VInt (wrap64 (z + (if is_inc then 1 else -1))))) (trace m) (polls m)).
Proof.
  intros o consts funcs fns obj code ip m idx name z top s k is_inc Hb Ho Hip Hp Hn Hlk Hs.
  assert (Hl : (lenN code <=? ip) = false) by (apply N.leb_gt; exact Hip).
  cbn [exec]. rewrite Hl, Hp.
  destruct is_inc; rewrite Hb; step_simpl; rewrite Ho; step_simpl; rewrite Hn;
    change (name_of o (VStr name)) with (@Ok str name); cbn [bind];
    rewrite Hlk; cbn [bind]; rewrite Hs; rewrite ?Hp; reflexivity.
Qed.

Lemma set_local :
  forall o consts funcs fns obj code ip m name v s k,
  byte_at code ip = Some OpSet -> ip < lenN code -> polls m = None ->
  stk m = VStr name :: v :: s -> (forall x off, v <> VIter x off) ->
  exec o consts funcs fns obj (S k) code ip m =
  exec o consts funcs fns obj k code (ip + 1) (mkM s (env_set (menv m) (trim_dollar name) v) (trace m) (polls m)).
Proof.
  intros o consts funcs fns obj code ip m name v s k Hb Hip Hp Hs Hv.
  assert (Hl : (lenN code <=? ip) = false) by (apply N.leb_gt; exact Hip).
  assert (Ev : match v with VIter x _ => x | _ => v end = v).
  { destruct v; try reflexivity. exfalso. eapply Hv. reflexivity. }
  cbn [exec]. rewrite Hl, Hp, Hb. step_simpl. rewrite Hs.
  change (name_of o (VStr name)) with (@Ok str name). cbv beta iota.
  rewrite Ev. rewrite ?Hp. reflexivity.
Qed.

(* ------------------------------------------------------------------ *)
(* running never changes the prepared program *)

Lemma execute_shape : forall o fuel e obj r e',
  execute o fuel e obj = (r, e') ->
  match emachine e with
  | None => e' = e
  | Some mc => exists m1,
      e' = mkEval (escript e) (efns e) (menv m1) (ectx e) (Some (mkMachine (mprog mc) (polls m1))) /\
      m1 = snd (run_main o (pconsts (mprog mc)) (pfuncs (mprog mc)) (efns e) obj fuel
                  (pmain (mprog mc)) (mkM [] (eenv e) [] (mctx mc)))
  end.
Proof.
  intros o fuel e obj r e' H. unfold execute in H.
  destruct (emachine e) as [mc|].
  - destruct (run_main o (pconsts (mprog mc)) (pfuncs (mprog mc)) (efns e) obj fuel
                (pmain (mprog mc)) (mkM [] (eenv e) [] (mctx mc))) as [out m1].
    exists m1. split; [|reflexivity].
    destruct out as [v|x]; [|destruct x]; injection H as _ <-; reflexivity.
  - injection H as _ <-. reflexivity.
Qed.

Lemma program_immutable : forall o fuel e obj r e',
  execute o fuel e obj = (r, e') ->
  match emachine e, emachine e' with
  | Some mc, Some mc' => mprog mc' = mprog mc
  | None, None => True
  | _, _ => False
  end.
Proof.
  intros o fuel e obj r e' H. apply execute_shape in H.
  destruct (emachine e) as [mc|] eqn:E.
  - destruct H as [m1 [-> _]]. reflexivity.
  - subst e'. rewrite E. exact I.
Qed.

(* ------------------------------------------------------------------ *)
(* C06: declarations and scopes *)

Lemma declare_shadows : forall e k n v,
  env_get (env_declare (env_push e k) n v) n = Some v /\
  env_truncate (env_declare (env_push e k) n v) (env_depth e) = e.
Proof.
  intros [g ss] k n v. split.
  - unfold env_get, env_declare, env_push. cbn [scopes globals local_get assoc_set assoc_get].
    rewrite str_eqb_refl. reflexivity.
  - unfold env_truncate, env_declare, env_push, env_depth. cbn [scopes globals List.length].
    replace (S (List.length ss) - List.length ss)%nat with 1%nat by lia. reflexivity.
Qed.

Lemma declare_other : forall e n v m,
  str_eqb n m = false -> env_get (env_declare e n v) m = env_get e m.
Proof.
  intros e n v m H. unfold env_declare.
  destruct (scopes e) as [|[fr s] ss] eqn:E; [reflexivity|].
  unfold env_get. cbn [scopes globals]. rewrite E. cbn [local_get].
  rewrite (assoc_set_get_other n v m s H). reflexivity.
Qed.

Lemma declare_globals : forall e n v, globals (env_declare e n v) = globals e.
Proof. intros e n v. unfold env_declare. destruct (scopes e) as [|[fr s] ss]; reflexivity. Qed.

Lemma set_global : forall e n v,
  local_get n (scopes e) = None ->
  env_set e n v = mkEnv (assoc_set n v (globals e)) (scopes e).
Proof. intros e n v H. unfold env_set. rewrite H. reflexivity. Qed.

Lemma truncate_depth : forall e d,
  (d <= env_depth e)%nat -> env_depth (env_truncate e d) = d.
Proof.
  intros e d H. unfold env_depth, env_truncate in *. cbn [scopes].
  rewrite skipn_length. lia.
Qed.

Lemma truncate_zero_scopes : forall e, scopes (env_truncate e 0) = [].
Proof.
  intro e. unfold env_truncate. cbn [scopes]. rewrite Nat.sub_0_r. apply skipn_all.
Qed.

Lemma run_scope_balance : forall o consts funcs fns obj fuel main m out m',
  run_main o consts funcs fns obj fuel main m = (out, m') -> scopes (menv m') = [].
Proof.
  intros o consts funcs fns obj fuel main m out m' H. unfold run_main in H.
  destruct main as [|b main].
  - injection H as _ <-. cbn [menv]. apply truncate_zero_scopes.
  - destruct (exec o consts funcs fns obj fuel (b :: main) 0
                (mkM [] (env_truncate (menv m) 0) (trace m) (polls m))) as [out1 m1].
    injection H as _ <-. cbn [menv]. apply truncate_zero_scopes.
Qed.

(* ------------------------------------------------------------------ *)
(* C06: the scope of a function call hides the callers' locals *)

(* inside a fresh call frame nothing is local: not even what the callers declared *)
Lemma frame_no_locals : forall e n, local_get n (scopes (env_push_frame e)) = None.
Proof. reflexivity. Qed.

(* a name read in a fresh call frame is read from the globals, whatever the
   callers' scopes hold *)
Lemma frame_hides_callers : forall e n,
  env_get (env_push_frame e) n = assoc_get n (globals e).
Proof. reflexivity. Qed.

(* an assignment in a fresh call frame binds a global; the frame and every
   scope of the callers are left exactly as they were *)
Lemma assignment_in_callee_is_global : forall e n v,
  env_set (env_push_frame e) n v =
  mkEnv (assoc_set n v (globals e)) (scopes (env_push_frame e)).
Proof. reflexivity. Qed.

(* the same below any number of parameters / locals / loop scopes of the
   callee: what is found is found without looking past the frame *)
Lemma local_get_frame : forall n inner s outer1 outer2,
  local_get n (inner ++ (SFrame, s) :: outer1) = local_get n (inner ++ (SFrame, s) :: outer2).
Proof.
  intros n inner s outer1 outer2. induction inner as [|[fr x] inner IH]; cbn [app local_get].
  - reflexivity.
  - rewrite IH. reflexivity.
Qed.

Lemma local_update_frame : forall n v inner s outer,
  exists inner' s', local_update n v (inner ++ (SFrame, s) :: outer) = inner' ++ (SFrame, s') :: outer /\
                    List.length inner' = List.length inner.
Proof.
  intros n v inner s outer. induction inner as [|[fr x] inner IH]; cbn [app local_update].
  - destruct (assoc_get n s).
    + exists [], (assoc_set n v s). split; reflexivity.
    + exists [], s. split; reflexivity.
  - destruct (assoc_get n x).
    + exists ((fr, assoc_set n v x) :: inner), s. split; reflexivity.
    + destruct fr as [|k]; cbn [is_frame].
      * exists ((SFrame, x) :: inner), s. split; reflexivity.
      * destruct IH as (inner' & s' & -> & Hl). exists ((SLoop k, x) :: inner'), s'.
        split; [reflexivity|]. cbn [List.length]. rewrite Hl. reflexivity.
Qed.
